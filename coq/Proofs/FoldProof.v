(* C03, last clause: folding the events of a pattern subscription over its snapshot gives what pget of the pattern
   returns.  Stated per key: for every key on which the two matchers agree (all keys, except the key K itself for a
   pattern K/# -- known finding F2), after any history of requests of every kind except publish, publish streams and
   import, the folded value is the stored one if the pattern matches and nothing otherwise. *)
From WB Require Import Base.Str Base.StrFacts Base.Json Base.JsonFacts Model.Key Model.Consts Model.Store Model.Match Model.Subs
  Model.Entry Model.Core Spec.MapSpec Proofs.StoreFacts Proofs.TreeInv Proofs.GoodNames Proofs.SubsFacts Proofs.MatchFacts
  Proofs.CoreFacts Proofs.C03Proof Proofs.StreamProof Proofs.C07Proof Proofs.LenFacts Proofs.C01Proof
  Proofs.LockHistory Proofs.SessionEnd Proofs.StreamAll Proofs.SyncFacts.
From Coq Require Import Lia.

Local Arguments N.add : simpl never.

(* ---- the client's fold ---- *)
Definition fstate := str -> option json.
Definition fupd (f : fstate) (k : str) (x : option json) : fstate := fun k' => if str_eqb k k' then x else f k'.
Definition fold_ev (f : fstate) (e : event) : fstate :=
  match e with
  | EPValue kvs => fold_left (fun f kv => fupd f (fst kv) (Some (snd kv))) kvs f
  | EPDeleted kvs => fold_left (fun f kv => fupd f (fst kv) None) kvs f
  | _ => f
  end.
Definition fold_evs (f : fstate) (evs : list event) : fstate := fold_left fold_ev evs f.

Definition vmap := list str -> option json.
Definition val_of (s : core) : vmap := fun q => option_map entry_val (abs s q).
Definition vstep (m : vmap) (c : change) : vmap :=
  fun q => if path_eqb (ch_path c) q then (if ch_deleted c then None else Some (ch_val c)) else m q.
Definition vapply (cs : list change) (m : vmap) : vmap := fold_left vstep cs m.

Definition good_path (q : list str) : Prop := q <> [] /\ Forall good_seg q.

Lemma key_of_inj q q' : good_path q -> good_path q' -> key_of q = key_of q' -> q = q'.
Proof.
  intros (Hn & Hg) (Hn' & Hg') E. pose proof (parse_join_good q Hn Hg) as H. pose proof (parse_join_good q' Hn' Hg') as H'.
  fold (key_of q) in H. fold (key_of q') in H'. rewrite E in H. congruence.
Qed.

Section OneSubscription.
  Variable sb : subscriber.
  Hypothesis Hps : s_pstate sb = true.
  Let P := s_pat sb.

  (* the fold and the values agree on the keys where the two matchers do *)
  Definition AgreeM (m : vmap) (F : fstate) : Prop :=
    forall q, good_path q -> sub_match P q = store_match P q ->
      F (key_of q) = if store_match P q then m q else None.

  Definition change_wf (m : vmap) (cs : list change) (c : change) : Prop :=
    ch_key c = key_of (ch_path c) /\ good_path (ch_path c) /\
    (ch_changed c = false -> cs = [c] /\ ch_deleted c = false /\ m (ch_path c) = Some (ch_val c)).

  Lemma fold_one m F c :
    AgreeM m F -> ch_key c = key_of (ch_path c) -> good_path (ch_path c) ->
    (ch_changed c = false -> ch_deleted c = false /\ m (ch_path c) = Some (ch_val c)) ->
    AgreeM (vstep m c) (fold_evs F (wanted sb [c])).
  Proof.
    intros HA Hk Hg Hun q Hq Hm. unfold vstep. cbn [wanted flat_map]. rewrite app_nil_r.
    unfold wants. fold P.
    destruct (path_eqb_spec (ch_path c) q) as [E|Hne].
    - subst q. rewrite Hm.
      destruct (store_match P (ch_path c)) eqn:Esm; cbn [andb].
      + destruct (ch_changed c || negb (s_unique sb))%bool eqn:Ew.
        * unfold fold_evs, event_for. rewrite Hps. cbn [fold_left].
          destruct (ch_deleted c); cbn [fold_ev fold_left fst snd]; unfold fupd; now rewrite Hk, str_eqb_refl.
        * cbn [fold_evs fold_left]. apply orb_false_iff in Ew as (Ec & _). destruct (Hun Ec) as (-> & Hv).
          rewrite (HA _ Hq (eq_trans Hm (eq_sym Esm))), Esm. exact Hv.
      + cbn [fold_evs fold_left]. now rewrite (HA _ Hq (eq_trans Hm (eq_sym Esm))), Esm.
    - assert (Hkey : str_eqb (ch_key c) (key_of q) = false).
      { apply str_eqb_neq. rewrite Hk. intros E. apply Hne. now apply key_of_inj. }
      assert (Hsame : fold_evs F (if (sub_match P (ch_path c) && (ch_changed c || negb (s_unique sb)))%bool
                                  then [event_for sb (ch_key c) (ch_val c) (ch_deleted c)] else []) (key_of q) = F (key_of q)).
      { destruct (_ && _)%bool; [|reflexivity]. unfold fold_evs, event_for. rewrite Hps. cbn [fold_left].
        destruct (ch_deleted c); cbn [fold_ev fold_left fst snd]; unfold fupd; now rewrite Hkey. }
      rewrite Hsame. exact (HA _ Hq Hm).
  Qed.

  Lemma wanted_app a b : wanted sb (a ++ b) = wanted sb a ++ wanted sb b.
  Proof. unfold wanted. apply flat_map_app. Qed.

  Lemma fold_changes cs : forall m F,
    AgreeM m F -> (forall c, In c cs -> change_wf m cs c) ->
    AgreeM (vapply cs m) (fold_evs F (wanted sb cs)).
  Proof.
    induction cs as [|c cs IH]; intros m F HA Hwf; [exact HA|].
    change (c :: cs) with ([c] ++ cs). rewrite wanted_app. unfold fold_evs, vapply. rewrite !fold_left_app.
    cbn [fold_left]. fold (fold_evs F (wanted sb [c])). fold (vapply cs (vstep m c)).
    fold (fold_evs (fold_evs F (wanted sb [c])) (wanted sb cs)).
    destruct (Hwf c (or_introl eq_refl)) as (Hk & Hg & Hun).
    apply IH.
    - apply fold_one; try assumption. intros Ec. destruct (Hun Ec) as (_ & H). exact H.
    - intros c' Hin. destruct (Hwf c' (or_intror Hin)) as (Hk' & Hg' & Hun'). split; [exact Hk'|]. split; [exact Hg'|].
      intros Ec'. destruct (Hun' Ec') as (E & _). exfalso. cbn [app] in E. injection E as -> E. subst cs. destruct Hin.
  Qed.
End OneSubscription.

(* ---- the changes of a request are what it does to the stored values ---- *)
Definition quiet_kind (o : op) : Prop :=
  match o with OPublish _ _ | OSPub _ _ _ | OImport _ => False | _ => True end.

Lemma vapply_dels (l : list (list str * entry)) : forall m q,
  vapply (map del_change l) m q = if existsb (fun x => path_eqb (fst x) q) l then None else m q.
Proof.
  induction l as [|x l IH]; intros m q; [reflexivity|]. cbn [map vapply fold_left existsb]. fold (vapply (map del_change l) (vstep m (del_change x))).
  rewrite IH. destruct (existsb (fun x0 => path_eqb (fst x0) q) l); [now rewrite orb_true_r|]. rewrite orb_false_r.
  unfold vstep, del_change. cbn [ch_path ch_deleted]. now destruct (path_eqb (fst x) q).
Qed.

Lemma decide_value cur e f ex ch e' : decide cur e f = DOk ex ch e' -> entry_val e' = entry_val e.
Proof.
  unfold decide, bump. intros H.
  destruct cur as [[c|c vc]|], e as [v|v n];
    repeat match type of H with context [if ?x then _ else _] => destruct x end;
    try discriminate; injection H as _ _ <-; reflexivity.
Qed.

Lemma decide_unchanged cur e f ex e' :
  decide cur e f = DOk ex false e' -> option_map entry_val cur = Some (entry_val e).
Proof.
  unfold decide, bump. intros H.
  destruct cur as [[c|c vc]|], e as [v|v n]; cbn [option_map entry_val];
    repeat match type of H with context [if ?x then _ else _] => destruct x eqn:? end;
    try discriminate; injection H as _ H _;
    apply Bool.negb_false_iff, json_eqb_eq in H; now subst.
Qed.

Theorem changes_delta s o :
  Inv s -> elem o -> quiet_kind o -> o_res (snd (step s o)) <> RCrash ->
  (forall q, val_of (fst (step s o)) q = vapply (changes s o) (val_of s) q) /\
  (forall c, In c (changes s o) -> change_wf (val_of s) (changes s o) c).
Proof.
  intros HI He Hq Hnc. pose proof HI as (Hw & Hc & Hg & Hr).
  assert (Hother : other_op o -> changes s o = [] ->
            (forall q, val_of (fst (step s o)) q = vapply (changes s o) (val_of s) q) /\
            (forall c, In c (changes s o) -> change_wf (val_of s) (changes s o) c)).
  { intros Ho Hch. rewrite Hch. split; [|intros c []]. intros q. unfold val_of, abs. now rewrite (other_data_same s o Ho). }
  destruct o; try contradiction; try (apply Hother; [exact I|reflexivity]);
    try (split; [intros q; reflexivity|intros c []]); cbn [step changes] in *.
  - (* set *)
    pose proof (do_insert_effect s c k (Plain v) force HI) as Heff. cbv zeta in Heff. revert Heff Hnc.
    unfold do_insert, ins_changes.
    destruct (check_read_only k c); [intros _ _; split; [intros q; reflexivity|intros c0 []]|].
    destruct (parse_segments k) as [p|code] eqn:Ep; [|intros _ _; split; [intros q; reflexivity|intros c0 []]].
    destruct (special_value_bad k _); [intros _ _; split; [intros q; reflexivity|intros c0 []]|].
    destruct (decide (lookup (data s) p) (Plain v) force) as [ex ch e'| |] eqn:Ed;
      [|intros _ _; split; [intros q; reflexivity|intros c0 []]|intros _ Hn; now elim Hn].
    cbn [fst snd o_res]. intros (p0 & ex0 & ch0 & e0 & Hp0 & Hd0 & _ & Hm) _. injection Hp0 as <-.
    unfold abs in Hd0. rewrite Ed in Hd0. injection Hd0 as <- <- <-.
    destruct (parse_segments_good _ _ Ep) as (Hsp & Hgp & Hne).
    split.
    + intros q. unfold val_of. rewrite Hm. cbn [vapply fold_left]. unfold vstep, m_set. cbn [ch_path ch_deleted ch_val entry_val].
      destruct (path_eqb p q); [|reflexivity]. cbn [option_map]. now rewrite (decide_value _ _ _ _ _ _ Ed).
    + intros c0 [<-|[]]. unfold change_wf. cbn [ch_key ch_path ch_changed ch_deleted ch_val entry_val].
      split; [unfold key_of; rewrite Hsp; symmetry; apply join_split|]. split; [split; assumption|].
      intros ->. split; [reflexivity|]. split; [reflexivity|]. unfold val_of, abs. exact (decide_unchanged _ _ _ _ _ Ed).
  - (* cset *)
    pose proof (do_insert_effect s c k (Cas v ver) force HI) as Heff. cbv zeta in Heff. revert Heff Hnc.
    unfold do_insert, ins_changes.
    destruct (check_read_only k c); [intros _ _; split; [intros q; reflexivity|intros c0 []]|].
    destruct (parse_segments k) as [p|code] eqn:Ep; [|intros _ _; split; [intros q; reflexivity|intros c0 []]].
    destruct (special_value_bad k _); [intros _ _; split; [intros q; reflexivity|intros c0 []]|].
    destruct (decide (lookup (data s) p) (Cas v ver) force) as [ex ch e'| |] eqn:Ed;
      [|intros _ _; split; [intros q; reflexivity|intros c0 []]|intros _ Hn; now elim Hn].
    cbn [fst snd o_res]. intros (p0 & ex0 & ch0 & e0 & Hp0 & Hd0 & _ & Hm) _. injection Hp0 as <-.
    unfold abs in Hd0. rewrite Ed in Hd0. injection Hd0 as <- <- <-.
    destruct (parse_segments_good _ _ Ep) as (Hsp & Hgp & Hne).
    split.
    + intros q. unfold val_of. rewrite Hm. cbn [vapply fold_left]. unfold vstep, m_set. cbn [ch_path ch_deleted ch_val entry_val].
      destruct (path_eqb p q); [|reflexivity]. cbn [option_map]. now rewrite (decide_value _ _ _ _ _ _ Ed).
    + intros c0 [<-|[]]. unfold change_wf. cbn [ch_key ch_path ch_changed ch_deleted ch_val entry_val].
      split; [unfold key_of; rewrite Hsp; symmetry; apply join_split|]. split; [split; assumption|].
      intros ->. split; [reflexivity|]. split; [reflexivity|]. unfold val_of, abs. exact (decide_unchanged _ _ _ _ _ Ed).
  - (* delete *)
    pose proof (do_delete_effect s c k HI) as Heff. cbv zeta in Heff. revert Heff Hnc. unfold do_delete.
    destruct (check_read_only k c); [intros _ _; split; [intros q; reflexivity|intros c0 []]|].
    destruct (parse_segments k) as [p|code] eqn:Ep; [|intros _ _; split; [intros q; reflexivity|intros c0 []]].
    destruct (negb (root_ok (del_at p (data s)))); [intros _ Hn; now elim Hn|].
    destruct (parse_segments_good _ _ Ep) as (Hsp & Hgp & Hne).
    destruct (lookup (data s) p) as [e|] eqn:El; cbn [fst snd o_res].
    + intros (p0 & e0 & Hp0 & _ & _ & _ & Hm) _. injection Hp0 as <-. split.
      * intros q. unfold val_of. rewrite Hm. cbn [vapply fold_left]. unfold vstep, m_del. cbn [ch_path ch_deleted].
        now destruct (path_eqb p q).
      * intros c0 [<-|[]]. unfold change_wf. cbn [ch_key ch_path ch_changed].
        split; [unfold key_of; rewrite Hsp; symmetry; apply join_split|]. split; [split; assumption|discriminate].
    + intros (_ & Hm) _. split; [|intros c0 []]. intros q. unfold val_of. now rewrite Hm.
  - (* pdelete *)
    pose proof (do_pdelete_effect s c p HI) as Heff. cbv zeta in Heff. revert Heff Hnc. unfold do_pdelete.
    destruct (check_read_only p c); [intros _ _; split; [intros q; reflexivity|intros c0 []]|].
    destruct (reach_bad (data s) (kseg_parse p)); [intros _ _; split; [intros q; reflexivity|intros c0 []]|].
    destruct (negb (root_ok _)); [intros _ Hn; now elim Hn|]. rewrite delm_matches.
    set (s' := set_data s _ _).
    destruct (notify_deleted_ok s' (collect (data s) [] (kseg_parse p))) as (evs & Hn).
    { apply Forall_forall. intros [q e] Hin. cbn [fst].
      apply (collect_spec (data s) [] _ q e Hw) in Hin as (k & -> & Hl & _). cbn [app]. exact (stored_key_good s k e HI Hl). }
    rewrite Hn. cbn [fst snd o_res]. intros (_ & Hm & _) _. split.
    + intros q. unfold val_of. rewrite Hm, vapply_dels. unfold m_pdel.
      destruct (store_match (kseg_parse p) q) eqn:Esm.
      * destruct (abs s q) as [e|] eqn:El; [|now destruct (existsb _ _)].
        assert (Hx : existsb (fun x => path_eqb (fst x) q) (collect (data s) [] (kseg_parse p)) = true).
        { apply existsb_exists. exists (q, e). split; [|apply path_eqb_refl]. apply (collect_spec _ _ _ _ _ Hw). exists q. auto. }
        now rewrite Hx.
      * assert (Hx : existsb (fun x => path_eqb (fst x) q) (collect (data s) [] (kseg_parse p)) = false).
        { apply Bool.not_true_is_false. intros Hx. apply existsb_exists in Hx as ([q' e] & Hin & Hp). cbn [fst] in Hp.
          destruct (path_eqb_spec q' q) as [->|]; [|discriminate].
          apply (collect_spec _ _ _ _ _ Hw) in Hin as (k & E & _ & Hsm). cbn [app] in E. subst k. congruence. }
        now rewrite Hx.
    + intros c0 Hin. apply in_map_iff in Hin as ([q e] & <- & Hin).
      apply (collect_spec _ _ _ _ _ Hw) in Hin as (k & E & Hl & _). cbn [app] in E. subst k.
      unfold change_wf, del_change. cbn [ch_key ch_path ch_changed fst snd].
      destruct (stored_key_good s q e HI Hl) as (Hne & Hgq). split; [reflexivity|]. split; [split; assumption|discriminate].
Qed.

(* ---- one request, runs, histories ---- *)
Lemma AgreeM_ext sb m m' F : (forall q, m q = m' q) -> AgreeM sb m F -> AgreeM sb m' F.
Proof. intros E H q Hq Hm. rewrite <- E. now apply H. Qed.

Lemma fold_evs_app F a b : fold_evs F (a ++ b) = fold_evs (fold_evs F a) b.
Proof. unfold fold_evs. apply fold_left_app. Qed.

Lemma quiet_import_ok o : quiet_kind o -> import_ok o.
Proof. destruct o; try exact (fun _ => I). contradiction. Qed.

Lemma fold_elem sb s o F :
  s_pstate sb = true -> K s -> Registered s sb -> elem o -> quiet_kind o -> foreign sb o ->
  o_res (snd (step s o)) <> RCrash -> AgreeM sb (val_of s) F ->
  AgreeM sb (val_of (fst (step s o))) (fold_evs F (chan (s_inst sb) (o_events (snd (step s o))))).
Proof.
  intros Hps HK HR He Hq Hf Hnc HA.
  destruct (elem_step s sb o HK HR He Hf (quiet_import_ok o Hq) Hnc) as (Hch & _ & _). rewrite Hch.
  destruct (changes_delta s o (k_inv _ HK) He Hq Hnc) as (Hd & Hwf).
  apply (AgreeM_ext sb (vapply (changes s o) (val_of s))); [intros q; symmetry; apply Hd|].
  now apply fold_changes.
Qed.

Lemma fold_run sb ops : forall s F,
  s_pstate sb = true -> K s -> Registered s sb -> Forall elem ops -> Forall quiet_kind ops -> Forall (foreign sb) ops ->
  nocrash (trace s ops) -> AgreeM sb (val_of s) F ->
  AgreeM sb (val_of (final s ops)) (fold_evs F (chan (s_inst sb) (evs_of (trace s ops)))).
Proof.
  induction ops as [|o ops IH]; intros s F Hps HK HR He Hq Hf Hnc HA; [exact HA|].
  apply Forall_cons_iff in He as (He & Hes). apply Forall_cons_iff in Hq as (Hq & Hqs). apply Forall_cons_iff in Hf as (Hf & Hfs).
  assert (Hc : o_res (snd (step s o)) <> RCrash) by (apply nocrash_res, Hnc; now left).
  assert (Hnc' : nocrash (trace (fst (step s o)) ops)) by (intros x Hx; apply Hnc; now right).
  destruct (elem_step s sb o HK HR He Hf (quiet_import_ok o Hq) Hc) as (_ & HK' & HR').
  rewrite chan_evs_cons, fold_evs_app. change (final s (o :: ops)) with (final (fst (step s o)) ops).
  apply IH; try assumption. now apply fold_elem.
Qed.

Lemma expand_quiet s o : quiet_kind o -> Forall quiet_kind (snd (expand s o)).
Proof.
  intros Hq. destruct o; try (cbn [expand snd]; constructor; [exact Hq|constructor]).
  - cbn [expand]. destruct (N.eqb c 0 || existsb (N.eqb c) (clients s))%bool; cbn [snd]; [constructor|].
    unfold conn_ops. repeat constructor.
  - cbn [expand]. destruct (N.eqb c 0); cbn [snd]; [constructor|].
    unfold end_ops. apply Forall_forall. intros o Hin.
    repeat (apply in_app_iff in Hin as [Hin|Hin]);
      try (apply in_map_iff in Hin as (x & <- & _)); try (destruct Hin as [<-|[]]); exact I.
Qed.

Lemma fold_any sb s o F :
  s_pstate sb = true -> K s -> Registered s sb -> quiet_kind o -> foreign sb o ->
  o_res (snd (step s o)) <> RCrash -> AgreeM sb (val_of s) F ->
  AgreeM sb (val_of (fst (step s o))) (fold_evs F (chan (s_inst sb) (o_events (snd (step s o))))).
Proof.
  intros Hps HK HR Hq Hf Hnc HA.
  assert (Hc : is_crash (snd (step s o)) = false) by (unfold is_crash; destruct (o_res (snd (step s o))); congruence).
  destruct (expand_runs s o Hc) as (Ffin & Ev & _ & Nc).
  destruct (expand_shape s o) as (Ed & Es & En & Hel & _ & Hfor).
  assert (HK0 : K (fst (expand s o))) by (apply (K_same s); [exact Ed|exact Es|lia|exact HK]).
  assert (HR0 : Registered (fst (expand s o)) sb) by (unfold Registered; now rewrite Es).
  assert (HA0 : AgreeM sb (val_of (fst (expand s o))) F).
  { apply (AgreeM_ext sb (val_of s)); [|exact HA]. intros q. unfold val_of, abs. now rewrite Ed. }
  rewrite Ffin, Ev. apply fold_run; try assumption; [now apply expand_quiet|now apply Hfor].
Qed.

(* C03: every history of requests of every kind except publish, publish streams and import *)
Theorem fold_is_pget os : forall s sb F,
  s_pstate sb = true -> K s -> Registered s sb -> Forall quiet_kind os -> Forall (foreign sb) os -> no_crash_run s os ->
  AgreeM sb (val_of s) F ->
  AgreeM sb (val_of (final s os)) (fold_evs F (stream (s_inst sb) s os)).
Proof.
  induction os as [|o os IH]; intros s sb F Hps HK HR Hq Hf Hnc HA; [exact HA|].
  apply Forall_cons_iff in Hq as (Hq & Hqs). apply Forall_cons_iff in Hf as (Hf & Hfs). destruct Hnc as (Hc & Hrest).
  cbn [stream]. rewrite fold_evs_app. change (final s (o :: os)) with (final (fst (step s o)) os).
  destruct (any_step s o HK (quiet_import_ok o Hq) Hc) as (HK' & H2). destruct (H2 sb HR Hf) as (_ & HR').
  apply IH; try assumption. now apply fold_any.
Qed.

(* ---- the snapshot ---- *)
Lemma fold_pairs k v (kvs : list (str * json)) : forall f,
  (forall kv, In kv kvs -> fst kv = k -> snd kv = v) ->
  fold_left (fun f kv => fupd f (fst kv) (Some (snd kv))) kvs f k =
  if existsb (fun kv => str_eqb (fst kv) k) kvs then Some v else f k.
Proof.
  induction kvs as [|kv kvs IH]; intros f H; [reflexivity|]. cbn [fold_left existsb].
  rewrite IH by (intros kv' Hin; apply H; now right).
  destruct (existsb (fun kv0 => str_eqb (fst kv0) k) kvs); [now rewrite orb_true_r|]. rewrite orb_false_r.
  unfold fupd. destruct (str_eqb_spec (fst kv) k) as [E|]; [|reflexivity]. now rewrite (H kv (or_introl eq_refl) E).
Qed.

Theorem snapshot_agrees s pat kvs :
  Inv s -> do_pget s pat = Ok kvs ->
  forall sb, s_pat sb = kseg_parse pat -> AgreeM sb (val_of s) (fold_ev (fun _ => None) (EPValue kvs)).
Proof.
  intros HI Hp sb Hpat q (Hne & Hg) Hm. pose proof HI as (Hw & _). unfold do_pget in Hp.
  destruct (reach_bad (data s) (kseg_parse pat)); [discriminate|]. injection Hp as <-. rewrite Hpat in *.
  cbn [fold_ev]. set (P := kseg_parse pat) in *.
  assert (Hin : forall q' e, In (q', e) (collect (data s) [] P) <-> abs s q' = Some e /\ store_match P q' = true).
  { intros q' e. rewrite (collect_spec _ _ _ _ _ Hw). cbn [app]. split; [intros (k & -> & H1 & H2); auto|intros (H1 & H2); exists q'; auto]. }
  destruct (abs s q) as [e|] eqn:El.
  - destruct (store_match P q) eqn:Esm.
    + rewrite (fold_pairs (key_of q) (entry_val e)).
      * assert (Hx : existsb (fun kv => str_eqb (fst kv) (key_of q)) (map kv_of (collect (data s) [] P)) = true).
        { apply existsb_exists. exists (kv_of (q, e)). split; [apply in_map, Hin; auto|cbn; apply str_eqb_refl]. }
        rewrite Hx. unfold val_of. now rewrite El.
      * intros kv Hkv Ek. apply in_map_iff in Hkv as ([q' e'] & <- & Hq'). cbn [kv_of fst snd] in *.
        apply Hin in Hq' as (El' & _). destruct (stored_key_good s q' e' HI El') as (Hn' & Hg').
        assert (q' = q) by (apply key_of_inj; [split; assumption|split; assumption|exact Ek]). subst q'. congruence.
    + rewrite (fold_pairs (key_of q) JNull).
      * assert (Hx : existsb (fun kv => str_eqb (fst kv) (key_of q)) (map kv_of (collect (data s) [] P)) = false).
        { apply Bool.not_true_is_false. intros Hx. apply existsb_exists in Hx as (kv & Hkv & Ek). apply str_eqb_eq in Ek.
          apply in_map_iff in Hkv as ([q' e'] & <- & Hq'). cbn [kv_of fst] in Ek. apply Hin in Hq' as (El' & Hsm').
          destruct (stored_key_good s q' e' HI El') as (Hn' & Hg').
          assert (q' = q) by (apply key_of_inj; [split; assumption|split; assumption|exact Ek]). subst q'. congruence. }
        now rewrite Hx.
      * intros kv Hkv Ek. exfalso. apply in_map_iff in Hkv as ([q' e'] & <- & Hq'). cbn [kv_of fst snd] in *.
        apply Hin in Hq' as (El' & Hsm'). destruct (stored_key_good s q' e' HI El') as (Hn' & Hg').
        assert (q' = q) by (apply key_of_inj; [split; assumption|split; assumption|exact Ek]). subst q'. congruence.
  - rewrite (fold_pairs (key_of q) JNull).
    + assert (Hx : existsb (fun kv => str_eqb (fst kv) (key_of q)) (map kv_of (collect (data s) [] P)) = false).
      { apply Bool.not_true_is_false. intros Hx. apply existsb_exists in Hx as (kv & Hkv & Ek). apply str_eqb_eq in Ek.
        apply in_map_iff in Hkv as ([q' e'] & <- & Hq'). cbn [kv_of fst] in Ek. apply Hin in Hq' as (El' & Hsm').
        destruct (stored_key_good s q' e' HI El') as (Hn' & Hg').
        assert (q' = q) by (apply key_of_inj; [split; assumption|split; assumption|exact Ek]). subst q'. congruence. }
      rewrite Hx. unfold val_of. rewrite El. now destruct (store_match P q).
    + intros kv Hkv Ek. exfalso. apply in_map_iff in Hkv as ([q' e'] & <- & Hq'). cbn [kv_of fst snd] in *.
      apply Hin in Hq' as (El' & Hsm'). destruct (stored_key_good s q' e' HI El') as (Hn' & Hg').
      assert (q' = q) by (apply key_of_inj; [split; assumption|split; assumption|exact Ek]). subst q'. congruence.
Qed.

(* the two matchers agree on every key unless the pattern ends in `#` and the key is its prefix (known finding F2) *)
Lemma matchers_agree P q : ~ In Multi P -> sub_match P q = store_match P q.
Proof.
  revert q. induction P as [|x P IH]; intros q Hn; [now destruct q|].
  destruct x as [s| |]; [| |exfalso; apply Hn; now left]; destruct q as [|y q]; cbn [sub_match store_match]; try reflexivity.
  - rewrite IH by (intros H; apply Hn; now right). reflexivity.
  - apply IH. intros H; apply Hn; now right.
Qed.
