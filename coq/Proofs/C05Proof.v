From WB Require Import Base.Str Base.StrFacts Base.Json Model.Key Model.Store Model.Match Model.Subs Model.Entry Model.Core
  Spec.MapSpec Proofs.StoreFacts Proofs.TreeInv.

Lemma collect_children_nil {V} (n : node V) : collect_children n [] = names (nkids n).
Proof. destruct n; reflexivity. Qed.
Lemma collect_children_multi {V} (n : node V) p : collect_children n (Multi :: p) = [].
Proof. destruct n; reflexivity. Qed.
Lemma collect_children_wild {V} (v : option V) cs tail :
  collect_children (Node v cs) (Wild :: tail) = flat_map (fun kc => collect_children (snd kc) tail) cs.
Proof. cbn [collect_children]. induction cs as [|[k c] cs IH]; cbn; [reflexivity|]. now rewrite IH. Qed.
Lemma collect_children_reg {V} (v : option V) cs s tail :
  collect_children (Node v cs) (Reg s :: tail) =
  match find_child s cs with Some c => collect_children c tail | None => [] end.
Proof.
  cbn [collect_children]. induction cs as [|[k c] cs IH]; cbn; [reflexivity|].
  destruct (str_eqb s k); [reflexivity|assumption].
Qed.

(* pls: the union of the children of all parents matching the pattern *)
Theorem collect_children_spec {V} (n : node V) : forall p x,
  wfn n ->
  (In x (collect_children n p) <->
   exists P m, parent_match p P = true /\ get_node n P = Some m /\ In x (names (nkids m))).
Proof.
  induction n as [v cs IH] using node_ind'. intros p x Hwf.
  apply wfn_unfold in Hwf as [Hnd Hwc]. rewrite Forall_forall in IH, Hwc.
  destruct p as [|s p].
  - rewrite collect_children_nil. cbn [nkids]. split.
    + intros H. exists [], (Node v cs). now repeat split.
    + intros ([|k P] & m & Hm & Hg & Hin); [|discriminate]. now injection Hg as <-.
  - destruct s as [s| |].
    + rewrite collect_children_reg. split.
      * destruct (find_child s cs) as [c|] eqn:Ef; [|contradiction].
        pose proof (find_child_In _ _ _ Ef) as Hin. intros H.
        apply (IH _ Hin p x (Hwc _ Hin)) in H as (P & m & Hm & Hg & Hx).
        exists (s :: P), m. cbn [parent_match get_node nkids]. now rewrite str_eqb_refl, Ef.
      * intros ([|k P] & m & Hm & Hg & Hx); [discriminate|]. cbn [parent_match] in Hm.
        apply andb_true_iff in Hm as [Hs Hm]. apply str_eqb_eq in Hs. subst k.
        cbn [get_node nkids] in Hg. destruct (find_child s cs) as [c|] eqn:Ef; [|discriminate].
        pose proof (find_child_In _ _ _ Ef) as Hin.
        apply (IH _ Hin p x (Hwc _ Hin)). now exists P, m.
    + rewrite collect_children_wild, in_flat_map. split.
      * intros ([k c] & Hin & H). cbn [snd] in H.
        apply (IH _ Hin p x (Hwc _ Hin)) in H as (P & m & Hm & Hg & Hx).
        exists (k :: P), m. cbn [parent_match get_node nkids]. now rewrite (In_find_child _ _ _ Hnd Hin).
      * intros ([|k P] & m & Hm & Hg & Hx); [discriminate|]. cbn [parent_match] in Hm.
        cbn [get_node nkids] in Hg. destruct (find_child k cs) as [c|] eqn:Ef; [|discriminate].
        pose proof (find_child_In _ _ _ Ef) as Hin. exists (k, c). split; [assumption|]. cbn [snd].
        apply (IH _ Hin p x (Hwc _ Hin)). now exists P, m.
    + rewrite collect_children_multi. split; [contradiction|].
      intros ([|k P] & m & Hm & _); discriminate.
Qed.

(* an ls notification (path, children) reaches exactly the ls-subscribers registered at that path *)
Theorem notify_ls_spec s notes i l :
  In (i, l) (notify_ls s notes) <->
  exists note sub, In note notes /\ In sub (lssubs s) /\ l_parent sub = fst note /\ i = l_inst sub /\ l = snd note.
Proof.
  unfold notify_ls. rewrite in_flat_map. split.
  - intros (note & Hn & H). apply in_map_iff in H as (sub & E & Hs). apply filter_In in Hs as [Hs Hp].
    injection E as <- <-. exists note, sub. repeat split; try assumption.
    now destruct (path_eqb_spec (l_parent sub) (fst note)).
  - intros (note & sub & Hn & Hs & Hp & -> & ->). exists note. split; [assumption|].
    apply in_map_iff. exists sub. split; [reflexivity|]. apply filter_In. split; [assumption|].
    rewrite Hp. apply path_eqb_refl.
Qed.
