(* C10, history level: along every chain of requests, completed flushes, crashes inside a flush (at any crash point)
   and kills, a restart yields exactly the recovery of the LAST COMPLETED flush: never an older snapshot, never a mix. *)
From Coq Require Import Lia List.
Import ListNotations.
From WB Require Import Base.Str Base.Json Model.Key Model.Consts Model.Store Model.Entry Model.Core Model.Codec Model.PersistConsts Model.Persist
  Proofs.CodecFacts Proofs.PersistFacts.
Local Open Scope N_scope.

(* what a start recovers from a completed flush of state l *)
Definition recovery (l : core) : core :=
  apply_gglw (core_of (strip_sys s_SYS (data l))) (all_grave_goods l) (all_last_wills l).

(* the directory holds the completed snapshot of l in its active slot *)
Definition holds (d : fs) (l : core) : Prop :=
  node_ok (strip_sys s_SYS (data l)) /\
  read_checked (slot_store (fs_has f_toggle d)) d = Some (fst (snapshot l)) /\
  read_checked (slot_gglw (fs_has f_toggle d)) d = Some (snd (snapshot l)).

Lemma holds_load d l : holds d l -> load_v3 d = Some (recovery l, d).
Proof.
  intros (Hok & Hs & Hg). unfold load_v3. rewrite Hs, Hg. unfold snapshot. cbn [fst snd bind].
  now rewrite (export_roundtrip _ Hok), gglw_roundtrip.
Qed.

Lemma holds_restart d l : holds d l -> restart d = (recovery l, d).
Proof. intros H. unfold restart, load. now rewrite (holds_load d l H). Qed.

Lemma holds_after_flush s d : node_ok (strip_sys s_SYS (data s)) -> holds (fst (flush None s d)) s.
Proof.
  intros Hok. destruct (flush_completes s d) as (_ & Ht & Hs & Hg). unfold holds. rewrite Ht. auto.
Qed.

Lemma holds_after_late_crash s d : node_ok (strip_sys s_SYS (data s)) -> holds (fst (flush (Some 16) s d)) s.
Proof.
  intros Hok. destruct (crash_after_flip_is_complete s d) as (Ht & Hs & Hg). unfold holds. rewrite Ht. auto.
Qed.

Lemma holds_after_early_crash s d c l : c < 16 -> holds d l -> holds (fst (flush (Some c) s d)) l.
Proof.
  intros Hc (Hok & Hs & Hg). destruct (load_after_crash s d c Hc) as (Ht & Hs' & Hg').
  unfold holds. rewrite Ht, Hs', Hg'. auto.
Qed.

(* a crash point beyond the last one is a flush that completes *)
Lemma flush_beyond s d c : 16 < c -> flush (Some c) s d = flush None s d.
Proof.
  intros Hc. unfold flush.
  assert (W : forall k name j d0, k + 8 <= c -> write_and_check k (Some c) name j d0 = write_and_check k None name j d0).
  { intros k name j d0 Hk. unfold write_and_check, write_to_disk.
    repeat match goal with |- context [N.eqb c ?x] => destruct (N.eqb_spec c x); [lia|] end. reflexivity. }
  rewrite (W 0) by lia. destruct (write_and_check 0 None _ _ d) as [d1 b1]. cbn [fst snd].
  destruct b1; [reflexivity|]. rewrite (W 8) by lia. destruct (write_and_check 8 None _ _ d1) as [d2 b2]. cbn [fst snd].
  destruct b2; [reflexivity|]. destruct (N.eqb_spec c 16); [lia|reflexivity].
Qed.

(* the chain, with the ghost "state at the last completed flush" *)
Definition gstep (st : core * fs * core) (e : pevent) : core * fs * core :=
  let '(s, d, l) := st in
  match e with
  | PReq o => (fst (step s o), d, l)
  | PFlush => (s, fst (flush None s d), s)
  | PCrashInFlush k =>
      let d' := fst (flush (Some k) s d) in
      (fst (restart d'), snd (restart d'), if N.ltb k 16 then l else s)
  | PKillRestart => (fst (restart d), snd (restart d), l)
  end.

(* the ghost does not influence the machine *)
Lemma gstep_pstep st e : let '(s, d, _) := st in let '(s', d', _) := gstep st e in pstep (s, d) e = (s', d').
Proof.
  destruct st as [[s d] l]. destruct e; cbn [gstep pstep]; try reflexivity.
  - now destruct (restart (fst (flush (Some k) s d))).
  - now destruct (restart d).
Qed.

(* every state that is flushed can be written (values within the file format: versions in range) *)
Fixpoint flushable (st : core * fs * core) (es : list pevent) : Prop :=
  match es with
  | [] => True
  | e :: es' =>
      (match e with PFlush | PCrashInFlush _ => node_ok (strip_sys s_SYS (data (fst (fst st)))) | _ => True end) /\
      flushable (gstep st e) es'
  end.

Theorem chain_step s d l e :
  holds d l -> (match e with PFlush | PCrashInFlush _ => node_ok (strip_sys s_SYS (data s)) | _ => True end) ->
  let '(s', d', l') := gstep (s, d, l) e in
  holds d' l' /\
  (match e with PCrashInFlush _ | PKillRestart => s' = recovery l' | _ => True end).
Proof.
  intros H Hok. destruct e as [o| |k|]; cbn [gstep].
  - split; [exact H|exact I].
  - split; [now apply holds_after_flush|exact I].
  - destruct (N.ltb_spec k 16) as [Hk|Hk].
    + pose proof (holds_after_early_crash s d k l Hk H) as H'. rewrite (holds_restart _ _ H'). cbn [fst snd]. auto.
    + destruct (N.eq_dec k 16) as [->|Hne].
      * pose proof (holds_after_late_crash s d Hok) as H'. rewrite (holds_restart _ _ H'). cbn [fst snd]. auto.
      * rewrite flush_beyond by lia. pose proof (holds_after_flush s d Hok) as H'. rewrite (holds_restart _ _ H'). cbn [fst snd]. auto.
  - rewrite (holds_restart _ _ H). cbn [fst snd]. auto.
Qed.

Fixpoint grun (st : core * fs * core) (es : list pevent) : core * fs * core :=
  match es with [] => st | e :: es' => grun (gstep st e) es' end.

(* C10 over every chain: once a flush has completed, whatever follows -- requests, further flushes, crashes at any
   crash point of any later flush, kills -- the directory always holds, complete and selected, the snapshot of the
   last completed flush, and a start recovers exactly that one *)
Theorem chain_invariant es : forall s d l,
  holds d l -> flushable (s, d, l) es ->
  let '(s', d', l') := grun (s, d, l) es in
  holds d' l' /\ restart d' = (recovery l', d').
Proof.
  induction es as [|e es IH]; intros s d l H Hf.
  - cbn [grun]. split; [exact H|now apply holds_restart].
  - destruct Hf as [Hok Hrest]. cbn [grun].
    pose proof (chain_step s d l e H Hok) as Hs. cbn [fst] in Hok.
    destruct (gstep (s, d, l) e) as [[s1 d1] l1]. destruct Hs as [H1 _].
    now apply IH.
Qed.

(* the state a process comes up with after a crash or a kill is that recovery *)
Theorem crash_comes_up_with_last s d l e :
  holds d l -> (match e with PFlush | PCrashInFlush _ => node_ok (strip_sys s_SYS (data s)) | _ => True end) ->
  (match e with PCrashInFlush _ | PKillRestart => True | _ => False end) ->
  let '(s', _, l') := gstep (s, d, l) e in s' = recovery l'.
Proof.
  intros H Hok He. pose proof (chain_step s d l e H Hok) as Hs.
  destruct (gstep (s, d, l) e) as [[s1 d1] l1]. destruct Hs as [_ Hr]. destruct e; try contradiction; exact Hr.
Qed.
