(* C03, last clause, with imports: folding the events of a pattern subscription over its snapshot gives what pget of
   the pattern returns after any history of requests of every kind that changes the store -- imports included.  Only
   publish and publish streams stay out: they deliver a value without storing it (that is what they are for).
   An import sends one event per entry of the imported tree, changed or not (Worterbuch::import); the entries of a tree
   have distinct paths, so the unchanged ones still hold their value when their turn comes. *)
From Coq Require Import Lia List.
Import ListNotations.
From WB Require Import Base.Str Base.StrFacts Base.Json Base.JsonFacts Model.Key Model.Consts Model.Store Model.Match Model.Subs
  Model.Entry Model.Core Spec.MapSpec Proofs.StoreFacts Proofs.TreeInv Proofs.GoodNames Proofs.SubsFacts Proofs.MatchFacts
  Proofs.CoreFacts Proofs.C03Proof Proofs.StreamProof Proofs.C07Proof Proofs.LenFacts Proofs.C01Proof
  Proofs.LockHistory Proofs.SessionEnd Proofs.StreamAll Proofs.SyncFacts Proofs.FoldProof Proofs.NoCrash Proofs.Unconditional.
Local Open Scope N_scope.
Local Arguments N.add : simpl never.

Definition store_kind (o : op) : Prop :=
  match o with OPublish _ _ | OSPub _ _ _ => False | _ => True end.

(* ---- a run of changes on distinct paths ---- *)
Definition change_ok (m : vmap) (c : change) : Prop :=
  ch_key c = key_of (ch_path c) /\ good_path (ch_path c) /\
  (ch_changed c = false -> ch_deleted c = false /\ m (ch_path c) = Some (ch_val c)).

Lemma vapply_notin cs : forall m q, (forall c, In c cs -> ch_path c <> q) -> vapply cs m q = m q.
Proof.
  induction cs as [|c cs IH]; intros m q H; [reflexivity|].
  unfold vapply. cbn [fold_left]. fold (vapply cs (vstep m c)). rewrite IH by (intros c' Hc'; apply H; now right).
  unfold vstep. destruct (path_eqb_spec (ch_path c) q) as [E|]; [|reflexivity]. now elim (H c (or_introl eq_refl)).
Qed.

Lemma vapply_in cs : forall m q c,
  NoDup (map ch_path cs) -> In c cs -> ch_path c = q -> ch_deleted c = false -> vapply cs m q = Some (ch_val c).
Proof.
  induction cs as [|a cs IH]; intros m q c Hnd Hin Hp Hd; [destruct Hin|].
  cbn [map] in Hnd. apply NoDup_cons_iff in Hnd as (Hna & Hnd).
  unfold vapply. cbn [fold_left]. fold (vapply cs (vstep m a)).
  destruct Hin as [->|Hin].
  - rewrite vapply_notin.
    + unfold vstep. rewrite Hp, path_eqb_refl, Hd. reflexivity.
    + intros c' Hc' E. apply Hna. rewrite Hp, <- E. now apply in_map.
  - now apply (IH _ q c).
Qed.

Section OneSubscription.
  Variable sb : subscriber.
  Hypothesis Hps : s_pstate sb = true.

  Lemma fold_changes_nd cs : forall m F,
    AgreeM sb m F -> NoDup (map ch_path cs) -> (forall c, In c cs -> change_ok m c) ->
    AgreeM sb (vapply cs m) (fold_evs F (wanted sb cs)).
  Proof.
    induction cs as [|c cs IH]; intros m F HA Hnd Hwf; [exact HA|].
    cbn [map] in Hnd. apply NoDup_cons_iff in Hnd as (Hnc & Hnd).
    change (c :: cs) with ([c] ++ cs). rewrite wanted_app. unfold fold_evs, vapply. rewrite !fold_left_app.
    cbn [fold_left]. fold (fold_evs F (wanted sb [c])). fold (vapply cs (vstep m c)).
    fold (fold_evs (fold_evs F (wanted sb [c])) (wanted sb cs)).
    destruct (Hwf c (or_introl eq_refl)) as (Hk & Hg & Hun).
    apply IH; [|exact Hnd|].
    - now apply fold_one.
    - intros c' Hin. destruct (Hwf c' (or_intror Hin)) as (Hk' & Hg' & Hun'). split; [exact Hk'|]. split; [exact Hg'|].
      intros Ec'. destruct (Hun' Ec') as (Hd' & Hv'). split; [exact Hd'|].
      unfold vstep. destruct (path_eqb_spec (ch_path c) (ch_path c')) as [E|]; [|exact Hv'].
      exfalso. apply Hnc. rewrite E. now apply in_map.
  Qed.
End OneSubscription.

(* ---- what an import does to the stored values ---- *)
Lemma entry_eqb_same a b : entry_eqb a b = true -> a = b.
Proof.
  destruct a as [x|x n], b as [y|y m]; cbn; try discriminate.
  - intros H. apply json_eqb_eq in H. now subst.
  - intros H. apply andb_true_iff in H as (H1 & H2). apply json_eqb_eq in H1. apply N.eqb_eq in H2. now subst.
Qed.

Lemma import_delta s j other0 :
  Inv s -> dec_persisted j = Some other0 -> good_import other0 ->
  let cs := map imp_change (insertions (data s) (strip_sys s_SYS other0)) in
  (forall q, val_of (fst (do_import s j)) q = vapply cs (val_of s) q) /\
  NoDup (map ch_path cs) /\
  (forall c, In c cs -> change_ok (val_of s) c).
Proof.
  intros HI Ed Hgood0. cbv zeta.
  set (other := strip_sys s_SYS other0).
  destruct (good_import_strip other0 Hgood0) as (Hwo & Hgo & Hro). fold other in Hwo, Hgo, Hro.
  assert (Hent : forall q e, In (q, e) (entries other []) <-> lookup other q = Some e).
  { intros q e. rewrite entries_collect. split.
    - intros Hin. apply (collect_spec other [] [Multi] q e Hwo) in Hin as (k & E & Hl & _). cbn [app] in E. now subst k.
    - intros Hl. apply (collect_spec other [] [Multi] q e Hwo). exists q. cbn [app]. split; [reflexivity|]. split; [exact Hl|]. destruct q; reflexivity. }
  assert (Hpaths : map ch_path (map imp_change (insertions (data s) other)) = map fst (entries other [])).
  { unfold insertions. rewrite !map_map. apply map_ext. intros [q e]. reflexivity. }
  assert (Hin_cs : forall c, In c (map imp_change (insertions (data s) other)) <->
            exists q e, In (q, e) (entries other []) /\
              c = imp_change (q, e, match lookup (data s) q with Some e0 => negb (entry_eqb e0 e) | None => true end)).
  { intros c. unfold insertions. rewrite map_map, in_map_iff. split.
    - intros ([q e] & <- & Hin). exists q, e. split; [exact Hin|reflexivity].
    - intros (q & e & Hin & ->). exists (q, e). split; [reflexivity|exact Hin]. }
  split; [|split].
  - (* the values afterwards *)
    assert (Hm : forall q, abs (fst (do_import s j)) q = m_import (abs s) other q).
    { pose proof (do_import_effect s j HI) as H.
      assert (Hg : forall o', dec_persisted j = Some o' -> good_import o') by (intros o' E; congruence).
      specialize (H Hg). cbv zeta in H.
      destruct (o_res (snd (do_import s j))) eqn:Er; try contradiction;
        try (destruct H as (o' & E & _ & Hmeq); assert (o' = other0) by congruence; subst o'; exact Hmeq).
      (* an error: cannot be, the tree is good *)
      exfalso. revert Er. unfold do_import. rewrite Ed. cbv zeta. fold other.
      destruct (notify_imported_ok (set_data s (merge (data s) other) (count_values (merge (data s) other)))
                  (data s) (entries other [])) as (evs & Hn).
      { apply Forall_forall. intros [q e] Hin. cbn [fst]. apply Hent in Hin. split.
        - intros ->. rewrite lookup_nil in Hin. congruence.
        - exact (lookup_good _ _ _ Hgo Hin). }
      unfold insertions. rewrite Hn. cbn [snd o_res]. intros X. discriminate X. }
    intros q. unfold val_of at 1. rewrite Hm. unfold m_import.
    destruct (lookup other q) as [e|] eqn:El.
    + cbn [option_map]. symmetry.
      apply (vapply_in _ _ q (imp_change (q, e, match lookup (data s) q with Some e0 => negb (entry_eqb e0 e) | None => true end))).
      * rewrite Hpaths. now apply entries_nodup.
      * apply Hin_cs. exists q, e. split; [now apply Hent|reflexivity].
      * reflexivity.
      * reflexivity.
    + symmetry. rewrite vapply_notin; [reflexivity|].
      intros c Hc E. apply Hin_cs in Hc as (q' & e & Hin & ->). cbn in E. subst q'. apply Hent in Hin. congruence.
  - rewrite Hpaths. now apply entries_nodup.
  - intros c Hc. apply Hin_cs in Hc as (q & e & Hin & ->). apply Hent in Hin.
    unfold change_ok, imp_change. cbn [ch_key ch_path ch_changed ch_deleted ch_val fst snd].
    split; [reflexivity|]. split.
    + split.
      * intros ->. rewrite lookup_nil in Hin. congruence.
      * exact (lookup_good _ _ _ Hgo Hin).
    + intros Hch. split; [reflexivity|].
      destruct (lookup (data s) q) as [e0|] eqn:E0; [|discriminate].
      apply Bool.negb_false_iff, entry_eqb_same in Hch. subst e0.
      unfold val_of, abs. now rewrite E0.
Qed.

(* ---- one request, runs, histories ---- *)
Lemma store_kind_cases o : store_kind o -> quiet_kind o \/ exists j, o = OImport j.
Proof. destruct o; intros H; try (left; exact I); try contradiction. right. eauto. Qed.

Lemma fold_elem_all sb s o F :
  s_pstate sb = true -> K s -> Registered s sb -> elem o -> store_kind o -> import_ok o -> foreign sb o ->
  o_res (snd (step s o)) <> RCrash -> AgreeM sb (val_of s) F ->
  AgreeM sb (val_of (fst (step s o))) (fold_evs F (chan (s_inst sb) (o_events (snd (step s o))))).
Proof.
  intros Hps HK HR He Hk Hi Hf Hnc HA.
  destruct (store_kind_cases o Hk) as [Hq|(j & ->)]; [now apply fold_elem|].
  destruct (elem_step s sb (OImport j) HK HR He Hf Hi Hnc) as (Hch & _ & _). rewrite Hch.
  cbn [changes step]. destruct (dec_persisted j) as [other0|] eqn:Ed.
  - destruct (import_delta s j other0 (k_inv _ HK) Ed (Hi other0 Ed)) as (Hd & Hnd & Hok).
    apply (AgreeM_ext sb (vapply (map imp_change (insertions (data s) (strip_sys s_SYS other0))) (val_of s)));
      [intros q; symmetry; apply Hd|].
    now apply fold_changes_nd.
  - assert (E : fst (do_import s j) = s) by (unfold do_import; now rewrite Ed).
    rewrite E. exact HA.
Qed.

Lemma fold_run_all sb ops : forall s F,
  s_pstate sb = true -> K s -> Registered s sb -> Forall elem ops -> Forall store_kind ops -> Forall import_ok ops ->
  Forall (foreign sb) ops -> nocrash (trace s ops) -> AgreeM sb (val_of s) F ->
  AgreeM sb (val_of (final s ops)) (fold_evs F (chan (s_inst sb) (evs_of (trace s ops)))).
Proof.
  induction ops as [|o ops IH]; intros s F Hps HK HR He Hq Hi Hf Hnc HA; [exact HA|].
  apply Forall_cons_iff in He as (He & Hes). apply Forall_cons_iff in Hq as (Hq & Hqs).
  apply Forall_cons_iff in Hi as (Hi & His). apply Forall_cons_iff in Hf as (Hf & Hfs).
  assert (Hc : o_res (snd (step s o)) <> RCrash) by (apply nocrash_res, Hnc; now left).
  assert (Hnc' : nocrash (trace (fst (step s o)) ops)) by (intros x Hx; apply Hnc; now right).
  destruct (elem_step s sb o HK HR He Hf Hi Hc) as (_ & HK' & HR').
  rewrite chan_evs_cons, fold_evs_app. change (final s (o :: ops)) with (final (fst (step s o)) ops).
  apply IH; try assumption. now apply fold_elem_all.
Qed.

Lemma expand_store_kind s o : store_kind o -> Forall store_kind (snd (expand s o)).
Proof.
  intros Hq. destruct o; try (cbn [expand snd]; constructor; [exact Hq|constructor]).
  - cbn [expand]. destruct (N.eqb c 0 || existsb (N.eqb c) (clients s))%bool; cbn [snd]; [constructor|].
    unfold conn_ops. repeat constructor.
  - cbn [expand]. destruct (N.eqb c 0); cbn [snd]; [constructor|].
    unfold end_ops. apply Forall_forall. intros o Hin.
    repeat (apply in_app_iff in Hin as [Hin|Hin]);
      try (apply in_map_iff in Hin as (x & <- & _)); try (destruct Hin as [<-|[]]); exact I.
Qed.

Lemma fold_any_all sb s o F :
  s_pstate sb = true -> K s -> Registered s sb -> store_kind o -> import_ok o -> foreign sb o ->
  o_res (snd (step s o)) <> RCrash -> AgreeM sb (val_of s) F ->
  AgreeM sb (val_of (fst (step s o))) (fold_evs F (chan (s_inst sb) (o_events (snd (step s o))))).
Proof.
  intros Hps HK HR Hq Hi Hf Hnc HA.
  assert (Hc : is_crash (snd (step s o)) = false) by (unfold is_crash; destruct (o_res (snd (step s o))); congruence).
  destruct (expand_runs s o Hc) as (Ffin & Ev & _ & Nc).
  destruct (expand_shape s o) as (Ed & Es & En & Hel & Himp & Hfor).
  assert (HK0 : K (fst (expand s o))) by (apply (K_same s); [exact Ed|exact Es|lia|exact HK]).
  assert (HR0 : Registered (fst (expand s o)) sb) by (unfold Registered; now rewrite Es).
  assert (HA0 : AgreeM sb (val_of (fst (expand s o))) F).
  { apply (AgreeM_ext sb (val_of s)); [|exact HA]. intros q. unfold val_of, abs. now rewrite Ed. }
  rewrite Ffin, Ev. apply fold_run_all; try assumption; [now apply expand_store_kind|now apply Himp|now apply Hfor].
Qed.

(* C03: every history of requests of every kind except publish and publish streams *)
Theorem fold_is_pget_all os : forall s sb F,
  s_pstate sb = true -> K s -> Registered s sb -> Forall store_kind os -> Forall import_ok os -> Forall (foreign sb) os ->
  no_crash_run s os -> AgreeM sb (val_of s) F ->
  AgreeM sb (val_of (final s os)) (fold_evs F (stream (s_inst sb) s os)).
Proof.
  induction os as [|o os IH]; intros s sb F Hps HK HR Hq Hi Hf Hnc HA; [exact HA|].
  apply Forall_cons_iff in Hq as (Hq & Hqs). apply Forall_cons_iff in Hi as (Hi & His).
  apply Forall_cons_iff in Hf as (Hf & Hfs). destruct Hnc as (Hc & Hrest).
  cbn [stream]. rewrite fold_evs_app. change (final s (o :: os)) with (final (fst (step s o)) os).
  destruct (any_step s o HK Hi Hc) as (HK' & H2). destruct (H2 sb HR Hf) as (_ & HR').
  apply IH; try assumption. now apply fold_any_all.
Qed.

(* ... and without crash hypotheses: a subscription registered after ANY safe history [pre] (safe: no cset at version
   u64::MAX (F17), no import of a tree with irregular names, no nil client id), followed through ANY safe history [os]
   without publishes *)
Theorem fold_is_pget_all_safe pre os sb F :
  Forall safe_op (pre ++ os) -> s_pstate sb = true -> Registered (final init pre) sb ->
  Forall store_kind os -> Forall (foreign sb) os -> AgreeM sb (val_of (final init pre)) F ->
  AgreeM sb (val_of (final (final init pre) os)) (fold_evs F (stream (s_inst sb) (final init pre) os)).
Proof.
  intros H Hps HR Hq Hf HA. destruct (safe_prefix pre os H) as (HK & Hnc & Hi). now apply fold_is_pget_all.
Qed.
