(* check_for_read_only_key (worterbuch.rs:1487-1520) and its call sites. *)
From WB Require Import Base.Str Base.StrFacts Base.Json Model.Key Model.Consts Model.Store Model.Entry Model.Core
  Proofs.StoreFacts.

(* the guard on a literal key: what a non-internal client may write under $SYS *)
Theorem guard_literal key c :
  c <> 0 -> key <> [] ->
  match split slash key with
  | p0 :: rest =>
      if str_eqb p0 s_SYS then
        (check_read_only key c = None <->
         exists p3 more, rest = s_clients :: client_str c :: p3 :: more /\
                         (p3 = s_graveGoods \/ p3 = s_lastWill \/ p3 = s_clientName))
        /\ (check_read_only key c <> None -> check_read_only key c = Some E_ReadOnlyKey)
      else check_read_only key c = None
  | [] => True
  end.
Proof.
  intros Hc Hk. unfold check_read_only. destruct key as [|b key]; [congruence|].
  apply N.eqb_neq in Hc. rewrite Hc.
  destruct (split slash (b :: key)) as [|p0 rest]; [exact I|].
  destruct (str_eqb p0 s_SYS); cbn [negb]; [|reflexivity].
  destruct rest as [|p1 [|p2 [|p3 more]]].
  - split; [split; [discriminate|intros (? & ? & E & _); discriminate]|reflexivity].
  - split; [split; [discriminate|intros (? & ? & E & _); discriminate]|reflexivity].
  - split; [split; [discriminate|intros (? & ? & E & _); discriminate]|reflexivity].
  - destruct (str_eqb_spec p1 s_clients) as [->|H1]; cbn [negb orb].
    + destruct (str_eqb_spec p2 (client_str c)) as [->|H2]; cbn [negb].
      * destruct (str_eqb_spec p3 s_graveGoods) as [->|H3]; cbn [orb].
        { split; [split; [intros _; eauto 6|reflexivity]|congruence]. }
        destruct (str_eqb_spec p3 s_lastWill) as [->|H4]; cbn [orb].
        { split; [split; [intros _; eauto 6|reflexivity]|congruence]. }
        destruct (str_eqb_spec p3 s_clientName) as [->|H5].
        { split; [split; [intros _; eauto 6|reflexivity]|congruence]. }
        split; [split; [discriminate|]|reflexivity].
        intros (q3 & m & E & Hq). injection E as <- _. destruct Hq as [Hq|[Hq|Hq]]; congruence.
      * split; [split; [discriminate|]|reflexivity].
        intros (q3 & m & E & _). injection E as E _. congruence.
    + split; [split; [discriminate|]|reflexivity].
      intros (q3 & m & E & _). injection E as E _. congruence.
Qed.

(* every guarded request refused by the guard leaves the server state as it was *)
Theorem refused_is_identity s c key code :
  check_read_only key c = Some code ->
  (forall e f, do_insert s c key e f = (s, out_res (RErr code))) /\
  do_delete s c key = (s, out_res (RErr code)) /\
  do_pdelete s c false key = (s, out_res (RErr code)) /\
  (forall t, do_spub_init s c t key = (s, out_res (RErr code))).
Proof.
  intros H. unfold do_insert, do_delete, do_pdelete, do_spub_init. rewrite H. repeat split; reflexivity.
Qed.
