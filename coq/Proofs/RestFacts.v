(* The REST front end (Model/Rest.v): nothing is served without a valid token, a request outside the grant has no
   effect, an import never reaches $SYS (repair of F29), a get answers from the store. *)
From Coq Require Import Lia List.
Import ListNotations.
From WB Require Import Base.Str Base.StrFacts Base.Json Model.Key Model.Consts Model.Store Model.Match Model.Subs Model.Entry Model.Core
  Model.Codec Model.Auth Model.Persist Model.Rest Spec.MapSpec
  Proofs.StoreFacts Proofs.TreeInv Proofs.GoodNames Proofs.CoreFacts Proofs.C01Proof.
Local Open Scope N_scope.

(* with an auth key configured: no token, or one that does not validate -- the request is refused before any handler *)
Theorem rest_no_service_before_token tok s r :
  tok = TNone \/ tok = TInvalid ->
  exists st, rest_handle true tok s r = (s, out_res RUnit, RStatus st) /\ (st = 401 \/ st = 403).
Proof. intros [-> | ->]; cbn; eauto. Qed.

(* a valid token whose grants do not cover the request: refused, nothing changes, nobody is notified *)
Theorem rest_denied_is_noop cl s r :
  authorize cl (fst (rest_requirement r)) (snd (rest_requirement r)) = false ->
  rest_handle true (TClaims cl) s r = (s, out_res RUnit, RStatus 403).
Proof. intros H. unfold rest_handle. destruct (rest_requirement r) as [p pat]. cbn [fst snd] in H. now rewrite H. Qed.

(* a covered request is handled exactly as if no authorization were required *)
Theorem rest_granted_is_served cl s r :
  authorize cl (fst (rest_requirement r)) (snd (rest_requirement r)) = true ->
  rest_handle true (TClaims cl) s r = rest_handle false TNone s r.
Proof. intros H. unfold rest_handle. destruct (rest_requirement r) as [p pat]. cbn [fst snd] in H. now rewrite H. Qed.

(* ---- an import never reaches $SYS ---- *)
Lemma find_child_filter_sys {V} (cs : list (str * node V)) :
  find_child s_SYS (filter (fun kc => negb (str_eqb (fst kc) s_SYS)) cs) = None.
Proof.
  induction cs as [|[k c] cs IH]; [reflexivity|]. cbn [filter fst].
  destruct (str_eqb_spec k s_SYS) as [->|Hne]; cbn [negb]; [exact IH|].
  cbn [find_child]. destruct (str_eqb_spec s_SYS k) as [E|_]; [now elim Hne|exact IH].
Qed.

Lemma lookup_strip_sys (other : node entry) q : lookup (strip_sys s_SYS other) (s_SYS :: q) = None.
Proof. unfold strip_sys. rewrite lookup_cons, find_child_filter_sys. reflexivity. Qed.

Theorem import_keeps_sys s j q :
  Inv s -> import_ok (OImport j) -> abs (fst (do_import s j)) (s_SYS :: q) = abs s (s_SYS :: q).
Proof.
  intros HI Himp. pose proof (do_import_effect s j HI Himp) as H. cbv zeta in H.
  destruct (o_res (snd (do_import s j))); try contradiction.
  - destruct H as (other & _ & _ & Hm). rewrite Hm. unfold m_import. now rewrite lookup_strip_sys.
  - now rewrite H.
Qed.

(* ... through the REST import endpoint, whatever the token allows *)
Theorem rest_import_keeps_sys auth tok s j q :
  Inv s -> import_ok (OImport j) ->
  abs (fst (fst (rest_handle auth tok s (RImport j)))) (s_SYS :: q) = abs s (s_SYS :: q).
Proof.
  intros HI Himp. unfold rest_handle.
  destruct (if auth then _ else _) as [st|]; [reflexivity|]. cbn [rest_op step].
  destruct (do_import s j) as [s' out] eqn:E. cbn [fst]. change s' with (fst (s', out)). rewrite <- E. now apply import_keeps_sys.
Qed.

(* a get over REST answers from the store: 200 with the stored value, 404 where there is none, 400 for a key with a wildcard *)
Theorem rest_get_is_store s k :
  rest_handle false TNone s (RGet k) =
  (s, out_res (do_get s k),
   match parse_segments k with
   | Err code => RStatus (http_status code)
   | Ok p => match abs s p with Some e => R200 (BJson (entry_val e)) | None => RStatus 404 end
   end).
Proof.
  unfold rest_handle. cbn [rest_op step]. unfold do_get, abs. destruct (parse_segments k) as [p|code]; [|reflexivity].
  destruct (lookup (data s) p); reflexivity.
Qed.

(* the hypotheses are satisfiable: the very import of F29 *)
Example import_keeps_sys_demo :
  let s0 := fst (step init (OSet 0 [36;83;89;83;47;118] (JStr [120]) true)) in          (* $SYS/v = "x", set by the server *)
  let j := JObj [(s_data, JObj [(s_t, JObj [(s_SYS, JObj [(s_t, JObj [([118], JObj [(s_v, JStr [101])])])]); ([117], JObj [(s_v, JNum [49])])])])] in
  let s1 := fst (fst (rest_handle false TNone s0 (RImport j))) in
  abs s1 [s_SYS; [118]] = Some (Plain (JStr [120])) /\ abs s1 [[117]] = Some (Plain (JNum [49])).
Proof. vm_compute. split; reflexivity. Qed.
