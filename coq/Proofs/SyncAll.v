(* C11 over whole histories of leader requests of every kind except import (known finding F10b): client writes,
   sessions starting and ending with their grave goods and last wills, registrations coming and going, and all the
   requests that do not touch the data.  After the follower has processed what the leader sent it holds the leader's
   user keys with the same entries and, at $SYS/clients/?/graveGoods and lastWill, the leader's registrations.
   Hypotheses: patterns are well-formed (F3) and begin with a literal segment (F4: a wildcard as first segment
   reaches $SYS on the leader and the follower alike, which is a finding of its own), no version overflow (F17). *)
From WB Require Import Base.Str Base.StrFacts Base.Json Model.Key Model.Consts Model.Store Model.Match Model.Subs
  Model.Entry Model.Core Model.Codec Model.Persist Model.Sync Spec.MapSpec
  Proofs.StoreFacts Proofs.TreeInv Proofs.GoodNames Proofs.MatchFacts Proofs.CoreFacts Proofs.C07Proof
  Proofs.LenFacts Proofs.C01Proof Proofs.LockHistory Proofs.SessionEnd Proofs.StreamAll Proofs.SyncFacts.
From Coq Require Import Lia.

Local Arguments N.add : simpl never.

(* ------------------------------------------------------------------ keys, prefixes, registration paths *)

Lemma starts_with_app_refl p r : starts_with p (p ++ r) = true.
Proof. induction p as [|x p IH]; [reflexivity|]. cbn. now rewrite N.eqb_refl, IH. Qed.

Lemma prefixed_of_split k y r : split slash k = s_SYS :: y :: r -> starts_with s_SYS_prefix k = true.
Proof.
  intros H. rewrite <- (join_split slash k), H. cbn [join]. reflexivity.
Qed.

Definition reg_path (p : list str) : Prop :=
  exists x leaf, p = [s_SYS; s_clients; x; leaf] /\ (leaf = s_graveGoods \/ leaf = s_lastWill).

Lemma reg_path_not_user p : reg_path p -> is_user p = false.
Proof. intros (x & leaf & -> & _). reflexivity. Qed.

Lemma nonprefixed_not_reg k : starts_with s_SYS_prefix k = false -> ~ reg_path (split slash k).
Proof.
  intros Hn (x & leaf & E & _). rewrite (prefixed_of_split k _ _ E) in Hn. discriminate.
Qed.

Lemma match_sys_clients leaf q :
  store_match (sys_clients_pat leaf) q = true <-> exists x, q = [s_SYS; s_clients; x; leaf].
Proof.
  unfold sys_clients_pat. split.
  - destruct q as [|a [|b [|c [|d [|e q]]]]]; cbn [store_match]; intros H;
      repeat match type of H with (_ && _)%bool = true => let H1 := fresh "E" in apply andb_true_iff in H as [H1 H] end;
      try discriminate.
    apply str_eqb_eq in E, E0, E1. subst. now exists c.
  - intros (x & ->). cbn [store_match]. now rewrite !str_eqb_refl.
Qed.

Lemma In_registrations s p e :
  Inv s -> (In (p, e) (registrations s) <-> reg_path p /\ abs s p = Some e).
Proof.
  intros (Hw & _). unfold registrations. rewrite in_app_iff, !(collect_spec _ _ _ _ _ Hw). cbn [app]. split.
  - intros [(k & Ek & Hl & Hm)|(k & Ek & Hl & Hm)]; subst p; apply match_sys_clients in Hm as (x & Ex); subst k;
      (split; [|exact Hl]).
    + exists x, s_graveGoods. auto.
    + exists x, s_lastWill. auto.
  - intros ((x & leaf & Ep & [El|El]) & Hl); subst p leaf; [left|right]; eexists; (split; [reflexivity|]); (split; [exact Hl|]);
      apply match_sys_clients; now exists x.
Qed.

Lemma reg_get_Some s p e :
  Inv s -> (reg_get p (registrations s) = Some e <-> reg_path p /\ abs s p = Some e).
Proof.
  intros HI. unfold reg_get. split.
  - destruct (find _ _) as [[p' e']|] eqn:Ef; [|discriminate]. intros [= <-].
    apply find_some in Ef as (Hin & Hp). cbn [fst] in Hp. destruct (path_eqb_spec p' p) as [->|]; [|discriminate].
    now apply In_registrations.
  - intros H. apply (In_registrations s p e HI) in H.
    destruct (find (fun m => path_eqb (fst m) p) (registrations s)) as [[p' e']|] eqn:Ef.
    + apply find_some in Ef as (Hin & Hp). cbn [fst] in Hp. destruct (path_eqb_spec p' p) as [->|]; [|discriminate].
      apply (In_registrations s p e' HI) in Hin as (_ & H1). apply (In_registrations s p e HI) in H as (_ & H2).
      cbn [snd]. congruence.
    + exfalso. apply (find_none _ _ Ef) in H. cbn [fst] in H. now rewrite path_eqb_refl in H.
Qed.

Lemma reg_get_None s p :
  Inv s -> reg_get p (registrations s) = None -> reg_path p -> abs s p = None.
Proof.
  intros HI Hn Hr. destruct (abs s p) as [e|] eqn:E; [|reflexivity].
  assert (H : reg_get p (registrations s) = Some e) by (apply reg_get_Some; auto). congruence.
Qed.

(* ------------------------------------------------------------------ what the registration commands do on the follower *)

Definition val_at (m : mstate) (p : list str) : option json := option_map entry_val (m p).
Definition plain_regs (m : mstate) : Prop := forall p e, reg_path p -> m p = Some e -> exists v, e = Plain v.

Definition act := (list str * option json)%type.     (* a registration path; Some v: set it to v, None: delete it *)
Definition cmd_of (a : act) : wcmd :=
  match snd a with Some v => WSet (key_of (fst a)) v false | None => WDelete (key_of (fst a)) end.
Definition act_ok (a : act) : Prop :=
  reg_path (fst a) /\ Forall good_seg (fst a) /\
  match snd a with Some v => special_value_bad (key_of (fst a)) v = false | None => True end.

Lemma reg_path_nonempty p : reg_path p -> p <> [].
Proof. intros (x & leaf & -> & _). discriminate. Qed.

Lemma key_of_nonempty p : reg_path p -> key_of p <> [].
Proof. intros (x & leaf & -> & _). unfold key_of. cbn. discriminate. Qed.

Lemma fapply_set_reg F p v :
  Inv F -> reg_path p -> Forall good_seg p -> plain_regs (abs F) -> special_value_bad (key_of p) v = false ->
  Inv (fapply F (WSet (key_of p) v false)) /\ meq (abs (fapply F (WSet (key_of p) v false))) (m_set (abs F) p (Plain v)).
Proof.
  intros HI Hr Hg Hpl Hsv. unfold fapply. cbn [op_of_wcmd step].
  pose proof (parse_join_good p (reg_path_nonempty p Hr) Hg) as Hp. fold (key_of p) in Hp.
  pose proof (guard_internal (key_of p) (key_of_nonempty p Hr)) as Hgd.
  pose proof (do_insert_res F 0 (key_of p) (Plain v) false p Hgd Hp Hsv) as Hres.
  pose proof (do_insert_effect F 0 (key_of p) (Plain v) false HI) as Heff. cbv zeta in Heff. rewrite Hres in Heff.
  assert (Hd : exists ex ch, decide (abs F p) (Plain v) false = DOk ex ch (Plain v)).
  { destruct (abs F p) as [e|] eqn:E; [|cbn; eauto]. destruct (Hpl p e Hr E) as (c & ->). cbn. eauto. }
  destruct Hd as (ex & ch & Hd). rewrite Hd in Heff.
  destruct Heff as (p' & ex' & ch' & e' & Hp' & Hd' & HI' & Hm). rewrite Hp in Hp'. injection Hp' as <-.
  rewrite Hd in Hd'. injection Hd' as <- <- <-. split; assumption.
Qed.

Lemma fapply_del_reg F p :
  Inv F -> reg_path p -> Forall good_seg p ->
  Inv (fapply F (WDelete (key_of p))) /\ meq (abs (fapply F (WDelete (key_of p)))) (m_del (abs F) p).
Proof.
  intros HI Hr Hg. unfold fapply. cbn [op_of_wcmd step].
  pose proof (parse_join_good p (reg_path_nonempty p Hr) Hg) as Hp. fold (key_of p) in Hp.
  pose proof (guard_internal (key_of p) (key_of_nonempty p Hr)) as Hgd.
  pose proof (do_delete_res F 0 (key_of p) p HI Hgd Hp) as Hres.
  pose proof (do_delete_effect F 0 (key_of p) HI) as Heff. cbv zeta in Heff. rewrite Hres in Heff.
  destruct (abs F p) as [e|] eqn:E.
  - destruct Heff as (p' & e' & Hp' & _ & _ & HI' & Hm). rewrite Hp in Hp'. injection Hp' as <-. split; assumption.
  - destruct Heff as (HI' & Hm). split; [exact HI'|]. intros q. rewrite Hm. unfold m_del.
    destruct (path_eqb_spec p q) as [<-|]; [exact E|reflexivity].
Qed.

Fixpoint last_act (q : list str) (acts : list act) : option (option json) :=
  match acts with
  | [] => None
  | a :: r => match last_act q r with
              | Some x => Some x
              | None => if path_eqb (fst a) q then Some (snd a) else None
              end
  end.

Lemma last_act_app q a b :
  last_act q (a ++ b) = match last_act q b with Some x => Some x | None => last_act q a end.
Proof.
  induction a as [|x a IH]; cbn [app last_act]; [now destruct (last_act q b)|].
  rewrite IH. now destruct (last_act q b).
Qed.

Lemma plain_regs_meq m m' : meq m' m -> plain_regs m -> plain_regs m'.
Proof. intros H Hp p e Hr E. rewrite H in E. exact (Hp p e Hr E). Qed.

Lemma drain_point acts : forall F,
  Inv F -> plain_regs (abs F) -> Forall act_ok acts ->
  let F' := fdrain F (map cmd_of acts) in
  Inv F' /\ plain_regs (abs F') /\
  forall q, abs F' q = match last_act q acts with
                       | Some (Some v) => Some (Plain v)
                       | Some None => None
                       | None => abs F q
                       end.
Proof.
  induction acts as [|[p x] acts IH]; intros F HI Hpl Hok; [cbn; auto|].
  apply Forall_cons_iff in Hok as ((Hr & Hg & Hx) & Hok). cbn [fst snd] in *.
  cbn [map]. unfold fdrain. cbn [fold_left]. fold (fdrain (fapply F (cmd_of (p, x))) (map cmd_of acts)).
  assert (H1 : Inv (fapply F (cmd_of (p, x))) /\
               meq (abs (fapply F (cmd_of (p, x)))) (match x with Some v => m_set (abs F) p (Plain v) | None => m_del (abs F) p end)).
  { unfold cmd_of. cbn [fst snd]. destruct x as [v|]; [now apply fapply_set_reg|now apply fapply_del_reg]. }
  destruct H1 as (HI1 & Hm1).
  assert (Hpl1 : plain_regs (abs (fapply F (cmd_of (p, x))))).
  { apply (plain_regs_meq _ _ Hm1). intros q e Hq E. destruct x as [v|]; unfold m_set, m_del in E;
      destruct (path_eqb p q); try discriminate; [injection E as <-; eauto|exact (Hpl q e Hq E)|exact (Hpl q e Hq E)]. }
  destruct (IH _ HI1 Hpl1 Hok) as (HI' & Hpl' & Hq). split; [exact HI'|]. split; [exact Hpl'|].
  intros q. rewrite Hq. cbn [last_act fst snd]. destruct (last_act q acts) as [y|]; [reflexivity|].
  rewrite Hm1. destruct x as [v|]; unfold m_set, m_del; now destruct (path_eqb p q).
Qed.

(* the registration commands of one leader step, as actions on paths *)
Definition fm (g : list str * entry -> option (option json)) (l : list (list str * entry)) : list act :=
  flat_map (fun m => match g m with Some x => [(fst m, x)] | None => [] end) l.

Definition gS (L : core) (m : list str * entry) : option (option json) :=
  match reg_get (fst m) (registrations L) with
  | Some e => if json_eqb (entry_val e) (entry_val (snd m)) then None else Some (Some (entry_val (snd m)))
  | None => Some (Some (entry_val (snd m)))
  end.
Definition gD (L' : core) (m : list str * entry) : option (option json) :=
  match reg_get (fst m) (registrations L') with Some _ => None | None => Some None end.

Definition racts (L L' : core) : list act := fm (gS L) (registrations L') ++ fm (gD L') (registrations L).

Lemma map_flat_map {A B C} (f : B -> C) (g : A -> list B) l :
  map f (flat_map g l) = flat_map (fun x => map f (g x)) l.
Proof. induction l as [|x l IH]; [reflexivity|]. cbn [flat_map]. now rewrite map_app, IH. Qed.

Lemma reg_changes_acts L L' : reg_changes L L' = map cmd_of (racts L L').
Proof.
  unfold reg_changes, racts, fm. rewrite map_app, !map_flat_map. f_equal; apply flat_map_ext; intros m.
  - unfold gS. destruct (reg_get (fst m) (registrations L)) as [e|]; [destruct (json_eqb _ _)|]; reflexivity.
  - unfold gD. destruct (reg_get (fst m) (registrations L')); reflexivity.
Qed.

Lemma last_act_fm q g l G :
  (forall m, In m l -> fst m = q -> g m = G) ->
  last_act q (fm g l) = if existsb (fun m => path_eqb (fst m) q) l then G else None.
Proof.
  unfold fm. induction l as [|m l IH]; intros H; [reflexivity|]. cbn [flat_map existsb].
  rewrite last_act_app, IH by (intros m' Hin; apply H; now right). cbv beta.
  destruct (path_eqb_spec (fst m) q) as [E|Hne]; cbn [orb].
  - rewrite (H m (or_introl eq_refl) E).
    destruct (existsb (fun m0 => path_eqb (fst m0) q) l).
    + destruct G as [x|]; [reflexivity|]. reflexivity.
    + destruct G as [x|]; cbn [last_act fst snd]; [now rewrite E, path_eqb_refl|reflexivity].
  - assert (Hhead : last_act q (match g m with Some x => [(fst m, x)] | None => [] end) = None).
    { destruct (g m) as [x|]; cbn [last_act fst snd]; [|reflexivity].
      destruct (path_eqb_spec (fst m) q); [contradiction|reflexivity]. }
    destruct (existsb (fun m0 => path_eqb (fst m0) q) l); [destruct G; [reflexivity|exact Hhead]|exact Hhead].
Qed.

Lemma existsb_regs s q : Inv s ->
  existsb (fun m => path_eqb (fst m) q) (registrations s) = true <-> reg_path q /\ abs s q <> None.
Proof.
  intros HI. rewrite existsb_exists. split.
  - intros ([p e] & Hin & Hp). cbn [fst] in Hp. destruct (path_eqb_spec p q) as [->|]; [|discriminate].
    apply (In_registrations s q e HI) in Hin as (Hr & E). split; [exact Hr|congruence].
  - intros (Hr & Hne). destruct (abs s q) as [e|] eqn:E; [|congruence]. exists (q, e). split; [|apply path_eqb_refl].
    now apply In_registrations.
Qed.

(* what the follower holds at every path after the registration commands of a step *)
Lemma existsb_regs_b s q : Inv s ->
  existsb (fun m => path_eqb (fst m) q) (registrations s) = true -> reg_path q.
Proof. intros HI H. now apply (existsb_regs s q HI) in H. Qed.

Lemma last_act_racts L L' q :
  Inv L -> Inv L' ->
  last_act q (racts L L') =
  match abs L' q, abs L q with
  | Some e', Some e => if existsb (fun m => path_eqb (fst m) q) (registrations L')
                       then (if json_eqb (entry_val e) (entry_val e') then None else Some (Some (entry_val e'))) else None
  | Some e', None => if existsb (fun m => path_eqb (fst m) q) (registrations L') then Some (Some (entry_val e')) else None
  | None, Some _ => if existsb (fun m => path_eqb (fst m) q) (registrations L) then Some None else None
  | None, None => None
  end.
Proof.
  intros HL HL'. unfold racts. rewrite last_act_app.
  (* the deletions *)
  assert (HD : last_act q (fm (gD L') (registrations L)) =
               if existsb (fun m => path_eqb (fst m) q) (registrations L)
               then match abs L' q with Some _ => None | None => Some None end else None).
  { apply last_act_fm. intros [p e] Hin E. cbn [fst] in E. subst p. unfold gD. cbn [fst].
    apply (In_registrations L q e HL) in Hin as (Hr & _).
    destruct (reg_get q (registrations L')) as [e'|] eqn:Eg.
    - apply (reg_get_Some L' q e' HL') in Eg as (_ & ->). reflexivity.
    - now rewrite (reg_get_None L' q HL' Eg Hr). }
  (* the sets *)
  assert (HS : last_act q (fm (gS L) (registrations L')) =
               if existsb (fun m => path_eqb (fst m) q) (registrations L')
               then match abs L' q, abs L q with
                    | Some e', Some e => if json_eqb (entry_val e) (entry_val e') then None else Some (Some (entry_val e'))
                    | Some e', None => Some (Some (entry_val e'))
                    | None, _ => None
                    end else None).
  { apply last_act_fm. intros [p e'] Hin E. cbn [fst] in E. subst p. unfold gS. cbn [fst snd].
    apply (In_registrations L' q e' HL') in Hin as (Hr & ->).
    destruct (reg_get q (registrations L)) as [e|] eqn:Eg.
    - apply (reg_get_Some L q e HL) in Eg as (_ & ->). reflexivity.
    - now rewrite (reg_get_None L q HL Eg Hr). }
  rewrite HD, HS.
  assert (HxL : abs L q = None -> existsb (fun m => path_eqb (fst m) q) (registrations L) = false).
  { intros E. apply Bool.not_true_is_false. intros H. apply (existsb_regs L q HL) in H as (_ & H). congruence. }
  assert (HxL' : abs L' q = None -> existsb (fun m => path_eqb (fst m) q) (registrations L') = false).
  { intros E. apply Bool.not_true_is_false. intros H. apply (existsb_regs L' q HL') in H as (_ & H). congruence. }
  destruct (abs L' q) as [e'|] eqn:E', (abs L q) as [e|] eqn:E.
  - destruct (existsb _ (registrations L)); reflexivity.
  - rewrite (HxL eq_refl). reflexivity.
  - rewrite (HxL' eq_refl). now destruct (existsb _ (registrations L)).
  - now rewrite (HxL eq_refl), (HxL' eq_refl).
Qed.

From WB Require Import Base.JsonFacts.

(* every registration the leader stores passed the value check of set (so the follower accepts it too) *)
Definition RegOK (s : core) : Prop :=
  forall p e, reg_path p -> abs s p = Some e -> special_value_bad (key_of p) (entry_val e) = false.

Lemma racts_ok L L' : Inv L -> Inv L' -> RegOK L' -> Forall act_ok (racts L L').
Proof.
  intros HL HL' HR. unfold racts, fm. apply Forall_app. split; apply Forall_forall; intros [p x] Hin;
    apply in_flat_map in Hin as ([p' e] & Hreg & Hin).
  - destruct (gS L (p', e)) as [y|] eqn:Eg; [|destruct Hin]. destruct Hin as [[= <- <-]|[]].
    apply (In_registrations L' p' e HL') in Hreg as (Hr & El). unfold act_ok. cbn [fst snd].
    split; [exact Hr|]. split; [exact (lookup_good _ _ _ (proj1 (proj2 (proj2 HL'))) El)|].
    unfold gS in Eg. cbn [fst snd] in Eg.
    destruct (reg_get p' (registrations L)) as [e0|]; [destruct (json_eqb _ _); [discriminate|]|];
      injection Eg as <-; exact (HR p' e Hr El).
  - destruct (gD L' (p', e)) as [y|] eqn:Eg; [|destruct Hin]. destruct Hin as [[= <- <-]|[]].
    apply (In_registrations L p' e HL) in Hreg as (Hr & El). unfold act_ok. cbn [fst snd].
    split; [exact Hr|]. split; [exact (lookup_good _ _ _ (proj1 (proj2 (proj2 HL))) El)|].
    unfold gD in Eg. destruct (reg_get _ _); [discriminate|]. injection Eg as <-. exact I.
Qed.

Theorem reg_sync L L' F :
  Inv L -> Inv L' -> Inv F -> plain_regs (abs F) -> RegOK L' ->
  (forall q, reg_path q -> val_at (abs L) q = val_at (abs L') q -> val_at (abs F) q = val_at (abs L') q) ->
  let F' := fdrain F (reg_changes L L') in
  Inv F' /\ plain_regs (abs F') /\
  (forall q, ~ reg_path q -> abs F' q = abs F q) /\
  (forall q, reg_path q -> val_at (abs F') q = val_at (abs L') q).
Proof.
  intros HL HL' HF Hpl HR H. cbv zeta. rewrite reg_changes_acts.
  destruct (drain_point (racts L L') F HF Hpl (racts_ok L L' HL HL' HR)) as (HI' & Hpl' & Hq).
  split; [exact HI'|]. split; [exact Hpl'|].
  assert (HxL : forall s, Inv s -> abs s = abs s -> forall q, reg_path q ->
                existsb (fun m => path_eqb (fst m) q) (registrations s) = match abs s q with Some _ => true | None => false end).
  { intros s Hs _ q Hr. destruct (abs s q) as [e|] eqn:E.
    - apply (existsb_regs s q Hs). split; [exact Hr|congruence].
    - apply Bool.not_true_is_false. intros Hx. apply (existsb_regs s q Hs) in Hx as (_ & Hx). congruence. }
  split.
  - intros q Hnr. rewrite Hq, (last_act_racts L L' q HL HL').
    assert (E1 : existsb (fun m => path_eqb (fst m) q) (registrations L) = false).
    { apply Bool.not_true_is_false. intros Hx. apply Hnr. exact (existsb_regs_b L q HL Hx). }
    assert (E2 : existsb (fun m => path_eqb (fst m) q) (registrations L') = false).
    { apply Bool.not_true_is_false. intros Hx. apply Hnr. exact (existsb_regs_b L' q HL' Hx). }
    rewrite E1, E2. destruct (abs L' q), (abs L q); reflexivity.
  - intros q Hr. specialize (H q Hr). unfold val_at in *. rewrite Hq, (last_act_racts L L' q HL HL').
    rewrite (HxL L HL eq_refl q Hr), (HxL L' HL' eq_refl q Hr).
    destruct (abs L' q) as [e'|] eqn:E', (abs L q) as [e|] eqn:E; cbn [option_map] in *.
    + destruct (json_eqb (entry_val e) (entry_val e')) eqn:Ej; [|reflexivity].
      apply json_eqb_eq in Ej. apply H. now rewrite Ej.
    + reflexivity.
    + reflexivity.
    + now apply H.
Qed.

(* ------------------------------------------------------------------ the leader side *)

Lemma decide_val cur e f ex ch e' : decide cur e f = DOk ex ch e' -> entry_val e' = entry_val e.
Proof.
  unfold decide, bump. intros H.
  destruct cur as [[c|c vc]|], e as [v|v n];
    repeat match type of H with context [if ?x then _ else _] => destruct x end;
    try discriminate; injection H as _ _ <-; reflexivity.
Qed.

Lemma insert_RegOK s c k e f : Inv s -> RegOK s -> RegOK (fst (do_insert s c k e f)).
Proof.
  intros HI HR. unfold do_insert.
  destruct (check_read_only k c); [exact HR|]. destruct (parse_segments k) as [p|code] eqn:Ep; [|exact HR].
  destruct (special_value_bad k (entry_val e)) eqn:Es; [exact HR|].
  destruct (decide (lookup (data s) p) e f) as [ex ch e'| |] eqn:Ed; [|exact HR|exact HR].
  cbn [fst]. intros q e0 Hq E. unfold abs in E. cbn [data set_data] in E. rewrite lookup_set_at in E.
  destruct (path_eqb_spec p q) as [<-|Hne].
  - injection E as <-. destruct (parse_segments_good _ _ Ep) as (Hsp & _). unfold key_of. rewrite Hsp, join_split.
    now rewrite (decide_val _ _ _ _ _ _ Ed).
  - exact (HR q e0 Hq E).
Qed.

Lemma delete_RegOK s c k : Inv s -> RegOK s -> RegOK (fst (do_delete s c k)).
Proof.
  intros HI HR. destruct (do_delete_only_path s c k HI) as (_ & [Hm|(p & _ & Hm)]); intros q e Hq E; rewrite Hm in E.
  - exact (HR q e Hq E).
  - unfold m_del in E. destruct (path_eqb p q); [discriminate|exact (HR q e Hq E)].
Qed.

Lemma pdelete_RegOK s c pat : Inv s -> RegOK s -> RegOK (fst (do_pdelete s c false pat)).
Proof.
  intros HI HR. destruct (do_pdelete_only s c pat HI) as (_ & [->|Hm]); [exact HR|].
  intros q e Hq E. rewrite Hm in E. unfold m_pdel in E. destruct (store_match _ q); [discriminate|exact (HR q e Hq E)].
Qed.

(* what the leader forwards for one elementary request before applying it; the force flag of an internal write
   (a last will) travels with it *)
Definition mirror' (o : op) : list wcmd :=
  match o with
  | OSet _ k v f => if starts_with s_SYS_prefix k then [] else [WSet k v f]
  | OCSet _ k v n f => if starts_with s_SYS_prefix k then [] else [WCSet k v n f]
  | ODelete _ k => if starts_with s_SYS_prefix k then [] else [WDelete k]
  | OPDelete _ p => if starts_with s_SYS_prefix p then [] else [WPDelete p]
  | _ => []
  end.

Definition lit_first (pat : str) : bool :=
  match kseg_parse pat with Reg _ :: _ => true | _ => false end.

(* excluded: version overflow (F17), ill-formed patterns (F3), a wildcard as first segment (F4), import (F10b) *)
Definition adm (L F : core) (o : op) : Prop :=
  match o with
  | OSet c k v f => o_res (snd (do_insert L c k (Plain v) f)) <> RCrash /\ o_res (snd (do_insert F 0 k (Plain v) f)) <> RCrash
  | OCSet c k v n f => o_res (snd (do_insert L c k (Cas v n) f)) <> RCrash /\ o_res (snd (do_insert F 0 k (Cas v n) f)) <> RCrash
  | OPDelete _ pat => wf_pat (kseg_parse pat) = true /\ lit_first pat = true
  | OImport _ => False
  | _ => True
  end.

Lemma lit_first_no_reg pat q :
  lit_first pat = true -> starts_with s_SYS_prefix pat = false -> reg_path q ->
  store_match (kseg_parse pat) q = false.
Proof.
  intros Hl Hn (x & leaf & -> & _). unfold lit_first in Hl. unfold kseg_parse in *.
  destruct (split slash pat) as [|a [|b r]] eqn:Es; cbn [map] in *; [discriminate| |].
  - destruct (kseg_of_str a); try discriminate. cbn. now rewrite andb_false_r.
  - destruct (kseg_of_str a) as [y| |] eqn:Ea; try discriminate. cbn [store_match].
    destruct (str_eqb_spec y s_SYS) as [->|Hne]; [|reflexivity].
    assert (a = s_SYS).
    { unfold kseg_of_str in Ea. destruct (str_eqb a [ch_qmark]); [discriminate|].
      destruct (str_eqb a [ch_hash]); [discriminate|]. now injection Ea. }
    subst a. rewrite (prefixed_of_split pat b r Es) in Hn. discriminate.
Qed.

(* one elementary request on the leader and its mirrored commands on the follower *)
Theorem op_sim L F o :
  Inv L -> Inv F -> user_eq (abs L) (abs F) -> RegOK L -> elem o -> adm L F o ->
  o_res (snd (step L o)) <> RCrash ->
  let L' := fst (step L o) in let F1 := fdrain F (mirror' o) in
  Inv L' /\ Inv F1 /\ user_eq (abs L') (abs F1) /\ RegOK L' /\ (forall q, reg_path q -> abs F1 q = abs F q).
Proof.
  intros HL HF Hu HR He Ha Hnc. cbv zeta.
  assert (Hother : other_op o -> mirror' o = [] ->
            Inv (fst (step L o)) /\ Inv (fdrain F (mirror' o)) /\ user_eq (abs (fst (step L o))) (abs (fdrain F (mirror' o))) /\
            RegOK (fst (step L o)) /\ (forall q, reg_path q -> abs (fdrain F (mirror' o)) q = abs F q)).
  { intros Ho Hm. rewrite Hm. unfold fdrain. cbn [fold_left]. pose proof (other_data_same L o Ho) as Ed.
    assert (Ea : abs (fst (step L o)) = abs L) by (unfold abs; now rewrite Ed).
    split; [unfold Inv in *; now rewrite Ed|]. split; [exact HF|]. split; [now rewrite Ea|]. split; [|auto].
    unfold RegOK. now rewrite Ea. }
  destruct o; try contradiction; try (apply Hother; [exact I|reflexivity]); cbn [step mirror' adm] in *.
  - (* get *) unfold fdrain. cbn. auto 6.
  - unfold fdrain. cbn. auto 6.
  - unfold fdrain. cbn. auto 6.
  - unfold fdrain. cbn. auto 6.
  - unfold fdrain. cbn. auto 6.
  - unfold fdrain. cbn. auto 6.
  - (* set *)
    destruct Ha as (H1 & H2).
    pose proof (insert_sim L F c k (Plain v) force HL HF Hu H1 H2) as H. cbv zeta in H.
    destruct H as (HL' & HF' & Hu'). split; [exact HL'|].
    destruct (starts_with s_SYS_prefix k) eqn:Epre; unfold fdrain; cbn [fold_left fapply op_of_wcmd step].
    + split; [exact HF'|]. split; [exact Hu'|]. split; [now apply insert_RegOK|auto].
    + split; [exact HF'|]. split; [exact Hu'|]. split; [now apply insert_RegOK|].
      intros q Hq. destruct (do_insert_only_path F 0 k (Plain v) force HF H2) as (_ & [Hm|(p & e' & Hp & Hm)]); rewrite Hm; [reflexivity|].
      unfold m_set. destruct (path_eqb_spec p q) as [<-|]; [|reflexivity].
      exfalso. destruct (parse_segments_good _ _ Hp) as (Hsp & _). apply (nonprefixed_not_reg k Epre). now rewrite <- Hsp.
  - (* cset *)
    destruct Ha as (H1 & H2).
    pose proof (insert_sim L F c k (Cas v ver) force HL HF Hu H1 H2) as H. cbv zeta in H.
    destruct H as (HL' & HF' & Hu'). split; [exact HL'|].
    destruct (starts_with s_SYS_prefix k) eqn:Epre; unfold fdrain; cbn [fold_left fapply op_of_wcmd step].
    + split; [exact HF'|]. split; [exact Hu'|]. split; [now apply insert_RegOK|auto].
    + split; [exact HF'|]. split; [exact Hu'|]. split; [now apply insert_RegOK|].
      intros q Hq. destruct (do_insert_only_path F 0 k (Cas v ver) force HF H2) as (_ & [Hm|(p & e' & Hp & Hm)]); rewrite Hm; [reflexivity|].
      unfold m_set. destruct (path_eqb_spec p q) as [<-|]; [|reflexivity].
      exfalso. destruct (parse_segments_good _ _ Hp) as (Hsp & _). apply (nonprefixed_not_reg k Epre). now rewrite <- Hsp.
  - (* delete *)
    pose proof (delete_sim L F c k HL HF Hu) as H. cbv zeta in H. destruct H as (HL' & HF' & Hu'). split; [exact HL'|].
    destruct (starts_with s_SYS_prefix k) eqn:Epre; unfold fdrain; cbn [fold_left fapply op_of_wcmd step].
    + split; [exact HF'|]. split; [exact Hu'|]. split; [now apply delete_RegOK|auto].
    + split; [exact HF'|]. split; [exact Hu'|]. split; [now apply delete_RegOK|].
      intros q Hq. destruct (do_delete_only_path F 0 k HF) as (_ & [Hm|(p & Hp & Hm)]); rewrite Hm; [reflexivity|].
      unfold m_del. destruct (path_eqb_spec p q) as [<-|]; [|reflexivity].
      exfalso. destruct (parse_segments_good _ _ Hp) as (Hsp & _). apply (nonprefixed_not_reg k Epre). now rewrite <- Hsp.
  - (* pdelete *)
    destruct Ha as (Hwf & Hlit).
    pose proof (pdelete_sim L F c p HL HF Hu Hwf) as H. cbv zeta in H. destruct H as (HL' & HF' & Hu'). split; [exact HL'|].
    destruct (starts_with s_SYS_prefix p) eqn:Epre; unfold fdrain; cbn [fold_left fapply op_of_wcmd step].
    + split; [exact HF'|]. split; [exact Hu'|]. split; [now apply pdelete_RegOK|auto].
    + split; [exact HF'|]. split; [exact Hu'|]. split; [now apply pdelete_RegOK|].
      intros q Hq. change (fapply F (WPDelete p)) with (fst (do_pdelete F 0 false p)).
      destruct (do_pdelete_only F 0 p HF) as (_ & [E|Hm]); [now rewrite E|]. rewrite Hm.
      unfold m_pdel. now rewrite (lit_first_no_reg p q Hlit Epre Hq).
Qed.

(* ------------------------------------------------------------------ runs of elementary requests, whole requests *)

Fixpoint adm_run (L F : core) (ops : list op) : Prop :=
  match ops with
  | [] => True
  | o :: r => adm L F o /\ adm_run (fst (step L o)) (fdrain F (mirror' o)) r
  end.

Lemma run_sim ops : forall L F,
  Inv L -> Inv F -> user_eq (abs L) (abs F) -> RegOK L -> Forall elem ops -> adm_run L F ops -> nocrash (trace L ops) ->
  let L' := final L ops in let F1 := fdrain F (flat_map mirror' ops) in
  Inv L' /\ Inv F1 /\ user_eq (abs L') (abs F1) /\ RegOK L' /\ (forall q, reg_path q -> abs F1 q = abs F q).
Proof.
  induction ops as [|o ops IH]; intros L F HL HF Hu HR He Ha Hnc; cbv zeta.
  - unfold fdrain. cbn. auto 6.
  - apply Forall_cons_iff in He as (He & Hes). destruct Ha as (Ha & Has).
    assert (Hc : o_res (snd (step L o)) <> RCrash) by (apply nocrash_res, Hnc; now left).
    assert (Hnc' : nocrash (trace (fst (step L o)) ops)) by (intros x Hx; apply Hnc; now right).
    destruct (op_sim L F o HL HF Hu HR He Ha Hc) as (HL1 & HF1 & Hu1 & HR1 & Hq1).
    destruct (IH _ _ HL1 HF1 Hu1 HR1 Hes Has Hnc') as (HL2 & HF2 & Hu2 & HR2 & Hq2).
    cbn [flat_map]. rewrite fdrain_app. change (final L (o :: ops)) with (final (fst (step L o)) ops).
    split; [exact HL2|]. split; [exact HF2|]. split; [exact Hu2|]. split; [exact HR2|].
    intros q Hq. now rewrite Hq2, Hq1.
Qed.

Definition early_of (L : core) (o : op) : list wcmd := flat_map mirror' (snd (expand L o)).

(* the requests of the wire protocol carry force = false *)
Definition client_req (o : op) : Prop :=
  match o with
  | OSet _ _ _ f | OCSet _ _ _ _ f => f = false
  | OImport _ => False
  | _ => True
  end.

Lemma gg_lw_same L c :
  session_end_mirror L c =
  flat_map (fun g => if starts_with s_SYS_prefix g then [] else [WPDelete g]) (gg_of L c) ++
  flat_map (fun kv => if starts_with s_SYS_prefix (fst kv) then [] else [WSet (fst kv) (snd kv) true]) (lw_of L c).
Proof.
  unfold session_end_mirror, gg_of, lw_of. f_equal.
  - destruct (do_get L _); reflexivity.
  - destruct (do_get L (topic [s_SYS; s_clients; client_str c; s_lastWill])); reflexivity.
Qed.

Lemma flat_map_map {A B C} (f : A -> B) (g : B -> list C) l : flat_map g (map f l) = flat_map (fun x => g (f x)) l.
Proof. induction l as [|x l IH]; [reflexivity|]. cbn. now rewrite IH. Qed.

Lemma flat_map_nil {A B} (g : A -> list B) l : (forall x, In x l -> g x = []) -> flat_map g l = [].
Proof. induction l as [|x l IH]; intros H; [reflexivity|]. cbn. rewrite (H x) by now left. apply IH. intros y Hy. apply H. now right. Qed.

Lemma lstep_ws L o :
  client_req o -> o_res (snd (step L o)) <> RCrash ->
  snd (lstep L o) = early_of L o ++ reg_changes L (fst (step L o)).
Proof.
  intros Hcl Hnc. unfold lstep, early_of. cbn [snd]. 
  destruct o; try contradiction; cbn [expand snd flat_map mirror mirror' client_req] in *; subst; rewrite ?app_nil_r; try reflexivity.
  - (* connected *)
    destruct (N.eqb c 0 || existsb (N.eqb c) (clients L))%bool; cbn [snd flat_map]; [reflexivity|].
    unfold conn_ops. cbn [flat_map mirror' app]. reflexivity.
  - (* disconnected *)
    destruct (N.eqb c 0) eqn:E0; cbn [snd flat_map].
    + exfalso. apply Hnc. cbn [step]. unfold do_disconnected. now rewrite E0.
    + f_equal. rewrite gg_lw_same. unfold end_ops. rewrite !flat_map_app, !flat_map_map. cbn [flat_map mirror' app].
      rewrite (flat_map_nil _ (ids_of c (subscriptions L))) by reflexivity.
      rewrite (flat_map_nil _ (ids_of c (ls_subscriptions L))) by reflexivity.
      reflexivity.
Qed.

Record Rel (L F : core) : Prop := {
  r_L : Inv L; r_F : Inv F;
  r_user : user_eq (abs L) (abs F);
  r_regs : forall q, reg_path q -> val_at (abs F) q = val_at (abs L) q;
  r_plain : plain_regs (abs F);
  r_ok : RegOK L }.

Definition adm_req (L F : core) (o : op) : Prop :=
  client_req o /\ o_res (snd (step L o)) <> RCrash /\ adm_run (fst (expand L o)) F (snd (expand L o)).

(* one request of any kind on the leader, and everything the follower is sent for it *)
Theorem request_sim L F o :
  Rel L F -> adm_req L F o -> Rel (fst (step L o)) (fdrain F (snd (lstep L o))).
Proof.
  intros [HL HF Hu Hregs Hpl HR] (Hcl & Hnc & Ha).
  assert (Hc : is_crash (snd (step L o)) = false) by (unfold is_crash; destruct (o_res (snd (step L o))); congruence).
  destruct (expand_runs L o Hc) as (Ffin & _ & _ & Nc).
  destruct (expand_shape L o) as (Ed & _ & _ & Hel & _ & _).
  set (L0 := fst (expand L o)) in *. set (ops := snd (expand L o)) in *.
  assert (Ea : abs L0 = abs L) by (unfold abs; now rewrite Ed).
  assert (HL0 : Inv L0) by (unfold Inv in *; now rewrite Ed).
  assert (Hu0 : user_eq (abs L0) (abs F)) by now rewrite Ea.
  assert (HR0 : RegOK L0) by (unfold RegOK; now rewrite Ea).
  destruct (run_sim ops L0 F HL0 HF Hu0 HR0 Hel Ha Nc) as (HL' & HF1 & Hu1 & HR' & Hq1).
  rewrite <- Ffin in HL', Hu1, HR'.
  rewrite (lstep_ws L o Hcl Hnc), fdrain_app. fold (early_of L o) in *. unfold early_of. fold ops.
  set (F1 := fdrain F (flat_map mirror' ops)) in *.
  assert (Hpl1 : plain_regs (abs F1)) by (intros p e Hp E; rewrite (Hq1 p Hp) in E; exact (Hpl p e Hp E)).
  destruct (reg_sync L (fst (step L o)) F1 HL HL' HF1 Hpl1 HR') as (HF' & Hpl' & Hnr & Hrg).
  { intros q Hq E. unfold val_at. rewrite (Hq1 q Hq). fold (val_at (abs F) q). rewrite (Hregs q Hq). exact E. }
  split; try assumption.
  intros q Hq. rewrite Hnr; [now apply Hu1|]. intros Hr. rewrite (reg_path_not_user q Hr) in Hq. discriminate.
Qed.

(* ------------------------------------------------------------------ histories, and the join *)

Fixpoint cluster_run (L F : core) (os : list op) : core * core :=
  match os with
  | [] => (L, F)
  | o :: r => cluster_run (fst (step L o)) (fdrain F (snd (lstep L o))) r
  end.

Fixpoint adm_hist (L F : core) (os : list op) : Prop :=
  match os with
  | [] => True
  | o :: r => adm_req L F o /\ adm_hist (fst (step L o)) (fdrain F (snd (lstep L o))) r
  end.

Theorem sessions_converge os : forall L F,
  Rel L F -> adm_hist L F os -> Rel (fst (cluster_run L F os)) (snd (cluster_run L F os)).
Proof.
  induction os as [|o os IH]; intros L F HR Ha; [exact HR|]. destruct Ha as (Ha & Has).
  cbn [cluster_run]. apply IH; [now apply request_sim|exact Has].
Qed.

Lemma strip_sys_none (n : node entry) r : lookup (strip_sys s_SYS n) (s_SYS :: r) = None.
Proof.
  destruct n as [v cs]. unfold strip_sys. cbn [nval nkids]. rewrite lookup_cons.
  assert (E : find_child s_SYS (filter (fun kc => negb (str_eqb (fst kc) s_SYS)) cs) = None).
  { induction cs as [|[k c] cs IH]; [reflexivity|]. cbn [filter fst].
    destruct (str_eqb_spec k s_SYS) as [->|Hne]; cbn [negb]; [exact IH|].
    cbn [find_child]. destruct (str_eqb_spec s_SYS k) as [E|_]; [now symmetry in E|exact IH]. }
  now rewrite E.
Qed.

(* a follower that joins: the export without $SYS, then the registrations of the connected clients (repair of F11) *)
Theorem join_Rel L :
  Inv L -> RegOK L -> Rel L (fdrain (fst (fjoin L)) (snd (fjoin L))).
Proof.
  intros HL HR. destruct (join_agrees L HL) as (HF0 & Hu0).
  set (F0 := fst (fjoin L)) in *.
  assert (Hnone : forall q, is_user q = false -> q <> [] -> abs F0 q = None).
  { intros [|q0 q] Hq Hne; [congruence|]. rewrite is_user_first in Hq. apply Bool.negb_false_iff, str_eqb_eq in Hq. subst q0.
    unfold F0, fjoin, abs. cbn [fst]. unfold core_of. cbn [data set_data].
    assert (Hcs : cleann (strip_sys s_SYS (data L))).
    { destruct HL as (_ & Hc & _). destruct (data L) as [v cs]. unfold strip_sys. cbn [nval nkids].
      apply cleann_unfold. apply Forall_filter. exact (proj1 (cleann_unfold _ _) Hc). }
    rewrite (prune_clean _ Hcs). apply strip_sys_none. }
  assert (Hpl0 : plain_regs (abs F0)).
  { intros p e Hp E. rewrite (Hnone p (reg_path_not_user p Hp) (reg_path_nonempty p Hp)) in E. discriminate. }
  set (acts := map (fun m : list str * entry => (fst m, Some (entry_val (snd m)))) (registrations L)).
  assert (Hws : snd (fjoin L) = map cmd_of acts).
  { unfold fjoin, acts. cbn [snd]. rewrite map_map. reflexivity. }
  assert (Hok : Forall act_ok acts).
  { apply Forall_forall. intros [p x] Hin. apply in_map_iff in Hin as ([p' e] & [= <- <-] & Hin).
    apply (In_registrations L p' e HL) in Hin as (Hr & El). unfold act_ok. cbn [fst snd].
    split; [exact Hr|]. split; [exact (lookup_good _ _ _ (proj1 (proj2 (proj2 HL))) El)|exact (HR p' e Hr El)]. }
  rewrite Hws. pose proof (drain_point acts F0 HF0 Hpl0 Hok) as Hdp. cbv zeta in Hdp. destruct Hdp as (HF' & Hpl' & Hq).
  assert (Hacts : acts = fm (fun m => Some (Some (entry_val (snd m)))) (registrations L)).
  { unfold acts, fm. generalize (registrations L). intros l. induction l as [|m l IH]; [reflexivity|].
    cbn [map flat_map app]. now f_equal. }
  assert (Hlast : forall q, last_act q (fm (fun m => Some (Some (entry_val (snd m)))) (registrations L)) =
            if existsb (fun m => path_eqb (fst m) q) (registrations L)
            then match abs L q with Some e => Some (Some (entry_val e)) | None => None end else None).
  { intros q. apply last_act_fm. intros [p e] Hin E. cbn [fst snd] in *. subst p.
    apply (In_registrations L q e HL) in Hin as (_ & El). now rewrite El. }
  split; try assumption.
  - intros q Hu. rewrite Hq, Hacts, Hlast.
    assert (E : existsb (fun m => path_eqb (fst m) q) (registrations L) = false).
    { apply Bool.not_true_is_false. intros Hx. apply (existsb_regs_b L q HL) in Hx. rewrite (reg_path_not_user q Hx) in Hu. discriminate. }
    rewrite E. now apply Hu0.
  - intros q Hr. unfold val_at. rewrite Hq, Hacts, Hlast.
    destruct (abs L q) as [e|] eqn:E.
    + assert (Hx : existsb (fun m => path_eqb (fst m) q) (registrations L) = true).
      { apply (existsb_regs L q HL). split; [exact Hr|congruence]. }
      now rewrite Hx.
    + assert (Hx : existsb (fun m => path_eqb (fst m) q) (registrations L) = false).
      { apply Bool.not_true_is_false. intros Hx. apply (existsb_regs L q HL) in Hx as (_ & Hx). congruence. }
      rewrite Hx. now rewrite (Hnone q (reg_path_not_user q Hr) (reg_path_nonempty q Hr)).
Qed.

Lemma RegOK_init : RegOK init.
Proof. intros p e _ E. unfold abs in E. change (data init) with (@empty_node entry) in E. now rewrite lookup_empty in E. Qed.

(* the leader's invariants after any admissible history (for the state a follower joins) *)
Theorem leader_reaches os : forall L F,
  Rel L F -> adm_hist L F os -> Inv (fst (cluster_run L F os)) /\ RegOK (fst (cluster_run L F os)).
Proof.
  intros L F HR Ha. destruct (sessions_converge os L F HR Ha) as [H1 _ _ _ _ H6]. now split.
Qed.

(* C11: a follower that joins in state L and then processes everything the leader sends for any admissible history of
   requests of any kind holds the leader's user keys, entries and versions, and the leader's registrations *)
Theorem follower_converges_sessions L os :
  Inv L -> RegOK L ->
  let F := fdrain (fst (fjoin L)) (snd (fjoin L)) in
  adm_hist L F os ->
  let L' := fst (cluster_run L F os) in let F' := snd (cluster_run L F os) in
  user_eq (abs L') (abs F') /\ (forall q, reg_path q -> val_at (abs F') q = val_at (abs L') q).
Proof.
  intros HL HR F Ha. cbv zeta. destruct (sessions_converge os L F (join_Rel L HL HR) Ha) as [_ _ Hu Hr _ _].
  split; assumption.
Qed.

(* ------------------------------------------------------------------ C12: what a promoted follower buries and publishes *)

Lemma In_all_grave_goods s g :
  Inv s -> (In g (all_grave_goods s) <->
            exists x e l, abs s [s_SYS; s_clients; x; s_graveGoods] = Some e /\ dec_grave_goods (entry_val e) = Some l /\ In g l).
Proof.
  intros (Hw & _). unfold all_grave_goods. rewrite in_flat_map. split.
  - intros ([q e] & Hin & Hg). cbn [snd] in Hg. apply (collect_spec _ _ _ _ _ Hw) in Hin as (k & -> & Hl & Hm).
    cbn [app] in *. apply match_sys_clients in Hm as (x & ->). destruct (dec_grave_goods (entry_val e)) as [l|] eqn:Ed; [|destruct Hg].
    now exists x, e, l.
  - intros (x & e & l & Hl & Hd & Hg). exists ([s_SYS; s_clients; x; s_graveGoods], e). split.
    + apply (collect_spec _ _ _ _ _ Hw). exists [s_SYS; s_clients; x; s_graveGoods]. split; [reflexivity|]. split; [exact Hl|].
      apply match_sys_clients. now exists x.
    + cbn [snd]. now rewrite Hd.
Qed.

Lemma In_all_last_wills s kv :
  Inv s -> (In kv (all_last_wills s) <->
            exists x e l, abs s [s_SYS; s_clients; x; s_lastWill] = Some e /\ dec_last_will (entry_val e) = Some l /\ In kv l).
Proof.
  intros (Hw & _). unfold all_last_wills. rewrite in_flat_map. split.
  - intros ([q e] & Hin & Hg). cbn [snd] in Hg. apply (collect_spec _ _ _ _ _ Hw) in Hin as (k & -> & Hl & Hm).
    cbn [app] in *. apply match_sys_clients in Hm as (x & ->). destruct (dec_last_will (entry_val e)) as [l|] eqn:Ed; [|destruct Hg].
    now exists x, e, l.
  - intros (x & e & l & Hl & Hd & Hg). exists ([s_SYS; s_clients; x; s_lastWill], e). split.
    + apply (collect_spec _ _ _ _ _ Hw). exists [s_SYS; s_clients; x; s_lastWill]. split; [reflexivity|]. split; [exact Hl|].
      apply match_sys_clients. now exists x.
    + cbn [snd]. now rewrite Hd.
Qed.

(* a follower in the relation knows exactly the grave goods and last wills registered on the leader -- those made
   before it joined included (join_Rel) -- so these are what its shutdown and its restart as leader apply (C12_promote) *)
Theorem follower_knows_registrations L F :
  Rel L F ->
  (forall g, In g (all_grave_goods F) <-> In g (all_grave_goods L)) /\
  (forall kv, In kv (all_last_wills F) <-> In kv (all_last_wills L)).
Proof.
  intros [HL HF _ Hregs _ _].
  assert (Hv : forall x leaf, (leaf = s_graveGoods \/ leaf = s_lastWill) ->
               forall (P : json -> Prop),
               (exists e, abs F [s_SYS; s_clients; x; leaf] = Some e /\ P (entry_val e)) <->
               (exists e, abs L [s_SYS; s_clients; x; leaf] = Some e /\ P (entry_val e))).
  { intros x leaf Hleaf P. assert (Hr : reg_path [s_SYS; s_clients; x; leaf]) by (exists x, leaf; auto).
    specialize (Hregs _ Hr). unfold val_at in Hregs.
    destruct (abs F [s_SYS; s_clients; x; leaf]) as [eF|], (abs L [s_SYS; s_clients; x; leaf]) as [eL|]; cbn [option_map] in Hregs; try discriminate.
    - injection Hregs as E. split; intros (e & [= <-] & H); eexists; (split; [reflexivity|]); congruence.
    - split; intros (e & [=] & _). }
  split.
  - intros g. rewrite (In_all_grave_goods F g HF), (In_all_grave_goods L g HL). split.
    + intros (x & e & l & Hl & Hd & Hg).
      destruct (proj1 (Hv x s_graveGoods (or_introl eq_refl) (fun v => dec_grave_goods v = Some l))) as (e' & H1 & H2); [eauto|]. now exists x, e', l.
    + intros (x & e & l & Hl & Hd & Hg).
      destruct (proj2 (Hv x s_graveGoods (or_introl eq_refl) (fun v => dec_grave_goods v = Some l))) as (e' & H1 & H2); [eauto|]. now exists x, e', l.
  - intros kv. rewrite (In_all_last_wills F kv HF), (In_all_last_wills L kv HL). split.
    + intros (x & e & l & Hl & Hd & Hg).
      destruct (proj1 (Hv x s_lastWill (or_intror eq_refl) (fun v => dec_last_will v = Some l))) as (e' & H1 & H2); [eauto|]. now exists x, e', l.
    + intros (x & e & l & Hl & Hd & Hg).
      destruct (proj2 (Hv x s_lastWill (or_intror eq_refl) (fun v => dec_last_will v = Some l))) as (e' & H1 & H2); [eauto|]. now exists x, e', l.
Qed.
