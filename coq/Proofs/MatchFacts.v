From WB Require Import Base.Str Base.StrFacts Model.Key Model.Match.

Lemma store_vs_doc p : forall k,
  wf_pat p = true -> store_match p k = doc_match p k || zero_multi p k.
Proof.
  induction p as [|s p IH]; intros k Hwf.
  - destruct k; reflexivity.
  - destruct s as [s| |].
    + cbn [wf_pat] in Hwf. destruct k as [|x k]; [reflexivity|].
      cbn [store_match doc_match zero_multi]. rewrite IH by assumption.
      destruct (str_eqb s x); reflexivity.
    + cbn [wf_pat] in Hwf. destruct k as [|x k]; [reflexivity|].
      cbn [store_match doc_match zero_multi]. now apply IH.
    + destruct p as [|s' p]; [|discriminate].
      destruct k; reflexivity.
Qed.

Lemma zero_multi_spec p : forall k, wf_pat p = true ->
  (zero_multi p k = true <-> exists p', p = p' ++ [Multi] /\ doc_match p' k = true).
Proof.
  induction p as [|s p IH]; intros k Hwf.
  - split; [discriminate|]. intros (p' & E & _). destruct p'; discriminate.
  - destruct s as [s| |].
    + cbn [wf_pat] in Hwf. destruct k as [|x k]; cbn [zero_multi].
      * split; [discriminate|]. intros (p' & E & H). destruct p' as [|a p']; [discriminate|].
        injection E as <- _. discriminate.
      * rewrite andb_true_iff, IH by assumption. split.
        -- intros (Hs & p' & -> & H). exists (Reg s :: p'). split; [reflexivity|].
           cbn. now rewrite Hs.
        -- intros (p' & E & H). destruct p' as [|a p']; [discriminate|].
           injection E as <- ->. cbn in H. apply andb_true_iff in H as [Hs H].
           split; [assumption|]. now exists p'.
    + cbn [wf_pat] in Hwf. destruct k as [|x k]; cbn [zero_multi].
      * split; [discriminate|]. intros (p' & E & H). destruct p' as [|a p']; [discriminate|].
        injection E as <- _. discriminate.
      * rewrite IH by assumption. split.
        -- intros (p' & -> & H). now exists (Wild :: p').
        -- intros (p' & E & H). destruct p' as [|a p']; [discriminate|].
           injection E as <- ->. cbn in H. now exists p'.
    + destruct p as [|s' p]; [|discriminate]. cbn [zero_multi].
      destruct k as [|x k].
      * split; [|reflexivity]. intros _. now exists [].
      * split; [discriminate|]. intros (p' & E & H).
        destruct p' as [|a [|b p']]; discriminate.
Qed.

Lemma sub_eq_doc p : forall k, wf_pat p = true -> sub_match p k = doc_match p k.
Proof.
  induction p as [|s p IH]; intros k Hwf.
  - reflexivity.
  - destruct s as [s| |].
    + cbn [wf_pat] in Hwf. destruct k as [|x k]; [reflexivity|].
      cbn [sub_match doc_match]. now rewrite IH.
    + cbn [wf_pat] in Hwf. destruct k as [|x k]; [reflexivity|].
      cbn [sub_match doc_match]. now apply IH.
    + destruct p as [|s' p]; [|discriminate]. destruct k; reflexivity.
Qed.

(* the single relation, outside the known class *)
Lemma one_relation p k :
  wf_pat p = true -> zero_multi p k = false ->
  store_match p k = doc_match p k /\ sub_match p k = doc_match p k.
Proof.
  intros Hwf Hz. split.
  - rewrite store_vs_doc, Hz by assumption. now rewrite orb_false_r.
  - now apply sub_eq_doc.
Qed.

(* a key is a pattern without wildcards: every relation is then equality *)
Lemma doc_match_literal k k' : doc_match (map Reg k) k' = path_eqb k k'.
Proof.
  revert k'; induction k as [|x k IH]; intros [|y k']; cbn; try reflexivity.
  now rewrite IH.
Qed.
