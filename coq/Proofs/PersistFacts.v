(* The directory machine of Model/Persist.v: what a flush leaves on disk, at every crash point. *)
From WB Require Import Base.Str Base.StrFacts Base.Json Base.JsonFacts Model.Key Model.Consts Model.Store Model.Entry Model.Core
  Model.CodecConsts Model.Codec Model.PersistConsts Model.Persist Proofs.NumFacts Proofs.CodecFacts.
From Coq Require Import Lia.

Lemma fs_get_put_same n v d : fs_get n (fs_put n v d) = Some v.
Proof. unfold fs_put. cbn. now rewrite str_eqb_refl. Qed.

Lemma fs_get_del_other n m d : n <> m -> fs_get n (fs_del m d) = fs_get n d.
Proof.
  intros H. unfold fs_del. induction d as [|[k v] d IH]; [reflexivity|]. cbn.
  destruct (str_eqb_spec m k) as [<-|Hm]; cbn.
  - rewrite IH. apply str_eqb_neq in H. now rewrite H.
  - destruct (str_eqb n k); [reflexivity|assumption].
Qed.

Lemma fs_get_del_same n d : fs_get n (fs_del n d) = None.
Proof.
  unfold fs_del. induction d as [|[k v] d IH]; [reflexivity|]. cbn.
  destruct (str_eqb_spec n k) as [<-|Hm]; cbn; [assumption|].
  apply str_eqb_neq in Hm. now rewrite Hm.
Qed.

Lemma fs_get_put_other n m v d : n <> m -> fs_get n (fs_put m v d) = fs_get n d.
Proof.
  intros H. unfold fs_put. cbn. apply str_eqb_neq in H. rewrite H. apply str_eqb_neq in H.
  now apply fs_get_del_other.
Qed.

(* a name that is neither the file nor its .tmp is untouched by write_to_disk, at every crash point *)
Lemma write_to_disk_other k crash name v d n :
  n <> name -> n <> name ++ sfx_tmp ->
  fs_get n (fst (write_to_disk k crash name v d)) = fs_get n d.
Proof.
  intros H1 H2. unfold write_to_disk.
  repeat match goal with |- context [if ?b then _ else _] => destruct b end; cbn [fst];
    repeat first [rewrite fs_get_put_other by assumption | rewrite fs_get_del_other by assumption]; reflexivity.
Qed.

(* a completed write puts the value in place and leaves no tmp behind *)
Lemma write_to_disk_done k crash name v d :
  snd (write_to_disk k crash name v d) = false ->
  fs_get name (fst (write_to_disk k crash name v d)) = Some v.
Proof.
  unfold write_to_disk.
  repeat match goal with |- context [if ?b then _ else _] => destruct b end; cbn [fst snd]; try discriminate.
  intros _. apply fs_get_put_same.
Qed.

Lemma app_neq_self (a b : str) : b <> [] -> a <> a ++ b.
Proof.
  intros Hb H. apply (f_equal (@length N)) in H. rewrite app_length in H.
  destruct b; [congruence|]. cbn in H. lia.
Qed.

Lemma app_inj_tail_neq (a : str) (b c : str) : b <> c -> a ++ b <> a ++ c.
Proof. intros H E. apply app_inv_head in E. contradiction. Qed.

(* the four files of a slot and the selector *)
Definition slot_names (main : bool) : list str :=
  [slot_store main; slot_store main ++ sfx_sum; slot_gglw main; slot_gglw main ++ sfx_sum].

Definition untouched (names : list str) (d d' : fs) : Prop :=
  forall n, In n names -> fs_get n d' = fs_get n d.

(* names of different slots (and their tmp files) never coincide, nor with the selector *)
Lemma names_disjoint main n :
  In n (f_toggle :: slot_names main) ->
  forall m, In m (slot_names (negb main)) -> n <> m /\ n <> m ++ sfx_tmp.
Proof.
  intros Hn m Hm. destruct main; cbn in Hn, Hm;
    repeat match goal with H : _ \/ _ |- _ => destruct H end; try contradiction; subst;
    split; intros E; vm_compute in E; discriminate.
Qed.

Lemma write_and_check_other k crash name j d n :
  n <> name -> n <> name ++ sfx_tmp -> n <> name ++ sfx_sum -> n <> (name ++ sfx_sum) ++ sfx_tmp ->
  fs_get n (fst (write_and_check k crash name j d)) = fs_get n d.
Proof.
  intros H1 H2 H3 H4. unfold write_and_check.
  destruct (snd (write_to_disk k crash name (FJson j) d)) eqn:E.
  - now apply write_to_disk_other.
  - rewrite (write_to_disk_other (k + 4) crash (name ++ sfx_sum) _ _ n H3 H4).
    exact (write_to_disk_other k crash name _ d n H1 H2).
Qed.

(* a crash point inside the window of a write_and_check kills the process there *)
Lemma write_to_disk_crashes k c name v d : k <= c < k + 4 -> snd (write_to_disk k (Some c) name v d) = true.
Proof.
  intros H. unfold write_to_disk.
  destruct (N.eqb_spec c k); [reflexivity|].
  destruct (N.eqb_spec c (k + 1)); [reflexivity|].
  destruct (N.eqb_spec c (k + 2)); [reflexivity|].
  destruct (N.eqb_spec c (k + 3)); [reflexivity|]. lia.
Qed.

Lemma write_to_disk_survives k c name v d : c < k \/ k + 4 <= c -> snd (write_to_disk k (Some c) name v d) = false.
Proof.
  intros H. unfold write_to_disk.
  destruct (N.eqb_spec c k); [lia|].
  destruct (N.eqb_spec c (k + 1)); [lia|].
  destruct (N.eqb_spec c (k + 2)); [lia|].
  destruct (N.eqb_spec c (k + 3)); [lia|]. reflexivity.
Qed.

Lemma write_and_check_crashes k c name j d : k <= c < k + 8 -> snd (write_and_check k (Some c) name j d) = true.
Proof.
  intros H. unfold write_and_check.
  destruct (snd (write_to_disk k (Some c) name (FJson j) d)) eqn:E; [exact E|].
  destruct (N.ltb_spec c (k + 4)).
  - rewrite write_to_disk_crashes in E by lia. discriminate.
  - apply write_to_disk_crashes. lia.
Qed.

Lemma write_and_check_survives k c name j d : c < k \/ k + 8 <= c -> snd (write_and_check k (Some c) name j d) = false.
Proof.
  intros H. unfold write_and_check.
  rewrite (write_to_disk_survives k c name (FJson j) d) by lia. apply write_to_disk_survives. lia.
Qed.

(* THE crash-safety step: whatever the crash point, a flush that has not reached the flip leaves the
   selector and every file of the active slot exactly as they were *)
Theorem flush_keeps_active s d c :
  c < 16 ->
  let main := fs_has f_toggle d in
  untouched (f_toggle :: slot_names main) d (fst (flush (Some c) s d)) /\ snd (flush (Some c) s d) = true.
Proof.
  intros Hc main.
  assert (Hw : forall k name j d0 n, In n (f_toggle :: slot_names main) -> (name = slot_store (negb main) \/ name = slot_gglw (negb main)) ->
                 fs_get n (fst (write_and_check k (Some c) name j d0)) = fs_get n d0).
  { intros k name j d0 n Hn Hname.
    assert (Hin1 : In name (slot_names (negb main))) by (destruct Hname as [->| ->]; cbn; auto).
    assert (Hin2 : In (name ++ sfx_sum) (slot_names (negb main))) by (destruct Hname as [->| ->]; cbn; auto).
    destruct (names_disjoint main n Hn name Hin1). destruct (names_disjoint main n Hn _ Hin2).
    now apply write_and_check_other. }
  unfold flush. fold main.
  destruct (N.ltb_spec c 8).
  - rewrite write_and_check_crashes by lia. split; [|apply write_and_check_crashes; lia].
    intros n Hn. apply Hw; auto.
  - rewrite write_and_check_survives by lia. rewrite write_and_check_crashes by lia.
    split; [|apply write_and_check_crashes; lia].
    intros n Hn. rewrite Hw by auto. apply Hw; auto.
Qed.

(* ---- a completed flush ---- *)

Ltac neq_names := let E := fresh in intros E; vm_compute in E; discriminate.
Ltac fs_simpl :=
  repeat first
    [ rewrite fs_get_put_same
    | rewrite fs_get_put_other by neq_names
    | rewrite fs_get_del_other by neq_names ].

Lemma write_to_disk_none k name v d :
  write_to_disk k None name v d = (fs_put name v (fs_del (name ++ sfx_tmp) (fs_put (name ++ sfx_tmp) v d)), false).
Proof. reflexivity. Qed.

Lemma fs_has_flip d : fs_has f_toggle (flip d) = negb (fs_has f_toggle d).
Proof.
  unfold flip, fs_has. destruct (fs_get f_toggle d) eqn:E.
  - now rewrite fs_get_del_same.
  - now rewrite fs_get_put_same.
Qed.

Lemma fs_get_flip_other n d : n <> f_toggle -> fs_get n (flip d) = fs_get n d.
Proof.
  intros H. unfold flip. destruct (fs_has f_toggle d).
  - now apply fs_get_del_other.
  - now apply fs_get_put_other.
Qed.

Theorem flush_completes s d :
  let d' := fst (flush None s d) in
  let w := negb (fs_has f_toggle d) in
  snd (flush None s d) = false /\
  fs_has f_toggle d' = w /\
  read_checked (slot_store w) d' = Some (fst (snapshot s)) /\
  read_checked (slot_gglw w) d' = Some (snd (snapshot s)).
Proof.
  intros d' w. subst d' w. unfold flush, write_and_check. rewrite !write_to_disk_none. cbn [fst snd].
  split; [reflexivity|].
  destruct (fs_has f_toggle d) eqn:Et; cbn [negb slot_store slot_gglw].
  - (* main was active: slot b written, selector removed *)
    match goal with |- context [flip ?D] =>
      assert (HD : fs_has f_toggle D = true) by (unfold fs_has in *; fs_simpl; exact Et) end.
    split.
    + unfold fs_has at 1. rewrite fs_get_put_other by neq_names.
      unfold flip. rewrite HD. now rewrite fs_get_del_same.
    + unfold read_checked, flip. rewrite HD. fs_simpl. rewrite !json_eqb_refl. auto.
  - match goal with |- context [flip ?D] =>
      assert (HD : fs_has f_toggle D = false) by (unfold fs_has in *; fs_simpl; exact Et) end.
    split.
    + unfold fs_has at 1. rewrite fs_get_put_other by neq_names.
      unfold flip. rewrite HD. now rewrite fs_get_put_same.
    + unfold read_checked, flip. rewrite HD. fs_simpl. rewrite !json_eqb_refl. auto.
Qed.

Lemma persisted_roundtrip n : node_ok n -> dec_persisted (enc_persisted n) = Some n.
Proof. intros H. unfold enc_persisted, dec_persisted. cbn. now apply node_roundtrip. Qed.

Lemma export_roundtrip d : node_ok (strip_sys s_SYS d) -> dec_persisted (enc_export d) = Some (strip_sys s_SYS d).
Proof.
  intros H. unfold enc_export.
  destruct (strip_sys s_SYS d) as [v cs] eqn:E. cbn [nkids nval].
  destruct cs as [|c cs]; [|rewrite <- E in *; now apply persisted_roundtrip].
  destruct (nkids d) as [|k ks]; [rewrite <- E in *; now apply persisted_roundtrip|].
  destruct v as [e|]; [rewrite <- E in *; now apply persisted_roundtrip|].
  reflexivity.
Qed.

Lemma gglw_roundtrip gg lw : dec_gglw (enc_gglw gg lw) = Some (gg, lw).
Proof.
  unfold enc_gglw, dec_gglw. cbn.
  rewrite (map_opt_map JStr as_str) by reflexivity.
  rewrite (map_opt_map enc_kvp dec_kvp') by (intros; apply kvp_roundtrip). reflexivity.
Qed.

(* what was flushed is what is loaded (v3, either toggle state, any directory content before) *)
Theorem load_after_flush s d :
  node_ok (strip_sys s_SYS (data s)) ->
  let d' := fst (flush None s d) in
  load_v3 d' =
  Some (apply_gglw (core_of (strip_sys s_SYS (data s))) (all_grave_goods s) (all_last_wills s), d').
Proof.
  intros Hok d'. destruct (flush_completes s d) as (_ & Ht & Hs & Hg). fold d' in Ht, Hs, Hg.
  unfold load_v3. rewrite Ht, Hs, Hg. unfold snapshot. cbn [fst snd bind].
  now rewrite (export_roundtrip _ Hok), gglw_roundtrip.
Qed.

(* and after a crash before the flip, the next start still reads the slot that was active before *)
Theorem load_after_crash s d c :
  c < 16 ->
  let d' := fst (flush (Some c) s d) in
  let main := fs_has f_toggle d in
  fs_has f_toggle d' = main /\
  read_checked (slot_store main) d' = read_checked (slot_store main) d /\
  read_checked (slot_gglw main) d' = read_checked (slot_gglw main) d.
Proof.
  intros Hc d' main. destruct (flush_keeps_active s d c Hc) as [Hu _]. fold main d' in Hu.
  unfold untouched in Hu. repeat split.
  - unfold fs_has. rewrite (Hu f_toggle) by (left; reflexivity). reflexivity.
  - unfold read_checked. rewrite (Hu (slot_store main)) by (right; left; reflexivity).
    rewrite (Hu (slot_store main ++ sfx_sum)) by (right; right; left; reflexivity). reflexivity.
  - unfold read_checked. rewrite (Hu (slot_gglw main)) by (right; right; right; left; reflexivity).
    rewrite (Hu (slot_gglw main ++ sfx_sum)) by (right; right; right; right; left; reflexivity). reflexivity.
Qed.

(* C10, one step: once a flush has completed (the active slot holds a readable store), a process that
   dies anywhere before the selector flip of a later flush restarts with exactly the state a restart
   without that flush would have given -- the last completed snapshot, store and registrations from
   the same slot; the half-written files of the other slot are never looked at *)
Theorem crash_recovers_last_completed s d c n :
  c < 16 ->
  bind (read_checked (slot_store (fs_has f_toggle d)) d) dec_persisted = Some n ->
  option_map fst (load_v3 (fst (flush (Some c) s d))) = option_map fst (load_v3 d).
Proof.
  intros Hc Hn. destruct (load_after_crash s d c Hc) as (Ht & Hs & Hg).
  unfold load_v3. rewrite Ht, Hs, Hg, Hn.
  destruct (bind (read_checked (slot_gglw (fs_has f_toggle d)) d) dec_gglw) as [[gg lw]|]; reflexivity.
Qed.

(* a process that dies after the flip (before last-persisted is touched) has completed the flush *)
Theorem crash_after_flip_is_complete s d :
  let d' := fst (flush (Some 16) s d) in
  let w := negb (fs_has f_toggle d) in
  fs_has f_toggle d' = w /\
  read_checked (slot_store w) d' = Some (fst (snapshot s)) /\
  read_checked (slot_gglw w) d' = Some (snd (snapshot s)).
Proof.
  intros d' w. subst d' w. unfold flush.
  rewrite (write_and_check_survives 0 16) by lia. rewrite (write_and_check_survives 8 16) by lia.
  cbn [fst snd]. change (N.eqb 16 16) with true. cbn [fst].
  (* the directory is the one a completed flush produces, minus last-persisted *)
  unfold write_and_check.
  assert (W0 : forall name v d0, write_to_disk 0 (Some 16) name v d0 = write_to_disk 0 None name v d0) by reflexivity.
  assert (W4 : forall name v d0, write_to_disk (0 + 4) (Some 16) name v d0 = write_to_disk 4 None name v d0) by reflexivity.
  assert (W8 : forall name v d0, write_to_disk 8 (Some 16) name v d0 = write_to_disk 8 None name v d0) by reflexivity.
  assert (W12 : forall name v d0, write_to_disk (8 + 4) (Some 16) name v d0 = write_to_disk 12 None name v d0) by reflexivity.
  rewrite W0, W4, W8, W12. rewrite !write_to_disk_none. cbn [fst snd].
  destruct (fs_has f_toggle d) eqn:Et; cbn [negb slot_store slot_gglw].
  - match goal with |- context [flip ?D] =>
      assert (HD : fs_has f_toggle D = true) by (unfold fs_has in *; fs_simpl; exact Et) end.
    split.
    + unfold flip. rewrite HD. unfold fs_has. now rewrite fs_get_del_same.
    + unfold read_checked, flip. rewrite HD. fs_simpl. rewrite !json_eqb_refl. auto.
  - match goal with |- context [flip ?D] =>
      assert (HD : fs_has f_toggle D = false) by (unfold fs_has in *; fs_simpl; exact Et) end.
    split.
    + unfold flip. rewrite HD. unfold fs_has. now rewrite fs_get_put_same.
    + unfold read_checked, flip. rewrite HD. fs_simpl. rewrite !json_eqb_refl. auto.
Qed.
