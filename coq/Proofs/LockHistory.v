(* Lock histories.  LockFacts.v says what one lock, acquire or release request does to the lock table;
   this file follows the table through every history of requests and session ends:

   - the line of a key (holder first, then the waiting clients in the order in which they first
     asked) evolves exactly like the abstract machine [astep]: a lock on a free key starts the line,
     an acquire appends its client unless it already stands in the line, a release or a session end
     removes exactly that client, nothing else changes any line;
   - every acquire request is confirmed at most once, exactly in the step in which its client
     becomes the holder, or cancelled at most once, exactly when its client leaves the line; an id is
     never both, and until then it is pending in exactly one place;
   - the debug assertion of Store::unlock (lock tree clean after the removal) never fires. *)
From WB Require Import Base.Str Base.StrFacts Base.Json Model.Key Model.Consts Model.Store Model.Match Model.Subs
  Model.Entry Model.Core Proofs.StoreFacts Proofs.TreeInv Proofs.LockFacts Proofs.C07Proof.
From Coq Require Import Lia Permutation.

Local Arguments N.add : simpl never.

(* ------------------------------------------------------------------ the tree operations, again *)

Lemma upd_child_id {A} (d : A) k f cs c :
  find_child k cs = Some c -> f c = c -> upd_child d k f cs = cs.
Proof.
  induction cs as [|[k' c'] cs IH]; cbn; [discriminate|].
  destruct (str_eqb k k') eqn:E.
  - intros [= ->] Hf. now rewrite Hf.
  - intros Hfc Hf. now rewrite IH.
Qed.

Lemma touch_at_id {V} p : forall (n : node V) m, get_node n p = Some m -> touch_at p n = n.
Proof.
  induction p as [|k p IH]; intros [v cs] m H; [reflexivity|].
  cbn [get_node nkids] in H. destruct (find_child k cs) as [c|] eqn:E; [|discriminate].
  cbn [touch_at nval nkids]. f_equal. apply upd_child_id with c; [exact E|]. now apply IH with m.
Qed.

Lemma mod_upd_child {A} (d : A) k f g cs :
  mod_child k g (upd_child d k f cs) = upd_child d k (fun x => g (f x)) cs.
Proof.
  induction cs as [|[k' c] cs IH]; cbn.
  - now rewrite str_eqb_refl.
  - destruct (str_eqb k k') eqn:E; cbn; rewrite E; [reflexivity|now rewrite IH].
Qed.

Lemma upd_child_ext {A} (d : A) k f f' cs :
  (forall x, f x = f' x) -> upd_child d k f cs = upd_child d k f' cs.
Proof.
  intros H. induction cs as [|[k' c] cs IH]; cbn; [now rewrite H|].
  destruct (str_eqb k k'); [now rewrite H|now rewrite IH].
Qed.

Lemma setv_touch_set {V} p (e : V) : forall n, setv_at p (Some e) (touch_at p n) = set_at p e n.
Proof.
  induction p as [|k p IH]; intros [v cs]; [reflexivity|].
  cbn [setv_at touch_at set_at nval nkids]. f_equal.
  rewrite mod_upd_child. apply upd_child_ext. exact IH.
Qed.

Lemma setv_set {V} p (e : V) (n : node V) m :
  get_node n p = Some m -> setv_at p (Some e) n = set_at p e n.
Proof. intros H. rewrite <- (touch_at_id p n m H) at 1. apply setv_touch_set. Qed.

(* ------------------------------------------------------------------ lines and pending requests *)

Definition line (l : node lock) (p : list str) : list cid :=
  match lookup l p with Some lk => holder lk :: map fst (cands lk) | None => [] end.

Definition pend (l : node lock) (p : list str) (c : cid) (r : N) : Prop :=
  exists lk rs, lookup l p = Some lk /\ In (c, rs) (cands lk) /\ In r rs.

Definition notc (c : cid) (l : list cid) : list cid := filter (fun x => negb (N.eqb x c)) l.

Record LT (l : node lock) (nr : N) : Prop := {
  lt_wf : wfn l;
  lt_clean : cleann l;
  lt_line : forall p, NoDup (line l p);
  lt_rs : forall p lk c rs, lookup l p = Some lk -> In (c, rs) (cands lk) -> NoDup rs;
  lt_fresh : forall p c r, pend l p c r -> r < nr;
  lt_uniq : forall p c r p' c', pend l p c r -> pend l p' c' r -> p = p' /\ c = c' }.

Lemma LT_mono l nr nr' : LT l nr -> nr <= nr' -> LT l nr'.
Proof.
  intros [H1 H2 H3 H4 H5 H6] Hle. split; try assumption.
  intros p c r Hp. specialize (H5 p c r Hp). lia.
Qed.

Lemma notc_notin c l : ~ In c l -> notc c l = l.
Proof.
  induction l as [|x l IH]; cbn; [reflexivity|]. intros Hn.
  destruct (N.eqb_spec x c) as [->|Hne]; cbn.
  - exfalso. apply Hn. now left.
  - f_equal. apply IH. intros Hi. apply Hn. now right.
Qed.

Lemma notc_cons_same c l : notc c (c :: l) = notc c l.
Proof. unfold notc. cbn [filter]. now rewrite N.eqb_refl. Qed.

Lemma notc_cons_other c x l : x <> c -> notc c (x :: l) = x :: notc c l.
Proof. intros H. unfold notc. cbn [filter]. destruct (N.eqb_spec x c); [contradiction|reflexivity]. Qed.

Lemma notc_idem c l : notc c (notc c l) = notc c l.
Proof.
  unfold notc. induction l as [|x l IH]; cbn; [reflexivity|].
  destruct (negb (N.eqb x c)) eqn:E; cbn; [rewrite E; f_equal; exact IH|exact IH].
Qed.

Lemma In_notc c l x : In x (notc c l) <-> In x l /\ x <> c.
Proof.
  unfold notc. rewrite filter_In. split; intros [H1 H2]; (split; [exact H1|]).
  - intros ->. now rewrite N.eqb_refl in H2.
  - destruct (N.eqb_spec x c); [contradiction|reflexivity].
Qed.

Lemma NoDup_notc c l : NoDup l -> NoDup (notc c l).
Proof. apply NoDup_filter. Qed.

Lemma hd_notc c l c' : hd_error l = Some c' -> c' <> c -> hd_error (notc c l) = Some c'.
Proof.
  destruct l as [|x l]; [discriminate|]. cbn. intros [= ->] Hne.
  destruct (N.eqb_spec c' c); [contradiction|reflexivity].
Qed.

Lemma map_fst_filter_notc c (cs : list (cid * list N)) :
  map fst (filter (fun cr => negb (N.eqb (fst cr) c)) cs) = notc c (map fst cs).
Proof.
  induction cs as [|[c' rs] cs IH]; [reflexivity|]. cbn.
  destruct (negb (N.eqb c' c)); cbn; now rewrite IH.
Qed.

Lemma In_fst {A B} (x : A) (y : B) l : In (x, y) l -> In x (map fst l).
Proof. intros H. apply in_map_iff. now exists (x, y). Qed.

Lemma NoDup_app_intro {A} (a b : list A) :
  NoDup a -> NoDup b -> (forall x, In x a -> ~ In x b) -> NoDup (a ++ b).
Proof.
  induction a as [|x a IH]; cbn; intros Ha Hb Hd; [exact Hb|].
  inversion Ha as [|? ? Hx Ha']; subst. constructor.
  - rewrite in_app_iff. intros [H|H]; [contradiction|]. apply (Hd x); [now left|exact H].
  - apply IH; [exact Ha'|exact Hb|]. intros y Hy. apply Hd. now right.
Qed.

Lemma NoDup_app_l {A} (a b : list A) : NoDup (a ++ b) -> NoDup a.
Proof.
  induction a as [|x a IH]; cbn; intros H; [constructor|].
  inversion H as [|? ? Hx H']; subst. constructor; [|now apply IH].
  intros Hi. apply Hx. apply in_app_iff. now left.
Qed.

Lemma NoDup_4 {A} (a b c d : list A) :
  NoDup (a ++ b) -> NoDup (c ++ d) -> (forall x, In x (c ++ d) -> ~ In x (a ++ b)) ->
  NoDup ((a ++ c) ++ (b ++ d)).
Proof.
  intros H1 H2 Hd.
  apply Permutation_NoDup with ((a ++ b) ++ (c ++ d)).
  - rewrite <- !app_assoc. apply Permutation_app_head.
    rewrite !app_assoc. apply Permutation_app_tail. apply Permutation_app_comm.
  - apply NoDup_app_intro; [exact H1|exact H2|]. intros x Hx Hx'. exact (Hd x Hx' Hx).
Qed.

(* a new table that differs from the old one at one key, where the lock is gone or holds a
   sub-line of the old one with some of the old entries *)
Lemma LT_shrink l nr l' p X :
  LT l nr -> wfn l' -> cleann l' ->
  (forall q, lookup l' q = if path_eqb p q then X else lookup l q) ->
  match X with
  | None => True
  | Some lk' => NoDup (holder lk' :: map fst (cands lk')) /\
                forall e, In e (cands lk') -> exists lk, lookup l p = Some lk /\ In e (cands lk)
  end ->
  LT l' nr /\ (forall q c r, pend l' q c r -> pend l q c r).
Proof.
  intros [H1 H2 H3 H4 H5 H6] Hw Hc Hl HX.
  assert (Hsub : forall q c r, pend l' q c r -> pend l q c r).
  { intros q c r (lk' & rs & Hlk & Hin & Hr). rewrite Hl in Hlk.
    destruct (path_eqb_spec p q) as [<-|Hne].
    - subst X. destruct HX as (_ & He). destruct (He _ Hin) as (lk & Hlk0 & Hin0).
      now exists lk, rs.
    - now exists lk', rs. }
  split; [|exact Hsub]. split; try assumption.
  - intros q. unfold line. rewrite Hl. destruct (path_eqb_spec p q) as [<-|Hne].
    + destruct X as [lk'|]; [now destruct HX|constructor].
    + exact (H3 q).
  - intros q lk' c rs Hlk Hin. rewrite Hl in Hlk. destruct (path_eqb_spec p q) as [<-|Hne].
    + subst X. destruct HX as (_ & He). destruct (He _ Hin) as (lk & Hlk0 & Hin0).
      exact (H4 p lk c rs Hlk0 Hin0).
    + exact (H4 q lk' c rs Hlk Hin).
  - intros q c r Hp. exact (H5 q c r (Hsub _ _ _ Hp)).
  - intros q c r q' c' Hp Hp'. exact (H6 q c r q' c' (Hsub _ _ _ Hp) (Hsub _ _ _ Hp')).
Qed.

Lemma flat_none c (cs : list (cid * list N)) :
  ~ In c (map fst cs) -> flat_map (fun cr => if N.eqb (fst cr) c then snd cr else []) cs = [].
Proof.
  induction cs as [|[c' rs] cs IH]; cbn; [reflexivity|]. intros Hn.
  destruct (N.eqb_spec c' c) as [->|Hne]; [exfalso; apply Hn; now left|].
  apply IH. intros Hi. apply Hn. now right.
Qed.

Lemma NoDup_dropped c (cs : list (cid * list N)) :
  NoDup (map fst cs) -> (forall c' rs, In (c', rs) cs -> NoDup rs) ->
  NoDup (flat_map (fun cr => if N.eqb (fst cr) c then snd cr else []) cs).
Proof.
  induction cs as [|[c' rs] cs IH]; cbn; intros Hnd Hrs; [constructor|].
  inversion Hnd as [|? ? Hx Hnd']; subst.
  destruct (N.eqb_spec c' c) as [->|Hne].
  - rewrite flat_none by exact Hx. rewrite app_nil_r. apply (Hrs c rs). now left.
  - apply IH; [exact Hnd'|]. intros c2 rs2 Hi. apply (Hrs c2 rs2). now right.
Qed.

Lemma In_dropped c (cs : list (cid * list N)) r :
  In r (flat_map (fun cr => if N.eqb (fst cr) c then snd cr else []) cs) <->
  exists rs, In (c, rs) cs /\ In r rs.
Proof.
  rewrite in_flat_map. split.
  - intros ([c' rs] & Hin & Hr). cbn [fst snd] in Hr.
    destruct (N.eqb_spec c' c) as [->|Hne]; [now exists rs|destruct Hr].
  - intros (rs & Hin & Hr). exists (c, rs). split; [exact Hin|]. cbn [fst snd]. now rewrite N.eqb_refl.
Qed.

(* ------------------------------------------------------------------ one unlock *)

Lemma unlock_hist l nr c p :
  LT l nr ->
  let '(l', _, g, x, crash) := unlock l c p in
  crash = false /\ LT l' nr /\
  (forall q, line l' q = if path_eqb p q then notc c (line l q) else line l q) /\
  (forall q c' r, pend l' q c' r -> pend l q c' r /\ ~ In r (g ++ x)) /\
  (forall q c' r, pend l q c' r -> pend l' q c' r \/ In r (g ++ x)) /\
  (forall r, In r g -> exists c', pend l p c' r /\ c' <> c /\ hd_error (line l' p) = Some c') /\
  (forall r, In r x -> pend l p c r) /\
  NoDup (g ++ x).
Proof.
  intros HLT. pose proof HLT as [Hwf Hcl Hline Hrs Hfresh Huniq].
  unfold unlock. destruct (lookup l p) as [lk|] eqn:El.
  2:{ (* not locked *)
      split; [reflexivity|]. split; [exact HLT|]. split.
      { intros q. destruct (path_eqb_spec p q) as [<-|Hne]; [|reflexivity].
        unfold line. now rewrite El. }
      split; [intros q c' r Hp; split; [exact Hp|intros []]|].
      split; [intros q c' r Hp; now left|].
      split; [intros r []|]. split; [intros r []|constructor]. }
  destruct (lookup_get_node _ _ _ El) as (m & Hm).
  assert (Hlp : NoDup (holder lk :: map fst (cands lk))).
  { specialize (Hline p). unfold line in Hline. now rewrite El in Hline. }
  destruct (N.eqb_spec c (holder lk)) as [Hc|Hc].
  - (* the holder releases *)
    destruct (cands lk) as [|[c2 rs2] rest] eqn:Ec.
    + (* nobody waits: the lock goes *)
      rewrite del_lock_at_eq.
      assert (Hl' : forall q, lookup (del_at p l) q = if path_eqb p q then None else lookup l q)
        by (intros q; now apply lookup_del_at).
      destruct (LT_shrink l nr (del_at p l) p None HLT (wfn_del_at p l Hwf) (cleann_del_at p l Hcl) Hl' I)
        as (HLT' & Hsub).
      split. { apply Bool.negb_false_iff. apply root_ok_spec. now apply cleann_del_at. }
      split; [exact HLT'|]. split.
      { intros q. unfold line at 1. rewrite Hl'. destruct (path_eqb_spec p q) as [<-|Hne]; [|reflexivity].
        unfold line. rewrite El, Ec. cbn [map]. rewrite <- Hc. now rewrite notc_cons_same. }
      split; [intros q c' r Hp; split; [now apply Hsub|intros []]|].
      split.
      { intros q c' r (lk0 & rs & Hlk0 & Hin & Hr). left.
        destruct (path_eqb_spec p q) as [<-|Hne].
        - rewrite El in Hlk0. injection Hlk0 as <-. rewrite Ec in Hin. destruct Hin.
        - exists lk0, rs. split; [|now split]. rewrite Hl'.
          destruct (path_eqb_spec p q); [contradiction|exact Hlk0]. }
      split; [intros r []|]. split; [intros r []|constructor].
    + (* the first in line takes over *)
      cbn [map fst] in Hlp. pose proof Hlp as Hlp0. apply NoDup_cons_iff in Hlp0 as (Hh & Hnd2).
      assert (Hc2 : c2 <> c).
      { intros E. apply Hh. rewrite <- Hc, <- E. now left. }
      rewrite (setv_set p _ l m Hm).
      assert (Hl' : forall q, lookup (set_at p (Lock c2 rest) l) q =
                              if path_eqb p q then Some (Lock c2 rest) else lookup l q)
        by (intros q; apply lookup_set_at).
      destruct (LT_shrink l nr _ p (Some (Lock c2 rest)) HLT (wfn_set_at p _ l Hwf) (cleann_set_at p _ l Hcl) Hl')
        as (HLT' & Hsub).
      { cbn [holder cands]. split; [exact Hnd2|]. intros e He. exists lk. split; [exact El|].
        rewrite Ec. now right. }
      assert (Hp2 : forall r, In r rs2 -> pend l p c2 r).
      { intros r Hr. exists lk, rs2. split; [exact El|]. split; [rewrite Ec; now left|exact Hr]. }
      split; [reflexivity|]. split; [exact HLT'|]. split.
      { intros q. unfold line at 1. rewrite Hl'. destruct (path_eqb_spec p q) as [<-|Hne]; [|reflexivity].
        unfold line. rewrite El, Ec. cbn [holder cands map fst]. rewrite <- Hc.
        rewrite notc_cons_same. symmetry. apply notc_notin. now rewrite Hc. }
      split.
      { intros q c' r Hp. split; [now apply Hsub|]. rewrite app_nil_r. intros Hr.
        destruct (Huniq q c' r p c2 (Hsub _ _ _ Hp) (Hp2 r Hr)) as (-> & ->).
        destruct Hp as (lk' & rs & Hlk' & Hin & _). rewrite Hl', path_eqb_refl in Hlk'.
        injection Hlk' as <-. cbn [cands] in Hin. apply NoDup_cons_iff in Hnd2 as (Hx & _).
        apply Hx. exact (In_fst _ _ _ Hin). }
      split.
      { intros q c' r (lk0 & rs & Hlk0 & Hin & Hr).
        destruct (path_eqb_spec p q) as [<-|Hne].
        - rewrite El in Hlk0. injection Hlk0 as <-. rewrite Ec in Hin. destruct Hin as [[= -> ->]|Hin].
          + right. rewrite app_nil_r. exact Hr.
          + left. exists (Lock c2 rest), rs. split; [now rewrite Hl', path_eqb_refl|now split].
        - left. exists lk0, rs. split; [|now split]. rewrite Hl'.
          destruct (path_eqb_spec p q); [contradiction|exact Hlk0]. }
      split.
      { intros r Hr. exists c2. split; [now apply Hp2|]. split; [exact Hc2|].
        unfold line. now rewrite Hl', path_eqb_refl. }
      split; [intros r []|]. rewrite app_nil_r. apply (Hrs p lk c2 rs2 El). rewrite Ec. now left.
  - (* somebody else: leaves the queue, its requests are dropped *)
    remember (filter (fun cr => negb (N.eqb (fst cr) c)) (cands lk)) as cs' eqn:Ecs'.
    rewrite (setv_set p _ l m Hm).
    assert (Hl' : forall q, lookup (set_at p (Lock (holder lk) cs') l) q =
                            if path_eqb p q then Some (Lock (holder lk) cs') else lookup l q)
      by (intros q; apply lookup_set_at).
    assert (Hline' : holder lk :: map fst cs' = notc c (holder lk :: map fst (cands lk))).
    { rewrite Ecs', map_fst_filter_notc. rewrite notc_cons_other; [reflexivity|].
      intros E. now symmetry in E. }
    destruct (LT_shrink l nr _ p (Some (Lock (holder lk) cs')) HLT (wfn_set_at p _ l Hwf) (cleann_set_at p _ l Hcl) Hl')
      as (HLT' & Hsub).
    { cbn [holder cands]. split; [pose proof (NoDup_notc c _ Hlp) as Hnd'; rewrite <- Hline' in Hnd'; exact Hnd'|].
      intros e He. exists lk. split; [exact El|]. rewrite Ecs' in He. now apply filter_In in He. }
    assert (Hx : forall r, In r (flat_map (fun cr => if N.eqb (fst cr) c then snd cr else []) (cands lk)) ->
                           pend l p c r).
    { intros r Hr. apply In_dropped in Hr as (rs & Hin & Hr). now exists lk, rs. }
    split; [reflexivity|]. split; [exact HLT'|]. split.
    { intros q. unfold line at 1. rewrite Hl'. destruct (path_eqb_spec p q) as [<-|Hne]; [|reflexivity].
      cbn [holder cands]. etransitivity; [exact Hline'|]. unfold line. now rewrite El. }
    split.
    { intros q c' r Hp. split; [now apply Hsub|]. cbn [app]. intros Hr.
      destruct (Huniq q c' r p c (Hsub _ _ _ Hp) (Hx r Hr)) as (-> & ->).
      destruct Hp as (lk' & rs & Hlk' & Hin & _). rewrite Hl', path_eqb_refl in Hlk'.
      injection Hlk' as <-. cbn [cands] in Hin. rewrite Ecs' in Hin. apply filter_In in Hin as (_ & Hf).
      cbn [fst] in Hf. now rewrite N.eqb_refl in Hf. }
    split.
    { intros q c' r (lk0 & rs & Hlk0 & Hin & Hr).
      destruct (path_eqb_spec p q) as [<-|Hne].
      - rewrite El in Hlk0. injection Hlk0 as <-.
        destruct (N.eqb_spec c' c) as [->|Hne].
        + right. cbn [app]. apply In_dropped. now exists rs.
        + left. exists (Lock (holder lk) cs'), rs. split; [now rewrite Hl', path_eqb_refl|].
          split; [|exact Hr]. cbn [cands]. rewrite Ecs'. apply filter_In. split; [exact Hin|].
          cbn [fst]. destruct (N.eqb_spec c' c); [contradiction|reflexivity].
      - left. exists lk0, rs. split; [|now split]. rewrite Hl'.
        destruct (path_eqb_spec p q); [contradiction|exact Hlk0]. }
    split; [intros r []|]. split; [exact Hx|]. cbn [app].
    apply NoDup_dropped; [now apply NoDup_cons_iff in Hlp|]. intros c' rs Hin. exact (Hrs p lk c' rs El Hin).
Qed.

(* ------------------------------------------------------------------ unlock_all: one client, many keys *)

Lemma existsb_path_In q ps : existsb (path_eqb q) ps = true <-> In q ps.
Proof.
  rewrite existsb_exists. split.
  - intros (x & Hin & He). destruct (path_eqb_spec q x); [now subst|discriminate].
  - intros H. exists q. split; [exact H|apply path_eqb_refl].
Qed.

Lemma unlock_paths_hist c : forall ps l nr,
  LT l nr ->
  let '(l', g, x, crash) := unlock_paths l c ps in
  crash = false /\ LT l' nr /\
  (forall q, line l' q = if existsb (path_eqb q) ps then notc c (line l q) else line l q) /\
  (forall q c' r, pend l' q c' r -> pend l q c' r /\ ~ In r (g ++ x)) /\
  (forall q c' r, pend l q c' r -> pend l' q c' r \/ In r (g ++ x)) /\
  (forall r, In r g -> exists q c', pend l q c' r /\ c' <> c /\ hd_error (line l' q) = Some c') /\
  (forall r, In r x -> exists q, In q ps /\ pend l q c r) /\
  NoDup (g ++ x).
Proof.
  induction ps as [|p ps IH]; intros l nr HLT.
  - cbn [unlock_paths existsb app]. split; [reflexivity|]. split; [exact HLT|].
    split; [reflexivity|]. split; [intros q c' r Hp; split; [exact Hp|intros []]|].
    split; [intros q c' r Hp; now left|]. split; [intros r []|]. split; [intros r []|constructor].
  - cbn [unlock_paths]. pose proof (unlock_hist l nr c p HLT) as H1.
    destruct (unlock l c p) as [[[[l1 r1] g1] x1] cr1].
    destruct H1 as (-> & HLT1 & Hl1 & Ha1 & Hb1 & Hc1 & Hd1 & He1).
    specialize (IH l1 nr HLT1). destruct (unlock_paths l1 c ps) as [[[l2 g2] x2] cr2].
    destruct IH as (-> & HLT2 & Hl2 & Ha2 & Hb2 & Hc2 & Hd2 & He2).
    assert (Hin4 : forall r, In r ((g1 ++ g2) ++ x1 ++ x2) <-> In r (g1 ++ x1) \/ In r (g2 ++ x2)).
    { intros r. rewrite !in_app_iff. tauto. }
    split; [reflexivity|]. split; [exact HLT2|]. split.
    { intros q. rewrite Hl2, Hl1. cbn [existsb].
      destruct (path_eqb_spec q p) as [->|Hne].
      - rewrite path_eqb_refl. cbn [orb]. destruct (existsb (path_eqb p) ps); [apply notc_idem|reflexivity].
      - destruct (path_eqb_spec p q) as [E|_]; [now symmetry in E|]. reflexivity. }
    split.
    { intros q c' r Hp. destruct (Ha2 q c' r Hp) as (Hp1 & Hn2). destruct (Ha1 q c' r Hp1) as (Hp0 & Hn1).
      split; [exact Hp0|]. rewrite Hin4. tauto. }
    split.
    { intros q c' r Hp. rewrite Hin4. destruct (Hb1 q c' r Hp) as [Hp1|Hr]; [|tauto].
      destruct (Hb2 q c' r Hp1) as [Hp2|Hr]; tauto. }
    split.
    { intros r Hr. apply in_app_iff in Hr as [Hr|Hr].
      - destruct (Hc1 r Hr) as (c' & Hp & Hne & Hhd). exists p, c'. split; [exact Hp|]. split; [exact Hne|].
        rewrite Hl2. destruct (existsb (path_eqb p) ps); [now apply hd_notc|exact Hhd].
      - destruct (Hc2 r Hr) as (q & c' & Hp & Hne & Hhd). exists q, c'.
        split; [exact (proj1 (Ha1 _ _ _ Hp))|now split]. }
    split.
    { intros r Hr. apply in_app_iff in Hr as [Hr|Hr].
      - exists p. split; [now left|now apply Hd1].
      - destruct (Hd2 r Hr) as (q & Hin & Hp). exists q. split; [now right|exact (proj1 (Ha1 _ _ _ Hp))]. }
    apply NoDup_4; [exact He1|exact He2|].
    intros r Hr. apply in_app_iff in Hr as [Hr|Hr].
    + destruct (Hc2 r Hr) as (q & c' & Hp & _). exact (proj2 (Ha1 _ _ _ Hp)).
    + destruct (Hd2 r Hr) as (q & _ & Hp). exact (proj2 (Ha1 _ _ _ Hp)).
Qed.

(* ------------------------------------------------------------------ queueing an acquire request *)

Lemma has_client_existsb c (l : list (cid * list N)) : has_client c l = existsb (N.eqb c) (map fst l).
Proof. induction l as [|[c' rs] l IH]; cbn; [reflexivity|]. now rewrite IH. Qed.

Lemma has_client_In c (l : list (cid * list N)) : has_client c l = true <-> In c (map fst l).
Proof.
  rewrite has_client_existsb, existsb_exists. split.
  - intros (x & Hin & He). apply N.eqb_eq in He. now subst.
  - intros H. exists c. split; [exact H|apply N.eqb_refl].
Qed.

Lemma In_queue_cand c r l c' rs' :
  In (c', rs') (queue_cand c r l) ->
  In (c', rs') l \/ (c' = c /\ exists rs, rs' = rs ++ [r] /\ (rs = [] \/ In (c, rs) l)).
Proof.
  induction l as [|[c2 rs2] l IH]; cbn.
  - intros [[= <- <-]|[]]. right. split; [reflexivity|]. exists []. split; [reflexivity|now left].
  - destruct (N.eqb_spec c c2) as [->|Hne]; cbn.
    + intros [[= <- <-]|Hin]; [|left; now right]. right. split; [reflexivity|].
      exists rs2. split; [reflexivity|]. right. now left.
    + intros [[= <- <-]|Hin]; [left; now left|]. destruct (IH Hin) as [H|(-> & rs & -> & [->|H])].
      * left. now right.
      * right. split; [reflexivity|]. exists []. split; [reflexivity|now left].
      * right. split; [reflexivity|]. exists rs. split; [reflexivity|]. right. now right.
Qed.

Lemma queue_cand_keeps c r l c' rs :
  In (c', rs) l -> exists rs', In (c', rs') (queue_cand c r l) /\ forall x, In x rs -> In x rs'.
Proof.
  induction l as [|[c2 rs2] l IH]; cbn; [intros []|].
  destruct (N.eqb_spec c c2) as [->|Hne]; cbn.
  - intros [[= <- <-]|Hin].
    + exists (rs2 ++ [r]). split; [now left|]. intros x Hx. apply in_app_iff. now left.
    + exists rs. split; [now right|auto].
  - intros [[= <- <-]|Hin].
    + exists rs2. split; [now left|auto].
    + destruct (IH Hin) as (rs' & H1 & H2). exists rs'. split; [now right|exact H2].
Qed.

Lemma queue_cand_new c r l : exists rs', In (c, rs') (queue_cand c r l) /\ In r rs'.
Proof.
  induction l as [|[c2 rs2] l IH]; cbn.
  - exists [r]. split; now left.
  - destruct (N.eqb_spec c c2) as [->|Hne]; cbn.
    + exists (rs2 ++ [r]). split; [now left|]. apply in_app_iff. right. now left.
    + destruct IH as (rs' & H1 & H2). exists rs'. split; [now right|exact H2].
Qed.

(* the table after an acquire request of [c] on [p] that has to wait *)
Lemma queue_hist l nr c p lk :
  LT l nr -> lookup l p = Some lk -> c <> holder lk ->
  let l' := set_at p (Lock (holder lk) (queue_cand c nr (cands lk))) l in
  LT l' (nr + 1) /\
  (forall q, line l' q = if path_eqb p q then (if existsb (N.eqb c) (line l q) then line l q else line l q ++ [c])
                         else line l q) /\
  (forall q c' r, pend l' q c' r <-> pend l q c' r \/ (q = p /\ c' = c /\ r = nr)).
Proof.
  intros HLT El Hc l'. pose proof HLT as [Hwf Hcl Hline Hrs Hfresh Huniq].
  assert (Hl' : forall q, lookup l' q = if path_eqb p q
                                        then Some (Lock (holder lk) (queue_cand c nr (cands lk))) else lookup l q)
    by (intros q; apply lookup_set_at).
  assert (Hlp : NoDup (holder lk :: map fst (cands lk))).
  { specialize (Hline p). unfold line in Hline. now rewrite El in Hline. }
  assert (Hpend : forall q c' r, pend l' q c' r <-> pend l q c' r \/ (q = p /\ c' = c /\ r = nr)).
  { intros q c' r. split.
    - intros (lk' & rs & Hlk' & Hin & Hr). rewrite Hl' in Hlk'.
      destruct (path_eqb_spec p q) as [<-|Hne].
      + injection Hlk' as <-. cbn [cands] in Hin.
        destruct (In_queue_cand _ _ _ _ _ Hin) as [H|(-> & rs0 & -> & H)].
        * left. now exists lk, rs.
        * apply in_app_iff in Hr as [Hr|[<-|[]]]; [|now right].
          destruct H as [->|H]; [destruct Hr|]. left. now exists lk, rs0.
      + left. now exists lk', rs.
    - intros [(lk0 & rs & Hlk0 & Hin & Hr)|(-> & -> & ->)].
      + destruct (path_eqb_spec p q) as [<-|Hne].
        * rewrite El in Hlk0. injection Hlk0 as <-.
          destruct (queue_cand_keeps c nr _ _ _ Hin) as (rs' & H1 & H2).
          exists (Lock (holder lk) (queue_cand c nr (cands lk))), rs'.
          split; [now rewrite Hl', path_eqb_refl|]. split; [exact H1|now apply H2].
        * exists lk0, rs. split; [|now split]. rewrite Hl'. destruct (path_eqb_spec p q); [contradiction|exact Hlk0].
      + destruct (queue_cand_new c nr (cands lk)) as (rs' & H1 & H2).
        exists (Lock (holder lk) (queue_cand c nr (cands lk))), rs'.
        split; [now rewrite Hl', path_eqb_refl|now split]. }
  assert (Hlinep : line l' p = if existsb (N.eqb c) (line l p) then line l p else line l p ++ [c]).
  { unfold line. rewrite Hl', path_eqb_refl, El. cbn [holder cands existsb].
    rewrite queue_cand_order, has_client_existsb.
    destruct (N.eqb_spec c (holder lk)) as [E|_]; [contradiction|]. cbn [orb].
    destruct (existsb (N.eqb c) (map fst (cands lk))); reflexivity. }
  split; [|split; [|exact Hpend]].
  - split.
    + now apply wfn_set_at.
    + now apply cleann_set_at.
    + intros q. destruct (path_eqb_spec p q) as [<-|Hne].
      * rewrite Hlinep. destruct (existsb (N.eqb c) (line l p)) eqn:Ex; [apply Hline|].
        apply NoDup_snoc; [apply Hline|]. intros Hin.
        assert (existsb (N.eqb c) (line l p) = true); [|congruence].
        apply existsb_exists. exists c. split; [exact Hin|apply N.eqb_refl].
      * unfold line. rewrite Hl'. destruct (path_eqb_spec p q); [contradiction|]. apply Hline.
    + intros q lk' c' rs Hlk' Hin. rewrite Hl' in Hlk'. destruct (path_eqb_spec p q) as [<-|Hne].
      * injection Hlk' as <-. cbn [cands] in Hin.
        destruct (In_queue_cand _ _ _ _ _ Hin) as [H|(-> & rs0 & -> & H)]; [exact (Hrs p lk c' rs El H)|].
        destruct H as [->|H]; [cbn; constructor; [intros []|constructor]|].
        apply NoDup_snoc; [exact (Hrs p lk c rs0 El H)|]. intros Hr.
        assert (nr < nr); [|lia]. apply (Hfresh p c nr). now exists lk, rs0.
      * exact (Hrs q lk' c' rs Hlk' Hin).
    + intros q c' r Hp. apply Hpend in Hp as [Hp|(_ & _ & ->)]; [|lia]. specialize (Hfresh q c' r Hp). lia.
    + intros q c1 r q2 c2 Hp1 Hp2. apply Hpend in Hp1, Hp2.
      destruct Hp1 as [Hp1|(-> & -> & ->)], Hp2 as [Hp2|(-> & -> & E2)].
      * exact (Huniq _ _ _ _ _ Hp1 Hp2).
      * subst r. specialize (Hfresh _ _ _ Hp1). lia.
      * specialize (Hfresh _ _ _ Hp2). lia.
      * now split.
  - intros q. destruct (path_eqb_spec p q) as [<-|Hne]; [exact Hlinep|].
    unfold line. rewrite Hl'. now destruct (path_eqb_spec p q).
Qed.

(* a fresh lock on a free key *)
Lemma fresh_hist l nr c p :
  LT l nr -> lookup l p = None ->
  let l' := set_at p (Lock c []) l in
  LT l' nr /\ (forall q, line l' q = if path_eqb p q then [c] else line l q) /\
  (forall q c' r, pend l' q c' r <-> pend l q c' r).
Proof.
  intros HLT El l'. pose proof HLT as [Hwf Hcl Hline Hrs Hfresh Huniq].
  assert (Hl' : forall q, lookup l' q = if path_eqb p q then Some (Lock c []) else lookup l q)
    by (intros q; apply lookup_set_at).
  destruct (LT_shrink l nr l' p (Some (Lock c [])) HLT (wfn_set_at p _ l Hwf) (cleann_set_at p _ l Hcl) Hl')
    as (HLT' & Hsub).
  { cbn [holder cands map]. split; [constructor; [intros []|constructor]|intros e []]. }
  split; [exact HLT'|]. split.
  - intros q. unfold line. rewrite Hl'. now destruct (path_eqb_spec p q).
  - intros q c' r. split; [apply Hsub|]. intros (lk0 & rs & Hlk0 & Hin & Hr).
    exists lk0, rs. split; [|now split]. rewrite Hl'. destruct (path_eqb_spec p q) as [<-|_]; [congruence|exact Hlk0].
Qed.

(* ------------------------------------------------------------------ requests that have nothing to do with locks *)

Definition lockpart (s : core) := (locks s, locked_keys s, next_req s).
Definition quietX (X : node lock * list (cid * list (list str)) * N) (r : core * output) : Prop :=
  lockpart (fst r) = X /\ o_granted (snd r) = [] /\ o_cancelled (snd r) = [].
Definition quiet (r : core * output) (s : core) : Prop := quietX (lockpart s) r.

Lemma insert_quiet s c k e f : quiet (do_insert s c k e f) s.
Proof. unfold quiet, quietX, do_insert. crush_op; cbn; auto. Qed.
Lemma delete_quiet s c k : quiet (do_delete s c k) s.
Proof. unfold quiet, quietX, do_delete. crush_op; cbn; auto. Qed.
Lemma pdelete_quiet s c sk p : quiet (do_pdelete s c sk p) s.
Proof. unfold quiet, quietX, do_pdelete. crush_op; cbn; auto. Qed.
Lemma publish_quiet s k v : quiet (do_publish s k v) s.
Proof. unfold quiet, quietX, do_publish. crush_op; cbn; auto. Qed.
Lemma spub_init_quiet s c t k : quiet (do_spub_init s c t k) s.
Proof. unfold quiet, quietX, do_spub_init. crush_op; cbn; auto. Qed.
Lemma spub_quiet s c t v : quiet (do_spub s c t v) s.
Proof.
  unfold do_spub. destruct (assoc_get id_eqb (c, t) (spub_keys s)); [apply publish_quiet|].
  unfold quiet, quietX; cbn; auto.
Qed.
Lemma import_quiet s j : quiet (do_import s j) s.
Proof. unfold quiet, quietX, do_import. crush_op; cbn; auto. Qed.
Lemma subscribe_quiet s c t k u l : quiet (do_subscribe s c t k u l) s.
Proof. unfold quiet, quietX, do_subscribe. crush_op; cbn; auto. Qed.
Lemma psubscribe_quiet s c t k u l : quiet (do_psubscribe s c t k u l) s.
Proof. unfold quiet, quietX, do_psubscribe. crush_op; cbn; auto. Qed.
Lemma unsubscribe_quiet s c t : quiet (do_unsubscribe s c t) s.
Proof. unfold quiet, quietX, do_unsubscribe. crush_op; cbn; auto. Qed.
Lemma subscribe_ls_quiet s c t p : quiet (do_subscribe_ls s c t p) s.
Proof. unfold quiet, quietX, do_subscribe_ls. crush_op; cbn; auto. Qed.
Lemma unsubscribe_ls_quiet s c t : quiet (do_unsubscribe_ls s c t) s.
Proof. unfold quiet, quietX, do_unsubscribe_ls. crush_op; cbn; auto. Qed.

Lemma seq2_quiet X r1 f :
  quietX X r1 -> (forall s, lockpart s = X -> quietX X (f s)) -> quietX X (seq2 r1 f).
Proof.
  intros (H1 & H2 & H3) Hf. unfold seq2. destruct (is_crash (snd r1)); [now split|].
  destruct (Hf (fst r1) H1) as (G1 & G2 & G3). split; [exact G1|].
  cbn [snd out_app o_granted o_cancelled]. now rewrite H2, G2, H3, G3.
Qed.

Lemma iter_ops_quiet {A} X (f : core -> A -> core * output) l :
  (forall s x, lockpart s = X -> quietX X (f s x)) -> forall s, lockpart s = X -> quietX X (iter_ops f l s).
Proof.
  intros Hf. induction l as [|x l IH]; intros s Hs; cbn [iter_ops].
  - split; [exact Hs|]. now split.
  - apply seq2_quiet; [now apply Hf|exact IH].
Qed.

Lemma quiet_at s X : lockpart s = X -> forall r, quiet r s -> quietX X r.
Proof. intros <- r H. exact H. Qed.

Lemma connected_quiet s c : quiet (do_connected s c) s.
Proof.
  unfold do_connected. destruct (N.eqb c 0); [unfold quiet, quietX; cbn; auto|].
  destruct (existsb (N.eqb c) (clients s)); [unfold quiet, quietX; cbn; auto|].
  set (s1 := set_clients s (clients s ++ [c])).
  assert (H1 : lockpart s1 = lockpart s) by reflexivity.
  match goal with |- quiet (fst ?r, _) _ => assert (Hr : quietX (lockpart s) r) end.
  { apply seq2_quiet; [apply seq2_quiet|].
    - apply (quiet_at s1 _ H1). apply insert_quiet.
    - intros s2 H2. apply (quiet_at s2 _ H2). apply insert_quiet.
    - intros s2 H2. apply (quiet_at s2 _ H2). apply insert_quiet. }
  destruct Hr as (G1 & G2 & G3). unfold quiet, quietX. cbn [fst snd]. split; [exact G1|].
  match goal with |- context [is_crash ?o] => destruct (is_crash o) end; cbn; auto.
Qed.

(* ------------------------------------------------------------------ the lock table of the core *)

Definition cline (s : core) : list str -> list cid := line (locks s).
Definition cpend (s : core) : list str -> cid -> N -> Prop := pend (locks s).

Record LH (s : core) : Prop := {
  lh_lt : LT (locks s) (next_req s);
  lh_keys : forall p c, In c (cline s p) ->
            exists ps, assoc_get N.eqb c (locked_keys s) = Some ps /\ In p ps }.

Lemma LH_init : LH init.
Proof.
  split.
  - change (locks init) with (@empty_node lock). change (next_req init) with 0.
    split; try exact wfn_empty; try exact I.
    + intros p. unfold line. rewrite lookup_empty. constructor.
    + intros p lk c rs H. now rewrite lookup_empty in H.
    + intros p c r (lk & rs & H & _). now rewrite lookup_empty in H.
    + intros p c r p' c' (lk & rs & H & _). now rewrite lookup_empty in H.
  - intros p c H. unfold cline, line in H. change (locks init) with (@empty_node lock) in H.
    rewrite lookup_empty in H. destruct H.
Qed.

(* the abstract machine: a line of clients per key *)
Definition aline := list str -> list cid.
Definition aupd (a : aline) (p : list str) (f : list cid -> list cid) : aline :=
  fun q => if path_eqb p q then f (a q) else a q.
Definition astep (a : aline) (o : op) : aline :=
  match o with
  | OLock c k => match parse_segments k with
                 | Ok p => aupd a p (fun l => match l with [] => [c] | _ => l end)
                 | Err _ => a end
  | OAcquire c k => match parse_segments k with
                    | Ok p => aupd a p (fun l => if existsb (N.eqb c) l then l else l ++ [c])
                    | Err _ => a end
  | ORelease c k => match parse_segments k with Ok p => aupd a p (notc c) | Err _ => a end
  | ODisconnected c => if N.eqb c 0 then a else fun q => notc c (a q)
  | _ => a
  end.

Definition new_req (s : core) (o : op) (q : list str) (c : cid) (r : N) : Prop :=
  exists k, o = OAcquire c k /\ parse_segments k = Ok q /\ r = next_req s.
Definition actor (o : op) : option cid :=
  match o with ORelease c _ | ODisconnected c => Some c | _ => None end.

Record acct (s s' : core) (o : op) (out : output) : Prop := {
  ac_keep : forall q c r, cpend s' q c r ->
            (cpend s q c r \/ new_req s o q c r) /\ ~ In r (o_granted out ++ o_cancelled out);
  ac_all : forall q c r, cpend s q c r \/ new_req s o q c r ->
           cpend s' q c r \/ In r (o_granted out ++ o_cancelled out);
  ac_grant : forall r, In r (o_granted out) ->
             exists q c, (cpend s q c r \/ new_req s o q c r) /\ hd_error (cline s' q) = Some c;
  ac_cancel : forall r, In r (o_cancelled out) ->
              exists q c, actor o = Some c /\ cpend s q c r /\ ~ In c (cline s' q);
  ac_nodup : NoDup (o_granted out ++ o_cancelled out);
  ac_next : (next_req s' = next_req s /\ forall q c r, ~ new_req s o q c r) \/
            (next_req s' = next_req s + 1 /\ exists q c, new_req s o q c (next_req s)) }.

Definition LStep (s : core) (o : op) : Prop :=
  let s' := fst (step s o) in let out := snd (step s o) in
  LH s' /\ (forall q, cline s' q = astep (cline s) o q) /\ (is_crash out = false -> acct s s' o out).

Lemma quiet_LStep s o :
  LH s -> quiet (step s o) s -> (forall q, astep (cline s) o q = cline s q) ->
  (forall q c r, ~ new_req s o q c r) -> LStep s o.
Proof.
  intros [HLT Hk] (Hq & Hg & Hx) Ha Hn. unfold LStep.
  set (s' := fst (step s o)) in *. set (out := snd (step s o)) in *.
  unfold lockpart in Hq. injection Hq as E1 E2 E3.
  assert (Hcl : forall q, cline s' q = cline s q) by (intros q; unfold cline; now rewrite E1).
  split; [|split].
  - split; [now rewrite E1, E3|]. intros p c Hin. rewrite Hcl in Hin. rewrite E2. now apply Hk.
  - intros q. now rewrite Ha, Hcl.
  - intros _. split; rewrite ?Hg, ?Hx.
    + intros q c r Hp. split; [left; unfold cpend in *; now rewrite <- E1|intros []].
    + intros q c r [Hp|Hp]; [left; unfold cpend in *; now rewrite E1|destruct (Hn _ _ _ Hp)].
    + intros r [].
    + intros r [].
    + constructor.
    + left. split; [exact E3|exact Hn].
Qed.

Lemma quiet_same s r : quiet (s, out_res r) s.
Proof. unfold quiet, quietX. cbn. auto. Qed.

(* ------------------------------------------------------------------ locked_keys *)

Lemma assoc_get_set_same {V} c (v : V) l : assoc_get N.eqb c (assoc_set N.eqb c v l) = Some v.
Proof.
  induction l as [|[k x] l IH]; cbn; [now rewrite N.eqb_refl|].
  destruct (N.eqb c k) eqn:E; cbn; rewrite E; [reflexivity|exact IH].
Qed.

Lemma assoc_get_set_other {V} c c' (v : V) l :
  c' <> c -> assoc_get N.eqb c' (assoc_set N.eqb c v l) = assoc_get N.eqb c' l.
Proof.
  intros Hne. induction l as [|[k x] l IH]; cbn.
  - destruct (N.eqb_spec c' c); [contradiction|reflexivity].
  - destruct (N.eqb_spec c k) as [->|Hk]; cbn.
    + destruct (N.eqb_spec c' k); [contradiction|reflexivity].
    + destruct (N.eqb c' k); [reflexivity|exact IH].
Qed.

Lemma assoc_get_snoc {V} c' (l : list (cid * V)) c v :
  assoc_get N.eqb c' (l ++ [(c, v)]) =
  match assoc_get N.eqb c' l with Some x => Some x | None => if N.eqb c' c then Some v else None end.
Proof. induction l as [|[k x] l IH]; cbn; [reflexivity|]. destruct (N.eqb c' k); [reflexivity|exact IH]. Qed.

Lemma assoc_get_del_other {V} c c' (l : list (cid * V)) :
  c' <> c -> assoc_get N.eqb c' (assoc_del N.eqb c l) = assoc_get N.eqb c' l.
Proof.
  intros Hne. unfold assoc_del. induction l as [|[k x] l IH]; cbn; [reflexivity|].
  destruct (N.eqb_spec c k) as [->|Hk]; cbn.
  - destruct (N.eqb_spec c' k); [contradiction|exact IH].
  - destruct (N.eqb c' k); [reflexivity|exact IH].
Qed.

Lemma push_locked_has c p lk : exists ps, assoc_get N.eqb c (push_locked c p lk) = Some ps /\ In p ps.
Proof.
  unfold push_locked. destruct (assoc_get N.eqb c lk) as [ps|] eqn:E.
  - exists (ps ++ [p]). split; [apply assoc_get_set_same|apply in_app_iff; right; now left].
  - exists [p]. rewrite assoc_get_snoc, E, N.eqb_refl. split; [reflexivity|now left].
Qed.

Lemma push_locked_keeps c p lk c' ps q :
  assoc_get N.eqb c' lk = Some ps -> In q ps ->
  exists ps', assoc_get N.eqb c' (push_locked c p lk) = Some ps' /\ In q ps'.
Proof.
  intros Hg Hin. unfold push_locked. destruct (assoc_get N.eqb c lk) as [ps0|] eqn:E.
  - destruct (N.eqb_spec c' c) as [->|Hne].
    + rewrite E in Hg. injection Hg as ->. exists (ps ++ [p]).
      split; [apply assoc_get_set_same|apply in_app_iff; now left].
    + exists ps. now rewrite assoc_get_set_other.
  - exists ps. rewrite assoc_get_snoc, Hg. now split.
Qed.

(* ------------------------------------------------------------------ lock *)

Lemma no_new_req s o : (forall c k, o <> OAcquire c k) -> forall q c r, ~ new_req s o q c r.
Proof. intros H q c r (k & E & _). exact (H c k E). Qed.

Lemma lock_LStep s c k : LH s -> LStep s (OLock c k).
Proof.
  intros HLH. pose proof HLH as [HLT Hk].
  assert (Hnn : forall q c' r, ~ new_req s (OLock c k) q c' r) by (apply no_new_req; discriminate).
  destruct (parse_segments k) as [p|code] eqn:Ep.
  2:{ apply quiet_LStep; [exact HLH| | |exact Hnn].
      - cbn [step]. unfold do_lock. rewrite Ep. apply quiet_same.
      - intros q. cbn [astep]. now rewrite Ep. }
  destruct (lookup (locks s) p) as [lk|] eqn:El.
  - apply quiet_LStep; [exact HLH| | |exact Hnn].
    + cbn [step]. unfold do_lock. rewrite Ep, lookup_touch_at, El.
      destruct (lookup_get_node _ _ _ El) as (m & Hm). rewrite (touch_at_id p _ m Hm).
      destruct (N.eqb c (holder lk)); unfold quiet, quietX; cbn; auto.
    + intros q. cbn [astep]. rewrite Ep. unfold aupd. destruct (path_eqb_spec p q) as [<-|]; [|reflexivity].
      unfold cline, line. now rewrite El.
  - unfold LStep. cbn [step]. unfold do_lock. rewrite Ep, lookup_touch_at, El. cbn [fst snd].
    rewrite setv_touch_set.
    destruct (fresh_hist (locks s) (next_req s) c p HLT El) as (HLT' & Hl' & Hp').
    split; [|split].
    + split; cbn [locks locked_keys next_req set_locks]; [exact HLT'|].
      intros q c' Hin. unfold cline in Hin. cbn [locks set_locks] in Hin. rewrite Hl' in Hin.
      destruct (path_eqb_spec p q) as [<-|Hne].
      * destruct Hin as [<-|[]]. apply push_locked_has.
      * destruct (Hk q c' Hin) as (ps & Hg & Hi). exact (push_locked_keeps c p _ c' ps q Hg Hi).
    + intros q. unfold cline. cbn [locks set_locks astep]. rewrite Ep, Hl'. unfold aupd.
      destruct (path_eqb_spec p q) as [<-|]; [|reflexivity]. unfold line. now rewrite El.
    + intros _. split; cbn [o_granted o_cancelled out_res app].
      * intros q c' r Hp. split; [left; now apply Hp'|intros []].
      * intros q c' r [Hp|Hp]; [left; now apply Hp'|destruct (Hnn _ _ _ Hp)].
      * intros r [].
      * intros r [].
      * constructor.
      * left. split; [reflexivity|exact Hnn].
Qed.

(* ------------------------------------------------------------------ acquire *)

Lemma new_req_acq s c k p q c' r :
  parse_segments k = Ok p -> (new_req s (OAcquire c k) q c' r <-> q = p /\ c' = c /\ r = next_req s).
Proof.
  intros Ep. split.
  - intros (k' & [= <- <-] & Ep' & ->). rewrite Ep in Ep'. injection Ep' as <-. auto.
  - intros (-> & -> & ->). now exists k.
Qed.

Lemma acquire_LStep s c k : LH s -> LStep s (OAcquire c k).
Proof.
  intros HLH. pose proof HLH as [HLT Hk].
  destruct (parse_segments k) as [p|code] eqn:Ep.
  2:{ apply quiet_LStep; [exact HLH| | |].
      - cbn [step]. unfold do_acquire. rewrite Ep. apply quiet_same.
      - intros q. cbn [astep]. now rewrite Ep.
      - intros q c' r (k' & [= <- <-] & Ep' & _). congruence. }
  pose proof (lt_fresh _ _ HLT) as Hfresh.
  assert (Hkeys : forall l', (forall q c', In c' (line l' q) -> In c' (cline s q) \/ (q = p /\ c' = c)) ->
            forall q c', In c' (line l' q) ->
            exists ps, assoc_get N.eqb c' (push_locked c p (locked_keys s)) = Some ps /\ In q ps).
  { intros l' Hsub q c' Hin. destruct (Hsub q c' Hin) as [H|(-> & ->)].
    - destruct (Hk q c' H) as (ps & Hg & Hi). exact (push_locked_keeps c p _ c' ps q Hg Hi).
    - apply push_locked_has. }
  unfold LStep. cbn [step]. unfold do_acquire. rewrite Ep, lookup_touch_at.
  destruct (lookup (locks s) p) as [lk|] eqn:El.
  - destruct (lookup_get_node _ _ _ El) as (m & Hm).
    destruct (N.eqb_spec c (holder lk)) as [Hc|Hc]; cbn [fst snd].
    + (* the holder asks again: confirmed at once *)
      rewrite (touch_at_id p _ m Hm).
      split; [|split].
      * split; cbn [locks locked_keys next_req set_locks]; [apply (LT_mono _ _ _ HLT); lia|].
        apply Hkeys. intros q c' Hin. now left.
      * intros q. unfold cline. cbn [locks set_locks astep]. rewrite Ep. unfold aupd.
        destruct (path_eqb_spec p q) as [<-|]; [|reflexivity].
        unfold line. rewrite El. cbn [existsb]. rewrite Hc, N.eqb_refl. reflexivity.
      * intros _. split; cbn [o_granted o_cancelled app]; unfold cpend; cbn [locks set_locks].
        -- intros q c' r Hp. split; [now left|]. intros [<-|[]]. specialize (Hfresh _ _ _ Hp). lia.
        -- intros q c' r [Hp|Hp]; [now left|]. right. apply (new_req_acq s c k p) in Hp; [|exact Ep].
           destruct Hp as (_ & _ & ->). now left.
        -- intros r [<-|[]]. exists p, c. split; [right; now apply (new_req_acq s c k p)|].
           unfold cline, line. cbn [locks set_locks]. rewrite El. cbn. now rewrite Hc.
        -- intros r [].
        -- constructor; [intros []|constructor].
        -- right. split; [reflexivity|]. exists p, c. now apply (new_req_acq s c k p).
    + (* somebody else holds it: wait in line *)
      rewrite setv_touch_set.
      destruct (queue_hist (locks s) (next_req s) c p lk HLT El Hc) as (HLT' & Hl' & Hp').
      split; [|split].
      * split; cbn [locks locked_keys next_req set_locks]; [exact HLT'|].
        apply Hkeys. intros q c' Hin. rewrite Hl' in Hin.
        destruct (path_eqb_spec p q) as [<-|Hne]; [|now left].
        destruct (existsb (N.eqb c) (line (locks s) p)); [now left|].
        apply in_app_iff in Hin as [Hin|[<-|[]]]; [now left|now right].
      * intros q. unfold cline. cbn [locks set_locks astep]. rewrite Ep, Hl'. reflexivity.
      * intros _. split; cbn [o_granted o_cancelled app]; unfold cpend; cbn [locks set_locks].
        -- intros q c' r Hp. split; [|intros []]. apply Hp' in Hp as [Hp|Hp]; [now left|right].
           now apply (new_req_acq s c k p).
        -- intros q c' r Hp. left. apply Hp'. destruct Hp as [Hp|Hp]; [now left|right].
           now apply (new_req_acq s c k p) in Hp.
        -- intros r [].
        -- intros r [].
        -- constructor.
        -- right. split; [reflexivity|]. exists p, c. now apply (new_req_acq s c k p).
  - (* free: the requester holds it, confirmed at once *)
    cbn [fst snd]. rewrite setv_touch_set.
    destruct (fresh_hist (locks s) (next_req s) c p HLT El) as (HLT' & Hl' & Hp').
    split; [|split].
    + split; cbn [locks locked_keys next_req set_locks]; [apply (LT_mono _ _ _ HLT'); lia|].
      apply Hkeys. intros q c' Hin. rewrite Hl' in Hin.
      destruct (path_eqb_spec p q) as [<-|Hne]; [|now left]. destruct Hin as [<-|[]]. now right.
    + intros q. unfold cline. cbn [locks set_locks astep]. rewrite Ep, Hl'. unfold aupd.
      destruct (path_eqb_spec p q) as [<-|]; [|reflexivity]. unfold line. now rewrite El.
    + intros _. split; cbn [o_granted o_cancelled app]; unfold cpend; cbn [locks set_locks].
      * intros q c' r Hp. apply Hp' in Hp. split; [now left|]. intros [<-|[]].
        specialize (Hfresh _ _ _ Hp). lia.
      * intros q c' r [Hp|Hp]; [left; now apply Hp'|]. right.
        apply (new_req_acq s c k p) in Hp; [|exact Ep]. destruct Hp as (_ & _ & ->). now left.
      * intros r [<-|[]]. exists p, c. split; [right; now apply (new_req_acq s c k p)|].
        unfold cline. cbn [locks set_locks]. rewrite Hl', path_eqb_refl. reflexivity.
      * intros r [].
      * constructor; [intros []|constructor].
      * right. split; [reflexivity|]. exists p, c. now apply (new_req_acq s c k p).
Qed.

(* ------------------------------------------------------------------ release *)

Lemma release_LStep s c k : LH s -> LStep s (ORelease c k).
Proof.
  intros HLH. pose proof HLH as [HLT Hk].
  assert (Hnn : forall q c' r, ~ new_req s (ORelease c k) q c' r) by (apply no_new_req; discriminate).
  destruct (parse_segments k) as [p|code] eqn:Ep.
  2:{ apply quiet_LStep; [exact HLH| | |exact Hnn].
      - cbn [step]. unfold do_release. rewrite Ep. apply quiet_same.
      - intros q. cbn [astep]. now rewrite Ep. }
  unfold LStep. cbn [step]. unfold do_release. rewrite Ep.
  pose proof (unlock_hist (locks s) (next_req s) c p HLT) as H.
  destruct (unlock (locks s) c p) as [[[[l' r0] g] x] cr].
  destruct H as (-> & HLT' & Hl' & Ha & Hb & Hc & Hd & He). cbn [fst snd].
  split; [|split].
  - split; cbn [locks locked_keys next_req set_locks]; [exact HLT'|].
    intros q c' Hin. unfold cline in Hin. cbn [locks set_locks] in Hin. rewrite Hl' in Hin. apply Hk.
    destruct (path_eqb p q); [now apply In_notc in Hin|exact Hin].
  - intros q. unfold cline. cbn [locks set_locks astep]. rewrite Ep, Hl'. reflexivity.
  - intros _. split; cbn [o_granted o_cancelled]; unfold cpend, cline; cbn [locks set_locks next_req].
    + intros q c' r Hp. destruct (Ha _ _ _ Hp) as (H1 & H2). split; [now left|exact H2].
    + intros q c' r [Hp|Hp]; [now apply Hb|destruct (Hnn _ _ _ Hp)].
    + intros r Hr. destruct (Hc r Hr) as (c' & Hp & _ & Hhd). exists p, c'. split; [now left|exact Hhd].
    + intros r Hr. exists p, c. split; [reflexivity|]. split; [now apply Hd|].
      rewrite Hl', path_eqb_refl. intros Hin. apply In_notc in Hin. now destruct Hin.
    + exact He.
    + left. split; [reflexivity|exact Hnn].
Qed.

(* ------------------------------------------------------------------ session end *)

Lemma disconnected_shape s c :
  N.eqb c 0 = false ->
  let u := match assoc_get N.eqb c (locked_keys s) with
           | Some paths => unlock_paths (locks s) c paths
           | None => (locks s, [], [], false)
           end in
  let '(l', g, x, crash) := u in
  if crash then do_disconnected s c = (s, out_res RCrash) else
  exists r, quietX (l', assoc_del N.eqb c (locked_keys s), next_req s) r /\
    do_disconnected s c =
    (fst r, if is_crash (snd r) then snd r
            else Output RUnit (o_events (snd r)) (o_ls (snd r)) (g ++ o_granted (snd r)) (x ++ o_cancelled (snd r))).
Proof.
  intros H0. unfold do_disconnected. rewrite H0.
  change (locked_keys (set_spub s (filter (fun kv => negb (N.eqb (fst (fst kv)) c)) (spub_keys s))))
    with (locked_keys s).
  change (locks (set_spub s (filter (fun kv => negb (N.eqb (fst (fst kv)) c)) (spub_keys s))))
    with (locks s).
  cbv zeta.
  destruct (match assoc_get N.eqb c (locked_keys s) with
            | Some paths => unlock_paths (locks s) c paths
            | None => (locks s, [], [], false)
            end) as [[[l' g] x] cr].
  destruct cr; [reflexivity|].
  eexists. split; [|reflexivity].
  set (X := (l', assoc_del N.eqb c (locked_keys s), next_req s)).
  assert (Hins : forall s0 cl k e f, lockpart s0 = X -> quietX X (do_insert s0 cl k e f)).
  { intros s0 cl k e f H. apply (quiet_at s0 X H). apply insert_quiet. }
  assert (Hpd : forall s0 cl sk p, lockpart s0 = X -> quietX X (do_pdelete s0 cl sk p)).
  { intros s0 cl sk p H. apply (quiet_at s0 X H). apply pdelete_quiet. }
  apply seq2_quiet; [apply Hins; reflexivity|].
  intros s1 H1. apply seq2_quiet.
  { apply iter_ops_quiet; [|exact H1]. intros s2 y H2. apply (quiet_at s2 X H2). apply unsubscribe_quiet. }
  intros s2 H2. apply seq2_quiet.
  { apply iter_ops_quiet; [|exact H2]. intros s3 y H3. apply (quiet_at s3 X H3). apply unsubscribe_ls_quiet. }
  intros s3 H3. apply seq2_quiet; [now apply Hpd|].
  intros s4 H4. apply seq2_quiet.
  { apply iter_ops_quiet; [|exact H4]. intros s5 y H5. now apply Hpd. }
  intros s5 H5. apply iter_ops_quiet; [|exact H5]. intros s6 y H6. now apply Hins.
Qed.

Lemma assoc_get_det {V} c (l : list (cid * V)) a b :
  assoc_get N.eqb c l = Some a -> assoc_get N.eqb c l = Some b -> a = b.
Proof. congruence. Qed.

Lemma disconnected_LStep s c : LH s -> LStep s (ODisconnected c).
Proof.
  intros HLH. pose proof HLH as [HLT Hk].
  assert (Hnn : forall q c' r, ~ new_req s (ODisconnected c) q c' r) by (apply no_new_req; discriminate).
  destruct (N.eqb c 0) eqn:E0.
  { apply quiet_LStep; [exact HLH| | |exact Hnn].
    - cbn [step]. unfold do_disconnected. rewrite E0. apply quiet_same.
    - intros q. cbn [astep]. now rewrite E0. }
  (* what unlock_all does to the table *)
  assert (HU : let '(l', g, x, crash) := match assoc_get N.eqb c (locked_keys s) with
                                         | Some paths => unlock_paths (locks s) c paths
                                         | None => (locks s, [], [], false)
                                         end in
               crash = false /\ LT l' (next_req s) /\
               (forall q, line l' q = notc c (cline s q)) /\
               (forall q c' r, pend l' q c' r -> cpend s q c' r /\ ~ In r (g ++ x)) /\
               (forall q c' r, cpend s q c' r -> pend l' q c' r \/ In r (g ++ x)) /\
               (forall r, In r g -> exists q c', cpend s q c' r /\ hd_error (line l' q) = Some c') /\
               (forall r, In r x -> exists q, cpend s q c r) /\
               NoDup (g ++ x)).
  { destruct (assoc_get N.eqb c (locked_keys s)) as [paths|] eqn:Eg.
    - pose proof (unlock_paths_hist c paths (locks s) (next_req s) HLT) as H.
      destruct (unlock_paths (locks s) c paths) as [[[l' g] x] cr].
      destruct H as (-> & HLT' & Hl' & Ha & Hb & Hc & Hd & He).
      split; [reflexivity|]. split; [exact HLT'|]. split.
      { intros q. rewrite Hl'. destruct (existsb (path_eqb q) paths) eqn:Ex; [reflexivity|].
        symmetry. apply notc_notin. intros Hin. destruct (Hk q c Hin) as (ps & Hg & Hi).
        rewrite Eg in Hg. injection Hg as <-. apply existsb_path_In in Hi. congruence. }
      split; [exact Ha|]. split; [exact Hb|]. split.
      { intros r Hr. destruct (Hc r Hr) as (q & c' & Hp & _ & Hhd). now exists q, c'. }
      split; [|exact He]. intros r Hr. destruct (Hd r Hr) as (q & _ & Hp). now exists q.
    - split; [reflexivity|]. split; [exact HLT|]. split.
      { intros q. symmetry. apply notc_notin. intros Hin. destruct (Hk q c Hin) as (ps & Hg & _). congruence. }
      split; [intros q c' r Hp; split; [exact Hp|intros []]|].
      split; [intros q c' r Hp; now left|]. split; [intros r []|]. split; [intros r []|constructor]. }
  pose proof (disconnected_shape s c E0) as HS. cbv zeta in HS.
  destruct (match assoc_get N.eqb c (locked_keys s) with
            | Some paths => unlock_paths (locks s) c paths
            | None => (locks s, [], [], false)
            end) as [[[l' g] x] cr].
  destruct HU as (-> & HLT' & Hl' & Ha & Hb & Hc & Hd & He).
  destruct HS as (r & (Hq & Hg0 & Hx0) & Hdo).
  unfold LStep. cbn [step]. rewrite Hdo. cbn [fst snd].
  unfold lockpart in Hq. injection Hq as E1 E2 E3.
  split; [|split].
  - split; [now rewrite E1, E3|]. intros q c' Hin. unfold cline in Hin. rewrite E1, Hl' in Hin.
    apply In_notc in Hin as (Hin & Hne). destruct (Hk q c' Hin) as (ps & Hg & Hi).
    exists ps. split; [|exact Hi]. rewrite E2. now rewrite assoc_get_del_other.
  - intros q. unfold cline at 1. rewrite E1, Hl'. cbn [astep]. now rewrite E0.
  - intros Hnc. destruct (is_crash (snd r)) eqn:Ecr; [congruence|].
    unfold cpend, cline in *.
    split; cbn [o_granted o_cancelled]; unfold cpend, cline; rewrite ?Hg0, ?Hx0, ?app_nil_r, ?E1.
    + intros q c' r' Hp. destruct (Ha _ _ _ Hp) as (H1 & H2). split; [now left|exact H2].
    + intros q c' r' [Hp|Hp]; [now apply Hb|destruct (Hnn _ _ _ Hp)].
    + intros r' Hr. destruct (Hc r' Hr) as (q & c' & Hp & Hhd). exists q, c'. split; [now left|exact Hhd].
    + intros r' Hr. destruct (Hd r' Hr) as (q & Hp). exists q, c. split; [reflexivity|]. split; [exact Hp|].
      rewrite Hl'. intros Hin. apply In_notc in Hin. now destruct Hin.
    + exact He.
    + left. split; [exact E3|exact Hnn].
Qed.

(* ------------------------------------------------------------------ every request *)

Theorem lock_step s o : LH s -> LStep s o.
Proof.
  intros HLH.
  assert (Hq : forall r, quiet r s -> step s o = r -> (forall c k, o <> OAcquire c k) ->
                         (forall a, astep a o = a) -> LStep s o).
  { intros r Hr Hs Hna Ha. apply quiet_LStep; [exact HLH|now rewrite Hs| |now apply no_new_req].
    intros q. now rewrite Ha. }
  destruct o; try (eapply Hq; [|reflexivity|discriminate|reflexivity]; cbn [step]).
  all: try apply quiet_same.
  - apply insert_quiet.
  - apply insert_quiet.
  - apply delete_quiet.
  - apply pdelete_quiet.
  - apply publish_quiet.
  - apply spub_init_quiet.
  - apply spub_quiet.
  - apply import_quiet.
  - apply subscribe_quiet.
  - apply psubscribe_quiet.
  - apply unsubscribe_quiet.
  - apply subscribe_ls_quiet.
  - apply unsubscribe_ls_quiet.
  - now apply lock_LStep.
  - now apply acquire_LStep.
  - now apply release_LStep.
  - apply connected_quiet.
  - now apply disconnected_LStep.
Qed.

(* ------------------------------------------------------------------ histories *)

Fixpoint trace (s : core) (ops : list op) : list output :=
  match ops with
  | [] => []
  | o :: ops' => snd (step s o) :: trace (fst (step s o)) ops'
  end.
Definition resolved (outs : list output) : list N := flat_map (fun o => o_granted o ++ o_cancelled o) outs.
Definition nocrash (outs : list output) : Prop := forall o, In o outs -> is_crash o = false.

Lemma final_snoc s ops o : final s (ops ++ [o]) = fst (step (final s ops) o).
Proof. unfold final. now rewrite fold_left_app. Qed.

Lemma trace_snoc ops : forall s o, trace s (ops ++ [o]) = trace s ops ++ [snd (step (final s ops) o)].
Proof.
  induction ops as [|o' ops IH]; intros s o; [reflexivity|].
  cbn [app trace]. rewrite IH. reflexivity.
Qed.

Lemma run_trace ops : forall s, nocrash (trace s ops) -> run s ops = trace s ops.
Proof.
  induction ops as [|o ops IH]; intros s H; [reflexivity|]. cbn [run trace] in *.
  rewrite (H (snd (step s o))) by now left. f_equal. apply IH. intros x Hx. apply H. now right.
Qed.

Theorem reach_LH ops : LH (final init ops).
Proof.
  induction ops as [|o ops IH] using rev_ind; [exact LH_init|].
  rewrite final_snoc. exact (proj1 (lock_step _ o IH)).
Qed.

Theorem line_refines ops q : cline (final init ops) q = fold_left astep ops (fun _ => []) q.
Proof.
  revert q. induction ops as [|o ops IH] using rev_ind; intros q.
  - unfold cline, line. change (locks (final init [])) with (@empty_node lock). now rewrite lookup_empty.
  - rewrite final_snoc, fold_left_app. cbn [fold_left].
    rewrite (proj1 (proj2 (lock_step _ o (reach_LH ops))) q).
    assert (E : forall a b : aline, (forall q, a q = b q) -> forall q, astep a o q = astep b o q).
    { intros a b Hab q'. destruct o; cbn [astep]; try apply Hab.
      - destruct (parse_segments k); [|apply Hab]. unfold aupd. now rewrite Hab.
      - destruct (parse_segments k); [|apply Hab]. unfold aupd. now rewrite Hab.
      - destruct (parse_segments k); [|apply Hab]. unfold aupd. now rewrite Hab.
      - destruct (N.eqb c 0); [apply Hab|now rewrite Hab]. }
    apply E. exact IH.
Qed.

(* a pending request belongs to a client that waits; the holder has none *)
Lemma pend_waits s q c r : LH s -> cpend s q c r ->
  In c (cline s q) /\ hd_error (cline s q) <> Some c.
Proof.
  intros [HLT _] (lk & rs & Hl & Hin & _). pose proof (lt_line _ _ HLT q) as Hnd.
  unfold cline, line in *. rewrite Hl in *. apply NoDup_cons_iff in Hnd as (Hh & _).
  pose proof (In_fst _ _ _ Hin) as Hc. split; [now right|]. cbn. intros [= E]. now rewrite E in Hh.
Qed.

Section OneStep.
  Variables (ops : list op) (o : op).
  Let s := final init ops.
  Let s' := fst (step s o).
  Let out := snd (step s o).
  Hypothesis Hnc : is_crash out = false.

  Let HLH : LH s := reach_LH ops.
  Let HLH' : LH s' := proj1 (lock_step s o HLH).
  Let Hac : acct s s' o out := proj2 (proj2 (lock_step s o HLH)) Hnc.

  (* a confirmation goes to the client that now holds the key *)
  Theorem granted_is_holder r :
    In r (o_granted out) ->
    exists q c, (cpend s q c r \/ new_req s o q c r) /\ hd_error (cline s' q) = Some c.
  Proof. exact (ac_grant _ _ _ _ Hac r). Qed.

  (* and it comes in the very step in which the client becomes the holder *)
  Theorem holder_is_granted q c r :
    cpend s q c r -> hd_error (cline s' q) = Some c -> In r (o_granted out).
  Proof.
    intros Hp Hhd. destruct (ac_all _ _ _ _ Hac q c r (or_introl Hp)) as [Hp'|Hr].
    - destruct (pend_waits s' q c r HLH' Hp') as (_ & Hn). contradiction.
    - apply in_app_iff in Hr as [Hr|Hr]; [exact Hr|].
      destruct (ac_cancel _ _ _ _ Hac r Hr) as (q2 & c2 & _ & Hp2 & Hout).
      destruct (lt_uniq _ _ (lh_lt _ HLH) _ _ _ _ _ Hp Hp2) as (<- & <-).
      exfalso. apply Hout. destruct (cline s' q); [discriminate|]. injection Hhd as ->. now left.
  Qed.

  (* a request is cancelled exactly when its client leaves the line without having held the key *)
  Theorem cancelled_has_left r :
    In r (o_cancelled out) -> exists q c, actor o = Some c /\ cpend s q c r /\ ~ In c (cline s' q).
  Proof. exact (ac_cancel _ _ _ _ Hac r). Qed.

  Theorem left_is_cancelled q c r :
    cpend s q c r -> ~ In c (cline s' q) -> In r (o_cancelled out).
  Proof.
    intros Hp Hout. destruct (ac_all _ _ _ _ Hac q c r (or_introl Hp)) as [Hp'|Hr].
    - destruct (pend_waits s' q c r HLH' Hp') as (Hin & _). contradiction.
    - apply in_app_iff in Hr as [Hr|Hr]; [|exact Hr].
      destruct (ac_grant _ _ _ _ Hac r Hr) as (q2 & c2 & [Hp2|Hp2] & Hhd).
      + destruct (lt_uniq _ _ (lh_lt _ HLH) _ _ _ _ _ Hp Hp2) as (<- & <-).
        exfalso. apply Hout. destruct (cline s' q); [discriminate|]. injection Hhd as ->. now left.
      + destruct Hp2 as (k & _ & _ & ->). pose proof (lt_fresh _ _ (lh_lt _ HLH) _ _ _ Hp). lia.
  Qed.

  (* a request that is neither confirmed nor cancelled in this step is still pending, for the same client
     on the same key, and that client still waits *)
  Theorem pending_stays q c r :
    cpend s q c r -> ~ In r (o_granted out ++ o_cancelled out) -> cpend s' q c r.
  Proof. intros Hp Hn. destruct (ac_all _ _ _ _ Hac q c r (or_introl Hp)); [assumption|contradiction]. Qed.
End OneStep.

(* over a whole history: every id handed out by an acquire is confirmed or cancelled at most once, never
   both, and until then it is pending *)
Theorem confirm_once ops :
  nocrash (trace init ops) ->
  let s := final init ops in let R := resolved (trace init ops) in
  NoDup R /\
  (forall r, In r R -> r < next_req s /\ forall q c, ~ cpend s q c r) /\
  (forall r, r < next_req s -> In r R \/ exists q c, cpend s q c r).
Proof.
  induction ops as [|o ops IH] using rev_ind; intros Hnc.
  - cbn. split; [constructor|]. split; [intros r []|]. intros r Hr. change (next_req init) with 0 in Hr. lia.
  - rewrite trace_snoc in *. rewrite final_snoc.
    assert (Hnc0 : nocrash (trace init ops)).
    { intros x Hx. apply Hnc. apply in_app_iff. now left. }
    specialize (IH Hnc0). cbv zeta in IH. destruct IH as (IH1 & IH2 & IH3).
    set (s := final init ops) in *. set (out := snd (step s o)) in *. set (s' := fst (step s o)).
    assert (Hc : is_crash out = false). { apply Hnc. apply in_app_iff. right. now left. }
    pose proof (reach_LH ops) as HLH. fold s in HLH.
    pose proof (proj2 (proj2 (lock_step s o HLH)) Hc) as Hac. fold s' out in Hac.
    destruct Hac as [Hkeep Hall Hgr Hca Hnd Hnext].
    pose proof (lt_fresh _ _ (lh_lt _ HLH)) as Hfresh.
    assert (Hle : next_req s <= next_req s') by (destruct Hnext as [(E & _)|(E & _)]; lia).
    assert (Hres : forall r, In r (o_granted out ++ o_cancelled out) ->
                   (exists q c, cpend s q c r) \/ (r = next_req s /\ next_req s' = next_req s + 1)).
    { intros r Hr. apply in_app_iff in Hr as [Hr|Hr].
      - destruct (Hgr r Hr) as (q & c & [Hp|Hp] & _); [left; now exists q, c|]. right.
        destruct Hnext as [(_ & Hn)|(E & _)]; [destruct (Hn _ _ _ Hp)|]. destruct Hp as (k & _ & _ & ->). now split.
      - destruct (Hca r Hr) as (q & c & _ & Hp & _). left. now exists q, c. }
    cbv zeta. unfold resolved. rewrite flat_map_app. cbn [flat_map]. rewrite app_nil_r.
    fold (resolved (trace init ops)). set (R := resolved (trace init ops)) in *.
    split; [|split].
    + apply NoDup_app_intro; [exact IH1|exact Hnd|]. intros r HrR Hr.
      destruct (IH2 r HrR) as (Hlt & Hnp). destruct (Hres r Hr) as [(q & c & Hp)|(-> & _)]; [exact (Hnp _ _ Hp)|lia].
    + intros r Hr. apply in_app_iff in Hr as [Hr|Hr].
      * destruct (IH2 r Hr) as (Hlt & Hnp). split; [lia|]. intros q c Hp.
        destruct (Hkeep _ _ _ Hp) as ([Hp0|(k & _ & _ & ->)] & _); [exact (Hnp _ _ Hp0)|lia].
      * split.
        -- destruct (Hres r Hr) as [(q & c & Hp)|(-> & E)]; [specialize (Hfresh _ _ _ Hp)|]; lia.
        -- intros q c Hp. exact (proj2 (Hkeep _ _ _ Hp) Hr).
    + intros r Hr.
      assert (Hold : r < next_req s -> In r (R ++ o_granted out ++ o_cancelled out) \/ exists q c, cpend s' q c r).
      { intros Hlt. destruct (IH3 r Hlt) as [HrR|(q & c & Hp)]; [left; apply in_app_iff; now left|].
        destruct (Hall q c r (or_introl Hp)) as [Hp'|Hr']; [right; now exists q, c|left; apply in_app_iff; now right]. }
      destruct Hnext as [(E & _)|(E & q & c & Hn)]; [apply Hold; lia|].
      destruct (N.eq_dec r (next_req s)) as [->|Hne]; [|apply Hold; lia].
      destruct (Hall q c _ (or_intror Hn)) as [Hp'|Hr']; [right; now exists q, c|left; apply in_app_iff; now right].
Qed.

(* the assertion in Store::unlock never fires, whatever the history *)
Theorem release_never_crashes ops c k :
  o_res (snd (do_release (final init ops) c k)) <> RCrash.
Proof.
  pose proof (reach_LH ops) as [HLT _]. unfold do_release.
  destruct (parse_segments k) as [p|code]; [|discriminate].
  pose proof (unlock_hist _ _ c p HLT) as H. destruct (unlock (locks (final init ops)) c p) as [[[[l' r0] g] x] cr].
  destruct H as (-> & _). cbn. destruct r0; discriminate.
Qed.

Theorem reach_nodup ops q : NoDup (cline (final init ops) q).
Proof. exact (lt_line _ _ (lh_lt _ (reach_LH ops)) q). Qed.
