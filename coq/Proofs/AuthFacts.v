(* The containment decided by pattern_matches is sound: whatever the requested pattern can
   match, the granted pattern matches too -- for each of the three matching relations. *)
From WB Require Import Base.Str Base.StrFacts Model.Key Model.Match Model.Auth Proofs.SubsFacts Proofs.MatchFacts.

Lemma doc_match_nonempty s r k : doc_match (s :: r) k = true -> k <> [].
Proof. destruct k; [|discriminate]. destruct s as [x| |]; cbn; try discriminate. destruct r; discriminate. Qed.

Theorem pm_sound_doc g : forall r k,
  wf_pat g = true -> pm g r = true -> doc_match r k = true -> doc_match g k = true.
Proof.
  induction g as [|gs g IH]; intros r k Hwf Hpm Hm.
  - destruct r; [assumption|discriminate].
  - destruct gs as [x| |].
    + destruct r as [|rs r]; [discriminate|]. cbn [pm wf_pat kseg_eqb andb orb] in *.
      destruct rs as [y| |]; cbn [kseg_eqb] in Hpm; try discriminate.
      destruct (str_eqb_spec x y) as [->|]; [|discriminate].
      destruct k as [|z k]; [discriminate|]. cbn [doc_match] in *.
      apply andb_true_iff in Hm as [-> Hm]. cbn. exact (IH r k Hwf Hpm Hm).
    + destruct r as [|rs r]; [discriminate|]. cbn [pm wf_pat kseg_eqb andb orb] in *.
      destruct rs as [y| |]; cbn [kseg_eqb negb orb] in Hpm; try discriminate.
      * destruct k as [|z k]; [discriminate|]. cbn [doc_match] in *.
        apply andb_true_iff in Hm as [_ Hm]. exact (IH r k Hwf Hpm Hm).
      * destruct k as [|z k]; [discriminate|]. cbn [doc_match] in *. exact (IH r k Hwf Hpm Hm).
    + destruct g; [|discriminate]. destruct r as [|rs r]; [discriminate|].
      pose proof (doc_match_nonempty _ _ _ Hm). destruct k; [congruence|reflexivity].
Qed.

Lemma store_match_multi_tail p k : wf_pat (Multi :: p) = true -> store_match (Multi :: p) k = true.
Proof. destruct p; [reflexivity|discriminate]. Qed.

Theorem pm_sound_store g : forall r k,
  wf_pat g = true -> pm g r = true -> store_match r k = true -> store_match g k = true.
Proof.
  induction g as [|gs g IH]; intros r k Hwf Hpm Hm.
  - destruct r; [assumption|discriminate].
  - destruct gs as [x| |].
    + destruct r as [|rs r]; [discriminate|]. cbn [pm wf_pat kseg_eqb andb orb] in *.
      destruct rs as [y| |]; cbn [kseg_eqb] in Hpm; try discriminate.
      destruct (str_eqb_spec x y) as [->|]; [|discriminate].
      destruct k as [|z k]; [discriminate|]. cbn [store_match] in *.
      apply andb_true_iff in Hm as [-> Hm]. cbn [andb]. exact (IH r k Hwf Hpm Hm).
    + destruct r as [|rs r]; [discriminate|]. cbn [pm wf_pat kseg_eqb andb orb] in *.
      destruct rs as [y| |]; cbn [kseg_eqb negb orb] in Hpm; try discriminate.
      * destruct k as [|z k]; [discriminate|]. cbn [store_match] in *.
        apply andb_true_iff in Hm as [_ Hm]. exact (IH r k Hwf Hpm Hm).
      * destruct k as [|z k]; [discriminate|]. cbn [store_match] in *. exact (IH r k Hwf Hpm Hm).
    + now apply store_match_multi_tail.
Qed.

Theorem pm_sound_sub g : forall r k,
  wf_pat g = true -> pm g r = true -> sub_match r k = true -> sub_match g k = true.
Proof.
  induction g as [|gs g IH]; intros r k Hwf Hpm Hm.
  - destruct r; [assumption|discriminate].
  - destruct gs as [x| |].
    + destruct r as [|rs r]; [discriminate|]. cbn [pm wf_pat kseg_eqb andb orb] in *.
      destruct rs as [y| |]; cbn [kseg_eqb] in Hpm; try discriminate.
      destruct (str_eqb_spec x y) as [->|]; [|discriminate].
      destruct k as [|z k]; [discriminate|]. cbn [sub_match] in *.
      apply andb_true_iff in Hm as [-> Hm]. cbn. exact (IH r k Hwf Hpm Hm).
    + destruct r as [|rs r]; [discriminate|]. cbn [pm wf_pat kseg_eqb andb orb] in *.
      destruct rs as [y| |]; cbn [kseg_eqb negb orb] in Hpm; try discriminate.
      * destruct k as [|z k]; [discriminate|]. cbn [sub_match] in *.
        apply andb_true_iff in Hm as [_ Hm]. exact (IH r k Hwf Hpm Hm).
      * destruct k as [|z k]; [discriminate|]. cbn [sub_match] in *. exact (IH r k Hwf Hpm Hm).
    + destruct r as [|rs r]; [discriminate|].
      destruct k as [|z k]; [|reflexivity].
      destruct rs; discriminate.
Qed.

(* a literal key is a pattern without wildcards: the grant must match the key itself *)
Corollary pm_sound_key g key :
  wf_pat g = true -> pm g (map Reg key) = true -> doc_match g key = true.
Proof.
  intros Hwf Hpm. apply (pm_sound_doc g (map Reg key) key Hwf Hpm).
  rewrite doc_match_literal. apply path_eqb_refl.
Qed.

(* authorize: served only if some grant of that privilege contains the requested pattern *)
Lemma authorize_spec c p pattern :
  authorize c p pattern = true <-> exists g, In g (grants c p) /\ pattern_matches g pattern = true.
Proof. unfold authorize. rewrite existsb_exists. reflexivity. Qed.
