From WB Require Import Base.Str Base.StrFacts Base.Json Model.Key Model.Store Model.Match
  Model.Subs Model.Entry Model.Core Spec.MapSpec
  Proofs.StoreFacts Proofs.TreeInv Proofs.GoodNames Proofs.MergeFacts Proofs.MatchFacts Proofs.CoreFacts
  Proofs.C05Proof Proofs.LenFacts.

(* the requests C01 speaks about *)
Definition c01_op (o : op) : Prop :=
  match o with
  | OGet _ | OCGet _ | OPGet _ | OLs _ | OPLs _ | OLen
  | OSet _ _ _ _ | OCSet _ _ _ _ _ | ODelete _ _ | OPDelete _ _ | OImport _ => True
  | _ => False
  end.

(* an imported tree is a HashMap at every level, with regular segment names and no value at
   the (unaddressable) root *)
Definition import_ok (o : op) : Prop :=
  match o with
  | OImport j => forall other, dec_persisted j = Some other -> good_import other
  | _ => True
  end.

Lemma meq_refl m : meq m m.
Proof. intros q. reflexivity. Qed.

(* ---- pls ---- *)
Lemma In_dedup x l : In x (dedup l) <-> In x l.
Proof.
  induction l as [|y l IH]; cbn [dedup]; [reflexivity|]. cbn [In]. rewrite filter_In, IH.
  split.
  - intros [H|[H _]]; auto.
  - intros [H|H]; [now left|]. destruct (str_eqb_spec y x) as [E|Hne]; [now left|right].
    split; [exact H|]. reflexivity.
Qed.

Lemma NoDup_dedup l : NoDup (dedup l).
Proof.
  induction l as [|y l IH]; cbn [dedup]; constructor.
  - rewrite filter_In. cbv beta. intros [_ H]. now rewrite str_eqb_refl in H.
  - now apply NoDup_filter.
Qed.

Lemma reach_multi_has {V} (n : node V) : forall p, reach_multi n p = true -> In Multi p.
Proof.
  induction n as [v cs IH] using node_ind'. intros p H.
  destruct p as [|[s| |] tail]; cbn [reach_multi] in H; [discriminate| | |now left].
  - right. induction IH as [|[k c] cs Hc Hcs IHcs]; [discriminate|].
    destruct (str_eqb s k); [now apply Hc|now apply IHcs].
  - right. induction IH as [|[k c] cs Hc Hcs IHcs]; [discriminate|].
    apply orb_true_iff in H as [H|H]; [now apply Hc|now apply IHcs].
Qed.

Lemma pls_exact {V} (n : node V) p x :
  wfn n -> cleann n ->
  (In x (collect_children n p) <->
   exists P q e, parent_match p P = true /\ lookup n (P ++ x :: q) = Some e).
Proof.
  intros Hw Hc. rewrite (collect_children_spec n p x Hw). split.
  - intros (P & m & Hm & Hg & Hin). pose proof (ls_exact n P Hw Hc) as H. unfold ls_at in H. rewrite Hg in H.
    destruct H as (_ & H). apply H in Hin as (q & e & Hl). now exists P, q, e.
  - intros (P & q & e & Hm & Hl). pose proof (ls_exact n P Hw Hc) as H. unfold ls_at in H.
    destruct (get_node n P) as [m|] eqn:Hg in H |- *.
    + exists P, m. split; [exact Hm|]. split; [exact Hg|]. apply (proj2 H). now exists q, e.
    + rewrite H in Hl. discriminate.
Qed.

(* read_ok without the clause for len, which needs the invariant of the cached count *)
Definition read_ok0 (m : mstate) (o : op) (r : result) : Prop :=
  match o with OLen => True | _ => read_ok m o r end.

Lemma step_refines0 s o :
  Inv s -> c01_op o -> import_ok o ->
  let r := step s o in
  o_res (snd r) <> RCrash ->
  Inv (fst r) /\
  write_effect (abs s) (abs (fst r)) o (o_res (snd r)) /\
  read_ok0 (abs s) o (o_res (snd r)).
Proof.
  intros HI Hop Himp. pose proof HI as (Hw & Hc & Hg & Hr).
  destruct o; try contradiction; cbn [step read_ok0]; intros Hnc.
  - (* get *)
    cbn [fst snd o_res out_res]. split; [assumption|]. split; [apply meq_refl|].
    cbn [read_ok]. unfold do_get. destruct (parse_segments k); [|reflexivity].
    unfold abs. now destruct (lookup (data s) a).
  - (* cget *)
    cbn [fst snd o_res out_res]. split; [assumption|]. split; [apply meq_refl|].
    cbn [read_ok]. unfold do_cget, m_version. destruct (parse_segments k); [|reflexivity].
    unfold abs. destruct (lookup (data s) a) as [[v|v n]|]; reflexivity.
  - (* pget *)
    cbn [fst snd o_res out_res]. split; [assumption|]. split.
    + destruct (do_pget s p); apply meq_refl.
    + cbn [read_ok]. pose proof (do_pget_spec s p HI) as H. destruct (do_pget s p); exact H.
  - (* ls *)
    cbn [fst snd o_res out_res]. split; [assumption|]. split.
    + apply meq_refl.
    + cbn [read_ok]. unfold do_ls. destruct parent as [parent|].
      * pose proof (ls_exact (data s) (split slash parent) Hw Hc) as H.
        destruct (ls_at (data s) (split slash parent)); [exact H|]. split; [reflexivity|exact H].
      * pose proof (ls_exact (data s) [] Hw Hc) as H. exact H.
  - (* pls *)
    cbn [fst snd o_res out_res]. split; [assumption|]. split; [destruct (do_pls s parent); apply meq_refl|].
    cbn [read_ok]. unfold do_pls. destruct parent as [parent|].
    + destruct (reach_multi (data s) (kseg_parse parent)) eqn:Erm.
      * split; [reflexivity|]. exact (reach_multi_has _ _ Erm).
      * split; [apply NoDup_dedup|]. intros x. rewrite In_dedup. exact (pls_exact (data s) _ x Hw Hc).
    + pose proof (ls_exact (data s) [] Hw Hc) as H. exact H.
  - (* len *)
    cbn [fst snd o_res out_res]. split; [assumption|]. split; [apply meq_refl|exact I].
  - (* set *)
    pose proof (do_insert_effect s c k (Plain v) force HI) as H. cbv zeta in H.
    destruct (o_res (snd (do_insert s c k (Plain v) force))) eqn:Er; try contradiction.
    + destruct H as (p & ex & ch & e' & Ep & Ed & HI' & Hm).
      apply decide_plain in Ed. subst e'. split; [assumption|]. split; [|exact I].
      cbn [write_effect]. now exists p.
    + rewrite H. split; [assumption|]. split; [apply meq_refl|exact I].
  - (* cset *)
    pose proof (do_insert_effect s c k (Cas v ver) force HI) as H. cbv zeta in H.
    destruct (o_res (snd (do_insert s c k (Cas v ver) force))) eqn:Er; try contradiction.
    + destruct H as (p & ex & ch & e' & Ep & Ed & HI' & Hm).
      apply decide_cas in Ed. subst e'. split; [assumption|]. split; [|exact I].
      cbn [write_effect]. exists p. split; [assumption|]. exact Hm.
    + rewrite H. split; [assumption|]. split; [apply meq_refl|exact I].
  - (* delete *)
    pose proof (do_delete_effect s c k HI) as H. cbv zeta in H.
    destruct (o_res (snd (do_delete s c k))) eqn:Er; try contradiction.
    + destruct H as (p & e & Ep & El & -> & HI' & Hm). split; [assumption|]. split; [|exact I].
      cbn [write_effect]. now exists p, e.
    + destruct H as [HI' Hm]. split; [assumption|]. split; [exact Hm|exact I].
  - (* pdelete *)
    pose proof (do_pdelete_effect s c p HI) as H. cbv zeta in H.
    destruct (o_res (snd (do_pdelete s c false p))) eqn:Er; try contradiction.
    + destruct H as (HI' & Hm & ->). split; [assumption|]. split; [exact Hm|].
      cbn [read_ok]. intros k v. rewrite in_map_iff. split.
      * intros ([q e] & E & Hin). unfold kv_of in E. cbn [fst snd] in E. injection E as <- <-.
        apply (collect_spec _ _ _ _ _ Hw) in Hin as (k' & -> & Hl & Hm'). cbn [app].
        exists k', e. repeat split; assumption.
      * intros (q & e & -> & -> & Hl & Hm'). exists (q, e). split; [reflexivity|].
        apply (collect_spec _ _ _ _ _ Hw). exists q. repeat split; assumption.
    + rewrite H. split; [assumption|]. split; [apply meq_refl|exact I].
  - (* import *)
    pose proof (do_import_effect s j HI Himp) as H. cbv zeta in H.
    destruct (o_res (snd (do_import s j))) eqn:Er; try contradiction.
    + destruct H as (other & Ed & HI' & Hm). split; [assumption|]. split; [|exact I].
      cbn [write_effect]. now exists other.
    + rewrite H. split; [assumption|]. split; [apply meq_refl|exact I].
Qed.

(* a request answered with an error changes nothing a later request can observe: the map is
   the same, and (by step_refines) every later read is a function of the map *)
Theorem step_refines s o :
  Inv s -> LenInv s -> c01_op o -> import_ok o ->
  let r := step s o in
  o_res (snd r) <> RCrash ->
  Inv (fst r) /\ LenInv (fst r) /\
  write_effect (abs s) (abs (fst r)) o (o_res (snd r)) /\
  read_ok (abs s) o (o_res (snd r)).
Proof.
  intros HI HL Hop Himp r Hnc. destruct (step_refines0 s o HI Hop Himp Hnc) as (HI' & Hw & Hr).
  split; [exact HI'|]. split; [now apply step_len|]. split; [exact Hw|].
  destruct o; try exact Hr. cbn [step snd o_res out_res read_ok].
  destruct (count_is_keys (data s) (proj1 HI)) as (keys & Hnd & Hin & Hcount).
  exists keys. split; [exact Hnd|]. split; [exact Hin|]. unfold LenInv in HL. congruence.
Qed.

Theorem error_is_noop s o code :
  Inv s -> c01_op o -> import_ok o ->
  o_res (snd (step s o)) = RErr code ->
  meq (abs (fst (step s o))) (abs s) /\ Inv (fst (step s o)).
Proof.
  intros HI Hop Himp Hr.
  destruct (step_refines0 s o HI Hop Himp) as (HI' & Hw & _); [rewrite Hr; discriminate|].
  split; [|assumption]. rewrite Hr in Hw. destruct o; try contradiction; exact Hw.
Qed.

(* for set, cset, pdelete and import a rejected request leaves the whole server state as it was *)
Theorem rejected_write_is_identity s o code :
  Inv s -> import_ok o ->
  match o with OSet _ _ _ _ | OCSet _ _ _ _ _ | OPDelete _ _ | OImport _ => True | _ => False end ->
  o_res (snd (step s o)) = RErr code -> fst (step s o) = s.
Proof.
  intros HI Himp Hop Hr. destruct o; try contradiction; cbn [step] in *.
  - pose proof (do_insert_effect s c k (Plain v) force HI) as H. cbv zeta in H. now rewrite Hr in H.
  - pose proof (do_insert_effect s c k (Cas v ver) force HI) as H. cbv zeta in H. now rewrite Hr in H.
  - pose proof (do_pdelete_effect s c p HI) as H. cbv zeta in H. now rewrite Hr in H.
  - pose proof (do_import_effect s j HI Himp) as H. cbv zeta in H. now rewrite Hr in H.
Qed.

(* ---- every history ---- *)

Fixpoint spec_trace (m : mstate) (ops : list op) (outs : list output) : Prop :=
  match ops, outs with
  | [], [] => True
  | o :: ops', out :: outs' =>
      read_ok m o (o_res out) /\
      exists m', write_effect m m' o (o_res out) /\ spec_trace m' ops' outs'
  | _, _ => False
  end.

Definition no_crash (outs : list output) : Prop := Forall (fun o => o_res o <> RCrash) outs.

Lemma is_crash_false o : o_res o <> RCrash -> is_crash o = false.
Proof. unfold is_crash. destruct (o_res o); congruence. Qed.

Theorem run_refines ops : forall s,
  Inv s -> LenInv s -> Forall c01_op ops -> Forall import_ok ops -> no_crash (run s ops) ->
  spec_trace (abs s) ops (run s ops).
Proof.
  induction ops as [|o ops IH]; intros s HI HL Hops Himp Hnc; [exact I|].
  inversion Hops as [|? ? Ho Hops']; subst. inversion Himp as [|? ? Hi Himp']; subst.
  cbn [run] in *. inversion Hnc as [|? ? Hc Hnc']; subst.
  destruct (step_refines s o HI HL Ho Hi Hc) as (HI' & HL' & Hw & Hr).
  rewrite (is_crash_false _ Hc) in *. cbn [spec_trace]. split; [exact Hr|].
  exists (abs (fst (step s o))). split; [exact Hw|]. now apply IH.
Qed.

Lemma abs_init : meq (abs init) m_empty.
Proof. intros q. unfold abs, m_empty. apply lookup_empty. Qed.

Corollary run_refines_init ops :
  Forall c01_op ops -> Forall import_ok ops -> no_crash (run init ops) ->
  spec_trace (abs init) ops (run init ops).
Proof. intros. now apply (run_refines ops init Inv_init eq_refl). Qed.

(* ---- histories that also contain the other request kinds ----
   publish, publish streams, subscriptions of both kinds, locks and the debugging dump do not touch the
   data: interleaved with them, every read still answers what the accepted writes imply *)
Definition other_op (o : op) : Prop :=
  match o with
  | OPublish _ _ | OSPubInit _ _ _ | OSPub _ _ _ | OSubscribe _ _ _ _ _ | OPSubscribe _ _ _ _ _
  | OUnsubscribe _ _ | OSubscribeLs _ _ _ | OUnsubscribeLs _ _ | OLock _ _ | OAcquire _ _ | ORelease _ _
  | ODump => True
  | _ => False
  end.
Definition any_req (o : op) : Prop := c01_op o \/ other_op o.

Lemma other_data_same s o : other_op o -> data (fst (step s o)) = data s.
Proof.
  destruct o; try contradiction; intros _; cbn [step fst]; try reflexivity.
  - unfold do_publish. now destruct (parse_segments k).
  - unfold do_spub_init. now destruct (check_read_only k c).
  - unfold do_spub. match goal with |- context [match ?x with Some _ => _ | None => _ end] => destruct x as [key|] end; [|reflexivity].
    unfold do_publish. now destruct (parse_segments key).
  - unfold do_subscribe. repeat match goal with |- context [match ?x with _ => _ end] => destruct x end; reflexivity.
  - unfold do_psubscribe. repeat match goal with |- context [match ?x with _ => _ end] => destruct x end; reflexivity.
  - unfold do_unsubscribe. repeat match goal with |- context [match ?x with _ => _ end] => destruct x end; reflexivity.
  - unfold do_unsubscribe_ls. repeat match goal with |- context [match ?x with _ => _ end] => destruct x end; reflexivity.
  - unfold do_lock. repeat match goal with |- context [match ?x with _ => _ end] => destruct x end; reflexivity.
  - unfold do_acquire. repeat match goal with |- context [match ?x with _ => _ end] => destruct x end; reflexivity.
  - unfold do_release. repeat match goal with |- context [match ?x with _ => _ end] => destruct x end; reflexivity.
Qed.

Theorem step_refines_any s o :
  Inv s -> LenInv s -> any_req o -> import_ok o ->
  let r := step s o in
  o_res (snd r) <> RCrash ->
  Inv (fst r) /\ LenInv (fst r) /\
  write_effect (abs s) (abs (fst r)) o (o_res (snd r)) /\
  read_ok (abs s) o (o_res (snd r)).
Proof.
  intros HI HL [Hop|Hop] Himp r Hnc; [now apply step_refines|].
  pose proof (other_data_same s o Hop) as Ed. fold r in Ed.
  split; [unfold Inv in *; now rewrite Ed|]. split; [now apply step_len|].
  assert (Hm : meq (abs (fst r)) (abs s)) by (intros q; unfold abs; now rewrite Ed).
  destruct o; try contradiction; (split; [|exact I]); cbn [write_effect]; try exact Hm;
    destruct (o_res (snd r)); exact Hm.
Qed.

Theorem run_refines_any ops : forall s,
  Inv s -> LenInv s -> Forall any_req ops -> Forall import_ok ops -> no_crash (run s ops) ->
  spec_trace (abs s) ops (run s ops).
Proof.
  induction ops as [|o ops IH]; intros s HI HL Hops Himp Hnc; [exact I|].
  inversion Hops as [|? ? Ho Hops']; subst. inversion Himp as [|? ? Hi Himp']; subst.
  cbn [run] in *. inversion Hnc as [|? ? Hc Hnc']; subst.
  destruct (step_refines_any s o HI HL Ho Hi Hc) as (HI' & HL' & Hw & Hr).
  rewrite (is_crash_false _ Hc) in *. cbn [spec_trace]. split; [exact Hr|].
  exists (abs (fst (step s o))). split; [exact Hw|]. now apply IH.
Qed.
