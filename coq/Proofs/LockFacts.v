(* The lock tree (store.rs:985-1075) seen as a map from key paths to locks. *)
From WB Require Import Base.Str Base.StrFacts Base.Json Model.Key Model.Store Model.Entry Model.Core
  Proofs.StoreFacts Proofs.TreeInv Proofs.GoodNames.
From Coq Require Import Lia.

Definition labs (s : core) (p : list str) : option lock := lookup (locks s) p.

Lemma lookup_touch_at {V} p : forall (n : node V) q, lookup (touch_at p n) q = lookup n q.
Proof.
  induction p as [|k p IH]; intros [v cs] q; [reflexivity|].
  cbn [touch_at nval nkids]. destruct q as [|k2 q]; [reflexivity|].
  rewrite !lookup_cons. destruct (str_eqb_spec k2 k) as [->|Hn].
  - rewrite find_upd_child_same, IH. destruct (find_child k cs); [reflexivity|apply lookup_empty].
  - now rewrite find_upd_child_other.
Qed.

Lemma wfn_touch_at {V} p : forall (n : node V), wfn n -> wfn (touch_at p n).
Proof.
  induction p as [|k p IH]; intros [v cs] Hwf; [exact Hwf|].
  cbn [touch_at nval nkids]. apply wfn_unfold in Hwf as [Hnd Hc]. apply wfn_unfold. split.
  - now apply NoDup_names_upd_child.
  - apply Forall_upd_child; [assumption|exact IH|apply IH; exact wfn_empty].
Qed.

Lemma get_node_touch_at {V} p : forall (n : node V), exists m, get_node (touch_at p n) p = Some m.
Proof.
  induction p as [|k p IH]; intros [v cs]; [eexists; reflexivity|].
  cbn [touch_at nval nkids get_node]. rewrite find_upd_child_same. apply IH.
Qed.

Lemma lookup_setv_at {V} p (x : option V) : forall (n : node V) q m,
  get_node n p = Some m ->
  lookup (setv_at p x n) q = if path_eqb p q then x else lookup n q.
Proof.
  induction p as [|k p IH]; intros [v cs] q m Hg.
  - destruct q; reflexivity.
  - cbn [get_node nkids] in Hg. destruct (find_child k cs) as [c|] eqn:Ef; [|discriminate].
    cbn [setv_at nval nkids]. destruct q as [|k2 q]; [reflexivity|].
    rewrite !lookup_cons, find_mod_child. cbn [path_eqb].
    destruct (str_eqb_spec k k2) as [<-|Hn].
    + rewrite str_eqb_refl, Ef. cbn [option_map andb]. exact (IH c q m Hg).
    + apply not_eq_sym in Hn. apply str_eqb_neq in Hn. now rewrite Hn.
Qed.

Lemma wfn_setv_at {V} p (x : option V) : forall (n : node V), wfn n -> wfn (setv_at p x n).
Proof.
  induction p as [|k p IH]; intros [v cs] Hwf; [exact Hwf|].
  cbn [setv_at nval nkids]. apply wfn_unfold in Hwf as [Hnd Hc]. apply wfn_unfold. split.
  - now rewrite names_mod_child.
  - now apply Forall_mod_child.
Qed.

Lemma del_lock_at_eq {V} p : forall (n : node V), del_lock_at p n = del_at p n.
Proof.
  induction p as [|k p IH]; intros [v cs]; [reflexivity|].
  cbn [del_lock_at del_at nkids nval]. destruct (find_child k cs); [|reflexivity].
  assert (E : mod_child k (del_lock_at p) cs = mod_child k (del_at p) cs).
  { clear -IH. induction cs as [|[k' c] cs IHcs]; [reflexivity|].
    cbn. destruct (str_eqb k k'); [now rewrite IH|now rewrite IHcs]. }
  now rewrite E.
Qed.

(* setting a value on a touched path *)
Lemma lookup_set_lock {V} p (x : option V) (n : node V) q :
  lookup (setv_at p x (touch_at p n)) q = if path_eqb p q then x else lookup n q.
Proof.
  destruct (get_node_touch_at p n) as (m & Hm).
  rewrite (lookup_setv_at p x _ q m Hm), lookup_touch_at. reflexivity.
Qed.

Definition LInv (s : core) : Prop := wfn (locks s).

Lemma LInv_init : LInv init.
Proof. exact wfn_empty. Qed.

(* ---- lock ---- *)
Theorem do_lock_spec s c k p :
  parse_segments k = Ok p -> LInv s ->
  let r := do_lock s c k in
  LInv (fst r) /\
  match labs s p with
  | None => o_res (snd r) = RUnit /\
            (forall q, labs (fst r) q = if path_eqb p q then Some (Lock c []) else labs s q)
  | Some lk =>
      (forall q, labs (fst r) q = labs s q) /\
      (if N.eqb c (holder lk) then o_res (snd r) = RUnit else o_res (snd r) = RErr E_KeyIsLocked)
  end /\
  o_granted (snd r) = [] /\ o_cancelled (snd r) = [].
Proof.
  intros Hp HI. unfold do_lock. rewrite Hp. unfold labs.
  rewrite lookup_touch_at.
  destruct (lookup (locks s) p) as [lk|] eqn:El.
  - destruct (N.eqb c (holder lk)) eqn:Eh; cbn [fst snd o_res out_res locks set_locks o_granted o_cancelled].
    + split; [now apply wfn_touch_at|]. split; [|split; reflexivity].
      split; [intros q; apply lookup_touch_at|reflexivity].
    + split; [now apply wfn_touch_at|]. split; [|split; reflexivity].
      split; [intros q; apply lookup_touch_at|reflexivity].
  - cbn [fst snd o_res out_res locks set_locks o_granted o_cancelled].
    split; [apply wfn_setv_at; now apply wfn_touch_at|]. split; [|split; reflexivity].
    split; [reflexivity|]. intros q. apply lookup_set_lock.
Qed.

(* ---- acquire ---- *)
Theorem do_acquire_spec s c k p :
  parse_segments k = Ok p -> LInv s ->
  let r := do_acquire s c k in
  let rq := next_req s in
  LInv (fst r) /\ o_res (snd r) = RReq rq /\ next_req (fst r) = rq + 1 /\ o_cancelled (snd r) = [] /\
  match labs s p with
  | None => o_granted (snd r) = [rq] /\
            (forall q, labs (fst r) q = if path_eqb p q then Some (Lock c []) else labs s q)
  | Some lk =>
      if N.eqb c (holder lk)
      then o_granted (snd r) = [rq] /\ (forall q, labs (fst r) q = labs s q)
      else o_granted (snd r) = [] /\
           (forall q, labs (fst r) q =
                      if path_eqb p q then Some (Lock (holder lk) (queue_cand c rq (cands lk))) else labs s q)
  end.
Proof.
  intros Hp HI. unfold do_acquire. rewrite Hp. unfold labs. rewrite lookup_touch_at.
  destruct (lookup (locks s) p) as [lk|] eqn:El.
  - destruct (N.eqb c (holder lk)) eqn:Eh; cbn [fst snd o_res locks set_locks o_granted o_cancelled next_req].
    + repeat split; try reflexivity; [now apply wfn_touch_at|]. intros q. apply lookup_touch_at.
    + repeat split; try reflexivity; [apply wfn_setv_at; now apply wfn_touch_at|].
      intros q. apply lookup_set_lock.
  - cbn [fst snd o_res locks set_locks o_granted o_cancelled next_req].
    repeat split; try reflexivity; [apply wfn_setv_at; now apply wfn_touch_at|].
    intros q. apply lookup_set_lock.
Qed.

(* ---- release ---- *)
Lemma lookup_get_node {V} (n : node V) p x : lookup n p = Some x -> exists m, get_node n p = Some m.
Proof. unfold lookup. destruct (get_node n p); [eauto|discriminate]. Qed.

Theorem unlock_spec l c p :
  wfn l ->
  let '(l', r, granted, cancelled, crash) := unlock l c p in
  wfn l' /\
  match lookup l p with
  | None => r = Err E_KeyIsNotLocked /\ granted = [] /\ cancelled = [] /\ l' = l
  | Some lk =>
      if N.eqb c (holder lk) then
        cancelled = [] /\
        match cands lk with
        | [] => r = Ok None /\ granted = [] /\
                (forall q, lookup l' q = if path_eqb p q then None else lookup l q)
        | (c', rs) :: rest =>
            r = Ok (Some c') /\ granted = rs /\ crash = false /\
            (forall q, lookup l' q = if path_eqb p q then Some (Lock c' rest) else lookup l q)
        end
      else
        r = Err E_KeyIsLocked /\ granted = [] /\ crash = false /\
        cancelled = flat_map (fun cr => if N.eqb (fst cr) c then snd cr else []) (cands lk) /\
        (forall q, lookup l' q =
                   if path_eqb p q
                   then Some (Lock (holder lk) (filter (fun cr => negb (N.eqb (fst cr) c)) (cands lk)))
                   else lookup l q)
  end.
Proof.
  intros Hw. unfold unlock. destruct (lookup l p) as [lk|] eqn:El.
  - destruct (lookup_get_node _ _ _ El) as (m & Hm).
    destruct (N.eqb c (holder lk)) eqn:Eh.
    + destruct (cands lk) as [|[c' rs] rest] eqn:Ec.
      * split; [rewrite del_lock_at_eq; now apply wfn_del_at|].
        repeat split; try reflexivity. intros q. rewrite del_lock_at_eq. now apply lookup_del_at.
      * split; [now apply wfn_setv_at|]. repeat split; try reflexivity.
        intros q. exact (lookup_setv_at p _ l q m Hm).
    + split; [now apply wfn_setv_at|]. repeat split; try reflexivity.
      intros q. exact (lookup_setv_at p _ l q m Hm).
  - split; [assumption|]. repeat split; reflexivity.
Qed.

(* waiting clients become holders in the order in which they first asked: a repeated request
   keeps the client's place, a new client goes to the end, nobody else moves *)
Lemma queue_cand_order c r l :
  map fst (queue_cand c r l) = if has_client c l then map fst l else map fst l ++ [c].
Proof.
  induction l as [|[c' rs] l IH]; cbn; [reflexivity|].
  destruct (N.eqb c c') eqn:E; cbn; [reflexivity|]. rewrite IH. now destruct (has_client c l).
Qed.

