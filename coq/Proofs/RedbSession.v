(* C18: the table follows the store through session ends too.  Worterbuch::disconnected queues, for the user keys,
   a delete for every key its burial removed and an update for every key its last will wrote (Model/Redb.v reads them
   off the states before and after); with SessionEnd.v -- a session end is a run of pattern deletes and forced plain
   sets -- the rows are again the stored entries.  Hypothesis: nothing is stored at the key "$SYS" itself (no client
   request can put anything there). *)
From Coq Require Import Lia List.
Import ListNotations.
From WB Require Import Base.Str Base.StrFacts Base.Json Model.Key Model.Consts Model.Store Model.Match Model.Subs Model.Entry Model.Core
  Model.Persist Model.Redb Model.Sync Spec.MapSpec
  Proofs.StoreFacts Proofs.TreeInv Proofs.GoodNames Proofs.CoreFacts Proofs.C07Proof Proofs.LenFacts Proofs.C01Proof
  Proofs.LockHistory Proofs.SessionEnd Proofs.SyncFacts Proofs.RedbTrack.
Local Open Scope N_scope.
Local Arguments N.add : simpl never.
Local Arguments N.sub : simpl never.

From WB Require Import Base.JsonFacts.

Lemma entry_eqb_refl e : entry_eqb e e = true.
Proof. destruct e; cbn; rewrite ?json_eqb_refl, ?N.eqb_refl; reflexivity. Qed.

Lemma entry_eqb_eq a b : entry_eqb a b = true -> a = b.
Proof.
  destruct a as [x|x n], b as [y|y m]; cbn; try discriminate.
  - intros H. apply json_eqb_eq in H. now subst.
  - intros H. apply andb_true_iff in H as (H1 & H2). apply json_eqb_eq in H1. apply N.eqb_eq in H2. now subst.
Qed.

(* ---- the last action on a key decides its row ---- *)
Fixpoint last_kv (k : str) (acts : list raction) : option (option entry) :=
  match acts with
  | [] => None
  | a :: r =>
      match last_kv k r with
      | Some x => Some x
      | None => match a with
                | AUpd k' e => if str_eqb k k' then Some (Some e) else None
                | ADel k' => if str_eqb k k' then Some None else None
                | _ => None
                end
      end
  end.

Definition no_clear (a : raction) : Prop := match a with AClear => False | _ => True end.

Lemma apply_all_last k acts : forall t,
  Forall no_clear acts ->
  kv_get k (t_v2 (apply_all t acts)) =
  match last_kv k acts with Some (Some e) => Some e | Some None => None | None => kv_get k (t_v2 t) end.
Proof.
  induction acts as [|a acts IH]; intros t H; [reflexivity|].
  apply Forall_cons_iff in H as (Ha & H). unfold apply_all in *. cbn [fold_left last_kv]. rewrite IH by exact H.
  destruct (last_kv k acts) as [x|]; [reflexivity|].
  destruct a as [k' e|k'|c [g|]|c [l|]|]; try contradiction; cbn [apply_action t_v2]; try reflexivity.
  - destruct (str_eqb_spec k k') as [->|Hne]; [apply kv_get_set_same|now apply kv_get_set_other].
  - destruct (str_eqb_spec k k') as [->|Hne]; [apply kv_get_del_same|now apply kv_get_del_other].
Qed.

Lemma last_kv_other k acts :
  (forall a, In a acts -> match a with AUpd k' _ | ADel k' => k' <> k | _ => True end) -> last_kv k acts = None.
Proof.
  induction acts as [|a acts IH]; intros H; [reflexivity|]. cbn [last_kv].
  rewrite IH by (intros a' Ha'; apply H; now right). specialize (H a (or_introl eq_refl)).
  destruct a as [k' e|k'| | |]; try reflexivity; (destruct (str_eqb_spec k k') as [E|]; [now symmetry in E|reflexivity]).
Qed.

Lemma last_kv_app k a b :
  last_kv k (a ++ b) = match last_kv k b with Some x => Some x | None => last_kv k a end.
Proof.
  induction a as [|x a IH]; cbn [app last_kv]; [now destruct (last_kv k b)|].
  rewrite IH. now destruct (last_kv k b).
Qed.

(* ---- what a session end does to the map: every path keeps its entry, loses it, or gets a plain value ---- *)
Definition Shape (m0 m : mstate) : Prop :=
  forall q, m q = m0 q \/ m q = None \/ exists v, m q = Some (Plain v).

Lemma Shape_refl m : Shape m m.
Proof. intros q. now left. Qed.

Lemma Shape_meq m0 m m' : meq m' m -> Shape m0 m -> Shape m0 m'.
Proof. intros H S q. rewrite H. apply S. Qed.

Definition end_op (o : op) : Prop :=
  match o with OSet _ _ _ _ | OPDelete _ _ | OUnsubscribe _ _ | OUnsubscribeLs _ _ => True | _ => False end.

Lemma end_run_shape ops : forall s m0,
  Inv s -> LenInv s -> Forall end_op ops -> nocrash (trace s ops) -> Shape m0 (abs s) ->
  Inv (final s ops) /\ Shape m0 (abs (final s ops)).
Proof.
  induction ops as [|o ops IH]; intros s m0 HI HL He Hnc HS; [split; assumption|].
  apply Forall_cons_iff in He as (He & Hes).
  assert (Hc : o_res (snd (step s o)) <> RCrash).
  { assert (H : is_crash (snd (step s o)) = false) by (apply Hnc; now left). unfold is_crash in H.
    destruct (o_res (snd (step s o))); congruence. }
  assert (Hnc' : nocrash (trace (fst (step s o)) ops)) by (intros x Hx; apply Hnc; now right).
  assert (Hany : any_req o) by (destruct o; try contradiction; unfold any_req; cbn; tauto).
  assert (Himp : import_ok o) by (destruct o; try contradiction; exact I).
  destruct (step_refines_any s o HI HL Hany Himp Hc) as (HI' & HL' & Hw & _).
  change (final s (o :: ops)) with (final (fst (step s o)) ops). apply IH; try assumption.
  destruct o; try contradiction; cbn [write_effect] in Hw.
  - destruct (o_res (snd (step s (OSet c k v force)))); try (exact (Shape_meq _ _ _ Hw HS)).
    destruct Hw as (p & _ & Hm). intros q. rewrite Hm. unfold m_set. destruct (path_eqb p q); [right; right; eauto|apply HS].
  - destruct (o_res (snd (step s (OPDelete c p)))); try (exact (Shape_meq _ _ _ Hw HS)).
    intros q. rewrite Hw. unfold m_pdel. destruct (store_match _ q); [right; now left|apply HS].
  - destruct (o_res (snd (step s (OUnsubscribe c t)))); exact (Shape_meq _ _ _ Hw HS).
  - destruct (o_res (snd (step s (OUnsubscribeLs c t)))); exact (Shape_meq _ _ _ Hw HS).
Qed.

Lemma end_ops_end s c : Forall end_op (end_ops s c).
Proof.
  unfold end_ops. apply Forall_forall. intros o Hin.
  repeat (apply in_app_iff in Hin as [Hin|Hin]);
    try (apply in_map_iff in Hin as (x & <- & _)); try (destruct Hin as [<-|[]]); exact I.
Qed.

Theorem session_end_shape s c :
  Inv s -> LenInv s -> N.eqb c 0 = false -> is_crash (snd (do_disconnected s c)) = false ->
  Inv (fst (do_disconnected s c)) /\ Shape (abs s) (abs (fst (do_disconnected s c))).
Proof.
  intros HI HL H0 Hc. destruct (disconnected_is_run s c H0 Hc) as (F & _ & _ & Nc). rewrite F.
  destruct (prep_same s c) as (Ed & El & _).
  assert (Ea : abs (prep s c) = abs s) by (unfold abs; now rewrite Ed).
  apply end_run_shape; try assumption.
  - unfold Inv in *. now rewrite Ed.
  - unfold LenInv in *. now rewrite Ed, El.
  - apply end_ops_end.
  - rewrite Ea. apply Shape_refl.
Qed.

(* ---- the user entries of a state ---- *)
Lemma In_user_all s q e : Inv s -> (In (q, e) (user_all s) <-> is_user q = true /\ abs s q = Some e).
Proof.
  intros (Hw & _). unfold user_all. rewrite filter_In, (collect_spec _ _ _ _ _ Hw). cbn [app fst]. split.
  - intros ((k & -> & Hl & _) & Hu). split; [|exact Hl]. destruct k as [|k0 k]; [discriminate|exact Hu].
  - intros (Hu & Hl). split.
    + exists q. split; [reflexivity|]. split; [exact Hl|now destruct q].
    + destruct q as [|q0 q]; [discriminate|exact Hu].
Qed.

Lemma user_key_nonprefixed k p : parse_segments k = Ok p -> is_user p = true -> starts_with s_SYS_prefix k = false.
Proof.
  intros Hp Hu. destruct (starts_with s_SYS_prefix k) eqn:E; [|reflexivity].
  destruct (prefix_first_segment k E) as (rest & Hs). destruct (parse_segments_good _ _ Hp) as (-> & _).
  rewrite Hs, is_user_first, str_eqb_refl in Hu. discriminate.
Qed.

Lemma key_of_parse s q e : Inv s -> abs s q = Some e -> parse_segments (key_of q) = Ok q.
Proof. intros HI Hl. destruct (stored_key_good s q e HI Hl) as (Hne & Hg). now apply parse_join_good. Qed.

Lemma nonprefixed_path k p :
  parse_segments k = Ok p -> starts_with s_SYS_prefix k = false -> is_user p = true \/ p = [s_SYS].
Proof.
  intros Hp Hn. destruct (parse_segments_good _ _ Hp) as (Hsp & _ & Hne).
  destruct p as [|p0 [|p1 r]]; [congruence| |].
  - destruct (str_eqb_spec p0 s_SYS) as [->|Hx]; [now right|left]. cbn. now apply Bool.negb_true_iff, str_eqb_neq.
  - left. cbn. destruct (str_eqb_spec p0 s_SYS) as [->|Hx]; [|reflexivity].
    exfalso. assert (E : starts_with s_SYS_prefix k = true); [|congruence].
    rewrite <- (join_split slash k), <- Hsp. reflexivity.
Qed.

(* ---- the table after a session end ---- *)
Theorem track_session_end s t c :
  Inv s -> LenInv s -> tracks s t -> abs s [s_SYS] = None ->
  o_res (snd (step s (ODisconnected c))) = RUnit ->
  let s' := fst (step s (ODisconnected c)) in
  Inv s' /\ tracks s' (apply_all t (actions_of s (ODisconnected c))) /\ abs s' [s_SYS] = None.
Proof.
  intros HI HL HT Hroot Hres. cbv zeta.
  assert (H0 : N.eqb c 0 = false).
  { destruct (N.eqb c 0) eqn:E; [|reflexivity]. cbn [step] in Hres. unfold do_disconnected in Hres. rewrite E in Hres. discriminate. }
  assert (Hc : is_crash (snd (do_disconnected s c)) = false) by (unfold is_crash; cbn [step] in Hres; now rewrite Hres).
  destruct (session_end_shape s c HI HL H0 Hc) as (HI' & HS).
  unfold actions_of. rewrite Hres. cbn [step] in *. set (s' := fst (do_disconnected s c)) in *.
  assert (Hroot' : abs s' [s_SYS] = None).
  { destruct (HS [s_SYS]) as [E|[E|(v & E)]]; [now rewrite E|exact E|].
    (* a plain value at "$SYS" could only come from a set of the key "$SYS", which the guard refuses to every client *)
    exfalso. destruct (disconnected_is_run s c H0 Hc) as (F & _ & _ & Nc). fold s' in F.
    assert (G : forall ops s0, Forall end_op ops -> (forall o, In o ops -> match o with OSet c' k _ _ => c' = 0 -> split slash k <> [s_SYS] | _ => True end) ->
                Inv s0 -> LenInv s0 -> nocrash (trace s0 ops) -> abs s0 [s_SYS] = None -> abs (final s0 ops) [s_SYS] = None).
    { clear. induction ops as [|o ops IH]; intros s0 He Hk HI HL Hnc Hr; [exact Hr|].
      apply Forall_cons_iff in He as (He & Hes).
      assert (Hc : o_res (snd (step s0 o)) <> RCrash).
      { assert (H : is_crash (snd (step s0 o)) = false) by (apply Hnc; now left). unfold is_crash in H.
        destruct (o_res (snd (step s0 o))); congruence. }
      assert (Hany : any_req o) by (destruct o; try contradiction; unfold any_req; cbn; tauto).
      assert (Himp : import_ok o) by (destruct o; try contradiction; exact I).
      destruct (step_refines_any s0 o HI HL Hany Himp Hc) as (HI' & HL' & Hw & _).
      change (final s0 (o :: ops)) with (final (fst (step s0 o)) ops).
      apply IH; try assumption; [intros o' Ho'; apply Hk; now right|intros x Hx; apply Hnc; now right|].
      specialize (Hk o (or_introl eq_refl)).
      destruct o; try contradiction; cbn [write_effect] in Hw.
      - destruct (o_res (snd (step s0 (OSet c k v force)))) eqn:Er; try (now rewrite Hw).
        destruct Hw as (p & Hp & Hm). rewrite Hm. unfold m_set. destruct (path_eqb_spec p [s_SYS]) as [->|]; [|exact Hr].
        exfalso. destruct (parse_segments_good _ _ Hp) as (Hsp & _). cbn [step] in Er. unfold do_insert in Er.
        destruct (check_read_only k c) eqn:Eg; [cbn in Er; discriminate|].
        unfold check_read_only in Eg. destruct k as [|x k]; [discriminate|].
        destruct (N.eqb_spec c 0) as [->|Hc0]; [now apply Hk|]. rewrite <- Hsp in Eg. cbn in Eg. discriminate.
      - destruct (o_res (snd (step s0 (OPDelete c p)))); try (now rewrite Hw).
        rewrite Hw. unfold m_pdel. now destruct (store_match _ _).
      - destruct (o_res (snd (step s0 (OUnsubscribe c t)))); now rewrite Hw.
      - destruct (o_res (snd (step s0 (OUnsubscribeLs c t)))); now rewrite Hw. }
    assert (E' : abs s' [s_SYS] = None); [|congruence].
    rewrite F. destruct (prep_same s c) as (Ed & El & _).
    apply G; [apply end_ops_end| |unfold Inv in *; now rewrite Ed|unfold LenInv in *; now rewrite Ed, El|exact Nc|unfold abs in *; now rewrite Ed].
    intros o Hin. unfold end_ops in Hin.
    repeat (apply in_app_iff in Hin as [Hin|Hin]);
      try (apply in_map_iff in Hin as (x & <- & _)); try (destruct Hin as [<-|[]]); try exact I.
    + intros _. discriminate.
    + intros Ec. subst c. discriminate. }
  split; [exact HI'|]. split; [|exact Hroot'].
  intros k2 p2 Hp2 Hpre2.
  assert (Hregs : forall a, In a (removed_regs c s s') -> match a with AGG _ _ | ALW _ _ => True | _ => False end).
  { intros a Hin. unfold removed_regs in Hin. apply filter_In in Hin as (Hin & _). apply in_flat_map in Hin as (m & _ & Hin).
    destruct (lookup (data s') (fst m)); [destruct Hin|].
    pose proof (reg_del_v2_only (key_of (fst m))) as Hf. rewrite Forall_forall in Hf. specialize (Hf a Hin).
    destruct a; try contradiction; exact I. }
  assert (Hnc : Forall no_clear (removed_keys s s' ++ removed_regs c s s' ++ written_keys s s' ++ [AGG c None; ALW c None])).
  { apply Forall_forall. intros a Hin. unfold removed_keys, written_keys in Hin.
    repeat (apply in_app_iff in Hin as [Hin|Hin]).
    - apply in_flat_map in Hin as (m & _ & Hin). destruct (lookup (data s') (fst m)); [destruct Hin|]. destruct Hin as [<-|[]]. exact I.
    - specialize (Hregs a Hin). destruct a; try contradiction; exact I.
    - apply in_flat_map in Hin as (m & _ & Hin). destruct (entry_eqb' _ _); [destruct Hin|]. destruct Hin as [<-|[]]. exact I.
    - destruct Hin as [<-|[<-|[]]]; exact I. }
  assert (Hlr : last_kv k2 (removed_regs c s s') = None).
  { apply last_kv_other. intros a Hin. specialize (Hregs a Hin). destruct a; try contradiction; exact I. }
  rewrite (apply_all_last k2 _ t Hnc), !last_kv_app, Hlr. cbn [last_kv].
  destruct (nonprefixed_path k2 p2 Hp2 Hpre2) as [Hu|Eroot]; [|subst p2].
  2:{ (* the key "$SYS": no action names it, nothing is stored there before or after *)
      assert (Hw0 : last_kv k2 (written_keys s s') = None /\ last_kv k2 (removed_keys s s') = None).
      { split; apply last_kv_other; intros a Hin.
        - unfold written_keys in Hin. apply in_flat_map in Hin as ([q e] & Hm & Hin). cbn [fst snd] in Hin.
          destruct (entry_eqb' _ _); [destruct Hin|]. destruct Hin as [<-|[]].
          apply (In_user_all s' q e HI') in Hm as (Hu & Hl). intros E.
          pose proof (key_of_parse s' q e HI' Hl) as Hpq. rewrite E, Hp2 in Hpq. injection Hpq as <-. discriminate.
        - unfold removed_keys in Hin. apply in_flat_map in Hin as ([q e] & Hm & Hin). cbn [fst snd] in Hin.
          destruct (lookup (data s') q); [destruct Hin|]. destruct Hin as [<-|[]].
          apply (In_user_all s q e HI) in Hm as (Hu & Hl). intros E.
          pose proof (key_of_parse s q e HI Hl) as Hpq. rewrite E, Hp2 in Hpq. injection Hpq as <-. discriminate. }
      destruct Hw0 as (-> & ->). rewrite Hroot'. rewrite (HT k2 [s_SYS] Hp2 Hpre2), Hroot. reflexivity. }
  (* a user key *)
  assert (Hk2 : key_of p2 = k2).
  { destruct (parse_segments_good _ _ Hp2) as (-> & _). apply join_split. }
  (* the writes *)
  assert (HW : last_kv k2 (written_keys s s') =
               match abs s' p2 with
               | Some e => if entry_eqb' (abs s p2) (Some e) then None else Some (Some e)
               | None => None
               end).
  { unfold written_keys.
    assert (G : forall l, (forall q e, In (q, e) l -> is_user q = true /\ abs s' q = Some e) ->
                last_kv k2 (flat_map (fun m => if entry_eqb' (lookup (data s) (fst m)) (Some (snd m)) then [] else [AUpd (key_of (fst m)) (snd m)]) l) =
                if existsb (fun m => path_eqb (fst m) p2) l
                then match abs s' p2 with Some e => if entry_eqb' (abs s p2) (Some e) then None else Some (Some e) | None => None end
                else None).
    { induction l as [|[q e] l IH]; intros Hl; [reflexivity|]. cbn [flat_map existsb fst snd]. rewrite last_kv_app.
      rewrite IH by (intros q' e' Hin; apply Hl; now right).
      destruct (Hl q e (or_introl eq_refl)) as (Huq & Eq).
      destruct (path_eqb_spec q p2) as [->|Hne]; cbn [orb].
      - rewrite Eq. fold (abs s p2).
        destruct (existsb (fun m => path_eqb (fst m) p2) l).
        + destruct (entry_eqb' (abs s p2) (Some e)); reflexivity.
        + destruct (entry_eqb' (abs s p2) (Some e)); cbn [last_kv]; [reflexivity|]. now rewrite Hk2, str_eqb_refl.
      - assert (Hhead : last_kv k2 (if entry_eqb' (lookup (data s) q) (Some e) then [] else [AUpd (key_of q) e]) = None).
        { destruct (entry_eqb' _ _); [reflexivity|]. cbn [last_kv].
          destruct (str_eqb_spec k2 (key_of q)) as [E|]; [|reflexivity]. exfalso. apply Hne.
          pose proof (key_of_parse s' q e HI' Eq) as Hpq. rewrite <- E, Hp2 in Hpq. now injection Hpq. }
        destruct (existsb (fun m => path_eqb (fst m) p2) l);
          [destruct (abs s' p2) as [e2|]; [destruct (entry_eqb' _ _)|]; try reflexivity; exact Hhead|exact Hhead]. }
    rewrite G by (intros q e Hin; now apply (In_user_all s' q e HI')).
    destruct (abs s' p2) as [e|] eqn:E.
    - assert (Hx : existsb (fun m => path_eqb (fst m) p2) (user_all s') = true).
      { apply existsb_exists. exists (p2, e). split; [now apply In_user_all|apply path_eqb_refl]. }
      now rewrite Hx.
    - now destruct (existsb _ _). }
  (* the removals *)
  assert (HR : last_kv k2 (removed_keys s s') =
               match abs s p2, abs s' p2 with Some _, None => Some None | _, _ => None end).
  { unfold removed_keys.
    assert (G : forall l, (forall q e, In (q, e) l -> is_user q = true /\ abs s q = Some e) ->
                last_kv k2 (flat_map (fun m => match lookup (data s') (fst m) with None => [ADel (key_of (fst m))] | Some _ => [] end) l) =
                if existsb (fun m => path_eqb (fst m) p2) l
                then match abs s' p2 with None => Some None | Some _ => None end else None).
    { induction l as [|[q e] l IH]; intros Hl; [reflexivity|]. cbn [flat_map existsb fst snd]. rewrite last_kv_app.
      rewrite IH by (intros q' e' Hin; apply Hl; now right).
      destruct (Hl q e (or_introl eq_refl)) as (Huq & Eq).
      destruct (path_eqb_spec q p2) as [->|Hne]; cbn [orb].
      - fold (abs s' p2). destruct (existsb (fun m => path_eqb (fst m) p2) l).
        + destruct (abs s' p2); reflexivity.
        + destruct (abs s' p2); cbn [last_kv]; [reflexivity|]. now rewrite Hk2, str_eqb_refl.
      - assert (Hhead : last_kv k2 (match lookup (data s') q with None => [ADel (key_of q)] | Some _ => [] end) = None).
        { destruct (lookup (data s') q); [reflexivity|]. cbn [last_kv].
          destruct (str_eqb_spec k2 (key_of q)) as [E|]; [|reflexivity]. exfalso. apply Hne.
          pose proof (key_of_parse s q e HI Eq) as Hpq. rewrite <- E, Hp2 in Hpq. now injection Hpq. }
        destruct (existsb (fun m => path_eqb (fst m) p2) l); [destruct (abs s' p2); try reflexivity; exact Hhead|exact Hhead]. }
    rewrite G by (intros q e Hin; now apply (In_user_all s q e HI)).
    destruct (abs s p2) as [e|] eqn:E.
    - assert (Hx : existsb (fun m => path_eqb (fst m) p2) (user_all s) = true).
      { apply existsb_exists. exists (p2, e). split; [now apply In_user_all|apply path_eqb_refl]. }
      rewrite Hx. now destruct (abs s' p2).
    - assert (Hx : existsb (fun m => path_eqb (fst m) p2) (user_all s) = false).
      { apply Bool.not_true_is_false. intros Hx. apply existsb_exists in Hx as ([q e] & Hin & Hq). cbn [fst] in Hq.
        destruct (path_eqb_spec q p2) as [->|]; [|discriminate]. apply (In_user_all s p2 e HI) in Hin as (_ & Hl). congruence. }
      now rewrite Hx. }
  rewrite HW, HR. specialize (HT k2 p2 Hp2 Hpre2).
  destruct (HS p2) as [E|[E|(v & E)]].
  - (* unchanged *)
    rewrite E. destruct (abs s p2) as [e|] eqn:E0; cbn [entry_eqb'].
    + rewrite entry_eqb_refl. exact HT.
    + exact HT.
  - rewrite E. destruct (abs s p2); [reflexivity|exact HT].
  - rewrite E. destruct (entry_eqb' (abs s p2) (Some (Plain v))) eqn:Ee; [|reflexivity].
    destruct (abs s p2) as [e0|] eqn:E0; cbn [entry_eqb'] in Ee; [|discriminate].
    assert (e0 = Plain v) by (apply entry_eqb_eq; exact Ee). subst e0. exact HT.
Qed.

(* ---- every request ---- *)
From WB Require Import Proofs.SubsFacts Proofs.C03Proof Proofs.StreamProof Proofs.StreamAll.

Definition redb_op (o : op) : Prop :=
  match o with
  | OSet c _ _ f | OCSet c _ _ _ f => f = false /\ c <> 0
  | OImport _ => False
  | _ => True
  end.

Lemma insert_root s c k e f :
  Inv s -> c <> 0 -> o_res (snd (do_insert s c k e f)) <> RCrash ->
  abs s [s_SYS] = None -> abs (fst (do_insert s c k e f)) [s_SYS] = None.
Proof.
  intros HI Hc Hnc Hr. destruct (do_insert_only_path s c k e f HI Hnc) as (_ & [Hm|(p & e' & Hp & Hm)]); rewrite Hm; [exact Hr|].
  unfold m_set. destruct (path_eqb_spec p [s_SYS]) as [->|]; [|exact Hr]. exfalso.
  destruct (parse_segments_good _ _ Hp) as (Hsp & _).
  assert (Hacc : check_read_only k c = None).
  { destruct (check_read_only k c) eqn:Eg; [|reflexivity]. exfalso.
    assert (E : fst (do_insert s c k e f) = s) by (unfold do_insert; now rewrite Eg).
    rewrite E in Hm. specialize (Hm [s_SYS]). unfold m_set in Hm. rewrite path_eqb_refl in Hm. congruence. }
  unfold check_read_only in Hacc. destruct k as [|x k]; [discriminate|].
  destruct (N.eqb_spec c 0); [contradiction|]. rewrite <- Hsp in Hacc. cbn in Hacc. discriminate.
Qed.

Lemma tracks_same s s' t :
  (forall k p, parse_segments k = Ok p -> starts_with s_SYS_prefix k = false -> abs s' p = abs s p) ->
  tracks s t -> tracks s' t.
Proof. intros H HT k p Hp Hn. rewrite (H k p Hp Hn). now apply HT. Qed.

Lemma prefixed_insert_keeps s c k e f :
  Inv s -> starts_with s_SYS_prefix k = true -> o_res (snd (do_insert s c k e f)) <> RCrash ->
  forall k2 p2, parse_segments k2 = Ok p2 -> starts_with s_SYS_prefix k2 = false ->
  abs (fst (do_insert s c k e f)) p2 = abs s p2.
Proof.
  intros HI Hpre Hnc k2 p2 Hp2 Hn2.
  destruct (do_insert_only_path s c k e f HI Hnc) as (_ & [Hm|(p & e' & Hp & Hm)]); rewrite Hm; [reflexivity|].
  unfold m_set. destruct (path_eqb_spec p p2) as [->|]; [|reflexivity].
  pose proof (key_path_inj k k2 p2 p2 Hp Hp2 eq_refl) as ->. congruence.
Qed.

Theorem track_any_step s t o :
  Inv s -> LenInv s -> tracks s t -> abs s [s_SYS] = None -> redb_op o -> o_res (snd (step s o)) <> RCrash ->
  let s' := fst (step s o) in
  Inv s' /\ LenInv s' /\ tracks s' (apply_all t (actions_of s o)) /\ abs s' [s_SYS] = None.
Proof.
  intros HI HL HT Hr Ho Hnc. cbv zeta.
  assert (HL' : LenInv (fst (step s o))) by now apply step_len.
  assert (Hother : other_op o -> actions_of s o = [] ->
            Inv (fst (step s o)) /\ LenInv (fst (step s o)) /\ tracks (fst (step s o)) (apply_all t (actions_of s o)) /\
            abs (fst (step s o)) [s_SYS] = None).
  { intros Hoo Ha. rewrite Ha. pose proof (other_data_same s o Hoo) as Ed.
    assert (Ea : abs (fst (step s o)) = abs s) by (unfold abs; now rewrite Ed).
    split; [unfold Inv in *; now rewrite Ed|]. split; [exact HL'|]. split; [|now rewrite Ea].
    unfold apply_all. cbn [fold_left]. apply (tracks_same s); [|exact HT]. intros. now rewrite Ea. }
  assert (Hread : fst (step s o) = s -> actions_of s o = [] ->
            Inv (fst (step s o)) /\ LenInv (fst (step s o)) /\ tracks (fst (step s o)) (apply_all t (actions_of s o)) /\
            abs (fst (step s o)) [s_SYS] = None).
  { intros E Ha. rewrite Ha, E. unfold apply_all. cbn [fold_left]. auto. }
  destruct o; try contradiction;
    try (apply Hread; [reflexivity|unfold actions_of; cbn [step]; reflexivity]);
    try (apply Hother; [exact I|unfold actions_of; cbn [step];
         repeat match goal with |- context [match ?x with _ => _ end] => destruct x end; reflexivity]).
  - (* set *)
    destruct Ho as (-> & Hc).
    destruct (track_step s t (WSet' c k v) HI HT Hnc) as (HI' & HT'). cbn [op_of'] in *.
    split; [exact HI'|]. split; [exact HL'|]. split; [exact HT'|]. now apply insert_root.
  - destruct Ho as (-> & Hc).
    destruct (track_step s t (WCSet' c k v ver) HI HT Hnc) as (HI' & HT'). cbn [op_of'] in *.
    split; [exact HI'|]. split; [exact HL'|]. split; [exact HT'|]. now apply insert_root.
  - destruct (track_step s t (WDel' c k) HI HT Hnc) as (HI' & HT'). cbn [op_of'] in *.
    split; [exact HI'|]. split; [exact HL'|]. split; [exact HT'|].
    cbn [step]. destruct (do_delete_only_path s c k HI) as (_ & [Hm|(p & _ & Hm)]); rewrite Hm; [exact Hr|].
    unfold m_del. now destruct (path_eqb p [s_SYS]).
  - destruct (track_step s t (WPDel' c p) HI HT Hnc) as (HI' & HT'). cbn [op_of'] in *.
    split; [exact HI'|]. split; [exact HL'|]. split; [exact HT'|].
    cbn [step]. destruct (do_pdelete_only s c p HI) as (_ & [->|Hm]); [exact Hr|]. rewrite Hm.
    unfold m_pdel. now destruct (store_match _ _).
  - (* connected *)
    assert (Ha : actions_of s (OConnected c) = []).
    { unfold actions_of. now destruct (o_res (snd (step s (OConnected c)))). }
    rewrite Ha. unfold apply_all. cbn [fold_left].
    assert (Hcr : is_crash (snd (step s (OConnected c))) = false)
      by (unfold is_crash; destruct (o_res (snd (step s (OConnected c)))); congruence).
    destruct (expand_runs s (OConnected c) Hcr) as (F & _ & _ & Nc). rewrite F in HL' |- *. cbn [expand] in *.
    destruct (N.eqb c 0 || existsb (N.eqb c) (clients s))%bool; cbn [fst snd] in *; [cbn; auto|].
    (* three internal sets of keys under $SYS/ *)
    assert (G : forall ops s0, Forall (fun o => exists k v, o = OSet 0 k v true /\ starts_with s_SYS_prefix k = true) ops ->
                Inv s0 -> nocrash (trace s0 ops) -> tracks s0 t -> abs s0 [s_SYS] = None ->
                Inv (final s0 ops) /\ tracks (final s0 ops) t /\ abs (final s0 ops) [s_SYS] = None).
    { clear. induction ops as [|o ops IH]; intros s0 Hf HI Hnc HT Hr; [auto|].
      apply Forall_cons_iff in Hf as ((k & v & -> & Hpre) & Hf).
      assert (Hnr : forall p, parse_segments k = Ok p -> p <> [s_SYS]).
      { intros p Hp E. subst p. apply parse_segments_good in Hp as (Hsp & _).
        assert (Ek : k = s_SYS) by (rewrite <- (join_split slash k), <- Hsp; reflexivity). subst k. discriminate. }
      assert (Hc : o_res (snd (do_insert s0 0 k (Plain v) true)) <> RCrash).
      { assert (H : is_crash (snd (step s0 (OSet 0 k v true))) = false) by (apply Hnc; now left). unfold is_crash in H.
        cbn [step] in H. destruct (o_res _); congruence. }
      change (final s0 (OSet 0 k v true :: ops)) with (final (fst (do_insert s0 0 k (Plain v) true)) ops).
      apply IH; [exact Hf| |intros x Hx; apply Hnc; now right| |].
      - exact (proj1 (do_insert_only_path s0 0 k (Plain v) true HI Hc)).
      - apply (tracks_same s0); [|exact HT]. intros k2 p2 Hp2 Hn2. now apply (prefixed_insert_keeps s0 0 k (Plain v) true HI Hpre Hc k2 p2).
      - destruct (do_insert_only_path s0 0 k (Plain v) true HI Hc) as (_ & [Hm|(p & e' & Hp & Hm)]); rewrite Hm; [exact Hr|].
        unfold m_set. destruct (path_eqb_spec p [s_SYS]) as [E|]; [|exact Hr]. now elim (Hnr p Hp). }
    assert (HIp : Inv (conn_prep s c)) by exact HI.
    destruct (G (conn_ops s c) (conn_prep s c)) as (H1 & H2 & H3); try assumption.
    + unfold conn_ops. repeat (apply Forall_cons; [eexists; eexists; split; reflexivity|]). apply Forall_nil.
    + auto.
  - (* disconnected *)
    assert (Hres : o_res (snd (step s (ODisconnected c))) = RUnit).
    { cbn [step] in *. unfold do_disconnected in *. destruct (N.eqb c 0); [cbn in Hnc; congruence|].
      destruct (match assoc_get N.eqb c (locked_keys (set_spub s _)) with Some _ => _ | None => _ end) as [[[l' g] x] cr].
      destruct cr; [cbn in Hnc; congruence|]. cbn [snd]. cbn [snd] in Hnc.
      match goal with |- o_res (if ?b then _ else _) = _ => destruct b eqn:Eb end; [|reflexivity].
      exfalso. apply Hnc. match type of Eb with is_crash ?o = true => unfold is_crash in Eb; destruct (o_res o); try discriminate; reflexivity end. }
    destruct (track_session_end s t c HI HL HT Hr Hres) as (H1 & H2 & H3). auto.
Qed.

Fixpoint any_actions (s : core) (os : list op) : list raction :=
  match os with [] => [] | o :: r => actions_of s o ++ any_actions (fst (step s o)) r end.

(* after any history of client requests of every kind except import, sessions starting and ending included, and once
   the queued actions are applied: the row of every key outside $SYS/ is the stored entry (CAS rows one version behind:
   known finding F13) *)
Theorem table_tracks_any os : forall s t,
  Inv s -> LenInv s -> tracks s t -> abs s [s_SYS] = None -> Forall redb_op os -> no_crash_run s os ->
  Inv (final s os) /\ tracks (final s os) (apply_all t (any_actions s os)).
Proof.
  induction os as [|o os IH]; intros s t HI HL HT Hr Ho Hnc; [cbn; auto|].
  apply Forall_cons_iff in Ho as (Ho & Hos). destruct Hnc as (Hc & Hrest).
  destruct (track_any_step s t o HI HL HT Hr Ho Hc) as (HI' & HL' & HT' & Hr').
  change (final s (o :: os)) with (final (fst (step s o)) os). cbn [any_actions].
  unfold apply_all. rewrite fold_left_app. fold (apply_all t (actions_of s o)).
  fold (apply_all (apply_all t (actions_of s o)) (any_actions (fst (step s o)) os)). now apply IH.
Qed.

Theorem table_tracks_any_init os :
  Forall redb_op os -> no_crash_run init os ->
  tracks (final init os) (apply_all t_empty (any_actions init os)).
Proof.
  intros Ho Hnc. apply (table_tracks_any os init t_empty Inv_init eq_refl tracks_init); try assumption.
  unfold abs. cbn. reflexivity.
Qed.
