From Coq Require Import Lia List.
Import ListNotations.
From WB Require Import Base.Str Base.StrFacts Base.Json Model.Key Model.Consts Model.Store Model.Match Model.Entry Model.Core
  Model.Codec Model.Persist Model.Sync Spec.MapSpec
  Proofs.StoreFacts Proofs.TreeInv Proofs.GoodNames Proofs.CoreFacts Proofs.MatchFacts.
Local Arguments N.add : simpl never.
Local Arguments N.eqb : simpl never.

(* agreement on the user keys: everything whose first segment is not $SYS *)
Definition user_eq (a b : mstate) : Prop := forall q, is_user q = true -> a q = b q.

Lemma user_eq_refl a : user_eq a a.
Proof. intros q _. reflexivity. Qed.

Lemma user_eq_meq a a' b b' : meq a' a -> meq b' b -> user_eq a b -> user_eq a' b'.
Proof. intros Ha Hb H q Hq. now rewrite Ha, Hb, H. Qed.

Lemma user_eq_set_nonuser a b p e : is_user p = false -> user_eq a b -> user_eq (m_set a p e) b.
Proof.
  intros Hp H q Hq. unfold m_set. destruct (path_eqb_spec p q) as [->|_]; [congruence|now apply H].
Qed.

Lemma user_eq_del_nonuser a b p : is_user p = false -> user_eq a b -> user_eq (m_del a p) b.
Proof.
  intros Hp H q Hq. unfold m_del. destruct (path_eqb_spec p q) as [->|_]; [congruence|now apply H].
Qed.

Lemma user_eq_sym a b : user_eq a b -> user_eq b a.
Proof. intros H q Hq. symmetry. now apply H. Qed.

(* ---- the read-only guard does not concern user keys ---- *)
Lemma guard_user_key k c p0 rest :
  k <> [] -> split slash k = p0 :: rest -> str_eqb p0 s_SYS = false -> check_read_only k c = None.
Proof.
  intros Hk Hs Hp. unfold check_read_only. destruct k as [|x k]; [congruence|].
  destruct (N.eqb c 0); [reflexivity|]. rewrite Hs, Hp. reflexivity.
Qed.

Lemma guard_internal k : k <> [] -> check_read_only k 0 = None.
Proof. intros Hk. unfold check_read_only. destruct k; [congruence|]. reflexivity. Qed.

(* "$SYS/..." as a raw string has $SYS as its first segment *)
Lemma starts_with_app p : forall k, starts_with p k = true -> exists r, k = p ++ r.
Proof.
  induction p as [|x p IH]; intros k H; [now exists k|].
  destruct k as [|y k]; [discriminate|]. cbn in H. apply andb_prop in H as [Hx H].
  apply N.eqb_eq in Hx. subst y. destruct (IH k H) as [r ->]. now exists r.
Qed.

Lemma prefix_first_segment k : starts_with s_SYS_prefix k = true -> exists rest, split slash k = s_SYS :: rest.
Proof.
  intros H. destruct (starts_with_app _ _ H) as [r ->].
  exists (split slash r). unfold split.
  change s_SYS_prefix with (s_SYS ++ [slash]). rewrite <- app_assoc.
  rewrite split_aux_app_nosep.
  - cbn [app split_aux]. rewrite N.eqb_refl. reflexivity.
  - unfold no_sep, s_SYS, slash. cbn. intros [X|[X|[X|[X|[]]]]]; discriminate.
Qed.

Lemma is_user_first p0 rest : is_user (p0 :: rest) = negb (str_eqb p0 s_SYS).
Proof. reflexivity. Qed.

(* ---- insert ---- *)
Lemma do_insert_res s c k e force p :
  check_read_only k c = None -> parse_segments k = Ok p -> special_value_bad k (entry_val e) = false ->
  o_res (snd (do_insert s c k e force)) =
    match decide (abs s p) e force with DOk _ _ _ => RUnit | DErr code => RErr code | DCrash => RCrash end.
Proof.
  intros Hc Hp Hs. unfold do_insert, abs. rewrite Hc, Hp, Hs. destruct (decide _ _ _); reflexivity.
Qed.

Lemma special_not_prefixed k v : starts_with s_SYS_prefix k = false -> special_value_bad k v = false.
Proof. intros H. unfold special_value_bad. now rewrite H. Qed.

(* whatever happens to an insert, only the addressed path can change *)
Lemma do_insert_only_path s c k e force :
  Inv s -> o_res (snd (do_insert s c k e force)) <> RCrash ->
  Inv (fst (do_insert s c k e force)) /\
  (meq (abs (fst (do_insert s c k e force))) (abs s) \/
   exists p e', parse_segments k = Ok p /\ meq (abs (fst (do_insert s c k e force))) (m_set (abs s) p e')).
Proof.
  intros HI Hnc. pose proof (do_insert_effect s c k e force HI) as H. cbv zeta in H.
  destruct (o_res (snd (do_insert s c k e force))) eqn:E; try contradiction.
  - destruct H as (p & ex & ch & e' & Hp & _ & HI' & Hm). split; [exact HI'|]. right. exists p, e'. now split.
  - rewrite H. split; [exact HI|]. left. intros q. reflexivity.
Qed.

Theorem insert_sim L F c k e force :
  Inv L -> Inv F -> user_eq (abs L) (abs F) ->
  o_res (snd (do_insert L c k e force)) <> RCrash -> o_res (snd (do_insert F 0 k e force)) <> RCrash ->
  let L' := fst (do_insert L c k e force) in
  let F' := if starts_with s_SYS_prefix k then F else fst (do_insert F 0 k e force) in
  Inv L' /\ Inv F' /\ user_eq (abs L') (abs F').
Proof.
  intros HL HF Hu HcL HcF. cbv zeta.
  destruct (do_insert_only_path L c k e force HL HcL) as [HL' HmL].
  destruct (do_insert_only_path F 0 k e force HF HcF) as [HF' HmF].
  destruct (starts_with s_SYS_prefix k) eqn:Epre.
  - (* not mirrored: the key is under $SYS/, only a non-user path can change on the leader *)
    split; [exact HL'|]. split; [exact HF|].
    destruct HmL as [Hm|(p & e' & Hp & Hm)].
    + eapply user_eq_meq; [exact Hm|intros q; reflexivity|exact Hu].
    + destruct (prefix_first_segment k Epre) as [rest Hs].
      destruct (parse_segments_good _ _ Hp) as (-> & _ & _).
      eapply user_eq_meq; [exact Hm|intros q; reflexivity|].
      apply user_eq_set_nonuser; [|exact Hu]. rewrite Hs, is_user_first, str_eqb_refl. reflexivity.
  - split; [exact HL'|]. split; [exact HF'|].
    destruct (parse_segments k) as [p|code] eqn:Ep.
    2:{ (* neither side can have accepted it *)
        destruct HmL as [HmL|(p & e' & Hp & _)]; [|congruence].
        destruct HmF as [HmF|(p & e' & Hp & _)]; [|congruence].
        eapply user_eq_meq; eassumption. }
    destruct (parse_segments_good _ _ Ep) as (Hsp & _ & Hne).
    destruct p as [|p0 rest]; [congruence|].
    destruct (str_eqb p0 s_SYS) eqn:Ep0.
    + (* the key is "$SYS" itself: not a user key, whatever the two sides do *)
      assert (Hnu : is_user (p0 :: rest) = false) by (rewrite is_user_first, Ep0; reflexivity).
      destruct HmL as [HmL|(p & e1 & Hp & HmL)]; destruct HmF as [HmF|(p' & e2 & Hp' & HmF)];
        try rewrite Ep in *; repeat match goal with H : Ok _ = Ok ?x |- _ => assert (x = p0 :: rest) by congruence; subst x; clear H end.
      * eapply user_eq_meq; eassumption.
      * eapply user_eq_meq; [exact HmL|exact HmF|]. apply user_eq_sym, user_eq_set_nonuser; [exact Hnu|now apply user_eq_sym].
      * eapply user_eq_meq; [exact HmL|exact HmF|]. apply user_eq_set_nonuser; [exact Hnu|exact Hu].
      * eapply user_eq_meq; [exact HmL|exact HmF|].
        apply user_eq_set_nonuser; [exact Hnu|]. apply user_eq_sym, user_eq_set_nonuser; [exact Hnu|now apply user_eq_sym].
    + (* a user key: both sides take the same decision on the same entry *)
      destruct k as [|x kk]; [unfold do_insert; cbn; exact Hu|].   (* the empty key is refused by both *)
      set (k := x :: kk) in *.
      assert (Hk : k <> []) by discriminate.
      assert (HgL : check_read_only k c = None) by (eapply guard_user_key; [exact Hk|symmetry; exact Hsp|exact Ep0]).
      assert (HgF : check_read_only k 0 = None) by (now apply guard_internal).
      pose proof (special_not_prefixed k (entry_val e) Epre) as Hsv.
      pose proof (do_insert_res L c k e force _ HgL Ep Hsv) as RL.
      pose proof (do_insert_res F 0 k e force _ HgF Ep Hsv) as RF.
      assert (Hsame : abs L (p0 :: rest) = abs F (p0 :: rest)) by (apply Hu; rewrite is_user_first, Ep0; reflexivity).
      rewrite <- Hsame in RF.
      pose proof (do_insert_effect L c k e force HL) as EL. pose proof (do_insert_effect F 0 k e force HF) as EF.
      cbv zeta in EL, EF. rewrite RL in EL. rewrite RF in EF.
      destruct (decide (abs L (p0 :: rest)) e force) as [ex ch e'| |] eqn:Ed.
      * destruct EL as (p1 & ex1 & ch1 & e1 & Hp1 & Hd1 & _ & Hm1).
        destruct EF as (p2 & ex2 & ch2 & e2 & Hp2 & Hd2 & _ & Hm2).
        rewrite Ep in Hp1, Hp2. injection Hp1 as <-. injection Hp2 as <-.
        rewrite Ed in Hd1. rewrite <- Hsame, Ed in Hd2. injection Hd1 as <- <- <-. injection Hd2 as <- <- <-.
        eapply user_eq_meq; [exact Hm1|exact Hm2|].
        intros q Hq. unfold m_set. destruct (path_eqb (p0 :: rest) q); [reflexivity|now apply Hu].
      * rewrite EL, EF. exact Hu.
      * congruence.
Qed.

(* ---- delete ---- *)
Lemma do_delete_res s c k p :
  Inv s -> check_read_only k c = None -> parse_segments k = Ok p ->
  o_res (snd (do_delete s c k)) = match abs s p with Some e => RValue (entry_val e) | None => RErr E_NoSuchValue end.
Proof.
  intros (Hw & Hc & Hg & Hr) Hck Hp. unfold do_delete, abs. rewrite Hck, Hp.
  destruct (parse_segments_good _ _ Hp) as (_ & Hgp & Hne).
  assert (Hok : root_ok (del_at p (data s)) = true) by (apply root_ok_spec; now apply cleann_del_at).
  rewrite Hok. cbn [negb]. destruct (lookup (data s) p); reflexivity.
Qed.

Lemma do_delete_only_path s c k :
  Inv s ->
  Inv (fst (do_delete s c k)) /\
  (meq (abs (fst (do_delete s c k))) (abs s) \/
   exists p, parse_segments k = Ok p /\ meq (abs (fst (do_delete s c k))) (m_del (abs s) p)).
Proof.
  intros HI. pose proof (do_delete_effect s c k HI) as H. cbv zeta in H.
  destruct (o_res (snd (do_delete s c k))); try contradiction.
  - destruct H as (p & e & Hp & _ & _ & HI' & Hm). split; [exact HI'|]. right. exists p. now split.
  - destruct H as [HI' Hm]. split; [exact HI'|]. now left.
Qed.

Theorem delete_sim L F c k :
  Inv L -> Inv F -> user_eq (abs L) (abs F) ->
  let L' := fst (do_delete L c k) in
  let F' := if starts_with s_SYS_prefix k then F else fst (do_delete F 0 k) in
  Inv L' /\ Inv F' /\ user_eq (abs L') (abs F').
Proof.
  intros HL HF Hu. cbv zeta.
  destruct (do_delete_only_path L c k HL) as [HL' HmL].
  destruct (do_delete_only_path F 0 k HF) as [HF' HmF].
  destruct (starts_with s_SYS_prefix k) eqn:Epre.
  - split; [exact HL'|]. split; [exact HF|].
    destruct HmL as [Hm|(p & Hp & Hm)].
    + eapply user_eq_meq; [exact Hm|intros q; reflexivity|exact Hu].
    + destruct (prefix_first_segment k Epre) as [rest Hs].
      destruct (parse_segments_good _ _ Hp) as (-> & _ & _).
      eapply user_eq_meq; [exact Hm|intros q; reflexivity|].
      apply user_eq_del_nonuser; [|exact Hu]. rewrite Hs, is_user_first, str_eqb_refl. reflexivity.
  - split; [exact HL'|]. split; [exact HF'|].
    destruct (parse_segments k) as [p|code] eqn:Ep.
    2:{ destruct HmL as [HmL|(p & Hp & _)]; [|congruence].
        destruct HmF as [HmF|(p & Hp & _)]; [|congruence].
        eapply user_eq_meq; eassumption. }
    destruct (parse_segments_good _ _ Ep) as (Hsp & _ & Hne).
    destruct p as [|p0 rest]; [congruence|].
    destruct (str_eqb p0 s_SYS) eqn:Ep0.
    + assert (Hnu : is_user (p0 :: rest) = false) by (rewrite is_user_first, Ep0; reflexivity).
      destruct HmL as [HmL|(p & Hp & HmL)]; destruct HmF as [HmF|(p' & Hp' & HmF)];
        try rewrite Ep in *; repeat match goal with H : Ok _ = Ok ?x |- _ => assert (x = p0 :: rest) by congruence; subst x; clear H end.
      * eapply user_eq_meq; eassumption.
      * eapply user_eq_meq; [exact HmL|exact HmF|]. apply user_eq_sym, user_eq_del_nonuser; [exact Hnu|now apply user_eq_sym].
      * eapply user_eq_meq; [exact HmL|exact HmF|]. apply user_eq_del_nonuser; [exact Hnu|exact Hu].
      * eapply user_eq_meq; [exact HmL|exact HmF|].
        apply user_eq_del_nonuser; [exact Hnu|]. apply user_eq_sym, user_eq_del_nonuser; [exact Hnu|now apply user_eq_sym].
    + destruct k as [|x kk]; [unfold do_delete; cbn; exact Hu|].
      set (k := x :: kk) in *.
      assert (Hk : k <> []) by discriminate.
      assert (HgL : check_read_only k c = None) by (eapply guard_user_key; [exact Hk|symmetry; exact Hsp|exact Ep0]).
      assert (HgF : check_read_only k 0 = None) by (now apply guard_internal).
      pose proof (do_delete_res L c k _ HL HgL Ep) as RL. pose proof (do_delete_res F 0 k _ HF HgF Ep) as RF.
      assert (Hsame : abs L (p0 :: rest) = abs F (p0 :: rest)) by (apply Hu; rewrite is_user_first, Ep0; reflexivity).
      rewrite <- Hsame in RF.
      pose proof (do_delete_effect L c k HL) as EL. pose proof (do_delete_effect F 0 k HF) as EF.
      cbv zeta in EL, EF. rewrite RL in EL. rewrite RF in EF.
      destruct (abs L (p0 :: rest)) as [e|] eqn:El.
      * destruct EL as (p1 & e1 & Hp1 & _ & _ & _ & Hm1). destruct EF as (p2 & e2 & Hp2 & _ & _ & _ & Hm2).
        rewrite Ep in Hp1, Hp2. injection Hp1 as <-. injection Hp2 as <-.
        eapply user_eq_meq; [exact Hm1|exact Hm2|].
        intros q Hq. unfold m_del. destruct (path_eqb (p0 :: rest) q); [reflexivity|now apply Hu].
      * destruct EL as [_ Hm1]. destruct EF as [_ Hm2]. eapply user_eq_meq; eassumption.
Qed.

(* ---- pdelete ---- *)
Lemma kseg_parse_first pat rest : split slash pat = s_SYS :: rest -> exists r, kseg_parse pat = Reg s_SYS :: r.
Proof.
  intros H. unfold kseg_parse. rewrite H. cbn [map]. eexists.
  (* $SYS is neither ? nor # *)
  reflexivity.
Qed.

Lemma store_match_reg_first x p q : store_match (Reg x :: p) q = true -> exists q', q = x :: q'.
Proof.
  destruct q as [|y q]; cbn; [discriminate|].
  destruct (str_eqb_spec x y) as [->|_]; [intros _; now eexists|discriminate].
Qed.

Lemma user_eq_pdel_sys a b p : user_eq a b -> user_eq (m_pdel a (Reg s_SYS :: p)) b.
Proof.
  intros H q Hq. unfold m_pdel. destruct (store_match (Reg s_SYS :: p) q) eqn:E; [|now apply H].
  apply store_match_reg_first in E as [q' ->]. rewrite is_user_first, str_eqb_refl in Hq. discriminate.
Qed.

Lemma do_pdelete_only s c pat :
  Inv s ->
  Inv (fst (do_pdelete s c false pat)) /\
  (fst (do_pdelete s c false pat) = s \/ meq (abs (fst (do_pdelete s c false pat))) (m_pdel (abs s) (kseg_parse pat))).
Proof.
  intros HI. pose proof (do_pdelete_effect s c pat HI) as H. cbv zeta in H.
  destruct (o_res (snd (do_pdelete s c false pat))); try contradiction.
  - destruct H as (HI' & Hm & _). split; [exact HI'|now right].
  - rewrite H. split; [exact HI|now left].
Qed.

Lemma do_pdelete_accepts s c pat :
  Inv s -> check_read_only pat c = None -> wf_pat (kseg_parse pat) = true ->
  meq (abs (fst (do_pdelete s c false pat))) (m_pdel (abs s) (kseg_parse pat)).
Proof.
  intros HI Hck Hwf. pose proof (do_pdelete_effect s c pat HI) as H. cbv zeta in H.
  assert (Hres : exists l, o_res (snd (do_pdelete s c false pat)) = RKvs l).
  { pose proof HI as (Hw & Hc & Hg & Hr). unfold do_pdelete. rewrite Hck, (reach_bad_wf _ _ Hwf).
    assert (Hok : root_ok (dr_node (delm (data s) [] (kseg_parse pat))) = true) by (apply root_ok_spec; now apply cleann_delm).
    rewrite Hok. cbn [negb]. rewrite delm_matches.
    set (s' := set_data s _ _).
    destruct (notify_deleted_ok s' (collect (data s) [] (kseg_parse pat))) as (evs & Hn).
    { apply Forall_forall. intros [q e] Hin. cbn [fst].
      apply (collect_spec (data s) [] (kseg_parse pat) q e Hw) in Hin as (k & -> & Hl & _). cbn [app].
      exact (stored_key_good s k e HI Hl). }
    rewrite Hn. cbn. eexists. reflexivity. }
  destruct Hres as [l Hl]. rewrite Hl in H. tauto.
Qed.

Theorem pdelete_sim L F c pat :
  Inv L -> Inv F -> user_eq (abs L) (abs F) -> wf_pat (kseg_parse pat) = true ->
  let L' := fst (do_pdelete L c false pat) in
  let F' := if starts_with s_SYS_prefix pat then F else fst (do_pdelete F 0 false pat) in
  Inv L' /\ Inv F' /\ user_eq (abs L') (abs F').
Proof.
  intros HL HF Hu Hwf. cbv zeta.
  destruct (do_pdelete_only L c pat HL) as [HL' HmL]. destruct (do_pdelete_only F 0 pat HF) as [HF' HmF].
  destruct (starts_with s_SYS_prefix pat) eqn:Epre.
  - split; [exact HL'|]. split; [exact HF|].
    destruct HmL as [->|Hm]; [exact Hu|].
    destruct (prefix_first_segment pat Epre) as [rest Hs]. destruct (kseg_parse_first pat rest Hs) as [r Hr].
    eapply user_eq_meq; [exact Hm|intros q; reflexivity|]. rewrite Hr. now apply user_eq_pdel_sys.
  - split; [exact HL'|]. split; [exact HF'|].
    destruct pat as [|x pat'] eqn:Epat.
    { (* the empty pattern is refused on both sides *)
      destruct HmL as [->|Hm]; destruct HmF as [->|Hm']; try exact Hu;
        exfalso; clear - Hm Hm'; idtac.
      all: try (pose proof (do_pdelete_effect L c [] HL) as X; cbv zeta in X; unfold do_pdelete in X; cbn in X; contradiction).
      all: try (pose proof (do_pdelete_effect F 0 [] HF) as X; cbv zeta in X; unfold do_pdelete in X; cbn in X; contradiction). }
    rewrite <- Epat in *. assert (Hne : pat <> []) by (rewrite Epat; discriminate).
    pose proof (guard_internal pat Hne) as HgF.
    pose proof (do_pdelete_accepts F 0 pat HF HgF Hwf) as HaF.
    destruct (check_read_only pat c) eqn:HgL.
    + (* refused on the leader: only possible when the first segment is $SYS, so the follower touches no user key *)
      assert (HLs : fst (do_pdelete L c false pat) = L) by (unfold do_pdelete; now rewrite HgL).
      rewrite HLs.
      assert (Hfirst : exists rest, split slash pat = s_SYS :: rest).
      { unfold check_read_only in HgL. destruct pat as [|y pt]; [congruence|].
        destruct (N.eqb c 0); [discriminate|].
        destruct (split slash (y :: pt)) as [|p0 rest] eqn:Es; [discriminate|].
        destruct (str_eqb_spec p0 s_SYS) as [->|_]; [now eexists|discriminate]. }
      destruct Hfirst as [rest Hs]. destruct (kseg_parse_first pat rest Hs) as [r Hr].
      eapply user_eq_meq; [intros q; reflexivity|exact HaF|]. rewrite Hr.
      apply user_eq_sym, user_eq_pdel_sys, user_eq_sym, Hu.
    + pose proof (do_pdelete_accepts L c pat HL HgL Hwf) as HaL.
      eapply user_eq_meq; [exact HaL|exact HaF|].
      intros q Hq. unfold m_pdel. destruct (store_match (kseg_parse pat) q); [reflexivity|now apply Hu].
Qed.

(* ---- one mirrored client write, and histories of them ---- *)
Inductive cwrite :=
| WrSet (c : cid) (k : str) (v : json)
| WrCSet (c : cid) (k : str) (v : json) (n : N)
| WrDelete (c : cid) (k : str)
| WrPDelete (c : cid) (pat : str).

Definition op_of (w : cwrite) : op :=
  match w with
  | WrSet c k v => OSet c k v false
  | WrCSet c k v n => OCSet c k v n false
  | WrDelete c k => ODelete c k
  | WrPDelete c pat => OPDelete c pat
  end.

(* the overflow of the version counter (known finding F17) and ill-formed patterns (F3) are excluded *)
Definition admissible (L F : core) (w : cwrite) : Prop :=
  match w with
  | WrSet c k v => o_res (snd (do_insert L c k (Plain v) false)) <> RCrash /\ o_res (snd (do_insert F 0 k (Plain v) false)) <> RCrash
  | WrCSet c k v n => o_res (snd (do_insert L c k (Cas v n) false)) <> RCrash /\ o_res (snd (do_insert F 0 k (Cas v n) false)) <> RCrash
  | WrDelete _ _ => True
  | WrPDelete _ pat => wf_pat (kseg_parse pat) = true
  end.

Theorem mirror_sim L F w :
  Inv L -> Inv F -> user_eq (abs L) (abs F) -> admissible L F w ->
  let L' := fst (step L (op_of w)) in
  let F' := fdrain F (mirror (op_of w)) in
  Inv L' /\ Inv F' /\ user_eq (abs L') (abs F').
Proof.
  intros HL HF Hu Ha. cbv zeta. destruct w as [c k v|c k v n|c k|c pat]; cbn [op_of step mirror].
  - destruct Ha as [H1 H2]. pose proof (insert_sim L F c k (Plain v) false HL HF Hu H1 H2) as H. cbv zeta in H.
    destruct (starts_with s_SYS_prefix k); exact H.
  - destruct Ha as [H1 H2]. pose proof (insert_sim L F c k (Cas v n) false HL HF Hu H1 H2) as H. cbv zeta in H.
    destruct (starts_with s_SYS_prefix k); exact H.
  - pose proof (delete_sim L F c k HL HF Hu) as H. cbv zeta in H.
    destruct (starts_with s_SYS_prefix k); exact H.
  - pose proof (pdelete_sim L F c pat HL HF Hu Ha) as H. cbv zeta in H.
    destruct (starts_with s_SYS_prefix pat); exact H.
Qed.

(* the follower applies the mirrored commands of a whole history, in channel order *)
Fixpoint lrun (L : core) (ws : list cwrite) : core :=
  match ws with [] => L | w :: ws' => lrun (fst (step L (op_of w))) ws' end.
Fixpoint channel (ws : list cwrite) : list wcmd :=
  match ws with [] => [] | w :: ws' => mirror (op_of w) ++ channel ws' end.
Fixpoint admissible_run (L F : core) (ws : list cwrite) : Prop :=
  match ws with
  | [] => True
  | w :: ws' => admissible L F w /\ admissible_run (fst (step L (op_of w))) (fdrain F (mirror (op_of w))) ws'
  end.

Lemma fdrain_app F a b : fdrain F (a ++ b) = fdrain (fdrain F a) b.
Proof. unfold fdrain. apply fold_left_app. Qed.

Theorem converges ws : forall L F,
  Inv L -> Inv F -> user_eq (abs L) (abs F) -> admissible_run L F ws ->
  Inv (lrun L ws) /\ Inv (fdrain F (channel ws)) /\ user_eq (abs (lrun L ws)) (abs (fdrain F (channel ws))).
Proof.
  induction ws as [|w ws IH]; intros L F HL HF Hu Ha; [unfold fdrain; cbn [lrun channel fold_left]; split; [exact HL|split; [exact HF|exact Hu]]|].
  destruct Ha as [Ha Hrest]. cbn [lrun channel]. rewrite fdrain_app.
  destruct (mirror_sim L F w HL HF Hu Ha) as (HL' & HF' & Hu').
  now apply IH.
Qed.

(* joining: the follower starts from the leader's export, which agrees with the leader on every user key *)
Lemma lookup_strip_user (n : node entry) q : is_user q = true -> lookup (strip_sys s_SYS n) q = lookup n q.
Proof.
  destruct n as [v cs]. destruct q as [|q0 q]; [discriminate|]. rewrite is_user_first. intros Hq.
  apply Bool.negb_true_iff in Hq.
Abort.

(* follower.rs process_api_call: every write offered to a follower directly is refused and changes nothing *)
Theorem follower_refuses_writes f o :
  follower_refuses o = true -> fstep_api f o = (f, out_res (RErr E_NotLeader)).
Proof. intros H. unfold fstep_api. now rewrite H. Qed.

Theorem follower_write_kinds c k v n force p t :
  follower_refuses (OSet c k v force) = true /\ follower_refuses (OCSet c k v n force) = true /\
  follower_refuses (ODelete c k) = true /\ follower_refuses (OPDelete c p) = true /\
  follower_refuses (OPublish k v) = true /\ follower_refuses (OSPubInit c t k) = true /\
  follower_refuses (OSPub c t v) = true /\ follower_refuses (OImport v) = true /\
  follower_refuses (OLock c k) = true /\ follower_refuses (OAcquire c k) = true /\
  follower_refuses (ORelease c k) = true.
Proof. repeat split. Qed.

(* known finding F10b: an imported CAS entry is mirrored as a forced cset carrying the imported version, which leaves
   the follower at version 1 (absent key) while the leader holds the imported version *)
Theorem cas_import_refuted : exists v,
  let w := WCSet [107] JNull v true in
  abs (fapply init w) [[107]] = Some (Cas JNull 1) /\ v <> 1%N.
Proof. exists 7%N. vm_compute. split; [reflexivity|discriminate]. Qed.

(* ---- joining ---- *)
Lemma prune_kids_go (cs : list (str * node entry)) :
  Forall (fun kc => prune (snd kc) = snd kc) cs ->
  (fix go (cs : list (str * node entry)) : list (str * node entry) :=
     match cs with [] => [] | (k, c) :: cs' => (k, prune c) :: go cs' end) cs = cs.
Proof.
  induction cs as [|[k c] cs IH]; intros H; [reflexivity|].
  inversion H as [|? ? Hc Hrest]; subst. cbn [snd] in Hc. rewrite Hc, (IH Hrest). reflexivity.
Qed.

Lemma filter_all {A} (f : A -> bool) l : Forall (fun x => f x = true) l -> filter f l = l.
Proof.
  induction l as [|x l IH]; intros H; [reflexivity|]. inversion H as [|? ? Hx Hl]; subst.
  cbn. rewrite Hx, (IH Hl). reflexivity.
Qed.

Lemma prune_clean (n : node entry) : cleann n -> prune n = n.
Proof.
  induction n as [v cs IH] using node_ind'. intros Hc. apply cleann_unfold in Hc.
  cbn [prune]. rewrite prune_kids_go.
  - unfold trim_kids. rewrite filter_all; [reflexivity|].
    apply Forall_forall. intros kc Hin. rewrite Forall_forall in Hc. destruct (Hc _ Hin) as [Ho _]. now rewrite Ho.
  - apply Forall_forall. intros kc Hin. rewrite Forall_forall in IH, Hc. apply IH; [exact Hin|]. now destruct (Hc _ Hin).
Qed.

Lemma find_child_filter {A} (g : str * A -> bool) k (cs : list (str * A)) :
  (forall c, g (k, c) = true) -> (forall k' c, str_eqb k k' = true -> g (k', c) = g (k, c)) ->
  find_child k (filter g cs) = find_child k cs.
Proof.
  intros Hk Hext. induction cs as [|[k' c] cs IH]; [reflexivity|]. cbn [filter find_child].
  destruct (str_eqb k k') eqn:E.
  - rewrite (Hext k' c E), Hk. cbn [find_child]. now rewrite E.
  - destruct (g (k', c)); cbn [find_child]; [rewrite E|]; exact IH.
Qed.

Lemma lookup_strip_user (n : node entry) q : is_user q = true -> lookup (strip_sys s_SYS n) q = lookup n q.
Proof.
  destruct n as [v cs]. destruct q as [|q0 q]; [discriminate|]. rewrite is_user_first. intros Hq.
  apply Bool.negb_true_iff in Hq. unfold strip_sys. cbn [nval nkids]. rewrite !lookup_cons.
  rewrite find_child_filter; [reflexivity| |].
  - intros c. cbn [fst]. now rewrite Hq.
  - intros k' c E. cbn [fst]. apply str_eqb_eq in E. now subst k'.
Qed.

Lemma Forall_filter {A} (P : A -> Prop) g l : Forall P l -> Forall P (filter g l).
Proof. intros H. apply Forall_forall. intros x Hx. apply filter_In in Hx as [Hx _]. rewrite Forall_forall in H. now apply H. Qed.

Lemma NoDup_names_filter {A} g (cs : list (str * A)) : NoDup (names cs) -> NoDup (names (filter g cs)).
Proof.
  unfold names. induction cs as [|[k c] cs IH]; intros H; [constructor|]. inversion H as [|? ? Hn Hd]; subst.
  cbn [filter]. destruct (g (k, c)); [|now apply IH]. cbn [map fst]. constructor; [|now apply IH].
  intros Hin. apply Hn. apply in_map_iff in Hin as (x & Hx & Hin). apply filter_In in Hin as [Hin _].
  apply in_map_iff. now exists x.
Qed.

Theorem join_agrees L :
  Inv L -> Inv (fst (fjoin L)) /\ user_eq (abs L) (abs (fst (fjoin L))).
Proof.
  intros (Hw & Hc & Hg & Hr). unfold fjoin. cbn [fst]. unfold core_of.
  destruct (data L) as [v cs] eqn:Ed. cbn [nval] in Hr. subst v.
  assert (Hcs : cleann (strip_sys s_SYS (Node None cs))).
  { unfold strip_sys. cbn [nval nkids]. apply cleann_unfold. apply Forall_filter. exact (proj1 (cleann_unfold _ _) Hc). }
  rewrite (prune_clean _ Hcs). split.
  - unfold Inv. split; [|split; [|split]]; cbn [data set_data].
    + unfold strip_sys. cbn [nval nkids]. apply wfn_unfold in Hw as [Hn Hk]. apply wfn_unfold. split; [now apply NoDup_names_filter|now apply Forall_filter].
    + exact Hcs.
    + unfold strip_sys. cbn [nval nkids]. apply goodn_filter. exact (proj1 (goodn_unfold _ _) Hg).
    + reflexivity.
  - intros q Hq. unfold abs. cbn [data set_data]. rewrite Ed. symmetry. now apply lookup_strip_user.
Qed.

(* C11, for every join point and every history of client writes after it: once the follower has processed what the
   leader sent, it holds exactly the leader's user keys, values and versions *)
Theorem follower_converges L ws :
  Inv L -> admissible_run L (fst (fjoin L)) ws ->
  user_eq (abs (lrun L ws)) (abs (fdrain (fst (fjoin L)) (channel ws))).
Proof.
  intros HL Ha. destruct (join_agrees L HL) as [HF Hu].
  exact (proj2 (proj2 (converges ws L _ HL HF Hu Ha))).
Qed.

(* ---- C12: promotion ---- *)
From WB Require Import Proofs.CodecFacts Proofs.PersistFacts.

Theorem promote_spec f :
  let f1 := apply_gglw f (all_grave_goods f) (all_last_wills f) in
  node_ok (strip_sys s_SYS (data f1)) ->
  promote f = apply_gglw (core_of (strip_sys s_SYS (data f1))) (all_grave_goods f1) (all_last_wills f1).
Proof.
  intros f1 Hok. unfold promote. fold f1. unfold restart, load.
  rewrite (load_after_flush f1 [] Hok). reflexivity.
Qed.
