(* The subscriber tree of subscribers.rs: add_matches returns exactly the subscribers registered
   at a position P with sub_match P key. *)
From WB Require Import Base.Str Base.StrFacts Model.Key Model.Subs Model.Match.

Lemma kseg_eqb_spec a b : reflect (a = b) (kseg_eqb a b).
Proof.
  destruct a as [x| |], b as [y| |]; cbn; try (constructor; congruence).
  destruct (str_eqb_spec x y); constructor; congruence.
Qed.
Lemma kseg_eqb_refl a : kseg_eqb a a = true.
Proof. destruct (kseg_eqb_spec a a); congruence. Qed.

Lemma kpath_eqb_spec a b : reflect (a = b) (kpath_eqb a b).
Proof.
  revert b; induction a as [|x a IH]; intros [|y b]; cbn; try (constructor; congruence).
  destruct (kseg_eqb_spec x y) as [->|Hn]; cbn.
  - destruct (IH b) as [->|Hn]; constructor; congruence.
  - constructor; congruence.
Qed.

Section snode_ind'.
  Variable P : snode -> Prop.
  Hypothesis H : forall s cs, Forall (fun kc => P (snd kc)) cs -> P (SNode s cs).
  Fixpoint snode_ind' (n : snode) : P n :=
    match n with
    | SNode s cs =>
        H s cs ((fix go (cs : list (kseg * snode)) : Forall (fun kc => P (snd kc)) cs :=
                   match cs with
                   | [] => Forall_nil _
                   | (k, c) :: cs' => Forall_cons (k, c) (snode_ind' c) (go cs')
                   end) cs)
    end.
End snode_ind'.

Fixpoint wfs (n : snode) : Prop :=
  match n with
  | SNode _ cs =>
      NoDup (map fst cs) /\
      (fix go (cs : list (kseg * snode)) : Prop :=
         match cs with [] => True | (_, c) :: cs' => wfs c /\ go cs' end) cs
  end.

Lemma wfs_unfold s cs : wfs (SNode s cs) <-> NoDup (map fst cs) /\ Forall (fun kc => wfs (snd kc)) cs.
Proof.
  cbn [wfs]. split; intros [Hn Hc]; split; try assumption.
  - induction cs as [|[k c] cs IH]; constructor; [apply Hc|].
    apply IH; [now inversion Hn | apply Hc].
  - induction cs as [|[k c] cs IH]; [exact I|].
    inversion Hc; subst. split; [assumption|]. apply IH; [now inversion Hn | assumption].
Qed.

Lemma find_k_In {A} k (cs : list (kseg * A)) c : find_k k cs = Some c -> In (k, c) cs.
Proof.
  induction cs as [|[k' c'] cs IH]; cbn; [discriminate|].
  destruct (kseg_eqb_spec k k') as [->|Hn]; [intros [= ->]; now left|intros H; right; now apply IH].
Qed.

Lemma In_find_k {A} k (cs : list (kseg * A)) c :
  NoDup (map fst cs) -> In (k, c) cs -> find_k k cs = Some c.
Proof.
  induction cs as [|[k' c'] cs IH]; cbn; [contradiction|].
  intros Hnd [E|Hin].
  - injection E as -> ->. now rewrite kseg_eqb_refl.
  - inversion Hnd as [|? ? Hni Hnd']; subst.
    destruct (kseg_eqb_spec k k') as [->|Hn].
    + exfalso. apply Hni. change k' with (fst (k', c)). now apply in_map.
    + now apply IH.
Qed.

(* the subscribers registered at tree position P *)
Fixpoint subs_at (n : snode) (P : list kseg) : list subscriber :=
  match P with
  | [] => ssubs n
  | k :: P' => match find_k k (skids n) with Some c => subs_at c P' | None => [] end
  end.

Lemma all_subs_unfold s cs :
  all_subs (SNode s cs) = s ++ flat_map (fun kc => all_subs (snd kc)) cs.
Proof.
  cbn [all_subs]. f_equal. induction cs as [|[k c] cs IH]; cbn; [reflexivity|]. now rewrite IH.
Qed.

Theorem all_subs_spec (n : snode) sb :
  wfs n -> (In sb (all_subs n) <-> exists P, In sb (subs_at n P)).
Proof.
  induction n as [s cs IH] using snode_ind'. intros Hwf.
  apply wfs_unfold in Hwf as [Hnd Hwc]. rewrite all_subs_unfold, in_app_iff, in_flat_map.
  rewrite Forall_forall in IH, Hwc. split.
  - intros [H|([k c] & Hin & H)].
    + now exists [].
    + cbn [snd] in H. apply (IH _ Hin (Hwc _ Hin)) in H as (P & HP).
      exists (k :: P). cbn [subs_at skids]. now rewrite (In_find_k _ _ _ Hnd Hin).
  - intros ([|k P] & HP).
    + now left.
    + right. cbn [subs_at skids] in HP. destruct (find_k k cs) as [c|] eqn:Ef; [|contradiction].
      pose proof (find_k_In _ _ _ Ef) as Hin. exists (k, c). split; [assumption|].
      cbn [snd]. apply (IH _ Hin (Hwc _ Hin)). now exists P.
Qed.

(* event routing: add_matches returns exactly the subscribers at positions matching the key *)
Theorem add_matches_spec key : forall (n : snode) sb,
  wfs n ->
  (In sb (add_matches n key) <-> exists P, In sb (subs_at n P) /\ sub_match P key = true).
Proof.
  induction key as [|e rest IH]; intros [s cs] sb Hwf.
  - cbn [add_matches ssubs]. split.
    + intros H. now exists [].
    + intros ([|k P] & HP & Hm); [exact HP|destruct k; discriminate].
  - pose proof Hwf as Hwf0. apply wfs_unfold in Hwf as [Hnd Hwc]. rewrite Forall_forall in Hwc.
    cbn [add_matches skids]. rewrite !in_app_iff. split.
    + intros [H|[H|H]].
      * destruct (find_k Wild cs) as [c|] eqn:Ef; [|contradiction]. cbn [opt_app] in H.
        pose proof (find_k_In _ _ _ Ef) as Hin.
        apply (IH c sb (Hwc _ Hin)) in H as (P & HP & Hm).
        exists (Wild :: P). cbn [subs_at skids sub_match]. now rewrite Ef.
      * destruct (find_k Multi cs) as [c|] eqn:Ef; [|contradiction]. cbn [opt_app] in H.
        pose proof (find_k_In _ _ _ Ef) as Hin.
        apply (all_subs_spec c sb (Hwc _ Hin)) in H as (P & HP).
        exists (Multi :: P). cbn [subs_at skids sub_match]. now rewrite Ef.
      * destruct (find_k (Reg e) cs) as [c|] eqn:Ef; [|contradiction]. cbn [opt_app] in H.
        pose proof (find_k_In _ _ _ Ef) as Hin.
        apply (IH c sb (Hwc _ Hin)) in H as (P & HP & Hm).
        exists (Reg e :: P). cbn [subs_at skids sub_match]. now rewrite Ef, str_eqb_refl.
    + intros ([|k P] & HP & Hm); [discriminate|].
      cbn [subs_at skids] in HP. destruct (find_k k cs) as [c|] eqn:Ef; [|contradiction].
      pose proof (find_k_In _ _ _ Ef) as Hin.
      destruct k as [x| |]; cbn [sub_match] in Hm.
      * apply andb_true_iff in Hm as [Hx Hm]. apply str_eqb_eq in Hx. subst x.
        right. right. rewrite Ef. cbn [opt_app]. apply (IH c sb (Hwc _ Hin)). now exists P.
      * left. rewrite Ef. cbn [opt_app]. apply (IH c sb (Hwc _ Hin)). now exists P.
      * right. left. rewrite Ef. cbn [opt_app]. apply (all_subs_spec c sb (Hwc _ Hin)). now exists P.
Qed.

(* ---- registration ---- *)

Lemma find_upd_k_same {A} (d : A) k f cs :
  find_k k (upd_k d k f cs) = Some (f (match find_k k cs with Some c => c | None => d end)).
Proof.
  induction cs as [|[k' c] cs IH]; cbn.
  - now rewrite kseg_eqb_refl.
  - destruct (kseg_eqb k k') eqn:E; cbn; rewrite E; [reflexivity|assumption].
Qed.

Lemma find_upd_k_other {A} (d : A) k k2 f cs :
  k2 <> k -> find_k k2 (upd_k d k f cs) = find_k k2 cs.
Proof.
  intros Hn. induction cs as [|[k' c] cs IH]; cbn.
  - destruct (kseg_eqb_spec k2 k); [contradiction|reflexivity].
  - destruct (kseg_eqb_spec k k') as [<-|Hk]; cbn.
    + destruct (kseg_eqb_spec k2 k); [contradiction|reflexivity].
    + destruct (kseg_eqb k2 k'); [reflexivity|assumption].
Qed.

Theorem subs_at_add P sb : forall n Q,
  subs_at (add_subscriber P sb n) Q = if kpath_eqb P Q then subs_at n Q ++ [sb] else subs_at n Q.
Proof.
  induction P as [|k P IH]; intros [s cs] Q.
  - destruct Q; reflexivity.
  - cbn [add_subscriber ssubs skids]. destruct Q as [|k2 Q]; [reflexivity|].
    cbn [subs_at skids kpath_eqb].
    destruct (kseg_eqb_spec k k2) as [<-|Hn].
    + rewrite find_upd_k_same, IH. cbn [andb].
      destruct (find_k k cs) as [c|]; [reflexivity|].
      destruct (kpath_eqb P Q); destruct Q; reflexivity.
    + rewrite find_upd_k_other by congruence. reflexivity.
Qed.

Lemma map_fst_upd_k {A} (d : A) k f cs :
  map fst (upd_k d k f cs) = if existsb (kseg_eqb k) (map fst cs) then map fst cs else map fst cs ++ [k].
Proof.
  induction cs as [|[k' c] cs IH]; cbn; [reflexivity|].
  destruct (kseg_eqb k k') eqn:E; cbn; [reflexivity|]. rewrite IH.
  now destruct (existsb (kseg_eqb k) (map fst cs)).
Qed.

Lemma NoDup_snoc' {A} (l : list A) x : NoDup l -> ~ In x l -> NoDup (l ++ [x]).
Proof.
  induction l as [|y l IH]; cbn; intros Hnd Hni.
  - constructor; [intros []|constructor].
  - inversion Hnd; subst. constructor.
    + rewrite in_app_iff. intros [H|[H|[]]]; [contradiction|]. apply Hni. now left.
    + apply IH; [assumption|]. intros H. apply Hni. now right.
Qed.

Theorem wfs_add P sb : forall n, wfs n -> wfs (add_subscriber P sb n).
Proof.
  induction P as [|k P IH]; intros [s cs] Hwf.
  - exact Hwf.
  - cbn [add_subscriber ssubs skids]. apply wfs_unfold in Hwf as [Hnd Hc]. apply wfs_unfold. split.
    + rewrite map_fst_upd_k. destruct (existsb (kseg_eqb k) (map fst cs)) eqn:E; [assumption|].
      apply NoDup_snoc'; [assumption|]. intros Hin.
      assert (existsb (kseg_eqb k) (map fst cs) = true); [|congruence].
      apply existsb_exists. exists k. split; [assumption|apply kseg_eqb_refl].
    + clear Hnd. induction Hc as [|[k' c] cs Hk Hcs IHc]; cbn.
      * constructor; [|constructor]. cbn [snd]. apply IH. cbn. split; [constructor|exact I].
      * destruct (kseg_eqb k k'); constructor; cbn [snd] in *; try assumption. now apply IH.
Qed.
