(* Session end as a run of ordinary requests.  Worterbuch::disconnected, once the client's publish streams,
   locks and its entry in the client list are gone, is exactly the following requests, in this order, each
   once: the internal update of $SYS/clients, an unsubscribe for each of the client's subscriptions and
   ls-subscriptions, the internal removal of $SYS/clients/<id>/#, a pattern delete UNDER THE CLIENT'S ID for
   each of its grave goods, a forced set UNDER THE CLIENT'S ID for each key of its last will.  Everything
   proved about requests (C01, C03, C04, C05, C08) therefore applies to a session end. *)
From WB Require Import Base.Str Base.StrFacts Base.Json Model.Key Model.Consts Model.Store Model.Match Model.Subs
  Model.Entry Model.Core Spec.MapSpec Proofs.StoreFacts Proofs.TreeInv Proofs.CoreFacts Proofs.C07Proof
  Proofs.LockHistory Proofs.LenFacts Proofs.C01Proof.
From Coq Require Import Lia.

Local Arguments N.add : simpl never.

Definition evs_of (outs : list output) : list (N * event) := flat_map o_events outs.
Definition lss_of (outs : list output) : list (N * list str) := flat_map o_ls outs.

Definition Runs (r : core * output) (s : core) (ops : list op) : Prop :=
  is_crash (snd r) = false ->
  fst r = final s ops /\ o_events (snd r) = evs_of (trace s ops) /\ o_ls (snd r) = lss_of (trace s ops) /\
  nocrash (trace s ops).

Lemma final_app s a b : final s (a ++ b) = final (final s a) b.
Proof. unfold final. apply fold_left_app. Qed.

Lemma trace_app a : forall s b, trace s (a ++ b) = trace s a ++ trace (final s a) b.
Proof. induction a as [|o a IH]; intros s b; [reflexivity|]. cbn [app trace]. now rewrite IH. Qed.

Lemma Runs_nil s r0 : r0 <> RCrash -> Runs (s, out_res r0) s [].
Proof. intros _ _. repeat split. intros o []. Qed.

Lemma Runs_step s o : Runs (step s o) s [o].
Proof.
  intros Hc. cbn [trace evs_of lss_of flat_map]. rewrite !app_nil_r. repeat split.
  intros x [<-|[]]. exact Hc.
Qed.

Lemma Runs_insert s c k v f : Runs (do_insert s c k (Plain v) f) s [OSet c k v f].
Proof. exact (Runs_step s (OSet c k v f)). Qed.
Lemma Runs_pdelete s c p : Runs (do_pdelete s c false p) s [OPDelete c p].
Proof. exact (Runs_step s (OPDelete c p)). Qed.

Lemma Runs_seq2 r1 f s ops1 ops2 :
  Runs r1 s ops1 -> (forall s1, s1 = final s ops1 -> Runs (f s1) s1 ops2) ->
  Runs (seq2 r1 f) s (ops1 ++ ops2).
Proof.
  intros H1 H2. unfold Runs, seq2. destruct (is_crash (snd r1)) eqn:E1; [intros Hc; congruence|].
  cbn [fst snd]. intros Hc. change (is_crash (out_app (snd r1) (snd (f (fst r1))))) with (is_crash (snd (f (fst r1)))) in Hc.
  destruct (H1 E1) as (F1 & Ev1 & Ls1 & N1). destruct (H2 (fst r1) F1 Hc) as (F2 & Ev2 & Ls2 & N2).
  rewrite final_app, trace_app, <- F1. unfold evs_of, lss_of in *. rewrite !flat_map_app.
  cbn [out_app o_events o_ls]. rewrite Ev1, Ev2, Ls1, Ls2. repeat split; try assumption.
  intros o Hin. apply in_app_iff in Hin as [Hin|Hin]; [now apply N1|now apply N2].
Qed.

Lemma Runs_iter {A} (f : core -> A -> core * output) (mk : A -> op) :
  (forall s x, f s x = step s (mk x)) -> forall l s, Runs (iter_ops f l s) s (map mk l).
Proof.
  intros Hf. induction l as [|x l IH]; intros s; cbn [iter_ops map].
  - apply Runs_nil. discriminate.
  - change (mk x :: map mk l) with ([mk x] ++ map mk l). apply Runs_seq2.
    + rewrite Hf. apply Runs_step.
    + intros s1 _. apply IH.
Qed.

(* ---- the requests of a session end ---- *)
Definition gg_of (s : core) (c : cid) : list str :=
  match (match do_get s (topic [s_SYS; s_clients; client_str c; s_graveGoods]) with
         | RValue v => dec_grave_goods v | _ => None end) with Some l => l | None => [] end.
Definition lw_of (s : core) (c : cid) : list (str * json) :=
  match (match do_get s (topic [s_SYS; s_clients; client_str c; s_lastWill]) with
         | RValue v => dec_last_will v | _ => None end) with Some l => l | None => [] end.

Definition ids_of {V} (c : cid) (tab : list ((N * N) * V)) : list (N * N) :=
  filter (fun id => N.eqb (fst id) c) (map fst tab).

Definition end_ops (s : core) (c : cid) : list op :=
  [OSet 0 (topic [s_SYS; s_clients])
        (jnum (N.of_nat (length (filter (fun x => negb (N.eqb x c)) (clients s))))) true]
  ++ map (fun id => OUnsubscribe (fst id) (snd id)) (ids_of c (subscriptions s))
  ++ map (fun id => OUnsubscribeLs (fst id) (snd id)) (ids_of c (ls_subscriptions s))
  ++ [OPDelete 0 (topic [s_SYS; s_clients; client_str c; s_hash])]
  ++ map (fun g => OPDelete c g) (gg_of s c)
  ++ map (fun kv => OSet c (fst kv) (snd kv) true) (lw_of s c).

(* the state in which those requests run: publish streams, locks and client-list entry of the client gone *)
Definition prep (s : core) (c : cid) : core :=
  let s0 := set_spub s (filter (fun kv => negb (N.eqb (fst (fst kv)) c)) (spub_keys s)) in
  let '(l', _, _, _) :=
    match assoc_get N.eqb c (locked_keys s0) with
    | Some paths => unlock_paths (locks s0) c paths
    | None => (locks s0, [], [], false)
    end in
  let s1 := set_locks s0 l' (assoc_del N.eqb c (locked_keys s0)) (next_req s0) in
  set_clients s1 (filter (fun x => negb (N.eqb x c)) (clients s1)).

Lemma prep_same s c :
  data (prep s c) = data s /\ len (prep s c) = len s /\ subs (prep s c) = subs s /\
  subscriptions (prep s c) = subscriptions s /\ lssubs (prep s c) = lssubs s /\
  ls_subscriptions (prep s c) = ls_subscriptions s /\ next_inst (prep s c) = next_inst s.
Proof.
  unfold prep. cbv zeta.
  destruct (match assoc_get N.eqb c (locked_keys (set_spub s _)) with Some _ => _ | None => _ end) as [[[l' g] x] cr].
  repeat split.
Qed.

Lemma unsub_run_tables ids : forall s,
  ls_subscriptions (final s (map (fun id => OUnsubscribe (fst id) (snd id)) ids)) = ls_subscriptions s.
Proof.
  induction ids as [|id ids IH]; intros s; [reflexivity|]. cbn [map]. unfold final in *. cbn [fold_left step].
  rewrite IH. destruct (unsubscribe_tables s (fst id) (snd id)) as (_ & H & _). exact H.
Qed.

Theorem disconnected_is_run s c :
  N.eqb c 0 = false -> Runs (do_disconnected s c) (prep s c) (end_ops s c).
Proof.
  intros H0. unfold do_disconnected, prep. rewrite H0. cbv zeta.
  destruct (match assoc_get N.eqb c (locked_keys (set_spub s (filter (fun kv => negb (N.eqb (fst (fst kv)) c)) (spub_keys s)))) with
            | Some paths => unlock_paths (locks (set_spub s (filter (fun kv => negb (N.eqb (fst (fst kv)) c)) (spub_keys s)))) c paths
            | None => (locks (set_spub s (filter (fun kv => negb (N.eqb (fst (fst kv)) c)) (spub_keys s))), [], [], false)
            end) as [[[l' g] x] cr].
  destruct cr; [intros Hc; discriminate|].
  match goal with |- Runs (fst ?r, _) ?s2 _ => assert (Hr : Runs r s2 (end_ops s c)); [|set (rr := r) in *] end.
  2:{ intros Hc. cbn [fst snd] in *. destruct (is_crash (snd rr)) eqn:Hc'; [congruence|].
      destruct (Hr Hc') as (F & Ev & Ls & Nc). cbn [o_events o_ls]. auto. }
  unfold end_ops.
  apply Runs_seq2; [apply Runs_insert|]. intros s1 E1.
  assert (T1 : subscriptions s1 = subscriptions s /\ ls_subscriptions s1 = ls_subscriptions s).
  { rewrite E1. unfold final. cbn [fold_left step].
    match goal with |- context [do_insert ?a ?b ?c ?d ?e] => destruct (insert_tables a b c d e) as (_ & Ha & Hb & _) end.
    rewrite Ha, Hb. split; reflexivity. }
  destruct T1 as (T1a & T1b).
  apply Runs_seq2.
  { rewrite T1a. apply (Runs_iter (fun s id => do_unsubscribe s (fst id) (snd id)) (fun id => OUnsubscribe (fst id) (snd id))). reflexivity. }
  intros s2 E2.
  assert (T2 : ls_subscriptions s2 = ls_subscriptions s).
  { rewrite E2, unsub_run_tables. exact T1b. }
  apply Runs_seq2.
  { rewrite T2. apply (Runs_iter (fun s id => do_unsubscribe_ls s (fst id) (snd id)) (fun id => OUnsubscribeLs (fst id) (snd id))). reflexivity. }
  intros s3 E3. apply Runs_seq2; [apply Runs_pdelete|].
  intros s4 E4. apply Runs_seq2.
  { apply (Runs_iter (fun s g => do_pdelete s c false g) (fun g => OPDelete c g)). reflexivity. }
  intros s5 E5.
  apply (Runs_iter (fun s kv => do_insert s c (fst kv) (Plain (snd kv)) true) (fun kv => OSet c (fst kv) (snd kv) true)). reflexivity.
Qed.

(* ---- what the session end does to the data: a trace of the map specification ---- *)
Lemma nocrash_no_crash outs : nocrash outs -> no_crash outs.
Proof.
  intros H. apply Forall_forall. intros o Hin E. specialize (H o Hin). unfold is_crash in H. now rewrite E in H.
Qed.

Lemma end_ops_any s c : Forall any_req (end_ops s c) /\ Forall import_ok (end_ops s c).
Proof.
  unfold end_ops. split; apply Forall_forall; intros o Hin;
    repeat (apply in_app_iff in Hin as [Hin|Hin]);
    try (apply in_map_iff in Hin as (x & <- & _)); try (destruct Hin as [<-|[]]); unfold any_req; cbn; tauto.
Qed.

Theorem session_end_refines s c :
  Inv s -> LenInv s -> N.eqb c 0 = false -> is_crash (snd (do_disconnected s c)) = false ->
  spec_trace (abs s) (end_ops s c) (trace (prep s c) (end_ops s c)) /\
  fst (do_disconnected s c) = final (prep s c) (end_ops s c) /\
  o_events (snd (do_disconnected s c)) = evs_of (trace (prep s c) (end_ops s c)) /\
  o_ls (snd (do_disconnected s c)) = lss_of (trace (prep s c) (end_ops s c)).
Proof.
  intros HI HL H0 Hc. destruct (disconnected_is_run s c H0 Hc) as (F & Ev & Ls & Nc).
  split; [|auto]. destruct (prep_same s c) as (Ed & El & _).
  assert (Ea : abs (prep s c) = abs s) by (unfold abs; now rewrite Ed).
  rewrite <- Ea, <- (run_trace _ _ Nc). destruct (end_ops_any s c) as (Ha & Hi).
  apply run_refines_any; try assumption.
  - unfold Inv in *. now rewrite Ed.
  - unfold LenInv in *. now rewrite Ed, El.
  - rewrite (run_trace _ _ Nc). now apply nocrash_no_crash.
Qed.

(* ---- what it does to the registrations ---- *)
Definition neutral (o : op) : Prop :=
  match o with OSet _ _ _ _ | OCSet _ _ _ _ _ | OPDelete _ _ => True | _ => False end.

Definition tabs (s : core) :=
  (subscriptions s, ls_subscriptions s, spub_keys s, locked_keys s, clients s).

Lemma neutral_final ops : forall s, Forall neutral ops -> tabs (final s ops) = tabs s.
Proof.
  induction ops as [|o ops IH]; intros s H; [reflexivity|]. apply Forall_cons_iff in H as (Ho & H).
  change (final s (o :: ops)) with (final (fst (step s o)) ops). rewrite (IH _ H). unfold tabs.
  destruct o; try contradiction; cbn [step].
  - destruct (insert_tables s c k (Plain v) force) as (A & B & C & D & E). now rewrite A, B, C, D, E.
  - destruct (insert_tables s c k (Cas v ver) force) as (A & B & C & D & E). now rewrite A, B, C, D, E.
  - destruct (pdelete_tables s c false p) as (A & B & C & D & E). now rewrite A, B, C, D, E.
Qed.

Definition del_ids {V} (ids : list (N * N)) (l : list ((N * N) * V)) : list ((N * N) * V) :=
  fold_left (fun l id => assoc_del id_eqb id l) ids l.

Lemma unsub_final ids : forall s,
  tabs (final s (map (fun id => OUnsubscribe (fst id) (snd id)) ids)) =
  (del_ids ids (subscriptions s), ls_subscriptions s, spub_keys s, locked_keys s, clients s).
Proof.
  induction ids as [|[c t] ids IH]; intros s; [reflexivity|]. cbn [map fst snd].
  change (final s (?o :: ?ops)) with (final (fst (step s o)) ops). rewrite IH. cbn [step].
  destruct (unsubscribe_tables s c t) as (A & B & C & D & E). now rewrite A, B, C, D, E.
Qed.

Lemma unsubls_final ids : forall s,
  tabs (final s (map (fun id => OUnsubscribeLs (fst id) (snd id)) ids)) =
  (subscriptions s, del_ids ids (ls_subscriptions s), spub_keys s, locked_keys s, clients s).
Proof.
  induction ids as [|[c t] ids IH]; intros s; [reflexivity|]. cbn [map fst snd].
  change (final s (?o :: ?ops)) with (final (fst (step s o)) ops). rewrite IH. cbn [step].
  destruct (unsubscribe_ls_tables s c t) as (A & B & C & D & E). now rewrite A, B, C, D, E.
Qed.

Lemma prep_tabs s c :
  tabs (prep s c) = (subscriptions s, ls_subscriptions s,
                     filter (fun kv => negb (N.eqb (fst (fst kv)) c)) (spub_keys s),
                     assoc_del N.eqb c (locked_keys s), filter (fun x => negb (N.eqb x c)) (clients s)).
Proof.
  unfold prep. cbv zeta.
  destruct (match assoc_get N.eqb c (locked_keys (set_spub s _)) with Some _ => _ | None => _ end) as [[[l' g] x] cr].
  reflexivity.
Qed.

Lemma id_eqb_eq a b : id_eqb a b = true <-> a = b.
Proof.
  destruct a as [a1 a2], b as [b1 b2]. unfold id_eqb. cbn [fst snd]. rewrite andb_true_iff, !N.eqb_eq.
  split; [intros [-> ->]; reflexivity|intros [= -> ->]; auto].
Qed.

Lemma In_del_ids {V} ids : forall (l : list ((N * N) * V)) id v,
  In (id, v) (del_ids ids l) <-> In (id, v) l /\ ~ In id ids.
Proof.
  induction ids as [|i ids IH]; intros l id v; cbn [del_ids fold_left]; [tauto|].
  fold (del_ids ids (assoc_del id_eqb i l)). rewrite IH. unfold assoc_del. rewrite filter_In. cbn [fst In].
  split.
  - intros ((Hin & Hne) & Hni). split; [exact Hin|]. intros [->|H]; [|contradiction].
    rewrite (proj2 (id_eqb_eq id id) eq_refl) in Hne. discriminate.
  - intros (Hin & Hni). split; [split; [exact Hin|]|tauto].
    destruct (id_eqb i id) eqn:E; [|reflexivity]. apply id_eqb_eq in E. subst. tauto.
Qed.

Theorem session_end_tables s c :
  N.eqb c 0 = false -> is_crash (snd (do_disconnected s c)) = false ->
  let s' := fst (do_disconnected s c) in
  (forall id v, In (id, v) (subscriptions s') <-> In (id, v) (subscriptions s) /\ fst id <> c) /\
  (forall id v, In (id, v) (ls_subscriptions s') <-> In (id, v) (ls_subscriptions s) /\ fst id <> c) /\
  (forall id k, In (id, k) (spub_keys s') <-> In (id, k) (spub_keys s) /\ fst id <> c) /\
  locked_keys s' = assoc_del N.eqb c (locked_keys s) /\
  clients s' = filter (fun x => negb (N.eqb x c)) (clients s).
Proof.
  intros H0 Hc s'. destruct (disconnected_is_run s c H0 Hc) as (F & _). fold s' in F.
  assert (T : tabs s' = (del_ids (ids_of c (subscriptions s)) (subscriptions s),
                         del_ids (ids_of c (ls_subscriptions s)) (ls_subscriptions s),
                         filter (fun kv => negb (N.eqb (fst (fst kv)) c)) (spub_keys s),
                         assoc_del N.eqb c (locked_keys s), filter (fun x => negb (N.eqb x c)) (clients s))).
  { rewrite F. unfold end_ops. rewrite !final_app.
    rewrite neutral_final by (apply Forall_forall; intros o Hin; apply in_map_iff in Hin as (x & <- & _); exact I).
    rewrite neutral_final by (apply Forall_forall; intros o Hin; apply in_map_iff in Hin as (x & <- & _); exact I).
    rewrite neutral_final by (repeat constructor).
    set (X1 := final (prep s c) [OSet 0 (topic [s_SYS; s_clients])
                  (jnum (N.of_nat (length (filter (fun x => negb (N.eqb x c)) (clients s))))) true]).
    set (X2 := final X1 (map (fun id => OUnsubscribe (fst id) (snd id)) (ids_of c (subscriptions s)))).
    assert (E1 : tabs X1 = tabs (prep s c)) by (apply neutral_final; repeat constructor).
    rewrite prep_tabs in E1.
    assert (E2 := unsub_final (ids_of c (subscriptions s)) X1). fold X2 in E2.
    rewrite unsubls_final. unfold tabs in E1, E2.
    injection E1 as A1 A2 A3 A4 A5. injection E2 as B1 B2 B3 B4 B5.
    now rewrite B1, B2, B3, B4, B5, A1, A2, A3, A4, A5. }
  unfold tabs in T. injection T as T1 T2 T3 T4 T5.
  assert (Hids : forall V (tab : list ((N * N) * V)) id v, In (id, v) tab -> (In id (ids_of c tab) <-> fst id = c)).
  { intros V tab id v Hin. unfold ids_of. rewrite filter_In, N.eqb_eq. split; [tauto|]. intros E. split; [|exact E].
    apply in_map_iff. now exists (id, v). }
  split; [|split; [|split; [|split; assumption]]].
  - intros id v. rewrite T1, In_del_ids. split; intros (Hin & Hn); (split; [exact Hin|]).
    + intros E. apply Hn. now apply (Hids _ _ id v Hin).
    + intros Hi. apply Hn. now apply (Hids _ _ id v Hin).
  - intros id v. rewrite T2, In_del_ids. split; intros (Hin & Hn); (split; [exact Hin|]).
    + intros E. apply Hn. now apply (Hids _ _ id v Hin).
    + intros Hi. apply Hn. now apply (Hids _ _ id v Hin).
  - intros id k. rewrite T3, filter_In. cbn [fst]. split; intros (Hin & Hn); (split; [exact Hin|]).
    + intros E. now rewrite E, N.eqb_refl in Hn.
    + destruct (N.eqb_spec (fst id) c); [contradiction|reflexivity].
Qed.

(* the client leaves the line of every key (its locks pass on, its waiting requests are cancelled: C06) *)
Theorem session_end_lines ops c q :
  N.eqb c 0 = false ->
  cline (fst (step (final init ops) (ODisconnected c))) q = notc c (cline (final init ops) q).
Proof.
  intros H0. rewrite (proj1 (proj2 (lock_step _ (ODisconnected c) (reach_LH ops))) q).
  cbn [astep]. now rewrite H0.
Qed.
