(* C03 over whole histories of requests of every kind.  StreamProof.v follows one subscription through reads,
   sets, csets, deletes and publishes; here pattern deletes, imports, publish streams, the other clients'
   subscriptions coming and going, locks, ls-subscriptions, and whole sessions starting and ending (which are
   runs of requests: SessionEnd.v) are added: the channel of a live subscription carries, in order, exactly one
   event per accepted change that concerns it. *)
From WB Require Import Base.Str Base.StrFacts Base.Json Model.Key Model.Consts Model.Store Model.Match Model.Subs
  Model.Entry Model.Core Spec.MapSpec Proofs.StoreFacts Proofs.TreeInv Proofs.GoodNames Proofs.SubsFacts Proofs.MatchFacts
  Proofs.CoreFacts Proofs.C03Proof Proofs.StreamProof Proofs.C07Proof Proofs.LenFacts Proofs.C01Proof
  Proofs.LockHistory Proofs.SessionEnd.
From Coq Require Import Lia Permutation.

Local Arguments N.add : simpl never.

(* ------------------------------------------------------------------ the subscriber tree under add and remove *)

Lemma perm_upd_k {B} (g : snode -> list B) (x : B) (d : snode) k f cs :
  (forall c, Permutation (g (f c)) (x :: g c)) -> g d = [] ->
  Permutation (flat_map (fun kc => g (snd kc)) (upd_k d k f cs)) (x :: flat_map (fun kc => g (snd kc)) cs).
Proof.
  intros Hf Hd. induction cs as [|[k' c] cs IH]; cbn [upd_k flat_map snd].
  - rewrite app_nil_r. rewrite <- Hd. apply Hf.
  - destruct (kseg_eqb k k'); cbn [flat_map snd].
    + change (x :: g c ++ flat_map (fun kc => g (snd kc)) cs) with ((x :: g c) ++ flat_map (fun kc => g (snd kc)) cs).
      apply Permutation_app_tail. apply Hf.
    + rewrite (Permutation_app_head _ IH). apply Permutation_sym, Permutation_middle.
Qed.

Lemma all_subs_add P sb : forall n, Permutation (all_subs (add_subscriber P sb n)) (sb :: all_subs n).
Proof.
  induction P as [|k P IH]; intros [s cs].
  - cbn [add_subscriber ssubs skids]. rewrite !all_subs_unfold. rewrite <- app_assoc. cbn [app].
    apply Permutation_sym, Permutation_middle.
  - cbn [add_subscriber ssubs skids]. rewrite !all_subs_unfold.
    rewrite (Permutation_app_head _ (perm_upd_k all_subs sb empty_snode k (add_subscriber P sb) cs IH eq_refl)).
    apply Permutation_sym, Permutation_middle.
Qed.

Inductive sub_of {A} : list A -> list A -> Prop :=
| sub_nil : sub_of [] []
| sub_keep x a b : sub_of a b -> sub_of (x :: a) (x :: b)
| sub_drop x a b : sub_of a b -> sub_of a (x :: b).

Lemma sub_of_refl {A} (l : list A) : sub_of l l.
Proof. induction l; constructor; assumption. Qed.

Lemma sub_of_app {A} (a b c d : list A) : sub_of a b -> sub_of c d -> sub_of (a ++ c) (b ++ d).
Proof. induction 1; cbn; intros Hcd; [exact Hcd| |]; constructor; auto. Qed.

Lemma sub_of_filter {A} (f : A -> bool) l : sub_of (filter f l) l.
Proof. induction l as [|x l IH]; cbn; [constructor|]. destruct (f x); constructor; exact IH. Qed.

Lemma sub_of_In {A} (a b : list A) x : sub_of a b -> In x a -> In x b.
Proof. induction 1; cbn; intros Hin; [exact Hin| |]; intuition. Qed.

Lemma sub_of_map {A B} (g : A -> B) a b : sub_of a b -> sub_of (map g a) (map g b).
Proof. induction 1; cbn; constructor; assumption. Qed.

Lemma sub_of_NoDup {A} (a b : list A) : sub_of a b -> NoDup b -> NoDup a.
Proof.
  induction 1 as [|x a b H IH|x a b H IH]; intros Hnd; [constructor| |].
  - apply NoDup_cons_iff in Hnd as (Hx & Hnd). constructor; [|now apply IH]. intros Hin. apply Hx. exact (sub_of_In _ _ _ H Hin).
  - apply NoDup_cons_iff in Hnd as (_ & Hnd). now apply IH.
Qed.

Lemma all_subs_remove P c t : forall n, sub_of (all_subs (remove_id P c t n)) (all_subs n).
Proof.
  induction P as [|k P IH]; intros [s cs]; cbn [remove_id ssubs skids]; rewrite !all_subs_unfold.
  - apply sub_of_app; [apply sub_of_filter|apply sub_of_refl].
  - apply sub_of_app; [apply sub_of_refl|]. induction cs as [|[k' ch] cs IHc]; cbn [mod_k flat_map snd]; [constructor|].
    destruct (kseg_eqb k k'); cbn [flat_map snd]; (apply sub_of_app; [|try apply sub_of_refl; try exact IHc]).
    + apply IH.
    + apply sub_of_refl.
Qed.

(* ------------------------------------------------------------------ the invariants that travel with a history *)

Definition FreshI (s : core) : Prop := forall x, In x (all_subs (subs s)) -> s_inst x < next_inst s.
Definition Registered (s : core) (sb : subscriber) : Prop := In sb (subs_at (subs s) (s_pat sb)).

Record K (s : core) : Prop := { k_inv : Inv s; k_sinv : SInv s; k_ui : UI s; k_fresh : FreshI s }.

Lemma K_init : K init.
Proof. split; [exact Inv_init|exact SInv_init|constructor|intros x []]. Qed.

Lemma K_same s s' :
  data s' = data s -> subs s' = subs s -> next_inst s <= next_inst s' -> K s -> K s'.
Proof.
  intros Ed Es Hn [HI HS HU HF]. split.
  - unfold Inv in *. now rewrite Ed.
  - unfold SInv in *. now rewrite Es.
  - unfold UI in *. now rewrite Es.
  - intros x Hx. rewrite Es in Hx. specialize (HF x Hx). lia.
Qed.

(* a new subscriber with the next instance *)
Lemma K_add s sb m :
  K s -> s_inst sb = next_inst s ->
  let s' := set_subs s (add_subscriber (s_pat sb) sb (subs s)) m (next_inst s + 1) in
  K s' /\ (forall x, Registered s x -> Registered s' x).
Proof.
  intros [HI HS HU HF] Hi s'. destruct (SInv_add s sb m (next_inst s + 1) HS) as (HS' & Hat).
  split; [split|].
  - exact HI.
  - exact HS'.
  - unfold UI, s'. cbn [subs set_subs].
    apply (Permutation_NoDup (l := map s_inst (sb :: all_subs (subs s)))).
    + apply Permutation_map, Permutation_sym, all_subs_add.
    + cbn [map]. constructor; [|exact HU]. intros Hin. apply in_map_iff in Hin as (x & E & Hx).
      specialize (HF x Hx). lia.
  - intros x Hx. unfold s' in *. cbn [subs set_subs next_inst] in *.
    apply (Permutation_in _ (all_subs_add _ _ _)) in Hx as [<-|Hx]; [lia|]. specialize (HF x Hx). lia.
  - intros x Hx. unfold Registered, s' in *. cbn [subs set_subs]. apply Hat. now left.
Qed.

(* somebody else's subscription goes *)
Lemma K_remove s pat c t m :
  K s ->
  let s' := set_subs s (remove_id pat c t (subs s)) m (next_inst s) in
  K s' /\ (forall x, Registered s x -> (s_client x, s_tid x) <> (c, t) -> Registered s' x).
Proof.
  intros [HI [Hw Hp] HU HF] s'. subst s'. split; [split|].
  - exact HI.
  - split; cbn [subs set_subs]; [now apply wfs_remove|].
    intros P x Hx. rewrite subs_at_remove in Hx.
    destruct (kpath_eqb pat P); [apply filter_In in Hx as [Hx _]|]; now apply Hp.
  - unfold UI. cbn [subs set_subs]. apply (sub_of_NoDup _ _ (sub_of_map s_inst _ _ (all_subs_remove pat c t (subs s))) HU).
  - intros x Hx. cbn [subs set_subs next_inst] in *.
    apply HF. exact (sub_of_In _ _ _ (all_subs_remove pat c t (subs s)) Hx).
  - intros x Hx Hid. unfold Registered in *. cbn [subs set_subs]. rewrite subs_at_remove.
    destruct (kpath_eqb pat (s_pat x)); [|exact Hx]. apply filter_In. split; [exact Hx|].
    unfold same_id. destruct (N.eqb_spec (s_client x) c) as [E1|]; [|reflexivity].
    destruct (N.eqb_spec (s_tid x) t) as [E2|]; [|reflexivity]. exfalso. apply Hid. now rewrite E1, E2.
Qed.

(* ------------------------------------------------------------------ accepted changes and what a subscriber sees of them *)

Record change := Change {
  ch_path : list str; ch_key : str; ch_val : json; ch_changed : bool; ch_deleted : bool }.

Definition notify_all (s : core) (cs : list change) : list (N * event) :=
  flat_map (fun c => notify s (ch_path c) (ch_key c) (ch_val c) (ch_changed c) (ch_deleted c)) cs.

(* one event per change that matches the subscription's pattern; a change that leaves the value as it was is
   passed over by a subscription that asked for unique values *)
Definition wanted (sb : subscriber) (cs : list change) : list event :=
  flat_map (fun c => if wants sb (ch_path c) (ch_changed c)
                     then [event_for sb (ch_key c) (ch_val c) (ch_deleted c)] else []) cs.

Lemma notify_all_channel s sb cs :
  SInv s -> UI s -> Registered s sb -> chan (s_inst sb) (notify_all s cs) = wanted sb cs.
Proof.
  intros HS HU HR. induction cs as [|c cs IH]; [reflexivity|].
  cbn [notify_all wanted flat_map]. rewrite chan_app. fold (notify_all s cs). fold (wanted sb cs).
  now rewrite IH, (notify_channel s sb _ _ _ _ _ HS HU HR).
Qed.

Lemma notify_ext s1 s2 p k v c d : subs s1 = subs s2 -> notify s1 p k v c d = notify s2 p k v c d.
Proof. unfold notify. now intros ->. Qed.

Lemma notify_all_ext s1 s2 cs : subs s1 = subs s2 -> notify_all s1 cs = notify_all s2 cs.
Proof.
  intros E. unfold notify_all. apply flat_map_ext. intros c. now apply notify_ext.
Qed.

Definition del_change (m : list str * entry) : change :=
  Change (fst m) (key_of (fst m)) (entry_val (snd m)) true true.
Definition imp_change (x : list str * entry * bool) : change :=
  Change (fst (fst x)) (import_key (fst (fst x))) (entry_val (snd (fst x))) (snd x) false.

Lemma notify_deleted_exact s' (ms : list (list str * entry)) :
  Forall (fun m => fst m <> [] /\ Forall good_seg (fst m)) ms ->
  notify_deleted s' ms = Ok (notify_all s' (map del_change ms)).
Proof.
  induction 1 as [|m ms [Hne Hg] _ IH]; [reflexivity|].
  cbn [notify_deleted map notify_all flat_map]. unfold key_of at 1.
  rewrite (parse_join_good _ Hne Hg), IH. reflexivity.
Qed.

Lemma notify_imported_exact s' (ins : list (list str * entry * bool)) :
  Forall (fun x => fst (fst x) <> [] /\ Forall good_seg (fst (fst x))) ins ->
  notify_imported s' ins = Ok (notify_all s' (map imp_change ins)).
Proof.
  induction 1 as [|[[p e] ch] ins [Hne Hg] _ IH]; [reflexivity|]. cbn [fst snd] in *.
  cbn [notify_imported map notify_all flat_map]. unfold import_key at 1, key_of at 1.
  rewrite (parse_join_good _ Hne Hg), IH. reflexivity.
Qed.

Definition ins_changes (s : core) (c : cid) (k : str) (e : entry) (force : bool) : list change :=
  match check_read_only k c, parse_segments k with
  | None, Ok p =>
      if special_value_bad k (entry_val e) then []
      else match decide (lookup (data s) p) e force with
           | DOk _ changed _ => [Change p k (entry_val e) changed false]
           | _ => []
           end
  | _, _ => []
  end.

Definition pub_changes (k : str) (v : json) : list change :=
  match parse_segments k with Ok p => [Change p k v true false] | Err _ => [] end.

(* the accepted changes of one request, in the order the server applies them; a refused request makes none *)
Definition changes (s : core) (o : op) : list change :=
  match o with
  | OSet c k v f => ins_changes s c k (Plain v) f
  | OCSet c k v n f => ins_changes s c k (Cas v n) f
  | ODelete c k =>
      match check_read_only k c, parse_segments k with
      | None, Ok p => match lookup (data s) p with
                      | Some e => [Change p k (entry_val e) true true]
                      | None => []
                      end
      | _, _ => []
      end
  | OPDelete c pat =>
      match check_read_only pat c with
      | Some _ => []
      | None => if reach_bad (data s) (kseg_parse pat) then []
                else map del_change (collect (data s) [] (kseg_parse pat))
      end
  | OPublish k v => pub_changes k v
  | OSPub c t v => match assoc_get id_eqb ((c : N), t) (spub_keys s) with Some k => pub_changes k v | None => [] end
  | OImport j => match dec_persisted j with
                 | Some other => map imp_change (insertions (data s) (strip_sys s_SYS other))      (* $SYS is not imported (F29) *)
                 | None => []
                 end
  | _ => []
  end.

(* requests that neither start nor end a session *)
Definition elem (o : op) : Prop := match o with OConnected _ | ODisconnected _ => False | _ => True end.

(* requests that leave the subscription [sb] alone: no subscribe, psubscribe or unsubscribe under its id, and its
   client's session does not end (a second subscribe under a live id is known finding F24) *)
Definition foreign (sb : subscriber) (o : op) : Prop :=
  match o with
  | OSubscribe c t _ _ _ | OPSubscribe c t _ _ _ | OUnsubscribe c t => (s_client sb, s_tid sb) <> (c, t)
  | ODisconnected c => s_client sb <> c
  | _ => True
  end.

Lemma chan_fresh i (inst : N) (ev : list event) :
  i <> inst -> chan i (map (fun e => (inst, e)) ev) = [].
Proof.
  intros Hne. unfold chan. induction ev as [|e ev IH]; [reflexivity|]. cbn [map filter fst].
  destruct (N.eqb_spec inst i); [congruence|exact IH].
Qed.

(* one elementary request: the subscription's channel gets the events of the accepted changes that concern it,
   nothing else; the invariants and the registration go on *)
Theorem elem_step s sb o :
  K s -> Registered s sb -> elem o -> foreign sb o -> import_ok o -> o_res (snd (step s o)) <> RCrash ->
  chan (s_inst sb) (o_events (snd (step s o))) = wanted sb (changes s o) /\
  K (fst (step s o)) /\ Registered (fst (step s o)) sb.
Proof.
  intros HK HR He Hf Himp Hnc. pose proof HK as [HI HS HU HF].
  assert (Hfresh : s_inst sb <> next_inst s).
  { assert (Hin : In sb (all_subs (subs s))) by (apply (all_subs_spec _ _ (proj1 HS)); now exists (s_pat sb)).
    specialize (HF sb Hin). lia. }
  assert (Hsame : forall s' out, data s' = data s -> subs s' = subs s -> next_inst s <= next_inst s' ->
                                 o_events out = [] ->
                                 chan (s_inst sb) (o_events out) = wanted sb [] /\ K s' /\ Registered s' sb).
  { intros s' out Ed Es Hn Ho. rewrite Ho. split; [reflexivity|]. split; [now apply (K_same s)|].
    unfold Registered. now rewrite Es. }
  destruct o; try contradiction; cbn [step changes fst snd] in *;
    try (apply Hsame; try reflexivity; lia).
  - (* set *)
    destruct (insert_channel s sb c k (Plain v) force HS HU HR) as (Hc & Hs).
    split; [|split].
    + rewrite Hc. unfold expected_insert, ins_changes.
      destruct (check_read_only k c); [reflexivity|]. destruct (parse_segments k); [|reflexivity].
      destruct (special_value_bad k _); [reflexivity|]. destruct (decide _ _ _); try reflexivity.
      cbn [wanted flat_map ch_path ch_changed ch_key ch_val ch_deleted]. now rewrite app_nil_r.
    + destruct (step_refines0 s (OSet c k v force) HI I I Hnc) as (HI' & _).
      split; [exact HI'| | |]; unfold SInv, UI, FreshI; cbn [step]; rewrite ?Hs; try assumption.
      intros x Hx. specialize (HF x Hx).
      assert (E : next_inst (fst (do_insert s c k (Plain v) force)) = next_inst s); [|lia].
      unfold do_insert. crush_op.
    + unfold Registered. now rewrite Hs.
  - (* cset *)
    destruct (insert_channel s sb c k (Cas v ver) force HS HU HR) as (Hc & Hs).
    split; [|split].
    + rewrite Hc. unfold expected_insert, ins_changes.
      destruct (check_read_only k c); [reflexivity|]. destruct (parse_segments k); [|reflexivity].
      destruct (special_value_bad k _); [reflexivity|]. destruct (decide _ _ _); try reflexivity.
      cbn [wanted flat_map ch_path ch_changed ch_key ch_val ch_deleted]. now rewrite app_nil_r.
    + destruct (step_refines0 s (OCSet c k v ver force) HI I I Hnc) as (HI' & _).
      split; [exact HI'| | |]; unfold SInv, UI, FreshI; cbn [step]; rewrite ?Hs; try assumption.
      intros x Hx. specialize (HF x Hx).
      assert (E : next_inst (fst (do_insert s c k (Cas v ver) force)) = next_inst s); [|lia].
      unfold do_insert. crush_op.
    + unfold Registered. now rewrite Hs.
  - (* delete *)
    destruct (step_refines0 s (ODelete c k) HI I I Hnc) as (HI' & _). cbn [step] in HI'.
    revert HI' Hnc. unfold do_delete.
    destruct (check_read_only k c); [intros; apply Hsame; try reflexivity; lia|].
    destruct (parse_segments k) as [p|code]; [|intros; apply Hsame; try reflexivity; lia].
    destruct (negb (root_ok (del_at p (data s)))); [intros _ Hnc; now elim Hnc|].
    destruct (lookup (data s) p) as [e|]; cbn [fst snd o_events]; intros HI' _.
    + split; [|split].
      * rewrite (notify_channel _ sb p k (entry_val e) true true) by assumption.
        cbn [wanted flat_map ch_path ch_changed ch_key ch_val ch_deleted]. now rewrite app_nil_r.
      * split; [exact HI'|exact HS|exact HU|exact HF].
      * exact HR.
    + split; [reflexivity|]. split; [|exact HR]. split; [exact HI'|exact HS|exact HU|exact HF].
  - (* pdelete *)
    destruct (step_refines0 s (OPDelete c p) HI I I Hnc) as (HI' & _). cbn [step] in HI'.
    revert HI' Hnc. unfold do_pdelete.
    destruct (check_read_only p c); [intros; apply Hsame; try reflexivity; lia|].
    destruct (reach_bad (data s) (kseg_parse p)); [intros; apply Hsame; try reflexivity; lia|].
    destruct (negb (root_ok (dr_node (delm (data s) [] (kseg_parse p))))); [intros _ Hnc; now elim Hnc|].
    rewrite delm_matches. set (s' := set_data s _ _).
    rewrite (notify_deleted_exact s' (collect (data s) [] (kseg_parse p))).
    2:{ apply Forall_forall. intros [q e] Hin. cbn [fst].
        apply (collect_spec (data s) [] _ q e (proj1 HI)) in Hin as (k & -> & Hl & _). cbn [app].
        exact (stored_key_good s k e HI Hl). }
    cbn [fst snd o_events]. intros HI' _. split; [|split].
    + rewrite (notify_all_ext s' s) by reflexivity. now apply notify_all_channel.
    + split; [exact HI'|exact HS|exact HU|exact HF].
    + exact HR.
  - (* publish *)
    unfold do_publish, pub_changes. destruct (parse_segments k) as [p|code]; [|apply Hsame; try reflexivity; lia].
    cbn [fst snd o_events]. split; [|split; [exact HK|exact HR]].
    rewrite (notify_channel _ sb p k v true false) by assumption.
    cbn [wanted flat_map ch_path ch_changed ch_key ch_val ch_deleted]. now rewrite app_nil_r.
  - (* spub_init *)
    unfold do_spub_init. destruct (check_read_only k c); apply Hsame; try reflexivity; lia.
  - (* spub *)
    unfold do_spub. destruct (assoc_get id_eqb ((c : N), t) (spub_keys s)) as [key|]; [|apply Hsame; try reflexivity; lia].
    unfold do_publish, pub_changes. destruct (parse_segments key) as [p|code]; [|apply Hsame; try reflexivity; lia].
    cbn [fst snd o_events]. split; [|split; [exact HK|exact HR]].
    rewrite (notify_channel _ sb p key v true false) by assumption.
    cbn [wanted flat_map ch_path ch_changed ch_key ch_val ch_deleted]. now rewrite app_nil_r.
  - (* import *)
    destruct (step_refines0 s (OImport j) HI I Himp Hnc) as (HI' & _). cbn [step] in HI'.
    revert HI'. unfold do_import. destruct (dec_persisted j) as [other0|] eqn:Ed; [|intros; apply Hsame; try reflexivity; lia].
    cbv zeta. set (other := strip_sys s_SYS other0).
    destruct (good_import_strip other0 (Himp other0 Ed)) as (Hwo & Hgo & Hro). fold other in Hwo, Hgo, Hro. set (s' := set_data s _ _).
    rewrite (notify_imported_exact s' (insertions (data s) other)).
    2:{ apply Forall_forall. intros [[q e] ch] Hin. cbn [fst]. unfold insertions in Hin.
        apply in_map_iff in Hin as ([q' e'] & [= -> -> _] & Hin). rewrite entries_collect in Hin.
        apply (collect_spec other [] [Multi] q e Hwo) in Hin as (k & -> & Hl & _). cbn [app]. split.
        - intros ->. rewrite lookup_nil in Hl. congruence.
        - exact (lookup_good _ _ _ Hgo Hl). }
    cbn [fst snd o_events]. intros HI'. split; [|split].
    + rewrite (notify_all_ext s' s) by reflexivity. now apply notify_all_channel.
    + split; [exact HI'|exact HS|exact HU|exact HF].
    + exact HR.
  - (* subscribe: somebody else's, its snapshot goes to a fresh channel *)
    unfold do_subscribe.
    match goal with |- context [match ?snap with Ok _ => _ | Err _ => _ end] => destruct snap as [evs|code] eqn:Esnap end;
      [|apply Hsame; try reflexivity; lia].
    cbn [fst snd o_events].
    set (nsb := Subscriber c t (next_inst s) (kseg_parse k) unique false).
    destruct (K_add s nsb (assoc_set id_eqb (c, t) (kseg_parse k) (subscriptions s)) HK eq_refl) as (HK' & HR').
    split; [|split; [exact HK'|now apply HR']].
    assert (Hev : exists l, evs = map (fun e => (next_inst s, e)) l).
    { destruct live; [injection Esnap as <-; now exists []|].
      destruct (do_get s k) eqn:Eg; try (injection Esnap as <-; now exists []);
        try (injection Esnap as <-; eexists [_]; reflexivity).
      destruct (N.eqb _ E_NoSuchValue); [injection Esnap as <-; now exists []|discriminate]. }
    destruct Hev as (l & ->). now rewrite chan_fresh.
  - (* psubscribe *)
    unfold do_psubscribe.
    match goal with |- context [match ?snap with Ok _ => _ | Err _ => _ end] => destruct snap as [evs|code] eqn:Esnap end;
      [|apply Hsame; try reflexivity; lia].
    cbn [fst snd o_events].
    set (nsb := Subscriber c t (next_inst s) (kseg_parse p) unique true).
    destruct (K_add s nsb (assoc_set id_eqb (c, t) (kseg_parse p) (subscriptions s)) HK eq_refl) as (HK' & HR').
    split; [|split; [exact HK'|now apply HR']].
    assert (Hev : exists l, evs = map (fun e => (next_inst s, e)) l).
    { destruct live; [injection Esnap as <-; now exists []|].
      destruct (do_pget s p) as [kvs|code]; [|discriminate]. injection Esnap as <-. now exists [EPValue kvs]. }
    destruct Hev as (l & ->). now rewrite chan_fresh.
  - (* unsubscribe: somebody else's *)
    unfold do_unsubscribe. destruct (assoc_get id_eqb (c, t) (subscriptions s)) as [pat|]; [|apply Hsame; try reflexivity; lia].
    cbn [fst snd o_events out_res].
    destruct (K_remove s pat c t (assoc_del id_eqb (c, t) (subscriptions s)) HK) as (HK' & HR').
    split; [reflexivity|]. split; [exact HK'|]. now apply HR'.
  - (* subscribe_ls *)
    unfold do_subscribe_ls. apply Hsame; try reflexivity. cbn. lia.
  - (* unsubscribe_ls *)
    unfold do_unsubscribe_ls. destruct (assoc_get id_eqb (c, t) (ls_subscriptions s)); apply Hsame; try reflexivity; lia.
  - (* lock *)
    unfold do_lock. crush_op; apply Hsame; try reflexivity; lia.
  - unfold do_acquire. crush_op; apply Hsame; try reflexivity; lia.
  - unfold do_release. crush_op; apply Hsame; try reflexivity; lia.
Qed.

(* the invariants alone, whoever is subscribed *)
Lemma K_data s s' : Inv s' -> subs s' = subs s -> next_inst s <= next_inst s' -> K s -> K s'.
Proof.
  intros HI' Es Hn [HI HS HU HF]. split; [exact HI'| | |].
  - unfold SInv in *. now rewrite Es.
  - unfold UI in *. now rewrite Es.
  - intros x Hx. rewrite Es in Hx. specialize (HF x Hx). lia.
Qed.

Lemma subs_untouched s o :
  match o with
  | OSubscribe _ _ _ _ _ | OPSubscribe _ _ _ _ _ | OUnsubscribe _ _ | OConnected _ | ODisconnected _ => True
  | _ => subs (fst (step s o)) = subs s /\ next_inst s <= next_inst (fst (step s o))
  end.
Proof.
  destruct o; try exact I; cbn [step fst]; try (split; [reflexivity|lia]).
  - unfold do_insert. crush_op; cbn; split; try reflexivity; lia.
  - unfold do_insert. crush_op; cbn; split; try reflexivity; lia.
  - unfold do_delete. crush_op; cbn; split; try reflexivity; lia.
  - unfold do_pdelete. crush_op; cbn; split; try reflexivity; lia.
  - unfold do_publish. crush_op; cbn; split; try reflexivity; lia.
  - unfold do_spub_init. crush_op; cbn; split; try reflexivity; lia.
  - unfold do_spub. match goal with |- context [match ?x with Some _ => _ | None => _ end] => destruct x as [key|] end;
      [|cbn; split; [reflexivity|lia]]. unfold do_publish. crush_op; cbn; split; try reflexivity; lia.
  - unfold do_import. crush_op; cbn; split; try reflexivity; lia.
  - unfold do_subscribe_ls. cbn. split; [reflexivity|lia].
  - unfold do_unsubscribe_ls. crush_op; cbn; split; try reflexivity; lia.
  - unfold do_lock. crush_op; cbn; split; try reflexivity; lia.
  - unfold do_acquire. crush_op; cbn; split; try reflexivity; lia.
  - unfold do_release. crush_op; cbn; split; try reflexivity; lia.
Qed.

Lemma elem_Inv s o : Inv s -> elem o -> import_ok o -> o_res (snd (step s o)) <> RCrash -> Inv (fst (step s o)).
Proof.
  intros HI He Himp Hnc.
  assert (Hcase : c01_op o \/ other_op o) by (destruct o; cbn; try tauto; contradiction).
  destruct Hcase as [Hc|Ho].
  - exact (proj1 (step_refines0 s o HI Hc Himp Hnc)).
  - unfold Inv in *. now rewrite (other_data_same s o Ho).
Qed.

Lemma elem_K s o : K s -> elem o -> import_ok o -> o_res (snd (step s o)) <> RCrash -> K (fst (step s o)).
Proof.
  intros HK He Himp Hnc. pose proof (elem_Inv s o (k_inv _ HK) He Himp Hnc) as HI'.
  pose proof (subs_untouched s o) as Hs.
  destruct o; try contradiction; try (destruct Hs as (Es & Hn); now apply (K_data s)).
  - (* subscribe *)
    cbn [step] in *. unfold do_subscribe in *.
    match goal with |- context [match ?snap with Ok _ => _ | Err _ => _ end] => destruct snap as [evs|code] end; [|exact HK].
    cbn [fst]. set (nsb := Subscriber c t (next_inst s) (kseg_parse k) unique false).
    exact (proj1 (K_add s nsb _ HK eq_refl)).
  - cbn [step] in *. unfold do_psubscribe in *.
    match goal with |- context [match ?snap with Ok _ => _ | Err _ => _ end] => destruct snap as [evs|code] end; [|exact HK].
    cbn [fst]. set (nsb := Subscriber c t (next_inst s) (kseg_parse p) unique true).
    exact (proj1 (K_add s nsb _ HK eq_refl)).
  - cbn [step] in *. unfold do_unsubscribe in *.
    destruct (assoc_get id_eqb (c, t) (subscriptions s)) as [pat|]; [|exact HK]. cbn [fst].
    exact (proj1 (K_remove s pat c t _ HK)).
Qed.

(* ------------------------------------------------------------------ runs of elementary requests *)

Fixpoint wanted_run (sb : subscriber) (s : core) (ops : list op) : list event :=
  match ops with
  | [] => []
  | o :: ops' => wanted sb (changes s o) ++ wanted_run sb (fst (step s o)) ops'
  end.

Lemma chan_evs_cons i s o ops :
  chan i (evs_of (trace s (o :: ops))) = chan i (o_events (snd (step s o))) ++ chan i (evs_of (trace (fst (step s o)) ops)).
Proof. cbn [trace evs_of flat_map]. now rewrite chan_app. Qed.

Lemma nocrash_res o : is_crash o = false -> o_res o <> RCrash.
Proof. unfold is_crash. destruct (o_res o); congruence. Qed.

Theorem run_elem sb ops : forall s,
  K s -> Forall elem ops -> Forall import_ok ops -> nocrash (trace s ops) ->
  K (final s ops) /\
  (Registered s sb -> Forall (foreign sb) ops ->
   chan (s_inst sb) (evs_of (trace s ops)) = wanted_run sb s ops /\ Registered (final s ops) sb).
Proof.
  induction ops as [|o ops IH]; intros s HK He Hi Hnc; [split; [exact HK|intros HR _; split; [reflexivity|exact HR]]|].
  apply Forall_cons_iff in He as (He & Hes). apply Forall_cons_iff in Hi as (Hi & His).
  assert (Hc : o_res (snd (step s o)) <> RCrash) by (apply nocrash_res, Hnc; now left).
  assert (Hnc' : nocrash (trace (fst (step s o)) ops)) by (intros x Hx; apply Hnc; now right).
  pose proof (elem_K s o HK He Hi Hc) as HK'.
  destruct (IH _ HK' Hes His Hnc') as (HKf & IH2).
  change (final s (o :: ops)) with (final (fst (step s o)) ops). split; [exact HKf|].
  intros HR Hf. apply Forall_cons_iff in Hf as (Hf & Hfs).
  destruct (elem_step s sb o HK HR He Hf Hi Hc) as (Hch & _ & HR').
  destruct (IH2 HR' Hfs) as (Hrest & HRf). split; [|exact HRf].
  rewrite chan_evs_cons, Hch, Hrest. reflexivity.
Qed.

(* ------------------------------------------------------------------ sessions starting and ending *)

Definition conn_prep (s : core) (c : cid) : core := set_clients s (clients s ++ [c]).
Definition conn_ops (s : core) (c : cid) : list op :=
  [OSet 0 (topic [s_SYS; s_clients]) (jnum (N.of_nat (length (clients s ++ [c])))) true;
   OSet 0 (topic [s_SYS; s_clients; client_str c; s_protocol]) (JStr s_TCP) true;
   OSet 0 (topic [s_SYS; s_clients; client_str c; s_address]) JNull true].

(* every request is a run of elementary requests from a state with the same data and subscriber tree *)
Definition expand (s : core) (o : op) : core * list op :=
  match o with
  | OConnected c => if N.eqb c 0 || existsb (N.eqb c) (clients s) then (s, []) else (conn_prep s c, conn_ops s c)
  | ODisconnected c => if N.eqb c 0 then (s, []) else (prep s c, end_ops s c)
  | _ => (s, [o])
  end.

Lemma connected_is_run s c :
  N.eqb c 0 = false -> existsb (N.eqb c) (clients s) = false ->
  Runs (do_connected s c) (conn_prep s c) (conn_ops s c).
Proof.
  intros H0 Hx. unfold do_connected. rewrite H0, Hx.
  match goal with |- Runs (fst ?r, _) ?s2 _ => assert (Hr : Runs r s2 (conn_ops s c)); [|set (rr := r) in *] end.
  2:{ intros Hc. cbn [fst snd] in *. destruct (is_crash (snd rr)) eqn:Hc'; [congruence|].
      destruct (Hr Hc') as (F & Ev & Ls & Nc). cbn [out_with o_events o_ls]. auto. }
  unfold conn_ops, conn_prep.
  change [?a; ?b; ?d] with (([a] ++ [b]) ++ [d]).
  apply Runs_seq2; [apply Runs_seq2|].
  - apply Runs_insert.
  - intros s1 _. apply Runs_insert.
  - intros s1 _. apply Runs_insert.
Qed.

Theorem expand_runs s o : Runs (step s o) (fst (expand s o)) (snd (expand s o)).
Proof.
  destruct o; try apply Runs_step.
  - cbn [step expand]. destruct (N.eqb c 0) eqn:E0; cbn [orb].
    + unfold do_connected. rewrite E0. intros Hc. discriminate.
    + destruct (existsb (N.eqb c) (clients s)) eqn:Ex; cbn [fst snd].
      * unfold do_connected. rewrite E0, Ex. apply Runs_nil. discriminate.
      * now apply connected_is_run.
  - cbn [step expand]. destruct (N.eqb c 0) eqn:E0; cbn [fst snd].
    + unfold do_disconnected. rewrite E0. intros Hc. discriminate.
    + now apply disconnected_is_run.
Qed.

Lemma end_ops_shape s c :
  Forall elem (end_ops s c) /\ Forall import_ok (end_ops s c) /\
  forall sb, s_client sb <> c -> Forall (foreign sb) (end_ops s c).
Proof.
  unfold end_ops. repeat split; [| |intros sb Hsb]; apply Forall_forall; intros o Hin;
    repeat (apply in_app_iff in Hin as [Hin|Hin]);
    try (apply in_map_iff in Hin as (x & <- & Hx)); try (destruct Hin as [<-|[]]); try exact I.
  cbn [foreign]. unfold ids_of in Hx. apply filter_In in Hx as (_ & Hx). apply N.eqb_eq in Hx.
  intros E. injection E as E1 _. congruence.
Qed.

Lemma expand_shape s o :
  data (fst (expand s o)) = data s /\ subs (fst (expand s o)) = subs s /\
  next_inst (fst (expand s o)) = next_inst s /\
  Forall elem (snd (expand s o)) /\
  (import_ok o -> Forall import_ok (snd (expand s o))) /\
  forall sb, foreign sb o -> Forall (foreign sb) (snd (expand s o)).
Proof.
  assert (Hel : forall o', elem o' -> data s = data s /\ subs s = subs s /\ next_inst s = next_inst s /\
             Forall elem [o'] /\ (import_ok o' -> Forall import_ok [o']) /\
             forall sb, foreign sb o' -> Forall (foreign sb) [o']).
  { intros o' He. repeat split; try (intros; repeat constructor; assumption). }
  destruct o; try (apply Hel; exact I).
  - cbn [expand]. destruct (N.eqb c 0 || existsb (N.eqb c) (clients s))%bool; cbn [fst snd].
    + repeat split; intros; constructor.
    + unfold conn_ops. repeat split; intros; repeat constructor.
  - cbn [expand]. destruct (N.eqb c 0); cbn [fst snd].
    + repeat split; intros; constructor.
    + destruct (prep_same s c) as (Ed & _ & Es & _ & _ & _ & En). destruct (end_ops_shape s c) as (H1 & H2 & H3).
      split; [exact Ed|]. split; [exact Es|]. split; [exact En|]. split; [exact H1|]. split; [intros _; exact H2|].
      intros sb Hf. apply H3. exact Hf.
Qed.

(* what a subscription is owed for one request of any kind *)
Definition wanted_op (sb : subscriber) (s : core) (o : op) : list event :=
  wanted_run sb (fst (expand s o)) (snd (expand s o)).

Theorem any_step s o :
  K s -> import_ok o -> o_res (snd (step s o)) <> RCrash ->
  K (fst (step s o)) /\
  forall sb, Registered s sb -> foreign sb o ->
    chan (s_inst sb) (o_events (snd (step s o))) = wanted_op sb s o /\ Registered (fst (step s o)) sb.
Proof.
  intros HK Hi Hnc.
  assert (Hc : is_crash (snd (step s o)) = false) by (unfold is_crash; destruct (o_res (snd (step s o))); congruence).
  destruct (expand_runs s o Hc) as (F & Ev & _ & Nc).
  destruct (expand_shape s o) as (Ed & Es & En & Hel & Himp & Hfor).
  assert (HK0 : K (fst (expand s o))) by (apply (K_same s); [exact Ed|exact Es|lia|exact HK]).
  destruct (run_elem (Subscriber 0 0 0 [] false false) _ _ HK0 Hel (Himp Hi) Nc) as (HKf & _).
  rewrite F. split; [exact HKf|]. intros sb HR Hf.
  destruct (run_elem sb _ _ HK0 Hel (Himp Hi) Nc) as (_ & H2).
  assert (HR0 : Registered (fst (expand s o)) sb) by (unfold Registered; now rewrite Es).
  destruct (H2 HR0 (Hfor sb Hf)) as (Hch & HRf). rewrite Ev. split; [exact Hch|exact HRf].
Qed.

(* ------------------------------------------------------------------ whole histories *)

Fixpoint wanted_stream (sb : subscriber) (s : core) (os : list op) : list event :=
  match os with
  | [] => []
  | o :: os' => wanted_op sb s o ++ wanted_stream sb (fst (step s o)) os'
  end.

(* every history of requests of every kind after the registration, as long as nobody subscribes or unsubscribes
   under the subscription's own id and its client's session goes on: the channel carries, in the order the server
   applied them, exactly one event per accepted change that concerns the subscription *)
Theorem stream_all os : forall s sb,
  K s -> Registered s sb -> Forall (foreign sb) os -> Forall import_ok os -> no_crash_run s os ->
  stream (s_inst sb) s os = wanted_stream sb s os.
Proof.
  induction os as [|o os IH]; intros s sb HK HR Hf Hi Hnc; [reflexivity|].
  apply Forall_cons_iff in Hf as (Hf & Hfs). apply Forall_cons_iff in Hi as (Hi & His).
  destruct Hnc as (Hc & Hrest). destruct (any_step s o HK Hi Hc) as (HK' & H2).
  destruct (H2 sb HR Hf) as (Hch & HR'). cbn [stream wanted_stream]. rewrite Hch. f_equal.
  now apply IH.
Qed.

(* the invariants hold in every reachable state *)
Theorem reach_K os : forall s, K s -> Forall import_ok os -> no_crash_run s os -> K (final s os).
Proof.
  induction os as [|o os IH]; intros s HK Hi Hnc; [exact HK|].
  apply Forall_cons_iff in Hi as (Hi & His). destruct Hnc as (Hc & Hrest).
  change (final s (o :: os)) with (final (fst (step s o)) os). apply IH; try assumption.
  exact (proj1 (any_step s o HK Hi Hc)).
Qed.

(* an accepted subscribe or psubscribe registers its subscriber, with the next instance as its channel *)
Theorem subscribe_registers s c t k unique live inst :
  K s -> o_res (snd (do_subscribe s c t k unique live)) = RSub inst ->
  inst = next_inst s /\ Registered (fst (do_subscribe s c t k unique live)) (Subscriber c t inst (kseg_parse k) unique false).
Proof.
  intros HK. unfold do_subscribe.
  match goal with |- context [match ?snap with Ok _ => _ | Err _ => _ end] => destruct snap as [evs|code] end;
    [|cbn; discriminate].
  cbn [fst snd o_res]. intros [= <-]. split; [reflexivity|].
  set (nsb := Subscriber c t (next_inst s) (kseg_parse k) unique false).
  destruct (SInv_add s nsb (assoc_set id_eqb (c, t) (kseg_parse k) (subscriptions s)) (next_inst s + 1) (k_sinv _ HK)) as (_ & Hat).
  unfold Registered. cbn [subs set_subs]. apply Hat. right. split; reflexivity.
Qed.

Theorem psubscribe_registers s c t p unique live inst :
  K s -> o_res (snd (do_psubscribe s c t p unique live)) = RSub inst ->
  inst = next_inst s /\ Registered (fst (do_psubscribe s c t p unique live)) (Subscriber c t inst (kseg_parse p) unique true).
Proof.
  intros HK. unfold do_psubscribe.
  match goal with |- context [match ?snap with Ok _ => _ | Err _ => _ end] => destruct snap as [evs|code] end;
    [|cbn; discriminate].
  cbn [fst snd o_res]. intros [= <-]. split; [reflexivity|].
  set (nsb := Subscriber c t (next_inst s) (kseg_parse p) unique true).
  destruct (SInv_add s nsb (assoc_set id_eqb (c, t) (kseg_parse p) (subscriptions s)) (next_inst s + 1) (k_sinv _ HK)) as (_ & Hat).
  unfold Registered. cbn [subs set_subs]. apply Hat. right. split; reflexivity.
Qed.

(* ------------------------------------------------------------------ a channel nobody owns stays silent *)

Definition Gone (s : core) (i : N) : Prop :=
  (forall x, In x (all_subs (subs s)) -> s_inst x <> i) /\ i < next_inst s.

Lemma notify_all_absent s i cs :
  wfs (subs s) -> (forall x, In x (all_subs (subs s)) -> s_inst x <> i) -> chan i (notify_all s cs) = [].
Proof.
  intros Hw Ha. induction cs as [|c cs IH]; [reflexivity|]. cbn [notify_all flat_map]. rewrite chan_app.
  fold (notify_all s cs). now rewrite IH, notify_absent.
Qed.

Lemma elem_silent s i o :
  K s -> Gone s i -> elem o -> import_ok o -> o_res (snd (step s o)) <> RCrash ->
  chan i (o_events (snd (step s o))) = [] /\ Gone (fst (step s o)) i.
Proof.
  intros HK (Ha & Hi) He Himp Hnc. pose proof HK as [HI HS HU HF]. pose proof (proj1 HS) as Hw.
  assert (Hsame : forall s' out, subs s' = subs s -> next_inst s <= next_inst s' -> o_events out = [] ->
                                 chan i (o_events out) = [] /\ Gone s' i).
  { intros s' out Es Hn Ho. rewrite Ho. split; [reflexivity|]. split; [now rewrite Es|lia]. }
  assert (Hkeep : forall s', subs s' = subs s -> next_inst s <= next_inst s' -> Gone s' i).
  { intros s' Es Hn. split; [now rewrite Es|lia]. }
  pose proof (subs_untouched s o) as Hs.
  destruct o; try contradiction; cbn [step fst snd] in *;
    try (apply Hsame; try reflexivity; lia).
  - destruct Hs as (Es & Hn). split; [|now apply Hkeep]. unfold do_insert. crush_op; cbn [snd o_events]; try reflexivity; now apply notify_absent.
  - destruct Hs as (Es & Hn). split; [|now apply Hkeep]. unfold do_insert. crush_op; cbn [snd o_events]; try reflexivity; now apply notify_absent.
  - destruct Hs as (Es & Hn). split; [|now apply Hkeep]. unfold do_delete. crush_op; cbn [snd o_events]; try reflexivity; now apply notify_absent.
  - destruct Hs as (Es & Hn). split; [|now apply Hkeep]. revert Hnc. unfold do_pdelete.
    destruct (check_read_only p c); [reflexivity|]. destruct (reach_bad _ _); [reflexivity|].
    destruct (negb _); [reflexivity|]. rewrite delm_matches. set (s' := set_data s _ _).
    rewrite (notify_deleted_exact s' (collect (data s) [] (kseg_parse p))).
    2:{ apply Forall_forall. intros [q e] Hin. cbn [fst].
        apply (collect_spec (data s) [] _ q e (proj1 HI)) in Hin as (k & -> & Hl & _). cbn [app].
        exact (stored_key_good s k e HI Hl). }
    intros _. cbn [snd o_events]. rewrite (notify_all_ext s' s) by reflexivity. now apply notify_all_absent.
  - destruct Hs as (Es & Hn). split; [|now apply Hkeep]. unfold do_publish. crush_op; cbn [snd o_events]; try reflexivity; now apply notify_absent.
  - unfold do_spub_init. crush_op; apply Hsame; try reflexivity; lia.
  - destruct Hs as (Es & Hn). split; [|now apply Hkeep]. unfold do_spub.
    match goal with |- context [match ?x with Some _ => _ | None => _ end] => destruct x as [key|] end; [|reflexivity].
    unfold do_publish. crush_op; cbn [snd o_events]; try reflexivity; now apply notify_absent.
  - destruct Hs as (Es & Hn). split; [|now apply Hkeep]. unfold do_import.
    destruct (dec_persisted j) as [other0|] eqn:Ed; [|reflexivity].
    cbv zeta. set (other := strip_sys s_SYS other0).
    destruct (good_import_strip other0 (Himp other0 Ed)) as (Hwo & Hgo & Hro). fold other in Hwo, Hgo, Hro. set (s' := set_data s _ _).
    rewrite (notify_imported_exact s' (insertions (data s) other)).
    2:{ apply Forall_forall. intros [[q e] ch] Hin. cbn [fst]. unfold insertions in Hin.
        apply in_map_iff in Hin as ([q' e'] & [= -> -> _] & Hin). rewrite entries_collect in Hin.
        apply (collect_spec other [] [Multi] q e Hwo) in Hin as (k & -> & Hl & _). cbn [app]. split.
        - intros ->. rewrite lookup_nil in Hl. congruence.
        - exact (lookup_good _ _ _ Hgo Hl). }
    cbn [snd o_events]. rewrite (notify_all_ext s' s) by reflexivity. now apply notify_all_absent.
  - (* subscribe: the new channel is the next instance, not i *)
    unfold do_subscribe.
    match goal with |- context [match ?snap with Ok _ => _ | Err _ => _ end] => destruct snap as [evs|code] eqn:Esnap end;
      [|apply Hsame; try reflexivity; lia].
    cbn [fst snd o_events].
    assert (Hev : exists l, evs = map (fun e => (next_inst s, e)) l).
    { destruct live; [injection Esnap as <-; now exists []|].
      destruct (do_get s k) eqn:Eg; try (injection Esnap as <-; now exists []);
        try (injection Esnap as <-; eexists [_]; reflexivity).
      destruct (N.eqb _ E_NoSuchValue); [injection Esnap as <-; now exists []|discriminate]. }
    destruct Hev as (l & ->). split; [apply chan_fresh; lia|]. split; cbn [subs set_subs next_inst]; [|lia].
    intros x Hx. apply (Permutation_in _ (all_subs_add _ _ _)) in Hx as [<-|Hx]; [cbn [s_inst]; lia|now apply Ha].
  - unfold do_psubscribe.
    match goal with |- context [match ?snap with Ok _ => _ | Err _ => _ end] => destruct snap as [evs|code] eqn:Esnap end;
      [|apply Hsame; try reflexivity; lia].
    cbn [fst snd o_events].
    assert (Hev : exists l, evs = map (fun e => (next_inst s, e)) l).
    { destruct live; [injection Esnap as <-; now exists []|].
      destruct (do_pget s p) as [kvs|code]; [|discriminate]. injection Esnap as <-. now exists [EPValue kvs]. }
    destruct Hev as (l & ->). split; [apply chan_fresh; lia|]. split; cbn [subs set_subs next_inst]; [|lia].
    intros x Hx. apply (Permutation_in _ (all_subs_add _ _ _)) in Hx as [<-|Hx]; [cbn [s_inst]; lia|now apply Ha].
  - unfold do_unsubscribe. destruct (assoc_get id_eqb (c, t) (subscriptions s)) as [pat|]; [|apply Hsame; try reflexivity; lia].
    cbn [fst snd o_events out_res]. split; [reflexivity|]. split; cbn [subs set_subs next_inst]; [|exact Hi].
    intros x Hx. apply Ha. exact (sub_of_In _ _ _ (all_subs_remove pat c t (subs s)) Hx).
  - unfold do_unsubscribe_ls. destruct (assoc_get id_eqb (c, t) (ls_subscriptions s)); apply Hsame; try reflexivity; lia.
  - unfold do_lock. crush_op; apply Hsame; try reflexivity; lia.
  - unfold do_acquire. crush_op; apply Hsame; try reflexivity; lia.
  - unfold do_release. crush_op; apply Hsame; try reflexivity; lia.
Qed.

Lemma run_silent i ops : forall s,
  K s -> Gone s i -> Forall elem ops -> Forall import_ok ops -> nocrash (trace s ops) ->
  chan i (evs_of (trace s ops)) = [] /\ Gone (final s ops) i.
Proof.
  induction ops as [|o ops IH]; intros s HK HG He Hi Hnc; [split; [reflexivity|exact HG]|].
  apply Forall_cons_iff in He as (He & Hes). apply Forall_cons_iff in Hi as (Hi & His).
  assert (Hc : o_res (snd (step s o)) <> RCrash) by (apply nocrash_res, Hnc; now left).
  assert (Hnc' : nocrash (trace (fst (step s o)) ops)) by (intros x Hx; apply Hnc; now right).
  destruct (elem_silent s i o HK HG He Hi Hc) as (Hch & HG').
  destruct (IH _ (elem_K s o HK He Hi Hc) HG' Hes His Hnc') as (Hrest & HGf).
  change (final s (o :: ops)) with (final (fst (step s o)) ops). split; [|exact HGf].
  now rewrite chan_evs_cons, Hch, Hrest.
Qed.

(* whatever happens afterwards -- requests of every kind, sessions starting and ending *)
Theorem silent_all os : forall s i,
  K s -> Gone s i -> Forall import_ok os -> no_crash_run s os -> stream i s os = [].
Proof.
  induction os as [|o os IH]; intros s i HK HG Hi Hnc; [reflexivity|].
  apply Forall_cons_iff in Hi as (Hi & His). destruct Hnc as (Hc & Hrest).
  assert (Hcr : is_crash (snd (step s o)) = false) by (unfold is_crash; destruct (o_res (snd (step s o))); congruence).
  destruct (expand_runs s o Hcr) as (F & Ev & _ & Nc).
  destruct (expand_shape s o) as (Ed & Es & En & Hel & Himp & _).
  assert (HK0 : K (fst (expand s o))) by (apply (K_same s); [exact Ed|exact Es|lia|exact HK]).
  assert (HG0 : Gone (fst (expand s o)) i) by (destruct HG as (Ha & Hlt); split; [now rewrite Es|lia]).
  destruct (run_silent i _ _ HK0 HG0 Hel (Himp Hi) Nc) as (Hch & HGf).
  cbn [stream]. rewrite Ev, Hch. cbn [app]. apply IH; try assumption.
  - exact (proj1 (any_step s o HK Hi Hc)).
  - now rewrite F.
Qed.

(* an accepted unsubscribe leaves the channel of the subscription ownerless (its id must still map to its own
   pattern: known finding F24 otherwise) *)
Theorem unsubscribe_gone s sb :
  K s -> Registered s sb -> assoc_get id_eqb (s_client sb, s_tid sb) (subscriptions s) = Some (s_pat sb) ->
  Gone (fst (do_unsubscribe s (s_client sb) (s_tid sb))) (s_inst sb).
Proof.
  intros HK HR Hmap. pose proof HK as [HI HS HU HF].
  destruct (unsubscribe_removes s sb HS HU HR Hmap) as (_ & _ & Ha). split; [exact Ha|].
  assert (Hin : In sb (all_subs (subs s))) by (apply (all_subs_spec _ _ (proj1 HS)); now exists (s_pat sb)).
  specialize (HF sb Hin). unfold do_unsubscribe. rewrite Hmap. cbn [fst next_inst set_subs]. exact HF.
Qed.
