From WB Require Import Base.Str Base.StrFacts Base.Json Model.Key Model.Store Model.Match Model.Subs Model.Entry Model.Core
  Proofs.SubsFacts Proofs.MatchFacts.

Definition event_for (sb : subscriber) (key : str) (v : json) (deleted : bool) : event :=
  if s_pstate sb then (if deleted then EPDeleted [(key, v)] else EPValue [(key, v)])
  else (if deleted then EDeleted v else EValue v).

(* one accepted change: an event goes to exactly the registered subscribers whose position
   matches the key, minus unique subscribers when the value did not change *)
Theorem notify_spec s path key v changed deleted i ev :
  wfs (subs s) ->
  (In (i, ev) (notify s path key v changed deleted) <->
   exists sb P, In sb (subs_at (subs s) P) /\ sub_match P path = true /\
                (changed || negb (s_unique sb)) = true /\
                i = s_inst sb /\ ev = event_for sb key v deleted).
Proof.
  intros Hwf. unfold notify. rewrite in_map_iff. split.
  - intros (sb & E & Hin). apply filter_In in Hin as [Hin Hf].
    apply (add_matches_spec path (subs s) sb Hwf) in Hin as (P & HP & Hm).
    injection E as <- <-. exists sb, P. repeat split; try assumption.
  - intros (sb & P & HP & Hm & Hf & -> & ->). exists sb. split; [reflexivity|].
    apply filter_In. split; [|assumption].
    apply (add_matches_spec path (subs s) sb Hwf). now exists P.
Qed.

(* the subscriber-tree invariant: every subscriber sits at the position of its own pattern *)
Definition SInv (s : core) : Prop :=
  wfs (subs s) /\ forall P sb, In sb (subs_at (subs s) P) -> s_pat sb = P.

Lemma SInv_init : SInv init.
Proof.
  split; [cbn; split; [constructor|exact I]|].
  intros P sb H. destruct P; cbn in H; contradiction.
Qed.

Lemma SInv_add s sb m ni :
  SInv s -> SInv (set_subs s (add_subscriber (s_pat sb) sb (subs s)) m ni) /\
  (forall P x, In x (subs_at (add_subscriber (s_pat sb) sb (subs s)) P) <->
               In x (subs_at (subs s) P) \/ (x = sb /\ P = s_pat sb)).
Proof.
  intros [Hw Hp]. assert (G : forall P x, In x (subs_at (add_subscriber (s_pat sb) sb (subs s)) P) <->
               In x (subs_at (subs s) P) \/ (x = sb /\ P = s_pat sb)).
  { intros P x. rewrite subs_at_add. destruct (kpath_eqb_spec (s_pat sb) P) as [<-|Hn].
    - rewrite in_app_iff. cbn. intuition.
    - intuition congruence. }
  split; [|exact G]. split; cbn [subs set_subs].
  - now apply wfs_add.
  - intros P x Hin. apply G in Hin as [Hin|[-> ->]]; [now apply Hp|reflexivity].
Qed.

(* subscribe / psubscribe register exactly one new subscriber, at its pattern, with a fresh
   channel; the snapshot (unless live-only) is what get / pget return at that moment *)
Theorem psubscribe_spec s c t pattern unique live :
  SInv s ->
  let r := do_psubscribe s c t pattern unique live in
  match o_res (snd r) with
  | RSub inst =>
      inst = next_inst s /\ next_inst (fst r) = inst + 1 /\ SInv (fst r) /\
      (forall P x, In x (subs_at (subs (fst r)) P) <->
                   In x (subs_at (subs s) P) \/
                   (x = Subscriber c t inst (kseg_parse pattern) unique true /\ P = kseg_parse pattern)) /\
      data (fst r) = data s /\
      o_events (snd r) =
        (if live then []
         else match do_pget s pattern with Ok kvs => [(inst, EPValue kvs)] | Err _ => [] end)
  | RErr code => fst r = s /\ live = false /\ do_pget s pattern = Err code
  | _ => False
  end.
Proof.
  intros HS. unfold do_psubscribe. destruct live.
  - cbn [o_res snd fst]. set (sb := Subscriber c t (next_inst s) (kseg_parse pattern) unique true).
    destruct (SInv_add s sb (assoc_set id_eqb (c, t) (kseg_parse pattern) (subscriptions s)) (next_inst s + 1) HS) as [H1 H2].
    split; [reflexivity|]. split; [reflexivity|]. split; [exact H1|]. split; [exact H2|]. split; reflexivity.
  - destruct (do_pget s pattern) as [kvs|code] eqn:Ep.
    + cbn [o_res snd fst]. set (sb := Subscriber c t (next_inst s) (kseg_parse pattern) unique true).
      destruct (SInv_add s sb (assoc_set id_eqb (c, t) (kseg_parse pattern) (subscriptions s)) (next_inst s + 1) HS) as [H1 H2].
      split; [reflexivity|]. split; [reflexivity|]. split; [exact H1|]. split; [exact H2|]. split; reflexivity.
    + cbn. auto.
Qed.

(* a value-preserving write is flagged unchanged (and so reaches only non-unique subscribers) *)
Lemma decide_changed_plain c v force ex ch e' :
  decide (Some (Plain c)) (Plain v) force = DOk ex ch e' -> ch = negb (json_eqb c v).
Proof. cbn. now intros [= _ <- _]. Qed.
