(* C08 as a statement about states: whatever an ordinary client asks for -- with a literal key, or with a pattern whose
   first segment is literal -- every value under $SYS other than that client's own graveGoods / lastWill / clientName
   entries reads afterwards as before.  (A pattern whose first segment is a wildcard is known finding F4; publish changes
   no state, what it shows subscribers is F5.) *)
From Coq Require Import Lia List.
Import ListNotations.
From WB Require Import Base.Str Base.StrFacts Base.Json Model.Key Model.Consts Model.Store Model.Match Model.Subs Model.Entry Model.Core
  Model.Rest Spec.MapSpec
  Proofs.StoreFacts Proofs.TreeInv Proofs.GoodNames Proofs.SubsFacts Proofs.CoreFacts Proofs.LenFacts Proofs.C01Proof Proofs.C03Proof Proofs.StreamProof Proofs.SysGuard Proofs.RestFacts.
Local Open Scope N_scope.

(* the entries under $SYS a client may write: $SYS/clients/<own id>/{graveGoods,lastWill,clientName}[/...] *)
Definition own_entry (c : cid) (q : list str) : Prop :=
  exists p3 more, q = s_clients :: client_str c :: p3 :: more /\ (p3 = s_graveGoods \/ p3 = s_lastWill \/ p3 = s_clientName).

(* requests of client c: a literal first segment wherever a pattern is given *)
Definition literal_first (pat : str) : Prop := match kseg_parse pat with Reg _ :: _ => True | _ => False end.
Definition client_req (c : cid) (o : op) : Prop :=
  match o with
  | OSet c' _ _ _ | OCSet c' _ _ _ _ | ODelete c' _ => c' = c
  | OPDelete c' pat => c' = c /\ literal_first pat
  | OImport _ => import_ok o
  | OConnected _ | ODisconnected _ => False
  | _ => True
  end.

Lemma accepted_sys_key c k q :
  c <> 0 -> check_read_only k c = None -> split slash k = s_SYS :: q -> own_entry c q.
Proof.
  intros Hc Hg Hs. assert (Hk : k <> []) by (intros ->; discriminate).
  pose proof (guard_literal k c Hc Hk) as G. rewrite Hs in G. rewrite str_eqb_refl in G. destruct G as (G & _). exact (proj1 G Hg).
Qed.

Lemma insert_keeps_sys s c k e f q :
  Inv s -> c <> 0 -> ~ own_entry c q -> abs (fst (do_insert s c k e f)) (s_SYS :: q) = abs s (s_SYS :: q).
Proof.
  intros HI Hc Hno. pose proof (do_insert_effect s c k e f HI) as H. cbv zeta in H.
  destruct (o_res (snd (do_insert s c k e f))) eqn:Er; try contradiction; try (now rewrite H).
  destruct H as (p & ex & ch & e' & Hp & _ & _ & Hm). rewrite Hm. unfold m_set.
  destruct (path_eqb_spec p (s_SYS :: q)) as [->|]; [|reflexivity]. exfalso. apply Hno.
  apply (accepted_sys_key c k q Hc).
  - unfold do_insert in Er. destruct (check_read_only k c); [discriminate|reflexivity].
  - now apply parse_segments_good in Hp as (<- & _).
Qed.

Lemma delete_keeps_sys s c k q :
  Inv s -> c <> 0 -> ~ own_entry c q -> abs (fst (do_delete s c k)) (s_SYS :: q) = abs s (s_SYS :: q).
Proof.
  intros HI Hc Hno. pose proof (do_delete_effect s c k HI) as H. cbv zeta in H.
  destruct (o_res (snd (do_delete s c k))) eqn:Er; try contradiction.
  - destruct H as (p & e & Hp & _ & _ & _ & Hm). rewrite Hm. unfold m_del.
    destruct (path_eqb_spec p (s_SYS :: q)) as [->|]; [|reflexivity]. exfalso. apply Hno.
    apply (accepted_sys_key c k q Hc).
    + unfold do_delete in Er. destruct (check_read_only k c); [discriminate|reflexivity].
    + now apply parse_segments_good in Hp as (<- & _).
  - destruct H as (_ & Hm). now rewrite Hm.
Qed.

(* a literal segment of a pattern matches only itself *)
Lemma kseg_reg_str x s : kseg_of_str x = Reg s -> s = x.
Proof. unfold kseg_of_str. destruct (str_eqb x [ch_qmark]); [discriminate|]. destruct (str_eqb x [ch_hash]); [discriminate|]. now intros [= <-]. Qed.

Lemma pdelete_keeps_sys s c pat q :
  Inv s -> c <> 0 -> literal_first pat -> ~ own_entry c q ->
  abs (fst (do_pdelete s c false pat)) (s_SYS :: q) = abs s (s_SYS :: q).
Proof.
  intros HI Hc Hlit Hno. pose proof (do_pdelete_effect s c pat HI) as H. cbv zeta in H.
  destruct (o_res (snd (do_pdelete s c false pat))) eqn:Er; try contradiction; [|now rewrite H].
  destruct H as (_ & Hm & _). rewrite Hm. unfold m_pdel.
  destruct (store_match (kseg_parse pat) (s_SYS :: q)) eqn:Em; [|reflexivity]. exfalso. apply Hno.
  assert (Hg : check_read_only pat c = None) by (unfold do_pdelete in Er; destruct (check_read_only pat c); [discriminate|reflexivity]).
  unfold literal_first, kseg_parse in *. destruct (split slash pat) as [|x0 rest] eqn:Es; [contradiction|].
  cbn [map] in Hlit, Em. destruct (kseg_of_str x0) as [x|  |] eqn:E0; try contradiction.
  cbn [store_match] in Em. apply andb_prop in Em as (E1 & Em). apply str_eqb_eq in E1. subst x. apply kseg_reg_str in E0. subst x0.
  destruct (accepted_sys_key c pat rest Hc Hg Es) as (p3 & more & -> & Hp3).
  (* the pattern is $SYS/clients/<id>/<p3>/..: what it matches starts the same way *)
  cbn [map] in Em.
  assert (K1 : kseg_of_str s_clients = Reg s_clients) by reflexivity.
  assert (K2 : kseg_of_str (client_str c) = Reg (client_str c)).
  { unfold client_str. destruct (N.eqb c 0); [reflexivity|]. unfold uuid_prefix. cbn [app]. reflexivity. }
  assert (K3 : kseg_of_str p3 = Reg p3) by (destruct Hp3 as [->|[->| ->]]; reflexivity).
  rewrite K1, K2, K3 in Em.
  destruct q as [|q1 [|q2 [|q3 q']]]; cbn [store_match] in Em; try discriminate;
    try (apply andb_prop in Em as (_ & Em); discriminate);
    try (apply andb_prop in Em as (_ & Em); apply andb_prop in Em as (_ & Em); discriminate).
  apply andb_prop in Em as (E1 & Em). apply andb_prop in Em as (E2 & Em). apply andb_prop in Em as (E3 & _).
  apply str_eqb_eq in E1, E2, E3. subst q1 q2 q3. exists p3, q'. split; [reflexivity|exact Hp3].
Qed.

(* ---- any request of a client ---- *)
Theorem client_keeps_sys s c o q :
  Inv s -> c <> 0 -> client_req c o -> ~ own_entry c q ->
  abs (fst (step s o)) (s_SYS :: q) = abs s (s_SYS :: q).
Proof.
  intros HI Hc Hreq Hno.
  assert (Hother : other_op o -> abs (fst (step s o)) (s_SYS :: q) = abs s (s_SYS :: q)).
  { intros Ho. unfold abs. now rewrite (other_data_same s o Ho). }
  destruct o; cbn [client_req] in Hreq; try contradiction; try (apply Hother; exact I); try reflexivity; cbn [step].
  - subst c0. now apply insert_keeps_sys.
  - subst c0. now apply insert_keeps_sys.
  - subst c0. now apply delete_keeps_sys.
  - destruct Hreq as (-> & Hlit). now apply pdelete_keeps_sys.
  - now apply import_keeps_sys.
Qed.

(* ... along every history of requests of any number of clients: a value under $SYS that is nobody's own entry is never
   touched *)
Fixpoint client_hist (os : list (cid * op)) : Prop :=
  match os with [] => True | (c, o) :: r => c <> 0 /\ client_req c o /\ client_hist r end.

Theorem clients_keep_sys os : forall s q,
  Inv s -> LenInv s -> client_hist os -> no_crash_run s (map snd os) ->
  (forall c, In c (map fst os) -> ~ own_entry c q) ->
  abs (final s (map snd os)) (s_SYS :: q) = abs s (s_SYS :: q).
Proof.
  induction os as [|[c o] os IH]; intros s q HI HL Hh Hnc Hno; [reflexivity|].
  destruct Hh as (Hc & Hreq & Hh). cbn [map snd no_crash_run] in Hnc. destruct Hnc as (Hnc & Hrest).
  cbn [map snd]. change (final s (o :: map snd os)) with (final (fst (step s o)) (map snd os)).
  assert (Hany : any_req o) by (destruct o; cbn [client_req] in Hreq; try contradiction; unfold any_req; cbn; tauto).
  assert (Himp : import_ok o) by (destruct o; try exact I; exact Hreq).
  destruct (step_refines_any s o HI HL Hany Himp Hnc) as (HI' & HL' & _).
  rewrite (IH (fst (step s o)) q HI' HL' Hh Hrest) by (intros c' Hin; apply Hno; now right).
  apply (client_keeps_sys s c o q HI Hc Hreq). apply Hno. now left.
Qed.

Example own_entry_demo : own_entry 1 [s_clients; client_str 1; s_graveGoods] /\ ~ own_entry 1 [s_clients; client_str 2; s_graveGoods] /\ ~ own_entry 1 [[118]].
Proof.
  split; [exists s_graveGoods, []; auto|]. split; intros (p3 & more & E & _); discriminate.
Qed.

Example clients_keep_sys_demo :
  let s0 := fst (step init (OSet 0 [36;83;89;83;47;118] (JStr [120]) true)) in          (* $SYS/v = "x", set by the server *)
  let os := [(1, OSet 1 [36;83;89;83;47;118] (JStr [101]) false); (1, ODelete 1 [36;83;89;83;47;118]); (2, OPDelete 2 [36;83;89;83;47;35]);
             (1, OSet 1 (topic [s_SYS; s_clients; client_str 1; s_graveGoods]) (JArr []) false); (2, OSet 2 [97] JNull false)] in
  (client_hist os /\ no_crash_run s0 (map snd os)) /\
  abs (final s0 (map snd os)) [s_SYS; [118]] = Some (Plain (JStr [120])) /\
  abs (final s0 (map snd os)) [s_SYS; s_clients; client_str 1; s_graveGoods] = Some (Plain (JArr [])).
Proof.
  split; [split|].
  - cbn [client_hist]. repeat split; try discriminate; try exact I.
  - vm_compute. repeat split; discriminate.
  - vm_compute. split; reflexivity.
Qed.

(* ---- "... or through its grave goods and last will": the end of a session ---- *)
From WB Require Import Proofs.C07Proof Proofs.LockHistory Proofs.SessionEnd Proofs.SyncFacts.

(* the requests that leave the path $SYS/q alone *)
Definition leaves (q : list str) (o : op) : Prop :=
  match o with
  | OSet 0 k _ _ => parse_segments k <> Ok (s_SYS :: q)
  | OPDelete 0 pat => store_match (kseg_parse pat) (s_SYS :: q) = false
  | OUnsubscribe _ _ | OUnsubscribeLs _ _ => True
  | _ => exists c, c <> 0 /\ client_req c o /\ ~ own_entry c q
  end.

Lemma leaves_step s o q :
  Inv s -> LenInv s -> leaves q o -> o_res (snd (step s o)) <> RCrash ->
  abs (fst (step s o)) (s_SYS :: q) = abs s (s_SYS :: q).
Proof.
  intros HI HL Hl Hnc.
  assert (Hcl : (exists c, c <> 0 /\ client_req c o /\ ~ own_entry c q) -> abs (fst (step s o)) (s_SYS :: q) = abs s (s_SYS :: q)).
  { intros (c & Hc & Hreq & Hno). now apply (client_keeps_sys s c o q). }
  destruct o; cbn [leaves] in Hl; try (now apply Hcl).
  - (* set *) destruct c as [|pc]; [|now apply Hcl]. cbn [step] in *.
    destruct (do_insert_only_path s 0 k (Plain v) force HI Hnc) as (_ & [Hm|(p & e' & Hp & Hm)]); rewrite Hm; [reflexivity|].
    unfold m_set. destruct (path_eqb_spec p (s_SYS :: q)) as [->|]; [contradiction|reflexivity].
  - (* pdelete *) destruct c as [|pc]; [|now apply Hcl]. cbn [step] in *.
    pose proof (do_pdelete_effect s 0 p HI) as H. cbv zeta in H. destruct (o_res (snd (do_pdelete s 0 false p))); try contradiction; [|now rewrite H].
    destruct H as (_ & Hm & _). rewrite Hm. unfold m_pdel. now rewrite Hl.
  - unfold abs. now rewrite (other_data_same s (OUnsubscribe c t) I).
  - unfold abs. now rewrite (other_data_same s (OUnsubscribeLs c t) I).
Qed.

Lemma leaves_any q o : leaves q o -> any_req o /\ import_ok o.
Proof.
  intros Hl.
  assert (G : (exists c, c <> 0 /\ client_req c o /\ ~ own_entry c q) -> any_req o /\ import_ok o).
  { intros (c & _ & Hreq & _). destruct o; cbn [client_req] in Hreq; try contradiction; (split; [unfold any_req; cbn; tauto|]); try exact I; exact Hreq. }
  destruct o; cbn [leaves] in Hl; try (now apply G); try (split; [unfold any_req; cbn; tauto|exact I]).
Qed.

Lemma leaves_run q ops : forall s,
  Inv s -> LenInv s -> Forall (leaves q) ops -> nocrash (trace s ops) -> abs (final s ops) (s_SYS :: q) = abs s (s_SYS :: q).
Proof.
  induction ops as [|o ops IH]; intros s HI HL Hl Hnc; [reflexivity|]. apply Forall_cons_iff in Hl as (Hl & Hls).
  assert (Hc : o_res (snd (step s o)) <> RCrash).
  { assert (H : is_crash (snd (step s o)) = false) by (apply Hnc; now left). unfold is_crash in H. destruct (o_res (snd (step s o))); congruence. }
  destruct (leaves_any q o Hl) as (Hany & Himp). destruct (step_refines_any s o HI HL Hany Himp Hc) as (HI' & HL' & _).
  change (final s (o :: ops)) with (final (fst (step s o)) ops).
  rewrite (IH _ HI' HL' Hls) by (intros x Hx; apply Hnc; now right). now apply leaves_step.
Qed.

Lemma hexdig_no_slash' a : hexdig a <> slash.
Proof. unfold hexdig, slash. destruct (N.ltb a 10); lia. Qed.
Lemma client_str_nosep' c : no_sep slash (client_str c).
Proof.
  unfold client_str, no_sep. destruct (N.eqb c 0).
  - unfold uuid_nil, slash. cbn [In]. intros H. repeat (destruct H as [H|H]; [discriminate|]). exact H.
  - intros H. apply in_app_or in H as [H|H].
    + unfold uuid_prefix, slash in H. cbn [In] in H. repeat (destruct H as [H|H]; [discriminate|]). exact H.
    + destruct H as [H|[H|[]]]; now apply hexdig_no_slash' in H.
Qed.

(* a session ends: apart from the server's own bookkeeping -- the client count $SYS/clients and the subtree
   $SYS/clients/<id> of the ending client -- every value under $SYS reads afterwards as before, whatever grave goods
   (with a literal first segment) and last wills the client had registered *)
Theorem session_end_keeps_sys s c q :
  Inv s -> LenInv s -> Forall literal_first (gg_of s c) ->
  is_crash (snd (do_disconnected s c)) = false ->
  q <> [s_clients] -> (forall r, q <> s_clients :: client_str c :: r) ->
  abs (fst (do_disconnected s c)) (s_SYS :: q) = abs s (s_SYS :: q).
Proof.
  intros HI HL Hlit Hnc Hq1 Hq2.
  assert (H0 : N.eqb c 0 = false) by (destruct (N.eqb c 0) eqn:E; [unfold do_disconnected in Hnc; rewrite E in Hnc; discriminate|reflexivity]).
  assert (Hc0 : c <> 0) by now apply N.eqb_neq.
  destruct (disconnected_is_run s c H0 Hnc) as (F & _ & _ & Nc). rewrite F.
  destruct (prep_same s c) as (Ed & El & _).
  assert (Ea : abs (prep s c) = abs s) by (unfold abs; now rewrite Ed). rewrite <- Ea.
  assert (Hno : ~ own_entry c q) by (intros (p3 & more & E & _); exact (Hq2 _ E)).
  apply leaves_run; [unfold Inv in *; now rewrite Ed|unfold LenInv in *; now rewrite Ed, El| |exact Nc].
  unfold end_ops. apply Forall_forall. intros o Hin.
  repeat (apply in_app_iff in Hin as [Hin|Hin]); try (apply in_map_iff in Hin as (x & <- & Hx)); try (destruct Hin as [<-|[]]); cbn [leaves]; try exact I.
  - (* the client count *)
    intros Hp. apply parse_segments_good in Hp as (Hp & _). vm_compute in Hp. injection Hp as Hp. now elim Hq1.
  - (* the server removes the client's subtree *)
    destruct (store_match _ _) eqn:Em; [|reflexivity]. exfalso.
    unfold kseg_parse, topic in Em. rewrite split_join in Em.
    2:{ discriminate. }
    2:{ repeat (apply Forall_cons; [|]); try apply Forall_nil; try apply client_str_nosep';
          unfold no_sep, s_SYS, s_clients, s_hash, slash; cbn [In]; intros H; repeat (destruct H as [H|H]; [discriminate|]); exact H. }
    cbn [map] in Em.
    assert (K2 : kseg_of_str (client_str c) = Reg (client_str c)).
    { unfold client_str. destruct (N.eqb c 0); [reflexivity|]. unfold uuid_prefix. cbn [app]. reflexivity. }
    change (kseg_of_str s_SYS) with (Reg s_SYS) in Em. change (kseg_of_str s_clients) with (Reg s_clients) in Em. rewrite K2 in Em.
    cbn [store_match] in Em. apply andb_prop in Em as (_ & Em).
    destruct q as [|q1 [|q2 r]]; try discriminate.
    + apply andb_prop in Em as (_ & Em). discriminate.
    + apply andb_prop in Em as (E1 & Em). apply andb_prop in Em as (E2 & _). apply str_eqb_eq in E1, E2. subst. now elim (Hq2 r).
  - (* a grave good *)
    destruct c as [|pc]; [now elim Hc0|]. exists (N.pos pc). split; [exact Hc0|]. split; [|exact Hno]. cbn [client_req]. split; [reflexivity|]. rewrite Forall_forall in Hlit. now apply Hlit.
  - (* a last-will entry *)
    destruct c as [|pc]; [now elim Hc0|]. exists (N.pos pc). split; [exact Hc0|]. split; [reflexivity|exact Hno].
Qed.
