(* The session layer runs the core one request at a time: every event of a world (a line on a socket, a connection
   opening or closing) runs at most one core request, and what it puts on the wires beyond the terminal answer is the
   routed traffic of that request.  With C06_confirm_once: a waiting acquire is answered at most once, by an Ack or by
   LockAcquisitionCancelled, never both. *)
From Coq Require Import Lia List.
Import ListNotations.
From WB Require Import Base.Str Base.StrFacts Base.Json Model.Key Model.Consts Model.Store Model.Match Model.Subs Model.Entry Model.Core
  Model.CodecConsts Model.Codec Model.Auth Model.Session Spec.MapSpec
  Proofs.StoreFacts Proofs.TreeInv Proofs.GoodNames Proofs.CoreFacts Proofs.SessionFacts Proofs.LockHistory.
Local Open Scope N_scope.

(* the core request an event runs, if any *)
Definition core_op (w : world) (e : sevent) : option op :=
  match e with
  | SOpen sn => Some (OConnected (cid_of sn))
  | SClose sn => match lookup_n sn (w_sess w) with Some s => if ss_open s then Some (ODisconnected (cid_of sn)) else None | None => None end
  | SGarbage sn => if sess_open w sn then Some (ODisconnected (cid_of sn)) else None
  | SAuth sn cl =>
      if sess_open w sn then
        match lookup_n sn (w_sess w) with
        | Some s => match ss_claims s, cl with None, Some _ => None | _, _ => Some (ODisconnected (cid_of sn)) end
        | None => None
        end
      else None
  | SMsg sn m =>
      if sess_open w sn then
        match lookup_n sn (w_sess w) with
        | None => None
        | Some s =>
            match m with
            | MProtocolSwitchRequest v => if N.leb v 1 then None else Some (ODisconnected (cid_of sn))
            | MAuthorizationRequest _ => Some (ODisconnected (cid_of sn))
            | _ =>
                if (N.eqb (ss_proto s) 0 && v1_only m) || (match m with MTransform _ _ _ => true | _ => false end) then None
                else
                  let denied :=
                    if w_auth_required w then
                      match auth_requirement m with
                      | None => Some false
                      | Some (p, pat) => match ss_claims s with None => None | Some cl => Some (negb (authorize cl p pat)) end
                      end
                    else Some false in
                  match denied with
                  | None => Some (ODisconnected (cid_of sn))
                  | Some true => None
                  | Some false => op_of (cid_of sn) m
                  end
            end
        end
      else None
  end.

Definition ops_of (w : world) (e : sevent) : list op := match core_op w e with Some o => [o] | None => [] end.

Lemma sess_open_lookup w sn : sess_open w sn = true -> exists s, lookup_n sn (w_sess w) = Some s /\ ss_open s = true.
Proof. unfold sess_open. destruct (lookup_n sn (w_sess w)) as [s|]; [eauto|discriminate]. Qed.

Lemma close_core w sn s : lookup_n sn (w_sess w) = Some s -> ss_open s = true ->
  w_core (fst (close_session w sn)) = fst (step (w_core w) (ODisconnected (cid_of sn))).
Proof.
  intros Hl Ho. unfold close_session. rewrite Hl, Ho. cbn [w_core].
  destruct (step (w_core w) (ODisconnected (cid_of sn))) as [core' out]. reflexivity.
Qed.

Lemma close_core' w sn s (pre : list (N * smsg)) : lookup_n sn (w_sess w) = Some s -> ss_open s = true ->
  w_core (fst (let '(w2, out2) := close_session w sn in (w2, pre ++ out2))) = fst (step (w_core w) (ODisconnected (cid_of sn))).
Proof. intros Hl Ho. rewrite <- (close_core w sn s Hl Ho). now destruct (close_session w sn). Qed.

(* the core of the world after the event is the core after that request *)
Theorem sstep_core w e : w_core (fst (sstep w e)) = final (w_core w) (ops_of w e).
Proof.
  unfold ops_of, final. destruct e as [sn|sn m|sn cl|sn|sn]; cbn [sstep core_op].
  - unfold open_session. destruct (step (w_core w) (OConnected (cid_of sn))) as [core' out] eqn:E. cbn [fst w_core fold_left]. now rewrite E.
  - destruct (sess_open w sn) eqn:Eo; [|reflexivity].
    destruct (sess_open_lookup w sn Eo) as (s & Hl & Hop). rewrite Hl. unfold handle. rewrite Hl.
    destruct m;
      try (match goal with |- context [(N.eqb (ss_proto s) 0 && v1_only ?mm) || ?tr] => destruct ((N.eqb (ss_proto s) 0 && v1_only mm) || tr)%bool end;
           [reflexivity|];
           match goal with |- context [if w_auth_required w then ?a else ?b] => destruct (if w_auth_required w then a else b) as [[|]|] end;
           [reflexivity| |cbn [fold_left]; exact (close_core' w sn s [] Hl Hop)];
           cbn [op_of]; match goal with |- context [step (w_core w) ?o] => destruct (step (w_core w) o) as [core' out] eqn:E end;
           cbn [fst w_core fold_left]; now rewrite E).
    + (* protocol switch *)
      destruct (N.leb version 1); cbn [fst w_core fold_left]; [reflexivity|]. exact (close_core' w sn s [] Hl Hop).
    + cbn [fold_left]. exact (close_core' w sn s [] Hl Hop).
    + (* transform: not implemented *)
      rewrite Bool.orb_true_r. reflexivity.
  - destruct (sess_open w sn) eqn:Eo; [|reflexivity].
    destruct (sess_open_lookup w sn Eo) as (s & Hl & Hop). rewrite Hl. unfold authorize_session. rewrite Hl.
    destruct (ss_claims s) as [c0|]; [cbn [fold_left]; exact (close_core' w sn s [] Hl Hop)|].
    destruct cl as [c1|]; cbn [fst w_core fold_left]; [reflexivity|]. exact (close_core' w sn s _ Hl Hop).
  - destruct (sess_open w sn) eqn:Eo; [|reflexivity].
    destruct (sess_open_lookup w sn Eo) as (s & Hl & Hop). cbn [fold_left]. now rewrite (close_core w sn s Hl Hop).
  - destruct (lookup_n sn (w_sess w)) as [s|] eqn:Hl.
    + destruct (ss_open s) eqn:Hop; cbn [fold_left]; [now rewrite (close_core w sn s Hl Hop)|]. unfold close_session. now rewrite Hl, Hop.
    + unfold close_session. now rewrite Hl.
Qed.

(* ---- histories of events ---- *)
Definition wfinal (w : world) (es : list sevent) : world := fold_left (fun w e => fst (sstep w e)) es w.
Fixpoint ops_hist (w : world) (es : list sevent) : list op :=
  match es with [] => [] | e :: r => ops_of w e ++ ops_hist (fst (sstep w e)) r end.

Theorem world_core es : forall w, w_core (wfinal w es) = final (w_core w) (ops_hist w es).
Proof.
  induction es as [|e es IH]; intros w; [reflexivity|]. cbn [wfinal fold_left ops_hist]. fold (wfinal (fst (sstep w e)) es).
  rewrite IH, sstep_core. unfold final. now rewrite fold_left_app.
Qed.

(* which core requests a world can run: those of connected clients (never the internal id), no import *)
Definition session_op (o : op) : Prop :=
  match o with
  | OConnected c | ODisconnected c => c <> 0
  | OImport _ => False
  | _ => True
  end.

Lemma core_op_session w e o : core_op w e = Some o -> session_op o.
Proof.
  assert (Hc : forall sn, cid_of sn <> 0) by (intros sn; unfold cid_of; lia).
  destruct e as [sn|sn m|sn cl|sn|sn]; cbn [core_op].
  - intros [= <-]. apply Hc.
  - destruct (sess_open w sn); [|discriminate]. destruct (lookup_n sn (w_sess w)) as [s|]; [|discriminate].
    destruct m; try (intros [= <-]; apply Hc);
      try (destruct (_ || _)%bool; [discriminate|];
           match goal with |- context [if w_auth_required w then ?a else ?b] => destruct (if w_auth_required w then a else b) as [[|]|] end;
           [discriminate| |intros [= <-]; apply Hc]; cbn [op_of]; intros [= <-]; exact I).
    destruct (N.leb version 1); [discriminate|]. intros [= <-]. apply Hc.
  - destruct (sess_open w sn); [|discriminate]. destruct (lookup_n sn (w_sess w)) as [s|]; [|discriminate].
    destruct (ss_claims s), cl; try discriminate; intros [= <-]; apply Hc.
  - destruct (sess_open w sn); [|discriminate]. intros [= <-]. apply Hc.
  - destruct (lookup_n sn (w_sess w)) as [s|]; [|discriminate]. destruct (ss_open s); [|discriminate]. intros [= <-]. apply Hc.
Qed.

Theorem ops_hist_session es : forall w, Forall session_op (ops_hist w es).
Proof.
  induction es as [|e es IH]; intros w; [constructor|]. cbn [ops_hist]. apply Forall_app. split; [|apply IH].
  unfold ops_of. destruct (core_op w e) as [o|] eqn:E; [|constructor]. constructor; [|constructor]. exact (core_op_session w e o E).
Qed.

(* ---- C17 at the level of the sockets: no sequence of lines, connections and disconnections crashes the core ---- *)
From WB Require Import Proofs.LenFacts Proofs.C01Proof Proofs.NoCrash.

Definition ev_ok (e : sevent) : Prop := match e with SMsg _ (MCSet _ _ _ ver) => ver <> u64_max | _ => True end.

Lemma core_op_safe w e o : ev_ok e -> core_op w e = Some o -> safe_op o.
Proof.
  intros Hev Hc. pose proof (core_op_session w e o Hc) as Hs.
  assert (Himp : import_ok o) by (destruct o; try exact I; contradiction).
  split; [|exact Himp]. destruct o; try exact I; try exact Hs.
  (* a cset comes from a cSet message with that version *)
  destruct e as [sn|sn m|sn cl|sn|sn]; cbn [core_op] in Hc; try discriminate.
  - destruct (sess_open w sn); [|discriminate]. destruct (lookup_n sn (w_sess w)) as [s|]; [|discriminate].
    destruct m; try discriminate;
      try (destruct (_ || _)%bool; [discriminate|];
           match type of Hc with context [if w_auth_required w then ?a else ?b] => destruct (if w_auth_required w then a else b) as [[|]|] end;
           try discriminate; cbn [op_of] in Hc; try discriminate; injection Hc as <- <- <- <- <-; exact Hev).
    destruct (N.leb version 1); discriminate.
  - destruct (sess_open w sn); [|discriminate]. destruct (lookup_n sn (w_sess w)) as [s|]; [|discriminate].
    destruct (ss_claims s), cl; discriminate.
  - destruct (sess_open w sn); discriminate.
  - destruct (lookup_n sn (w_sess w)) as [s|]; [|discriminate]. destruct (ss_open s); discriminate.
Qed.

Theorem ops_hist_safe es : forall w, Forall ev_ok es -> Forall safe_op (ops_hist w es).
Proof.
  induction es as [|e es IH]; intros w Hev; [constructor|]. apply Forall_cons_iff in Hev as (He & Hes).
  cbn [ops_hist]. apply Forall_app. split; [|now apply IH].
  unfold ops_of. destruct (core_op w e) as [o|] eqn:E; [|constructor]. constructor; [|constructor]. exact (core_op_safe w e o He E).
Qed.

(* whatever arrives on whatever sockets, in whatever order -- requests of every kind of both protocol versions, with or
   without authorization, garbage, connections opening and closing --: no core request crashes and the store's
   invariant holds afterwards (the version overflow of F17 excluded by hypothesis) *)
Theorem world_never_crashes auth es :
  Forall ev_ok es ->
  nocrash (trace init (ops_hist (world_init auth) es)) /\ Inv (w_core (wfinal (world_init auth) es)).
Proof.
  intros Hev. rewrite world_core. cbn [world_init w_core].
  exact (history_safe _ init Inv_init LH_init (ops_hist_safe es (world_init auth) Hev)).
Qed.
