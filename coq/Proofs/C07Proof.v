(* Session end: what remains registered for the client afterwards. *)
From WB Require Import Base.Str Base.StrFacts Base.Json Model.Key Model.Consts Model.Store Model.Match Model.Subs Model.Entry Model.Core.

(* the bookkeeping tables other than the data tree and the subscriber tree *)
Ltac crush_op :=
  repeat match goal with
         | |- context [match ?x with _ => _ end] => destruct x eqn:?
         | |- context [if ?x then _ else _] => destruct x eqn:?
         end; try reflexivity.

Lemma insert_tables s c k e f :
  let s' := fst (do_insert s c k e f) in
  spub_keys s' = spub_keys s /\ subscriptions s' = subscriptions s /\ ls_subscriptions s' = ls_subscriptions s /\
  locked_keys s' = locked_keys s /\ clients s' = clients s.
Proof. unfold do_insert. crush_op; cbn; auto. Qed.

Lemma pdelete_tables s c sk p :
  let s' := fst (do_pdelete s c sk p) in
  spub_keys s' = spub_keys s /\ subscriptions s' = subscriptions s /\ ls_subscriptions s' = ls_subscriptions s /\
  locked_keys s' = locked_keys s /\ clients s' = clients s.
Proof. unfold do_pdelete. crush_op; cbn; auto. Qed.

Lemma unsubscribe_tables s c t :
  let s' := fst (do_unsubscribe s c t) in
  spub_keys s' = spub_keys s /\ ls_subscriptions s' = ls_subscriptions s /\
  locked_keys s' = locked_keys s /\ clients s' = clients s /\
  subscriptions s' = assoc_del id_eqb (c, t) (subscriptions s).
Proof.
  unfold do_unsubscribe. destruct (assoc_get id_eqb (c, t) (subscriptions s)) eqn:E; cbn; repeat split; try reflexivity.
  (* nothing registered under that id: assoc_del removes nothing *)
  induction (subscriptions s) as [|[k v] l IH]; [reflexivity|]. cbn in *.
  destruct (id_eqb (c, t) k) eqn:Ek; [discriminate|]. cbn. f_equal. now apply IH.
Qed.

Lemma unsubscribe_ls_tables s c t :
  let s' := fst (do_unsubscribe_ls s c t) in
  spub_keys s' = spub_keys s /\ subscriptions s' = subscriptions s /\
  locked_keys s' = locked_keys s /\ clients s' = clients s /\
  ls_subscriptions s' = assoc_del id_eqb (c, t) (ls_subscriptions s).
Proof.
  unfold do_unsubscribe_ls. destruct (assoc_get id_eqb (c, t) (ls_subscriptions s)) eqn:E; cbn; repeat split; try reflexivity.
  induction (ls_subscriptions s) as [|[k v] l IH]; [reflexivity|]. cbn in *.
  destruct (id_eqb (c, t) k) eqn:Ek; [discriminate|]. cbn. f_equal. now apply IH.
Qed.

(* a table property that every sub-step preserves is preserved by sequencing *)
Lemma seq2_preserves (Q : core -> Prop) r1 f :
  Q (fst r1) -> (forall s, Q s -> Q (fst (f s))) -> Q (fst (seq2 r1 f)).
Proof. intros H1 Hf. unfold seq2. destruct (is_crash (snd r1)); [assumption|]. cbn. now apply Hf. Qed.

Lemma iter_ops_preserves {A} (Q : core -> Prop) (f : core -> A -> core * output) l :
  (forall s x, Q s -> Q (fst (f s x))) -> forall s, Q s -> Q (fst (iter_ops f l s)).
Proof.
  intros Hf. induction l as [|x l IH]; intros s Hs; [exact Hs|].
  cbn [iter_ops]. apply seq2_preserves; [now apply Hf|exact IH].
Qed.

Definition no_id_of {V} (c : N) (l : list ((N * N) * V)) : Prop := forall id v, In (id, v) l -> fst id <> c.

Lemma no_id_assoc_del {V} c (l : list ((N * N) * V)) id : no_id_of c l -> no_id_of c (assoc_del id_eqb id l).
Proof. intros H id' v Hin. apply filter_In in Hin as [Hin _]. exact (H id' v Hin). Qed.

(* unsubscribing every id of c that is in the table leaves no id of c in it *)
Lemma del_all_ids {V} c (ids : list (N * N)) : forall (l : list ((N * N) * V)),
  (forall id v, In (id, v) l -> fst id = c -> In id ids) ->
  no_id_of c (fold_left (fun l id => assoc_del id_eqb id l) ids l).
Proof.
  induction ids as [|i ids IH]; intros l H.
  - cbn. intros id v Hin Hc. exact (H id v Hin Hc).
  - cbn [fold_left]. apply IH. intros id v Hin Hc.
    apply filter_In in Hin as [Hin Hne]. cbn [fst] in Hne.
    destruct (H id v Hin Hc) as [<-|Hi]; [|assumption].
    exfalso. unfold id_eqb in Hne. rewrite !N.eqb_refl in Hne. discriminate.
Qed.

(* the spub streams of a client do not survive its session *)
Theorem disconnected_drops_spub s c :
  o_res (snd (do_disconnected s c)) <> RCrash ->
  forall id k, In (id, k) (spub_keys (fst (do_disconnected s c))) -> fst id <> c.
Proof.
  intros Hnc. unfold do_disconnected in *.
  destruct (N.eqb c 0); [cbn in Hnc; congruence|].
  destruct (match assoc_get N.eqb c (locked_keys (set_spub s (filter (fun kv => negb (N.eqb (fst (fst kv)) c)) (spub_keys s)))) with
            | Some paths => unlock_paths (locks (set_spub s (filter (fun kv => negb (N.eqb (fst (fst kv)) c)) (spub_keys s)))) c paths
            | None => (locks (set_spub s (filter (fun kv => negb (N.eqb (fst (fst kv)) c)) (spub_keys s))), [], [], false)
            end) as [[[l' granted] cancelled] crash] eqn:Eu.
  destruct crash; [cbn in Hnc; congruence|].
  cbn [fst].
  set (Q := fun s' : core => forall id k, In (id, k) (spub_keys s') -> fst id <> c).
  match goal with |- forall id k, In (id, k) (spub_keys (fst ?X)) -> _ => change (Q (fst X)) end.
  assert (Hins : forall s0 cl k e f, Q s0 -> Q (fst (do_insert s0 cl k e f))).
  { intros s0 cl k e f H. unfold Q. now rewrite (proj1 (insert_tables s0 cl k e f)). }
  assert (Hpd : forall s0 cl sk p, Q s0 -> Q (fst (do_pdelete s0 cl sk p))).
  { intros s0 cl sk p H. unfold Q. now rewrite (proj1 (pdelete_tables s0 cl sk p)). }
  apply seq2_preserves.
  - apply Hins. unfold Q. cbn. intros id k Hin. apply filter_In in Hin as [_ Hne]. cbn in Hne.
    apply negb_true_iff, N.eqb_neq in Hne. exact Hne.
  - intros s1 H1. apply seq2_preserves.
    + apply iter_ops_preserves; [|assumption]. intros s2 x H2. unfold Q.
      now rewrite (proj1 (unsubscribe_tables s2 (fst x) (snd x))).
    + intros s2 H2. apply seq2_preserves.
      * apply iter_ops_preserves; [|assumption]. intros s3 x H3. unfold Q.
        now rewrite (proj1 (unsubscribe_ls_tables s3 (fst x) (snd x))).
      * intros s3 H3. apply seq2_preserves; [now apply Hpd|].
        intros s4 H4. apply seq2_preserves.
        -- apply iter_ops_preserves; [|assumption]. intros s5 x H5. now apply Hpd.
        -- intros s5 H5. apply iter_ops_preserves; [|assumption]. intros s6 x H6. now apply Hins.
Qed.
