(* C18: the table on disk follows the store request by request.  For every history of client set / cset / delete /
   pdelete requests (accepted or refused, any keys), after all queued actions have been applied the row of every user
   key is the stored entry -- with the CAS version the REQUEST carried, one behind the stored one (known finding F13). *)
From Coq Require Import Lia List.
Import ListNotations.
From WB Require Import Base.Str Base.StrFacts Base.Json Model.Key Model.Consts Model.Store Model.Match Model.Entry Model.Core
  Model.Persist Model.Redb Spec.MapSpec
  Proofs.StoreFacts Proofs.TreeInv Proofs.GoodNames Proofs.CoreFacts Proofs.SyncFacts.
Local Open Scope N_scope.
Local Arguments N.add : simpl never.
Local Arguments N.sub : simpl never.
Local Arguments N.eqb : simpl never.

Fixpoint kv_get {V} (k : str) (l : list (str * V)) : option V :=
  match l with [] => None | (k', v) :: l' => if str_eqb k k' then Some v else kv_get k l' end.

Lemma kv_get_set_same {V} k (v : V) l : kv_get k (kv_set k v l) = Some v.
Proof.
  induction l as [|[k' v'] l IH]; cbn; [now rewrite str_eqb_refl|].
  destruct (str_eqb k k') eqn:E; cbn; [now rewrite str_eqb_refl|now rewrite E].
Qed.

Lemma kv_get_set_other {V} k k2 (v : V) l : k2 <> k -> kv_get k2 (kv_set k v l) = kv_get k2 l.
Proof.
  intros Hn. induction l as [|[k' v'] l IH]; cbn.
  - destruct (str_eqb_spec k2 k); [contradiction|reflexivity].
  - destruct (str_eqb_spec k k') as [<-|Hk]; cbn.
    + destruct (str_eqb_spec k2 k); [contradiction|reflexivity].
    + destruct (str_eqb k2 k'); [reflexivity|exact IH].
Qed.

Lemma kv_get_del_same {V} k (l : list (str * V)) : kv_get k (kv_del k l) = None.
Proof.
  unfold kv_del. induction l as [|[k' v'] l IH]; cbn; [reflexivity|].
  destruct (str_eqb k k') eqn:E; cbn; [exact IH|now rewrite E].
Qed.

Lemma kv_get_del_other {V} k k2 (l : list (str * V)) : k2 <> k -> kv_get k2 (kv_del k l) = kv_get k2 l.
Proof.
  intros Hn. unfold kv_del. induction l as [|[k' v'] l IH]; cbn; [reflexivity|].
  destruct (str_eqb_spec k k') as [<-|Hk]; cbn.
  - destruct (str_eqb_spec k2 k); [contradiction|exact IH].
  - destruct (str_eqb k2 k'); [reflexivity|exact IH].
Qed.

(* the row of an entry: the request's version is one behind the stored one *)
Definition row_of (e : entry) : entry := match e with Cas v n => Cas v (n - 1) | Plain v => Plain v end.

Definition tracks (s : core) (t : tables) : Prop :=
  forall k p, parse_segments k = Ok p -> starts_with s_SYS_prefix k = false ->
    kv_get k (t_v2 t) = option_map row_of (abs s p).

Lemma key_path_inj k k' p p' : parse_segments k = Ok p -> parse_segments k' = Ok p' -> p = p' -> k = k'.
Proof.
  intros H H' E. destruct (parse_segments_good _ _ H) as (-> & _). destruct (parse_segments_good _ _ H') as (-> & _).
  rewrite <- (join_split slash k), <- (join_split slash k'). now rewrite E.
Qed.

Lemma apply_all_v2_only t acts :
  Forall (fun a => match a with AUpd _ _ | ADel _ | AClear => False | _ => True end) acts ->
  t_v2 (apply_all t acts) = t_v2 t.
Proof.
  revert t. induction acts as [|a acts IH]; intros t H; [reflexivity|].
  inversion H as [|? ? Ha Hr]; subst. unfold apply_all in *. cbn [fold_left]. rewrite IH by exact Hr.
  destruct a as [| |c [g|]|c [l|]|]; try contradiction; reflexivity.
Qed.

Lemma upd_action_prefixed c k e : starts_with s_SYS_prefix k = true ->
  Forall (fun a => match a with AUpd _ _ | ADel _ | AClear => False | _ => True end) (upd_action c k e).
Proof.
  intros H. unfold upd_action. rewrite H. destruct c; [|constructor].
  destruct (is_reg_topic s_graveGoods k); [repeat constructor|]. destruct (is_reg_topic s_lastWill k); repeat constructor.
Qed.

(* an insert by a client *)
Lemma track_insert s t c k e force e_row :
  Inv s -> tracks s t -> o_res (snd (do_insert s c k e force)) <> RCrash ->
  (forall ex ch e' p, parse_segments k = Ok p -> decide (abs s p) e force = DOk ex ch e' -> row_of e' = e_row) ->
  tracks (fst (do_insert s c k e force))
         (apply_all t (match o_res (snd (do_insert s c k e force)) with RUnit => upd_action (Some c) k e_row | _ => [] end)).
Proof.
  intros HI HT Hnc Hrow. pose proof (do_insert_effect s c k e force HI) as H. cbv zeta in H.
  destruct (o_res (snd (do_insert s c k e force))) eqn:Er; try contradiction.
  - destruct H as (p & ex & ch & e' & Hp & Hd & _ & Hm).
    intros k2 p2 Hp2 Hpre2. unfold abs in *. rewrite (Hm p2). unfold m_set.
    destruct (starts_with s_SYS_prefix k) eqn:Epre.
    + rewrite (apply_all_v2_only _ _ (upd_action_prefixed (Some c) k e_row Epre)).
      destruct (path_eqb_spec p p2) as [->|Hne].
      * exfalso. pose proof (key_path_inj k k2 p2 p2 Hp Hp2 eq_refl) as ->. congruence.
      * now apply HT.
    + unfold upd_action. rewrite Epre. unfold apply_all. cbn [fold_left apply_action t_v2].
      destruct (path_eqb_spec p p2) as [->|Hne].
      * pose proof (key_path_inj k k2 p2 p2 Hp Hp2 eq_refl) as ->. rewrite kv_get_set_same. cbn [option_map].
        f_equal. symmetry. exact (Hrow ex ch e' p2 Hp Hd).
      * rewrite kv_get_set_other; [now apply HT|]. intros ->. apply Hne. congruence.
  - rewrite H. exact HT.
Qed.

Lemma kv_get_fold_del (keys : list str) : forall (l : list (str * entry)) k,
  kv_get k (fold_left (fun acc x => kv_del x acc) keys l) = if existsb (str_eqb k) keys then None else kv_get k l.
Proof.
  induction keys as [|x keys IH]; intros l k; [reflexivity|]. cbn [fold_left existsb]. rewrite IH.
  destruct (existsb (str_eqb k) keys); [now rewrite Bool.orb_true_r|]. rewrite Bool.orb_false_r.
  destruct (str_eqb_spec k x) as [->|Hne]; [apply kv_get_del_same|now apply kv_get_del_other].
Qed.

Lemma reg_del_v2_only k :
  Forall (fun a => match a with AUpd _ _ | ADel _ | AClear => False | _ => True end) (reg_del k).
Proof.
  unfold reg_del. destruct (split slash k) as [|a [|b [|c [|d [|e r]]]]]; try constructor.
  destruct (str_eqb b s_clients); [|constructor]. destruct (client_of_str c); [|constructor].
  destruct (str_eqb d s_graveGoods); [repeat constructor|]. destruct (str_eqb d s_lastWill); repeat constructor.
Qed.

Lemma apply_all_app' t a b : apply_all t (a ++ b) = apply_all (apply_all t a) b.
Proof. unfold apply_all. apply fold_left_app. Qed.

Lemma del_reg_v2_only c k :
  Forall (fun a => match a with AUpd _ _ | ADel _ | AClear => False | _ => True end) (if N.eqb c 0 then [] else reg_del k).
Proof. destruct (N.eqb c 0); [constructor|apply reg_del_v2_only]. Qed.

Lemma apply_del_actions t c (keys : list str) :
  t_v2 (apply_all t (flat_map (del_action c) keys)) =
  fold_left (fun acc x => kv_del x acc) (filter (fun k => negb (starts_with s_SYS_prefix k)) keys) (t_v2 t).
Proof.
  revert t. induction keys as [|k keys IH]; intros t; [reflexivity|]. cbn [flat_map filter].
  unfold del_action at 1. destruct (starts_with s_SYS_prefix k); cbn [negb].
  - rewrite apply_all_app', IH. now rewrite (apply_all_v2_only _ _ (del_reg_v2_only c k)).
  - cbn [app]. unfold apply_all in *. cbn [fold_left apply_action]. rewrite IH. reflexivity.
Qed.

Inductive cwrite' := WSet' (c : cid) (k : str) (v : json) | WCSet' (c : cid) (k : str) (v : json) (n : N)
                   | WDel' (c : cid) (k : str) | WPDel' (c : cid) (pat : str).
Definition op_of' (w : cwrite') : op :=
  match w with WSet' c k v => OSet c k v false | WCSet' c k v n => OCSet c k v n false | WDel' c k => ODelete c k | WPDel' c pat => OPDelete c pat end.

Theorem track_step s t w :
  Inv s -> tracks s t -> o_res (snd (step s (op_of' w))) <> RCrash ->
  Inv (fst (step s (op_of' w))) /\ tracks (fst (step s (op_of' w))) (apply_all t (actions_of s (op_of' w))).
Proof.
  intros HI HT Hnc. destruct w as [c k v|c k v n|c k|c pat]; cbn [op_of' step] in *; unfold actions_of; cbn [step].
  - split.
    + pose proof (do_insert_effect s c k (Plain v) false HI) as H. cbv zeta in H.
      destruct (o_res (snd (do_insert s c k (Plain v) false))); try contradiction; [now destruct H as (? & ? & ? & ? & _ & _ & H & _)|now rewrite H].
    + apply (track_insert s t c k (Plain v) false (Plain v) HI HT Hnc).
      intros ex ch e' p _ Hd. now rewrite (decide_plain _ _ _ _ _ _ Hd).
  - split.
    + pose proof (do_insert_effect s c k (Cas v n) false HI) as H. cbv zeta in H.
      destruct (o_res (snd (do_insert s c k (Cas v n) false))); try contradiction; [now destruct H as (? & ? & ? & ? & _ & _ & H & _)|now rewrite H].
    + apply (track_insert s t c k (Cas v n) false (Cas v n) HI HT Hnc).
      intros ex ch e' p _ Hd. rewrite (decide_cas _ _ _ _ _ _ _ Hd). unfold cset_result, row_of. f_equal. lia.
  - pose proof (do_delete_effect s c k HI) as H. cbv zeta in H.
    destruct (o_res (snd (do_delete s c k))) eqn:Er; try contradiction.
    + destruct H as (p & e & Hp & Habs & _ & HI' & Hm). split; [exact HI'|].
      intros k2 p2 Hp2 Hpre2. unfold abs in *. rewrite (Hm p2). unfold m_del, del_action.
      destruct (starts_with s_SYS_prefix k) eqn:Epre.
      * rewrite (apply_all_v2_only _ _ (del_reg_v2_only c k)).
        destruct (path_eqb_spec p p2) as [->|Hne]; [exfalso; pose proof (key_path_inj k k2 p2 p2 Hp Hp2 eq_refl) as ->; congruence|now apply HT].
      * unfold apply_all. cbn [fold_left apply_action t_v2].
        destruct (path_eqb_spec p p2) as [->|Hne].
        -- pose proof (key_path_inj k k2 p2 p2 Hp Hp2 eq_refl) as ->. now rewrite kv_get_del_same.
        -- rewrite kv_get_del_other; [now apply HT|]. intros ->. apply Hne. congruence.
    + destruct H as [HI' Hm]. split; [exact HI'|]. unfold apply_all. cbn [fold_left].
      intros k2 p2 Hp2 Hpre2. unfold abs in *. rewrite (Hm p2). now apply HT.
  - pose proof (do_pdelete_effect s c pat HI) as H. cbv zeta in H.
    destruct (o_res (snd (do_pdelete s c false pat))) eqn:Er; try contradiction.
    + destruct H as (HI' & Hm & Hl). split; [exact HI'|].
      intros k2 p2 Hp2 Hpre2. unfold abs in *. rewrite (Hm p2). unfold m_pdel.
      replace (flat_map (fun kv : str * json => del_action c (fst kv)) l) with (flat_map (del_action c) (map fst l))
        by (clear; induction l as [|x l IH]; cbn; [reflexivity|now rewrite IH]).
      rewrite apply_del_actions, kv_get_fold_del.
      destruct (parse_segments_good _ _ Hp2) as (Hsp & Hg2 & Hne2).
      pose proof HI as (Hw & _).
      destruct (store_match (kseg_parse pat) p2) eqn:Hmatch.
      * (* matched: the row goes, or there was none *)
        destruct (lookup (data s) p2) as [e|] eqn:El.
        -- assert (Hin : existsb (str_eqb k2) (filter (fun k => negb (starts_with s_SYS_prefix k)) (map fst l)) = true).
           { apply existsb_exists. exists k2. split; [|apply str_eqb_refl]. apply filter_In. split; [|now rewrite Hpre2].
             subst l. rewrite map_map. apply in_map_iff. exists (p2, e). split.
             - cbn [kv_of fst]. unfold key_of. rewrite Hsp. apply join_split.
             - apply (collect_spec (data s) [] (kseg_parse pat) p2 e Hw). exists p2. auto. }
           now rewrite Hin.
        -- destruct (existsb _ _); [reflexivity|]. rewrite (HT k2 p2 Hp2 Hpre2). unfold abs. now rewrite El.
      * (* not matched: the row stays *)
        assert (Hnin : existsb (str_eqb k2) (filter (fun k => negb (starts_with s_SYS_prefix k)) (map fst l)) = false).
        { apply Bool.not_true_iff_false. intros Hex. apply existsb_exists in Hex as (x & Hx & E). apply str_eqb_eq in E. subst x.
          apply filter_In in Hx as [Hx _]. subst l. rewrite map_map in Hx. apply in_map_iff in Hx as ([q e] & Hk & Hin).
          cbn [kv_of fst] in Hk. apply (collect_spec (data s) [] (kseg_parse pat) q e Hw) in Hin as (q' & -> & Hl & Hsm). cbn [app] in *.
          destruct (stored_key_good s q' e HI Hl) as [Hq Hgq].
          assert (q' = p2).
          { rewrite Hsp, <- Hk. unfold key_of. symmetry. apply split_join; [exact Hq|].
            apply Forall_forall. intros x Hx. rewrite Forall_forall in Hgq. now destruct (Hgq x Hx). }
          subst q'. congruence. }
        rewrite Hnin. now apply HT.
    + rewrite H. split; [exact HI|]. unfold apply_all. cbn [fold_left]. exact HT.
Qed.

Fixpoint wrun (s : core) (ws : list cwrite') : core * list raction :=
  match ws with
  | [] => (s, [])
  | w :: ws' => let '(s', acts) := wrun (fst (step s (op_of' w))) ws' in (s', actions_of s (op_of' w) ++ acts)
  end.
Fixpoint wnocrash (s : core) (ws : list cwrite') : Prop :=
  match ws with [] => True | w :: ws' => o_res (snd (step s (op_of' w))) <> RCrash /\ wnocrash (fst (step s (op_of' w))) ws' end.

Theorem table_tracks_store ws : forall s t,
  Inv s -> tracks s t -> wnocrash s ws ->
  let '(s', acts) := wrun s ws in Inv s' /\ tracks s' (apply_all t acts).
Proof.
  induction ws as [|w ws IH]; intros s t HI HT Hnc; [cbn; split; assumption|].
  destruct Hnc as [Hc Hrest]. cbn [wrun].
  destruct (track_step s t w HI HT Hc) as [HI1 HT1].
  specialize (IH _ _ HI1 HT1 Hrest). destruct (wrun (fst (step s (op_of' w))) ws) as [s' acts].
  destruct IH as [HI' HT']. split; [exact HI'|]. unfold apply_all in *. now rewrite fold_left_app.
Qed.

Theorem tracks_init : tracks init t_empty.
Proof. intros k p _ _. unfold abs. cbn. destruct p; reflexivity. Qed.
