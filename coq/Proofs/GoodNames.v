(* Stored segment names are regular (not `?`/`#`) and contain no '/': what parse_segments
   produces, so that a stored key re-joined with '/' parses back to the same path. *)
From WB Require Import Base.Str Base.StrFacts Model.Key Model.Store Model.Match Proofs.StoreFacts Proofs.TreeInv.

Definition good_seg (k : str) : Prop := kseg_of_str k = Reg k /\ no_sep slash k.

Fixpoint goodn {V} (n : node V) : Prop :=
  match n with
  | Node _ cs =>
      (fix go (cs : list (str * node V)) : Prop :=
         match cs with
         | [] => True
         | (k, c) :: cs' => (good_seg k /\ goodn c) /\ go cs'
         end) cs
  end.

Lemma goodn_unfold {V} (v : option V) cs :
  goodn (Node v cs) <-> Forall (fun kc => good_seg (fst kc) /\ goodn (snd kc)) cs.
Proof.
  cbn [goodn]. induction cs as [|[k c] cs IH].
  - split; [constructor|exact (fun _ => I)].
  - split.
    + intros [H1 H2]. constructor; [exact H1|now apply IH].
    + intros H. inversion H; subst. split; [assumption|now apply IH].
Qed.

Lemma regular_segments_good l : forall p,
  Forall (no_sep slash) l -> regular_segments l = Ok p -> p = l /\ Forall good_seg p.
Proof.
  induction l as [|s l IH]; intros p Hns H; cbn in H.
  - injection H as <-. split; [reflexivity|constructor].
  - inversion Hns; subst.
    destruct (kseg_of_str s) as [r| |] eqn:Ek; try discriminate.
    destruct (regular_segments l) as [rs|] eqn:El; [|discriminate].
    injection H as <-.
    assert (r = s).
    { unfold kseg_of_str in Ek. destruct (str_eqb s [ch_qmark]); [discriminate|].
      destruct (str_eqb s [ch_hash]); [discriminate|]. now injection Ek. }
    subst r. destruct (IH rs H3 eq_refl) as [-> Hg]. split; [reflexivity|].
    constructor; [|assumption]. split; assumption.
Qed.

Lemma parse_segments_good key p :
  parse_segments key = Ok p -> p = split slash key /\ Forall good_seg p /\ p <> [].
Proof.
  unfold parse_segments. intros H.
  destruct (regular_segments_good _ _ (split_nosep slash key) H) as [-> Hg].
  repeat split; try assumption. apply split_nonempty.
Qed.

Lemma regular_segments_of_good p : Forall good_seg p -> regular_segments p = Ok p.
Proof.
  induction 1 as [|s p [Hs _] Hp IH]; cbn; [reflexivity|]. now rewrite Hs, IH.
Qed.

(* a stored key, joined and parsed again, is the same path *)
Lemma parse_join_good p : p <> [] -> Forall good_seg p -> parse_segments (join slash p) = Ok p.
Proof.
  intros Hne Hg. unfold parse_segments. rewrite split_join.
  - now apply regular_segments_of_good.
  - assumption.
  - eapply Forall_impl; [|exact Hg]. now intros a [_ H].
Qed.

Lemma goodn_empty {V} : goodn (@empty_node V).
Proof. exact I. Qed.

Theorem goodn_set_at {V} p (e : V) : forall n, Forall good_seg p -> goodn n -> goodn (set_at p e n).
Proof.
  induction p as [|k p IH]; intros [v cs] Hp Hg.
  - exact Hg.
  - inversion Hp as [|? ? Hk Hp']; subst.
    cbn [set_at nval nkids]. apply goodn_unfold in Hg. apply goodn_unfold.
    clear -IH Hk Hp' Hg. induction Hg as [|[k' c] cs [Hk' Hc] Hcs IHcs]; cbn.
    + constructor; [|constructor]. split; [assumption|]. apply IH; [assumption|exact I].
    + destruct (str_eqb k k'); constructor; cbn [fst snd]; try assumption.
      * split; [assumption|]. now apply IH.
      * now split.
Qed.

Lemma goodn_filter {V} (v : option V) g cs :
  Forall (fun kc => good_seg (fst kc) /\ goodn (snd kc)) cs -> goodn (Node v (filter g cs)).
Proof.
  intros H. apply goodn_unfold. apply Forall_forall. intros kc Hin. apply filter_In in Hin as [Hin _].
  rewrite Forall_forall in H. now apply H.
Qed.

Lemma Forall_mod_child_pair {A} (P : str -> A -> Prop) k f cs :
  Forall (fun kc => P (fst kc) (snd kc)) cs -> (forall k' c, P k' c -> P k' (f c)) ->
  Forall (fun kc => P (fst kc) (snd kc)) (mod_child k f cs).
Proof.
  intros Hall Hf. induction Hall as [|[k' c] cs Hc Hcs IH]; cbn; [constructor|].
  destruct (str_eqb k k'); constructor; cbn [fst snd] in *; try assumption. now apply Hf.
Qed.

Theorem goodn_del_at {V} p : forall (n : node V), goodn n -> goodn (del_at p n).
Proof.
  induction p as [|k p IH]; intros [v cs] Hg.
  - exact Hg.
  - cbn [del_at nkids nval]. destruct (find_child k cs); [|assumption].
    apply goodn_filter. apply goodn_unfold in Hg.
    apply (Forall_mod_child_pair (fun k c => good_seg k /\ goodn c)); [assumption|].
    intros k' c [H1 H2]. split; [assumption|now apply IH].
Qed.

Theorem goodn_delm {V} (n : node V) : forall trav p, goodn n -> goodn (dr_node (delm n trav p)).
Proof.
  induction n as [v cs IH] using node_ind'. intros trav p Hg.
  pose proof (proj1 (goodn_unfold v cs) Hg) as Hk.
  destruct p as [|s p].
  - rewrite delm_nil. exact Hg.
  - destruct s as [s| |].
    + rewrite delm_reg. destruct (find_child s cs) as [c|] eqn:Ef; cbn [dr_node].
      * apply goodn_filter. apply (Forall_mod_child_pair (fun k c => good_seg k /\ goodn c)); [assumption|].
        intros k' _ [H1 _]. split; [assumption|].
        rewrite Forall_forall in IH, Hk. pose proof (find_child_In _ _ _ Ef) as Hin.
        exact (IH _ Hin _ _ (proj2 (Hk _ Hin))).
      * now apply goodn_filter.
    + rewrite delm_wild. cbn [dr_node]. apply goodn_filter. unfold wild_rs. rewrite map_map. cbn [fst snd].
      apply Forall_forall. intros kc Hin. apply in_map_iff in Hin as ([k c] & <- & Hin). cbn [fst snd].
      rewrite Forall_forall in IH, Hk. destruct (Hk _ Hin) as [H1 H2]. split; [assumption|].
      exact (IH _ Hin _ _ H2).
    + destruct p as [|s' p].
      * rewrite delm_multi. exact I.
      * now rewrite delm_multi_bad.
Qed.

(* every stored key is a path of good segments *)
Lemma lookup_good {V} (n : node V) q : forall e, goodn n -> lookup n q = Some e -> Forall good_seg q.
Proof.
  revert n. induction q as [|k q IH]; intros [v cs] e Hg Hl; [constructor|].
  rewrite lookup_cons in Hl. destruct (find_child k cs) as [c|] eqn:Ef; [|discriminate].
  apply find_child_In in Ef. apply goodn_unfold in Hg. rewrite Forall_forall in Hg.
  destruct (Hg _ Ef) as [H1 H2]. constructor; [assumption|]. exact (IH c e H2 Hl).
Qed.
