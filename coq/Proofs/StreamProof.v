(* C03, history level: the stream of one subscription = for every later request, in order, exactly the event the
   accepted change implies (once, or none when the change does not concern it). *)
From Coq Require Import Lia List.
Import ListNotations.
From WB Require Import Base.Str Base.StrFacts Base.Json Model.Key Model.Store Model.Match Model.Subs Model.Entry Model.Core
  Proofs.SubsFacts Proofs.MatchFacts Proofs.C03Proof.
Local Arguments N.eqb : simpl never.
Local Arguments N.add : simpl never.

(* ---- every subscriber appears once in what add_matches returns ---- *)
Lemma NoDup_app_inv {A} (a b : list A) : NoDup (a ++ b) -> NoDup a /\ NoDup b /\ (forall x, In x a -> ~ In x b).
Proof.
  induction a as [|x a IH]; cbn; intros H; [repeat split; [constructor|exact H|intros ? []]|].
  inversion H as [|? ? Hn Hd]; subst. destruct (IH Hd) as (Ha & Hb & Hab). repeat split.
  - constructor; [|exact Ha]. intros Hin. apply Hn. apply in_or_app. now left.
  - exact Hb.
  - intros y [<-|Hy] Hyb; [apply Hn; apply in_or_app; now right|exact (Hab y Hy Hyb)].
Qed.

Lemma NoDup_app_intro {A} (a b : list A) : NoDup a -> NoDup b -> (forall x, In x a -> ~ In x b) -> NoDup (a ++ b).
Proof.
  induction a as [|x a IH]; cbn; intros Ha Hb Hab; [exact Hb|].
  inversion Ha as [|? ? Hn Hd]; subst. constructor.
  - intros Hin. apply in_app_or in Hin as [Hin|Hin]; [contradiction|]. exact (Hab x (or_introl eq_refl) Hin).
  - apply IH; [exact Hd|exact Hb|]. intros y Hy. apply Hab. now right.
Qed.

Lemma flat_map_disjoint {A B} (f : A -> list B) (l : list A) a b :
  NoDup (flat_map f l) -> NoDup l -> In a l -> In b l -> a <> b -> forall x, In x (f a) -> ~ In x (f b).
Proof.
  induction l as [|y l IH]; cbn; intros Hnd Hl Ha Hb Hne x Hxa Hxb; [contradiction|].
  apply NoDup_app_inv in Hnd as (Hy & Hrest & Hdis). inversion Hl as [|? ? Hny Hl']; subst.
  destruct Ha as [->|Ha]; destruct Hb as [->|Hb].
  - congruence.
  - apply (Hdis x Hxa). apply in_flat_map. now exists b.
  - apply (Hdis x Hxb). apply in_flat_map. now exists a.
  - exact (IH Hrest Hl' Ha Hb Hne x Hxa Hxb).
Qed.

Lemma flat_map_part_nodup {A B} (f : A -> list B) (l : list A) a : NoDup (flat_map f l) -> In a l -> NoDup (f a).
Proof.
  induction l as [|y l IH]; cbn; intros Hnd Ha; [contradiction|].
  apply NoDup_app_inv in Hnd as (Hy & Hrest & _). destruct Ha as [->|Ha]; [exact Hy|now apply IH].
Qed.

Lemma NoDup_pairs_of_fst {A B} (l : list (A * B)) : NoDup (map fst l) -> NoDup l.
Proof.
  induction l as [|[k v] l IH]; cbn; intros H; [constructor|]. inversion H as [|? ? Hn Hd]; subst.
  constructor; [|now apply IH]. intros Hin. apply Hn. change k with (fst (k, v)). now apply in_map.
Qed.

Lemma add_matches_incl key : forall n sb, wfs n -> In sb (add_matches n key) -> In sb (all_subs n).
Proof.
  intros n sb Hw H. apply (add_matches_spec key n sb Hw) in H as (P & HP & _).
  apply (all_subs_spec n sb Hw). now exists P.
Qed.

Theorem add_matches_nodup key : forall n, wfs n -> NoDup (all_subs n) -> NoDup (add_matches n key).
Proof.
  induction key as [|e rest IH]; intros [s cs] Hwf Hnd.
  - cbn [add_matches ssubs]. rewrite all_subs_unfold in Hnd. now apply NoDup_app_inv in Hnd.
  - pose proof Hwf as Hwf0. apply wfs_unfold in Hwf as [Hk Hwc]. rewrite Forall_forall in Hwc.
    rewrite all_subs_unfold in Hnd. apply NoDup_app_inv in Hnd as (_ & Hfm & _).
    pose proof (NoDup_pairs_of_fst cs Hk) as Hcs.
    cbn [add_matches skids].
    set (f := fun kc : kseg * snode => all_subs (snd kc)) in *.
    assert (Hchild : forall k c, find_k k cs = Some c -> In (k, c) cs /\ wfs c /\ NoDup (all_subs c)).
    { intros k c Ef. pose proof (find_k_In _ _ _ Ef) as Hin. repeat split; [exact Hin|exact (Hwc _ Hin)|].
      exact (flat_map_part_nodup f cs (k, c) Hfm Hin). }
    assert (Hdis : forall k1 c1 k2 c2, find_k k1 cs = Some c1 -> find_k k2 cs = Some c2 -> k1 <> k2 ->
                   forall x, In x (all_subs c1) -> ~ In x (all_subs c2)).
    { intros k1 c1 k2 c2 E1 E2 Hne x. destruct (Hchild _ _ E1) as (I1 & _ & _). destruct (Hchild _ _ E2) as (I2 & _ & _).
      apply (flat_map_disjoint f cs (k1, c1) (k2, c2) Hfm Hcs I1 I2). congruence. }
    apply NoDup_app_intro; [|apply NoDup_app_intro|].
    + destruct (find_k Wild cs) as [c|] eqn:E; [|constructor]. destruct (Hchild _ _ E) as (_ & Hw & Hn). now apply IH.
    + destruct (find_k Multi cs) as [c|] eqn:E; [|constructor]. now destruct (Hchild _ _ E).
    + destruct (find_k (Reg e) cs) as [c|] eqn:E; [|constructor]. destruct (Hchild _ _ E) as (_ & Hw & Hn). now apply IH.
    + intros x Hx Hy. destruct (find_k Multi cs) as [c1|] eqn:E1; [|contradiction].
      destruct (find_k (Reg e) cs) as [c2|] eqn:E2; [|contradiction]. cbn [opt_app] in Hx, Hy.
      destruct (Hchild _ _ E2) as (_ & Hw2 & _).
      apply (Hdis Multi c1 (Reg e) c2 E1 E2 ltac:(discriminate) x Hx). now apply (add_matches_incl rest).
    + intros x Hx Hy. destruct (find_k Wild cs) as [c0|] eqn:E0; [|contradiction]. cbn [opt_app] in Hx.
      destruct (Hchild _ _ E0) as (_ & Hw0 & _). pose proof (add_matches_incl rest c0 x Hw0 Hx) as Hx0.
      apply in_app_or in Hy as [Hy|Hy].
      * destruct (find_k Multi cs) as [c1|] eqn:E1; [|contradiction]. cbn [opt_app] in Hy.
        exact (Hdis Wild c0 Multi c1 E0 E1 ltac:(discriminate) x Hx0 Hy).
      * destruct (find_k (Reg e) cs) as [c2|] eqn:E2; [|contradiction]. cbn [opt_app] in Hy.
        destruct (Hchild _ _ E2) as (_ & Hw2 & _).
        apply (Hdis Wild c0 (Reg e) c2 E0 E2 ltac:(discriminate) x Hx0). now apply (add_matches_incl rest).
Qed.

(* ---- the channel of one subscription ---- *)
Definition chan (i : N) (evs : list (N * event)) : list event :=
  map snd (filter (fun ie => N.eqb (fst ie) i) evs).

Lemma chan_app i a b : chan i (a ++ b) = chan i a ++ chan i b.
Proof. unfold chan. now rewrite filter_app, map_app. Qed.

(* channels are not shared: instances are unique among the registered subscribers *)
Definition UI (s : core) : Prop := NoDup (map s_inst (all_subs (subs s))).

Lemma NoDup_map_inv {A B} (f : A -> B) l : NoDup (map f l) -> NoDup l.
Proof.
  induction l as [|x l IH]; cbn; intros H; [constructor|]. inversion H as [|? ? Hn Hd]; subst.
  constructor; [|now apply IH]. intros Hin. apply Hn. now apply in_map.
Qed.

Lemma kseg_eq_dec (a b : kseg) : {a = b} + {a <> b}.
Proof. decide equality. apply list_eq_dec, N.eq_dec. Defined.

Lemma subscriber_eq_dec (a b : subscriber) : {a = b} + {a <> b}.
Proof.
  decide equality; try apply Bool.bool_dec; try apply N.eq_dec. apply list_eq_dec, kseg_eq_dec.
Defined.

(* in a duplicate-free list of subscribers with distinct instances, the events of instance [s_inst sb] are sb's *)
Lemma chan_of_list (sb : subscriber) (g : subscriber -> event) (l : list subscriber) :
  NoDup l -> (forall x, In x l -> s_inst x = s_inst sb -> x = sb) ->
  chan (s_inst sb) (map (fun x => (s_inst x, g x)) l) = if in_dec subscriber_eq_dec sb l then [g sb] else [].
Proof.
  induction l as [|x l IH]; intros Hnd Hu; [reflexivity|].
  inversion Hnd as [|? ? Hn Hd]; subst. unfold chan in *. cbn [map filter fst].
  destruct (N.eqb_spec (s_inst x) (s_inst sb)) as [E|Hne].
  - assert (x = sb) by (apply Hu; [now left|exact E]). subst x. cbn [map snd].
    destruct (in_dec subscriber_eq_dec sb (sb :: l)) as [_|Hc]; [|exfalso; apply Hc; now left].
    f_equal. rewrite IH; [|exact Hd|intros y Hy; apply Hu; now right].
    destruct (in_dec subscriber_eq_dec sb l); [contradiction|reflexivity].
  - rewrite IH; [|exact Hd|intros y Hy; apply Hu; now right].
    destruct (in_dec subscriber_eq_dec sb l) as [Hi|Hi]; destruct (in_dec subscriber_eq_dec sb (x :: l)) as [Hj|Hj]; try reflexivity.
    + exfalso. apply Hj. now right.
    + exfalso. destruct Hj as [->|Hj]; [congruence|contradiction].
Qed.

Lemma inst_unique (l : list subscriber) x sb :
  NoDup (map s_inst l) -> In x l -> In sb l -> s_inst x = s_inst sb -> x = sb.
Proof.
  induction l as [|y r IH]; cbn; intros Hnd Hx Hs E; [contradiction|].
  inversion Hnd as [|? ? Hn Hd]; subst.
  destruct Hx as [->|Hx]; destruct Hs as [->|Hs]; try reflexivity.
  - exfalso. apply Hn. rewrite E. now apply in_map.
  - exfalso. apply Hn. rewrite <- E. now apply in_map.
  - now apply IH.
Qed.

(* what one accepted change means for one subscriber *)
Definition wants (sb : subscriber) (path : list str) (changed : bool) : bool :=
  sub_match (s_pat sb) path && (changed || negb (s_unique sb)).

Theorem notify_channel s sb path key v changed deleted :
  SInv s -> UI s -> In sb (subs_at (subs s) (s_pat sb)) ->
  chan (s_inst sb) (notify s path key v changed deleted) =
    if wants sb path changed then [event_for sb key v deleted] else [].
Proof.
  intros [Hw Hp] Hui Hreg. unfold notify.
  set (l := filter (fun x => changed || negb (s_unique x)) (add_matches (subs s) path)).
  assert (Hall : NoDup (all_subs (subs s))) by (eapply NoDup_map_inv; exact Hui).
  assert (Hnd : NoDup l) by (apply NoDup_filter; now apply add_matches_nodup).
  assert (Hu : forall x, In x l -> s_inst x = s_inst sb -> x = sb).
  { intros x Hx E. apply filter_In in Hx as [Hx _]. pose proof (add_matches_incl path _ x Hw Hx) as Hxa.
    assert (Hsa : In sb (all_subs (subs s))) by (apply (all_subs_spec _ _ Hw); now exists (s_pat sb)).
    exact (inst_unique _ x sb Hui Hxa Hsa E). }
  change (map (fun sb0 => (s_inst sb0, if s_pstate sb0 then if deleted then EPDeleted [(key, v)] else EPValue [(key, v)]
                                       else if deleted then EDeleted v else EValue v)) l)
    with (map (fun x => (s_inst x, event_for x key v deleted)) l).
  rewrite (chan_of_list sb (fun x => event_for x key v deleted) l Hnd Hu).
  unfold wants. destruct (in_dec subscriber_eq_dec sb l) as [Hi|Hi].
  - apply filter_In in Hi as [Hi Hf]. apply (add_matches_spec path _ sb Hw) in Hi as (P & HP & Hm).
    rewrite (Hp _ _ HP), Hm, Hf. reflexivity.
  - destruct (sub_match (s_pat sb) path) eqn:Hm; [|reflexivity].
    destruct (changed || negb (s_unique sb))%bool eqn:Hf; [|reflexivity]. exfalso. apply Hi.
    apply filter_In. split; [|exact Hf]. apply (add_matches_spec path _ sb Hw). now exists (s_pat sb).
Qed.

(* ---- one request ---- *)
Definition expected_insert (sb : subscriber) (s : core) (c : cid) (k : str) (e : entry) (force : bool) : list event :=
  match check_read_only k c, parse_segments k with
  | None, Ok p =>
      if special_value_bad k (entry_val e) then []
      else match decide (lookup (data s) p) e force with
           | DOk _ changed _ => if wants sb p changed then [event_for sb k (entry_val e) false] else []
           | _ => []
           end
  | _, _ => []
  end.

Definition expected (sb : subscriber) (s : core) (o : op) : list event :=
  match o with
  | OSet c k v f => expected_insert sb s c k (Plain v) f
  | OCSet c k v n f => expected_insert sb s c k (Cas v n) f
  | ODelete c k =>
      match check_read_only k c, parse_segments k with
      | None, Ok p => match lookup (data s) p with
                      | Some e => if wants sb p true then [event_for sb k (entry_val e) true] else []
                      | None => []
                      end
      | _, _ => []
      end
  | OPublish k v =>
      match parse_segments k with Ok p => if wants sb p true then [event_for sb k v false] else [] | Err _ => [] end
  | _ => []
  end.

Definition data_op (o : op) : Prop :=
  match o with
  | OGet _ | OCGet _ | OPGet _ | OLs _ | OPLs _ | OLen | OSet _ _ _ _ | OCSet _ _ _ _ _ | ODelete _ _ | OPublish _ _ => True
  | _ => False
  end.

Lemma insert_channel s sb c k e force :
  SInv s -> UI s -> In sb (subs_at (subs s) (s_pat sb)) ->
  chan (s_inst sb) (o_events (snd (do_insert s c k e force))) = expected_insert sb s c k e force /\
  subs (fst (do_insert s c k e force)) = subs s.
Proof.
  intros HS HU Hreg. unfold do_insert, expected_insert.
  destruct (check_read_only k c); [split; reflexivity|].
  destruct (parse_segments k) as [p|code]; [|split; reflexivity].
  destruct (special_value_bad k (entry_val e)); [split; reflexivity|].
  destruct (decide (lookup (data s) p) e force) as [ex ch e'| |]; [|split; reflexivity|split; reflexivity].
  cbn [snd fst o_events]. split; [|reflexivity].
  apply notify_channel; assumption.
Qed.

Theorem stream_step s sb o :
  SInv s -> UI s -> In sb (subs_at (subs s) (s_pat sb)) -> data_op o -> o_res (snd (step s o)) <> RCrash ->
  chan (s_inst sb) (o_events (snd (step s o))) = expected sb s o /\ subs (fst (step s o)) = subs s.
Proof.
  intros HS HU Hreg Hop Hnc. destruct o; try contradiction; cbn [step expected fst snd] in *; try (split; reflexivity).
  - apply insert_channel; assumption.
  - apply insert_channel; assumption.
  - unfold do_delete in *. destruct (check_read_only k c); [split; reflexivity|].
    destruct (parse_segments k) as [p|code]; [|split; reflexivity].
    destruct (negb (root_ok (del_at p (data s)))) eqn:Er; [exfalso; now apply Hnc|].
    destruct (lookup (data s) p) as [e|]; cbn [snd fst o_events]; (split; [|reflexivity]); [|reflexivity].
    apply notify_channel; assumption.
  - unfold do_publish. destruct (parse_segments k) as [p|code]; cbn [snd fst o_events]; (split; [|reflexivity]); [|reflexivity].
    apply notify_channel; assumption.
Qed.

(* ---- histories ---- *)
Fixpoint stream (i : N) (s : core) (os : list op) : list event :=
  match os with [] => [] | o :: os' => chan i (o_events (snd (step s o))) ++ stream i (fst (step s o)) os' end.
Fixpoint expected_stream (sb : subscriber) (s : core) (os : list op) : list event :=
  match os with [] => [] | o :: os' => expected sb s o ++ expected_stream sb (fst (step s o)) os' end.
Fixpoint no_crash_run (s : core) (os : list op) : Prop :=
  match os with [] => True | o :: os' => o_res (snd (step s o)) <> RCrash /\ no_crash_run (fst (step s o)) os' end.

(* every history of reads, sets, csets, deletes and publishes after the registration: the subscription's channel
   carries, in the order the server applied them, exactly one event per accepted change that concerns it -- none for
   refused requests, none for changes that leave the value as it was when it asked for unique values *)
Theorem stream_spec os : forall s sb,
  SInv s -> UI s -> In sb (subs_at (subs s) (s_pat sb)) -> Forall data_op os -> no_crash_run s os ->
  stream (s_inst sb) s os = expected_stream sb s os.
Proof.
  induction os as [|o os IH]; intros s sb HS HU Hreg Hops Hnc; [reflexivity|].
  inversion Hops as [|? ? Ho Hos]; subst. destruct Hnc as [Hc Hrest].
  destruct (stream_step s sb o HS HU Hreg Ho Hc) as [He Hsub].
  cbn [stream expected_stream]. rewrite He. f_equal.
  apply IH; try assumption.
  - unfold SInv in *. now rewrite Hsub.
  - unfold UI in *. now rewrite Hsub.
  - now rewrite Hsub.
Qed.

(* ---- after the unsubscribe ---- *)
Lemma find_mod_k_same {A} k (f : A -> A) cs : find_k k (mod_k k f cs) = option_map f (find_k k cs).
Proof.
  induction cs as [|[k' c] cs IH]; cbn; [reflexivity|].
  destruct (kseg_eqb k k') eqn:E; cbn; rewrite E; [reflexivity|assumption].
Qed.

Lemma find_mod_k_other {A} k k2 (f : A -> A) cs : k2 <> k -> find_k k2 (mod_k k f cs) = find_k k2 cs.
Proof.
  intros Hn. induction cs as [|[k' c] cs IH]; cbn; [reflexivity|].
  destruct (kseg_eqb_spec k k') as [<-|Hk]; cbn.
  - destruct (kseg_eqb_spec k2 k); [contradiction|reflexivity].
  - destruct (kseg_eqb k2 k'); [reflexivity|assumption].
Qed.

Lemma map_fst_mod_k {A} k (f : A -> A) cs : map fst (mod_k k f cs) = map fst cs.
Proof. induction cs as [|[k' c] cs IH]; cbn; [reflexivity|]. destruct (kseg_eqb k k'); cbn; [reflexivity|now rewrite IH]. Qed.

Theorem subs_at_remove P c t : forall n Q,
  subs_at (remove_id P c t n) Q =
    if kpath_eqb P Q then filter (fun x => negb (same_id c t x)) (subs_at n Q) else subs_at n Q.
Proof.
  induction P as [|k P IH]; intros [s cs] Q.
  - destruct Q; reflexivity.
  - cbn [remove_id ssubs skids]. destruct Q as [|k2 Q]; [reflexivity|].
    cbn [subs_at skids kpath_eqb].
    destruct (kseg_eqb_spec k k2) as [<-|Hn].
    + rewrite find_mod_k_same. cbn [andb]. destruct (find_k k cs) as [ch|]; cbn [option_map].
      * apply IH.
      * now destruct (kpath_eqb P Q).
    + rewrite find_mod_k_other by congruence. reflexivity.
Qed.

Theorem wfs_remove P c t : forall n, wfs n -> wfs (remove_id P c t n).
Proof.
  induction P as [|k P IH]; intros [s cs] Hwf.
  - exact Hwf.
  - cbn [remove_id ssubs skids]. apply wfs_unfold in Hwf as [Hnd Hc]. apply wfs_unfold. split.
    + now rewrite map_fst_mod_k.
    + clear Hnd. induction Hc as [|[k' ch] cs Hk Hcs IHc]; cbn; [constructor|].
      destruct (kseg_eqb k k'); constructor; cbn [snd] in *; try assumption. now apply IH.
Qed.

(* a channel nobody in the tree owns gets nothing *)
Lemma chan_none (i : N) (g : subscriber -> event) (l : list subscriber) :
  (forall x, In x l -> s_inst x <> i) -> chan i (map (fun x => (s_inst x, g x)) l) = [].
Proof.
  induction l as [|x l IH]; intros H; [reflexivity|]. unfold chan in *. cbn [map filter fst].
  destruct (N.eqb_spec (s_inst x) i) as [E|_]; [exfalso; exact (H x (or_introl eq_refl) E)|].
  apply IH. intros y Hy. apply H. now right.
Qed.

Lemma notify_absent s i path key v changed deleted :
  wfs (subs s) -> (forall x, In x (all_subs (subs s)) -> s_inst x <> i) ->
  chan i (notify s path key v changed deleted) = [].
Proof.
  intros Hw Ha. unfold notify.
  apply (chan_none i (fun sb => if s_pstate sb then if deleted then EPDeleted [(key, v)] else EPValue [(key, v)]
                                else if deleted then EDeleted v else EValue v)).
  intros x Hx. apply filter_In in Hx as [Hx _]. apply Ha. now apply (add_matches_incl path).
Qed.

(* an accepted unsubscribe takes the subscription out of the tree: provided its id still maps to its own pattern
   (no second subscribe was accepted under the same id while it was active -- known finding F24) *)
Theorem unsubscribe_removes s sb :
  SInv s -> UI s -> In sb (subs_at (subs s) (s_pat sb)) ->
  assoc_get id_eqb (s_client sb, s_tid sb) (subscriptions s) = Some (s_pat sb) ->
  let s' := fst (do_unsubscribe s (s_client sb) (s_tid sb)) in
  o_res (snd (do_unsubscribe s (s_client sb) (s_tid sb))) = RUnit /\
  SInv s' /\ (forall x, In x (all_subs (subs s')) -> s_inst x <> s_inst sb).
Proof.
  intros [Hw Hp] Hui Hreg Hmap. cbv zeta. unfold do_unsubscribe. rewrite Hmap. cbn [fst snd o_res out_res].
  assert (Hself : same_id (s_client sb) (s_tid sb) sb = true) by (unfold same_id; now rewrite !N.eqb_refl).
  split; [|split].
  - unfold unsubscribe_removed.
    assert (Hat : forall P n, subs_at n P = match snode_at P n with Some m => ssubs m | None => [] end).
    { induction P as [|k P IH]; intros [ss cs]; [reflexivity|]. cbn [subs_at snode_at skids].
      destruct (find_k k cs); [apply IH|reflexivity]. }
    rewrite Hat in Hreg. destruct (snode_at (s_pat sb) (subs s)) as [m|]; [|contradiction].
    assert (E : existsb (same_id (s_client sb) (s_tid sb)) (ssubs m) = true) by (apply existsb_exists; now exists sb).
    now rewrite E.
  - split; cbn [subs set_subs].
    + now apply wfs_remove.
    + intros P x Hx. rewrite subs_at_remove in Hx. destruct (kpath_eqb (s_pat sb) P); [apply filter_In in Hx as [Hx _]|]; now apply Hp.
  - cbn [subs set_subs]. intros x Hx E.
    apply (all_subs_spec _ _ (wfs_remove _ _ _ _ Hw)) in Hx as (Q & HQ).
    rewrite subs_at_remove in HQ.
    assert (Hxa : In x (all_subs (subs s))).
    { apply (all_subs_spec _ _ Hw). exists Q. destruct (kpath_eqb (s_pat sb) Q); [apply filter_In in HQ as [HQ _]|]; exact HQ. }
    assert (Hsa : In sb (all_subs (subs s))) by (apply (all_subs_spec _ _ Hw); now exists (s_pat sb)).
    pose proof (inst_unique _ x sb Hui Hxa Hsa E) as ->.
    destruct (kpath_eqb_spec (s_pat sb) Q) as [<-|Hne].
    + apply filter_In in HQ as [_ Hf]. now rewrite Hself in Hf.
    + apply Hne. now apply Hp.
Qed.

(* ... and from then on its channel stays silent, whatever is written *)
Theorem silent_after_unsubscribe os : forall s i,
  SInv s -> (forall x, In x (all_subs (subs s)) -> s_inst x <> i) -> Forall data_op os ->
  stream i s os = [].
Proof.
  induction os as [|o os IH]; intros s i HS Ha Hops; [reflexivity|].
  inversion Hops as [|? ? Ho Hos]; subst. cbn [stream].
  assert (Hstep : chan i (o_events (snd (step s o))) = [] /\ subs (fst (step s o)) = subs s).
  { destruct HS as [Hw Hp].
    destruct o; try contradiction; cbn [step fst snd]; try (split; reflexivity).
    - unfold do_insert. destruct (check_read_only k c); [split; reflexivity|].
      destruct (parse_segments k); [|split; reflexivity]. destruct (special_value_bad _ _); [split; reflexivity|].
      destruct (decide _ _ _); try (split; reflexivity). cbn [snd fst o_events]. split; [|reflexivity]. now apply notify_absent.
    - unfold do_insert. destruct (check_read_only k c); [split; reflexivity|].
      destruct (parse_segments k); [|split; reflexivity]. destruct (special_value_bad _ _); [split; reflexivity|].
      destruct (decide _ _ _); try (split; reflexivity). cbn [snd fst o_events]. split; [|reflexivity]. now apply notify_absent.
    - unfold do_delete. destruct (check_read_only k c); [split; reflexivity|].
      destruct (parse_segments k); [|split; reflexivity]. destruct (negb _); [split; reflexivity|].
      destruct (lookup _ _); cbn [snd fst o_events]; (split; [|reflexivity]); [now apply notify_absent|reflexivity].
    - unfold do_publish. destruct (parse_segments k); cbn [snd fst o_events]; (split; [|reflexivity]); [now apply notify_absent|reflexivity]. }
  destruct Hstep as [He Hsub]. rewrite He. cbn [app].
  apply IH; try assumption.
  - unfold SInv in *. now rewrite Hsub.
  - now rewrite Hsub.
Qed.
