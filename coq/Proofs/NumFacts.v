(* Decimal printing (Str.dec_of_N) and parsing (Entry.u64_of_lit) of unsigned numbers round-trip. *)
From WB Require Import Base.Str Base.Json Model.Key Model.Store Model.Entry.
From Coq Require Import Lia.
Local Arguments N.add : simpl never.
Local Arguments N.sub : simpl never.
Local Arguments N.mul : simpl never.
Local Arguments N.leb : simpl never.
Local Arguments N.div : simpl never.
Local Arguments N.modulo : simpl never.
Local Arguments N.pow : simpl never.
Local Arguments N.of_nat : simpl never.

Definition is_digit (c : N) : bool := (N.leb 48 c && N.leb c 57)%bool.

Lemma is_digit_ok d : d < 10 -> is_digit (48 + d) = true.
Proof. intros H. unfold is_digit. apply andb_true_iff. split; apply N.leb_le; lia. Qed.

Fixpoint digits_value (l : str) (acc : N) : N :=
  match l with [] => acc | c :: l' => digits_value l' (acc * 10 + (c - 48)) end.

Lemma digits_val_app l1 : forall l2 acc,
  forallb is_digit l1 = true ->
  digits_val (l1 ++ l2) acc = digits_val l2 (digits_value l1 acc).
Proof.
  induction l1 as [|c l1 IH]; intros l2 acc H; [reflexivity|].
  cbn in H. apply andb_true_iff in H as [Hc H]. cbn [app digits_val digits_value].
  unfold is_digit in Hc. rewrite Hc. now apply IH.
Qed.

(* dec_digits with enough fuel prepends the decimal digits of n *)
Lemma dec_digits_spec fuel : forall n acc,
  (N.to_nat (N.log2 n) < fuel)%nat ->
  exists D, dec_digits fuel n acc = D ++ acc /\ forallb is_digit D = true /\ D <> [] /\
            forall a, digits_value D a = a * 10 ^ N.of_nat (length D) + n.
Proof.
  induction fuel as [|f IH]; intros n acc Hf; [lia|].
  cbn [dec_digits].
  assert (Hd : N.modulo n 10 < 10) by (apply N.mod_lt; lia).
  assert (Hdiv : n = 10 * (n / 10) + n mod 10) by (apply N.div_mod'; lia).
  destruct (N.eqb_spec (n / 10) 0) as [Hq|Hq].
  - exists [48 + n mod 10]. repeat split.
    + cbn [forallb]. now rewrite is_digit_ok.
    + discriminate.
    + intros a. cbn [digits_value length]. change (N.of_nat 1) with 1. rewrite N.pow_1_r.
      rewrite Hq in Hdiv. lia.
  - assert (Hn0 : 0 < n).
    { destruct (N.eq_dec n 0) as [->|Hn]; [rewrite N.div_0_l in Hq by lia; congruence|lia]. }
    assert (Hq0 : 0 < n / 10) by lia.
    assert (Hlog : (N.to_nat (N.log2 (n / 10)) < f)%nat).
    { assert (Hl : N.log2 (n / 10) < N.log2 n).
      { apply N.log2_lt_pow2; [exact Hq0|].
        assert (Hs : 2 ^ N.log2 n <= n < 2 ^ N.succ (N.log2 n)) by (apply N.log2_spec; exact Hn0).
        rewrite N.pow_succ_r' in Hs.
        apply N.div_lt_upper_bound; [lia|]. lia. }
      lia. }
    destruct (IH (n / 10) ((48 + n mod 10) :: acc) Hlog) as (D & HD & Hdig & Hne & Hval).
    exists (D ++ [48 + n mod 10]). repeat split.
    + rewrite HD. now rewrite <- app_assoc.
    + rewrite forallb_app, Hdig. cbn [forallb andb]. now rewrite is_digit_ok.
    + destruct D; discriminate.
    + intros a.
      assert (G : forall l x b, digits_value (l ++ [x]) b = digits_value l b * 10 + (x - 48)).
      { induction l as [|y l IHl]; intros x b; [reflexivity|]. cbn. apply IHl. }
      rewrite G, Hval, app_length. cbn [length].
      replace (N.of_nat (length D + 1)) with (N.succ (N.of_nat (length D))) by lia.
      rewrite N.pow_succ_r'.
      generalize dependent (10 ^ N.of_nat (length D)). intros p.
      generalize dependent (n / 10). intros q. generalize dependent (n mod 10). intros r. intros. nia.
Qed.

Theorem digits_val_dec_of_N n : digits_val (dec_of_N n) 0 = Some n.
Proof.
  unfold dec_of_N.
  destruct (dec_digits_spec (S (N.to_nat (N.log2 n))) n []) as (D & HD & Hdig & Hne & Hval); [lia|].
  rewrite HD, digits_val_app by assumption. cbn [digits_val]. rewrite Hval. f_equal.
Qed.

Lemma dec_of_N_nonempty n : dec_of_N n <> [].
Proof.
  unfold dec_of_N.
  destruct (dec_digits_spec (S (N.to_nat (N.log2 n))) n []) as (D & HD & _ & Hne & _); [lia|].
  rewrite HD, app_nil_r. exact Hne.
Qed.

Lemma dec_of_N_digits n : forallb is_digit (dec_of_N n) = true.
Proof.
  unfold dec_of_N.
  destruct (dec_digits_spec (S (N.to_nat (N.log2 n))) n []) as (D & HD & Hdig & _ & _); [lia|].
  now rewrite HD, app_nil_r.
Qed.

(* what the u64 reader accepts of what the printer writes *)
Theorem u64_of_lit_dec n : n <= u64_max -> u64_of_lit (dec_of_N n) = Some n.
Proof.
  intros H. unfold u64_of_lit. destruct (dec_of_N n) eqn:E; [now apply dec_of_N_nonempty in E|].
  rewrite <- E, digits_val_dec_of_N. apply N.leb_le in H. now rewrite H.
Qed.
