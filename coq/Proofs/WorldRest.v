(* Both front ends at once: events of the socket sessions and REST requests, interleaved in any order, run on the one
   core, one core request at a time -- and none of them crashes it. *)
From Coq Require Import Lia List.
Import ListNotations.
From WB Require Import Base.Str Base.Json Model.Key Model.Consts Model.Store Model.Subs Model.Entry Model.Core Model.Codec Model.Auth Model.Session
  Model.Persist Model.Rest Model.RestWorld
  Proofs.CoreFacts Proofs.LenFacts Proofs.C01Proof Proofs.LockHistory Proofs.NoCrash Proofs.WorldCore.
Local Open Scope N_scope.

Inductive wevent := WS (e : sevent) | WR (tok : rtoken) (r : rreq).

Definition wstep (w : world) (x : wevent) : world * list (N * smsg) :=
  match x with
  | WS e => sstep w e
  | WR tok r => let '(w', out, _) := wrest w tok r in (w', out)
  end.

(* is the REST request let through to a handler's core call? *)
Definition rest_served (w : world) (tok : rtoken) (r : rreq) : bool :=
  if w_auth_required w then
    match tok with
    | TClaims cl => let '(p, pat) := rest_requirement r in authorize cl p pat
    | _ => false
    end
  else true.

Definition wops (w : world) (x : wevent) : list op :=
  match x with
  | WS e => ops_of w e
  | WR tok r => if rest_served w tok r then match rest_op r with Some o => [o] | None => [] end else []
  end.

Theorem wstep_core w x : w_core (fst (wstep w x)) = final (w_core w) (wops w x).
Proof.
  destruct x as [e|tok r]; cbn [wstep wops]; [apply sstep_core|].
  unfold wrest, rest_handle, rest_served.
  destruct (w_auth_required w).
  - destruct tok as [| |cl]; try reflexivity. destruct (rest_requirement r) as [p pat]. destruct (authorize cl p pat); [|reflexivity].
    destruct (rest_op r) as [o|]; [|reflexivity]. unfold final. cbn [fold_left]. now destruct (step (w_core w) o).
  - destruct (rest_op r) as [o|]; [|reflexivity]. unfold final. cbn [fold_left]. now destruct (step (w_core w) o).
Qed.

Definition wfinal' (w : world) (xs : list wevent) : world := fold_left (fun w x => fst (wstep w x)) xs w.
Fixpoint wops_hist (w : world) (xs : list wevent) : list op :=
  match xs with [] => [] | x :: r => wops w x ++ wops_hist (fst (wstep w x)) r end.

Theorem mixed_core xs : forall w, w_core (wfinal' w xs) = final (w_core w) (wops_hist w xs).
Proof.
  induction xs as [|x xs IH]; intros w; [reflexivity|]. cbn [wfinal' fold_left wops_hist]. fold (wfinal' (fst (wstep w x)) xs).
  rewrite IH, wstep_core. unfold final. now rewrite fold_left_app.
Qed.

(* what may arrive: a cSet does not name the version u64::MAX (F17); an imported tree has distinct, regular names *)
Definition wev_ok (x : wevent) : Prop :=
  match x with
  | WS e => ev_ok e
  | WR _ (RImport j) => import_ok (OImport j)
  | WR _ _ => True
  end.

Lemma wops_safe w x : wev_ok x -> Forall safe_op (wops w x).
Proof.
  destruct x as [e|tok r]; cbn [wev_ok wops]; intros H.
  - unfold ops_of. destruct (core_op w e) as [o|] eqn:E; [|constructor]. constructor; [|constructor]. exact (core_op_safe w e o H E).
  - destruct (rest_served w tok r); [|constructor].
    destruct r; cbn [rest_op]; try (constructor; [split; [exact I|first [exact I|exact H]]|constructor]); try constructor.
    all: try discriminate.
Qed.

(* whatever arrives, on whatever sockets and over REST, in whatever order: no core request crashes, and the store's
   invariant holds afterwards *)
Theorem mixed_never_crashes auth xs :
  Forall wev_ok xs ->
  nocrash (trace init (wops_hist (world_init auth) xs)) /\ Inv (w_core (wfinal' (world_init auth) xs)).
Proof.
  intros Hev. rewrite mixed_core. cbn [world_init w_core].
  apply (history_safe _ init Inv_init LH_init).
  generalize (world_init auth). induction xs as [|x xs IH]; intros w; [constructor|]. apply Forall_cons_iff in Hev as (Hx & Hxs).
  cbn [wops_hist]. apply Forall_app. split; [now apply wops_safe|now apply IH].
Qed.

Example mixed_demo :
  let xs := [WS (SOpen 0); WS (SMsg 0 (MSubscribe 1 [97] false None)); WR TNone (RSet [97] (JNum [49])); WR TNone (RPDelete [35]);
             WS (SGarbage 0); WR TNone (RImport (JObj [(s_data, JObj [(s_t, JObj [([98], JObj [(s_v, JNull)])])])])); WR TNone RExport] in
  Forall wev_ok xs /\
  wops_hist (world_init false) xs = [OConnected 1; OSubscribe 1 1 [97] false false; OSet 254 [97] (JNum [49]) false; OPDelete 254 [35]; ODisconnected 1;
                                     OImport (JObj [(s_data, JObj [(s_t, JObj [([98], JObj [(s_v, JNull)])])])])] /\
  snd (wstep (wfinal' (world_init false) (firstn 2 xs)) (WR TNone (RSet [97] (JNum [49])))) = [(0, SState 1 (SValue (JNum [49])))].
Proof.
  split; [|vm_compute; split; reflexivity].
  repeat constructor; try exact I.
  all: match goal with H : dec_persisted _ = Some _ |- _ => vm_compute in H; injection H as <- end.
  all: cbn; repeat split; try exact I; repeat constructor; try (intros []); try discriminate.
  all: try match goal with H : In _ [] |- _ => destruct H end.
Qed.

(* ---- C15 with REST traffic in between: a socket session without a token still owns nothing ---- *)
From WB Require Import Proofs.WorldAuth.

Lemma rest_op_creates r o c : rest_op r = Some o -> ~ creates o c.
Proof. destruct r; cbn [rest_op]; intros [= <-]; cbn [creates]; exact (fun H => H). Qed.

Lemma wrest_WInv w tok r :
  WInv w -> (forall o, rest_op r = Some o -> rest_served w tok r = true -> is_crash (snd (step (w_core w) o)) = false) ->
  WInv (fst (fst (wrest w tok r))).
Proof.
  intros HW Hsafe. unfold wrest, rest_handle.
  assert (Hserved : rest_served w tok r = false -> WInv (fst (fst (wrest w tok r)))) by
    (intros E; unfold wrest, rest_handle, rest_served in *; destruct (w_auth_required w); [destruct tok as [| |cl]; try exact HW; destruct (rest_requirement r) as [p pat]; rewrite E; exact HW|discriminate]).
  destruct (rest_served w tok r) eqn:Es; [|now apply Hserved]. clear Hserved.
  assert (E : (if w_auth_required w then match tok with TNone => Some 401 | TInvalid => Some 403 | TClaims cl => let '(p, pat) := rest_requirement r in if authorize cl p pat then None else Some 403 end else None) = None).
  { unfold rest_served in Es. destruct (w_auth_required w); [|reflexivity]. destruct tok as [| |cl]; try discriminate. destruct (rest_requirement r) as [p pat]. now rewrite Es. }
  rewrite E. destruct (rest_op r) as [o|] eqn:Eo; [|exact HW].
  pose proof (Hsafe o eq_refl eq_refl) as Hnc. pose proof (step_owned (w_core w) o) as S.
  destruct (step (w_core w) o) as [core' out] eqn:Est. cbn [fst snd] in *.
  intros Ha sn Hq Ho. cbn [set_core w_core w_auth_required] in Ho, Ha.
  destruct (S (cid_of sn) Hnc Ho) as [H|Hc]; [|now elim (rest_op_creates r o (cid_of sn) Eo)].
  apply (HW Ha sn); [|exact H]. unfold quiet, sess_open in *. exact Hq.
Qed.

Definition wwf (w : world) (x : wevent) : Prop := match x with WS e => wf_ev w e | WR _ _ => True end.
Fixpoint wwf_hist (w : world) (xs : list wevent) : Prop :=
  match xs with [] => True | x :: r => wwf w x /\ wwf_hist (fst (wstep w x)) r end.

Lemma wstep_auth w x : w_auth_required (fst (wstep w x)) = w_auth_required w.
Proof.
  destruct x as [e|tok r]; cbn [wstep]; [apply sstep_auth|]. unfold wrest. destruct (rest_handle _ _ _ _) as [[core' out] resp]. reflexivity.
Qed.

Theorem mixed_reach_WInv xs : forall w,
  Inv (w_core w) -> LH (w_core w) -> WInv w -> Forall wev_ok xs -> wwf_hist w xs ->
  WInv (wfinal' w xs) /\ w_auth_required (wfinal' w xs) = w_auth_required w.
Proof.
  induction xs as [|x xs IH]; intros w HI HLH HW Hev Hwf; [split; [assumption|reflexivity]|].
  apply Forall_cons_iff in Hev as (Hx & Hxs). destruct Hwf as (Hw1 & Hwf).
  cbn [wfinal' fold_left]. fold (wfinal' (fst (wstep w x)) xs).
  assert (Hcore : Inv (w_core (fst (wstep w x))) /\ LH (w_core (fst (wstep w x)))).
  { rewrite wstep_core. pose proof (wops_safe w x Hx) as Hs. destruct (wops w x) as [|o [|o' l]] eqn:Eo.
    - split; assumption.
    - apply Forall_cons_iff in Hs as (Hs & _). unfold final. cbn [fold_left]. destruct (step_safe (w_core w) o HI HLH Hs) as (_ & H1 & H2). split; assumption.
    - exfalso. destruct x as [e|tok r]; cbn [wops] in Eo; [unfold ops_of in Eo; destruct (core_op w e); discriminate|].
      destruct (rest_served w tok r); [destruct (rest_op r)|]; discriminate. }
  destruct Hcore as (HI' & HLH').
  assert (HW' : WInv (fst (wstep w x))).
  { destruct x as [e|tok r]; cbn [wstep].
    - apply sstep_WInv; [exact HW|exact Hw1|].
      intros o Ho. pose proof (core_op_safe w e o Hx Ho) as Hs. destruct (step_safe (w_core w) o HI HLH Hs) as (Hnc & _). now apply not_crash_is.
    - assert (G := wrest_WInv w tok r HW). destruct (wrest w tok r) as [[w' out] resp]. cbn [fst] in *. apply G.
      intros o Ho Hsv. pose proof (wops_safe w (WR tok r) Hx) as Hs. cbn [wops] in Hs. rewrite Hsv, Ho in Hs.
      apply Forall_cons_iff in Hs as (Hs & _). destruct (step_safe (w_core w) o HI HLH Hs) as (Hnc & _). now apply not_crash_is. }
  destruct (IH (fst (wstep w x)) HI' HLH' HW' Hxs Hwf) as (H1 & H2). split; [exact H1|]. now rewrite H2, wstep_auth.
Qed.

(* with authorization required, after ANY history of socket events and REST requests: a line from a session that has
   presented no valid token is refused or ends the session, and leaves the whole core as it was *)
Theorem mixed_no_token_no_service xs sn s m :
  Forall wev_ok xs -> wwf_hist (world_init true) xs ->
  let w := wfinal' (world_init true) xs in
  lookup_n sn (w_sess w) = Some s -> ss_open s = true -> ss_claims s = None ->
  let '(w1, out, v) := handle w sn m in
  w_core w1 = w_core w /\ Forall (fun x => fst x = sn /\ is_refusal (snd x)) out.
Proof.
  intros Hev Hwf w Hl Hop Hcl.
  destruct (mixed_reach_WInv xs (world_init true) Inv_init LH_init (WInv_init true) Hev Hwf) as (HW & Ha). fold w in HW, Ha.
  exact (tokenless_no_effect w sn s m HW Ha Hl Hop Hcl).
Qed.
