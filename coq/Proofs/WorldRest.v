(* Both front ends at once: events of the socket sessions and REST requests, interleaved in any order, run on the one
   core, one core request at a time -- and none of them crashes it. *)
From Coq Require Import Lia List.
Import ListNotations.
From WB Require Import Base.Str Base.Json Model.Key Model.Consts Model.Store Model.Subs Model.Entry Model.Core Model.Codec Model.Auth Model.Session
  Model.Persist Model.Rest Model.RestWorld
  Proofs.CoreFacts Proofs.LenFacts Proofs.C01Proof Proofs.LockHistory Proofs.NoCrash Proofs.WorldCore.
Local Open Scope N_scope.

Inductive wevent := WS (e : sevent) | WR (tok : rtoken) (r : rreq).

Definition wstep (w : world) (x : wevent) : world * list (N * smsg) :=
  match x with
  | WS e => sstep w e
  | WR tok r => let '(w', out, _) := wrest w tok r in (w', out)
  end.

(* is the REST request let through to a handler's core call? *)
Definition rest_served (w : world) (tok : rtoken) (r : rreq) : bool :=
  if w_auth_required w then
    match tok with
    | TClaims cl => let '(p, pat) := rest_requirement r in authorize cl p pat
    | _ => false
    end
  else true.

Definition wops (w : world) (x : wevent) : list op :=
  match x with
  | WS e => ops_of w e
  | WR tok r => if rest_served w tok r then match rest_op r with Some o => [o] | None => [] end else []
  end.

Theorem wstep_core w x : w_core (fst (wstep w x)) = final (w_core w) (wops w x).
Proof.
  destruct x as [e|tok r]; cbn [wstep wops]; [apply sstep_core|].
  unfold wrest, rest_handle, rest_served.
  destruct (w_auth_required w).
  - destruct tok as [| |cl]; try reflexivity. destruct (rest_requirement r) as [p pat]. destruct (authorize cl p pat); [|reflexivity].
    destruct (rest_op r) as [o|]; [|reflexivity]. unfold final. cbn [fold_left]. now destruct (step (w_core w) o).
  - destruct (rest_op r) as [o|]; [|reflexivity]. unfold final. cbn [fold_left]. now destruct (step (w_core w) o).
Qed.

Definition wfinal' (w : world) (xs : list wevent) : world := fold_left (fun w x => fst (wstep w x)) xs w.
Fixpoint wops_hist (w : world) (xs : list wevent) : list op :=
  match xs with [] => [] | x :: r => wops w x ++ wops_hist (fst (wstep w x)) r end.

Theorem mixed_core xs : forall w, w_core (wfinal' w xs) = final (w_core w) (wops_hist w xs).
Proof.
  induction xs as [|x xs IH]; intros w; [reflexivity|]. cbn [wfinal' fold_left wops_hist]. fold (wfinal' (fst (wstep w x)) xs).
  rewrite IH, wstep_core. unfold final. now rewrite fold_left_app.
Qed.

(* what may arrive: a cSet does not name the version u64::MAX (F17); an imported tree has distinct, regular names *)
Definition wev_ok (x : wevent) : Prop :=
  match x with
  | WS e => ev_ok e
  | WR _ (RImport j) => import_ok (OImport j)
  | WR _ _ => True
  end.

Lemma wops_safe w x : wev_ok x -> Forall safe_op (wops w x).
Proof.
  destruct x as [e|tok r]; cbn [wev_ok wops]; intros H.
  - unfold ops_of. destruct (core_op w e) as [o|] eqn:E; [|constructor]. constructor; [|constructor]. exact (core_op_safe w e o H E).
  - destruct (rest_served w tok r); [|constructor].
    destruct r; cbn [rest_op]; try (constructor; [split; [exact I|first [exact I|exact H]]|constructor]); try constructor.
    all: try discriminate.
Qed.

(* whatever arrives, on whatever sockets and over REST, in whatever order: no core request crashes, and the store's
   invariant holds afterwards *)
Theorem mixed_never_crashes auth xs :
  Forall wev_ok xs ->
  nocrash (trace init (wops_hist (world_init auth) xs)) /\ Inv (w_core (wfinal' (world_init auth) xs)).
Proof.
  intros Hev. rewrite mixed_core. cbn [world_init w_core].
  apply (history_safe _ init Inv_init LH_init).
  generalize (world_init auth). induction xs as [|x xs IH]; intros w; [constructor|]. apply Forall_cons_iff in Hev as (Hx & Hxs).
  cbn [wops_hist]. apply Forall_app. split; [now apply wops_safe|now apply IH].
Qed.

Example mixed_demo :
  let xs := [WS (SOpen 0); WS (SMsg 0 (MSubscribe 1 [97] false None)); WR TNone (RSet [97] (JNum [49])); WR TNone (RPDelete [35]);
             WS (SGarbage 0); WR TNone (RImport (JObj [(s_data, JObj [(s_t, JObj [([98], JObj [(s_v, JNull)])])])])); WR TNone RExport] in
  Forall wev_ok xs /\
  wops_hist (world_init false) xs = [OConnected 1; OSubscribe 1 1 [97] false false; OSet 254 [97] (JNum [49]) false; OPDelete 254 [35]; ODisconnected 1;
                                     OImport (JObj [(s_data, JObj [(s_t, JObj [([98], JObj [(s_v, JNull)])])])])] /\
  snd (wstep (wfinal' (world_init false) (firstn 2 xs)) (WR TNone (RSet [97] (JNum [49])))) = [(0, SState 1 (SValue (JNum [49])))].
Proof.
  split; [|vm_compute; split; reflexivity].
  repeat constructor; try exact I.
  all: match goal with H : dec_persisted _ = Some _ |- _ => vm_compute in H; injection H as <- end.
  all: cbn; repeat split; try exact I; repeat constructor; try (intros []); try discriminate.
  all: try match goal with H : In _ [] |- _ => destruct H end.
Qed.
