(* C18: the registration tables follow the store.  After any history of client requests of every kind except import,
   the grave-goods and last-will tables of the ReDB backend hold, for every client, exactly what its registration keys
   $SYS/clients/<id>/graveGoods and .../lastWill decode to (after the repair of F28: a registration withdrawn by deleting
   its key leaves the table too).  Hypothesis: last wills do not write under $SYS/ (a will that re-creates its own
   client's registration key leaves a registration in the store that no table entry backs). *)
From Coq Require Import Lia List.
Import ListNotations.
From WB Require Import Base.Str Base.StrFacts Base.Json Model.Key Model.Consts Model.Store Model.Match Model.Subs Model.Entry Model.Core
  Model.Persist Model.Redb Model.Sync Spec.MapSpec
  Proofs.StoreFacts Proofs.TreeInv Proofs.GoodNames Proofs.CoreFacts Proofs.C07Proof Proofs.LenFacts Proofs.C01Proof
  Proofs.LockHistory Proofs.SessionEnd Proofs.SyncFacts Proofs.RedbFacts Proofs.RedbTrack Proofs.RedbSession.
Local Open Scope N_scope.
Local Arguments N.add : simpl never.
Local Arguments N.sub : simpl never.
Local Arguments N.mul : simpl never.

(* ---- the tables keyed by client ---- *)
Fixpoint c_get {V} (c : cid) (l : list (cid * V)) : option V :=
  match l with [] => None | (c', v) :: l' => if N.eqb c c' then Some v else c_get c l' end.

Lemma c_get_set_same {V} c (v : V) l : c_get c (c_set c v l) = Some v.
Proof.
  induction l as [|[c0 v0] l IH]; cbn [c_set c_get]; [now rewrite N.eqb_refl|].
  destruct (N.eqb_spec c c0) as [->|Hne]; cbn [c_get]; [now rewrite N.eqb_refl|].
  destruct (N.ltb c c0); cbn [c_get]; [now rewrite N.eqb_refl|].
  destruct (N.eqb_spec c c0); [contradiction|exact IH].
Qed.

Lemma c_get_set_other {V} c c' (v : V) l : c' <> c -> c_get c' (c_set c v l) = c_get c' l.
Proof.
  intros Hne. induction l as [|[c0 v0] l IH]; cbn [c_set c_get].
  - destruct (N.eqb_spec c' c); [contradiction|reflexivity].
  - destruct (N.eqb_spec c c0) as [->|Hc]; cbn [c_get].
    + destruct (N.eqb_spec c' c0); [contradiction|reflexivity].
    + destruct (N.ltb c c0); cbn [c_get].
      * destruct (N.eqb_spec c' c); [contradiction|reflexivity].
      * destruct (N.eqb c' c0); [reflexivity|exact IH].
Qed.

Lemma c_get_del_same {V} c (l : list (cid * V)) : c_get c (c_del c l) = None.
Proof.
  unfold c_del. induction l as [|[c0 v0] l IH]; cbn [filter c_get fst]; [reflexivity|].
  destruct (N.eqb_spec c c0) as [->|Hne]; cbn [negb c_get]; [exact IH|].
  destruct (N.eqb_spec c c0); [contradiction|exact IH].
Qed.

Lemma c_get_del_other {V} c c' (l : list (cid * V)) : c' <> c -> c_get c' (c_del c l) = c_get c' l.
Proof.
  intros Hne. unfold c_del. induction l as [|[c0 v0] l IH]; cbn [filter c_get fst]; [reflexivity|].
  destruct (N.eqb_spec c c0) as [->|Hc]; cbn [negb c_get].
  - destruct (N.eqb_spec c' c0); [contradiction|exact IH].
  - destruct (N.eqb c' c0); [reflexivity|exact IH].
Qed.

(* the last registration action of a client decides its table entry *)
Fixpoint last_gg (c : cid) (acts : list raction) : option (option (list str)) :=
  match acts with
  | [] => None
  | a :: r => match last_gg c r with
              | Some x => Some x
              | None => match a with AGG c' g => if N.eqb c c' then Some g else None | _ => None end
              end
  end.
Fixpoint last_lw (c : cid) (acts : list raction) : option (option (list (str * json))) :=
  match acts with
  | [] => None
  | a :: r => match last_lw c r with
              | Some x => Some x
              | None => match a with ALW c' g => if N.eqb c c' then Some g else None | _ => None end
              end
  end.

Lemma apply_all_gg c acts : forall t,
  Forall no_clear acts ->
  c_get c (t_gg (apply_all t acts)) = match last_gg c acts with Some g => g | None => c_get c (t_gg t) end.
Proof.
  induction acts as [|a acts IH]; intros t H; [reflexivity|].
  apply Forall_cons_iff in H as (Ha & H). unfold apply_all in *. cbn [fold_left last_gg]. rewrite IH by exact H.
  destruct (last_gg c acts) as [x|]; [reflexivity|].
  destruct a as [k' e|k'|c' [g|]|c' [l|]|]; try contradiction; cbn [apply_action t_gg]; try reflexivity.
  - destruct (N.eqb_spec c c') as [->|Hne]; [apply c_get_set_same|now apply c_get_set_other].
  - destruct (N.eqb_spec c c') as [->|Hne]; [apply c_get_del_same|now apply c_get_del_other].
Qed.

Lemma apply_all_lw c acts : forall t,
  Forall no_clear acts ->
  c_get c (t_lw (apply_all t acts)) = match last_lw c acts with Some g => g | None => c_get c (t_lw t) end.
Proof.
  induction acts as [|a acts IH]; intros t H; [reflexivity|].
  apply Forall_cons_iff in H as (Ha & H). unfold apply_all in *. cbn [fold_left last_lw]. rewrite IH by exact H.
  destruct (last_lw c acts) as [x|]; [reflexivity|].
  destruct a as [k' e|k'|c' [g|]|c' [l|]|]; try contradiction; cbn [apply_action t_lw]; try reflexivity.
  - destruct (N.eqb_spec c c') as [->|Hne]; [apply c_get_set_same|now apply c_get_set_other].
  - destruct (N.eqb_spec c c') as [->|Hne]; [apply c_get_del_same|now apply c_get_del_other].
Qed.

(* ---- what the store says a client has registered ---- *)
Definition gg_path (c : cid) : list str := [s_SYS; s_clients; client_str c; s_graveGoods].
Definition lw_path (c : cid) : list str := [s_SYS; s_clients; client_str c; s_lastWill].
Definition gg_dec (e : entry) : option (list str) := match entry_val e with JNull => None | v => dec_grave_goods v end.
Definition lw_dec (e : entry) : option (list (str * json)) := match entry_val e with JNull => None | v => dec_last_will v end.
Definition gg_store (s : core) (c : cid) : option (list str) := match abs s (gg_path c) with Some e => gg_dec e | None => None end.
Definition lw_store (s : core) (c : cid) : option (list (str * json)) := match abs s (lw_path c) with Some e => lw_dec e | None => None end.

Definition small (c : cid) : Prop := c <> 0 /\ c < 256.

Definition RegTracks (s : core) (t : tables) : Prop :=
  forall c, small c -> c_get c (t_gg t) = gg_store s c /\ c_get c (t_lw t) = lw_store s c.

Lemma small_inv c : c < 256 -> client_of_str (client_str c) = Some c.
Proof.
  intros H. pose proof client_of_str_inverts as E. rewrite forallb_forall in E.
  assert (Hin : In c (map N.of_nat (seq 0 256))).
  { apply in_map_iff. exists (N.to_nat c). split; [apply N2Nat.id|]. apply in_seq. lia. }
  specialize (E c Hin). destruct (client_of_str (client_str c)) as [c'|]; [|discriminate].
  apply N.eqb_eq in E. now subst.
Qed.

Lemma client_str_inj c c' : c < 256 -> c' < 256 -> client_str c = client_str c' -> c = c'.
Proof. intros H H' E. pose proof (small_inv c H) as A. rewrite E, (small_inv c' H') in A. now injection A. Qed.

From WB Require Import Proofs.SubsFacts Proofs.C03Proof Proofs.StreamProof Proofs.StreamAll Proofs.SyncAll.

(* ---- registration keys and their owners ---- *)
Lemma skipn_app_exact {A} (a b : list A) : skipn (length a) (a ++ b) = b.
Proof. induction a; [reflexivity|exact IHa]. Qed.

Lemma hexdig_hexval h a : hexval h = Some a -> hexdig a = h /\ a < 16.
Proof.
  unfold hexval, hexdig. destruct (N.leb_spec 48 h), (N.leb_spec h 57); cbn [andb].
  - intros [= <-]. destruct (N.ltb_spec (h - 48) 10); lia.
  - destruct (N.leb_spec 97 h), (N.leb_spec h 102); cbn [andb]; try discriminate.
    intros [= <-]. destruct (N.ltb_spec (h - 87) 10); lia.
  - destruct (N.leb_spec 97 h), (N.leb_spec h 102); cbn [andb]; try discriminate. exfalso; lia.
  - destruct (N.leb_spec 97 h), (N.leb_spec h 102); cbn [andb]; try discriminate. exfalso; lia.
Qed.

Lemma client_of_str_sound cs X : client_of_str cs = Some X -> X <> 0 -> cs = client_str X /\ X < 256.
Proof.
  unfold client_of_str. destruct (str_eqb_spec cs uuid_nil) as [->|_]; [intros [= <-] H; now elim H|].
  destruct (starts_with uuid_prefix cs) eqn:Es; [|discriminate].
  destruct (starts_with_app _ _ Es) as (r & ->). rewrite skipn_app_exact.
  destruct r as [|h [|l [|x r]]]; try discriminate.
  destruct (hexval h) as [a|] eqn:Eh; [|discriminate]. destruct (hexval l) as [b|] eqn:El; [|discriminate].
  intros [= <-] Hne. destruct (hexdig_hexval h a Eh) as (Ha & Ha16). destruct (hexdig_hexval l b El) as (Hb & Hb16).
  change (match a with 0 => 0 | N.pos q => N.pos q~0~0~0~0 end) with (16 * a) in *.
  split; [|lia]. unfold client_str. destruct (N.eqb_spec (16 * a + b) 0) as [E|_]; [contradiction|].
  assert (E1 : (16 * a + b) / 16 = a) by (symmetry; apply (N.div_unique (16 * a + b) 16 a b); lia).
  assert (E2 : (16 * a + b) mod 16 = b) by (symmetry; apply (N.mod_unique (16 * a + b) 16 a b); lia).
  now rewrite E1, E2, Ha, Hb.
Qed.

(* finite facts about the registration keys of the 255 small clients, checked by evaluation *)
Definition key_facts (c : cid) : bool :=
  let kg := key_of (gg_path c) in let kl := key_of (lw_path c) in
  path_eqb (split slash kg) (gg_path c) && path_eqb (split slash kl) (lw_path c) &&
  starts_with s_SYS_prefix kg && starts_with s_SYS_prefix kl &&
  is_reg_topic s_graveGoods kg && negb (is_reg_topic s_lastWill kg) &&
  is_reg_topic s_lastWill kl && negb (is_reg_topic s_graveGoods kl) &&
  match reg_del kg with [AGG c' None] => N.eqb c c' | _ => false end &&
  match reg_del kl with [ALW c' None] => N.eqb c c' | _ => false end.

Lemma key_facts_all : forallb key_facts (map N.of_nat (seq 1 255)) = true.
Proof. vm_compute. reflexivity. Qed.

Lemma key_facts_small c : small c -> key_facts c = true.
Proof.
  intros (Hne & Hlt). pose proof key_facts_all as E. rewrite forallb_forall in E. apply E.
  apply in_map_iff. exists (N.to_nat c). split; [apply N2Nat.id|]. apply in_seq. lia.
Qed.

Lemma sys_prefix_split k : starts_with s_SYS_prefix k = true -> exists y r, split slash k = s_SYS :: y :: r.
Proof.
  intros H. destruct (starts_with_app _ _ H) as (r & ->). unfold s_SYS_prefix, split. cbn [app split_aux N.eqb Pos.eqb slash rev].
  change (split_aux slash r []) with (split slash r).
  destruct (split slash r) as [|y r'] eqn:E; [now elim (split_nonempty slash r)|]. exists y, r'. reflexivity.
Qed.

(* a key that parses to the registration path of a small client is that client's registration key *)
Lemma key_of_path k p : parse_segments k = Ok p -> k = key_of p.
Proof. intros H. apply parse_segments_good in H as (-> & _). unfold key_of. now rewrite join_split. Qed.

Lemma last_gg_app c a b : last_gg c (a ++ b) = match last_gg c b with Some x => Some x | None => last_gg c a end.
Proof.
  induction a as [|x a IH]; cbn [app last_gg]; [now destruct (last_gg c b)|].
  rewrite IH. now destruct (last_gg c b).
Qed.
Lemma last_lw_app c a b : last_lw c (a ++ b) = match last_lw c b with Some x => Some x | None => last_lw c a end.
Proof.
  induction a as [|x a IH]; cbn [app last_lw]; [now destruct (last_lw c b)|].
  rewrite IH. now destruct (last_lw c b).
Qed.

(* what reg_del says about a key it answers with an action *)
Lemma reg_del_shape k :
  reg_del k = [] \/
  exists a cs X, split slash k = [a; s_clients; cs; s_graveGoods] /\ client_of_str cs = Some X /\ reg_del k = [AGG X None] \/
                 split slash k = [a; s_clients; cs; s_lastWill] /\ client_of_str cs = Some X /\ reg_del k = [ALW X None].
Proof.
  unfold reg_del. destruct (split slash k) as [|a [|b [|cs [|d [|e r]]]]]; try (now left).
  destruct (str_eqb_spec b s_clients) as [->|]; [|now left]. destruct (client_of_str cs) as [X|] eqn:EX; [|now left].
  destruct (str_eqb_spec d s_graveGoods) as [->|]; [right; exists a, cs, X; left; auto|].
  destruct (str_eqb_spec d s_lastWill) as [->|]; [right; exists a, cs, X; right; auto|now left].
Qed.

Lemma key_facts_spec c : small c ->
  split slash (key_of (gg_path c)) = gg_path c /\ split slash (key_of (lw_path c)) = lw_path c /\
  starts_with s_SYS_prefix (key_of (gg_path c)) = true /\ starts_with s_SYS_prefix (key_of (lw_path c)) = true /\
  is_reg_topic s_graveGoods (key_of (gg_path c)) = true /\ is_reg_topic s_lastWill (key_of (gg_path c)) = false /\
  is_reg_topic s_lastWill (key_of (lw_path c)) = true /\ is_reg_topic s_graveGoods (key_of (lw_path c)) = false /\
  reg_del (key_of (gg_path c)) = [AGG c None] /\ reg_del (key_of (lw_path c)) = [ALW c None].
Proof.
  intros Hs. pose proof (key_facts_small c Hs) as F. unfold key_facts in F. cbv zeta in F.
  apply andb_prop in F as [F F10]. apply andb_prop in F as [F F9]. apply andb_prop in F as [F F8]. apply andb_prop in F as [F F7].
  apply andb_prop in F as [F F6]. apply andb_prop in F as [F F5]. apply andb_prop in F as [F F4]. apply andb_prop in F as [F F3].
  apply andb_prop in F as [F1 F2].
  repeat split; try assumption.
  - now destruct (path_eqb_spec (split slash (key_of (gg_path c))) (gg_path c)).
  - now destruct (path_eqb_spec (split slash (key_of (lw_path c))) (lw_path c)).
  - now apply Bool.negb_true_iff.
  - now apply Bool.negb_true_iff.
  - destruct (reg_del (key_of (gg_path c))) as [|[| |X [g|]| |] [|? ?]]; try discriminate. apply N.eqb_eq in F9. now subst.
  - destruct (reg_del (key_of (lw_path c))) as [|[| | |X [g|]|] [|? ?]]; try discriminate. apply N.eqb_eq in F10. now subst.
Qed.

(* the deletion of one key, seen from the table entries of a small client *)
Lemma last_gg_del_action c c' k :
  c <> 0 -> small c' ->
  last_gg c' (del_action c k) = if str_eqb k (key_of (gg_path c')) then Some None else None.
Proof.
  intros Hc Hs. destruct (key_facts_spec c' Hs) as (_ & _ & Hpre & _ & _ & _ & _ & _ & Hrd & _).
  destruct (str_eqb_spec k (key_of (gg_path c'))) as [->|Hne].
  - unfold del_action. rewrite Hpre, Hrd. destruct (N.eqb_spec c 0); [contradiction|]. cbn [last_gg]. now rewrite N.eqb_refl.
  - unfold del_action. destruct (starts_with s_SYS_prefix k) eqn:Ep; [|reflexivity].
    destruct (N.eqb c 0); [reflexivity|].
    destruct (reg_del_shape k) as [->|(a & cs & X & [(Hsp & HX & ->)|(Hsp & HX & ->)])]; [reflexivity| |reflexivity].
    cbn [last_gg]. destruct (N.eqb_spec c' X) as [<-|]; [|reflexivity]. exfalso. apply Hne.
    destruct (sys_prefix_split k Ep) as (y & r & Hsp'). rewrite Hsp in Hsp'. injection Hsp' as -> _ _.
    destruct Hs as (Hs0 & Hs1). destruct (client_of_str_sound cs c' HX Hs0) as (-> & _).
    rewrite <- (join_split slash k), Hsp. reflexivity.
Qed.

Lemma last_lw_del_action c c' k :
  c <> 0 -> small c' ->
  last_lw c' (del_action c k) = if str_eqb k (key_of (lw_path c')) then Some None else None.
Proof.
  intros Hc Hs. destruct (key_facts_spec c' Hs) as (_ & _ & _ & Hpre & _ & _ & _ & _ & _ & Hrd).
  destruct (str_eqb_spec k (key_of (lw_path c'))) as [->|Hne].
  - unfold del_action. rewrite Hpre, Hrd. destruct (N.eqb_spec c 0); [contradiction|]. cbn [last_lw]. now rewrite N.eqb_refl.
  - unfold del_action. destruct (starts_with s_SYS_prefix k) eqn:Ep; [|reflexivity].
    destruct (N.eqb c 0); [reflexivity|].
    destruct (reg_del_shape k) as [->|(a & cs & X & [(Hsp & HX & ->)|(Hsp & HX & ->)])]; [reflexivity|reflexivity|].
    cbn [last_lw]. destruct (N.eqb_spec c' X) as [<-|]; [|reflexivity]. exfalso. apply Hne.
    destruct (sys_prefix_split k Ep) as (y & r & Hsp'). rewrite Hsp in Hsp'. injection Hsp' as -> _ _.
    destruct Hs as (Hs0 & Hs1). destruct (client_of_str_sound cs c' HX Hs0) as (-> & _).
    rewrite <- (join_split slash k), Hsp. reflexivity.
Qed.

Lemma last_gg_del_actions c c' keys :
  c <> 0 -> small c' ->
  last_gg c' (flat_map (del_action c) keys) = if existsb (fun k => str_eqb k (key_of (gg_path c'))) keys then Some None else None.
Proof.
  intros Hc Hs. induction keys as [|k keys IH]; [reflexivity|]. cbn [flat_map existsb].
  rewrite last_gg_app, IH, (last_gg_del_action c c' k Hc Hs).
  destruct (existsb _ keys); [now rewrite Bool.orb_true_r|]. now rewrite Bool.orb_false_r.
Qed.
Lemma last_lw_del_actions c c' keys :
  c <> 0 -> small c' ->
  last_lw c' (flat_map (del_action c) keys) = if existsb (fun k => str_eqb k (key_of (lw_path c'))) keys then Some None else None.
Proof.
  intros Hc Hs. induction keys as [|k keys IH]; [reflexivity|]. cbn [flat_map existsb].
  rewrite last_lw_app, IH, (last_lw_del_action c c' k Hc Hs).
  destruct (existsb _ keys); [now rewrite Bool.orb_true_r|]. now rewrite Bool.orb_false_r.
Qed.

(* ---- one request at a time ---- *)
Lemma gg_lw_differ c c' : gg_path c <> lw_path c'.
Proof. unfold gg_path, lw_path. intros E. injection E as _ E. discriminate. Qed.

Lemma small_path_inj_gg c c' : c < 256 -> c' < 256 -> gg_path c = gg_path c' -> c = c'.
Proof. intros H H' E. unfold gg_path in E. injection E as E. now apply client_str_inj. Qed.
Lemma small_path_inj_lw c c' : c < 256 -> c' < 256 -> lw_path c = lw_path c' -> c = c'.
Proof. intros H H' E. unfold lw_path in E. injection E as E. now apply client_str_inj. Qed.

Lemma is_reg_topic_split leaf k : is_reg_topic leaf k = true -> exists a cs, split slash k = [a; s_clients; cs; leaf].
Proof.
  unfold is_reg_topic. destruct (split slash k) as [|a [|b [|cs [|d [|e r]]]]]; try discriminate.
  intros H. apply andb_prop in H as [H1 H2]. apply str_eqb_eq in H1, H2. subst. eauto.
Qed.

(* a client that is allowed to write a key under $SYS/ writes its own registration *)
Lemma guard_own c k a cs leaf :
  c <> 0 -> check_read_only k c = None -> starts_with s_SYS_prefix k = true -> split slash k = [a; s_clients; cs; leaf] ->
  a = s_SYS /\ cs = client_str c.
Proof.
  intros Hc Hg Hp Hs. destruct (sys_prefix_split k Hp) as (y & r & Hs'). rewrite Hs in Hs'. injection Hs' as -> _ _.
  split; [reflexivity|]. unfold check_read_only in Hg. destruct k as [|x k]; [discriminate|].
  destruct (N.eqb_spec c 0); [contradiction|]. rewrite Hs in Hg. cbn [negb] in Hg. rewrite str_eqb_refl in Hg. cbn [negb] in Hg.
  rewrite str_eqb_refl in Hg. cbn [negb orb] in Hg. destruct (str_eqb_spec cs (client_str c)) as [->|]; [reflexivity|discriminate].
Qed.

Lemma do_insert_guard s c k e f : o_res (snd (do_insert s c k e f)) = RUnit -> check_read_only k c = None.
Proof. unfold do_insert. destruct (check_read_only k c); [discriminate|reflexivity]. Qed.

Definition gg_val (e : entry) : option (list str) := match entry_val e with JNull => None | v => dec_grave_goods v end.
Definition lw_val (e : entry) : option (list (str * json)) := match entry_val e with JNull => None | v => dec_last_will v end.

Lemma get_gg_AGG t c c' g : c_get c' (t_gg (apply_all t [AGG c g])) = if N.eqb c' c then g else c_get c' (t_gg t).
Proof. rewrite apply_all_gg by (repeat constructor). cbn [last_gg]. now destruct (N.eqb c' c). Qed.
Lemma get_lw_AGG t c c' g : c_get c' (t_lw (apply_all t [AGG c g])) = c_get c' (t_lw t).
Proof. rewrite apply_all_lw by (repeat constructor). reflexivity. Qed.
Lemma get_lw_ALW t c c' g : c_get c' (t_lw (apply_all t [ALW c g])) = if N.eqb c' c then g else c_get c' (t_lw t).
Proof. rewrite apply_all_lw by (repeat constructor). cbn [last_lw]. now destruct (N.eqb c' c). Qed.
Lemma get_gg_ALW t c c' g : c_get c' (t_gg (apply_all t [ALW c g])) = c_get c' (t_gg t).
Proof. rewrite apply_all_gg by (repeat constructor). reflexivity. Qed.

Lemma reg_track_insert s t c k e force :
  Inv s -> RegTracks s t -> small c ->
  o_res (snd (do_insert s c k e force)) = RUnit ->
  (forall ex ch e' p, decide (abs s p) e force = DOk ex ch e' -> entry_val e' = entry_val e) ->
  RegTracks (fst (do_insert s c k e force)) (apply_all t (upd_action (Some c) k e)).
Proof.
  intros HI HT (Hc0 & Hc) Hres Hval. pose proof (do_insert_effect s c k e force HI) as H. cbv zeta in H. rewrite Hres in H.
  destruct H as (p & ex & ch & e' & Hp & Hd & _ & Hm). specialize (Hval ex ch e' p Hd).
  pose proof (do_insert_guard s c k e force Hres) as Hg.
  pose proof (key_of_path k p Hp) as Hk. pose proof (proj1 (parse_segments_good k p Hp)) as Hsp.
  intros c' Hs'. pose proof Hs' as (Hs0 & Hs1). destruct (HT c' Hs') as (HTg & HTl).
  destruct (key_facts_spec c' Hs') as (Sg & Sl & Pg & Pl & Rg & Rgl & Rl & Rlg & _ & _).
  unfold gg_store, lw_store. rewrite !(Hm _). unfold m_set.
  destruct (path_eqb_spec p (gg_path c')) as [Eg|Ng].
  - (* the grave goods key of c': then c' = c *)
    rewrite Eg in Hk, Hsp. rewrite Hk. unfold upd_action. rewrite Pg, Rg.
    assert (c' = c).
    { rewrite <- Hk in Pg. destruct (guard_own c k s_SYS (client_str c') s_graveGoods Hc0 Hg Pg) as (_ & E); [now rewrite <- Hsp|].
      now apply client_str_inj. }
    subst c'. destruct (path_eqb_spec p (lw_path c)) as [E|_]; [rewrite Eg in E; now elim (gg_lw_differ c c)|].
    rewrite get_gg_AGG, get_lw_AGG, N.eqb_refl. split; [|exact HTl]. unfold gg_dec. now rewrite Hval.
  - destruct (path_eqb_spec p (lw_path c')) as [El|Nl].
    + rewrite El in Hk, Hsp. rewrite Hk. unfold upd_action. rewrite Pl, Rlg, Rl.
      assert (c' = c).
      { rewrite <- Hk in Pl. destruct (guard_own c k s_SYS (client_str c') s_lastWill Hc0 Hg Pl) as (_ & E); [now rewrite <- Hsp|].
        now apply client_str_inj. }
      subst c'. rewrite get_gg_ALW, get_lw_ALW, N.eqb_refl. split; [exact HTg|]. unfold lw_dec. now rewrite Hval.
    + (* another key: the entries of c' stay, in the store and in the tables *)
      fold (gg_store s c') (lw_store s c'). rewrite <- HTg, <- HTl.
      assert (Hno : forall leaf, is_reg_topic leaf k = true -> starts_with s_SYS_prefix k = true -> p = [s_SYS; s_clients; client_str c; leaf]).
      { intros leaf Hr Hpre. destruct (is_reg_topic_split leaf k Hr) as (a & cs & Hs).
        destruct (guard_own c k a cs leaf Hc0 Hg Hpre Hs) as (-> & ->). now rewrite Hsp. }
      unfold upd_action. destruct (starts_with s_SYS_prefix k) eqn:Epre.
      * destruct (is_reg_topic s_graveGoods k) eqn:Er1.
        { rewrite get_gg_AGG, get_lw_AGG. destruct (N.eqb_spec c' c) as [->|]; [|auto]. now elim Ng; apply Hno. }
        destruct (is_reg_topic s_lastWill k) eqn:Er2.
        { rewrite get_gg_ALW, get_lw_ALW. destruct (N.eqb_spec c' c) as [->|]; [|auto]. now elim Nl; apply Hno. }
        unfold apply_all. cbn [fold_left]. auto.
      * unfold apply_all. cbn [fold_left apply_action t_gg t_lw]. auto.
Qed.

Lemma parse_reg_key_gg c k p : small c -> parse_segments k = Ok p -> (p = gg_path c <-> k = key_of (gg_path c)).
Proof.
  intros Hs Hp. destruct (key_facts_spec c Hs) as (Sg & _). split.
  - intros ->. now apply key_of_path.
  - intros ->. apply parse_segments_good in Hp as (-> & _). exact Sg.
Qed.
Lemma parse_reg_key_lw c k p : small c -> parse_segments k = Ok p -> (p = lw_path c <-> k = key_of (lw_path c)).
Proof.
  intros Hs Hp. destruct (key_facts_spec c Hs) as (_ & Sl & _). split.
  - intros ->. now apply key_of_path.
  - intros ->. apply parse_segments_good in Hp as (-> & _). exact Sl.
Qed.

Lemma reg_track_delete s t c k :
  Inv s -> RegTracks s t -> c <> 0 ->
  RegTracks (fst (do_delete s c k))
            (apply_all t (match o_res (snd (do_delete s c k)) with RValue _ => del_action c k | _ => [] end)).
Proof.
  intros HI HT Hc0. pose proof (do_delete_effect s c k HI) as H. cbv zeta in H.
  destruct (o_res (snd (do_delete s c k))) eqn:Er; try contradiction.
  - destruct H as (p & e & Hp & Ha & _ & _ & Hm). intros c' Hs'. destruct (HT c' Hs') as (HTg & HTl).
    rewrite apply_all_gg, apply_all_lw by (unfold del_action; destruct (starts_with _ _); [destruct (N.eqb c 0); [constructor|];
      destruct (reg_del_shape k) as [->|(a & cs & X & [(_ & _ & ->)|(_ & _ & ->)])]|]; repeat constructor).
    rewrite (last_gg_del_action c c' k Hc0 Hs'), (last_lw_del_action c c' k Hc0 Hs').
    unfold gg_store, lw_store. rewrite !(Hm _). unfold m_del. split.
    + destruct (path_eqb_spec p (gg_path c')) as [E|N]; destruct (str_eqb_spec k (key_of (gg_path c'))) as [E'|N']; try reflexivity.
      * elim N'. now apply (parse_reg_key_gg c' k p).
      * elim N. now apply (parse_reg_key_gg c' k p).
      * exact HTg.
    + destruct (path_eqb_spec p (lw_path c')) as [E|N]; destruct (str_eqb_spec k (key_of (lw_path c'))) as [E'|N']; try reflexivity.
      * elim N'. now apply (parse_reg_key_lw c' k p).
      * elim N. now apply (parse_reg_key_lw c' k p).
      * exact HTl.
  - destruct H as (_ & Hm). intros c' Hs'. unfold apply_all. cbn [fold_left]. unfold gg_store, lw_store. rewrite !(Hm _). now apply HT.
Qed.

(* the keys a pattern deletion removed *)
Lemma existsb_removed s pat q :
  Inv s -> split slash (key_of q) = q ->
  existsb (fun k => str_eqb k (key_of q)) (map fst (map kv_of (collect (data s) [] pat))) =
  match abs s q with Some _ => store_match pat q | None => false end.
Proof.
  intros HI Hq. pose proof HI as (Hw & _).
  destruct (existsb _ _) eqn:Ex.
  - apply existsb_exists in Ex as (k & Hin & Ek). apply str_eqb_eq in Ek. subst k.
    rewrite map_map in Hin. apply in_map_iff in Hin as ([q' e] & Ek & Hin). cbn [kv_of fst snd] in Ek.
    apply (collect_spec _ _ _ _ _ Hw) in Hin as (k' & -> & Hl & Hm). cbn [app] in *.
    pose proof (key_of_parse s k' e HI Hl) as Hp. rewrite Ek in Hp. apply parse_segments_good in Hp as (Hk' & _).
    rewrite Hq in Hk'. subst k'. unfold abs. now rewrite Hl, Hm.
  - destruct (abs s q) as [e|] eqn:Ea; [|reflexivity]. destruct (store_match pat q) eqn:Em; [|reflexivity].
    exfalso. apply Bool.not_true_iff_false in Ex. apply Ex. apply existsb_exists. exists (key_of q). split; [|apply str_eqb_refl].
    rewrite map_map. apply in_map_iff. exists (q, e). split; [reflexivity|].
    apply (collect_spec _ _ _ _ _ Hw). exists q. auto.
Qed.

Lemma del_actions_no_clear c keys : Forall no_clear (flat_map (del_action c) keys).
Proof.
  apply Forall_forall. intros a Hin. apply in_flat_map in Hin as (k & _ & Hin). unfold del_action in Hin.
  destruct (starts_with _ _); [destruct (N.eqb c 0); [destruct Hin|]|destruct Hin as [<-|[]]; exact I].
  destruct (reg_del_shape k) as [E|(a' & cs & X & [(_ & _ & E)|(_ & _ & E)])]; rewrite E in Hin; [destruct Hin| |]; destruct Hin as [<-|[]]; exact I.
Qed.

Lemma reg_track_pdelete s t c pat :
  Inv s -> RegTracks s t -> c <> 0 ->
  RegTracks (fst (do_pdelete s c false pat))
            (apply_all t (match o_res (snd (do_pdelete s c false pat)) with RKvs l => flat_map (fun kv => del_action c (fst kv)) l | _ => [] end)).
Proof.
  intros HI HT Hc0. pose proof (do_pdelete_effect s c pat HI) as H. cbv zeta in H.
  destruct (o_res (snd (do_pdelete s c false pat))) eqn:Er; try contradiction.
  2:{ rewrite H. unfold apply_all. cbn [fold_left]. exact HT. }
  destruct H as (_ & Hm & ->).
  replace (flat_map (fun kv : str * json => del_action c (fst kv)) (map kv_of (collect (data s) [] (kseg_parse pat))))
      with (flat_map (del_action c) (map fst (map kv_of (collect (data s) [] (kseg_parse pat)))))
      by (generalize (map kv_of (collect (data s) [] (kseg_parse pat))); intros l; induction l as [|x l IH]; cbn; [reflexivity|now rewrite IH]).
    intros c' Hs'. destruct (HT c' Hs') as (HTg & HTl). destruct (key_facts_spec c' Hs') as (Sg & Sl & _).
    rewrite apply_all_gg, apply_all_lw by apply del_actions_no_clear.
    rewrite (last_gg_del_actions c c' _ Hc0 Hs'), (last_lw_del_actions c c' _ Hc0 Hs').
    rewrite (existsb_removed s _ (gg_path c') HI Sg), (existsb_removed s _ (lw_path c') HI Sl).
    unfold gg_store, lw_store in *. rewrite !(Hm _). unfold m_pdel. split.
    + destruct (abs s (gg_path c')) as [e|]; destruct (store_match (kseg_parse pat) (gg_path c')); try reflexivity; exact HTg.
    + destruct (abs s (lw_path c')) as [e|]; destruct (store_match (kseg_parse pat) (lw_path c')); try reflexivity; exact HTl.
Qed.

(* ---- runs of elementary requests, seen from one path ---- *)
Definition misses (q : list str) (o : op) : Prop :=
  match o with OSet _ k _ _ => parse_segments k <> Ok q | _ => True end.

Lemma end_run_keep q ops : forall s,
  Inv s -> LenInv s -> Forall end_op ops -> Forall (misses q) ops -> nocrash (trace s ops) ->
  Inv (final s ops) /\ LenInv (final s ops) /\ (abs (final s ops) q = abs s q \/ abs (final s ops) q = None).
Proof.
  induction ops as [|o ops IH]; intros s HI HL He Hmi Hnc; [cbn; auto|].
  apply Forall_cons_iff in He as (He & Hes). apply Forall_cons_iff in Hmi as (Hm & Hms).
  assert (Hc : o_res (snd (step s o)) <> RCrash).
  { assert (H : is_crash (snd (step s o)) = false) by (apply Hnc; now left). unfold is_crash in H.
    destruct (o_res (snd (step s o))); congruence. }
  assert (Hnc' : nocrash (trace (fst (step s o)) ops)) by (intros x Hx; apply Hnc; now right).
  assert (Hany : any_req o) by (destruct o; try contradiction; unfold any_req; cbn; tauto).
  assert (Himp : import_ok o) by (destruct o; try contradiction; exact I).
  destruct (step_refines_any s o HI HL Hany Himp Hc) as (HI' & HL' & Hw & _).
  change (final s (o :: ops)) with (final (fst (step s o)) ops).
  destruct (IH (fst (step s o)) HI' HL' Hes Hms Hnc') as (HI2 & HL2 & Hq). split; [exact HI2|]. split; [exact HL2|].
  assert (Hstep : abs (fst (step s o)) q = abs s q \/ abs (fst (step s o)) q = None).
  { destruct o; try contradiction; cbn [write_effect misses] in Hw, Hm.
    - destruct (o_res (snd (step s (OSet c k v force)))); try (left; now rewrite Hw).
      destruct Hw as (p & Hp & Hw). left. rewrite Hw. unfold m_set. destruct (path_eqb_spec p q) as [->|]; [contradiction|reflexivity].
    - destruct (o_res (snd (step s (OPDelete c p)))); try (left; now rewrite Hw).
      rewrite Hw. unfold m_pdel. destruct (store_match _ q); [now right|now left].
    - left. destruct (o_res (snd (step s (OUnsubscribe c t)))); now rewrite Hw.
    - left. destruct (o_res (snd (step s (OUnsubscribeLs c t)))); now rewrite Hw. }
  destruct Hq as [Hq|Hq]; [|now right]. rewrite Hq. exact Hstep.
Qed.

Lemma sets_run_same q ops : forall s,
  Inv s -> LenInv s -> Forall (fun o => match o with OSet _ _ _ _ => True | _ => False end) ops -> Forall (misses q) ops ->
  nocrash (trace s ops) -> abs (final s ops) q = abs s q.
Proof.
  induction ops as [|o ops IH]; intros s HI HL He Hmi Hnc; [reflexivity|].
  apply Forall_cons_iff in He as (He & Hes). apply Forall_cons_iff in Hmi as (Hm & Hms).
  assert (Hc : o_res (snd (step s o)) <> RCrash).
  { assert (H : is_crash (snd (step s o)) = false) by (apply Hnc; now left). unfold is_crash in H.
    destruct (o_res (snd (step s o))); congruence. }
  assert (Hnc' : nocrash (trace (fst (step s o)) ops)) by (intros x Hx; apply Hnc; now right).
  assert (Hany : any_req o) by (destruct o; try contradiction; unfold any_req; cbn; tauto).
  assert (Himp : import_ok o) by (destruct o; try contradiction; exact I).
  destruct (step_refines_any s o HI HL Hany Himp Hc) as (HI' & HL' & Hw & _).
  change (final s (o :: ops)) with (final (fst (step s o)) ops). rewrite (IH _ HI' HL' Hes Hms Hnc').
  destruct o; try contradiction; cbn [write_effect misses] in Hw, Hm.
  destruct (o_res (snd (step s (OSet c k v force)))); try (now rewrite Hw).
  destruct Hw as (p & Hp & Hw). rewrite Hw. unfold m_set. destruct (path_eqb_spec p q) as [->|]; [contradiction|reflexivity].
Qed.

(* the pattern of the server's own clean-up at a session end, for the 255 small clients *)
Definition own_pat (c : cid) : str := topic [s_SYS; s_clients; client_str c; s_hash].
Definition pat_facts (c : cid) : bool :=
  let p := kseg_parse (own_pat c) in
  wf_pat p && store_match p (gg_path c) && store_match p (lw_path c) && match own_pat c with [] => false | _ => true end.
Lemma pat_facts_all : forallb pat_facts (map N.of_nat (seq 1 255)) = true.
Proof. vm_compute. reflexivity. Qed.
Lemma pat_facts_small c : small c ->
  wf_pat (kseg_parse (own_pat c)) = true /\ store_match (kseg_parse (own_pat c)) (gg_path c) = true /\
  store_match (kseg_parse (own_pat c)) (lw_path c) = true /\ check_read_only (own_pat c) 0 = None.
Proof.
  intros (Hne & Hlt). pose proof pat_facts_all as E. rewrite forallb_forall in E.
  assert (F : pat_facts c = true).
  { apply E. apply in_map_iff. exists (N.to_nat c). split; [apply N2Nat.id|]. apply in_seq. lia. }
  unfold pat_facts in F. cbv zeta in F. apply andb_prop in F as [F F4]. apply andb_prop in F as [F F3]. apply andb_prop in F as [F1 F2].
  repeat split; assumption.
Qed.

(* ---- the registrations of other clients that a burial removed ---- *)
Lemma last_gg_not_own c c' L : c' <> c -> last_gg c' (filter (not_own c) L) = last_gg c' L.
Proof.
  intros Hne. induction L as [|a L IH]; [reflexivity|]. cbn [filter last_gg].
  destruct (not_own c a) eqn:En; cbn [last_gg]; rewrite IH; [reflexivity|].
  destruct (last_gg c' L); [reflexivity|]. destruct a as [| |x g|x g|]; try discriminate; [|reflexivity].
  cbn [not_own] in En. apply Bool.negb_false_iff, N.eqb_eq in En. subst x. now destruct (N.eqb_spec c' c).
Qed.
Lemma last_lw_not_own c c' L : c' <> c -> last_lw c' (filter (not_own c) L) = last_lw c' L.
Proof.
  intros Hne. induction L as [|a L IH]; [reflexivity|]. cbn [filter last_lw].
  destruct (not_own c a) eqn:En; cbn [last_lw]; rewrite IH; [reflexivity|].
  destruct (last_lw c' L); [reflexivity|]. destruct a as [| |x g|x g|]; try discriminate; [reflexivity|].
  cbn [not_own] in En. apply Bool.negb_false_iff, N.eqb_eq in En. subst x. now destruct (N.eqb_spec c' c).
Qed.

Definition is_none {A} (o : option A) : bool := match o with None => true | Some _ => false end.

(* a stored path under $SYS/: deleting its key, seen from the tables of a small client *)
Lemma last_gg_reg_del c' q y r :
  small c' -> q = s_SYS :: y :: r -> split slash (key_of q) = q ->
  last_gg c' (reg_del (key_of q)) = if path_eqb q (gg_path c') then Some None else None.
Proof.
  intros Hs Hq Hsp. assert (Hpre : starts_with s_SYS_prefix (key_of q) = true) by (apply (prefixed_of_split _ y r); now rewrite Hsp).
  pose proof (last_gg_del_action 1 c' (key_of q) ltac:(discriminate) Hs) as H. unfold del_action in H. rewrite Hpre in H. cbn [N.eqb] in H.
  rewrite H. destruct (key_facts_spec c' Hs) as (Sg & _).
  destruct (str_eqb_spec (key_of q) (key_of (gg_path c'))) as [E|N]; destruct (path_eqb_spec q (gg_path c')) as [E'|N']; try reflexivity.
  - elim N'. now rewrite <- Hsp, E, Sg.
  - elim N. now rewrite E'.
Qed.
Lemma last_lw_reg_del c' q y r :
  small c' -> q = s_SYS :: y :: r -> split slash (key_of q) = q ->
  last_lw c' (reg_del (key_of q)) = if path_eqb q (lw_path c') then Some None else None.
Proof.
  intros Hs Hq Hsp. assert (Hpre : starts_with s_SYS_prefix (key_of q) = true) by (apply (prefixed_of_split _ y r); now rewrite Hsp).
  pose proof (last_lw_del_action 1 c' (key_of q) ltac:(discriminate) Hs) as H. unfold del_action in H. rewrite Hpre in H. cbn [N.eqb] in H.
  rewrite H. destruct (key_facts_spec c' Hs) as (_ & Sl & _).
  destruct (str_eqb_spec (key_of q) (key_of (lw_path c'))) as [E|N]; destruct (path_eqb_spec q (lw_path c')) as [E'|N']; try reflexivity.
  - elim N'. now rewrite <- Hsp, E, Sl.
  - elim N. now rewrite E'.
Qed.

Definition sys_stored (m : list str * entry) : Prop :=
  (exists y r, fst m = s_SYS :: y :: r) /\ split slash (key_of (fst m)) = fst m.

Lemma last_gg_flat c' (after : core) ms :
  small c' -> Forall sys_stored ms ->
  last_gg c' (flat_map (fun m : list str * entry => match lookup (data after) (fst m) with None => reg_del (key_of (fst m)) | Some _ => [] end) ms) =
  if existsb (fun m => path_eqb (fst m) (gg_path c') && is_none (lookup (data after) (fst m))) ms then Some None else None.
Proof.
  intros Hs. induction 1 as [|m ms ((y & r & Hq) & Hsp) _ IH]; [reflexivity|]. cbn [flat_map existsb].
  rewrite last_gg_app, IH. destruct (existsb _ ms); [now rewrite Bool.orb_true_r|]. rewrite Bool.orb_false_r.
  destruct (lookup (data after) (fst m)); cbn [is_none]; [now rewrite Bool.andb_false_r|]. rewrite Bool.andb_true_r.
  now apply (last_gg_reg_del c' (fst m) y r).
Qed.
Lemma last_lw_flat c' (after : core) ms :
  small c' -> Forall sys_stored ms ->
  last_lw c' (flat_map (fun m : list str * entry => match lookup (data after) (fst m) with None => reg_del (key_of (fst m)) | Some _ => [] end) ms) =
  if existsb (fun m => path_eqb (fst m) (lw_path c') && is_none (lookup (data after) (fst m))) ms then Some None else None.
Proof.
  intros Hs. induction 1 as [|m ms ((y & r & Hq) & Hsp) _ IH]; [reflexivity|]. cbn [flat_map existsb].
  rewrite last_lw_app, IH. destruct (existsb _ ms); [now rewrite Bool.orb_true_r|]. rewrite Bool.orb_false_r.
  destruct (lookup (data after) (fst m)); cbn [is_none]; [now rewrite Bool.andb_false_r|]. rewrite Bool.andb_true_r.
  now apply (last_lw_reg_del c' (fst m) y r).
Qed.

Lemma collected_sys_stored s leaf : Inv s -> Forall sys_stored (collect (data s) [] (sys_clients_pat leaf)).
Proof.
  intros HI. pose proof HI as (Hw & _). apply Forall_forall. intros [q e] Hin.
  apply (collect_spec _ _ _ _ _ Hw) in Hin as (k & -> & Hl & Hm). cbn [app fst] in *. split.
  - unfold sys_clients_pat in Hm. destruct k as [|a [|b k]]; cbn [store_match] in Hm; try discriminate.
    + apply andb_prop in Hm as [_ Hm]. discriminate.
    + apply andb_prop in Hm as [Hm _]. apply str_eqb_eq in Hm. subst a. exists b, k. reflexivity.
  - pose proof (key_of_parse s k e HI Hl) as Hp. apply parse_segments_good in Hp as (Hp & _). cbn [fst]. now symmetry.
Qed.

Lemma existsb_collected s (after : core) leaf q :
  Inv s -> store_match (sys_clients_pat leaf) q = true ->
  existsb (fun m : list str * entry => path_eqb (fst m) q && is_none (lookup (data after) (fst m))) (collect (data s) [] (sys_clients_pat leaf)) =
  match abs s q with Some _ => is_none (abs after q) | None => false end.
Proof.
  intros HI Hm. pose proof HI as (Hw & _). destruct (existsb _ _) eqn:Ex.
  - apply existsb_exists in Ex as ([q' e] & Hin & Hb). cbn [fst] in Hb. apply andb_prop in Hb as [E Hn].
    destruct (path_eqb_spec q' q) as [->|]; [|discriminate].
    apply (collect_spec _ _ _ _ _ Hw) in Hin as (k & Ek & Hl & _). cbn [app] in Ek. subst k. unfold abs. now rewrite Hl.
  - destruct (abs s q) as [e|] eqn:Ea; [|reflexivity]. destruct (is_none (abs after q)) eqn:En; [|reflexivity].
    exfalso. apply Bool.not_true_iff_false in Ex. apply Ex. apply existsb_exists. exists (q, e). split.
    + apply (collect_spec _ _ _ _ _ Hw). exists q. auto.
    + cbn [fst]. now rewrite path_eqb_refl.
Qed.

Lemma existsb_not_collected s (after : core) leaf q :
  Inv s -> store_match (sys_clients_pat leaf) q = false ->
  existsb (fun m : list str * entry => path_eqb (fst m) q && is_none (lookup (data after) (fst m))) (collect (data s) [] (sys_clients_pat leaf)) = false.
Proof.
  intros HI Hm. pose proof HI as (Hw & _). destruct (existsb _ _) eqn:Ex; [|reflexivity].
  apply existsb_exists in Ex as ([q' e] & Hin & Hb). cbn [fst] in Hb. apply andb_prop in Hb as [E Hn].
  destruct (path_eqb_spec q' q) as [->|]; [|discriminate].
  apply (collect_spec _ _ _ _ _ Hw) in Hin as (k & Ek & _ & Hm'). cbn [app] in Ek. subst k. congruence.
Qed.

Lemma match_own_leaf c leaf : store_match (sys_clients_pat leaf) [s_SYS; s_clients; client_str c; leaf] = true.
Proof. unfold sys_clients_pat. cbn [store_match]. now rewrite !str_eqb_refl. Qed.

Lemma removed_regs_gg s (after : core) c c' :
  Inv s -> small c' -> c' <> c ->
  last_gg c' (removed_regs c s after) =
  match abs s (gg_path c') with Some _ => if is_none (abs after (gg_path c')) then Some None else None | None => None end.
Proof.
  intros HI Hs Hne. unfold removed_regs. rewrite (last_gg_not_own c c' _ Hne).
  rewrite (last_gg_flat c' after _ Hs) by (apply Forall_app; split; now apply collected_sys_stored).
  rewrite existsb_app, (existsb_collected s after s_graveGoods (gg_path c') HI (match_own_leaf c' s_graveGoods)).
  rewrite (existsb_not_collected s after s_lastWill (gg_path c') HI) by (unfold sys_clients_pat, gg_path; cbn [store_match]; rewrite !str_eqb_refl; reflexivity).
  rewrite Bool.orb_false_r. destruct (abs s (gg_path c')); [|reflexivity]. now destruct (is_none _).
Qed.
Lemma removed_regs_lw s (after : core) c c' :
  Inv s -> small c' -> c' <> c ->
  last_lw c' (removed_regs c s after) =
  match abs s (lw_path c') with Some _ => if is_none (abs after (lw_path c')) then Some None else None | None => None end.
Proof.
  intros HI Hs Hne. unfold removed_regs. rewrite (last_lw_not_own c c' _ Hne).
  rewrite (last_lw_flat c' after _ Hs) by (apply Forall_app; split; now apply collected_sys_stored).
  rewrite existsb_app, (existsb_collected s after s_lastWill (lw_path c') HI (match_own_leaf c' s_lastWill)).
  rewrite (existsb_not_collected s after s_graveGoods (lw_path c') HI) by (unfold sys_clients_pat, lw_path; cbn [store_match]; rewrite !str_eqb_refl; reflexivity).
  cbn [orb]. destruct (abs s (lw_path c')); [|reflexivity]. now destruct (is_none _).
Qed.

(* ---- the end of a session ---- *)
Definition no_zombie (s : core) (c : cid) : Prop := Forall (fun kv => starts_with s_SYS_prefix (fst kv) = false) (lw_of s c).

Lemma nocrash_app a b : nocrash (a ++ b) -> nocrash a /\ nocrash b.
Proof. intros H. split; intros x Hx; apply H; apply in_or_app; [now left|now right]. Qed.

Lemma reg_paths_4 c q : q = gg_path c \/ q = lw_path c -> exists x leaf, q = [s_SYS; s_clients; x; leaf].
Proof. intros [->| ->]; unfold gg_path, lw_path; eauto. Qed.

Lemma end_ops_miss s c c' q :
  small c' -> no_zombie s c -> q = gg_path c' \/ q = lw_path c' -> Forall (misses q) (end_ops s c).
Proof.
  intros Hs Hz Hq. destruct (key_facts_spec c' Hs) as (_ & _ & Pg & Pl & _).
  assert (Hpre : forall k, parse_segments k = Ok q -> starts_with s_SYS_prefix k = true).
  { intros k Hp. rewrite (key_of_path k q Hp). now destruct Hq as [-> | ->]. }
  unfold end_ops. apply Forall_forall. intros o Hin.
  repeat (apply in_app_iff in Hin as [Hin|Hin]); try (apply in_map_iff in Hin as (x & <- & Hx)); try (destruct Hin as [<-|[]]); try exact I.
  - cbn [misses]. intros Hp. apply parse_segments_good in Hp as (Hp & _). destruct (reg_paths_4 c' q Hq) as (x & leaf & ->).
    vm_compute in Hp. discriminate.
  - cbn [misses]. intros Hp. unfold no_zombie in Hz. rewrite Forall_forall in Hz. specialize (Hz x Hx). rewrite (Hpre _ Hp) in Hz. discriminate.
Qed.

Theorem reg_track_session_end s t c :
  Inv s -> LenInv s -> RegTracks s t -> small c -> no_zombie s c ->
  o_res (snd (step s (ODisconnected c))) = RUnit ->
  RegTracks (fst (step s (ODisconnected c))) (apply_all t (actions_of s (ODisconnected c))).
Proof.
  intros HI HL HT Hsc Hz Hres. pose proof Hsc as (Hc0 & Hclt).
  assert (H0 : N.eqb c 0 = false) by now apply N.eqb_neq.
  assert (Hc : is_crash (snd (do_disconnected s c)) = false) by (unfold is_crash; cbn [step] in Hres; now rewrite Hres).
  destruct (disconnected_is_run s c H0 Hc) as (F & _ & _ & Nc).
  destruct (prep_same s c) as (Ed & El & _).
  assert (Ea : abs (prep s c) = abs s) by (unfold abs; now rewrite Ed).
  assert (HIp : Inv (prep s c)) by (unfold Inv in *; now rewrite Ed).
  assert (HLp : LenInv (prep s c)) by (unfold LenInv in *; now rewrite Ed, El).
  unfold actions_of. rewrite Hres. cbn [step] in *. set (s' := fst (do_disconnected s c)) in *.
  (* every action is about a row or a registration; none clears *)
  assert (Hregs : forall a, In a (removed_regs c s s') -> match a with AGG _ _ | ALW _ _ => True | _ => False end).
  { intros a Hin. unfold removed_regs in Hin. apply filter_In in Hin as (Hin & _). apply in_flat_map in Hin as (m & _ & Hin).
    destruct (lookup (data s') (fst m)); [destruct Hin|].
    pose proof (reg_del_v2_only (key_of (fst m))) as Hf. rewrite Forall_forall in Hf. specialize (Hf a Hin).
    destruct a; try contradiction; exact I. }
  assert (Hnc : Forall no_clear (removed_keys s s' ++ removed_regs c s s' ++ written_keys s s' ++ [AGG c None; ALW c None])).
  { apply Forall_forall. intros a Hin. unfold removed_keys, written_keys in Hin.
    repeat (apply in_app_iff in Hin as [Hin|Hin]).
    - apply in_flat_map in Hin as (m & _ & Hin). destruct (lookup (data s') (fst m)); [destruct Hin|]. destruct Hin as [<-|[]]. exact I.
    - specialize (Hregs a Hin). destruct a; try contradiction; exact I.
    - apply in_flat_map in Hin as (m & _ & Hin). destruct (entry_eqb' _ _); [destruct Hin|]. destruct Hin as [<-|[]]. exact I.
    - destruct Hin as [<-|[<-|[]]]; exact I. }
  assert (Hrk : forall x, last_gg x (removed_keys s s') = None /\ last_lw x (removed_keys s s') = None).
  { intros x. unfold removed_keys. induction (user_all s) as [|m ms IH]; [split; reflexivity|]. cbn [flat_map].
    rewrite last_gg_app, last_lw_app. destruct IH as (-> & ->). destruct (lookup (data s') (fst m)); split; reflexivity. }
  assert (Hwk : forall x, last_gg x (written_keys s s') = None /\ last_lw x (written_keys s s') = None).
  { intros x. unfold written_keys. induction (user_all s') as [|m ms IH]; [split; reflexivity|]. cbn [flat_map].
    rewrite last_gg_app, last_lw_app. destruct IH as (-> & ->). destruct (entry_eqb' _ _); split; reflexivity. }
  intros c' Hs'. destruct (HT c' Hs') as (HTg & HTl).
  rewrite apply_all_gg, apply_all_lw by exact Hnc.
  rewrite !last_gg_app, !last_lw_app. rewrite (proj1 (Hrk c')), (proj2 (Hrk c')), (proj1 (Hwk c')), (proj2 (Hwk c')).
  cbn [last_gg last_lw].
  destruct (N.eqb_spec c' c) as [->|Hne].
  - (* the ending client: its registrations are gone from the store *)
    assert (Hgone : forall q, q = gg_path c \/ q = lw_path c -> abs s' q = None).
    { intros q Hq. rewrite F.
      set (PRE := [OSet 0 (topic [s_SYS; s_clients]) (jnum (N.of_nat (length (filter (fun x => negb (N.eqb x c)) (clients s))))) true]
                  ++ map (fun id => OUnsubscribe (fst id) (snd id)) (ids_of c (subscriptions s))
                  ++ map (fun id => OUnsubscribeLs (fst id) (snd id)) (ids_of c (ls_subscriptions s))).
      set (PD := OPDelete 0 (own_pat c)).
      set (POST := map (fun g => OPDelete c g) (gg_of s c) ++ map (fun kv => OSet c (fst kv) (snd kv) true) (lw_of s c)).
      assert (Eops : end_ops s c = PRE ++ [PD] ++ POST) by (unfold end_ops, PRE, PD, POST, own_pat; rewrite <- !app_assoc; reflexivity).
      pose proof (end_ops_end s c) as He. pose proof (end_ops_miss s c c q Hsc Hz Hq) as Hmi. pose proof Nc as Hn.
      rewrite Eops in He, Hmi, Hn |- *.
      apply Forall_app in He as (He1 & He3). apply Forall_app in He3 as (He2 & He3).
      apply Forall_app in Hmi as (Hm1 & Hm3). apply Forall_app in Hm3 as (Hm2 & Hm3).
      rewrite trace_app in Hn. apply nocrash_app in Hn as (Hn1 & Hn3). rewrite trace_app in Hn3. apply nocrash_app in Hn3 as (Hn2 & Hn3).
      rewrite !final_app in *.
      destruct (end_run_keep q PRE (prep s c) HIp HLp He1 Hm1 Hn1) as (HI1 & HL1 & _).
      set (s1 := final (prep s c) PRE) in *.
      destruct (end_run_keep q [PD] s1 HI1 HL1 He2 Hm2 Hn2) as (HI2 & HL2 & _).
      assert (E2 : abs (final s1 [PD]) q = None).
      { subst PD. unfold final. cbn [fold_left step]. destruct (pat_facts_small c Hsc) as (Wf & Mg & Ml & Ck).
        rewrite (do_pdelete_accepts s1 0 _ HI1 Ck Wf). unfold m_pdel. now destruct Hq as [-> | ->]; rewrite ?Mg, ?Ml. }
      destruct (end_run_keep q POST (final s1 [PD]) HI2 HL2 He3 Hm3 Hn3) as (_ & _ & [E|E]); [now rewrite E|exact E]. }
    unfold gg_store, lw_store. rewrite (Hgone (gg_path c)), (Hgone (lw_path c)) by auto.
    destruct (last_gg c (removed_regs c s s')), (last_lw c (removed_regs c s s')); split; reflexivity.
  - (* another client: its registrations stay, or a burial removed them *)
    rewrite (removed_regs_gg s s' c c' HI Hs' Hne), (removed_regs_lw s s' c c' HI Hs' Hne).
    assert (Hkeep : forall q, q = gg_path c' \/ q = lw_path c' -> abs s' q = abs s q \/ abs s' q = None).
    { intros q Hq. rewrite F, <- Ea.
      exact (proj2 (proj2 (end_run_keep q (end_ops s c) (prep s c) HIp HLp (end_ops_end s c) (end_ops_miss s c c' q Hs' Hz Hq) Nc))). }
    unfold gg_store, lw_store in *. split.
    + destruct (Hkeep (gg_path c')) as [E|E]; [now left|rewrite E|rewrite E]; destruct (abs s (gg_path c')); cbn [is_none]; try reflexivity; exact HTg.
    + destruct (Hkeep (lw_path c')) as [E|E]; [now right|rewrite E|rewrite E]; destruct (abs s (lw_path c')); cbn [is_none]; try reflexivity; exact HTl.
Qed.

Lemma hexdig_no_slash a : hexdig a <> slash.
Proof. unfold hexdig, slash. destruct (N.ltb a 10); lia. Qed.

Lemma client_str_nosep c : no_sep slash (client_str c).
Proof.
  unfold client_str, no_sep. destruct (N.eqb c 0).
  - unfold uuid_nil, slash. cbn [In]. intros H. repeat (destruct H as [H|H]; [discriminate|]). exact H.
  - intros H. apply in_app_or in H as [H|H].
    + unfold uuid_prefix, slash in H. cbn [In] in H. repeat (destruct H as [H|H]; [discriminate|]). exact H.
    + destruct H as [H|[H|[]]]; now apply hexdig_no_slash in H.
Qed.

Lemma split_client_topic c leaf : no_sep slash leaf ->
  split slash (topic [s_SYS; s_clients; client_str c; leaf]) = [s_SYS; s_clients; client_str c; leaf].
Proof.
  intros Hl. unfold topic. apply split_join; [discriminate|].
  repeat (apply Forall_cons; [|]); try apply Forall_nil; try exact Hl; try apply client_str_nosep;
    unfold no_sep, s_SYS, s_clients, slash; cbn [In]; intros H; repeat (destruct H as [H|H]; [discriminate|]); exact H.
Qed.

(* ---- any request ---- *)
Definition reg_op (s : core) (o : op) : Prop :=
  match o with
  | OSet c _ _ _ | OCSet c _ _ _ _ => small c
  | ODelete c _ | OPDelete c _ => c <> 0
  | ODisconnected c => small c /\ no_zombie s c
  | OImport _ => False
  | _ => True
  end.

Lemma RegTracks_same s s' t :
  (forall c q, small c -> q = gg_path c \/ q = lw_path c -> abs s' q = abs s q) -> RegTracks s t -> RegTracks s' t.
Proof. intros H HT c Hs. unfold gg_store, lw_store. rewrite (H c (gg_path c)), (H c (lw_path c)) by auto. now apply HT. Qed.

Theorem reg_track_step s t o :
  Inv s -> LenInv s -> RegTracks s t -> reg_op s o -> o_res (snd (step s o)) <> RCrash ->
  RegTracks (fst (step s o)) (apply_all t (actions_of s o)).
Proof.
  intros HI HL HT Ho Hnc.
  assert (Hother : other_op o -> actions_of s o = [] -> RegTracks (fst (step s o)) (apply_all t (actions_of s o))).
  { intros Hoo Ha. rewrite Ha. pose proof (other_data_same s o Hoo) as Ed. unfold apply_all. cbn [fold_left].
    apply (RegTracks_same s); [|exact HT]. intros c0 q _ _. unfold abs. now rewrite Ed. }
  assert (Hread : fst (step s o) = s -> actions_of s o = [] -> RegTracks (fst (step s o)) (apply_all t (actions_of s o))).
  { intros E Ha. rewrite Ha, E. exact HT. }
  destruct o; try contradiction;
    try (apply Hread; [reflexivity|unfold actions_of; cbn [step]; reflexivity]);
    try (apply Hother; [exact I|unfold actions_of; cbn [step];
         repeat match goal with |- context [match ?x with _ => _ end] => destruct x end; reflexivity]).
  - (* set *)
    unfold actions_of. cbn [step] in *. destruct (o_res (snd (do_insert s c k (Plain v) force))) eqn:Er;
      try (pose proof (do_insert_effect s c k (Plain v) force HI) as H; cbv zeta in H; rewrite Er in H; try contradiction; rewrite H; exact HT).
    apply reg_track_insert; try assumption. intros ex ch e' p Hd. now rewrite (decide_plain _ _ _ _ _ _ Hd).
  - unfold actions_of. cbn [step] in *. destruct (o_res (snd (do_insert s c k (Cas v ver) force))) eqn:Er;
      try (pose proof (do_insert_effect s c k (Cas v ver) force HI) as H; cbv zeta in H; rewrite Er in H; try contradiction; rewrite H; exact HT).
    apply reg_track_insert; try assumption. intros ex ch e' p Hd. rewrite (decide_cas _ _ _ _ _ _ _ Hd). unfold cset_result.
    destruct force; [destruct (abs s p) as [[?|? ?]|]|]; reflexivity.
  - exact (reg_track_delete s t c k HI HT Ho).
  - exact (reg_track_pdelete s t c p HI HT Ho).
  - (* connected: three sets of the server under $SYS/, none of them a registration key *)
    assert (Ha : actions_of s (OConnected c) = []).
    { unfold actions_of. now destruct (o_res (snd (step s (OConnected c)))). }
    rewrite Ha. unfold apply_all. cbn [fold_left].
    assert (Hcr : is_crash (snd (step s (OConnected c))) = false)
      by (unfold is_crash; destruct (o_res (snd (step s (OConnected c)))); congruence).
    destruct (expand_runs s (OConnected c) Hcr) as (F & _ & _ & Nc). rewrite F. cbn [expand] in *.
    destruct (N.eqb c 0 || existsb (N.eqb c) (clients s))%bool; cbn [fst snd] in *; [exact HT|].
    apply (RegTracks_same s); [|exact HT].
    { intros c' q Hs' Hq. change (abs s q) with (abs (conn_prep s c) q). apply sets_run_same; try assumption.
      - unfold conn_ops. repeat constructor.
      - destruct (reg_paths_4 c' q Hq) as (x & leaf & ->). unfold conn_ops.
        repeat (apply Forall_cons; [cbn [misses]; intros Hp; apply parse_segments_good in Hp as (Hp & _)|]); [| | |apply Forall_nil].
        + vm_compute in Hp. discriminate.
        + rewrite split_client_topic in Hp by (unfold no_sep, s_protocol, slash; cbn [In]; intros H; repeat (destruct H as [H|H]; [discriminate|]); exact H).
          injection Hp as _ Hp. destruct Hq as [Hq|Hq]; injection Hq as _ Hq; rewrite Hq in Hp; discriminate.
        + rewrite split_client_topic in Hp by (unfold no_sep, s_address, slash; cbn [In]; intros H; repeat (destruct H as [H|H]; [discriminate|]); exact H).
          injection Hp as _ Hp. destruct Hq as [Hq|Hq]; injection Hq as _ Hq; rewrite Hq in Hp; discriminate. }
  - (* disconnected *)
    destruct Ho as (Hs & Hz).
    assert (Hres : o_res (snd (step s (ODisconnected c))) = RUnit).
    { cbn [step] in *. unfold do_disconnected in *. destruct (N.eqb c 0); [cbn in Hnc; congruence|].
      destruct (match assoc_get N.eqb c (locked_keys (set_spub s _)) with Some _ => _ | None => _ end) as [[[l' g] x] cr].
      destruct cr; [cbn in Hnc; congruence|]. cbn [snd]. cbn [snd] in Hnc.
      match goal with |- o_res (if ?b then _ else _) = _ => destruct b eqn:Eb end; [|reflexivity].
      exfalso. apply Hnc. match type of Eb with is_crash ?o = true => unfold is_crash in Eb; destruct (o_res o); try discriminate; reflexivity end. }
    now apply reg_track_session_end.
Qed.

(* ---- any history ---- *)
Fixpoint reg_hist (s : core) (os : list op) : Prop :=
  match os with [] => True | o :: r => redb_op o /\ reg_op s o /\ reg_hist (fst (step s o)) r end.

(* after any history of client requests of every kind except import, sessions starting and ending included, and once the
   queued actions are applied: all three tables of the database follow the store -- the row of every key outside $SYS/ is
   the stored entry (CAS rows one version behind: F13), and the grave-goods / last-will table entry of every client is what
   its registration key holds *)
Theorem tables_track_any os : forall s t,
  Inv s -> LenInv s -> tracks s t -> RegTracks s t -> abs s [s_SYS] = None -> reg_hist s os -> no_crash_run s os ->
  Inv (final s os) /\ tracks (final s os) (apply_all t (any_actions s os)) /\ RegTracks (final s os) (apply_all t (any_actions s os)).
Proof.
  induction os as [|o os IH]; intros s t HI HL HT HR Hr Ho Hnc; [cbn; auto|].
  destruct Ho as (Ho1 & Ho2 & Hos). destruct Hnc as (Hc & Hrest).
  destruct (track_any_step s t o HI HL HT Hr Ho1 Hc) as (HI' & HL' & HT' & Hr').
  pose proof (reg_track_step s t o HI HL HR Ho2 Hc) as HR'.
  change (final s (o :: os)) with (final (fst (step s o)) os). cbn [any_actions].
  unfold apply_all. rewrite fold_left_app. fold (apply_all t (actions_of s o)).
  fold (apply_all (apply_all t (actions_of s o)) (any_actions (fst (step s o)) os)). now apply IH.
Qed.

Lemma RegTracks_init : RegTracks init t_empty.
Proof. intros c _. split; reflexivity. Qed.

Theorem tables_track_any_init os :
  reg_hist init os -> no_crash_run init os ->
  tracks (final init os) (apply_all t_empty (any_actions init os)) /\
  RegTracks (final init os) (apply_all t_empty (any_actions init os)).
Proof.
  intros Ho Hnc. apply (tables_track_any os init t_empty Inv_init eq_refl tracks_init RegTracks_init); try assumption.
  unfold abs. cbn. reflexivity.
Qed.

(* the hypotheses are satisfiable, and the statement says something: a client registers grave goods and a last will,
   withdraws the grave goods by deleting the key (F28), a second client's burial pattern starts with a wildcard and removes
   the first client's last will (F4) *)
Definition demo_hist : list op :=
  [OConnected 1; OConnected 2;
   OSet 1 (key_of (gg_path 1)) (JArr [JStr [120;47;35]]) false;
   OSet 1 (key_of (lw_path 1)) (JArr [JObj [([107;101;121], JStr [119]); ([118;97;108;117;101], JNum [49])]]) false;
   ODelete 1 (key_of (gg_path 1));
   OSet 2 (key_of (gg_path 2)) (JArr [JStr [63;47;99;108;105;101;110;116;115;47;63;47;108;97;115;116;87;105;108;108]]) false;
   ODisconnected 2].

Example demo_hist_ok :
  let T := apply_all t_empty (any_actions init demo_hist) in
  let T4 := apply_all t_empty (any_actions init (firstn 4 demo_hist)) in
  c_get 1 (t_gg T4) = Some [[120;47;35]] /\ c_get 1 (t_lw T4) = Some [([119], JNum [49])] /\
  c_get 1 (t_gg T) = None /\ c_get 1 (t_lw T) = None /\ c_get 2 (t_gg T) = None /\
  gg_store (final init demo_hist) 1 = None /\ lw_store (final init demo_hist) 1 = None.
Proof. vm_compute. repeat split; reflexivity. Qed.

Example demo_hist_hyps : reg_hist init demo_hist /\ no_crash_run init demo_hist.
Proof.
  vm_compute.
  repeat match goal with
         | |- _ /\ _ => split
         | |- True => exact I
         | |- _ = _ => reflexivity
         | |- _ <> _ => discriminate
         | |- _ -> False => discriminate
         | |- Forall _ [] => constructor
         | |- Forall _ (_ :: _) => constructor
         end.
Qed.
