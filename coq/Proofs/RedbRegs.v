(* C18: the registration tables follow the store.  After any history of client requests of every kind except import,
   the grave-goods and last-will tables of the ReDB backend hold, for every client, exactly what its registration keys
   $SYS/clients/<id>/graveGoods and .../lastWill decode to (after the repair of F28: a registration withdrawn by deleting
   its key leaves the table too).  Hypothesis: last wills do not write under $SYS/ (a will that re-creates its own
   client's registration key leaves a registration in the store that no table entry backs). *)
From Coq Require Import Lia List.
Import ListNotations.
From WB Require Import Base.Str Base.StrFacts Base.Json Model.Key Model.Consts Model.Store Model.Match Model.Subs Model.Entry Model.Core
  Model.Persist Model.Redb Model.Sync Spec.MapSpec
  Proofs.StoreFacts Proofs.TreeInv Proofs.GoodNames Proofs.CoreFacts Proofs.C07Proof Proofs.LenFacts Proofs.C01Proof
  Proofs.LockHistory Proofs.SessionEnd Proofs.SyncFacts Proofs.RedbFacts Proofs.RedbTrack Proofs.RedbSession.
Local Open Scope N_scope.
Local Arguments N.add : simpl never.
Local Arguments N.sub : simpl never.
Local Arguments N.mul : simpl never.

(* ---- the tables keyed by client ---- *)
Fixpoint c_get {V} (c : cid) (l : list (cid * V)) : option V :=
  match l with [] => None | (c', v) :: l' => if N.eqb c c' then Some v else c_get c l' end.

Lemma c_get_set_same {V} c (v : V) l : c_get c (c_set c v l) = Some v.
Proof.
  induction l as [|[c0 v0] l IH]; cbn [c_set c_get]; [now rewrite N.eqb_refl|].
  destruct (N.eqb_spec c c0) as [->|Hne]; cbn [c_get]; [now rewrite N.eqb_refl|].
  destruct (N.ltb c c0); cbn [c_get]; [now rewrite N.eqb_refl|].
  destruct (N.eqb_spec c c0); [contradiction|exact IH].
Qed.

Lemma c_get_set_other {V} c c' (v : V) l : c' <> c -> c_get c' (c_set c v l) = c_get c' l.
Proof.
  intros Hne. induction l as [|[c0 v0] l IH]; cbn [c_set c_get].
  - destruct (N.eqb_spec c' c); [contradiction|reflexivity].
  - destruct (N.eqb_spec c c0) as [->|Hc]; cbn [c_get].
    + destruct (N.eqb_spec c' c0); [contradiction|reflexivity].
    + destruct (N.ltb c c0); cbn [c_get].
      * destruct (N.eqb_spec c' c); [contradiction|reflexivity].
      * destruct (N.eqb c' c0); [reflexivity|exact IH].
Qed.

Lemma c_get_del_same {V} c (l : list (cid * V)) : c_get c (c_del c l) = None.
Proof.
  unfold c_del. induction l as [|[c0 v0] l IH]; cbn [filter c_get fst]; [reflexivity|].
  destruct (N.eqb_spec c c0) as [->|Hne]; cbn [negb c_get]; [exact IH|].
  destruct (N.eqb_spec c c0); [contradiction|exact IH].
Qed.

Lemma c_get_del_other {V} c c' (l : list (cid * V)) : c' <> c -> c_get c' (c_del c l) = c_get c' l.
Proof.
  intros Hne. unfold c_del. induction l as [|[c0 v0] l IH]; cbn [filter c_get fst]; [reflexivity|].
  destruct (N.eqb_spec c c0) as [->|Hc]; cbn [negb c_get].
  - destruct (N.eqb_spec c' c0); [contradiction|exact IH].
  - destruct (N.eqb c' c0); [reflexivity|exact IH].
Qed.

(* the last registration action of a client decides its table entry *)
Fixpoint last_gg (c : cid) (acts : list raction) : option (option (list str)) :=
  match acts with
  | [] => None
  | a :: r => match last_gg c r with
              | Some x => Some x
              | None => match a with AGG c' g => if N.eqb c c' then Some g else None | _ => None end
              end
  end.
Fixpoint last_lw (c : cid) (acts : list raction) : option (option (list (str * json))) :=
  match acts with
  | [] => None
  | a :: r => match last_lw c r with
              | Some x => Some x
              | None => match a with ALW c' g => if N.eqb c c' then Some g else None | _ => None end
              end
  end.

Lemma apply_all_gg c acts : forall t,
  Forall no_clear acts ->
  c_get c (t_gg (apply_all t acts)) = match last_gg c acts with Some g => g | None => c_get c (t_gg t) end.
Proof.
  induction acts as [|a acts IH]; intros t H; [reflexivity|].
  apply Forall_cons_iff in H as (Ha & H). unfold apply_all in *. cbn [fold_left last_gg]. rewrite IH by exact H.
  destruct (last_gg c acts) as [x|]; [reflexivity|].
  destruct a as [k' e|k'|c' [g|]|c' [l|]|]; try contradiction; cbn [apply_action t_gg]; try reflexivity.
  - destruct (N.eqb_spec c c') as [->|Hne]; [apply c_get_set_same|now apply c_get_set_other].
  - destruct (N.eqb_spec c c') as [->|Hne]; [apply c_get_del_same|now apply c_get_del_other].
Qed.

Lemma apply_all_lw c acts : forall t,
  Forall no_clear acts ->
  c_get c (t_lw (apply_all t acts)) = match last_lw c acts with Some g => g | None => c_get c (t_lw t) end.
Proof.
  induction acts as [|a acts IH]; intros t H; [reflexivity|].
  apply Forall_cons_iff in H as (Ha & H). unfold apply_all in *. cbn [fold_left last_lw]. rewrite IH by exact H.
  destruct (last_lw c acts) as [x|]; [reflexivity|].
  destruct a as [k' e|k'|c' [g|]|c' [l|]|]; try contradiction; cbn [apply_action t_lw]; try reflexivity.
  - destruct (N.eqb_spec c c') as [->|Hne]; [apply c_get_set_same|now apply c_get_set_other].
  - destruct (N.eqb_spec c c') as [->|Hne]; [apply c_get_del_same|now apply c_get_del_other].
Qed.

(* ---- what the store says a client has registered ---- *)
Definition gg_path (c : cid) : list str := [s_SYS; s_clients; client_str c; s_graveGoods].
Definition lw_path (c : cid) : list str := [s_SYS; s_clients; client_str c; s_lastWill].
Definition gg_dec (e : entry) : option (list str) := match entry_val e with JNull => None | v => dec_grave_goods v end.
Definition lw_dec (e : entry) : option (list (str * json)) := match entry_val e with JNull => None | v => dec_last_will v end.
Definition gg_store (s : core) (c : cid) : option (list str) := match abs s (gg_path c) with Some e => gg_dec e | None => None end.
Definition lw_store (s : core) (c : cid) : option (list (str * json)) := match abs s (lw_path c) with Some e => lw_dec e | None => None end.

Definition small (c : cid) : Prop := c <> 0 /\ c < 256.

Definition RegTracks (s : core) (t : tables) : Prop :=
  forall c, small c -> c_get c (t_gg t) = gg_store s c /\ c_get c (t_lw t) = lw_store s c.

Lemma small_inv c : c < 256 -> client_of_str (client_str c) = Some c.
Proof.
  intros H. pose proof client_of_str_inverts as E. rewrite forallb_forall in E.
  assert (Hin : In c (map N.of_nat (seq 0 256))).
  { apply in_map_iff. exists (N.to_nat c). split; [apply N2Nat.id|]. apply in_seq. lia. }
  specialize (E c Hin). destruct (client_of_str (client_str c)) as [c'|]; [|discriminate].
  apply N.eqb_eq in E. now subst.
Qed.

Lemma client_str_inj c c' : c < 256 -> c' < 256 -> client_str c = client_str c' -> c = c'.
Proof. intros H H' E. pose proof (small_inv c H) as A. rewrite E, (small_inv c' H') in A. now injection A. Qed.

From WB Require Import Proofs.SubsFacts Proofs.C03Proof Proofs.StreamProof Proofs.StreamAll Proofs.SyncAll.

(* ---- registration keys and their owners ---- *)
Lemma skipn_app_exact {A} (a b : list A) : skipn (length a) (a ++ b) = b.
Proof. induction a; [reflexivity|exact IHa]. Qed.

Lemma hexdig_hexval h a : hexval h = Some a -> hexdig a = h /\ a < 16.
Proof.
  unfold hexval, hexdig. destruct (N.leb_spec 48 h), (N.leb_spec h 57); cbn [andb].
  - intros [= <-]. destruct (N.ltb_spec (h - 48) 10); lia.
  - destruct (N.leb_spec 97 h), (N.leb_spec h 102); cbn [andb]; try discriminate.
    intros [= <-]. destruct (N.ltb_spec (h - 87) 10); lia.
  - destruct (N.leb_spec 97 h), (N.leb_spec h 102); cbn [andb]; try discriminate. exfalso; lia.
  - destruct (N.leb_spec 97 h), (N.leb_spec h 102); cbn [andb]; try discriminate. exfalso; lia.
Qed.

Lemma client_of_str_sound cs X : client_of_str cs = Some X -> X <> 0 -> cs = client_str X /\ X < 256.
Proof.
  unfold client_of_str. destruct (str_eqb_spec cs uuid_nil) as [->|_]; [intros [= <-] H; now elim H|].
  destruct (starts_with uuid_prefix cs) eqn:Es; [|discriminate].
  destruct (starts_with_app _ _ Es) as (r & ->). rewrite skipn_app_exact.
  destruct r as [|h [|l [|x r]]]; try discriminate.
  destruct (hexval h) as [a|] eqn:Eh; [|discriminate]. destruct (hexval l) as [b|] eqn:El; [|discriminate].
  intros [= <-] Hne. destruct (hexdig_hexval h a Eh) as (Ha & Ha16). destruct (hexdig_hexval l b El) as (Hb & Hb16).
  change (match a with 0 => 0 | N.pos q => N.pos q~0~0~0~0 end) with (16 * a) in *.
  split; [|lia]. unfold client_str. destruct (N.eqb_spec (16 * a + b) 0) as [E|_]; [contradiction|].
  assert (E1 : (16 * a + b) / 16 = a) by (symmetry; apply (N.div_unique (16 * a + b) 16 a b); lia).
  assert (E2 : (16 * a + b) mod 16 = b) by (symmetry; apply (N.mod_unique (16 * a + b) 16 a b); lia).
  now rewrite E1, E2, Ha, Hb.
Qed.

(* finite facts about the registration keys of the 255 small clients, checked by evaluation *)
Definition key_facts (c : cid) : bool :=
  let kg := key_of (gg_path c) in let kl := key_of (lw_path c) in
  path_eqb (split slash kg) (gg_path c) && path_eqb (split slash kl) (lw_path c) &&
  starts_with s_SYS_prefix kg && starts_with s_SYS_prefix kl &&
  is_reg_topic s_graveGoods kg && negb (is_reg_topic s_lastWill kg) &&
  is_reg_topic s_lastWill kl && negb (is_reg_topic s_graveGoods kl) &&
  match reg_del kg with [AGG c' None] => N.eqb c c' | _ => false end &&
  match reg_del kl with [ALW c' None] => N.eqb c c' | _ => false end.

Lemma key_facts_all : forallb key_facts (map N.of_nat (seq 1 255)) = true.
Proof. vm_compute. reflexivity. Qed.

Lemma key_facts_small c : small c -> key_facts c = true.
Proof.
  intros (Hne & Hlt). pose proof key_facts_all as E. rewrite forallb_forall in E. apply E.
  apply in_map_iff. exists (N.to_nat c). split; [apply N2Nat.id|]. apply in_seq. lia.
Qed.
