From WB Require Import Base.Str Base.StrFacts Base.Json Model.Key Model.Store Model.Match
  Model.Subs Model.Entry Model.Core Spec.MapSpec
  Proofs.StoreFacts Proofs.TreeInv Proofs.GoodNames Proofs.MergeFacts Proofs.CoreFacts Proofs.C01Proof.

Lemma decide_no_crash cur new force :
  (match new with Cas _ ver => ver <> u64_max | Plain _ => True end) -> decide cur new force <> DCrash.
Proof.
  intros H.
  assert (B : forall v n e c, n <> u64_max -> bump v n e c <> DCrash).
  { intros v n e c Hn. unfold bump. destruct (N.eqb_spec n u64_max); [contradiction|discriminate]. }
  unfold decide. destruct cur as [[c|c vc]|], new as [v|v n];
    repeat match goal with |- context [if ?b then _ else _] => destruct b eqn:? end;
    try discriminate; now apply B.
Qed.

(* no data request takes the core down: every panic site reachable from set, cset, delete, pdelete,
   import and the reads (get_or_create_child's expect, the debug_assert!(is_clean) of delete and
   delete_matches, the v + 1 of insert) is an explicit RCrash outcome of the model, and on a state
   that satisfies the tree invariant none of them is reached -- except v + 1 at version u64::MAX *)
Theorem data_request_no_crash s o :
  Inv s -> c01_op o -> import_ok o ->
  (match o with OCSet _ _ _ ver _ => ver <> u64_max | _ => True end) ->
  o_res (snd (step s o)) <> RCrash.
Proof.
  intros HI Hop Himp Hver.
  destruct o; try contradiction; cbn [step fst snd o_res out_res].
  - unfold do_get. destruct (parse_segments k); [|discriminate]. destruct (lookup _ _); discriminate.
  - unfold do_cget. destruct (parse_segments k); [|discriminate]. destruct (lookup _ _) as [[|]|]; discriminate.
  - destruct (do_pget s p); discriminate.
  - unfold do_ls. destruct parent; [|discriminate]. destruct (ls_at _ _); discriminate.
  - unfold do_pls. destruct parent; [|discriminate]. destruct (reach_multi _ _); discriminate.
  - discriminate.
  - unfold do_insert. destruct (check_read_only k c); [discriminate|]. destruct (parse_segments k); [|discriminate].
    destruct (special_value_bad _ _); [discriminate|].
    pose proof (decide_no_crash (lookup (data s) a) (Plain v) force I).
    destruct (decide _ _ _); cbn; congruence.
  - unfold do_insert. destruct (check_read_only k c); [discriminate|]. destruct (parse_segments k); [|discriminate].
    destruct (special_value_bad _ _); [discriminate|].
    pose proof (decide_no_crash (lookup (data s) a) (Cas v ver) force Hver).
    destruct (decide _ _ _); cbn; congruence.
  - pose proof (do_delete_effect s c k HI) as H. cbv zeta in H. intros E. now rewrite E in H.
  - pose proof (do_pdelete_effect s c p HI) as H. cbv zeta in H. intros E. now rewrite E in H.
  - pose proof (do_import_effect s j HI Himp) as H. cbv zeta in H. intros E. now rewrite E in H.
Qed.

(* and along every history of such requests (induction: the invariant is kept, C01) *)
Theorem data_history_no_crash ops : forall s,
  Inv s -> Forall c01_op ops -> Forall import_ok ops ->
  Forall (fun o => match o with OCSet _ _ _ ver _ => ver <> u64_max | _ => True end) ops ->
  no_crash (run s ops).
Proof.
  induction ops as [|o ops IH]; intros s HI Hop Himp Hv; [constructor|].
  inversion Hop; inversion Himp; inversion Hv; subst.
  pose proof (data_request_no_crash s o HI H1 H5 H9) as Hc.
  cbn [run]. constructor; [exact Hc|]. rewrite (is_crash_false _ Hc).
  destruct (step_refines0 s o HI H1 H5 Hc) as (HI' & _ & _). now apply IH.
Qed.
