From WB Require Import Base.Str Base.StrFacts Base.Json Model.Key Model.Store Model.Match
  Model.Subs Model.Entry Model.Core Spec.MapSpec
  Proofs.StoreFacts Proofs.TreeInv Proofs.GoodNames Proofs.MergeFacts Proofs.MatchFacts Proofs.CoreFacts
  Proofs.C01Proof.
From Coq Require Import Lia.

Definition version_at (s : core) (p : list str) : N := cur_version (abs s p).

(* the request is well-formed for this client: not read-only, parses, value has the shape the key demands *)
Definition writable (c : cid) (k : str) (v : json) (p : list str) : Prop :=
  check_read_only k c = None /\ parse_segments k = Ok p /\ special_value_bad k v = false.

Lemma do_insert_unfold s c k e force p :
  check_read_only k c = None -> parse_segments k = Ok p -> special_value_bad k (entry_val e) = false ->
  do_insert s c k e force =
  match decide (lookup (data s) p) e force with
  | DErr code => (s, out_res (RErr code))
  | DCrash => (s, out_res RCrash)
  | DOk existed changed e' =>
      let created := created_at [] p (Some (data s)) in
      let d' := set_at p e' (data s) in
      let s' := set_data s d' (if existed then len s else len s + 1) in
      let notes := flat_map (fun pre => match ls_at d' pre with Some l => [(pre, l)] | None => [] end) created in
      (s', Output RUnit (notify s' p k (entry_val e) changed false) (notify_ls s' notes) [] [])
  end.
Proof. intros H1 H2 H3. unfold do_insert. now rewrite H1, H2, H3. Qed.

(* a cset succeeds iff the version it carries equals the key's current version (0 for an absent
   or plain value), and then raises that version by exactly one *)
Theorem cset_rule s c k v n p :
  writable c k v p -> n <> u64_max ->
  let r := step s (OCSet c k v n false) in
  (o_res (snd r) = RUnit <-> n = version_at s p) /\
  (o_res (snd r) = RUnit -> abs (fst r) p = Some (Cas v (n + 1))) /\
  (o_res (snd r) <> RUnit -> o_res (snd r) = RErr E_CasVersionMismatch /\ fst r = s).
Proof.
  intros (H1 & H2 & H3) Hmax. cbn [step]. rewrite (do_insert_unfold s c k (Cas v n) false p H1 H2 H3).
  pose proof (decide_cset_rule (lookup (data s) p) v n Hmax) as Hrule.
  destruct (decide (lookup (data s) p) (Cas v n) false) as [ex ch e'| |] eqn:Ed.
  - cbn [snd fst o_res]. pose proof (decide_cas _ _ _ _ _ _ _ Ed) as ->. unfold cset_result.
    split; [|split].
    + split; [intros _|reflexivity]. apply Hrule. eauto.
    + intros _. unfold abs. cbn [data set_data]. now rewrite lookup_set_at, path_eqb_refl.
    + congruence.
  - cbn [snd fst o_res out_res]. split; [|split].
    + split; [discriminate|]. intros E. apply Hrule in E as (? & ? & ? & E). discriminate.
    + discriminate.
    + intros _. split; [|reflexivity].
      (* the only error decide gives to an unforced cset is the version mismatch *)
      unfold decide, bump in Ed.
      destruct (lookup (data s) p) as [[x|x vx]|]; cbn [orb] in Ed;
        repeat match type of Ed with (if ?b then _ else _) = _ => destruct b end;
        try discriminate; now injection Ed as <-.
  - exfalso. unfold decide, bump in Ed.
    destruct (lookup (data s) p) as [[x|x vx]|]; cbn [orb] in Ed;
      repeat match type of Ed with (if ?b then _ else _) = _ => destruct b eqn:? end; try discriminate.
    apply N.eqb_eq in Heqb0. congruence.
Qed.

(* a plain set never replaces a CAS-protected value *)
Theorem set_never_replaces_cas s c k v p x vx :
  writable c k v p -> abs s p = Some (Cas x vx) ->
  step s (OSet c k v false) = (s, out_res (RErr E_Cas)).
Proof.
  intros (H1 & H2 & H3) Hl. cbn [step]. rewrite (do_insert_unfold s c k (Plain v) false p H1 H2 H3).
  unfold abs in Hl. now rewrite Hl.
Qed.

(* ---- histories ---- *)

(* requests that neither delete nor force nor import: the setting of the "competing writers" clause *)
Definition quiet_op (o : op) : Prop :=
  match o with
  | OGet _ | OCGet _ | OPGet _ | OLs _ | OPLs _ | OLen => True
  | OSet _ _ _ false | OCSet _ _ _ _ false => True
  | _ => False
  end.

Lemma quiet_c01 o : quiet_op o -> c01_op o /\ import_ok o.
Proof. destruct o; cbn; try tauto. all: destruct force; tauto. Qed.

Lemma m_version_set_other (m : mstate) p q e : p <> q -> cur_version (m_set m p e q) = cur_version (m q).
Proof. intros H. unfold m_set. destruct (path_eqb_spec p q); [contradiction|reflexivity]. Qed.

(* one step of a quiet request never lowers the version of any key, and raises it exactly when
   it is an accepted cset on that key -- then by one *)
Definition accepted_cset_on (p : list str) (o : op) (r : result) : bool :=
  match o, r with
  | OCSet _ k _ _ false, RUnit => match parse_segments k with Ok p' => path_eqb p' p | Err _ => false end
  | _, _ => false
  end.

Theorem quiet_step_version s o p :
  Inv s -> quiet_op o ->
  let r := step s o in
  o_res (snd r) <> RCrash ->
  Inv (fst r) /\
  version_at (fst r) p = version_at s p + (if accepted_cset_on p o (o_res (snd r)) then 1 else 0).
Proof.
  intros HI Hq. destruct (quiet_c01 o Hq) as [Hc Hi]. intros r Hnc.
  destruct (step_refines0 s o HI Hc Hi Hnc) as (HI' & Hw & _). fold r in HI', Hw. split; [exact HI'|].
  unfold version_at.
  destruct o; try contradiction; cbn [accepted_cset_on]; try (cbn [write_effect] in Hw; rewrite Hw; lia).
  - (* set *)
    destruct force; [contradiction|]. subst r. cbn [step] in *.
    pose proof (do_insert_effect s c k (Plain v) false HI) as H. cbv zeta in H.
    destruct (o_res (snd (do_insert s c k (Plain v) false))) eqn:Er; try contradiction.
    + destruct H as (p' & ex & ch & e' & Ep & Ed & _ & Hm). rewrite Hm.
      pose proof (decide_plain _ _ _ _ _ _ Ed) as ->.
      unfold m_set. destruct (path_eqb_spec p' p) as [->|Hn]; [|lia].
      unfold decide in Ed. destruct (abs s p) as [[x|x vx]|]; cbn; try lia. discriminate.
    + rewrite H. lia.
  - (* cset *)
    destruct force; [contradiction|]. subst r. cbn [step] in *.
    pose proof (do_insert_effect s c k (Cas v ver) false HI) as H. cbv zeta in H.
    destruct (o_res (snd (do_insert s c k (Cas v ver) false))) eqn:Er; try contradiction.
    + destruct H as (p' & ex & ch & e' & Ep & Ed & _ & Hm). rewrite Hm, Ep.
      pose proof (decide_cas _ _ _ _ _ _ _ Ed) as ->. unfold cset_result.
      unfold m_set. destruct (path_eqb_spec p' p) as [->|Hn]; [|lia].
      cbn [cur_version].
      assert (ver = cur_version (abs s p)).
      { unfold decide in Ed. unfold cur_version.
        destruct (abs s p) as [[x|x vx]|]; cbn [orb] in Ed; rewrite ?orb_false_r in Ed.
        - destruct (N.eqb_spec ver 0); [assumption|discriminate].
        - destruct (N.eqb_spec vx ver); [congruence|discriminate].
        - destruct (N.eqb_spec ver 0); [assumption|discriminate]. }
      lia.
    + rewrite H. destruct (parse_segments k); lia.
Qed.

(* number of accepted csets on p in a history, as the model answers them *)
Fixpoint accepted_csets (p : list str) (s : core) (ops : list op) : N :=
  match ops with
  | [] => 0
  | o :: ops' =>
      let r := step s o in
      (if accepted_cset_on p o (o_res (snd r)) then 1 else 0) + accepted_csets p (fst r) ops'
  end.

(* no update is lost: over any quiet history the version of a key grows by exactly the number
   of csets on it that were acknowledged (and therefore never goes backwards) *)
Theorem no_lost_update p ops : forall s,
  Inv s -> Forall quiet_op ops -> no_crash (run s ops) ->
  Inv (final s ops) /\ version_at (final s ops) p = version_at s p + accepted_csets p s ops.
Proof.
  induction ops as [|o ops IH]; intros s HI Hq Hnc.
  - cbn. split; [assumption|lia].
  - inversion Hq as [|? ? Ho Hq']; subst. cbn [run] in Hnc. inversion Hnc as [|? ? Hc Hnc']; subst.
    destruct (quiet_step_version s o p HI Ho Hc) as (HI' & Hv).
    rewrite (is_crash_false _ Hc) in Hnc'.
    destruct (IH _ HI' Hq' Hnc') as (HI'' & Hv').
    unfold final in *. cbn [fold_left accepted_csets]. split; [exact HI''|]. rewrite Hv', Hv. lia.
Qed.

Corollary versions_monotone p ops s :
  Inv s -> Forall quiet_op ops -> no_crash (run s ops) -> version_at s p <= version_at (final s ops) p.
Proof. intros HI Hq Hnc. destruct (no_lost_update p ops s HI Hq Hnc) as [_ H]. lia. Qed.

(* exactly one of the writers competing for a version wins: once a cset carrying version n was
   acknowledged, no later cset carrying the same n on that key is, whatever happens in between *)
Theorem one_winner s c1 c2 k v1 v2 n p ops :
  Inv s -> writable c1 k v1 p -> writable c2 k v2 p -> n <> u64_max ->
  let s1 := fst (step s (OCSet c1 k v1 n false)) in
  o_res (snd (step s (OCSet c1 k v1 n false))) = RUnit ->
  Forall quiet_op ops -> no_crash (run s1 ops) ->
  o_res (snd (step (final s1 ops) (OCSet c2 k v2 n false))) = RErr E_CasVersionMismatch.
Proof.
  intros HI Hw1 Hw2 Hmax s1 Hacc Hq Hnc.
  destruct (cset_rule s c1 k v1 n p Hw1 Hmax) as (_ & Hset & _).
  specialize (Hset Hacc). fold s1 in Hset.
  assert (HI1 : Inv s1).
  { destruct (step_refines0 s (OCSet c1 k v1 n false) HI I I) as (H & _); [rewrite Hacc; discriminate|exact H]. }
  pose proof (versions_monotone p ops s1 HI1 Hq Hnc) as Hmono.
  assert (Hv1 : version_at s1 p = n + 1) by (unfold version_at; now rewrite Hset).
  destruct (cset_rule (final s1 ops) c2 k v2 n p Hw2 Hmax) as (Hiff & _ & Herr).
  apply Herr. intros Hok. apply Hiff in Hok. lia.
Qed.
