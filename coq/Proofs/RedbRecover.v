(* C18: the load.  What [recover] makes of tables that follow the store: the user keys come back (CAS versions as 1: F13),
   nothing under $SYS/ does; every pattern of the grave-goods table is buried, every entry of the last-will table is
   written, clients in id order. *)
From Coq Require Import Lia List.
Import ListNotations.
From WB Require Import Base.Str Base.StrFacts Base.Json Model.Key Model.Consts Model.Store Model.Match Model.Subs Model.Entry Model.Core
  Model.Persist Model.Redb Model.Sync Spec.MapSpec
  Proofs.StoreFacts Proofs.TreeInv Proofs.GoodNames Proofs.CoreFacts Proofs.LenFacts Proofs.C01Proof
  Proofs.LockHistory Proofs.SessionEnd Proofs.SubsFacts Proofs.C03Proof Proofs.StreamProof Proofs.StreamAll
  Proofs.SyncFacts Proofs.RedbFacts Proofs.RedbTrack Proofs.RedbSession Proofs.RedbRegs.
Local Open Scope N_scope.

Definition reloaded (e : entry) : entry := match e with Plain v => Plain v | Cas v _ => Cas v 1 end.

Definition restore (rows : list (str * entry)) (s0 : core) : core :=
  fold_left (fun s kv => fst (do_insert s 0 (fst kv) (snd kv) true)) rows s0.

Definition RowsOK (rows : list (str * entry)) : Prop :=
  NoDup (map fst rows) /\
  Forall (fun kv => exists p, parse_segments (fst kv) = Ok p /\ starts_with s_SYS_prefix (fst kv) = false /\ fst kv <> []) rows.

Lemma forced_insert_absent s k e p :
  Inv s -> parse_segments k = Ok p -> starts_with s_SYS_prefix k = false -> k <> [] -> abs s p = None ->
  Inv (fst (do_insert s 0 k e true)) /\ meq (abs (fst (do_insert s 0 k e true))) (m_set (abs s) p (reloaded e)).
Proof.
  intros HI Hp Hpre Hne Ha.
  assert (Hres : o_res (snd (do_insert s 0 k e true)) = RUnit).
  { unfold do_insert. assert (Hck : check_read_only k 0 = None) by (unfold check_read_only; destruct k; [now elim Hne|reflexivity]).
    rewrite Hck, Hp. unfold special_value_bad. rewrite Hpre. unfold abs in Ha. rewrite Ha.
    destruct e as [v|v n]; cbn [decide]; [reflexivity|]. now rewrite Bool.orb_true_r. }
  pose proof (do_insert_effect s 0 k e true HI) as H. cbv zeta in H. rewrite Hres in H.
  destruct H as (p' & ex & ch & e' & Hp' & Hd & HI' & Hm). rewrite Hp in Hp'. injection Hp' as <-.
  split; [exact HI'|]. rewrite Ha in Hd.
  assert (e' = reloaded e).
  { destruct e as [v|v n]; cbn [decide] in Hd; [now injection Hd as _ _ <-|]. rewrite Bool.orb_true_r in Hd. now injection Hd as _ _ <-. }
  now subst e'.
Qed.

Lemma kv_get_notin {V} k (l : list (str * V)) : ~ In k (map fst l) -> kv_get k l = None.
Proof.
  induction l as [|[k' v] l IH]; intros H; [reflexivity|]. cbn [kv_get]. cbn [map fst In] in H.
  destruct (str_eqb_spec k k') as [->|]; [elim H; now left|]. apply IH. intros Hin. apply H. now right.
Qed.

Lemma restore_keyed rows : forall s0,
  Inv s0 -> RowsOK rows ->
  (forall kv p, In kv rows -> parse_segments (fst kv) = Ok p -> abs s0 p = None) ->
  Inv (restore rows s0) /\
  forall k p, parse_segments k = Ok p ->
    abs (restore rows s0) p = match kv_get k rows with Some e => Some (reloaded e) | None => abs s0 p end.
Proof.
  induction rows as [|[k e] rows IH]; intros s0 HI (Hnd & Hall) Habs; [split; [exact HI|reflexivity]|].
  cbn [map fst] in Hnd. apply NoDup_cons_iff in Hnd as (Hnin & Hnd). apply Forall_cons_iff in Hall as ((p & Hp & Hpre & Hne0) & Hall).
  cbn [fst] in Hp, Hpre, Hne0.
  assert (Ha : abs s0 p = None) by (apply (Habs (k, e) p); [now left|exact Hp]).
  destruct (forced_insert_absent s0 k e p HI Hp Hpre Hne0 Ha) as (HI1 & Hm1).
  unfold restore. cbn [fold_left fst snd]. fold (restore rows (fst (do_insert s0 0 k e true))).
  destruct (IH (fst (do_insert s0 0 k e true)) HI1 (conj Hnd Hall)) as (HI2 & Hk).
  { intros [k' e'] p' Hin Hp'. cbn [fst] in Hp'. rewrite Hm1. unfold m_set.
    destruct (path_eqb_spec p p') as [<-|]; [|apply (Habs (k', e') p'); [now right|exact Hp']].
    exfalso. apply Hnin. pose proof (key_path_inj k k' p p Hp Hp' eq_refl) as ->. apply in_map_iff. exists (k', e'). auto. }
  split; [exact HI2|]. intros k2 p2 Hp2. rewrite (Hk k2 p2 Hp2). cbn [kv_get].
  destruct (str_eqb_spec k2 k) as [->|Hne].
  - rewrite Hp in Hp2. injection Hp2 as <-. rewrite (kv_get_notin k rows Hnin), Hm1. unfold m_set. now rewrite path_eqb_refl.
  - destruct (kv_get k2 rows); [reflexivity|]. rewrite Hm1. unfold m_set.
    destruct (path_eqb_spec p p2) as [<-|]; [|reflexivity]. elim Hne. exact (key_path_inj k2 k p p Hp2 Hp eq_refl).
Qed.

(* the map a start finds: the user entries, reloaded; nothing under the root $SYS *)
Definition m_user (m : mstate) : mstate :=
  fun q => match q with
           | p0 :: _ => if str_eqb p0 s_SYS then None else option_map reloaded (m q)
           | [] => None
           end.

Lemma reloaded_row e : reloaded (row_of e) = reloaded e.
Proof. now destruct e. Qed.

Theorem restore_spec s t :
  Inv s -> tracks s t -> RowsOK (t_v2 t) -> abs s [s_SYS] = None ->
  Inv (restore (t_v2 t) init) /\ meq (abs (restore (t_v2 t) init)) (m_user (abs s)).
Proof.
  intros HI HT HR Hroot.
  destruct (restore_keyed (t_v2 t) init Inv_init HR) as (HI' & Hk); [intros; apply abs_init|].
  split; [exact HI'|]. intros q.
  destruct (abs (restore (t_v2 t) init) q) as [e1|] eqn:E1.
  - (* a stored path is the path of its key *)
    pose proof (key_of_parse _ q e1 HI' E1) as Hp. rewrite (Hk _ q Hp) in E1.
    rewrite (abs_init q) in E1. unfold m_empty in E1.
    destruct (kv_get (key_of q) (t_v2 t)) as [er|] eqn:Eg; [|discriminate]. injection E1 as <-.
    destruct HR as (_ & Hall).
    assert (Hpre : starts_with s_SYS_prefix (key_of q) = false).
    { assert (Hin : In (key_of q) (map fst (t_v2 t))).
      { clear -Eg. induction (t_v2 t) as [|[k' v] l IH]; [discriminate|]. cbn [kv_get] in Eg. cbn [map fst In].
        destruct (str_eqb_spec (key_of q) k') as [->|]; [now left|right; now apply IH]. }
      apply in_map_iff in Hin as ([k' e'] & Ek & Hin). cbn [fst] in Ek. subst k'.
      rewrite Forall_forall in Hall. destruct (Hall _ Hin) as (p' & _ & Hpre & _). exact Hpre. }
    rewrite (HT _ q Hp Hpre) in Eg.
    destruct (nonprefixed_path (key_of q) q Hp Hpre) as [Hu|Er].
    + unfold m_user. destruct q as [|p0 q']; [discriminate|]. cbn [is_user] in Hu.
      destruct (str_eqb p0 s_SYS); [discriminate|]. destruct (abs s (p0 :: q')) as [es|]; [|discriminate].
      cbn [option_map] in *. injection Eg as <-. now rewrite reloaded_row.
    + subst q. rewrite Hroot in Eg. discriminate.
  - symmetry. unfold m_user. destruct q as [|p0 q']; [reflexivity|]. destruct (str_eqb_spec p0 s_SYS) as [->|Hne]; [reflexivity|].
    destruct (abs s (p0 :: q')) as [es|] eqn:Es; [|reflexivity]. exfalso.
    pose proof (key_of_parse s _ es HI Es) as Hp.
    assert (Hpre : starts_with s_SYS_prefix (key_of (p0 :: q')) = false).
    { apply (user_key_nonprefixed _ _ Hp). cbn [is_user]. now apply Bool.negb_true_iff, str_eqb_neq. }
    rewrite (Hk _ _ Hp), (HT _ _ Hp Hpre), Es in E1. discriminate.
Qed.

(* ---- the pending grave goods and last wills ---- *)
Definition bury1 (s : core) (g : str) : core := fst (do_pdelete s 0 true g).
Definition will1 (s : core) (kv : str * json) : core := fst (do_insert s 0 (fst kv) (Plain (snd kv)) true).

Lemma bury1_effect s g :
  Inv s -> wf_pat (kseg_parse g) = true -> Inv (bury1 s g) /\ meq (abs (bury1 s g)) (m_pdel (abs s) (kseg_parse g)).
Proof.
  intros HI Hwf. pose proof HI as (Hw & Hc & Hg & Hr). unfold bury1, do_pdelete.
  rewrite (reach_bad_wf _ _ Hwf). set (p := kseg_parse g).
  assert (Hok : root_ok (dr_node (delm (data s) [] p)) = true) by (apply root_ok_spec; now apply cleann_delm).
  rewrite Hok. cbn [negb]. rewrite delm_matches. set (s' := set_data s _ _).
  assert (HI' : Inv s').
  { subst s'. repeat split; cbn [data set_data].
    - exact (proj1 (delm_spec (data s) [] p [] Hw)).
    - now apply cleann_delm.
    - now apply goodn_delm.
    - pose proof (proj2 (delm_spec (data s) [] p [] Hw)) as Hl. rewrite !lookup_nil in Hl. rewrite Hl, Hr. now destruct (store_match p []). }
  assert (Hm : meq (abs s') (m_pdel (abs s) p)).
  { intros q. subst s'. unfold abs, m_pdel. cbn [data set_data]. exact (proj2 (delm_spec (data s) [] p q Hw)). }
  destruct (notify_deleted s' (collect (data s) [] p)); cbn [fst]; split; assumption.
Qed.

Definition will_path (kv : str * json) : option (list str) :=
  match fst kv with
  | [] => None
  | _ => match parse_segments (fst kv) with
         | Ok p => if special_value_bad (fst kv) (snd kv) then None else Some p
         | Err _ => None
         end
  end.

Lemma will1_effect s kv :
  Inv s -> Inv (will1 s kv) /\
  meq (abs (will1 s kv)) (match will_path kv with Some p => m_set (abs s) p (Plain (snd kv)) | None => abs s end).
Proof.
  intros HI. destruct kv as [k v]. unfold will1, will_path. cbn [fst snd].
  pose proof (do_insert_effect s 0 k (Plain v) true HI) as H. cbv zeta in H.
  unfold do_insert in *. destruct k as [|x k]; [cbn; split; [exact HI|intros q; reflexivity]|].
  assert (Hck : check_read_only (x :: k) 0 = None) by reflexivity. rewrite Hck in *.
  destruct (parse_segments (x :: k)) as [p|code] eqn:Hp; [|cbn; split; [exact HI|intros q; reflexivity]].
  cbn [entry_val] in *. destruct (special_value_bad (x :: k) v); [cbn; split; [exact HI|intros q; reflexivity]|].
  assert (Hd : exists ex ch, decide (lookup (data s) p) (Plain v) true = DOk ex ch (Plain v)).
  { destruct (lookup (data s) p) as [[c|c n]|]; cbn [decide]; eauto. }
  destruct Hd as (ex & ch & Hd). rewrite Hd in *. cbn [fst snd o_res] in *.
  destruct H as (p' & ex' & ch' & e' & Hp' & Hd' & HI' & Hm). injection Hp' as <-. split; [exact HI'|].
  unfold abs in Hd'. rewrite Hd in Hd'. injection Hd' as _ _ <-. exact Hm.
Qed.

Definition m_bury (m : mstate) (gs : list str) : mstate := fold_left (fun m g => m_pdel m (kseg_parse g)) gs m.
Definition m_will (m : mstate) (kv : str * json) : mstate :=
  match will_path kv with Some p => m_set m p (Plain (snd kv)) | None => m end.
Definition m_wills (m : mstate) (kvs : list (str * json)) : mstate := fold_left m_will kvs m.

Lemma m_pdel_meq a b p : meq a b -> meq (m_pdel a p) (m_pdel b p).
Proof. intros H q. unfold m_pdel. now rewrite H. Qed.
Lemma m_will_meq a b kv : meq a b -> meq (m_will a kv) (m_will b kv).
Proof. intros H q. unfold m_will. destruct (will_path kv); [unfold m_set; now rewrite H|apply H]. Qed.

Lemma bury_run gs : forall s m,
  Inv s -> meq (abs s) m -> Forall (fun g => wf_pat (kseg_parse g) = true) gs ->
  Inv (fold_left bury1 gs s) /\ meq (abs (fold_left bury1 gs s)) (m_bury m gs).
Proof.
  induction gs as [|g gs IH]; intros s m HI Hm Hwf; [split; assumption|].
  apply Forall_cons_iff in Hwf as (Hg & Hwf). destruct (bury1_effect s g HI Hg) as (HI' & Hm').
  cbn [fold_left]. unfold m_bury. cbn [fold_left]. apply IH; try assumption.
  intros q. rewrite Hm'. now apply m_pdel_meq.
Qed.

Lemma wills_run kvs : forall s m,
  Inv s -> meq (abs s) m -> Inv (fold_left will1 kvs s) /\ meq (abs (fold_left will1 kvs s)) (m_wills m kvs).
Proof.
  induction kvs as [|kv kvs IH]; intros s m HI Hm; [split; assumption|].
  destruct (will1_effect s kv HI) as (HI' & Hm'). cbn [fold_left]. unfold m_wills. cbn [fold_left]. apply IH; [exact HI'|].
  intros q. rewrite Hm'. fold (m_will (abs s) kv). now apply m_will_meq.
Qed.

Lemma fold_nested {A B C} (f : A -> C -> A) (l : list (B * list C)) : forall a,
  fold_left (fun a bc => fold_left f (snd bc) a) l a = fold_left f (flat_map snd l) a.
Proof. induction l as [|[b cs] l IH]; intros a; [reflexivity|]. cbn [fold_left flat_map snd]. now rewrite fold_left_app, IH. Qed.

Definition all_pats (t : tables) : list str := flat_map snd (t_gg t).
Definition all_wills (t : tables) : list (str * json) := flat_map snd (t_lw t).

Theorem recover_spec s t :
  Inv s -> tracks s t -> RowsOK (t_v2 t) -> abs s [s_SYS] = None ->
  Forall (fun g => wf_pat (kseg_parse g) = true) (all_pats t) ->
  Inv (recover t) /\ meq (abs (recover t)) (m_wills (m_bury (m_user (abs s)) (all_pats t)) (all_wills t)).
Proof.
  intros HI HT HR Hroot Hwf. destruct (restore_spec s t HI HT HR Hroot) as (HI0 & Hm0).
  unfold recover. fold (restore (t_v2 t) init).
  change (fun (s : core) (cg : cid * list str) => fold_left (fun (s0 : core) (g : str) => fst (do_pdelete s0 0 true g)) (snd cg) s)
    with (fun (s : core) (cg : cid * list str) => fold_left bury1 (snd cg) s).
  change (fun (s : core) (cl : cid * list (str * json)) => fold_left (fun (s0 : core) (kv : str * json) => fst (do_insert s0 0 (fst kv) (Plain (snd kv)) true)) (snd cl) s)
    with (fun (s : core) (cl : cid * list (str * json)) => fold_left will1 (snd cl) s).
  rewrite !fold_nested. fold (all_pats t) (all_wills t).
  destruct (bury_run (all_pats t) _ _ HI0 Hm0 Hwf) as (HI1 & Hm1).
  exact (wills_run (all_wills t) _ _ HI1 Hm1).
Qed.

(* ---- no request creates the empty key ---- *)
Definition elem_op (o : op) : Prop := any_req o /\ match o with OImport _ => False | _ => True end.

Lemma empty_path_key k : parse_segments k = Ok [[]] -> k = [].
Proof. intros H. apply parse_segments_good in H as (H & _). rewrite <- (join_split slash k), <- H. reflexivity. Qed.

Lemma insert_not_empty s c k e f : o_res (snd (do_insert s c k e f)) = RUnit -> parse_segments k <> Ok [[]].
Proof.
  intros Hres Hp. apply empty_path_key in Hp. subst k. unfold do_insert in Hres. cbn in Hres. discriminate.
Qed.

Lemma elem_keeps_empty s o :
  Inv s -> LenInv s -> elem_op o -> o_res (snd (step s o)) <> RCrash -> abs s [[]] = None ->
  Inv (fst (step s o)) /\ LenInv (fst (step s o)) /\ abs (fst (step s o)) [[]] = None.
Proof.
  intros HI HL (Hany & Hni) Hnc He.
  assert (Himp : import_ok o) by (destruct o; try contradiction; exact I).
  destruct (step_refines_any s o HI HL Hany Himp Hnc) as (HI' & HL' & Hw & _). split; [exact HI'|]. split; [exact HL'|].
  destruct o; try contradiction; cbn [write_effect] in Hw; try (now rewrite Hw).
  - destruct (o_res (snd (step s (OSet c k v force)))) eqn:Er; try (now rewrite Hw).
    destruct Hw as (p & Hp & Hw). rewrite Hw. unfold m_set. destruct (path_eqb_spec p [[]]) as [->|]; [|exact He].
    cbn [step] in Er. now elim (insert_not_empty _ _ _ _ _ Er).
  - destruct (o_res (snd (step s (OCSet c k v ver force)))) eqn:Er; try (now rewrite Hw).
    destruct Hw as (p & Hp & Hw). rewrite Hw. unfold m_set. destruct (path_eqb_spec p [[]]) as [->|]; [|exact He].
    cbn [step] in Er. now elim (insert_not_empty _ _ _ _ _ Er).
  - destruct (o_res (snd (step s (ODelete c k)))); try (now rewrite Hw).
    destruct Hw as (p & e & _ & _ & _ & Hw). rewrite Hw. unfold m_del. now destruct (path_eqb p [[]]).
  - destruct (o_res (snd (step s (OPDelete c p)))); try (now rewrite Hw).
    rewrite Hw. unfold m_pdel. now destruct (store_match _ _).
Qed.

Lemma run_keeps_empty ops : forall s,
  Inv s -> LenInv s -> Forall elem_op ops -> nocrash (trace s ops) -> abs s [[]] = None ->
  Inv (final s ops) /\ LenInv (final s ops) /\ abs (final s ops) [[]] = None.
Proof.
  induction ops as [|o ops IH]; intros s HI HL He Hnc H0; [cbn; auto|].
  apply Forall_cons_iff in He as (He & Hes).
  assert (Hc : o_res (snd (step s o)) <> RCrash).
  { assert (H : is_crash (snd (step s o)) = false) by (apply Hnc; now left). unfold is_crash in H.
    destruct (o_res (snd (step s o))); congruence. }
  destruct (elem_keeps_empty s o HI HL He Hc H0) as (HI' & HL' & H0').
  change (final s (o :: ops)) with (final (fst (step s o)) ops). apply IH; try assumption.
  intros x Hx. apply Hnc. now right.
Qed.

Lemma expand_elem s o : match o with OImport _ => False | _ => True end -> Forall elem_op (snd (expand s o)).
Proof.
  intros Hni. destruct o; try contradiction; cbn [expand snd];
    try (repeat constructor; unfold any_req; cbn; tauto).
  - destruct (N.eqb c 0 || existsb (N.eqb c) (clients s))%bool; cbn [snd]; [constructor|].
    unfold conn_ops. repeat constructor; unfold any_req; cbn; tauto.
  - destruct (N.eqb c 0); cbn [snd]; [constructor|]. destruct (end_ops_any s c) as (Ha & _).
    apply Forall_forall. intros o Hin. rewrite Forall_forall in Ha. split; [now apply Ha|].
    unfold end_ops in Hin. repeat (apply in_app_iff in Hin as [Hin|Hin]);
      try (apply in_map_iff in Hin as (x & <- & _)); try (destruct Hin as [<-|[]]); exact I.
Qed.

Lemma expand_same_data s o : data (fst (expand s o)) = data s /\ len (fst (expand s o)) = len s.
Proof.
  destruct o; cbn [expand fst]; try (split; reflexivity).
  - destruct (N.eqb c 0 || existsb (N.eqb c) (clients s))%bool; split; reflexivity.
  - destruct (N.eqb c 0); cbn [fst]; [split; reflexivity|]. destruct (prep_same s c) as (Ed & El & _). now split.
Qed.

Theorem step_keeps_empty s o :
  Inv s -> LenInv s -> match o with OImport _ => False | _ => True end -> o_res (snd (step s o)) <> RCrash ->
  abs s [[]] = None -> abs (fst (step s o)) [[]] = None.
Proof.
  intros HI HL Hni Hnc H0.
  assert (Hcr : is_crash (snd (step s o)) = false) by (unfold is_crash; destruct (o_res (snd (step s o))); congruence).
  destruct (expand_runs s o Hcr) as (F & _ & _ & Nc). rewrite F.
  destruct (expand_same_data s o) as (Ed & El).
  apply run_keeps_empty; try assumption.
  - unfold Inv in *. now rewrite Ed.
  - unfold LenInv in *. now rewrite Ed, El.
  - now apply expand_elem.
  - unfold abs in *. now rewrite Ed.
Qed.

(* ---- the shape of the tables ---- *)
Definition act_ok (a : raction) : Prop :=
  match a with
  | AUpd k _ => (exists p, parse_segments k = Ok p) /\ starts_with s_SYS_prefix k = false /\ k <> []
  | AGG c (Some _) | ALW c (Some _) => small c
  | AClear => False
  | _ => True
  end.

(* strictly increasing client ids, all above the bound *)
Fixpoint lb {V} (b : N) (l : list (cid * V)) : Prop :=
  match l with [] => True | (c, _) :: r => b < c /\ lb c r end.

Lemma lb_weaken {V} b b' (l : list (cid * V)) : b' <= b -> lb b l -> lb b' l.
Proof. destruct l as [|[c v] r]; [auto|]. cbn [lb]. intros H (H1 & H2). split; [lia|exact H2]. Qed.

Lemma lb_get_none {V} b c (l : list (cid * V)) : lb b l -> c <= b -> c_get c l = None.
Proof.
  revert b. induction l as [|[c' v] r IH]; intros b Hl Hc; [reflexivity|]. cbn [lb] in Hl. destruct Hl as (H1 & H2).
  cbn [c_get]. destruct (N.eqb_spec c c'); [lia|]. apply (IH c'); [exact H2|lia].
Qed.

Lemma lb_set {V} b c (v : V) l : b < c -> lb b l -> lb b (c_set c v l).
Proof.
  revert b. induction l as [|[c' v'] r IH]; intros b Hb Hl; cbn [c_set lb]; [auto|].
  cbn [lb] in Hl. destruct Hl as (H1 & H2).
  destruct (N.eqb_spec c c') as [->|Hne]; [cbn [lb]; auto|].
  destruct (N.ltb_spec c c'); cbn [lb]; [auto|]. split; [exact H1|]. apply IH; [lia|exact H2].
Qed.

Lemma lb_del {V} b c (l : list (cid * V)) : lb b l -> lb b (c_del c l).
Proof.
  unfold c_del. revert b. induction l as [|[c' v'] r IH]; intros b Hl; [exact I|]. cbn [lb] in Hl. destruct Hl as (H1 & H2).
  cbn [filter fst]. destruct (negb (N.eqb c c')); [cbn [lb]; split; [exact H1|now apply IH]|].
  apply IH. apply (lb_weaken c' b); [lia|exact H2].
Qed.

Lemma lb_ext {V} (l1 : list (cid * V)) : forall b l2,
  lb b l1 -> lb b l2 -> (forall c, c_get c l1 = c_get c l2) -> l1 = l2.
Proof.
  induction l1 as [|[c1 v1] r1 IH]; intros b l2 H1 H2 He.
  - destruct l2 as [|[c2 v2] r2]; [reflexivity|]. specialize (He c2). cbn [c_get] in He. rewrite N.eqb_refl in He. discriminate.
  - destruct l2 as [|[c2 v2] r2]; [specialize (He c1); cbn [c_get] in He; rewrite N.eqb_refl in He; discriminate|].
    cbn [lb] in H1, H2. destruct H1 as (B1 & L1), H2 as (B2 & L2).
    assert (c1 = c2).
    { destruct (N.lt_trichotomy c1 c2) as [Hlt|[E|Hlt]]; [|exact E|]; exfalso.
      - specialize (He c1). cbn [c_get] in He. rewrite N.eqb_refl in He. destruct (N.eqb_spec c1 c2); [lia|].
        rewrite (lb_get_none c2 c1 r2 L2) in He by lia. discriminate.
      - specialize (He c2). cbn [c_get] in He. rewrite N.eqb_refl in He. destruct (N.eqb_spec c2 c1); [lia|].
        rewrite (lb_get_none c1 c2 r1 L1) in He by lia. discriminate. }
    subst c2. pose proof (He c1) as E1. cbn [c_get] in E1. rewrite N.eqb_refl in E1. injection E1 as <-. f_equal.
    apply (IH c1); try assumption. intros c. destruct (N.eqb_spec c c1) as [->|Hne].
    + rewrite (lb_get_none c1 c1 r1 L1), (lb_get_none c1 c1 r2 L2) by lia. reflexivity.
    + specialize (He c). cbn [c_get] in He. destruct (N.eqb_spec c c1); [contradiction|exact He].
Qed.

Definition keys_small {V} (l : list (cid * V)) : Prop := Forall (fun cv => fst cv < 256) l.

Lemma keys_small_set {V} c (v : V) l : c < 256 -> keys_small l -> keys_small (c_set c v l).
Proof.
  intros Hc. induction l as [|[c' v'] r IH]; intros Hl; cbn [c_set]; [repeat constructor; exact Hc|].
  apply Forall_cons_iff in Hl as (H1 & H2).
  destruct (N.eqb c c'); [constructor; assumption|]. destruct (N.ltb c c'); constructor; try assumption.
  - constructor; assumption.
  - now apply IH.
Qed.
Lemma keys_small_del {V} c (l : list (cid * V)) : keys_small l -> keys_small (c_del c l).
Proof. unfold keys_small, c_del. intros H. apply Forall_forall. intros x Hx. apply filter_In in Hx as (Hx & _). rewrite Forall_forall in H. now apply H. Qed.

Lemma keys_small_get_none {V} c (l : list (cid * V)) : keys_small l -> 256 <= c -> c_get c l = None.
Proof.
  induction l as [|[c' v] r IH]; intros Hl Hc; [reflexivity|]. apply Forall_cons_iff in Hl as (H1 & H2). cbn [fst] in H1.
  cbn [c_get]. destruct (N.eqb_spec c c'); [lia|]. now apply IH.
Qed.

Definition TabOK (t : tables) : Prop :=
  RowsOK (t_v2 t) /\ lb 0 (t_gg t) /\ keys_small (t_gg t) /\ lb 0 (t_lw t) /\ keys_small (t_lw t).

Lemma kv_set_keys {V} k (v : V) l : forall x, In x (map fst (kv_set k v l)) <-> x = k \/ In x (map fst l).
Proof.
  induction l as [|[k' v'] l IH]; intros x; cbn [kv_set map fst In]; [split; [intros [H|[]]; now left|intros [H|[]]; now left]|].
  destruct (str_eqb_spec k k') as [->|]; cbn [map fst In]; [split; [intros [H|H]; [now left|right; now right]|intros [H|[H|H]]; [now left|now left|now right]]|].
  rewrite IH. split; [intros [H|[H|H]]; [right; now left|now left|right; now right]|intros [H|[H|H]]; [right; now left|now left|right; now right]].
Qed.

Lemma kv_set_nodup {V} k (v : V) l : NoDup (map fst l) -> NoDup (map fst (kv_set k v l)).
Proof.
  induction l as [|[k' v'] l IH]; intros H; cbn [kv_set map fst]; [repeat constructor; intros []|].
  cbn [map fst] in H. apply NoDup_cons_iff in H as (H1 & H2).
  destruct (str_eqb_spec k k') as [->|Hne]; cbn [map fst]; [now constructor|].
  constructor; [|now apply IH]. rewrite kv_set_keys. intros [E|Hin]; [now subst|contradiction].
Qed.

Lemma kv_set_in {V} k (v : V) l x : In x (kv_set k v l) -> x = (k, v) \/ In x l.
Proof.
  induction l as [|[k' v'] l IH]; cbn [kv_set]; [intros [<-|[]]; now left|].
  destruct (str_eqb k k'); intros [<-|H]; auto. { right. now right. } { right. now left. }
  destruct (IH H); auto. right. now right.
Qed.

Lemma apply_action_ok t a : TabOK t -> act_ok a -> TabOK (apply_action t a).
Proof.
  intros ((Hnd & Hall) & Lg & Sg & Ll & Sl) Ha. destruct a as [k e|k|c [g|]|c [l|]|]; cbn [apply_action]; unfold TabOK; cbn [t_v2 t_gg t_lw].
  - destruct Ha as ((p & Hp) & Hpre & Hne). repeat split; try assumption; [now apply kv_set_nodup|].
    apply Forall_forall. intros x Hx. apply kv_set_in in Hx as [->|Hx]; [cbn [fst]; eauto|]. rewrite Forall_forall in Hall. now apply Hall.
  - repeat split; try assumption.
    + unfold kv_del. clear -Hnd. induction (t_v2 t) as [|[k' v'] l IH]; [constructor|]. cbn [map fst] in Hnd. apply NoDup_cons_iff in Hnd as (H1 & H2).
      cbn [filter fst]. destruct (negb (str_eqb k k')); [|now apply IH]. cbn [map fst]. constructor; [|now apply IH].
      intros Hin. apply H1. apply in_map_iff in Hin as (x & <- & Hx). apply filter_In in Hx as (Hx & _). apply in_map_iff. now exists x.
    + apply Forall_forall. intros x Hx. apply filter_In in Hx as (Hx & _). rewrite Forall_forall in Hall. now apply Hall.
  - destruct Ha as (H0 & H1). repeat split; try assumption; [apply lb_set; [lia|exact Lg]|now apply keys_small_set].
  - repeat split; try assumption; [now apply lb_del|now apply keys_small_del].
  - destruct Ha as (H0 & H1). repeat split; try assumption; [apply lb_set; [lia|exact Ll]|now apply keys_small_set].
  - repeat split; try assumption; [now apply lb_del|now apply keys_small_del].
  - contradiction.
Qed.

Lemma apply_all_ok acts : forall t, TabOK t -> Forall act_ok acts -> TabOK (apply_all t acts).
Proof.
  induction acts as [|a acts IH]; intros t Ht Ha; [exact Ht|]. apply Forall_cons_iff in Ha as (Ha & Has).
  unfold apply_all. cbn [fold_left]. apply IH; [now apply apply_action_ok|exact Has].
Qed.

Lemma TabOK_empty : TabOK t_empty.
Proof. repeat split; try constructor. Qed.

(* ---- every queued action has that shape ---- *)
Lemma reg_del_ok k : Forall act_ok (reg_del k).
Proof.
  destruct (reg_del_shape k) as [->|(a & cs & X & [(_ & _ & ->)|(_ & _ & ->)])]; repeat constructor.
Qed.

Lemma upd_action_ok s c k e f :
  small c -> o_res (snd (do_insert s c k e f)) = RUnit -> Inv s -> Forall act_ok (upd_action (Some c) k e).
Proof.
  intros Hs Hres HI. unfold upd_action. destruct (starts_with s_SYS_prefix k) eqn:Epre.
  - destruct (is_reg_topic s_graveGoods k); [constructor; [|constructor]; cbn [act_ok]; now destruct (match entry_val e with JNull => None | _ => _ end)|].
    destruct (is_reg_topic s_lastWill k); [constructor; [|constructor]; cbn [act_ok]; now destruct (match entry_val e with JNull => None | _ => _ end)|constructor].
  - constructor; [|constructor]. cbn [act_ok]. pose proof (do_insert_effect s c k e f HI) as H. cbv zeta in H. rewrite Hres in H.
    destruct H as (p & _ & _ & _ & Hp & _). split; [eauto|]. split; [exact Epre|].
    intros ->. unfold do_insert in Hres. cbn in Hres. discriminate.
Qed.

Lemma actions_ok s o :
  Inv s -> LenInv s -> abs s [[]] = None -> redb_op o -> reg_op s o -> o_res (snd (step s o)) <> RCrash ->
  Inv (fst (step s o)) -> Forall act_ok (actions_of s o).
Proof.
  intros HI HL He Ho1 Ho2 Hnc HI'.
  assert (He' : abs (fst (step s o)) [[]] = None) by (apply step_keeps_empty; try assumption; destruct o; try contradiction; exact I).
  unfold actions_of.
  destruct o; try contradiction; try (destruct (o_res (snd (step s _))); constructor).
  - cbn [step] in *. destruct (o_res (snd (do_insert s c k (Plain v) force))) eqn:Er; try constructor. exact (upd_action_ok s c k (Plain v) force Ho2 Er HI).
  - cbn [step] in *. destruct (o_res (snd (do_insert s c k (Cas v ver) force))) eqn:Er; try constructor. exact (upd_action_ok s c k (Cas v ver) force Ho2 Er HI).
  - destruct (o_res (snd (step s (ODelete c k)))); try constructor. unfold del_action.
    destruct (starts_with _ _); [destruct (N.eqb c 0); [constructor|apply reg_del_ok]|repeat constructor].
  - destruct (o_res (snd (step s (OPDelete c p)))); try constructor. apply Forall_forall. intros a Hin.
    apply in_flat_map in Hin as (kv & _ & Hin). unfold del_action in Hin.
    destruct (starts_with _ _); [destruct (N.eqb c 0); [destruct Hin|]|destruct Hin as [<-|[]]; exact I].
    pose proof (reg_del_ok (fst kv)) as F. rewrite Forall_forall in F. now apply F.
  - destruct (o_res (snd (step s (ODisconnected c)))); try constructor. cbn [step] in *. set (s' := fst (do_disconnected s c)) in *.
    apply Forall_forall. intros a Hin. repeat (apply in_app_iff in Hin as [Hin|Hin]).
    + unfold removed_keys in Hin. apply in_flat_map in Hin as (m & _ & Hin). destruct (lookup (data s') (fst m)); [destruct Hin|]. destruct Hin as [<-|[]]. exact I.
    + unfold removed_regs in Hin. apply filter_In in Hin as (Hin & _). apply in_flat_map in Hin as (m & _ & Hin).
      destruct (lookup (data s') (fst m)); [destruct Hin|]. pose proof (reg_del_ok (key_of (fst m))) as F. rewrite Forall_forall in F. now apply F.
    + unfold written_keys in Hin. apply in_flat_map in Hin as ([q e] & Hm & Hin). cbn [fst snd] in Hin.
      destruct (entry_eqb' _ _); [destruct Hin|]. destruct Hin as [<-|[]].
      apply (In_user_all s' q e HI') in Hm as (Hu & Hl). cbn [act_ok].
      pose proof (key_of_parse s' q e HI' Hl) as Hp. split; [eauto|]. split; [exact (user_key_nonprefixed _ _ Hp Hu)|].
      intros E. rewrite E in Hp. vm_compute in Hp. injection Hp as <-. (* the empty key: no request creates it *)
      unfold abs in *. congruence.
    + destruct Hin as [<-|[<-|[]]]; exact I.
Qed.

(* ---- the registration tables, read off the store ---- *)
Definition regs_from {V} (f : cid -> option V) (a n : nat) : list (cid * V) :=
  flat_map (fun i => match f (N.of_nat i) with Some v => [(N.of_nat i, v)] | None => [] end) (seq a n).
Definition regs {V} (f : cid -> option V) : list (cid * V) := regs_from f 1 255.

Lemma regs_from_lb {V} (f : cid -> option V) n : forall a b, b < N.of_nat a -> lb b (regs_from f a n).
Proof.
  induction n as [|n IH]; intros a b Hb; [exact I|]. unfold regs_from. cbn [seq flat_map]. fold (regs_from f (S a) n).
  destruct (f (N.of_nat a)); cbn [app lb]; [split; [exact Hb|apply IH; lia]|apply IH; lia].
Qed.

Lemma regs_from_get {V} (f : cid -> option V) n : forall a c,
  c_get c (regs_from f a n) = if (N.leb (N.of_nat a) c && N.ltb c (N.of_nat (a + n)))%bool then f c else None.
Proof.
  induction n as [|n IH]; intros a c.
  - cbn [regs_from seq flat_map c_get]. replace (a + 0)%nat with a by lia.
    destruct (N.leb_spec (N.of_nat a) c), (N.ltb_spec c (N.of_nat a)); cbn [andb]; try reflexivity; lia.
  - unfold regs_from. cbn [seq flat_map]. fold (regs_from f (S a) n).
    assert (Hrest : c_get c (regs_from f (S a) n) = if (N.leb (N.of_nat (S a)) c && N.ltb c (N.of_nat (a + S n)))%bool then f c else None).
    { rewrite IH. replace (S a + n)%nat with (a + S n)%nat by lia. reflexivity. }
    destruct (f (N.of_nat a)) as [v|] eqn:Ef; cbn [app c_get].
    + destruct (N.eqb_spec c (N.of_nat a)) as [->|Hne].
      * rewrite Ef. destruct (N.leb_spec (N.of_nat a) (N.of_nat a)), (N.ltb_spec (N.of_nat a) (N.of_nat (a + S n))); cbn [andb]; try reflexivity; lia.
      * rewrite Hrest. destruct (N.leb_spec (N.of_nat (S a)) c), (N.leb_spec (N.of_nat a) c); cbn [andb]; try reflexivity; lia.
    + rewrite Hrest. destruct (N.leb_spec (N.of_nat (S a)) c), (N.leb_spec (N.of_nat a) c); cbn [andb]; try reflexivity; try lia.
      assert (c = N.of_nat a) by lia. subst c. rewrite Ef. now destruct (N.ltb _ _).
Qed.

Lemma regs_get {V} (f : cid -> option V) c : c_get c (regs f) = if (N.leb 1 c && N.ltb c 256)%bool then f c else None.
Proof. unfold regs. rewrite regs_from_get. reflexivity. Qed.

Lemma table_is_regs {V} (l : list (cid * V)) (f : cid -> option V) :
  lb 0 l -> keys_small l -> (forall c, small c -> c_get c l = f c) -> l = regs f.
Proof.
  intros Hl Hs Hf. apply (lb_ext l 0); [exact Hl|apply regs_from_lb; reflexivity|].
  intros c. rewrite regs_get. destruct (N.leb_spec 1 c), (N.ltb_spec c 256); cbn [andb].
  - apply Hf. split; lia.
  - now apply keys_small_get_none.
  - apply (lb_get_none 0); [exact Hl|lia].
  - apply (lb_get_none 0); [exact Hl|lia].
Qed.

(* ---- from the first request to the next start ---- *)
Theorem history_invariants os : forall s t,
  Inv s -> LenInv s -> tracks s t -> RegTracks s t -> TabOK t -> abs s [s_SYS] = None -> abs s [[]] = None ->
  reg_hist s os -> no_crash_run s os ->
  let s' := final s os in let t' := apply_all t (any_actions s os) in
  Inv s' /\ tracks s' t' /\ RegTracks s' t' /\ TabOK t' /\ abs s' [s_SYS] = None.
Proof.
  induction os as [|o os IH]; intros s t HI HL HT HR HK Hr He Ho Hnc; [cbn; auto|].
  destruct Ho as (Ho1 & Ho2 & Hos). destruct Hnc as (Hc & Hrest).
  destruct (track_any_step s t o HI HL HT Hr Ho1 Hc) as (HI' & HL' & HT' & Hr').
  pose proof (reg_track_step s t o HI HL HR Ho2 Hc) as HR'.
  assert (Hni : match o with OImport _ => False | _ => True end) by (destruct o; try contradiction; exact I).
  pose proof (step_keeps_empty s o HI HL Hni Hc He) as He'.
  pose proof (apply_all_ok _ t HK (actions_ok s o HI HL He Ho1 Ho2 Hc HI')) as HK'.
  change (final s (o :: os)) with (final (fst (step s o)) os). cbn [any_actions].
  unfold apply_all. rewrite fold_left_app. fold (apply_all t (actions_of s o)).
  fold (apply_all (apply_all t (actions_of s o)) (any_actions (fst (step s o)) os)). now apply IH.
Qed.

(* what the next start recovers is a function of the store at that point: its user entries (CAS versions as 1: F13),
   nothing under $SYS/, the registered grave goods buried, the registered last wills written, clients in id order *)
Definition registered_pats (s : core) : list str := flat_map snd (regs (gg_store s)).
Definition registered_wills (s : core) : list (str * json) := flat_map snd (regs (lw_store s)).

Theorem recover_after_history os :
  reg_hist init os -> no_crash_run init os ->
  let s := final init os in
  Forall (fun g => wf_pat (kseg_parse g) = true) (registered_pats s) ->
  meq (abs (recover (apply_all t_empty (any_actions init os))))
      (m_wills (m_bury (m_user (abs s)) (registered_pats s)) (registered_wills s)).
Proof.
  intros Ho Hnc s Hwf.
  destruct (history_invariants os init t_empty Inv_init eq_refl tracks_init RegTracks_init TabOK_empty) as (HI & HT & HR & HK & Hroot); try assumption;
    try (apply abs_init).
  fold s in HI, HT, HR, HK, Hroot. set (t := apply_all t_empty (any_actions init os)) in *.
  destruct HK as (HRows & Lg & Sg & Ll & Sl).
  assert (Eg : t_gg t = regs (gg_store s)) by (apply table_is_regs; try assumption; intros c Hc; exact (proj1 (HR c Hc))).
  assert (El : t_lw t = regs (lw_store s)) by (apply table_is_regs; try assumption; intros c Hc; exact (proj2 (HR c Hc))).
  unfold registered_pats, registered_wills in *. rewrite <- Eg in *. rewrite <- El.
  exact (proj2 (recover_spec s t HI HT HRows Hroot Hwf)).
Qed.

(* the hypotheses hold and the conclusion says something: two clients write, one registers grave goods x/# and a last
   will; after a crash at that point the start buries x/a, publishes the will, keeps y with CAS version 1 (F13) *)
Definition demo_recover : list op :=
  [OConnected 1; OConnected 2;
   OSet 2 [120;47;97] (JNum [49]) false;                                  (* x/a = 1 *)
   OCSet 2 [121] (JNum [50]) 0 false; OCSet 2 [121] (JNum [51]) 1 false;  (* y = 3, version 2 *)
   OSet 1 (key_of (gg_path 1)) (JArr [JStr [120;47;35]]) false;           (* grave goods x/# *)
   OSet 1 (key_of (lw_path 1)) (JArr [JObj [([107;101;121], JStr [119]); ([118;97;108;117;101], JNum [49])]]) false].  (* will w = 1 *)

Example demo_recover_ok :
  (reg_hist init demo_recover /\ no_crash_run init demo_recover /\
   Forall (fun g => wf_pat (kseg_parse g) = true) (registered_pats (final init demo_recover))) /\
  let r := recover (apply_all t_empty (any_actions init demo_recover)) in
  abs (final init demo_recover) [[120];[97]] = Some (Plain (JNum [49])) /\ abs (final init demo_recover) [[121]] = Some (Cas (JNum [51]) 2) /\
  abs r [[120];[97]] = None /\ abs r [[121]] = Some (Cas (JNum [51]) 1) /\ abs r [[119]] = Some (Plain (JNum [49])) /\
  abs r (gg_path 1) = None.
Proof.
  split.
  - vm_compute.
    repeat match goal with
           | |- _ /\ _ => split
           | |- True => exact I
           | |- _ = _ => reflexivity
           | |- _ <> _ => discriminate
           | |- _ -> False => discriminate
           | |- Forall _ [] => constructor
           | |- Forall _ (_ :: _) => constructor
           end.
  - vm_compute. repeat split; reflexivity.
Qed.
