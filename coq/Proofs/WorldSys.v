(* C08 at the level of the sockets and the REST front end.  Whatever arrives, in whatever order -- lines of every kind on any
   number of sessions, connections opening and closing (with their grave goods and last wills), REST requests of every
   kind -- a value the server keeps under $SYS outside the per-client bookkeeping ($SYS/clients and below) reads afterwards
   as before, as long as no pattern with a wildcard in its first segment is involved (known finding F4). *)
From Coq Require Import Lia List.
Import ListNotations.
From WB Require Import Base.Str Base.StrFacts Base.Json Model.Key Model.Consts Model.Store Model.Match Model.Subs Model.Entry Model.Core
  Model.Codec Model.Auth Model.Session Model.Persist Model.Rest Model.RestWorld Spec.MapSpec
  Proofs.StoreFacts Proofs.TreeInv Proofs.GoodNames Proofs.SubsFacts Proofs.CoreFacts Proofs.LenFacts Proofs.C01Proof Proofs.C03Proof Proofs.StreamProof
  Proofs.C07Proof Proofs.LockHistory Proofs.SessionEnd Proofs.StreamAll Proofs.SyncFacts Proofs.NoCrash Proofs.SysGuard Proofs.RestFacts Proofs.SysKeep
  Proofs.WorldCore Proofs.WorldRest.
Local Open Scope N_scope.

(* a path under $SYS that is not part of the per-client bookkeeping *)
Definition server_info (q : list str) : Prop := match q with x :: _ => x <> s_clients | [] => False end.

Lemma server_info_not_own c q : server_info q -> ~ own_entry c q.
Proof. intros H (p3 & more & -> & _). now apply H. Qed.

(* no wildcard in the first segment: of the request's pattern, and of the grave goods that a session end buries *)
Definition lit_op (s : core) (o : op) : Prop :=
  match o with
  | OPDelete _ pat => literal_first pat
  | ODisconnected c => Forall literal_first (gg_of s c)
  | _ => True
  end.

Lemma connected_keeps_info s c q :
  Inv s -> LenInv s -> server_info q -> is_crash (snd (do_connected s c)) = false ->
  abs (fst (do_connected s c)) (s_SYS :: q) = abs s (s_SYS :: q).
Proof.
  intros HI HL Hq Hnc.
  destruct (expand_runs s (OConnected c) Hnc) as (F & _ & _ & Nc). cbn [step] in F. rewrite F. cbn [expand] in *.
  destruct (N.eqb c 0 || existsb (N.eqb c) (clients s))%bool; cbn [fst snd] in *; [reflexivity|].
  change (abs s (s_SYS :: q)) with (abs (conn_prep s c) (s_SYS :: q)).
  apply leaves_run; try assumption.
  unfold conn_ops. destruct q as [|x q']; [contradiction|]. cbn [server_info] in Hq.
  repeat (apply Forall_cons; [cbn [leaves]; intros Hp; apply parse_segments_good in Hp as (Hp & _)|]); [| | |apply Forall_nil].
  - vm_compute in Hp. injection Hp as Hp _. now elim Hq.
  - unfold topic in Hp. rewrite split_join in Hp; [injection Hp as Hp _; now elim Hq|discriminate|].
    repeat (apply Forall_cons; [|]); try apply Forall_nil; try apply client_str_nosep';
      unfold no_sep, s_SYS, s_clients, s_protocol, slash; cbn [In]; intros H; repeat (destruct H as [H|H]; [discriminate|]); exact H.
  - unfold topic in Hp. rewrite split_join in Hp; [injection Hp as Hp _; now elim Hq|discriminate|].
    repeat (apply Forall_cons; [|]); try apply Forall_nil; try apply client_str_nosep';
      unfold no_sep, s_SYS, s_clients, s_address, slash; cbn [In]; intros H; repeat (destruct H as [H|H]; [discriminate|]); exact H.
Qed.

(* one core request of a session or of the REST front end: never under the server's own id *)
Definition no_internal (o : op) : Prop :=
  match o with
  | OSet c _ _ _ | OCSet c _ _ _ _ | ODelete c _ | OPDelete c _ | OConnected c | ODisconnected c => c <> 0
  | _ => True
  end.

Theorem op_keeps_info s o q :
  Inv s -> LenInv s -> no_internal o -> import_ok o -> lit_op s o -> server_info q ->
  is_crash (snd (step s o)) = false ->
  abs (fst (step s o)) (s_SYS :: q) = abs s (s_SYS :: q).
Proof.
  intros HI HL Hni Himp Hlit Hq Hnc.
  assert (Hcl : forall c, c <> 0 -> client_req c o -> abs (fst (step s o)) (s_SYS :: q) = abs s (s_SYS :: q)).
  { intros c Hc Hreq. apply (client_keeps_sys s c o q HI Hc Hreq). now apply server_info_not_own. }
  destruct o; cbn [no_internal lit_op] in *;
    try (apply (Hcl 1 ltac:(discriminate)); exact I).
  - apply (Hcl c Hni). reflexivity.
  - apply (Hcl c Hni). reflexivity.
  - apply (Hcl c Hni). reflexivity.
  - apply (Hcl c Hni). split; [reflexivity|exact Hlit].
  - apply (Hcl 1 ltac:(discriminate)). exact Himp.
  - cbn [step] in *. now apply connected_keeps_info.
  - cbn [step] in *. apply session_end_keeps_sys; try assumption.
    + destruct q as [|x q']; [contradiction|]. cbn [server_info] in Hq. intros E. injection E as E _. contradiction.
    + intros r E. destruct q as [|x q']; [discriminate|]. injection E as E _. cbn [server_info] in Hq. contradiction.
Qed.

Lemma op_of_no_internal c m o : c <> 0 -> Session.op_of c m = Some o -> no_internal o.
Proof. intros Hc. destruct m; cbn [Session.op_of]; intros [= <-]; cbn [no_internal]; try exact I; exact Hc. Qed.

Lemma core_op_shape w e o :
  core_op w e = Some o ->
  (exists sn, o = OConnected (cid_of sn) \/ o = ODisconnected (cid_of sn)) \/ (exists sn m, Session.op_of (cid_of sn) m = Some o).
Proof.
  destruct e as [sn|sn m|sn cl|sn|sn]; cbn [core_op].
  - intros [= <-]. left. exists sn. now left.
  - destruct (sess_open w sn); [|discriminate]. destruct (lookup_n sn (w_sess w)) as [s|]; [|discriminate].
    destruct m; try (intros [= <-]; left; exists sn; now right);
      try (destruct (_ || _)%bool; [discriminate|];
           match goal with |- context [if w_auth_required w then ?a else ?b] => destruct (if w_auth_required w then a else b) as [[|]|] end;
           [discriminate| |intros [= <-]; left; exists sn; now right]; intros H; right; eexists sn, _; exact H).
    destruct (N.leb version 1); [discriminate|]. intros [= <-]. left. exists sn. now right.
  - destruct (sess_open w sn); [|discriminate]. destruct (lookup_n sn (w_sess w)) as [s|]; [|discriminate].
    destruct (ss_claims s), cl; try discriminate; intros [= <-]; left; exists sn; now right.
  - destruct (sess_open w sn); [|discriminate]. intros [= <-]. left. exists sn. now right.
  - destruct (lookup_n sn (w_sess w)) as [s|]; [|discriminate]. destruct (ss_open s); [|discriminate]. intros [= <-]. left. exists sn. now right.
Qed.

Lemma core_op_no_internal w e o : core_op w e = Some o -> no_internal o.
Proof.
  intros Hc. assert (Hcid : forall sn, cid_of sn <> 0) by (intros sn; unfold cid_of; lia).
  destruct (core_op_shape w e o Hc) as [(sn & [-> | ->])|(sn & m & Ho)]; cbn [no_internal]; try apply Hcid.
  exact (op_of_no_internal (cid_of sn) m o (Hcid sn) Ho).
Qed.

Lemma rest_op_no_internal r o : rest_op r = Some o -> no_internal o.
Proof. destruct r; cbn [rest_op]; intros [= <-]; cbn [no_internal]; try exact I; discriminate. Qed.

Lemma wops_no_internal w x o : In o (wops w x) -> no_internal o.
Proof.
  destruct x as [e|tok r]; cbn [wops].
  - unfold ops_of. destruct (core_op w e) as [o'|] eqn:E; [|intros []]. intros [<-|[]]. exact (core_op_no_internal w e o' E).
  - destruct (rest_served w tok r); [|intros []]. destruct (rest_op r) as [o'|] eqn:E; [|intros []]. intros [<-|[]]. exact (rest_op_no_internal r o' E).
Qed.

Fixpoint lit_hist (w : world) (xs : list wevent) : Prop :=
  match xs with [] => True | x :: r => Forall (lit_op (w_core w)) (wops w x) /\ lit_hist (fst (wstep w x)) r end.

Theorem mixed_keeps_info xs : forall w q,
  Inv (w_core w) -> LenInv (w_core w) -> LH (w_core w) -> Forall wev_ok xs -> lit_hist w xs -> server_info q ->
  abs (w_core (wfinal' w xs)) (s_SYS :: q) = abs (w_core w) (s_SYS :: q).
Proof.
  induction xs as [|x xs IH]; intros w q HI HL HLH Hev Hlit Hq; [reflexivity|].
  apply Forall_cons_iff in Hev as (Hx & Hxs). destruct Hlit as (Hl1 & Hlit).
  cbn [wfinal' fold_left]. fold (wfinal' (fst (wstep w x)) xs).
  pose proof (wops_safe w x Hx) as Hs. pose proof (wops_no_internal w x) as Hni. pose proof (wstep_core w x) as Hc.
  destruct (wops w x) as [|o [|o' l]] eqn:Eo.
  - unfold final in Hc. cbn [fold_left] in Hc. rewrite (IH _ q); rewrite ?Hc; try assumption. reflexivity.
  - apply Forall_cons_iff in Hs as (Hs & _). apply Forall_cons_iff in Hl1 as (Hl1 & _).
    destruct (step_safe (w_core w) o HI HLH Hs) as (Hnc & HI' & HLH'). unfold final in Hc. cbn [fold_left] in Hc.
    rewrite (IH _ q); rewrite ?Hc; try assumption; [|now apply step_len].
    apply (op_keeps_info (w_core w) o q HI HL (Hni o (or_introl eq_refl)) (proj2 Hs) Hl1 Hq). now apply not_crash_is.
  - exfalso. destruct x as [e|tok r]; cbn [wops] in Eo; [unfold ops_of in Eo; destruct (core_op w e); discriminate|].
    destruct (rest_served w tok r); [destruct (rest_op r)|]; discriminate.
Qed.

(* from the start of the server: whatever the clients do over both front ends, $SYS/version (say) stays what the server
   wrote *)
Theorem server_info_is_the_servers auth xs q :
  Forall wev_ok xs -> lit_hist (world_init auth) xs -> server_info q ->
  abs (w_core (wfinal' (world_init auth) xs)) (s_SYS :: q) = None.
Proof.
  intros Hev Hlit Hq. rewrite (mixed_keeps_info xs (world_init auth) q Inv_init eq_refl LH_init Hev Hlit Hq). apply abs_init.
Qed.

Example mixed_info_demo :
  let xs := [WS (SOpen 0); WS (SMsg 0 (MSet 1 [36;83;89;83;47;118] JNull)); WR TNone (RSet [36;83;89;83;47;118] (JNum [49]));
             WR TNone (RPDelete [36;83;89;83;47;35]); WS (SMsg 0 (MSet 2 (topic [s_SYS; s_clients; client_str 1; s_graveGoods]) (JArr [JStr [97;47;35]])));
             WS (SClose 0)] in
  (Forall wev_ok xs /\ lit_hist (world_init false) xs) /\ server_info [[118]].
Proof.
  split; [split|discriminate].
  - repeat constructor.
  - vm_compute. repeat split; repeat constructor.
Qed.
