From WB Require Import Base.Str Base.StrFacts Base.Json Model.JsonText.
From Coq Require Import Lia.

Lemma hex_low_ge n : 48 <= hex_low n.
Proof. unfold hex_low. destruct (N.ltb n 10); lia. Qed.

Lemma esc_char_no_newline c : ~ In 10 (esc_char c).
Proof.
  unfold esc_char.
  repeat match goal with |- context [if N.eqb c ?k then _ else _] => destruct (N.eqb_spec c k) end;
    try (cbn; intuition discriminate).
  destruct (N.ltb c 32) eqn:E.
  - pose proof (hex_low_ge (c / 16)). pose proof (hex_low_ge (c mod 16)).
    cbn. intros [H1|[H1|[H1|[H1|[H1|[H1|[]]]]]]]; try discriminate; lia.
  - cbn. intros [H1|[]]. congruence.
Qed.

Lemma print_str_no_newline s : ~ In 10 (print_str s).
Proof.
  unfold print_str. cbn. intros [H|H]; [discriminate|].
  apply in_app_iff in H as [H|[H|[]]]; [|discriminate].
  apply in_flat_map in H as (c & _ & H). now apply esc_char_no_newline in H.
Qed.

Lemma lits_ok_arr l : lits_ok (JArr l) <-> Forall lits_ok l.
Proof.
  cbn [lits_ok]. induction l as [|x l IH]; [split; [constructor|exact (fun _ => I)]|].
  split; [intros [H1 H2]; constructor; [assumption|now apply IH]|intros H; inversion H; subst; split; [assumption|now apply IH]].
Qed.
Lemma lits_ok_obj l : lits_ok (JObj l) <-> Forall (fun kv => lits_ok (snd kv)) l.
Proof.
  cbn [lits_ok]. induction l as [|[k x] l IH]; [split; [constructor|exact (fun _ => I)]|].
  split; [intros [H1 H2]; constructor; [assumption|now apply IH]|intros H; inversion H; subst; split; [assumption|now apply IH]].
Qed.

(* every message is written as a single line *)
Theorem print_single_line j : lits_ok j -> ~ In 10 (print j).
Proof.
  induction j as [| b | l | s | l IH | l IH] using json_ind'; intros Hok.
  - cbn. intuition discriminate.
  - destruct b; cbn; intuition discriminate.
  - exact Hok.
  - apply print_str_no_newline.
  - apply lits_ok_arr in Hok. cbn [print]. intros [H|H]; [discriminate|].
    apply in_app_iff in H as [H|[H|[]]]; [|discriminate]. revert H.
    induction l as [|x l IHl]; [contradiction|].
    inversion IH as [|? ? Hx IH']; subst. inversion Hok as [|? ? Hox Hok']; subst.
    destruct l as [|y l'].
    + now apply Hx.
    + intros H. apply in_app_iff in H as [H|[H|H]]; [now apply (Hx Hox)|discriminate|].
      now apply (IHl IH' Hok').
  - apply lits_ok_obj in Hok. cbn [print]. intros [H|H]; [discriminate|].
    apply in_app_iff in H as [H|[H|[]]]; [|discriminate]. revert H.
    induction l as [|[k x] l IHl]; [contradiction|].
    inversion IH as [|? ? Hx IH']; subst. inversion Hok as [|? ? Hox Hok']; subst. cbn [snd] in *.
    destruct l as [|y l'].
    + intros H. apply in_app_iff in H as [H|[H|H]]; [now apply print_str_no_newline in H|discriminate|now apply (Hx Hox)].
    + intros H. apply in_app_iff in H as [H|[H|H]]; [now apply print_str_no_newline in H|discriminate|].
      apply in_app_iff in H as [H|[H|H]]; [now apply (Hx Hox)|discriminate|].
      now apply (IHl IH' Hok').
Qed.
