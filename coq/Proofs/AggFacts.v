(* The aggregator neither loses nor reorders events, and no event outlives the interval. *)
From WB Require Import Base.Str Base.StrFacts Base.Json Model.Aggregator.
From Coq Require Import Lia.

(* an event as the un-aggregated subscription would deliver it: (deleted?, key, value) *)
Definition ev := (bool * str * json)%type.
Definition evs_of (p : pev) : list ev :=
  match p with
  | AKvs l => map (fun kv => (false, fst kv, snd kv)) l
  | ADel l => map (fun kv => (true, fst kv, snd kv)) l
  end.
Definition flat (l : list pev) : list ev := flat_map evs_of l.
Definition pend (a : agg) : list ev :=
  map (fun e => (false, b_key e, b_val e)) (set_buf a) ++ map (fun e => (true, b_key e, b_val e)) (del_buf a).
Definition act_evs (x : action) : list ev := match x with Arrive p => evs_of p | Advance _ => [] end.

Definition keys_of (b : list bent) : list str := map b_key b.

(* the two buffers are never both non-empty and hold every key at most once *)
Definition AInv (a : agg) : Prop :=
  (set_buf a = [] \/ del_buf a = []) /\ NoDup (keys_of (set_buf a)) /\ NoDup (keys_of (del_buf a)).

Definition wf_pev (p : pev) : Prop :=
  match p with AKvs l | ADel l => NoDup (map fst l) end.
Definition wf_action (x : action) : Prop := match x with Arrive p => wf_pev p | Advance _ => True end.

Lemma has_key_false k b : has_key k b = false <-> ~ In k (keys_of b).
Proof.
  unfold has_key, keys_of. induction b as [|e b IH]; cbn; [tauto|].
  destruct (str_eqb_spec (b_key e) k) as [->|Hn]; cbn.
  - split; [discriminate|]. intros H. exfalso. apply H. now left.
  - rewrite IH. split; intros H; [intros [E|Hin]; [congruence|now apply H]|intros Hin; apply H; now right].
Qed.

Lemma buf_insert_fresh k v t b : ~ In k (keys_of b) -> buf_insert k v t b = b ++ [BEnt k v t].
Proof.
  induction b as [|e b IH]; cbn; [reflexivity|]. intros H.
  destruct (str_eqb_spec (b_key e) k) as [E|Hn]; [exfalso; apply H; now left|].
  rewrite IH; [reflexivity|]. intros Hin. apply H. now right.
Qed.

(* inserting an event whose keys are distinct and not yet buffered appends them in order *)
Lemma fold_insert_fresh t kvs : forall b,
  NoDup (map fst kvs) -> (forall k, In k (map fst kvs) -> ~ In k (keys_of b)) ->
  fold_left (fun b kv => buf_insert (fst kv) (snd kv) t b) kvs b =
  b ++ map (fun kv => BEnt (fst kv) (snd kv) t) kvs.
Proof.
  induction kvs as [|[k v] kvs IH]; intros b Hnd Hfresh; cbn; [now rewrite app_nil_r|].
  inversion Hnd as [|? ? Hk Hnd']; subst. cbn [fst snd].
  rewrite buf_insert_fresh by (apply Hfresh; now left).
  rewrite IH; [now rewrite <- app_assoc|assumption|].
  intros k' Hin Hin'. unfold keys_of in Hin'. rewrite map_app, in_app_iff in Hin'. destruct Hin' as [H|[H|[]]].
  - apply (Hfresh k'); [now right|exact H].
  - cbn in H. subst k'. contradiction.
Qed.

Lemma existsb_has_false kvs b :
  existsb (fun kv : str * json => has_key (fst kv) b) kvs = false ->
  forall k, In k (map fst kvs) -> ~ In k (keys_of b).
Proof.
  intros H k Hin. apply in_map_iff in Hin as ([k' v] & <- & Hin). cbn [fst].
  apply has_key_false. destruct (has_key k' b) eqn:E; [|reflexivity]. exfalso.
  assert (Ht : existsb (fun kv : str * json => has_key (fst kv) b) kvs = true).
  { apply existsb_exists. exists (k', v). split; [assumption|exact E]. }
  congruence.
Qed.

Lemma flat_send a : flat (snd (send_current_state a)) = pend a.
Proof.
  unfold send_current_state, flat, pend, out_of. cbn [snd].
  destruct (set_buf a) as [|e1 b1], (del_buf a) as [|e2 b2]; cbn [flat_map evs_of app];
    rewrite ?map_map, ?app_nil_r; reflexivity.
Qed.

Lemma keys_map_new t (kvs : list (str * json)) :
  keys_of (map (fun kv => BEnt (fst kv) (snd kv) t) kvs) = map fst kvs.
Proof. unfold keys_of. rewrite map_map. reflexivity. Qed.

Lemma NoDup_app_disjoint {A} (l1 l2 : list A) :
  NoDup l1 -> NoDup l2 -> (forall x, In x l2 -> ~ In x l1) -> NoDup (l1 ++ l2).
Proof.
  induction l1 as [|x l1 IH]; intros H1 H2 Hd; [assumption|].
  inversion H1; subst. cbn. constructor.
  - rewrite in_app_iff. intros [H|H]; [contradiction|]. apply (Hd x H). now left.
  - apply IH; [assumption|assumption|]. intros y Hy Hin. apply (Hd y Hy). now right.
Qed.

(* one arrival: what is emitted plus what is then pending = what was pending plus the new event *)
Lemma arrive_content a p :
  AInv a -> wf_pev p ->
  AInv (fst (arrive a p)) /\
  flat (snd (arrive a p)) ++ pend (fst (arrive a p)) = pend a ++ evs_of p.
Proof.
  intros (Hone & Hns & Hnd) Hwf.
  unfold arrive.
  set (a1 := if scheduled a then a else _).
  assert (Hs1 : set_buf a1 = set_buf a) by (unfold a1; destruct (scheduled a); reflexivity).
  assert (Hd1 : del_buf a1 = del_buf a) by (unfold a1; destruct (scheduled a); reflexivity).
  assert (Hp1 : pend a1 = pend a) by (unfold pend; now rewrite Hs1, Hd1).
  destruct p as [kvs|kvs]; cbn [wf_pev evs_of] in *.
  - destruct ((match del_buf a1 with [] => false | _ => true end) || already_buffered a1 kvs) eqn:Eflush.
    + (* flush first *)
      rewrite (surjective_pairing (send_current_state a1)). cbn [fst snd].
      rewrite flat_send, Hp1. unfold send_current_state. cbn [fst set_buf del_buf scheduled timers now interval].
      rewrite fold_insert_fresh by (try assumption; intros k _ []).
      split.
      * repeat split; cbn [set_buf del_buf app]; [now right| |constructor].
        rewrite keys_map_new. exact Hwf.
      * unfold pend at 2. cbn [set_buf del_buf app map]. rewrite app_nil_r, map_map. reflexivity.
    + (* append to the set buffer: the deleted buffer is empty, no key is buffered *)
      apply orb_false_iff in Eflush as [Edel Ebuf].
      assert (Hde : del_buf a = []) by (rewrite <- Hd1; destruct (del_buf a1); [reflexivity|discriminate]).
      unfold already_buffered in Ebuf. apply orb_false_iff in Ebuf as [Eb1 _].
      rewrite Hs1 in Eb1. pose proof (existsb_has_false _ _ Eb1) as Hfresh.
      cbn [fst snd flat flat_map app].
      rewrite Hs1, Hd1, Hde. rewrite fold_insert_fresh by assumption.
      split.
      * repeat split; cbn [set_buf del_buf]; [now right| |constructor].
        unfold keys_of. rewrite map_app. apply NoDup_app_disjoint; [exact Hns| |].
        -- fold (keys_of (map (fun kv => BEnt (fst kv) (snd kv) (now a1)) kvs)). rewrite keys_map_new. exact Hwf.
        -- intros k Hk. fold (keys_of (map (fun kv => BEnt (fst kv) (snd kv) (now a1)) kvs)) in Hk.
           rewrite keys_map_new in Hk. now apply Hfresh.
      * unfold pend. cbn [set_buf del_buf]. rewrite Hde. cbn [map app]. rewrite !app_nil_r, map_app, map_map. reflexivity.
  - destruct ((match set_buf a1 with [] => false | _ => true end) || already_buffered a1 kvs) eqn:Eflush.
    + rewrite (surjective_pairing (send_current_state a1)). cbn [fst snd].
      rewrite flat_send, Hp1. unfold send_current_state. cbn [fst set_buf del_buf scheduled timers now interval].
      rewrite fold_insert_fresh by (try assumption; intros k _ []).
      split.
      * repeat split; cbn [set_buf del_buf app]; [now left|constructor|].
        rewrite keys_map_new. exact Hwf.
      * unfold pend at 2. cbn [set_buf del_buf app map]. rewrite map_map. reflexivity.
    + apply orb_false_iff in Eflush as [Eset Ebuf].
      assert (Hse : set_buf a = []) by (rewrite <- Hs1; destruct (set_buf a1); [reflexivity|discriminate]).
      unfold already_buffered in Ebuf. apply orb_false_iff in Ebuf as [_ Eb2].
      rewrite Hd1 in Eb2. pose proof (existsb_has_false _ _ Eb2) as Hfresh.
      cbn [fst snd flat flat_map app].
      rewrite Hs1, Hd1, Hse. rewrite fold_insert_fresh by assumption.
      split.
      * repeat split; cbn [set_buf del_buf]; [now left|constructor|].
        unfold keys_of. rewrite map_app. apply NoDup_app_disjoint; [exact Hnd| |].
        -- fold (keys_of (map (fun kv => BEnt (fst kv) (snd kv) (now a1)) kvs)). rewrite keys_map_new. exact Hwf.
        -- intros k Hk. fold (keys_of (map (fun kv => BEnt (fst kv) (snd kv) (now a1)) kvs)) in Hk.
           rewrite keys_map_new in Hk. now apply Hfresh.
      * unfold pend. cbn [set_buf del_buf]. rewrite Hse. cbn [map app]. rewrite map_app, map_map. reflexivity.
Qed.

Lemma flat_app l1 l2 : flat (l1 ++ l2) = flat l1 ++ flat l2.
Proof. unfold flat. apply flat_map_app. Qed.

Lemma fire_content n : forall a,
  AInv a -> AInv (fst (fire n a)) /\ flat (snd (fire n a)) ++ pend (fst (fire n a)) = pend a.
Proof.
  induction n as [|n IH]; intros a HI; cbn [fire].
  - cbn. split; [assumption|reflexivity].
  - rewrite (surjective_pairing (send_current_state a)).
    set (a1 := fst (send_current_state a)).
    assert (HI1 : AInv a1) by (unfold a1, send_current_state; cbn; repeat split; [now left|constructor|constructor]).
    assert (Hp1 : pend a1 = []) by reflexivity.
    rewrite (surjective_pairing (fire n a1)). cbn [fst snd].
    destruct (IH a1 HI1) as [HI2 Hc]. split; [exact HI2|].
    rewrite flat_app, <- app_assoc, Hc, Hp1, app_nil_r. apply flat_send.
Qed.

Lemma step_content a x :
  AInv a -> wf_action x ->
  AInv (fst (agg_step a x)) /\
  flat (snd (agg_step a x)) ++ pend (fst (agg_step a x)) = pend a ++ act_evs x.
Proof.
  intros HI Hwf. destruct x as [p|dt]; cbn [agg_step act_evs].
  - now apply arrive_content.
  - unfold advance. rewrite app_nil_r.
    match goal with |- context [fire ?n ?b] => destruct (fire_content n b) as [H1 H2] end.
    { destruct HI as (H1 & H2 & H3). repeat split; assumption. }
    split; [exact H1|]. rewrite H2. reflexivity.
Qed.

(* the batches, concatenated in arrival order, followed by what is still buffered, are exactly the
   events that arrived, in the order they arrived -- for every schedule of arrivals and timer firings *)
Theorem run_content xs : forall a,
  AInv a -> Forall wf_action xs ->
  flat (concat (agg_run a xs)) ++ pend (agg_final a xs) = pend a ++ flat_map act_evs xs.
Proof.
  induction xs as [|x xs IH]; intros a HI Hwf.
  - cbn. now rewrite app_nil_r.
  - inversion Hwf as [|? ? Hx Hxs]; subst.
    destruct (step_content a x HI Hx) as [HI' Hc].
    cbn [agg_run]. rewrite (surjective_pairing (agg_step a x)). cbn [concat flat_map].
    unfold agg_final in *. cbn [fold_left].
    rewrite flat_app, <- app_assoc. rewrite (IH _ HI' Hxs).
    rewrite app_assoc, Hc. now rewrite <- app_assoc.
Qed.

(* ------------------------------------------------------------------ delay *)

Definition bufs (a : agg) : list bent := set_buf a ++ del_buf a.

(* every buffered event is covered by a sleeping trigger task that is due no later than the event's
   arrival plus the interval *)
Definition DInv (a : agg) : Prop :=
  (forall e, In e (bufs a) -> exists t, In t (timers a) /\ t <= b_at e + interval a) /\
  (scheduled a = true -> exists t, In t (timers a) /\ t <= now a + interval a) /\
  (forall e, In e (bufs a) -> b_at e <= now a).

Lemma buf_insert_at k v t b e' :
  In e' (buf_insert k v t b) -> (exists e, In e b /\ b_at e' = b_at e) \/ b_at e' = t.
Proof.
  induction b as [|e b IH]; cbn.
  - intros [E|[]]. subst e'. now right.
  - destruct (str_eqb (b_key e) k).
    + intros [E|H].
      * subst e'. left. exists e. split; [now left|reflexivity].
      * left. exists e'. split; [now right|reflexivity].
    + intros [E|H].
      * subst e'. left. exists e. split; [now left|reflexivity].
      * destruct (IH H) as [(e0 & H0 & E)|E]; [left; exists e0; split; [now right|assumption]|now right].
Qed.

Lemma fold_insert_at t kvs : forall b e',
  In e' (fold_left (fun b kv => buf_insert (fst kv) (snd kv) t b) kvs b) ->
  (exists e, In e b /\ b_at e' = b_at e) \/ b_at e' = t.
Proof.
  induction kvs as [|[k v] kvs IH]; intros b e' H; cbn in H.
  - left. now exists e'.
  - destruct (IH _ _ H) as [(e & He & E)|E]; [|now right].
    destruct (buf_insert_at _ _ _ _ _ He) as [(e0 & H0 & E0)|E0].
    + left. exists e0. split; [assumption|congruence].
    + right. congruence.
Qed.

Lemma arrive_delay a p :
  DInv a -> DInv (fst (arrive a p)) /\ interval (fst (arrive a p)) = interval a /\ now (fst (arrive a p)) = now a.
Proof.
  intros (Hcov & Hsch & Hat). unfold arrive.
  set (a1 := if scheduled a then a else _).
  assert (Hs1 : set_buf a1 = set_buf a) by (unfold a1; destruct (scheduled a); reflexivity).
  assert (Hd1 : del_buf a1 = del_buf a) by (unfold a1; destruct (scheduled a); reflexivity).
  assert (Hn1 : now a1 = now a) by (unfold a1; destruct (scheduled a); reflexivity).
  assert (Hi1 : interval a1 = interval a) by (unfold a1; destruct (scheduled a); reflexivity).
  assert (Ht1 : forall t, In t (timers a) -> In t (timers a1)).
  { intros t Ht. unfold a1. destruct (scheduled a); [assumption|]. cbn. apply in_app_iff. now left. }
  assert (Hnew : exists t, In t (timers a1) /\ t <= now a + interval a).
  { unfold a1. destruct (scheduled a) eqn:E; [now apply Hsch|].
    exists (now a + interval a). split; [cbn; apply in_app_iff; right; now left|lia]. }
  (* the new buffers hold entries that arrived when an old entry did, or now *)
  assert (G : forall sb db sch,
            (forall e, In e (sb ++ db) -> (exists e0, In e0 (bufs a) /\ b_at e = b_at e0) \/ b_at e = now a) ->
            DInv (Agg sb db sch (timers a1) (now a) (interval a))).
  { intros sb db sch Hin. repeat split; cbn [bufs set_buf del_buf timers now interval scheduled].
    - intros e He. destruct (Hin e He) as [(e0 & Hold & E)|Hnow].
      + destruct (Hcov e0 Hold) as (t & Ht & Hle). exists t. split; [now apply Ht1|lia].
      + destruct Hnew as (t & Ht & Hle). exists t. split; [assumption|lia].
    - intros _. exact Hnew.
    - intros e He. destruct (Hin e He) as [(e0 & Hold & E)|Hnow]; [rewrite E; now apply Hat|lia]. }
  destruct p as [kvs|kvs].
  - destruct ((match del_buf a1 with [] => false | _ => true end) || already_buffered a1 kvs).
    + unfold send_current_state. cbn [fst set_buf del_buf scheduled timers now interval].
      rewrite Hn1, Hi1. split; [|split; reflexivity]. apply G. intros e He. rewrite app_nil_r in He.
      destruct (fold_insert_at _ _ _ _ He) as [(e0 & [] & _)|E]. right. exact E.
    + cbn [fst set_buf del_buf scheduled timers now interval]. rewrite Hn1, Hi1, Hd1, Hs1.
      split; [|split; reflexivity]. apply G. intros e He.
      apply in_app_iff in He as [He|He].
      * destruct (fold_insert_at _ _ _ _ He) as [(e0 & H0 & E)|E]; [|now right].
        left. exists e0. split; [unfold bufs; apply in_app_iff; now left|assumption].
      * left. exists e. split; [unfold bufs; apply in_app_iff; now right|reflexivity].
  - destruct ((match set_buf a1 with [] => false | _ => true end) || already_buffered a1 kvs).
    + unfold send_current_state. cbn [fst set_buf del_buf scheduled timers now interval].
      rewrite Hn1, Hi1. split; [|split; reflexivity]. apply G. intros e He. cbn [app] in He.
      destruct (fold_insert_at _ _ _ _ He) as [(e0 & [] & _)|E]. right. exact E.
    + cbn [fst set_buf del_buf scheduled timers now interval]. rewrite Hn1, Hi1, Hd1, Hs1.
      split; [|split; reflexivity]. apply G. intros e He.
      apply in_app_iff in He as [He|He].
      * left. exists e. split; [unfold bufs; apply in_app_iff; now left|reflexivity].
      * destruct (fold_insert_at _ _ _ _ He) as [(e0 & H0 & E)|E]; [|now right].
        left. exists e0. split; [unfold bufs; apply in_app_iff; now right|assumption].
Qed.

Lemma fire_empties n a : (0 < n)%nat -> bufs (fst (fire n a)) = [] /\ scheduled (fst (fire n a)) = false.
Proof.
  revert a. induction n as [|n IH]; intros a Hn; [lia|]. cbn [fire].
  rewrite (surjective_pairing (send_current_state a)). rewrite (surjective_pairing (fire n _)). cbn [fst].
  destruct n as [|n']; [cbn; auto|]. apply IH. lia.
Qed.

Lemma fire_keeps n : forall a,
  timers (fst (fire n a)) = timers a /\ now (fst (fire n a)) = now a /\ interval (fst (fire n a)) = interval a.
Proof.
  induction n as [|n IH]; intros a; [cbn; auto|]. cbn [fire].
  rewrite (surjective_pairing (send_current_state a)). rewrite (surjective_pairing (fire n _)). cbn [fst].
  destruct (IH (fst (send_current_state a))) as (H1 & H2 & H3). rewrite H1, H2, H3. cbn. auto.
Qed.

(* time passes: afterwards no buffered event is older than the interval *)
Theorem advance_delay a dt :
  DInv a ->
  let a' := fst (advance a dt) in
  DInv a' /\ interval a' = interval a /\ now a' = now a + dt /\
  forall e, In e (bufs a') -> now a' < b_at e + interval a'.
Proof.
  intros (Hcov & Hsch & Hat) a'. subst a'. unfold advance.
  set (T := now a + dt).
  set (due := filter (fun x => N.leb x T) (timers a)).
  set (rest := filter (fun x => negb (N.leb x T)) (timers a)).
  set (b := Agg (set_buf a) (del_buf a) (scheduled a) rest T (interval a)).
  destruct (fire_keeps (length due) b) as (Kt & Kn & Ki).
  destruct (length due) as [|n] eqn:El.
  - (* nothing was due: every timer is still sleeping *)
    cbn [fire fst]. assert (Hrest : forall t, In t (timers a) -> In t rest /\ T < t).
    { intros t Ht. assert (Hnd : ~ In t due) by (destruct due; [intros []|discriminate]).
      unfold due in Hnd. rewrite filter_In in Hnd.
      destruct (N.le_gt_cases t T) as [Hle|Hgt]; [exfalso; apply Hnd; split; [assumption|now apply N.leb_le]|].
      split; [|assumption]. unfold rest. apply filter_In. split; [assumption|].
      apply negb_true_iff. apply N.leb_gt. assumption. }
    repeat split; cbn [bufs set_buf del_buf timers now interval scheduled b].
    + intros e He. destruct (Hcov e He) as (t & Ht & Hle). exists t. split; [apply Hrest; assumption|assumption].
    + intros Hs. destruct (Hsch Hs) as (t & Ht & Hle). exists t. split; [apply Hrest; assumption|unfold T; lia].
    + intros e He. specialize (Hat e He). unfold T. lia.
    + intros e He. destruct (Hcov e He) as (t & Ht & Hle). destruct (Hrest t Ht) as [_ Hgt]. lia.
  - (* a timer fired: everything buffered went out *)
    destruct (fire_empties (S n) b) as [Hb Hs]; [lia|].
    rewrite Kn, Ki. cbn [b now interval].
    repeat split; try rewrite Hb; try (intros e []); try reflexivity.
    rewrite Hs. discriminate.
Qed.

(* all schedules: the invariant holds from the start, so after every passing of time nothing that
   arrived an interval ago (or earlier) is still waiting in the server *)
Lemma DInv_init d : DInv (agg_init d).
Proof. repeat split; cbn; try (intros e []); discriminate. Qed.

Theorem run_delay xs : forall a,
  DInv a -> DInv (agg_final a xs) /\ interval (agg_final a xs) = interval a.
Proof.
  induction xs as [|x xs IH]; intros a HD; [cbn; auto|].
  unfold agg_final in *. cbn [fold_left]. destruct x as [p|dt]; cbn [agg_step].
  - destruct (arrive_delay a p HD) as (H1 & H2 & _). destruct (IH _ H1) as [H3 H4]. split; [assumption|congruence].
  - destruct (advance_delay a dt HD) as (H1 & H2 & _). destruct (IH _ H1) as [H3 H4]. split; [assumption|congruence].
Qed.
