(* Step-level facts about Model/Core.v for the data part: every answered request is related
   to the map specification. *)
From WB Require Import Base.Str Base.StrFacts Base.Json Base.JsonFacts Model.Key Model.Consts Model.Store Model.Match
  Model.Subs Model.Entry Model.Core Spec.MapSpec
  Proofs.StoreFacts Proofs.TreeInv Proofs.GoodNames Proofs.MergeFacts Proofs.MatchFacts.

Definition abs (s : core) : mstate := lookup (data s).

(* the invariant of the data tree: a HashMap at every level, no obsolete node, regular names,
   and no value at the root (the root is not addressable by any key) *)
Definition Inv (s : core) : Prop :=
  wfn (data s) /\ cleann (data s) /\ goodn (data s) /\ nval (data s) = None.

Lemma Inv_init : Inv init.
Proof. repeat split; try exact I. constructor. Qed.

Lemma reach_bad_wf {V} (n : node V) : forall p, wf_pat p = true -> reach_bad n p = false.
Proof.
  induction n as [v cs IH] using node_ind'. intros p Hwf.
  destruct p as [|s p]; [reflexivity|]. destruct s as [s| |].
  - cbn [wf_pat] in Hwf. cbn [reach_bad].
    induction IH as [|[k c] cs Hc Hcs IHcs]; [reflexivity|].
    destruct (str_eqb s k); [now apply Hc|assumption].
  - cbn [wf_pat] in Hwf. cbn [reach_bad].
    induction IH as [|[k c] cs Hc Hcs IHcs]; [reflexivity|].
    cbn [snd] in Hc. now rewrite Hc, IHcs.
  - destruct p; [reflexivity|discriminate].
Qed.

Lemma set_data_data s d n : data (set_data s d n) = d.
Proof. reflexivity. Qed.

Lemma nval_set_at_cons {V} k p (e : V) n : nval (set_at (k :: p) e n) = nval n.
Proof. destruct n; reflexivity. Qed.

Lemma nval_del_at_cons {V} k p (n : node V) : nval (del_at (k :: p) n) = nval n.
Proof. destruct n as [v cs]. cbn. now destruct (find_child k cs). Qed.

Lemma decide_plain cur v force ex ch e' :
  decide cur (Plain v) force = DOk ex ch e' -> e' = Plain v.
Proof.
  unfold decide. destruct cur as [[c|c vc]|]; [| |]; try destruct force; intros H; try discriminate;
    now injection H as _ _ <-.
Qed.

Definition cset_result (cur : option entry) (v : json) (n : N) (force : bool) : entry :=
  if force then match cur with Some (Cas _ _) => Cas v (n + 1) | _ => Cas v 1 end
  else Cas v (n + 1).

Lemma decide_cas cur v n force ex ch e' :
  decide cur (Cas v n) force = DOk ex ch e' -> e' = cset_result cur v n force.
Proof.
  unfold decide, bump, cset_result.
  destruct cur as [[c|c vc]|]; destruct force; destruct (N.eqb_spec n 0) as [->|Hn0]; cbn [orb];
    try destruct (N.eqb vc 0); try destruct (N.eqb vc n); try destruct (N.eqb 0 u64_max);
    try destruct (N.eqb n u64_max); intros H; try discriminate; now injection H as _ _ <-.
Qed.

(* the CAS rule: an unforced cset is accepted iff its version is the current one *)
Definition cur_version (cur : option entry) : N :=
  match cur with Some (Cas _ n) => n | _ => 0 end.

Lemma decide_cset_rule cur v n :
  n <> u64_max ->
  (exists ex ch e', decide cur (Cas v n) false = DOk ex ch e') <-> n = cur_version cur.
Proof.
  intros Hmax. unfold decide, bump, cur_version.
  destruct cur as [[c|c vc]|]; cbn [orb].
  - rewrite orb_false_r. destruct (N.eqb_spec n 0); split; intros H; try congruence; eauto.
    destruct H as (? & ? & ? & H). discriminate.
  - destruct (N.eqb_spec vc n) as [->|Hn].
    + apply N.eqb_neq in Hmax. rewrite Hmax. split; eauto.
    + split; [intros (? & ? & ? & H); discriminate|congruence].
  - rewrite orb_false_r. destruct (N.eqb_spec n 0); split; intros H; try congruence; eauto.
    destruct H as (? & ? & ? & H). discriminate.
Qed.

Lemma decide_set_on_cas c vc v : decide (Some (Cas c vc)) (Plain v) false = DErr E_Cas.
Proof. reflexivity. Qed.

(* ---- insert (set / cset) ---- *)
Lemma do_insert_effect s c key e force :
  Inv s ->
  let r := do_insert s c key e force in
  match o_res (snd r) with
  | RUnit => exists p existed changed e',
               parse_segments key = Ok p /\ decide (abs s p) e force = DOk existed changed e' /\
               Inv (fst r) /\ meq (abs (fst r)) (m_set (abs s) p e')
  | RErr _ | RCrash => fst r = s
  | _ => False
  end.
Proof.
  intros (Hw & Hc & Hg & Hr). unfold do_insert.
  destruct (check_read_only key c); [reflexivity|].
  destruct (parse_segments key) as [p|code] eqn:Ep; [|reflexivity].
  destruct (special_value_bad key (entry_val e)); [reflexivity|].
  destruct (decide (lookup (data s) p) e force) as [existed changed e'| |] eqn:Ed; [|reflexivity|reflexivity].
  cbn [snd fst o_res].
  destruct (parse_segments_good _ _ Ep) as (_ & Hgp & Hne).
  exists p, existed, changed, e'. repeat split; try assumption.
  - cbn [data set_data]. now apply wfn_set_at.
  - cbn [data set_data]. now apply cleann_set_at.
  - cbn [data set_data]. now apply goodn_set_at.
  - cbn [data set_data]. destruct p as [|k p]; [congruence|]. now rewrite nval_set_at_cons.
  - intros q. unfold abs, m_set. cbn [data set_data]. apply lookup_set_at.
Qed.

(* ---- delete ---- *)
Lemma do_delete_effect s c key :
  Inv s ->
  let r := do_delete s c key in
  match o_res (snd r) with
  | RValue x => exists p e, parse_segments key = Ok p /\ abs s p = Some e /\ x = entry_val e /\
                            Inv (fst r) /\ meq (abs (fst r)) (m_del (abs s) p)
  | RErr code => Inv (fst r) /\ meq (abs (fst r)) (abs s)
  | _ => False
  end.
Proof.
  intros (Hw & Hc & Hg & Hr). unfold do_delete.
  destruct (check_read_only key c) eqn:Eck.
  { cbn. repeat split; assumption. }
  destruct (parse_segments key) as [p|code] eqn:Ep.
  2:{ cbn. repeat split; assumption. }
  destruct (parse_segments_good _ _ Ep) as (_ & Hgp & Hne).
  assert (Hok : root_ok (del_at p (data s)) = true).
  { apply root_ok_spec. now apply cleann_del_at. }
  rewrite Hok. cbn [negb].
  assert (HI : forall n, Inv (set_data s (del_at p (data s)) n)).
  { intros n. repeat split; cbn [data set_data].
    - now apply wfn_del_at.
    - now apply cleann_del_at.
    - now apply goodn_del_at.
    - destruct p as [|k p]; [congruence|]. now rewrite nval_del_at_cons. }
  destruct (lookup (data s) p) as [e|] eqn:El; cbn [snd fst o_res].
  - exists p, e. repeat split; try apply HI; try assumption.
    intros q. unfold abs, m_del. cbn [data set_data]. now apply lookup_del_at.
  - split; [apply HI|]. intros q. unfold abs. cbn [data set_data].
    rewrite lookup_del_at by assumption.
    destruct (path_eqb_spec p q) as [<-|_]; [now rewrite El|reflexivity].
Qed.

(* every stored key is non-empty and made of good segments *)
Lemma stored_key_good s q e : Inv s -> abs s q = Some e -> q <> [] /\ Forall good_seg q.
Proof.
  intros (Hw & Hc & Hg & Hr) Hl. split.
  - intros ->. unfold abs in Hl. rewrite lookup_nil in Hl. congruence.
  - exact (lookup_good _ _ _ Hg Hl).
Qed.

Lemma notify_deleted_ok s' (ms : list (list str * entry)) :
  Forall (fun m => fst m <> [] /\ Forall good_seg (fst m)) ms ->
  exists evs, notify_deleted s' ms = Ok evs.
Proof.
  induction 1 as [|m ms [Hne Hg] _ IH]; [now exists []|].
  destruct IH as (evs & IH). cbn [notify_deleted]. unfold key_of.
  rewrite (parse_join_good _ Hne Hg), IH. eauto.
Qed.

(* ---- pdelete ---- *)
Lemma do_pdelete_effect s c pat :
  Inv s ->
  let r := do_pdelete s c false pat in
  match o_res (snd r) with
  | RKvs l => Inv (fst r) /\ meq (abs (fst r)) (m_pdel (abs s) (kseg_parse pat)) /\
              l = map kv_of (collect (data s) [] (kseg_parse pat))
  | RErr _ => fst r = s
  | _ => False
  end.
Proof.
  intros HI. pose proof HI as (Hw & Hc & Hg & Hr). unfold do_pdelete.
  destruct (check_read_only pat c); [reflexivity|].
  destruct (reach_bad (data s) (kseg_parse pat)); [reflexivity|].
  set (p := kseg_parse pat).
  assert (Hok : root_ok (dr_node (delm (data s) [] p)) = true).
  { apply root_ok_spec. now apply cleann_delm. }
  rewrite Hok. cbn [negb].
  rewrite delm_matches.
  set (s' := set_data s _ _).
  destruct (notify_deleted_ok s' (collect (data s) [] p)) as (evs & Hn).
  { apply Forall_forall. intros [q e] Hin. cbn [fst].
    apply (collect_spec (data s) [] p q e Hw) in Hin as (k & -> & Hl & _). cbn [app].
    exact (stored_key_good s k e HI Hl). }
  rewrite Hn. cbn [snd fst o_res]. split; [|split; [|reflexivity]].
  - subst s'. repeat split; cbn [data set_data].
    + exact (proj1 (delm_spec (data s) [] p [] Hw)).
    + now apply cleann_delm.
    + now apply goodn_delm.
    + pose proof (proj2 (delm_spec (data s) [] p [] Hw)) as Hl. rewrite !lookup_nil in Hl.
      rewrite Hl, Hr. now destruct (store_match p []).
  - intros q. subst s'. unfold abs, m_pdel. cbn [data set_data].
    exact (proj2 (delm_spec (data s) [] p q Hw)).
Qed.

(* ---- pget ---- *)
Lemma do_pget_spec s pat :
  Inv s ->
  match do_pget s pat with
  | Ok l => forall k v, In (k, v) l <->
              exists q e, k = join slash q /\ v = entry_val e /\ abs s q = Some e /\
                          store_match (kseg_parse pat) q = true
  | Err c => c = E_IllegalMultiWildcard /\ wf_pat (kseg_parse pat) = false
  end.
Proof.
  intros (Hw & Hc & Hg & Hr). unfold do_pget.
  destruct (reach_bad (data s) (kseg_parse pat)) eqn:Eb.
  - split; [reflexivity|]. destruct (wf_pat (kseg_parse pat)) eqn:Ew; [|reflexivity].
    now rewrite (reach_bad_wf _ _ Ew) in Eb.
  - intros k v. rewrite in_map_iff. split.
    + intros ([q e] & E & Hin). unfold kv_of in E. cbn [fst snd] in E. injection E as <- <-.
      apply (collect_spec _ _ _ _ _ Hw) in Hin as (k' & -> & Hl & Hm). cbn [app].
      exists k', e. repeat split; assumption.
    + intros (q & e & -> & -> & Hl & Hm). exists (q, e). split; [reflexivity|].
      apply (collect_spec _ _ _ _ _ Hw). exists q. repeat split; assumption.
Qed.

(* ---- import ---- *)
Definition good_import (other : node entry) : Prop :=
  wfn other /\ goodn other /\ nval other = None.

Lemma names_filter {V} (f : str * node V -> bool) cs : forall x, In x (names (filter f cs)) -> In x (names cs).
Proof.
  unfold names. intros x H. apply in_map_iff in H as (kc & <- & Hin). apply filter_In in Hin as (Hin & _). apply in_map_iff. now exists kc.
Qed.

Lemma NoDup_names_filter {V} (f : str * node V -> bool) cs : NoDup (names cs) -> NoDup (names (filter f cs)).
Proof.
  unfold names. induction cs as [|kc cs IH]; intros H; [constructor|]. cbn [map] in H. apply NoDup_cons_iff in H as (H1 & H2).
  cbn [filter]. destruct (f kc); [|now apply IH]. cbn [map]. constructor; [|now apply IH].
  intros Hin. apply H1. exact (names_filter f cs _ Hin).
Qed.

(* Store::merge strips $SYS from what it is given (repair of F29) *)
Lemma good_import_strip other : good_import other -> good_import (strip_sys s_SYS other).
Proof.
  destruct other as [v cs]. intros (Hw & Hg & Hv). unfold strip_sys. cbn [nval nkids] in *.
  apply wfn_unfold in Hw as (Hnd & Hall). apply goodn_unfold in Hg. unfold good_import. split; [|split].
  - apply wfn_unfold. split; [now apply NoDup_names_filter|].
    apply Forall_forall. intros x Hx. apply filter_In in Hx as (Hx & _). rewrite Forall_forall in Hall. now apply Hall.
  - apply goodn_unfold. apply Forall_forall. intros x Hx. apply filter_In in Hx as (Hx & _). rewrite Forall_forall in Hg. now apply Hg.
  - exact Hv.
Qed.

Lemma nval_merge n other : nval other = None -> nval (merge n other) = nval n.
Proof.
  destruct other as [ov ocs]. cbn [nval]. intros ->. rewrite merge_unfold. cbn zeta.
  now destruct ocs.
Qed.

Lemma notify_imported_ok s' old (ents : list (list str * entry)) :
  Forall (fun m => fst m <> [] /\ Forall good_seg (fst m)) ents ->
  exists evs, notify_imported s'
    (map (fun pe => (fst pe, snd pe,
                     match lookup old (fst pe) with
                     | Some e => negb (entry_eqb e (snd pe))
                     | None => true
                     end)) ents) = Ok evs.
Proof.
  induction 1 as [|m ms [Hne Hg] _ IH]; [now exists []|].
  destruct IH as (evs & IH). cbn [map notify_imported]. unfold import_key, key_of.
  rewrite (parse_join_good _ Hne Hg), IH. eauto.
Qed.

Lemma entries_collect {V} (n : node V) : forall trav, entries n trav = collect n trav [Multi].
Proof.
  induction n as [v cs IH] using node_ind'. intros trav.
  rewrite collect_multi. cbn [entries]. f_equal.
  induction IH as [|[k c] cs Hc Hcs IHcs]; [reflexivity|]. cbn [flat_map fst snd].
  cbn [snd] in Hc. now rewrite Hc, IHcs.
Qed.

Lemma do_import_effect s j :
  Inv s ->
  (forall other, dec_persisted j = Some other -> good_import other) ->
  let r := do_import s j in
  match o_res (snd r) with
  | RImported _ => exists other, dec_persisted j = Some other /\ Inv (fst r) /\
                                 meq (abs (fst r)) (m_import (abs s) (strip_sys s_SYS other))
  | RErr _ => fst r = s
  | _ => False
  end.
Proof.
  intros HI Hgood. pose proof HI as (Hw & Hc & Hg & Hr). unfold do_import.
  destruct (dec_persisted j) as [other0|] eqn:Ed; [|reflexivity].
  cbv zeta. set (other := strip_sys s_SYS other0).
  destruct (good_import_strip other0 (Hgood other0 eq_refl)) as (Hwo & Hgo & Hro). fold other in Hwo, Hgo, Hro.
  unfold insertions.
  set (s' := set_data s _ _).
  destruct (notify_imported_ok s' (data s) (entries other [])) as (evs & Hn).
  { apply Forall_forall. intros [q e] Hin. cbn [fst]. rewrite entries_collect in Hin.
    apply (collect_spec other [] [Multi] q e Hwo) in Hin as (k & -> & Hl & _). cbn [app]. split.
    - intros ->. rewrite lookup_nil in Hl. congruence.
    - exact (lookup_good _ _ _ Hgo Hl). }
  rewrite Hn. cbn [snd fst o_res]. exists other0. split; [reflexivity|]. split.
  - subst s'. repeat split; cbn [data set_data].
    + exact (proj1 (merge_spec other (data s) [] Hw Hwo)).
    + now apply cleann_merge.
    + now apply goodn_merge.
    + now rewrite nval_merge.
  - intros q. subst s'. unfold abs, m_import. cbn [data set_data].
    exact (proj2 (merge_spec other (data s) q Hw Hwo)).
Qed.
