From WB Require Import Base.Str Base.StrFacts Model.Election.
From Coq Require Import ZArith Lia List.
Import ListNotations.
Local Open Scope N_scope.
Local Arguments N.add : simpl never.
Local Arguments N.div : simpl never.
Local Arguments N.leb : simpl never.
Local Arguments N.ltb : simpl never.
Local Arguments N.of_nat : simpl never.

Lemma mem_In x l : mem x l = true <-> In x l.
Proof.
  unfold mem. rewrite existsb_exists. split.
  - intros (y & Hy & E). apply str_eqb_eq in E. now subst.
  - intros H. exists x. split; [exact H|apply str_eqb_refl].
Qed.

Definition is_done (s : est) : bool := match ph s with Done _ => true | _ => false end.

Lemma estep_done s e : is_done s = true -> estep s e = (s, []).
Proof. unfold is_done, estep. destruct (ph s); try discriminate. reflexivity. Qed.

Lemma erun_done es : forall s, is_done s = true -> erun s es = s.
Proof. induction es as [|e es IH]; intros s H; [reflexivity|]. cbn. rewrite estep_done by exact H. now apply IH. Qed.

Lemma erun_app es1 : forall s es2, erun s (es1 ++ es2) = erun (erun s es1) es2.
Proof. induction es1 as [|e es1 IH]; intros s es2; [reflexivity|]. cbn. apply IH. Qed.

(* ---- quorum arithmetic ---- *)
Lemma default_quorum_majority ps q :
  sanity None ps = Some q -> N.of_nat (length ps) + 1 < 2 * q.
Proof.
  unfold sanity. set (n := N.of_nat (length ps) + 1).
  destruct (N.ltb_spec n (n / 2 + 1)); [discriminate|]. intros E. injection E as <-.
  pose proof (N.mod_lt n 2 ltac:(lia)). pose proof (N.div_mod' n 2). lia.
Qed.

Lemma sanity_le_n qc ps q : sanity qc ps = Some q -> q <= N.of_nat (length ps) + 1.
Proof.
  unfold sanity. set (n := N.of_nat (length ps) + 1).
  destruct (N.ltb_spec n (match qc with Some q0 => q0 | None => n / 2 + 1 end)); [discriminate|].
  intros E. injection E as <-. exact H.
Qed.

(* ---- the round ghost: the state at the start of the running vote round and what arrived since ---- *)
Definition ghost := option (est * list event).

Definition counts (p : phase) : bool :=
  match p with Requesting _ _ _ | Done Leader => true | _ => false end.

Definition gstep (s : est) (g : ghost) (e : event) : ghost :=
  let s' := fst (estep s e) in
  match ph s with
  | Done _ => g
  | Requesting _ _ _ =>
      if counts (ph s') then match g with Some (sp, r) => Some (sp, r ++ [e]) | None => None end else None
  | _ => if counts (ph s') then Some (s', []) else None
  end.

Fixpoint erun_g (s : est) (g : ghost) (es : list event) : est * ghost :=
  match es with [] => (s, g) | e :: es' => erun_g (fst (estep s e)) (gstep s g e) es' end.

Lemma erun_g_fst es : forall s g, fst (erun_g s g es) = erun s es.
Proof. induction es as [|e es IH]; intros s g; [reflexivity|]. cbn. apply IH. Qed.

Definition voted (r : list event) (x : str) : Prop := In (ERecv (VoteResp x)) r.

Definition K (s : est) (g : ghost) : Prop :=
  match ph s with
  | Requesting v rem voters =>
      exists sp r, g = Some (sp, r) /\ peers sp = peers s /\ quorum sp = quorum s /\
        v = 1 + N.of_nat (length voters) /\ NoDup voters /\ incl voters (peers s) /\ incl rem (peers s) /\
        (forall x, In x voters -> ~ In x rem) /\ (forall x, In x voters -> voted r x)
  | Done Leader =>
      exists sp r P, g = Some (sp, r) /\ peers sp = peers s /\ quorum sp = quorum s /\
        NoDup P /\ incl P (peers s) /\ (forall x, In x P -> voted r x) /\ quorum s <= 1 + N.of_nat (length P)
  | _ => True
  end.

Lemma apply_peers_ph s ps : ph (apply_peers s ps) = Waiting \/ ph (apply_peers s ps) = Done Failed.
Proof. unfold apply_peers. destruct (sanity _ _); cbn; auto. Qed.

Lemma new_round_ph s : ph (new_round s) = Waiting \/ ph (new_round s) = Done Failed.
Proof. unfold new_round. destruct (pending s); [apply apply_peers_ph|cbn; auto]. Qed.

Lemma K_trivial s g : ph s = Waiting \/ ph s = Done Failed -> K s g.
Proof. unfold K. intros [-> | ->]; exact I. Qed.

Lemma counts_trivial s : ph s = Waiting \/ ph s = Done Failed -> counts (ph s) = false.
Proof. intros [-> | ->]; reflexivity. Qed.

Lemma start_requesting_K s :
  let s' := fst (start_requesting s) in
  K s' (if counts (ph s') then Some (s', []) else None).
Proof.
  cbv zeta. unfold start_requesting. destruct (pending s) as [ps|].
  - cbn [fst]. apply K_trivial, apply_peers_ph.
  - destruct (N.leb_spec (quorum s) 1) as [Hq|Hq]; cbn [fst]; unfold K; cbn.
    + exists (set_ph s (Done Leader)), [], []. repeat split; try constructor; try easy; cbn; try lia.
    + exists (set_ph s (Requesting 1 (peers s) [])), []. repeat split; try constructor; try easy; try (intros x Hx; exact Hx).
Qed.

Lemma filter_neq_incl (id : str) rem : incl (filter (fun x => negb (str_eqb x id)) rem) rem.
Proof. intros x Hx. apply filter_In in Hx. tauto. Qed.

Lemma filter_neq_not_in (id : str) rem : ~ In id (filter (fun x => negb (str_eqb x id)) rem).
Proof. intros H. apply filter_In in H as [_ H]. now rewrite str_eqb_refl in H. Qed.

Lemma K_step s g e : K s g -> K (fst (estep s e)) (gstep s g e).
Proof.
  intros HK. unfold gstep. destruct (ph s) as [|fr cand cp|v rem voters|o] eqn:Hph.
  - (* Waiting *)
    unfold estep. rewrite Hph. destruct e as [m|  |ps].
    + unfold recv. rewrite Hph. destruct m; cbn [fst];
        repeat match goal with |- context [if ?b then _ else _] => destruct b end; cbn [fst];
        try (unfold K; cbn; rewrite ?Hph; exact I).
    + apply start_requesting_K.
    + cbn [fst]. rewrite (counts_trivial _ (apply_peers_ph s ps)). apply K_trivial, apply_peers_ph.
  - (* WaitHb *)
    unfold estep. rewrite Hph. destruct e as [m|  |ps].
    + destruct fr; unfold recv; rewrite Hph; destruct m; cbn [fst]; unfold K; cbn; rewrite ?Hph; exact I.
    + destruct fr.
      * cbn [fst]. rewrite (counts_trivial _ (new_round_ph s)). apply K_trivial, new_round_ph.
      * apply start_requesting_K.
    + destruct fr.
      * cbn [fst]. destruct (pending s); unfold K; cbn; rewrite ?Hph; exact I.
      * cbn [fst]. rewrite (counts_trivial _ (apply_peers_ph s ps)). apply K_trivial, apply_peers_ph.
  - (* Requesting *)
    unfold K in HK. rewrite Hph in HK.
    destruct HK as (sp & r & -> & Hp & Hq & Hv & Hnd & Hin & Hrem & Hdis & Hvoted).
    assert (Hkeep : forall e0, K s (Some (sp, r ++ [e0]))).
    { intros e0. unfold K. rewrite Hph. exists sp, (r ++ [e0]). repeat split; try assumption.
      intros x Hx. unfold voted. apply in_or_app. left. now apply Hvoted. }
    unfold estep. rewrite Hph. destruct e as [m|  |ps].
    + unfold recv. rewrite Hph. destruct m as [id p|id|id|id| | ].
      * destruct (prio_ge p (prio s)); cbn [fst]; [unfold K; cbn; exact I|]. rewrite Hph. cbn [counts]. apply Hkeep.
      * destruct (mem id rem) eqn:Hm.
        -- apply mem_In in Hm.
           assert (Hnew : ~ In id voters) by (intros Hc; exact (Hdis _ Hc Hm)).
           destruct (N.leb_spec (quorum s) (v + 1)) as [Hle|Hlt]; cbn [fst set_ph ph counts].
           ++ unfold K. cbn. exists sp, (r ++ [ERecv (VoteResp id)]), (id :: voters).
              repeat split; try assumption.
              ** constructor; assumption.
              ** intros x [<-|Hx]; [now apply Hrem|now apply Hin].
              ** intros x [<-|Hx]; unfold voted; apply in_or_app; [right; now left|left; now apply Hvoted].
              ** cbn [length]. lia.
           ++ unfold K. cbn. exists sp, (r ++ [ERecv (VoteResp id)]). repeat split; try assumption.
              ** cbn [length]. lia.
              ** constructor; assumption.
              ** intros x [<-|Hx]; [now apply Hrem|now apply Hin].
              ** intros x Hx. apply Hrem. now apply filter_neq_incl in Hx.
              ** intros x [<-|Hx] Hc; [now apply filter_neq_not_in in Hc|]. apply filter_neq_incl in Hc. exact (Hdis _ Hx Hc).
              ** intros x [<-|Hx]; unfold voted; apply in_or_app; [right; now left|left; now apply Hvoted].
        -- cbn [fst]. rewrite Hph. cbn [counts]. apply Hkeep.
      * cbn [fst]. rewrite Hph. cbn [counts]. apply Hkeep.
      * cbn [fst]. rewrite Hph. cbn [counts]. apply Hkeep.
      * cbn [fst]. rewrite Hph. cbn [counts]. apply Hkeep.
      * cbn [fst]. unfold K. cbn. exact I.
    + cbn [fst]. rewrite (counts_trivial _ (new_round_ph s)). apply K_trivial, new_round_ph.
    + cbn [fst]. rewrite (counts_trivial _ (apply_peers_ph s ps)). apply K_trivial, apply_peers_ph.
  - (* Done *)
    rewrite estep_done by (unfold is_done; now rewrite Hph). exact HK.
Qed.

Lemma K_run es : forall s g, K s g -> K (fst (erun_g s g es)) (snd (erun_g s g es)).
Proof. induction es as [|e es IH]; intros s g H; [exact H|]. cbn. apply IH. now apply K_step. Qed.

(* ---- the ghost is a real piece of the history ---- *)
Definition D (s0 : est) (h : list event) (s : est) (g : ghost) : Prop :=
  erun s0 h = s /\
  forall sp r, g = Some (sp, r) ->
    exists pre post, h = pre ++ r ++ post /\ erun s0 pre = sp /\ (post = [] \/ is_done (erun s0 (pre ++ r)) = true).

Lemma D_step s0 h s g e : D s0 h s g -> D s0 (h ++ [e]) (fst (estep s e)) (gstep s g e).
Proof.
  intros [Hrun Hg]. split; [rewrite erun_app, Hrun; reflexivity|].
  intros sp r. unfold gstep. destruct (ph s) as [|fr cand cp|v rem voters|o] eqn:Hph.
  1,2: destruct (counts _); [|discriminate]; intros E; injection E as <- <-;
       exists (h ++ [e]), []; rewrite app_nil_r; repeat split; [rewrite erun_app, Hrun; reflexivity|now left].
  - destruct (counts _); [|discriminate]. destruct g as [[sp0 r0]|]; [|discriminate].
    intros E. injection E as <- <-.
    destruct (Hg _ _ eq_refl) as (pre & post & Hh & Hpre & Hpost).
    assert (post = []) as ->.
    { destruct Hpost as [->|Hd]; [reflexivity|]. exfalso.
      rewrite Hh, app_assoc, erun_app, (erun_done post _ Hd) in Hrun.
      rewrite Hrun in Hd. unfold is_done in Hd. now rewrite Hph in Hd. }
    rewrite app_nil_r in Hh. exists pre, []. rewrite app_nil_r. repeat split; [rewrite Hh; now rewrite app_assoc|exact Hpre|now left].
  - intros ->. destruct (Hg _ _ eq_refl) as (pre & post & Hh & Hpre & Hpost).
    exists pre, (post ++ [e]). repeat split; [rewrite Hh; now rewrite !app_assoc|exact Hpre|].
    right. destruct Hpost as [->|Hd]; [|exact Hd].
    rewrite app_nil_r in Hh. rewrite <- Hh, Hrun. unfold is_done. now rewrite Hph.
Qed.

Lemma D_run es : forall s0 h s g, D s0 h s g -> D s0 (h ++ es) (fst (erun_g s g es)) (snd (erun_g s g es)).
Proof.
  induction es as [|e es IH]; intros s0 h s g H; [now rewrite app_nil_r|].
  cbn. replace (h ++ e :: es) with ((h ++ [e]) ++ es) by now rewrite <- app_assoc.
  apply IH. now apply D_step.
Qed.

(* ---- C19: the leader role needs a quorum of distinct configured peers' votes of the running round ---- *)
Theorem leader_needs_quorum s0 es :
  ph s0 = Waiting ->
  ph (erun s0 es) = Done Leader ->
  exists pre round post P,
    es = pre ++ round ++ post /\
    (* the vote round that made it leader started in the state reached after [pre], nothing in [post] was looked at *)
    peers (erun s0 pre) = peers (erun s0 es) /\ quorum (erun s0 pre) = quorum (erun s0 es) /\
    NoDup P /\ incl P (peers (erun s0 es)) /\ (forall x, In x P -> In (ERecv (VoteResp x)) round) /\
    quorum (erun s0 es) <= 1 + N.of_nat (length P).
Proof.
  intros H0 HL.
  assert (HK : K s0 None) by (unfold K; now rewrite H0).
  assert (HD : D s0 [] s0 None) by (split; [reflexivity|discriminate]).
  pose proof (K_run es _ _ HK) as HK'. pose proof (D_run es _ _ _ _ HD) as HD'.
  rewrite erun_g_fst in HK', HD'. cbn [app] in HD'.
  unfold K in HK'. rewrite HL in HK'.
  destruct HK' as (sp & r & P & Hg & Hp & Hq & Hnd & Hin & Hv & Hle).
  destruct HD' as [_ HD']. destruct (HD' _ _ Hg) as (pre & post & Hes & Hpre & _).
  exists pre, r, post, P. rewrite Hpre. repeat split; assumption.
Qed.

(* a vote that does not count leaves the state as it is *)
Lemma vote_ignored s id :
  (match ph s with Requesting _ rem _ => ~ In id rem | _ => True end) ->
  estep s (ERecv (VoteResp id)) = (s, []).
Proof.
  unfold estep, recv. destruct (ph s) as [|fr c p|v rem voters|o] eqn:Hph; try reflexivity.
  - now destruct fr.
  - intros Hn. destruct (mem id rem) eqn:Hm; [|reflexivity]. apply mem_In in Hm. contradiction.
Qed.

Lemma counted_once s id v rem voters :
  ph s = Requesting v rem voters -> In id rem ->
  match ph (fst (estep s (ERecv (VoteResp id)))) with
  | Requesting v' rem' _ => v' = v + 1 /\ ~ In id rem'
  | Done Leader => quorum s <= v + 1
  | _ => False
  end.
Proof.
  intros Hph Hin. unfold estep, recv. rewrite Hph. apply mem_In in Hin. rewrite Hin.
  destruct (N.leb_spec (quorum s) (v + 1)); cbn; [assumption|]. split; [reflexivity|apply filter_neq_not_in].
Qed.

(* follower mode: only towards a configured peer, and only on that peer's heartbeat request *)
Theorem follower_only_member s e id :
  started s = NoServer ->
  started (fst (estep s e)) = FollowerServer id ->
  e = ERecv (HbReq id) /\ In id (peers s).
Proof.
  unfold started. intros H0 H1.
  assert (Hnd : is_done s = false).
  { unfold is_done. destruct (ph s) as [| | |o] eqn:E; try reflexivity.
    exfalso. rewrite estep_done in H1 by (unfold is_done; now rewrite E). cbn [fst] in H1. rewrite E in H1.
    destruct o as [|x|]; try discriminate. destruct (mem x (peers s)); discriminate. }
  assert (Hfw : forall s', ph s' = Waiting \/ ph s' = Done Failed -> started s' = FollowerServer id -> False).
  { intros s' [E|E]; unfold started; rewrite E; discriminate. }
  assert (Hsr : started (fst (start_requesting s)) = FollowerServer id -> False).
  { unfold start_requesting. destruct (pending s); [apply Hfw, apply_peers_ph|].
    destruct (N.leb _ _); unfold started; cbn; discriminate. }
  unfold estep in H1. destruct (ph s) as [|fr c p|v rem voters|o] eqn:Hph; [| | |unfold is_done in Hnd; rewrite Hph in Hnd; discriminate].
  - destruct e as [m| |ps]; [|exfalso; now apply Hsr|exfalso; exact (Hfw _ (apply_peers_ph s ps) H1)].
    unfold recv in H1. rewrite Hph in H1. unfold started in *.
    destruct m as [i p|i|i|i| | ]; cbn [fst] in H1; rewrite ?Hph in H1; try discriminate.
    + destruct (prio_ge p (prio s)); cbn [fst set_ph ph peers] in H1; [discriminate|rewrite Hph in H1; discriminate].
    + destruct (is_part_of_cluster s i); cbn [fst set_ph ph peers] in H1; [|rewrite Hph in H1; discriminate].
      destruct (mem i (peers s)) eqn:Hm; [|discriminate]. injection H1 as <-. apply mem_In in Hm. auto.
  - destruct e as [m| |ps].
    + assert (H1' : started (fst (recv s m)) = FollowerServer id) by (destruct fr; exact H1). clear H1. rename H1' into H1.
      unfold recv in H1. rewrite Hph in H1. unfold started in *.
      destruct m as [i p0|i|i|i| | ]; cbn [fst] in H1; rewrite ?Hph in H1; try discriminate.
      cbn [fst set_ph ph peers] in H1. destruct (mem i (peers s)) eqn:Hm; [|discriminate]. injection H1 as <-. apply mem_In in Hm. auto.
    + exfalso. destruct fr; [exact (Hfw _ (new_round_ph s) H1)|now apply Hsr].
    + exfalso. destruct fr; [|exact (Hfw _ (apply_peers_ph s ps) H1)].
      cbn [fst] in H1. unfold started in H1. destruct (pending s); cbn [fst set_ph ph peers] in H1; rewrite ?Hph in H1; discriminate.
  - destruct e as [m| |ps]; [|exfalso; exact (Hfw _ (new_round_ph s) H1)|exfalso; exact (Hfw _ (apply_peers_ph s ps) H1)].
    exfalso. unfold recv in H1. rewrite Hph in H1. unfold started in H1.
    destruct m as [i p|i|i|i| | ]; cbn [fst] in H1; rewrite ?Hph in H1; try discriminate.
    + destruct (prio_ge p (prio s)); cbn [fst set_ph ph peers] in H1; [discriminate|rewrite Hph in H1; discriminate].
    + destruct (mem i rem); [|cbn [fst set_ph ph peers] in H1; rewrite Hph in H1; discriminate].
      destruct (N.leb _ _); cbn [fst set_ph ph peers] in H1; discriminate.
Qed.

(* messages that never matter: heartbeat responses, empty datagrams, heartbeats of non-members while waiting *)
Lemma foreign_ignored s m :
  (match m with
   | HbResp _ | Empty => True
   | HbReq id => ph s = Waiting /\ is_part_of_cluster s id = false \/ (exists v r vs, ph s = Requesting v r vs)
   | VoteResp id => match ph s with Requesting _ rem _ => ~ In id rem | _ => True end
   | VoteReq _ p => prio_ge p (prio s) = false /\ (forall f c q, ph s <> WaitHb f c q) \/ (exists f c q, ph s = WaitHb f c q)
   | Garbage => False
   end) ->
  estep s (ERecv m) = (s, []).
Proof.
  destruct m as [i p|i|i|i| | ]; intros H; try contradiction.
  - unfold estep, recv. destruct (ph s) as [|fr c0 q0|v rem voters|o] eqn:Hph; try reflexivity.
    + destruct H as [[-> _]|(f & c1 & q1 & E)]; [reflexivity|discriminate].
    + now destruct fr.
    + destruct H as [[-> _]|(f & c1 & q1 & E)]; [reflexivity|discriminate].
  - now apply vote_ignored.
  - unfold estep, recv. destruct (ph s) as [|fr c0 q0|v rem voters|o] eqn:Hph; try reflexivity.
    + destruct H as [[_ ->]|(v & r & vs & E)]; [reflexivity|discriminate].
    + destruct H as [[E _]|(v & r & vs & E)]; discriminate.
  - unfold estep, recv. destruct (ph s) as [|fr c0 q0|v rem voters|o]; try reflexivity. now destruct fr.
  - unfold estep, recv. destruct (ph s) as [|fr c0 q0|v rem voters|o]; try reflexivity. now destruct fr.
Qed.
