(* C20 + C13 + C01, composed: a call on the client library, carried by the session layer to the store and back.
   For the reading calls the typed result the caller gets is what the store holds; for the writing calls an Ok means the
   store holds the value afterwards.  The composition itself (command -> message -> handle -> messages -> callbacks) is the
   one the client driver of the correspondence check runs (ocaml/client_driver.ml to_server / do_call). *)
From Coq Require Import Lia List.
Import ListNotations.
From WB Require Import Base.Str Base.StrFacts Base.Json Model.Key Model.Consts Model.Store Model.Match Model.Subs Model.Entry Model.Core
  Model.CodecConsts Model.Codec Model.Auth Model.Session Model.Client Spec.MapSpec
  Proofs.StoreFacts Proofs.TreeInv Proofs.GoodNames Proofs.CoreFacts Proofs.SessionFacts Proofs.ClientFacts.
Local Open Scope N_scope.

(* a session that is served: open, and no token needed *)
Definition served (w : world) (sn : N) (s : sess) : Prop :=
  lookup_n sn (w_sess w) = Some s /\ ss_open s = true /\ w_auth_required w = false.

(* no callback is filed under an id the library has not handed out yet *)
Definition Fresh (c : cstate) : Prop :=
  forall t, next_tid c <= t ->
    cb_find t (ack c) = None /\ cb_find t (state c) = None /\ cb_find t (cstate_ c) = None /\ cb_find t (pstate c) = None /\
    cb_find t (lsstate c) = None /\ cb_find t (sub c) = None /\ cb_find t (psub c) = None /\ cb_find t (subls c) = None.

Lemma Fresh_init : Fresh cinit.
Proof. intros t _. repeat split; reflexivity. Qed.

(* one awaited call: the command goes through the library, the message through the session, the answers come back *)
Definition round_trip (w : world) (c : cstate) (sn call : N) (cmd : ccmd) : world * cstate * list delivery * verdict :=
  let '(c1, m, _) := on_cmd c call cmd in
  let '(w1, out, v) := handle w sn m in
  let mine := map snd (filter (fun x => N.eqb (fst x) sn) out) in
  let '(c2, ds) := fold_left (fun acc sm => let '(c', d') := on_msg (fst acc) sm in (c', snd acc ++ d')) mine (c1, []) in
  (w1, c2, ds, v).

Definition get_spec (m : mstate) (k : str) : cresult :=
  match parse_segments k with
  | Err code => CRErr code
  | Ok p => match m p with Some e => CRVal (entry_val e) | None => CRNone end
  end.

Lemma parse_err_code k code : parse_segments k = Err code -> code = E_IllegalWildcard \/ code = E_IllegalMultiWildcard.
Proof.
  unfold parse_segments. generalize (split slash k). intros l. revert code. induction l as [|s l IH]; intros code; cbn [regular_segments]; [discriminate|].
  destruct (kseg_of_str s); [| |]; try (intros [= <-]; auto).
  destruct (regular_segments l) as [rs|e] eqn:E; [discriminate|]. intros [= <-]. now apply IH.
Qed.

Lemma handle_read w sn s m o :
  served w sn s -> op_of (cid_of sn) m = Some o ->
  (N.eqb (ss_proto s) 0 && v1_only m)%bool = false -> (match m with MTransform _ _ _ => false | _ => true end) = true ->
  (match m with MProtocolSwitchRequest _ | MAuthorizationRequest _ => false | _ => true end) = true ->
  (match m with MSubscribe _ _ _ _ | MPSubscribe _ _ _ _ _ | MSubscribeLs _ _ | MAcquireLock _ _ => false | _ => true end) = true ->
  let '(core', out) := step (w_core w) o in
  handle w sn m = (World core' (w_auth_required w) (w_sess w) (w_chan w) (w_reqs w),
                   route_events (World core' (w_auth_required w) (w_sess w) (w_chan w) (w_reqs w)) out ++ map (fun x => (sn, x)) (answer m (o_res out)), Continue).
Proof.
  intros (Hl & Ho & Ha) Hop Hv1 Htr Hps Hsub. unfold handle. rewrite Hl, Ha.
  destruct m; try discriminate; cbn [orb] in *; rewrite ?Hv1, ?Bool.orb_false_r; cbn [orb];
    rewrite Hop; destruct (step (w_core w) o) as [core' out]; reflexivity.
Qed.

Lemma route_events_quiet w r : route_events w (out_res r) = [].
Proof. reflexivity. Qed.

Lemma deliver_one c sm :
  fold_left (fun acc sm => let '(c', d') := on_msg (fst acc) sm in (c', snd acc ++ d')) [sm] (c, []) = (fst (on_msg c sm), snd (on_msg c sm)).
Proof. cbn [fold_left fst snd app]. now destruct (on_msg c sm). Qed.

Lemma filter_mine sn (l : list smsg) : map snd (filter (fun x : N * smsg => N.eqb (fst x) sn) (map (fun x => (sn, x)) l)) = l.
Proof. induction l as [|x l IH]; [reflexivity|]. cbn [map filter fst]. rewrite N.eqb_refl. cbn [map snd]. now rewrite IH. Qed.

(* get: the caller receives the value the store holds, None where it holds none, the key's error where the key is ill-formed *)
Theorem get_end_to_end w c sn s call k :
  served w sn s -> Fresh c ->
  let '(w1, c2, ds, v) := round_trip w c sn call (CGet k) in
  w_core w1 = w_core w /\ v = Continue /\
  exists sm, ds = [DAnswer call sm] /\ tid_of_smsg sm = Some (next_tid c) /\
             result_of (CGet k) sm = get_spec (abs (w_core w)) k /\
             cb_find (next_tid c) (state c2) = None.
Proof.
  intros Hs Hf. unfold round_trip. cbn [on_cmd].
  pose proof (handle_read w sn s (MGet (next_tid c) k) (OGet k) Hs eq_refl) as H. cbn [v1_only] in H. rewrite Bool.andb_false_r in H.
  specialize (H eq_refl eq_refl eq_refl eq_refl). cbn [step] in H. rewrite H. clear H.
  rewrite route_events_quiet. cbn [app]. rewrite filter_mine.
  destruct (Hf (next_tid c) (N.le_refl _)) as (_ & _ & _ & _ & _ & Hsub & _).
  set (t := next_tid c) in *.
  destruct (Hf t (N.le_refl _)) as (Ha & _ & Hc & Hps & Hls & _).
  unfold do_get, get_spec, abs. destruct (parse_segments k) as [p|code] eqn:Hp.
  - destruct (lookup (data (w_core w)) p) as [e|] eqn:Hl; cbn [o_res out_res answer tid_of map].
    + rewrite deliver_one. cbn [on_msg fst snd next_tid ack state cstate_ pstate lsstate sub psub subls]. rewrite cb_find_insert_same, Hsub. cbn [opt_list app].
      split; [reflexivity|]. split; [reflexivity|]. eexists. repeat split. apply cb_find_remove_same.
    + rewrite deliver_one. cbn [on_msg fst snd next_tid ack state cstate_ pstate lsstate sub psub subls].
      rewrite Ha, Hc, Hps, Hls, cb_find_insert_same. cbn [opt_list app].
      split; [reflexivity|]. split; [reflexivity|]. eexists. repeat split. apply cb_find_remove_same.
  - cbn [o_res out_res answer tid_of map]. rewrite deliver_one. cbn [on_msg fst snd next_tid ack state cstate_ pstate lsstate sub psub subls].
    rewrite Ha, Hc, Hps, Hls, cb_find_insert_same. cbn [opt_list app].
    split; [reflexivity|]. split; [reflexivity|]. eexists. repeat split; [|apply cb_find_remove_same].
    cbn [result_of]. destruct (parse_err_code k code Hp) as [-> | ->]; reflexivity.
Qed.

(* ---- the same for every awaited call that is answered in its own step ---- *)
Definition own_slot_only (c1 : cstate) (sl : slot) (t call : N) : Prop :=
  cb_find t (get_slot sl c1) = Some call /\
  (forall sl', sl' <> sl -> cb_find t (get_slot sl' c1) = None) /\
  cb_find t (sub c1) = None /\ cb_find t (psub c1) = None /\ cb_find t (subls c1) = None.

Lemma fresh_registers c call cmd sl :
  Fresh c -> slot_of cmd = Some sl ->
  own_slot_only (fst (fst (on_cmd c call cmd))) sl (next_tid c) call \/
  (exists x y z, cmd = CSubscribe x y z) \/ (exists x y z a, cmd = CPSubscribe x y z a) \/ (exists x, cmd = CSubscribeLs x).
Proof.
  intros Hf Hsl. destruct (Hf (next_tid c) (N.le_refl _)) as (Ha & Hst & Hc & Hps & Hls & Hsu & Hpu & Hlu).
  destruct cmd; cbn [slot_of] in Hsl; try discriminate; injection Hsl as <-;
    try (right; left; eauto; fail); try (right; right; left; eauto; fail); try (right; right; right; eauto; fail);
    left; unfold own_slot_only; cbn [on_cmd fst snd get_slot ack state cstate_ pstate lsstate sub psub subls];
    (split; [apply cb_find_insert_same|]); (split; [intros sl' Hne; destruct sl'; cbn [get_slot ack state cstate_ pstate lsstate]; try assumption; now elim Hne|]);
    repeat split; assumption.
Qed.

Lemma answer_exact c1 sl t call a :
  own_slot_only c1 sl t call -> tid_of_smsg a = Some t -> serves sl a = true ->
  snd (on_msg c1 a) = [DAnswer call a] /\ cb_find t (get_slot sl (fst (on_msg c1 a))) = None.
Proof.
  intros (Hreg & Hoth & Hsu & Hpu & Hlu) Ht Hs.
  assert (Ho : forall sl', cb_find t (get_slot sl' c1) = if match sl', sl with SlAck, SlAck | SlState, SlState | SlCState, SlCState | SlPState, SlPState | SlLsState, SlLsState => true | _, _ => false end then Some call else None).
  { intros sl'. destruct sl', sl; try exact Hreg; apply Hoth; discriminate. }
  pose proof (Ho SlAck) as H1. pose proof (Ho SlState) as H2. pose proof (Ho SlCState) as H3. pose proof (Ho SlPState) as H4. pose proof (Ho SlLsState) as H5.
  cbn [get_slot] in H1, H2, H3, H4, H5.
  destruct a; cbn [tid_of_smsg] in Ht; try discriminate; injection Ht as ->; destruct sl; cbn [serves] in Hs; try discriminate;
    cbn [on_msg fst snd get_slot ack state cstate_ pstate lsstate]; rewrite ?H1, ?H2, ?H3, ?H4, ?H5, ?Hsu, ?Hpu, ?Hlu; cbn [opt_list app];
    (split; [reflexivity|apply cb_find_remove_same]).
Qed.

(* a request that is answered in its own step, on a session whose client has no channel open: exactly the terminal
   answer comes back, and it reaches the caller *)
Definition no_channels (w : world) (sn : N) : Prop :=
  (forall inst x, lookup_n inst (w_chan w) = Some x -> fst (fst x) <> sn) /\
  (forall r x, lookup_n r (w_reqs w) = Some x -> fst x <> sn).

Lemma route_not_mine w out sn : no_channels w sn -> filter (fun x : N * smsg => N.eqb (fst x) sn) (route_events w out) = [].
Proof.
  intros (Hc & Hr). unfold route_events. rewrite !filter_app.
  assert (F : forall {A} (f : A -> list (N * smsg)) (l : list A), (forall a x, In x (f a) -> fst x <> sn) ->
              filter (fun x : N * smsg => N.eqb (fst x) sn) (flat_map f l) = []).
  { intros A f l H. induction l as [|a l IH]; [reflexivity|]. cbn [flat_map]. rewrite filter_app, IH, app_nil_r.
    specialize (H a). induction (f a) as [|x r IHr]; [reflexivity|]. cbn [filter].
    destruct (N.eqb_spec (fst x) sn) as [E|_]; [elim (H x (or_introl eq_refl) E)|]. apply IHr. intros y Hy. apply H. now right. }
  rewrite !F; [reflexivity| | | |].
  - intros r x Hin. destruct (lookup_n r (w_reqs w)) as [[sn' tid]|] eqn:E; [|destruct Hin]. destruct (sess_open w sn'); [|destruct Hin].
    destruct Hin as [<-|[]]. exact (Hr r _ E).
  - intros r x Hin. destruct (lookup_n r (w_reqs w)) as [[sn' tid]|] eqn:E; [|destruct Hin]. destruct (sess_open w sn'); [|destruct Hin].
    destruct Hin as [<-|[]]. exact (Hr r _ E).
  - intros il x Hin. destruct (lookup_n (fst il) (w_chan w)) as [[[sn' tid] k]|] eqn:E; [|destruct Hin]. destruct (sess_open w sn'); [|destruct Hin].
    destruct Hin as [<-|[]]. exact (Hc _ _ E).
  - intros ie x Hin. destruct (lookup_n (fst ie) (w_chan w)) as [[[sn' tid] k]|] eqn:E; [|destruct Hin]. destruct (sess_open w sn'); [|destruct Hin].
    pose proof (Hc _ _ E) as Hne. cbn [fst] in Hne.
    destruct (snd ie), k; try destruct Hin as [<-|[]]; try destruct Hin; exact Hne.
Qed.

Definition plain_call (cmd : ccmd) : bool :=
  match cmd with
  | CSet _ _ | CCSet _ _ _ | CGet _ | CCGet _ | CPGet _ | CDelete _ | CPDelete _ _ | CLs _ | CPLs _ | CPublish _ _
  | CSPubInit _ | CLock _ | CReleaseLock _ => true
  | _ => false
  end.

Definition res_fits (cmd : ccmd) (r : result) : Prop :=
  match cmd, r with
  | _, RErr _ => True
  | (CGet _ | CDelete _), RValue _ => True
  | (CGet _ | CDelete _), _ => False
  | CCGet _, RCValue _ _ => True
  | CCGet _, _ => False
  | (CPGet _ | CPDelete _ _), RKvs _ => True
  | (CPGet _ | CPDelete _ _), _ => False
  | (CLs _ | CPLs _), RNames _ => True
  | (CLs _ | CPLs _), _ => False
  | _, _ => True
  end.

Lemma step_res_fits cmd c call sn core o :
  plain_call cmd = true -> op_of (cid_of sn) (snd (fst (on_cmd c call cmd))) = Some o ->
  o_res (snd (step core o)) <> RCrash -> res_fits cmd (o_res (snd (step core o))).
Proof.
  intros Hp Hop Hnc. destruct cmd; cbn [plain_call] in Hp; try discriminate; cbn [on_cmd fst snd op_of] in Hop; injection Hop as <-;
    cbn [step] in *; cbn [res_fits].
  - now destruct (o_res _).
  - now destruct (o_res _).
  - unfold do_get. destruct (parse_segments k); [destruct (lookup _ _)|]; exact I.
  - unfold do_cget. destruct (parse_segments k); [destruct (lookup _ _) as [[?|? ?]|]|]; exact I.
  - destruct (do_pget core p); exact I.
  - unfold do_delete in *. destruct (check_read_only k (cid_of sn)); [exact I|]. destruct (parse_segments k); [|exact I].
    destruct (negb (root_ok _)); [cbn in Hnc; congruence|]. destruct (lookup _ _); exact I.
  - unfold do_pdelete in *. destruct (check_read_only p (cid_of sn)); [exact I|]. destruct (reach_bad _ _); [exact I|].
    destruct (negb (root_ok _)); [cbn in Hnc; congruence|]. destruct (notify_deleted _ _); exact I.
  - unfold do_ls. destruct parent; [destruct (ls_at _ _)|]; exact I.
  - unfold do_pls. destruct parent; [destruct (reach_multi _ _)|]; exact I.
  - now destruct (o_res _).
  - now destruct (o_res _).
  - now destruct (o_res _).
  - now destruct (o_res _).
Qed.

Lemma answer_serves cmd sl c call r a :
  plain_call cmd = true -> slot_of cmd = Some sl -> r <> RCrash -> res_fits cmd r ->
  answer (snd (fst (on_cmd c call cmd))) r = [a] -> serves sl a = true /\ tid_of_smsg a = Some (next_tid c).
Proof.
  intros Hp Hsl Hr Hfit Ha. destruct cmd; cbn [plain_call] in Hp; try discriminate; cbn [slot_of] in Hsl; injection Hsl as <-;
    cbn [on_cmd fst snd] in Ha; unfold answer in Ha; cbn [tid_of] in Ha;
    destruct r; try congruence; cbn [res_fits] in Hfit; try contradiction; try (injection Ha as <-; split; reflexivity);
    try (destruct quiet; injection Ha as <-; split; reflexivity).
Qed.

Theorem call_end_to_end w c sn s call cmd sl o :
  served w sn s -> Fresh c -> no_channels w sn -> plain_call cmd = true -> slot_of cmd = Some sl ->
  let m := snd (fst (on_cmd c call cmd)) in
  op_of (cid_of sn) m = Some o -> (N.eqb (ss_proto s) 0 && v1_only m)%bool = false ->
  o_res (snd (step (w_core w) o)) <> RCrash ->
  let '(w1, c2, ds, v) := round_trip w c sn call cmd in
  w_core w1 = fst (step (w_core w) o) /\ v = Continue /\
  exists a, answer m (o_res (snd (step (w_core w) o))) = [a] /\ ds = [DAnswer call a] /\
            cb_find (next_tid c) (get_slot sl c2) = None.
Proof.
  intros Hs Hf Hq Hp Hsl m Hop Hv1 Hnc.
  destruct (fresh_registers c call cmd sl Hf Hsl) as [Hown|[(x & y & z & ->)|[(x & y & z & a & ->)|(x & ->)]]]; try discriminate.
  unfold round_trip. destruct (on_cmd c call cmd) as [[c1 m'] tk] eqn:Ec. cbn [fst snd] in *. subst m.
  assert (Hm : snd (fst (on_cmd c call cmd)) = m') by now rewrite Ec.
  pose proof (handle_read w sn s m' o Hs Hop Hv1) as H.
  assert (K1 : (match m' with MTransform _ _ _ => false | _ => true end) = true) by (rewrite <- Hm; destruct cmd; try discriminate; reflexivity).
  assert (K2 : (match m' with MProtocolSwitchRequest _ | MAuthorizationRequest _ => false | _ => true end) = true) by (rewrite <- Hm; destruct cmd; try discriminate; reflexivity).
  assert (K3 : (match m' with MSubscribe _ _ _ _ | MPSubscribe _ _ _ _ _ | MSubscribeLs _ _ | MAcquireLock _ _ => false | _ => true end) = true) by (rewrite <- Hm; destruct cmd; try discriminate; reflexivity).
  specialize (H K1 K2 K3). destruct (step (w_core w) o) as [core' out] eqn:Es. cbn [fst snd] in *. rewrite H. clear H.
  rewrite filter_app, (route_not_mine _ out sn) by exact Hq. cbn [app]. rewrite filter_mine.
  destruct (answer_unique m' (o_res out) Hnc) as (a & Ha & _).
  { rewrite <- Hm. destruct cmd; try discriminate; destruct (o_res out); exact I. }
  rewrite Ha. rewrite <- Hm in Ha.
  assert (Hfit : res_fits cmd (o_res out)).
  { pose proof (step_res_fits cmd c call sn (w_core w) o Hp) as F. rewrite Hm, Es in F. cbn [snd] in F. now apply F. }
  destruct (answer_serves cmd sl c call (o_res out) a Hp Hsl Hnc Hfit Ha) as (Hsv & Ht).
  rewrite deliver_one. destruct (answer_exact c1 sl (next_tid c) call a Hown Ht Hsv) as (Hd & Hgone).
  split; [reflexivity|]. split; [reflexivity|]. exists a. rewrite Hm in Ha. repeat split; assumption.
Qed.

(* ---- what the caller learns, call by call ---- *)
Definition result_in (ds : list delivery) (cmd : ccmd) (call : N) : cresult :=
  match ds with [DAnswer call' a] => if N.eqb call call' then result_of cmd a else CRUnexpected | _ => CRUnexpected end.

Definition cget_spec (m : mstate) (k : str) : cresult :=
  match parse_segments k with
  | Err code => CRErr code
  | Ok p => match m p with Some (Cas v n) => CRCVal v n | Some (Plain v) => CRCVal v 0 | None => CRNone end
  end.

Theorem cget_end_to_end w c sn s call k :
  served w sn s -> ss_proto s = 1 -> Fresh c -> no_channels w sn ->
  let '(w1, c2, ds, v) := round_trip w c sn call (CCGet k) in
  w_core w1 = w_core w /\ v = Continue /\ result_in ds (CCGet k) call = cget_spec (abs (w_core w)) k.
Proof.
  intros Hs Hp1 Hf Hq.
  pose proof (call_end_to_end w c sn s call (CCGet k) SlCState (OCGet k) Hs Hf Hq eq_refl eq_refl eq_refl) as H.
  cbn [on_cmd fst snd step] in H. rewrite Hp1 in H. specialize (H eq_refl).
  assert (Hnc : o_res (out_res (do_cget (w_core w) k)) <> RCrash).
  { cbn [o_res out_res]. unfold do_cget. destruct (parse_segments k); [destruct (lookup _ _) as [[?|? ?]|]|]; discriminate. }
  specialize (H Hnc). destruct (round_trip w c sn call (CCGet k)) as [[[w1 c2] ds] v].
  destruct H as (Hw & Hv & a & Ha & -> & _). split; [exact Hw|]. split; [exact Hv|].
  unfold result_in. rewrite N.eqb_refl. cbn [o_res out_res] in Ha. unfold do_cget, cget_spec, abs in *.
  destruct (parse_segments k) as [p|code] eqn:Hp.
  - destruct (lookup (data (w_core w)) p) as [[x|x n]|]; cbn in Ha; injection Ha as <-; reflexivity.
  - cbn in Ha. injection Ha as <-. cbn [result_of]. destruct (parse_err_code k code Hp) as [-> | ->]; reflexivity.
Qed.

(* pget: the pairs the caller gets are exactly the stored entries the pattern matches *)
Theorem pget_end_to_end w c sn s call pat :
  served w sn s -> Fresh c -> no_channels w sn -> Inv (w_core w) ->
  let '(w1, c2, ds, v) := round_trip w c sn call (CPGet pat) in
  w_core w1 = w_core w /\ v = Continue /\
  match result_in ds (CPGet pat) call with
  | CRKvs l => forall k x, In (k, x) l <-> exists q e, k = join slash q /\ x = entry_val e /\ abs (w_core w) q = Some e /\ store_match (kseg_parse pat) q = true
  | CRErr code => code = E_IllegalMultiWildcard /\ wf_pat (kseg_parse pat) = false
  | _ => False
  end.
Proof.
  intros Hs Hf Hq HI.
  pose proof (call_end_to_end w c sn s call (CPGet pat) SlPState (OPGet pat) Hs Hf Hq eq_refl eq_refl eq_refl) as H.
  cbn [on_cmd fst snd step v1_only] in H. rewrite Bool.andb_false_r in H. specialize (H eq_refl).
  assert (Hnc : o_res (out_res (match do_pget (w_core w) pat with Ok l => RKvs l | Err c0 => RErr c0 end)) <> RCrash) by (cbn; destruct (do_pget _ _); discriminate).
  specialize (H Hnc). destruct (round_trip w c sn call (CPGet pat)) as [[[w1 c2] ds] v].
  destruct H as (Hw & Hv & a & Ha & -> & _). split; [exact Hw|]. split; [exact Hv|].
  unfold result_in. rewrite N.eqb_refl. cbn [o_res out_res] in Ha. pose proof (do_pget_spec (w_core w) pat HI) as Hspec.
  destruct (do_pget (w_core w) pat) as [l|code]; cbn in Ha; injection Ha as <-; cbn [result_of]; exact Hspec.
Qed.

(* set: Ok means the store holds the value afterwards; an error means the store is as it was *)
Theorem set_end_to_end w c sn s call k x :
  served w sn s -> Fresh c -> no_channels w sn -> Inv (w_core w) ->
  let '(w1, c2, ds, v) := round_trip w c sn call (CSet k x) in
  v = Continue /\
  match result_in ds (CSet k x) call with
  | CROk => exists p, parse_segments k = Ok p /\ meq (abs (w_core w1)) (m_set (abs (w_core w)) p (Plain x))
  | CRErr _ => w_core w1 = w_core w
  | _ => False
  end.
Proof.
  intros Hs Hf Hq HI.
  pose proof (call_end_to_end w c sn s call (CSet k x) SlAck (OSet (cid_of sn) k x false) Hs Hf Hq eq_refl eq_refl eq_refl) as H.
  cbn [on_cmd fst snd step v1_only] in H. rewrite Bool.andb_false_r in H. specialize (H eq_refl).
  pose proof (do_insert_effect (w_core w) (cid_of sn) k (Plain x) false HI) as He. cbv zeta in He.
  destruct (o_res (snd (do_insert (w_core w) (cid_of sn) k (Plain x) false))) eqn:Er; try contradiction.
  - specialize (H ltac:(discriminate)). destruct (round_trip w c sn call (CSet k x)) as [[[w1 c2] ds] v].
    destruct H as (Hw & Hv & a & Ha & -> & _). split; [exact Hv|]. unfold result_in. rewrite N.eqb_refl. cbn in Ha. injection Ha as <-. cbn [result_of].
    destruct He as (p & ex & ch & e' & Hp & Hd & _ & Hm). exists p. split; [exact Hp|]. rewrite Hw. rewrite (decide_plain _ _ _ _ _ _ Hd) in Hm. exact Hm.
  - specialize (H ltac:(discriminate)). destruct (round_trip w c sn call (CSet k x)) as [[[w1 c2] ds] v].
    destruct H as (Hw & Hv & a & Ha & -> & _). split; [exact Hv|]. unfold result_in. rewrite N.eqb_refl. cbn in Ha. injection Ha as <-. cbn [result_of].
    now rewrite Hw.
  - (* the version overflow of F17 cannot happen for a plain set *)
    exfalso. unfold do_insert in Er. destruct (check_read_only k (cid_of sn)); [discriminate|]. destruct (parse_segments k); [|discriminate].
    destruct (special_value_bad _ _); [discriminate|]. destruct (lookup _ _) as [[?|? ?]|]; cbn in Er; discriminate.
Qed.

(* delete: the caller gets the value that was removed, or None *)
Theorem delete_end_to_end w c sn s call k :
  served w sn s -> Fresh c -> no_channels w sn -> Inv (w_core w) ->
  let '(w1, c2, ds, v) := round_trip w c sn call (CDelete k) in
  v = Continue /\
  match result_in ds (CDelete k) call with
  | CRVal x => exists p e, parse_segments k = Ok p /\ abs (w_core w) p = Some e /\ x = entry_val e /\ meq (abs (w_core w1)) (m_del (abs (w_core w)) p)
  | CRNone | CRErr _ => meq (abs (w_core w1)) (abs (w_core w))
  | _ => False
  end.
Proof.
  intros Hs Hf Hq HI.
  pose proof (call_end_to_end w c sn s call (CDelete k) SlState (ODelete (cid_of sn) k) Hs Hf Hq eq_refl eq_refl eq_refl) as H.
  cbn [on_cmd fst snd step v1_only] in H. rewrite Bool.andb_false_r in H. specialize (H eq_refl).
  pose proof (do_delete_effect (w_core w) (cid_of sn) k HI) as He. cbv zeta in He.
  destruct (o_res (snd (do_delete (w_core w) (cid_of sn) k))) eqn:Er; try contradiction.
  - specialize (H ltac:(discriminate)). destruct (round_trip w c sn call (CDelete k)) as [[[w1 c2] ds] vd].
    destruct H as (Hw & Hv & a & Ha & -> & _). split; [exact Hv|]. unfold result_in. rewrite N.eqb_refl. cbn in Ha. injection Ha as <-. cbn [result_of].
    destruct He as (p & e & Hp & Hab & -> & _ & Hm). exists p, e. rewrite Hw. auto.
  - specialize (H ltac:(discriminate)). destruct (round_trip w c sn call (CDelete k)) as [[[w1 c2] ds] vd].
    destruct H as (Hw & Hv & a & Ha & -> & _). split; [exact Hv|]. unfold result_in. rewrite N.eqb_refl. cbn in Ha. injection Ha as <-. cbn [result_of].
    rewrite Hw. destruct (N.eqb code E_NoSuchValue); exact (proj2 He).
Qed.

(* ---- Fresh is an invariant of the library's bookkeeping ---- *)
Lemma cb_find_remove_none t t' m : cb_find t m = None -> cb_find t (cb_remove t' m) = None.
Proof.
  induction m as [|[t0 c0] m IH]; [reflexivity|]. cbn [cb_find cb_remove]. destruct (N.eqb_spec t t0) as [->|Hne]; [discriminate|].
  intros H. destruct (N.eqb t' t0); [now apply IH|]. cbn [cb_find]. destruct (N.eqb_spec t t0); [contradiction|now apply IH].
Qed.

Lemma Fresh_msg c m : Fresh c -> Fresh (fst (on_msg c m)).
Proof.
  intros Hf t Ht. assert (Ht' : next_tid c <= t) by (rewrite next_tid_msg in Ht; exact Ht).
  destruct (Hf t Ht') as (H1 & H2 & H3 & H4 & H5 & H6 & H7 & H8).
  destruct m; cbn [on_msg fst ack state cstate_ pstate lsstate sub psub subls]; repeat split; try assumption; now apply cb_find_remove_none.
Qed.

Lemma Fresh_cmd c call cmd : Fresh c -> key_tid c cmd < next_tid c + 1 -> Fresh (fst (fst (on_cmd c call cmd))).
Proof.
  intros Hf Hk t Ht. rewrite next_tid_grows in Ht. destruct (Hf t ltac:(lia)) as (H1 & H2 & H3 & H4 & H5 & H6 & H7 & H8).
  destruct cmd; cbn [key_tid] in Hk; cbn [on_cmd fst ack state cstate_ pstate lsstate sub psub subls]; repeat split; try assumption;
    try (rewrite cb_find_insert_other by lia; assumption); try (now apply cb_find_remove_none).
Qed.

(* the hypotheses hold and the conclusions say something: a fresh client on a fresh session sets a key and reads it back *)
Example round_trip_demo :
  let w0 := fst (open_session (world_init false) 0) in
  let '(w1, c1, d1, _) := round_trip w0 cinit 0 1 (CSet [97] (JNum [49])) in
  let '(w2, c2, d2, _) := round_trip w1 c1 0 2 (CGet [97]) in
  let '(w3, c3, d3, _) := round_trip w2 c2 0 3 (CCGet [98]) in
  result_in d1 (CSet [97] (JNum [49])) 1 = CROk /\ result_in d2 (CGet [97]) 2 = CRVal (JNum [49]) /\ result_in d3 (CCGet [98]) 3 = CRNone /\
  next_tid c3 = 4.
Proof. vm_compute. repeat split; reflexivity. Qed.

(* ---- subscriptions: from the core's channel to the application's stream ---- *)
From WB Require Import Proofs.SubsFacts Proofs.C03Proof Proofs.StreamProof.

Definition state_msg (tid : N) (e : event) : option smsg :=
  match e with EValue v => Some (SState tid (SValue v)) | EDeleted v => Some (SState tid (SDeleted v)) | _ => None end.

Definition to_sub (sn tid : N) (x : N * smsg) : bool :=
  N.eqb (fst x) sn && match snd x with SState t _ => N.eqb t tid | _ => false end.

Definition chan_events (w : world) (o : output) : list (N * smsg) :=
  flat_map (fun ie =>
              match lookup_n (fst ie) (w_chan w) with
              | Some (sn, tid, k) =>
                  if sess_open w sn then
                    match snd ie, k with
                    | EValue v, _ => [(sn, SState tid (SValue v))]
                    | EDeleted v, _ => [(sn, SState tid (SDeleted v))]
                    | EPValue kvs, KPState p => [(sn, SPState tid p (PKvs kvs))]
                    | EPDeleted kvs, KPState p => [(sn, SPState tid p (PDel kvs))]
                    | _, _ => []
                    end
                  else []
              | None => []
              end) (o_events o).

Lemma filter_flat_map {A B} (f : B -> bool) (g : A -> list B) l : filter f (flat_map g l) = flat_map (fun a => filter f (g a)) l.
Proof. induction l as [|a l IH]; [reflexivity|]. cbn [flat_map]. now rewrite filter_app, IH. Qed.

Lemma filter_none {A} (f : A -> bool) l : (forall x, In x l -> f x = false) -> filter f l = [].
Proof.
  induction l as [|a l IH]; intros H; [reflexivity|]. cbn [filter]. rewrite (H a (or_introl eq_refl)). apply IH. intros x Hx. apply H. now right.
Qed.

(* the State messages that reach session sn under the subscription's id are the events of the subscription's channel,
   one message per event, in order -- provided no other channel is filed under the same session and id (F24) *)
Theorem channel_to_wire w o sn tid inst :
  lookup_n inst (w_chan w) = Some (sn, tid, KState) -> sess_open w sn = true ->
  (forall inst' k', lookup_n inst' (w_chan w) = Some (sn, tid, k') -> inst' = inst) ->
  filter (to_sub sn tid) (route_events w o) =
  flat_map (fun e => match state_msg tid e with Some m => [(sn, m)] | None => [] end) (chan inst (o_events o)).
Proof.
  intros Hl Hop Huniq. unfold route_events. rewrite !filter_app.
  (* the three other kinds of traffic carry no State message *)
  rewrite (filter_none (to_sub sn tid) (flat_map _ (o_ls o))), (filter_none (to_sub sn tid) (flat_map _ (o_granted o))), (filter_none (to_sub sn tid) (flat_map _ (o_cancelled o))).
  2:{ intros x Hx. apply in_flat_map in Hx as (r & _ & Hx). destruct (lookup_n r (w_reqs w)) as [[sn' t']|]; [|destruct Hx].
      destruct (sess_open w sn'); [|destruct Hx]. destruct Hx as [<-|[]]. unfold to_sub. cbn. now rewrite Bool.andb_false_r. }
  2:{ intros x Hx. apply in_flat_map in Hx as (r & _ & Hx). destruct (lookup_n r (w_reqs w)) as [[sn' t']|]; [|destruct Hx].
      destruct (sess_open w sn'); [|destruct Hx]. destruct Hx as [<-|[]]. unfold to_sub. cbn. now rewrite Bool.andb_false_r. }
  2:{ intros x Hx. apply in_flat_map in Hx as (il & _ & Hx). destruct (lookup_n (fst il) (w_chan w)) as [[[sn' t'] k']|]; [|destruct Hx].
      destruct (sess_open w sn'); [|destruct Hx]. destruct Hx as [<-|[]]. unfold to_sub. cbn. now rewrite Bool.andb_false_r. }
  rewrite !app_nil_r. unfold chan. rewrite filter_flat_map.
  induction (o_events o) as [|[i e] evs IH]; [reflexivity|]. cbn [flat_map filter fst snd]. rewrite IH. clear IH.
  destruct (N.eqb_spec i inst) as [->|Hne]; cbn [map snd flat_map].
  - f_equal. rewrite Hl, Hop.
    destruct e; cbn [state_msg filter]; unfold to_sub; cbn [fst snd]; rewrite ?N.eqb_refl; reflexivity.
  - replace (filter (to_sub sn tid) _) with (@nil (N * smsg)); [reflexivity|]. symmetry. apply filter_none. intros x Hx.
    destruct (lookup_n i (w_chan w)) as [[[sn' t'] k']|] eqn:El; [|destruct Hx]. destruct (sess_open w sn'); [|destruct Hx].
    assert (Hd : (N.eqb sn' sn && N.eqb t' tid)%bool = false).
    { destruct (N.eqb_spec sn' sn) as [->|]; [|reflexivity]. destruct (N.eqb_spec t' tid) as [->|]; [|reflexivity].
      elim Hne. exact (Huniq i k' El). }
    unfold to_sub. destruct e, k'; try destruct Hx as [<-|[]]; try destruct Hx; cbn [fst snd]; try exact Hd; now rewrite Bool.andb_false_r.
Qed.

(* ... and on the client: a State message under the id of a live subscription, with no one-shot call pending under that
   id, is handed to the subscription's stream and to nothing else, and the bookkeeping stays as it was *)
Lemma cb_remove_absent t m : cb_find t m = None -> cb_remove t m = m.
Proof.
  induction m as [|[t0 c0] m IH]; [reflexivity|]. cbn [cb_find cb_remove]. destruct (N.eqb t t0); [discriminate|]. intros H. now rewrite IH.
Qed.

Theorem wire_to_stream c tid call x :
  cb_find tid (sub c) = Some call -> cb_find tid (state c) = None ->
  on_msg c (SState tid x) = (c, [DEvent call (SState tid x)]).
Proof.
  intros Hs Hst. cbn [on_msg]. rewrite Hs, Hst, (cb_remove_absent tid (state c) Hst). cbn [opt_list app]. now destruct c.
Qed.
