(* Facts about the tree of Model/Store.v: induction principle, well-formedness (distinct
   child names = HashMap), lookup, collect (= ncollect_matches), delm (= ndelete_matches). *)
From WB Require Import Base.Str Base.StrFacts Model.Key Model.Store Model.Match.

Section node_ind'.
  Context {V : Type}.
  Variable P : node V -> Prop.
  Hypothesis H : forall v cs, Forall (fun kc => P (snd kc)) cs -> P (Node v cs).
  Fixpoint node_ind' (n : node V) : P n :=
    match n with
    | Node v cs =>
        H v cs ((fix go (cs : list (str * node V)) : Forall (fun kc => P (snd kc)) cs :=
                   match cs with
                   | [] => Forall_nil _
                   | (k, c) :: cs' => Forall_cons (k, c) (node_ind' c) (go cs')
                   end) cs)
    end.
End node_ind'.

(* well-formed: child names are distinct at every level (a HashMap) *)
Fixpoint wfn {V} (n : node V) : Prop :=
  match n with
  | Node _ cs =>
      NoDup (names cs) /\
      (fix go (cs : list (str * node V)) : Prop :=
         match cs with
         | [] => True
         | (_, c) :: cs' => wfn c /\ go cs'
         end) cs
  end.

Lemma wfn_unfold {V} (v : option V) cs :
  wfn (Node v cs) <-> NoDup (names cs) /\ Forall (fun kc => wfn (snd kc)) cs.
Proof.
  cbn [wfn]. split; intros [Hn Hc]; split; try assumption.
  - induction cs as [|[k c] cs IH]; constructor.
    + apply Hc.
    + apply IH; [now inversion Hn | apply Hc].
  - induction cs as [|[k c] cs IH]; [exact I|].
    inversion Hc; subst. split; [assumption|]. apply IH; [now inversion Hn | assumption].
Qed.

Lemma find_child_In {A} k (cs : list (str * A)) c :
  find_child k cs = Some c -> In (k, c) cs.
Proof.
  induction cs as [|[k' c'] cs IH]; cbn; [discriminate|].
  destruct (str_eqb_spec k k') as [->|Hn].
  - intros [= ->]. now left.
  - intros H. right. now apply IH.
Qed.

Lemma In_find_child {A} k (cs : list (str * A)) c :
  NoDup (names cs) -> In (k, c) cs -> find_child k cs = Some c.
Proof.
  induction cs as [|[k' c'] cs IH]; cbn; [contradiction|].
  intros Hnd [E|Hin].
  - injection E as -> ->. now rewrite str_eqb_refl.
  - inversion Hnd as [|? ? Hni Hnd']; subst.
    destruct (str_eqb_spec k k') as [->|Hn].
    + exfalso. apply Hni. change k' with (fst (k', c)). now apply in_map.
    + now apply IH.
Qed.

Lemma find_child_None {A} k (cs : list (str * A)) :
  find_child k cs = None <-> ~ In k (names cs).
Proof.
  induction cs as [|[k' c'] cs IH]; cbn.
  - split; [intros _ []|reflexivity].
  - destruct (str_eqb_spec k k') as [->|Hn].
    + split; [discriminate|]. intros H. exfalso. apply H. now left.
    + rewrite IH. split; intros H; [intros [E|Hin]; [congruence|now apply H] | intros Hin; apply H; now right].
Qed.

Lemma lookup_nil {V} (n : node V) : lookup n [] = nval n.
Proof. reflexivity. Qed.

Lemma lookup_cons {V} (v : option V) cs k q :
  lookup (Node v cs) (k :: q) = match find_child k cs with Some c => lookup c q | None => None end.
Proof. unfold lookup. cbn. destruct (find_child k cs); reflexivity. Qed.

(* ---- collect: unfolding of the nested fixpoints ---- *)

Lemma collect_nil {V} (n : node V) trav :
  collect n trav [] = map (fun x => (trav, x)) (opt_list (nval n)).
Proof. destruct n; reflexivity. Qed.

Lemma collect_multi {V} (v : option V) cs trav :
  collect (Node v cs) trav [Multi] =
  map (fun x => (trav, x)) (opt_list v) ++
  flat_map (fun kc => collect (snd kc) (trav ++ [fst kc]) [Multi]) cs.
Proof.
  cbn [collect]. f_equal. induction cs as [|[k c] cs IH]; cbn; [reflexivity|]. now rewrite IH.
Qed.

Lemma collect_multi_bad {V} (n : node V) trav s p : collect n trav (Multi :: s :: p) = [].
Proof. destruct n; reflexivity. Qed.

Lemma collect_wild {V} (v : option V) cs trav tail :
  collect (Node v cs) trav (Wild :: tail) =
  flat_map (fun kc => collect (snd kc) (trav ++ [fst kc]) tail) cs.
Proof.
  cbn [collect]. induction cs as [|[k c] cs IH]; cbn; [reflexivity|]. now rewrite IH.
Qed.

Lemma collect_reg {V} (v : option V) cs trav s tail :
  collect (Node v cs) trav (Reg s :: tail) =
  match find_child s cs with Some c => collect c (trav ++ [s]) tail | None => [] end.
Proof.
  cbn [collect]. induction cs as [|[k c] cs IH]; cbn; [reflexivity|].
  destruct (str_eqb s k); [reflexivity|assumption].
Qed.

(* ncollect_matches returns exactly the entries whose relative path satisfies store_match *)
Theorem collect_spec {V} (n : node V) : forall trav p q x,
  wfn n ->
  (In (q, x) (collect n trav p) <->
   exists k, q = trav ++ k /\ lookup n k = Some x /\ store_match p k = true).
Proof.
  induction n as [v cs IH] using node_ind'. intros trav p q x Hwf.
  apply wfn_unfold in Hwf as [Hnd Hwfc].
  destruct p as [|s p].
  - rewrite collect_nil. cbn [nval]. split.
    + destruct v as [y|]; cbn; [|contradiction]. intros [E|[]]. injection E as <- <-.
      exists []. now rewrite app_nil_r.
    + intros (k & -> & Hl & Hm). destruct k; [|discriminate].
      rewrite lookup_nil in Hl. cbn in Hl. subst v. rewrite app_nil_r. now left.
  - destruct s as [s| |].
    + (* Reg *)
      rewrite collect_reg. split.
      * destruct (find_child s cs) as [c|] eqn:Ef; [|contradiction].
        pose proof (find_child_In _ _ _ Ef) as Hin.
        rewrite Forall_forall in IH, Hwfc.
        intros H. apply (IH _ Hin) in H; [|exact (Hwfc _ Hin)].
        destruct H as (k & -> & Hl & Hm).
        exists (s :: k). rewrite <- app_assoc. split; [reflexivity|].
        rewrite lookup_cons, Ef. cbn [store_match]. now rewrite str_eqb_refl.
      * intros (k & -> & Hl & Hm). destruct k as [|y k]; [discriminate|].
        cbn [store_match] in Hm. apply andb_true_iff in Hm as [Hs Hm].
        apply str_eqb_eq in Hs. subst y.
        rewrite lookup_cons in Hl. destruct (find_child s cs) as [c|] eqn:Ef; [|discriminate].
        pose proof (find_child_In _ _ _ Ef) as Hin.
        rewrite Forall_forall in IH, Hwfc.
        apply (IH _ Hin); [exact (Hwfc _ Hin)|].
        exists k. now rewrite <- app_assoc.
    + (* Wild *)
      rewrite collect_wild, in_flat_map. rewrite Forall_forall in IH, Hwfc. split.
      * intros ([k c] & Hin & H). cbn [fst snd] in H.
        apply (IH _ Hin) in H; [|exact (Hwfc _ Hin)].
        destruct H as (k' & -> & Hl & Hm).
        exists (k :: k'). rewrite <- app_assoc. split; [reflexivity|].
        rewrite lookup_cons, (In_find_child _ _ _ Hnd Hin). now split.
      * intros (k & -> & Hl & Hm). destruct k as [|y k]; [discriminate|].
        cbn [store_match] in Hm. rewrite lookup_cons in Hl.
        destruct (find_child y cs) as [c|] eqn:Ef; [|discriminate].
        pose proof (find_child_In _ _ _ Ef) as Hin.
        exists (y, c). split; [assumption|]. cbn [fst snd].
        apply (IH _ Hin); [exact (Hwfc _ Hin)|].
        exists k. now rewrite <- app_assoc.
    + (* Multi *)
      destruct p as [|s' p].
      * rewrite collect_multi, in_app_iff, in_flat_map. rewrite Forall_forall in IH, Hwfc. split.
        -- intros [H|([k c] & Hin & H)].
           ++ destruct v as [y|]; cbn in H; [|contradiction]. destruct H as [E|[]].
              injection E as <- <-. exists []. now rewrite app_nil_r.
           ++ cbn [fst snd] in H. apply (IH _ Hin) in H; [|exact (Hwfc _ Hin)].
              destruct H as (k' & -> & Hl & Hm).
              exists (k :: k'). rewrite <- app_assoc. split; [reflexivity|].
              rewrite lookup_cons, (In_find_child _ _ _ Hnd Hin). now split.
        -- intros (k & -> & Hl & _). destruct k as [|y k].
           ++ left. rewrite lookup_nil in Hl. cbn in Hl. subst v. rewrite app_nil_r. now left.
           ++ right. rewrite lookup_cons in Hl.
              destruct (find_child y cs) as [c|] eqn:Ef; [|discriminate].
              pose proof (find_child_In _ _ _ Ef) as Hin.
              exists (y, c). split; [assumption|]. cbn [fst snd].
              apply (IH _ Hin); [exact (Hwfc _ Hin)|].
              exists k. now rewrite <- app_assoc.
      * rewrite collect_multi_bad. split; [contradiction|].
        intros (k & _ & _ & Hm). discriminate.
Qed.

(* ------------------------------------------------------------------ children lists *)

Lemma find_upd_child_same {A} (d : A) k f cs :
  find_child k (upd_child d k f cs) =
  Some (f (match find_child k cs with Some c => c | None => d end)).
Proof.
  induction cs as [|[k' c] cs IH]; cbn.
  - now rewrite str_eqb_refl.
  - destruct (str_eqb k k') eqn:E; cbn; rewrite E; [reflexivity|assumption].
Qed.

Lemma find_upd_child_other {A} (d : A) k k2 f cs :
  k2 <> k -> find_child k2 (upd_child d k f cs) = find_child k2 cs.
Proof.
  intros Hn. induction cs as [|[k' c] cs IH]; cbn.
  - apply str_eqb_neq in Hn. now rewrite Hn.
  - destruct (str_eqb_spec k k') as [<-|Hk]; cbn.
    + apply str_eqb_neq in Hn. now rewrite Hn.
    + destruct (str_eqb k2 k'); [reflexivity|assumption].
Qed.

Lemma existsb_str_In k l : existsb (str_eqb k) l = true <-> In k l.
Proof.
  rewrite existsb_exists. split.
  - intros (x & Hin & E). apply str_eqb_eq in E. now subst.
  - intros Hin. exists k. split; [assumption|apply str_eqb_refl].
Qed.

Lemma names_upd_child {A} (d : A) k f cs :
  names (upd_child d k f cs) = if existsb (str_eqb k) (names cs) then names cs else names cs ++ [k].
Proof.
  unfold names. induction cs as [|[k' c] cs IH]; cbn; [reflexivity|].
  destruct (str_eqb k k') eqn:E; cbn; [reflexivity|]. rewrite IH.
  now destruct (existsb (str_eqb k) (map fst cs)).
Qed.

Lemma NoDup_snoc {A} (l : list A) x : NoDup l -> ~ In x l -> NoDup (l ++ [x]).
Proof.
  induction l as [|y l IH]; cbn; intros Hnd Hni.
  - constructor; [intros []|constructor].
  - inversion Hnd; subst. constructor.
    + rewrite in_app_iff. intros [H|[H|[]]]; [contradiction|]. apply Hni. now left.
    + apply IH; [assumption|]. intros H. apply Hni. now right.
Qed.

Lemma NoDup_names_upd_child {A} (d : A) k f cs :
  NoDup (names cs) -> NoDup (names (upd_child d k f cs)).
Proof.
  intros Hnd. rewrite names_upd_child.
  destruct (existsb (str_eqb k) (names cs)) eqn:E; [assumption|].
  apply NoDup_snoc; [assumption|].
  intros Hin. apply existsb_str_In in Hin. congruence.
Qed.

Lemma Forall_upd_child {A} (P : A -> Prop) (d : A) k f cs :
  Forall (fun kc => P (snd kc)) cs -> (forall c, P c -> P (f c)) -> P (f d) ->
  Forall (fun kc => P (snd kc)) (upd_child d k f cs).
Proof.
  intros Hall Hf Hd. induction Hall as [|[k' c] cs Hc Hcs IH]; cbn.
  - constructor; [exact Hd|constructor].
  - destruct (str_eqb k k'); constructor; try assumption. now apply Hf.
Qed.

Lemma find_mod_child {A} k k2 (f : A -> A) cs :
  find_child k2 (mod_child k f cs) =
  if str_eqb k2 k then option_map f (find_child k cs) else find_child k2 cs.
Proof.
  induction cs as [|[k' c] cs IH]; cbn.
  - now destruct (str_eqb k2 k).
  - destruct (str_eqb_spec k k') as [<-|Hk]; cbn.
    + destruct (str_eqb k2 k); reflexivity.
    + rewrite IH. destruct (str_eqb_spec k2 k) as [->|Hn].
      * apply str_eqb_neq in Hk. now rewrite Hk.
      * reflexivity.
Qed.

Lemma names_mod_child {A} k (f : A -> A) cs : names (mod_child k f cs) = names cs.
Proof.
  unfold names. induction cs as [|[k' c] cs IH]; cbn; [reflexivity|].
  destruct (str_eqb k k'); cbn; [reflexivity|now rewrite IH].
Qed.

Lemma Forall_mod_child {A} (P : A -> Prop) k f cs :
  Forall (fun kc => P (snd kc)) cs -> (forall c, P c -> P (f c)) ->
  Forall (fun kc => P (snd kc)) (mod_child k f cs).
Proof.
  intros Hall Hf. induction Hall as [|[k' c] cs Hc Hcs IH]; cbn; [constructor|].
  destruct (str_eqb k k'); constructor; try assumption. now apply Hf.
Qed.

Lemma NoDup_names_filter {A} (g : str * A -> bool) cs :
  NoDup (names cs) -> NoDup (names (filter g cs)).
Proof.
  induction cs as [|[k c] cs IH]; cbn; [constructor|].
  intros Hnd. inversion Hnd as [|? ? Hni Hnd']; subst.
  destruct (g (k, c)); cbn; [|now apply IH].
  constructor; [|now apply IH].
  intros Hin. apply Hni. unfold names in *. apply in_map_iff in Hin as ([k2 c2] & E & Hin).
  cbn in E. subst k2. apply filter_In in Hin as [Hin _].
  change k with (fst (k, c2)). now apply in_map.
Qed.

Lemma find_filter {A} (g : str * A -> bool) k cs :
  NoDup (names cs) ->
  find_child k (filter g cs) =
  match find_child k cs with Some c => if g (k, c) then Some c else None | None => None end.
Proof.
  induction cs as [|[k' c] cs IH]; cbn; [reflexivity|].
  intros Hnd. inversion Hnd as [|? ? Hni Hnd']; subst.
  destruct (str_eqb_spec k k') as [<-|Hk].
  - destruct (g (k, c)) eqn:Eg; cbn.
    + now rewrite str_eqb_refl.
    + rewrite IH by assumption.
      destruct (find_child k cs) eqn:Ef; [|reflexivity].
      exfalso. apply Hni. apply find_child_In in Ef.
      change k with (fst (k, a)). now apply in_map.
  - destruct (g (k', c)); cbn.
    + apply str_eqb_neq in Hk. rewrite Hk. now apply IH.
    + now apply IH.
Qed.

Lemma find_map_kids {A B} (g : str -> A -> B) k cs :
  find_child k (map (fun kc => (fst kc, g (fst kc) (snd kc))) cs) = option_map (g k) (find_child k cs).
Proof.
  induction cs as [|[k' c] cs IH]; cbn; [reflexivity|].
  destruct (str_eqb_spec k k') as [<-|Hk]; [reflexivity|assumption].
Qed.

Lemma lookup_obsolete {V} (n : node V) q : is_obsolete n = true -> lookup n q = None.
Proof.
  destruct n as [[x|] [|kc cs]]; cbn; try discriminate. intros _.
  destruct q; reflexivity.
Qed.

Lemma lookup_empty {V} q : lookup (@empty_node V) q = None.
Proof. now apply lookup_obsolete. Qed.

(* looking up below a trimmed children list is the same as below the untrimmed one *)
Lemma lookup_trim {V} (v : option V) cs q :
  NoDup (names cs) -> lookup (Node v (trim_kids cs)) q = lookup (Node v cs) q.
Proof.
  intros Hnd. destruct q as [|k q]; [reflexivity|].
  rewrite !lookup_cons. unfold trim_kids. rewrite find_filter by assumption.
  destruct (find_child k cs) as [c|]; [|reflexivity]. cbn [snd].
  destruct (is_obsolete c) eqn:E; cbn; [|reflexivity].
  symmetry. now apply lookup_obsolete.
Qed.

(* ------------------------------------------------------------------ set_at *)

Theorem lookup_set_at {V} p (e : V) : forall n q,
  lookup (set_at p e n) q = if path_eqb p q then Some e else lookup n q.
Proof.
  induction p as [|k p IH]; intros [v cs] q.
  - destruct q; reflexivity.
  - cbn [set_at nval nkids]. destruct q as [|k2 q]; [reflexivity|].
    rewrite !lookup_cons. cbn [path_eqb].
    destruct (str_eqb_spec k k2) as [<-|Hn].
    + rewrite find_upd_child_same, IH. cbn [andb].
      destruct (path_eqb p q); [reflexivity|].
      destruct (find_child k cs); [reflexivity|apply lookup_empty].
    + rewrite find_upd_child_other by congruence. reflexivity.
Qed.

Lemma wfn_empty {V} : wfn (@empty_node V).
Proof. cbn. split; [constructor|exact I]. Qed.

Theorem wfn_set_at {V} p (e : V) : forall n, wfn n -> wfn (set_at p e n).
Proof.
  induction p as [|k p IH]; intros [v cs] Hwf.
  - exact Hwf.
  - cbn [set_at nval nkids]. apply wfn_unfold in Hwf as [Hnd Hc]. apply wfn_unfold. split.
    + now apply NoDup_names_upd_child.
    + apply Forall_upd_child; [assumption|exact IH|apply IH; exact wfn_empty].
Qed.

(* ------------------------------------------------------------------ del_at *)

Theorem wfn_del_at {V} p : forall (n : node V), wfn n -> wfn (del_at p n).
Proof.
  induction p as [|k p IH]; intros [v cs] Hwf.
  - exact Hwf.
  - cbn [del_at nkids nval]. destruct (find_child k cs); [|assumption].
    apply wfn_unfold in Hwf as [Hnd Hc]. apply wfn_unfold. split.
    + apply NoDup_names_filter. now rewrite names_mod_child.
    + unfold trim_kids. apply Forall_forall. intros kc Hin. apply filter_In in Hin as [Hin _].
      revert kc Hin. apply Forall_forall. now apply Forall_mod_child.
Qed.

Theorem lookup_del_at {V} p : forall (n : node V) q,
  wfn n -> lookup (del_at p n) q = if path_eqb p q then None else lookup n q.
Proof.
  induction p as [|k p IH]; intros [v cs] q Hwf.
  - destruct q; reflexivity.
  - cbn [del_at nkids nval]. apply wfn_unfold in Hwf as [Hnd Hc].
    destruct (find_child k cs) as [c|] eqn:Ef.
    + rewrite lookup_trim by now rewrite names_mod_child.
      destruct q as [|k2 q]; [reflexivity|].
      rewrite !lookup_cons, find_mod_child. cbn [path_eqb].
      destruct (str_eqb_spec k k2) as [<-|Hn].
      * rewrite str_eqb_refl, Ef. cbn [option_map andb]. apply IH.
        rewrite Forall_forall in Hc. exact (Hc _ (find_child_In _ _ _ Ef)).
      * apply not_eq_sym in Hn. apply str_eqb_neq in Hn. now rewrite Hn.
    + destruct q as [|k2 q]; [reflexivity|]. cbn [path_eqb].
      destruct (str_eqb_spec k k2) as [<-|Hn]; [|reflexivity].
      rewrite lookup_cons, Ef. now destruct (path_eqb p q).
Qed.

(* ------------------------------------------------------------------ delm (ndelete_matches) *)

Lemma delm_nil {V} (n : node V) trav :
  delm n trav [] = DelmRes (Node None (nkids n)) (map (fun x => (trav, x)) (opt_list (nval n))) [].
Proof. destruct n; reflexivity. Qed.

Lemma delm_multi {V} (n : node V) trav :
  delm n trav [Multi] = DelmRes (Node None []) (collect n trav [Multi]) (multi_notes n trav).
Proof. destruct n; reflexivity. Qed.

Lemma delm_multi_bad {V} (n : node V) trav s p :
  delm n trav (Multi :: s :: p) = DelmRes n [] [].
Proof. destruct n; reflexivity. Qed.

Definition wild_rs {V} (trav : list str) (tail : list kseg) (cs : list (str * node V))
  : list (str * node V * delm_res V) :=
  map (fun kc => (fst kc, snd kc, delm (snd kc) (trav ++ [fst kc]) tail)) cs.

Lemma delm_wild {V} (v : option V) cs trav tail :
  delm (Node v cs) trav (Wild :: tail) =
  let rs := wild_rs trav tail cs in
  DelmRes (Node v (trim_kids (map (fun x => (fst (fst x), dr_node (snd x))) rs)))
          (flat_map (fun x => dr_matches (snd x)) rs)
          (wild_notes trav [] rs).
Proof.
  cbn [delm]. unfold wild_rs.
  assert (E : (fix go (cs0 : list (str * node V)) : list (str * node V * delm_res V) :=
                 match cs0 with
                 | [] => []
                 | (k, c) :: cs' => (k, c, delm c (trav ++ [k]) tail) :: go cs'
                 end) cs =
              map (fun kc => (fst kc, snd kc, delm (snd kc) (trav ++ [fst kc]) tail)) cs).
  { induction cs as [|[k c] cs IH]; cbn; [reflexivity|]. now rewrite IH. }
  now rewrite E.
Qed.

Lemma delm_reg {V} (v : option V) cs trav s tail :
  delm (Node v cs) trav (Reg s :: tail) =
  match find_child s cs with
  | Some c =>
      let rc := delm c (trav ++ [s]) tail in
      let kids := mod_child s (fun _ => dr_node rc) cs in
      DelmRes (Node v (trim_kids kids)) (dr_matches rc)
              (dr_notes rc ++ (if any_obsolete kids then [(trav, names (trim_kids kids))] else []))
  | None => DelmRes (Node v (trim_kids cs)) [] []
  end.
Proof.
  cbn [delm].
  assert (E : (fix go (cs0 : list (str * node V)) : option (delm_res V) :=
                 match cs0 with
                 | [] => None
                 | (k, c) :: cs' => if str_eqb s k then Some (delm c (trav ++ [s]) tail) else go cs'
                 end) cs =
              option_map (fun c => delm c (trav ++ [s]) tail) (find_child s cs)).
  { induction cs as [|[k c] cs IH]; cbn; [reflexivity|]. destruct (str_eqb s k); [reflexivity|assumption]. }
  rewrite E. destruct (find_child s cs); reflexivity.
Qed.

(* the deleted matches are exactly what ncollect_matches would have returned *)
Theorem delm_matches {V} (n : node V) : forall trav p,
  dr_matches (delm n trav p) = collect n trav p.
Proof.
  induction n as [v cs IH] using node_ind'. intros trav p.
  destruct p as [|s p].
  - reflexivity.
  - destruct s as [s| |].
    + rewrite delm_reg, collect_reg.
      destruct (find_child s cs) as [c|] eqn:Ef; [|reflexivity]. cbn [dr_matches].
      rewrite Forall_forall in IH. exact (IH _ (find_child_In _ _ _ Ef) _ _).
    + rewrite delm_wild, collect_wild. cbn [dr_matches]. unfold wild_rs.
      induction IH as [|[k c] cs Hc Hcs IHcs]; cbn; [reflexivity|].
      cbn [snd] in Hc. now rewrite Hc, IHcs.
    + destruct p as [|s' p].
      * now rewrite delm_multi.
      * now rewrite delm_multi_bad, collect_multi_bad.
Qed.

Lemma find_map_fst_snd {A B} (g : str -> A -> B) k (cs : list (str * A)) :
  find_child k (map (fun kc => (fst kc, g (fst kc) (snd kc))) cs) = option_map (g k) (find_child k cs).
Proof. apply find_map_kids. Qed.

Lemma names_map_kids {A B} (g : str * A -> B) (cs : list (str * A)) :
  names (map (fun kc => (fst kc, g kc)) cs) = names cs.
Proof. unfold names. rewrite map_map. apply map_ext. reflexivity. Qed.

(* pdelete removes exactly the entries satisfying store_match and keeps everything else *)
Theorem delm_spec {V} (n : node V) : forall trav p q,
  wfn n ->
  wfn (dr_node (delm n trav p)) /\
  lookup (dr_node (delm n trav p)) q = if store_match p q then None else lookup n q.
Proof.
  induction n as [v cs IH] using node_ind'. intros trav p q Hwf.
  pose proof Hwf as Hwf0. apply wfn_unfold in Hwf as [Hnd Hwfc].
  destruct p as [|s p].
  - rewrite delm_nil. cbn [dr_node nkids]. split; [now apply wfn_unfold|].
    destruct q; reflexivity.
  - destruct s as [s| |].
    + (* Reg *)
      rewrite delm_reg. destruct (find_child s cs) as [c|] eqn:Ef.
      * cbn [dr_node]. pose proof (find_child_In _ _ _ Ef) as Hin.
        rewrite Forall_forall in IH, Hwfc.
        destruct (IH _ Hin (trav ++ [s]) p [] (Hwfc _ Hin)) as [Hwc _].
        split.
        -- apply wfn_unfold. split.
           ++ apply NoDup_names_filter. now rewrite names_mod_child.
           ++ apply Forall_forall. intros kc Hk. apply filter_In in Hk as [Hk _].
              revert kc Hk. apply Forall_forall. apply Forall_mod_child.
              ** apply Forall_forall. exact Hwfc.
              ** intros _ _. exact Hwc.
        -- rewrite lookup_trim by now rewrite names_mod_child.
           destruct q as [|k2 q]; [reflexivity|].
           rewrite !lookup_cons, find_mod_child. cbn [store_match].
           destruct (str_eqb_spec s k2) as [<-|Hn].
           ++ rewrite str_eqb_refl, Ef. cbn [option_map andb].
              destruct (IH _ Hin (trav ++ [s]) p q (Hwfc _ Hin)) as [_ Hl]. exact Hl.
           ++ apply not_eq_sym in Hn. apply str_eqb_neq in Hn. rewrite Hn. reflexivity.
      * cbn [dr_node]. split.
        -- apply wfn_unfold. split; [now apply NoDup_names_filter|].
           apply Forall_forall. intros kc Hk. apply filter_In in Hk as [Hk _].
           rewrite Forall_forall in Hwfc. now apply Hwfc.
        -- rewrite lookup_trim by assumption.
           destruct q as [|k2 q]; [reflexivity|]. cbn [store_match].
           destruct (str_eqb_spec s k2) as [<-|Hn]; [|reflexivity].
           rewrite lookup_cons, Ef. now destruct (store_match p q).
    + (* Wild *)
      rewrite delm_wild. cbn [dr_node]. unfold wild_rs. rewrite map_map. cbn [fst snd].
      set (g := fun (k : str) (c : node V) => dr_node (delm c (trav ++ [k]) p)).
      change (map (fun x : str * node V => (fst x, dr_node (delm (snd x) (trav ++ [fst x]) p))) cs)
        with (map (fun kc : str * node V => (fst kc, g (fst kc) (snd kc))) cs).
      rewrite Forall_forall in IH, Hwfc. split.
      * apply wfn_unfold. split.
        -- apply NoDup_names_filter. unfold names. rewrite map_map. cbn [fst]. exact Hnd.
        -- apply Forall_forall. intros kc Hk. apply filter_In in Hk as [Hk _].
           apply in_map_iff in Hk as ([k c] & <- & Hin). cbn [fst snd]. unfold g.
           exact (proj1 (IH _ Hin (trav ++ [k]) p [] (Hwfc _ Hin))).
      * rewrite lookup_trim by (unfold names; rewrite map_map; exact Hnd).
        destruct q as [|k2 q]; [reflexivity|].
        rewrite !lookup_cons, find_map_kids. cbn [store_match].
        destruct (find_child k2 cs) as [c|] eqn:Ef; cbn [option_map].
        -- pose proof (find_child_In _ _ _ Ef) as Hin. unfold g.
           exact (proj2 (IH _ Hin (trav ++ [k2]) p q (Hwfc _ Hin))).
        -- now destruct (store_match p q).
    + (* Multi *)
      destruct p as [|s' p].
      * rewrite delm_multi. cbn [dr_node]. split; [exact wfn_empty|].
        cbn [store_match]. now apply lookup_obsolete.
      * rewrite delm_multi_bad. cbn [dr_node]. split; [assumption|reflexivity].
Qed.
