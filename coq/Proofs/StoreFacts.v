(* Facts about the tree of Model/Store.v: induction principle, well-formedness (distinct
   child names = HashMap), lookup, collect (= ncollect_matches), delm (= ndelete_matches). *)
From WB Require Import Base.Str Base.StrFacts Model.Key Model.Store Model.Match.

Section node_ind'.
  Context {V : Type}.
  Variable P : node V -> Prop.
  Hypothesis H : forall v cs, Forall (fun kc => P (snd kc)) cs -> P (Node v cs).
  Fixpoint node_ind' (n : node V) : P n :=
    match n with
    | Node v cs =>
        H v cs ((fix go (cs : list (str * node V)) : Forall (fun kc => P (snd kc)) cs :=
                   match cs with
                   | [] => Forall_nil _
                   | (k, c) :: cs' => Forall_cons (k, c) (node_ind' c) (go cs')
                   end) cs)
    end.
End node_ind'.

(* well-formed: child names are distinct at every level (a HashMap) *)
Fixpoint wfn {V} (n : node V) : Prop :=
  match n with
  | Node _ cs =>
      NoDup (names cs) /\
      (fix go (cs : list (str * node V)) : Prop :=
         match cs with
         | [] => True
         | (_, c) :: cs' => wfn c /\ go cs'
         end) cs
  end.

Lemma wfn_unfold {V} (v : option V) cs :
  wfn (Node v cs) <-> NoDup (names cs) /\ Forall (fun kc => wfn (snd kc)) cs.
Proof.
  cbn [wfn]. split; intros [Hn Hc]; split; try assumption.
  - induction cs as [|[k c] cs IH]; constructor.
    + apply Hc.
    + apply IH; [now inversion Hn | apply Hc].
  - induction cs as [|[k c] cs IH]; [exact I|].
    inversion Hc; subst. split; [assumption|]. apply IH; [now inversion Hn | assumption].
Qed.

Lemma find_child_In {A} k (cs : list (str * A)) c :
  find_child k cs = Some c -> In (k, c) cs.
Proof.
  induction cs as [|[k' c'] cs IH]; cbn; [discriminate|].
  destruct (str_eqb_spec k k') as [->|Hn].
  - intros [= ->]. now left.
  - intros H. right. now apply IH.
Qed.

Lemma In_find_child {A} k (cs : list (str * A)) c :
  NoDup (names cs) -> In (k, c) cs -> find_child k cs = Some c.
Proof.
  induction cs as [|[k' c'] cs IH]; cbn; [contradiction|].
  intros Hnd [E|Hin].
  - injection E as -> ->. now rewrite str_eqb_refl.
  - inversion Hnd as [|? ? Hni Hnd']; subst.
    destruct (str_eqb_spec k k') as [->|Hn].
    + exfalso. apply Hni. change k' with (fst (k', c)). now apply in_map.
    + now apply IH.
Qed.

Lemma find_child_None {A} k (cs : list (str * A)) :
  find_child k cs = None <-> ~ In k (names cs).
Proof.
  induction cs as [|[k' c'] cs IH]; cbn.
  - split; [intros _ []|reflexivity].
  - destruct (str_eqb_spec k k') as [->|Hn].
    + split; [discriminate|]. intros H. exfalso. apply H. now left.
    + rewrite IH. split; intros H; [intros [E|Hin]; [congruence|now apply H] | intros Hin; apply H; now right].
Qed.

Lemma lookup_nil {V} (n : node V) : lookup n [] = nval n.
Proof. reflexivity. Qed.

Lemma lookup_cons {V} (v : option V) cs k q :
  lookup (Node v cs) (k :: q) = match find_child k cs with Some c => lookup c q | None => None end.
Proof. unfold lookup. cbn. destruct (find_child k cs); reflexivity. Qed.

(* ---- collect: unfolding of the nested fixpoints ---- *)

Lemma collect_nil {V} (n : node V) trav :
  collect n trav [] = map (fun x => (trav, x)) (opt_list (nval n)).
Proof. destruct n; reflexivity. Qed.

Lemma collect_multi {V} (v : option V) cs trav :
  collect (Node v cs) trav [Multi] =
  map (fun x => (trav, x)) (opt_list v) ++
  flat_map (fun kc => collect (snd kc) (trav ++ [fst kc]) [Multi]) cs.
Proof.
  cbn [collect]. f_equal. induction cs as [|[k c] cs IH]; cbn; [reflexivity|]. now rewrite IH.
Qed.

Lemma collect_multi_bad {V} (n : node V) trav s p : collect n trav (Multi :: s :: p) = [].
Proof. destruct n; reflexivity. Qed.

Lemma collect_wild {V} (v : option V) cs trav tail :
  collect (Node v cs) trav (Wild :: tail) =
  flat_map (fun kc => collect (snd kc) (trav ++ [fst kc]) tail) cs.
Proof.
  cbn [collect]. induction cs as [|[k c] cs IH]; cbn; [reflexivity|]. now rewrite IH.
Qed.

Lemma collect_reg {V} (v : option V) cs trav s tail :
  collect (Node v cs) trav (Reg s :: tail) =
  match find_child s cs with Some c => collect c (trav ++ [s]) tail | None => [] end.
Proof.
  cbn [collect]. induction cs as [|[k c] cs IH]; cbn; [reflexivity|].
  destruct (str_eqb s k); [reflexivity|assumption].
Qed.

(* ncollect_matches returns exactly the entries whose relative path satisfies store_match *)
Theorem collect_spec {V} (n : node V) : forall trav p q x,
  wfn n ->
  (In (q, x) (collect n trav p) <->
   exists k, q = trav ++ k /\ lookup n k = Some x /\ store_match p k = true).
Proof.
  induction n as [v cs IH] using node_ind'. intros trav p q x Hwf.
  apply wfn_unfold in Hwf as [Hnd Hwfc].
  destruct p as [|s p].
  - rewrite collect_nil. cbn [nval]. split.
    + destruct v as [y|]; cbn; [|contradiction]. intros [E|[]]. injection E as <- <-.
      exists []. now rewrite app_nil_r.
    + intros (k & -> & Hl & Hm). destruct k; [|discriminate].
      rewrite lookup_nil in Hl. cbn in Hl. subst v. rewrite app_nil_r. now left.
  - destruct s as [s| |].
    + (* Reg *)
      rewrite collect_reg. split.
      * destruct (find_child s cs) as [c|] eqn:Ef; [|contradiction].
        pose proof (find_child_In _ _ _ Ef) as Hin.
        rewrite Forall_forall in IH, Hwfc.
        intros H. apply (IH _ Hin) in H; [|exact (Hwfc _ Hin)].
        destruct H as (k & -> & Hl & Hm).
        exists (s :: k). rewrite <- app_assoc. split; [reflexivity|].
        rewrite lookup_cons, Ef. cbn [store_match]. now rewrite str_eqb_refl.
      * intros (k & -> & Hl & Hm). destruct k as [|y k]; [discriminate|].
        cbn [store_match] in Hm. apply andb_true_iff in Hm as [Hs Hm].
        apply str_eqb_eq in Hs. subst y.
        rewrite lookup_cons in Hl. destruct (find_child s cs) as [c|] eqn:Ef; [|discriminate].
        pose proof (find_child_In _ _ _ Ef) as Hin.
        rewrite Forall_forall in IH, Hwfc.
        apply (IH _ Hin); [exact (Hwfc _ Hin)|].
        exists k. now rewrite <- app_assoc.
    + (* Wild *)
      rewrite collect_wild, in_flat_map. rewrite Forall_forall in IH, Hwfc. split.
      * intros ([k c] & Hin & H). cbn [fst snd] in H.
        apply (IH _ Hin) in H; [|exact (Hwfc _ Hin)].
        destruct H as (k' & -> & Hl & Hm).
        exists (k :: k'). rewrite <- app_assoc. split; [reflexivity|].
        rewrite lookup_cons, (In_find_child _ _ _ Hnd Hin). now split.
      * intros (k & -> & Hl & Hm). destruct k as [|y k]; [discriminate|].
        cbn [store_match] in Hm. rewrite lookup_cons in Hl.
        destruct (find_child y cs) as [c|] eqn:Ef; [|discriminate].
        pose proof (find_child_In _ _ _ Ef) as Hin.
        exists (y, c). split; [assumption|]. cbn [fst snd].
        apply (IH _ Hin); [exact (Hwfc _ Hin)|].
        exists k. now rewrite <- app_assoc.
    + (* Multi *)
      destruct p as [|s' p].
      * rewrite collect_multi, in_app_iff, in_flat_map. rewrite Forall_forall in IH, Hwfc. split.
        -- intros [H|([k c] & Hin & H)].
           ++ destruct v as [y|]; cbn in H; [|contradiction]. destruct H as [E|[]].
              injection E as <- <-. exists []. now rewrite app_nil_r.
           ++ cbn [fst snd] in H. apply (IH _ Hin) in H; [|exact (Hwfc _ Hin)].
              destruct H as (k' & -> & Hl & Hm).
              exists (k :: k'). rewrite <- app_assoc. split; [reflexivity|].
              rewrite lookup_cons, (In_find_child _ _ _ Hnd Hin). now split.
        -- intros (k & -> & Hl & _). destruct k as [|y k].
           ++ left. rewrite lookup_nil in Hl. cbn in Hl. subst v. rewrite app_nil_r. now left.
           ++ right. rewrite lookup_cons in Hl.
              destruct (find_child y cs) as [c|] eqn:Ef; [|discriminate].
              pose proof (find_child_In _ _ _ Ef) as Hin.
              exists (y, c). split; [assumption|]. cbn [fst snd].
              apply (IH _ Hin); [exact (Hwfc _ Hin)|].
              exists k. now rewrite <- app_assoc.
      * rewrite collect_multi_bad. split; [contradiction|].
        intros (k & _ & _ & Hm). discriminate.
Qed.
