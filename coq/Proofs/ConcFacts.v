(* The tasks and channels around the core (Model/Conc.v): whatever the scheduler does,
   - the core applies the requests in the order in which they entered the api channel (conc_fifo, conc_core);
   - every session is handed, in the order of its requests, exactly the answer the serial run gives to each of them
     (conc_answers);
   - for every subscription instance, what its session's socket writer was handed from it, followed by what still
     waits in its channel, is what the serial run of the served requests emits for it, in that order (conc_stream);
     no other session is handed anything of it (conc_private);
   - an item of a subscription is handed to the socket writer only after the answer (Ack) of the subscribe request
     that created it (conc_ack_first).
   Only assumption about the runtime: channels are FIFO. *)
From Coq Require Import Lia List NArith.
Import ListNotations.
From WB Require Import Base.Str Base.Json Model.Key Model.Consts Model.Store Model.Match Model.Subs Model.Entry Model.Core Model.Conc
  Proofs.C07Proof.
Local Open Scope N_scope.

(* ---- instance numbers are handed out once ---- *)
Lemma seq2_inst r1 f :
  (forall s, next_inst (fst (f s)) = next_inst s) -> next_inst (fst (seq2 r1 f)) = next_inst (fst r1).
Proof. intros Hf. unfold seq2. destruct (is_crash (snd r1)); [reflexivity|]. cbn [fst]. apply Hf. Qed.

Lemma iter_inst {A} (f : core -> A -> core * output) l :
  (forall s x, next_inst (fst (f s x)) = next_inst s) -> forall s, next_inst (fst (iter_ops f l s)) = next_inst s.
Proof.
  intros Hf. induction l as [|x l IH]; intros s; [reflexivity|]. cbn [iter_ops].
  rewrite seq2_inst; [apply Hf|exact IH].
Qed.

Lemma insert_inst s c k e f : next_inst (fst (do_insert s c k e f)) = next_inst s.
Proof. unfold do_insert. crush_op. Qed.
Lemma pdelete_inst s c sk p : next_inst (fst (do_pdelete s c sk p)) = next_inst s.
Proof. unfold do_pdelete. crush_op. Qed.
Lemma delete_inst s c k : next_inst (fst (do_delete s c k)) = next_inst s.
Proof. unfold do_delete. crush_op. Qed.
Lemma unsubscribe_inst s c t : next_inst (fst (do_unsubscribe s c t)) = next_inst s.
Proof. unfold do_unsubscribe. crush_op. Qed.
Lemma unsubscribe_ls_inst s c t : next_inst (fst (do_unsubscribe_ls s c t)) = next_inst s.
Proof. unfold do_unsubscribe_ls. crush_op. Qed.

Lemma connected_inst s c : next_inst (fst (do_connected s c)) = next_inst s.
Proof.
  unfold do_connected. destruct (N.eqb c 0); [reflexivity|]. destruct (existsb _ _); [reflexivity|]. cbn [fst].
  rewrite seq2_inst; [|intros; apply insert_inst]. rewrite seq2_inst; [|intros; apply insert_inst].
  now rewrite insert_inst.
Qed.

Lemma disconnected_inst s c : next_inst (fst (do_disconnected s c)) = next_inst s.
Proof.
  unfold do_disconnected. destruct (N.eqb c 0); [reflexivity|].
  destruct (match assoc_get N.eqb c (locked_keys (set_spub s (filter (fun kv => negb (N.eqb (fst (fst kv)) c)) (spub_keys s)))) with
            | Some paths => unlock_paths (locks (set_spub s (filter (fun kv => negb (N.eqb (fst (fst kv)) c)) (spub_keys s)))) c paths
            | None => (locks (set_spub s (filter (fun kv => negb (N.eqb (fst (fst kv)) c)) (spub_keys s))), [], [], false)
            end) as [[[l' granted] cancelled] crash].
  destruct crash; [reflexivity|]. cbn [fst].
  rewrite seq2_inst; [now rewrite insert_inst|]. intros s1.
  rewrite seq2_inst; [apply iter_inst; intros; apply unsubscribe_inst|]. intros s2.
  rewrite seq2_inst; [apply iter_inst; intros; apply unsubscribe_ls_inst|]. intros s3.
  rewrite seq2_inst; [apply pdelete_inst|]. intros s4.
  rewrite seq2_inst; [apply iter_inst; intros; apply pdelete_inst|]. intros s5.
  apply iter_inst; intros; apply insert_inst.
Qed.

Lemma connected_res s c i : o_res (snd (do_connected s c)) <> RSub i.
Proof.
  unfold do_connected. destruct (N.eqb c 0); [discriminate|]. destruct (existsb _ _); [discriminate|]. cbn [snd].
  match goal with |- context [is_crash ?x] => destruct (is_crash x) eqn:E end; [|discriminate].
  unfold is_crash in E. intros H. rewrite H in E. discriminate.
Qed.

Lemma disconnected_res s c i : o_res (snd (do_disconnected s c)) <> RSub i.
Proof.
  unfold do_disconnected. destruct (N.eqb c 0); [discriminate|].
  destruct (match assoc_get N.eqb c (locked_keys (set_spub s (filter (fun kv => negb (N.eqb (fst (fst kv)) c)) (spub_keys s)))) with
            | Some paths => unlock_paths (locks (set_spub s (filter (fun kv => negb (N.eqb (fst (fst kv)) c)) (spub_keys s)))) c paths
            | None => (locks (set_spub s (filter (fun kv => negb (N.eqb (fst (fst kv)) c)) (spub_keys s))), [], [], false)
            end) as [[[l' granted] cancelled] crash].
  destruct crash; [discriminate|]. cbn [snd].
  match goal with |- context [is_crash ?x] => destruct (is_crash x) eqn:E end; [|discriminate].
  unfold is_crash in E. intros H. rewrite H in E. discriminate.
Qed.

Theorem step_inst s o :
  next_inst s <= next_inst (fst (step s o)) /\
  forall i, o_res (snd (step s o)) = RSub i -> i = next_inst s /\ next_inst (fst (step s o)) = i + 1.
Proof.
  destruct o; cbn [step fst snd out_res o_res];
    try (split; [lia|intros i Hi; try discriminate Hi; destruct (do_pget s p); discriminate Hi]).
  - (* get *) split; [lia|]. intros i. unfold do_get. crush_op; discriminate.
  - split; [lia|]. intros i. unfold do_cget. crush_op; discriminate.
  - split; [lia|]. intros i. unfold do_ls. crush_op; discriminate.
  - split; [lia|]. intros i. unfold do_pls. crush_op; discriminate.
  - rewrite insert_inst. split; [lia|]. intros i. unfold do_insert. crush_op; cbn; discriminate.
  - rewrite insert_inst. split; [lia|]. intros i. unfold do_insert. crush_op; cbn; discriminate.
  - rewrite delete_inst. split; [lia|]. intros i. unfold do_delete. crush_op; cbn; discriminate.
  - rewrite pdelete_inst. split; [lia|]. intros i. unfold do_pdelete. crush_op; cbn; discriminate.
  - unfold do_publish. crush_op; cbn; (split; [lia|discriminate]).
  - unfold do_spub_init. crush_op; cbn; (split; [lia|discriminate]).
  - unfold do_spub, do_publish. crush_op; cbn; (split; [lia|discriminate]).
  - unfold do_import. crush_op; cbn; (split; [lia|discriminate]).
  - unfold do_subscribe. crush_op; cbn; (split; [lia|]); intros i Hi; try discriminate; injection Hi as <-; split; reflexivity.
  - unfold do_psubscribe. crush_op; cbn; (split; [lia|]); intros i Hi; try discriminate; injection Hi as <-; split; reflexivity.
  - rewrite unsubscribe_inst. split; [lia|]. intros i. unfold do_unsubscribe. crush_op; cbn; discriminate.
  - unfold do_subscribe_ls. cbn. split; [lia|]. intros i Hi. injection Hi as <-. split; reflexivity.
  - rewrite unsubscribe_ls_inst. split; [lia|]. intros i. unfold do_unsubscribe_ls. crush_op; cbn; discriminate.
  - unfold do_lock. crush_op; cbn; (split; [lia|discriminate]).
  - unfold do_acquire. crush_op; cbn; (split; [lia|discriminate]).
  - unfold do_release. crush_op; cbn; (split; [lia|discriminate]).
  - rewrite connected_inst. split; [lia|]. intros i Hi. now apply connected_res in Hi.
  - rewrite disconnected_inst. split; [lia|]. intros i Hi. now apply disconnected_res in Hi.
Qed.

Lemma handed_fresh l : forall s, Forall (fun i => next_inst s <= i) (handed (sres s l)) /\ NoDup (handed (sres s l)).
Proof.
  induction l as [|[sn o] l IH]; intros s; [split; constructor|].
  cbn [sres handed flat_map snd]. fold (handed (sres (fst (step s o)) l)).
  destruct (IH (fst (step s o))) as (Hge & Hnd). destruct (step_inst s o) as (Hmono & Hsub).
  assert (Hge' : Forall (fun i => next_inst s <= i) (handed (sres (fst (step s o)) l))).
  { eapply Forall_impl; [|exact Hge]. cbn. intros; lia. }
  destruct (o_res (snd (step s o))) eqn:E; cbn [app]; try (split; assumption).
  destruct (Hsub inst eq_refl) as (-> & Hn). split.
  - constructor; [lia|exact Hge'].
  - constructor; [|exact Hnd]. intros Hin. rewrite Forall_forall in Hge. specialize (Hge _ Hin). lia.
Qed.

(* ---- list facts ---- *)
Lemma sres_app l1 : forall s l2, sres s (l1 ++ l2) = sres s l1 ++ sres (final s (map snd l1)) l2.
Proof.
  induction l1 as [|[sn o] l1 IH]; intros s l2; [reflexivity|]. cbn [app sres map final fold_left].
  rewrite IH. reflexivity.
Qed.

Lemma emitted_app i l1 : forall s l2, emitted i s (l1 ++ l2) = emitted i s l1 ++ emitted i (final s l1) l2.
Proof.
  induction l1 as [|o l1 IH]; intros s l2; [reflexivity|]. cbn [app emitted final fold_left].
  rewrite IH, app_assoc. reflexivity.
Qed.

Lemma final_app s l1 l2 : final s (l1 ++ l2) = final (final s l1) l2.
Proof. unfold final. apply fold_left_app. Qed.

Lemma mine_app sn a b : mine sn (a ++ b) = mine sn a ++ mine sn b.
Proof. unfold mine. apply flat_map_app. Qed.
Lemma ans_proj_app a b : ans_proj (a ++ b) = ans_proj a ++ ans_proj b.
Proof. unfold ans_proj. apply flat_map_app. Qed.
Lemma item_proj_app i a b : item_proj i (a ++ b) = item_proj i a ++ item_proj i b.
Proof. unfold item_proj. apply flat_map_app. Qed.

Lemma upd_same {A} k (v : A) f : upd k v f k = v.
Proof. unfold upd. now rewrite N.eqb_refl. Qed.
Lemma upd_other {A} k k' (v : A) f : k <> k' -> upd k v f k' = f k'.
Proof. unfold upd. intros H. destruct (N.eqb_spec k k'); [contradiction|reflexivity]. Qed.

Definition handed2 (l : list (op * result)) : list N :=
  flat_map (fun x => match snd x with RSub i => [i] | _ => [] end) l.

Lemma in_mine sn o r S : In (o, r) (mine sn S) -> In (sn, o, r) S.
Proof.
  unfold mine. intros H. apply in_flat_map in H as ([[sn' o'] r'] & Hin & Hx). cbn [fst snd] in Hx.
  destruct (N.eqb_spec sn' sn) as [->|]; [|contradiction]. destruct Hx as [[= <- <-]|[]]. exact Hin.
Qed.

Lemma handed_unique S : NoDup (handed S) -> forall x y i, In x S -> In y S -> snd x = RSub i -> snd y = RSub i -> x = y.
Proof.
  induction S as [|z S IH]; intros Hnd x y i Hx Hy Ex Ey; [contradiction|].
  cbn [handed flat_map] in Hnd. fold (handed S) in Hnd.
  assert (Hin : forall w, In w S -> snd w = RSub i -> In i (handed S)).
  { intros w Hw Ew. unfold handed. apply in_flat_map. exists w. split; [exact Hw|]. rewrite Ew. now left. }
  destruct Hx as [->|Hx], Hy as [->|Hy]; [reflexivity| | |].
  - rewrite Ex in Hnd. cbn [app] in Hnd. apply NoDup_cons_iff in Hnd as (Hn & _). exfalso. exact (Hn (Hin _ Hy Ey)).
  - rewrite Ey in Hnd. cbn [app] in Hnd. apply NoDup_cons_iff in Hnd as (Hn & _). exfalso. exact (Hn (Hin _ Hx Ex)).
  - refine (IH _ x y i Hx Hy Ex Ey). destruct (snd z); cbn [app] in Hnd; try exact Hnd. now apply NoDup_cons_iff in Hnd.
Qed.

Lemma handed2_mine sn S : NoDup (handed S) -> NoDup (handed2 (mine sn S)).
Proof.
  induction S as [|[[sn' o] r] S IH]; intros Hnd; [constructor|].
  cbn [handed flat_map snd] in Hnd. fold (handed S) in Hnd.
  assert (Hnd' : NoDup (handed S)) by (destruct r; cbn [app] in Hnd; try exact Hnd; now apply NoDup_cons_iff in Hnd).
  unfold mine. cbn [flat_map fst snd]. fold (mine sn S).
  destruct (N.eqb sn' sn); [|exact (IH Hnd')]. cbn [app handed2 flat_map snd]. fold (handed2 (mine sn S)).
  destruct r; cbn [app]; try exact (IH Hnd'). constructor; [|exact (IH Hnd')].
  cbn [app] in Hnd. apply NoDup_cons_iff in Hnd as (Hn & _). intros Hin. apply Hn.
  unfold handed2 in Hin. apply in_flat_map in Hin as ([o' r'] & Hin & Hx). cbn [snd] in Hx.
  destruct r'; try contradiction. destruct Hx as [<-|[]]. apply in_mine in Hin.
  unfold handed. apply in_flat_map. eexists. split; [exact Hin|]. now left.
Qed.

Lemma NoDup_snoc {A} (l : list A) x : NoDup l -> ~ In x l -> NoDup (l ++ [x]).
Proof.
  induction l as [|y l IH]; intros Hnd Hn; cbn [app]; [constructor; [intros []|constructor]|].
  apply NoDup_cons_iff in Hnd as (Hy & Hnd). constructor.
  - intros Hin. apply in_app_or in Hin as [Hin|[<-|[]]]; [contradiction|]. apply Hn. now left.
  - apply IH; [exact Hnd|]. intros Hin. apply Hn. now right.
Qed.

(* ---- the invariant ---- *)
Definition S_of (w : cw) : list (N * op * result) := sres init (c_served w).

Record CI (w : cw) : Prop := {
  ci_fifo : c_served w ++ c_api w = c_posted w;
  ci_core : c_core w = final init (map snd (c_served w));
  ci_wait : forall sn o, In (sn, o) (c_api w) -> c_task w sn = TWait o;
  ci_nodup : NoDup (map fst (c_api w));
  ci_ans : forall sn, ans_proj (c_wire w sn) ++ done_of (c_task w sn) = mine sn (S_of w);
  ci_stream : forall i, match c_owner w i with Some sn => item_proj i (c_wire w sn) | None => [] end ++ c_subq w i
                        = emitted i init (map snd (c_served w));
  ci_private : forall sn i, c_owner w i <> Some sn -> item_proj i (c_wire w sn) = [];
  ci_acked : forall sn i, c_owner w i = Some sn -> exists o, In (WAns o (RSub i)) (c_wire w sn);
  ci_first : forall sn a i x b, c_wire w sn = a ++ WItem i x :: b -> exists o, In (WAns o (RSub i)) a }.

Lemma CI_init : CI cinit.
Proof.
  split; cbn; try reflexivity; try (intros; contradiction); try constructor; try discriminate.
  intros sn a i x b H. destruct a; discriminate.
Qed.

Lemma first_snoc l m :
  (forall a i x b, l = a ++ WItem i x :: b -> exists o, In (WAns o (RSub i)) a) ->
  (forall i x, m = WItem i x -> exists o, In (WAns o (RSub i)) l) ->
  forall a i x b, l ++ [m] = a ++ WItem i x :: b -> exists o, In (WAns o (RSub i)) a.
Proof.
  intros Hl Hm a i x b E.
  destruct (@exists_last _ (WItem i x :: b) ltac:(discriminate)) as (b' & z & Eb).
  rewrite Eb, app_assoc in E. apply app_inj_tail in E as (E1 & E2). subst z.
  destruct b' as [|y b'].
  - (* the item is the new last element *)
    cbn in Eb. destruct b as [|? b]; [|destruct b; discriminate]. injection Eb as Em. rewrite app_nil_r in E1. subst a.
    exact (Hm i x (eq_sym Em)).
  - cbn in Eb. injection Eb as <- Eb. exact (Hl a i x b' E1).
Qed.

Lemma ans_in_proj o r l : In (WAns o r) l -> In (o, r) (ans_proj l).
Proof. intros H. unfold ans_proj. apply in_flat_map. exists (WAns o r). split; [exact H|now left]. Qed.

Theorem cstep_CI w e : CI w -> CI (cstep w e).
Proof.
  intros HCI. pose proof HCI as [Hf Hc Hw Hnd Ha Hs Hp Hk H1]. destruct e as [sn o| |sn|i]; cbn [cstep].
  - (* post *)
    destruct (c_task w sn) eqn:Et; try exact HCI.
    split; cbn [c_served c_api c_posted c_core c_task c_subq c_owner c_wire]; try assumption.
    + now rewrite app_assoc, Hf.
    + intros sn' o' Hin. apply in_app_or in Hin as [Hin|[[= <- <-]|[]]]; [|apply upd_same].
      rewrite upd_other; [now apply Hw|]. intros <-. rewrite (Hw _ _ Hin) in Et. discriminate.
    + rewrite map_app. cbn [map fst]. apply NoDup_snoc; [exact Hnd|].
      intros Hx. apply in_map_iff in Hx as ([sn' o'] & E & Hin). cbn [fst] in E. subst sn'.
      rewrite (Hw _ _ Hin) in Et. discriminate.
    + intros sn'. unfold S_of. cbn [c_served]. destruct (N.eqb_spec sn sn') as [<-|Hne].
      * rewrite upd_same. cbn [done_of]. specialize (Ha sn). rewrite Et in Ha. exact Ha.
      * rewrite upd_other by exact Hne. apply Ha.
  - (* serve *)
    destruct (c_api w) as [|[sn o] rest] eqn:Eapi; [exact HCI|].
    assert (Etask : c_task w sn = TWait o) by (apply Hw; now left).
    cbn [map fst] in Hnd. apply NoDup_cons_iff in Hnd as (Hnotin & Hnd').
    split; cbn [c_served c_api c_posted c_core c_task c_subq c_owner c_wire]; try assumption.
    + rewrite <- Hf, <- app_assoc. reflexivity.
    + rewrite map_app, final_app, <- Hc. reflexivity.
    + intros sn' o' Hin. rewrite upd_other; [apply Hw; now right|]. intros <-. apply Hnotin. apply in_map_iff. now exists (sn, o').
    + intros sn'. unfold S_of. cbn [c_served]. rewrite sres_app, mine_app. cbn [map]. rewrite <- Hc.
      cbn [sres]. unfold mine at 2. cbn [flat_map fst snd]. rewrite app_nil_r.
      destruct (N.eqb_spec sn sn') as [<-|Hne].
      * rewrite upd_same. cbn [done_of]. specialize (Ha sn). rewrite Etask in Ha. cbn [done_of] in Ha.
        rewrite app_nil_r in Ha. now rewrite Ha.
      * rewrite upd_other by exact Hne. rewrite app_nil_r. apply Ha.
    + intros i. rewrite map_app, emitted_app. cbn [map emitted]. rewrite <- Hc, app_nil_r.
      unfold push_all. rewrite app_assoc, Hs. reflexivity.
  - (* answer *)
    destruct (c_task w sn) as [| |o r] eqn:Et; try exact HCI.
    (* a freshly answered subscription has no forwarder yet *)
    assert (Hfresh : forall i, r = RSub i -> c_owner w i = None).
    { intros i ->. destruct (c_owner w i) as [sn0|] eqn:Eo; [exfalso|reflexivity].
      destruct (Hk sn0 i Eo) as (o' & Hin). apply ans_in_proj in Hin.
      pose proof (proj2 (handed_fresh (c_served w) init)) as Hnd0. fold (S_of w) in Hnd0.
      destruct (N.eqb_spec sn0 sn) as [->|Hne].
      - pose proof (handed2_mine sn _ Hnd0) as Hnd1. rewrite <- (Ha sn), Et in Hnd1. cbn [done_of] in Hnd1.
        unfold handed2 in Hnd1. rewrite flat_map_app in Hnd1. cbn [flat_map snd app] in Hnd1.
        apply NoDup_remove_2 in Hnd1. apply Hnd1. rewrite app_nil_r. apply in_flat_map. exists (o', RSub i). split; [exact Hin|now left].
      - assert (In1 : In (sn0, o', RSub i) (S_of w)).
        { apply in_mine. rewrite <- (Ha sn0). apply in_or_app. now left. }
        assert (In2 : In (sn, o, RSub i) (S_of w)).
        { apply in_mine. rewrite <- (Ha sn), Et. apply in_or_app. right. now left. }
        pose proof (handed_unique _ Hnd0 _ _ i In1 In2 eq_refl eq_refl) as E. injection E as E _. contradiction. }
    split; cbn [c_served c_api c_posted c_core c_task c_subq c_owner c_wire]; try assumption.
    + intros sn' o' Hin. rewrite upd_other; [now apply Hw|]. intros <-. rewrite (Hw _ _ Hin) in Et. discriminate.
    + intros sn'. unfold S_of. cbn [c_served]. fold (S_of w). destruct (N.eqb_spec sn sn') as [<-|Hne].
      * rewrite !upd_same. cbn [done_of]. rewrite ans_proj_app. cbn [ans_proj flat_map app]. rewrite app_nil_r.
        specialize (Ha sn). rewrite Et in Ha. exact Ha.
      * rewrite !upd_other by exact Hne. apply Ha.
    + intros i. specialize (Hs i).
      assert (Hown : forall sn', c_owner w i = Some sn' -> item_proj i (upd sn (c_wire w sn ++ [WAns o r]) (c_wire w) sn') = item_proj i (c_wire w sn')).
      { intros sn' _. destruct (N.eqb_spec sn sn') as [<-|Hne]; [rewrite upd_same|now rewrite upd_other].
        rewrite item_proj_app. cbn. now rewrite app_nil_r. }
      destruct r; try (destruct (c_owner w i) as [sn'|] eqn:Eo; [rewrite (Hown sn' eq_refl)|]; exact Hs).
      destruct (N.eqb_spec inst i) as [->|Hne].
      * rewrite upd_same. rewrite (Hfresh i eq_refl) in Hs. rewrite upd_same, item_proj_app.
        rewrite (Hp sn i) by (rewrite (Hfresh i eq_refl); discriminate). exact Hs.
      * rewrite upd_other by exact Hne. destruct (c_owner w i) as [sn'|] eqn:Eo; [rewrite (Hown sn' eq_refl)|]; exact Hs.
    + intros sn' i Hno.
      assert (Hno' : c_owner w i <> Some sn').
      { destruct r; try exact Hno. destruct (N.eqb_spec inst i) as [->|Hne]; [|now rewrite upd_other in Hno].
        rewrite (Hfresh i eq_refl). discriminate. }
      destruct (N.eqb_spec sn sn') as [<-|Hne]; [|rewrite upd_other by exact Hne; now apply Hp].
      rewrite upd_same, item_proj_app, (Hp sn i Hno'). reflexivity.
    + intros sn' i Ho.
      assert (Hcase : c_owner w i = Some sn' \/ (r = RSub i /\ sn' = sn)).
      { destruct r; try (now left). destruct (N.eqb_spec inst i) as [->|Hne]; [|rewrite upd_other in Ho by exact Hne; now left].
        rewrite upd_same in Ho. injection Ho as <-. now right. }
      destruct Hcase as [Ho'|(-> & ->)].
      * destruct (Hk sn' i Ho') as (o' & Hin). exists o'.
        destruct (N.eqb_spec sn sn') as [<-|Hne]; [rewrite upd_same; apply in_or_app; now left|now rewrite upd_other].
      * exists o. rewrite upd_same. apply in_or_app. right. now left.
    + intros sn' a i x b E. destruct (N.eqb_spec sn sn') as [<-|Hne]; [|rewrite upd_other in E by exact Hne; exact (H1 sn' a i x b E)].
      rewrite upd_same in E. refine (first_snoc _ _ (H1 sn) _ a i x b E). intros; discriminate.
  - (* forward *)
    destruct (c_owner w i) as [sn|] eqn:Eo; [|exact HCI].
    destruct (c_subq w i) as [|x rest] eqn:Eq; [exact HCI|].
    split; cbn [c_served c_api c_posted c_core c_task c_subq c_owner c_wire]; try assumption.
    + intros sn'. unfold S_of. cbn [c_served]. fold (S_of w). destruct (N.eqb_spec sn sn') as [<-|Hne].
      * rewrite upd_same, ans_proj_app. cbn [ans_proj flat_map app]. rewrite app_nil_r. apply Ha.
      * rewrite upd_other by exact Hne. apply Ha.
    + intros j. specialize (Hs j). destruct (N.eqb_spec i j) as [<-|Hne].
      * rewrite Eo in *. rewrite !upd_same, item_proj_app. cbn [item_proj flat_map]. rewrite N.eqb_refl. cbn [app].
        rewrite Eq in Hs. rewrite <- app_assoc. exact Hs.
      * rewrite (upd_other i j) by exact Hne. destruct (c_owner w j) as [sn'|] eqn:Eo'; [|exact Hs].
        destruct (N.eqb_spec sn sn') as [<-|Hne']; [|now rewrite upd_other].
        rewrite upd_same, item_proj_app. cbn [item_proj flat_map]. destruct (N.eqb_spec i j); [contradiction|]. cbn [app].
        rewrite app_nil_r. exact Hs.
    + intros sn' j Hno. destruct (N.eqb_spec sn sn') as [<-|Hne]; [|rewrite upd_other by exact Hne; now apply Hp].
      rewrite upd_same, item_proj_app, (Hp sn j Hno). cbn [item_proj flat_map]. destruct (N.eqb_spec i j) as [<-|]; [congruence|reflexivity].
    + intros sn' j Ho. destruct (Hk sn' j Ho) as (o' & Hin). exists o'.
      destruct (N.eqb_spec sn sn') as [<-|Hne]; [rewrite upd_same; apply in_or_app; now left|now rewrite upd_other].
    + intros sn' a j y b E. destruct (N.eqb_spec sn sn') as [<-|Hne]; [|rewrite upd_other in E by exact Hne; exact (H1 sn' a j y b E)].
      rewrite upd_same in E. refine (first_snoc _ _ (H1 sn) _ a j y b E). intros j' x' [= <- <-]. exact (Hk sn i Eo).
Qed.

Theorem crun_CI es : CI (crun es).
Proof.
  unfold crun. assert (H : forall w, CI w -> CI (fold_left cstep es w)); [|exact (H cinit CI_init)].
  induction es as [|e es IH]; intros w Hw; [exact Hw|]. cbn [fold_left]. apply IH. now apply cstep_CI.
Qed.

(* ---- the statements ---- *)
From WB Require Import Proofs.StreamProof.

Definition evs_of (l : list item) : list event := flat_map (fun x => match x with IEv e => [e] | ILs _ => [] end) l.
Lemma evs_of_app a b : evs_of (a ++ b) = evs_of a ++ evs_of b.
Proof. unfold evs_of. apply flat_map_app. Qed.

Lemma evs_for_inst i out : evs_of (for_inst i (items_of out)) = chan i (o_events out).
Proof.
  unfold for_inst, items_of, chan. rewrite filter_app, map_app, evs_of_app.
  assert (H1 : forall l : list (N * event), evs_of (map snd (filter (fun ix : N * item => N.eqb (fst ix) i) (map (fun ie => (fst ie, IEv (snd ie))) l)))
                        = map snd (filter (fun ie => N.eqb (fst ie) i) l)).
  { induction l as [|[j e] l IH]; [reflexivity|]. cbn [map filter fst snd]. destruct (N.eqb j i); cbn [map snd evs_of flat_map app]; [f_equal|]; exact IH. }
  assert (H2 : forall l : list (N * list str), evs_of (map snd (filter (fun ix : N * item => N.eqb (fst ix) i) (map (fun il => (fst il, ILs (snd il))) l))) = []).
  { induction l as [|[j e] l IH]; [reflexivity|]. cbn [map filter fst snd]. destruct (N.eqb j i); cbn [map snd evs_of flat_map app]; exact IH. }
  now rewrite H1, H2, app_nil_r.
Qed.

Lemma evs_emitted i l : forall s, evs_of (emitted i s l) = stream i s l.
Proof.
  induction l as [|o l IH]; intros s; [reflexivity|]. cbn [emitted stream]. now rewrite evs_of_app, evs_for_inst, IH.
Qed.

(* the requests are applied in the order in which they entered the channel; the state is that of their serial run *)
Theorem conc_serializes es :
  c_served (crun es) ++ c_api (crun es) = c_posted (crun es) /\
  c_core (crun es) = final init (map snd (c_served (crun es))).
Proof. destruct (crun_CI es) as [Hf Hc _ _ _ _ _ _ _]. now split. Qed.

(* every session is handed the answers of the serial run to its own requests, in the order of its requests, one each;
   the last one may still be on its way (the oneshot has fired, the serve loop has not run yet) *)
Theorem conc_answers es sn :
  ans_proj (c_wire (crun es) sn) ++ done_of (c_task (crun es) sn) = mine sn (sres init (c_served (crun es))).
Proof. exact (ci_ans _ (crun_CI es) sn). Qed.

(* what the socket writer was handed of a subscription, then what still waits in its channel = what the serial run
   of the served requests emits for it (C03_stream_all says what that is), in that order *)
Theorem conc_stream es i sn :
  c_owner (crun es) i = Some sn ->
  evs_of (item_proj i (c_wire (crun es) sn)) ++ evs_of (c_subq (crun es) i) = stream i init (map snd (c_served (crun es))).
Proof.
  intros Ho. pose proof (ci_stream _ (crun_CI es) i) as H. rewrite Ho in H.
  rewrite <- evs_emitted, <- H, evs_of_app. reflexivity.
Qed.

Theorem conc_private es i sn : c_owner (crun es) i <> Some sn -> item_proj i (c_wire (crun es) sn) = [].
Proof. exact (ci_private _ (crun_CI es) sn i). Qed.

Theorem conc_ack_first es sn a i x b :
  c_wire (crun es) sn = a ++ WItem i x :: b -> exists o, In (WAns o (RSub i)) a.
Proof. exact (ci_first _ (crun_CI es) sn a i x b). Qed.

(* nothing is lost: once a subscription's channel has been drained its session has been handed the whole stream *)
Corollary conc_drained es i sn :
  c_owner (crun es) i = Some sn -> c_subq (crun es) i = [] ->
  evs_of (item_proj i (c_wire (crun es) sn)) = stream i init (map snd (c_served (crun es))).
Proof. intros Ho Hq. pose proof (conc_stream es i sn Ho) as H. rewrite Hq in H. cbn in H. now rewrite app_nil_r in H. Qed.

(* and the scheduler can always drain it: forwarding is enabled whenever the channel of an owned instance is not empty *)
Lemma forward_progress w i sn x rest :
  c_owner w i = Some sn -> c_subq w i = x :: rest ->
  c_subq (cstep w (CForward i)) i = rest /\ c_wire (cstep w (CForward i)) sn = c_wire w sn ++ [WItem i x].
Proof. intros Ho Hq. cbn [cstep]. rewrite Ho, Hq. cbn [c_subq c_wire]. now rewrite !upd_same. Qed.

(* ---- bounded channels: the one moment at which nobody can drain a channel ----
   The channels of the code are bounded (capacity: the configured channel buffer size, at least 1) and the core task
   awaits room.  A subscription's channel has a reader only once the subscribe request has been ANSWERED (the
   forwarding task is spawned by the serve loop afterwards), so what the core puts into the new channel while it
   serves the subscribe request itself must fit: it is at most one item (the snapshot), whatever the size of the
   store. *)
Theorem subscribe_fits s o i :
  o_res (snd (step s o)) = RSub i -> (length (for_inst i (items_of (snd (step s o)))) <= 1)%nat.
Proof.
  destruct o; cbn [step fst snd out_res o_res]; try discriminate;
    try (intros Hi; exfalso; revert Hi;
         first [ destruct (do_pget s p); discriminate
               | unfold do_get; crush_op; discriminate
               | unfold do_cget; crush_op; discriminate
               | unfold do_ls; crush_op; discriminate
               | unfold do_pls; crush_op; discriminate
               | unfold do_insert; crush_op; cbn; discriminate
               | unfold do_delete; crush_op; cbn; discriminate
               | unfold do_pdelete; crush_op; cbn; discriminate
               | unfold do_publish; crush_op; cbn; discriminate
               | unfold do_spub_init; crush_op; cbn; discriminate
               | unfold do_spub, do_publish; crush_op; cbn; discriminate
               | unfold do_import; crush_op; cbn; discriminate
               | unfold do_unsubscribe; crush_op; cbn; discriminate
               | unfold do_unsubscribe_ls; crush_op; cbn; discriminate
               | unfold do_lock; crush_op; cbn; discriminate
               | unfold do_acquire; crush_op; cbn; discriminate
               | unfold do_release; crush_op; cbn; discriminate
               | apply connected_res
               | apply disconnected_res ]).
  - unfold do_subscribe. crush_op; cbn [snd o_res]; intros Hi; try discriminate; injection Hi as <-;
      unfold for_inst, items_of; cbn [o_events o_ls].
    match goal with H : _ = Ok ?a |- _ =>
      repeat match type of H with
             | (if ?b then _ else _) = _ => destruct b
             | match ?x with _ => _ end = _ => destruct x
             end; try discriminate H; injection H as <- end;
      cbn [map app filter fst snd]; rewrite ?N.eqb_refl; cbn; lia.
  - unfold do_psubscribe. crush_op; cbn [snd o_res]; intros Hi; try discriminate; injection Hi as <-;
      unfold for_inst, items_of; cbn [o_events o_ls].
    match goal with H : _ = Ok ?a |- _ =>
      repeat match type of H with
             | (if ?b then _ else _) = _ => destruct b
             | match ?x with _ => _ end = _ => destruct x
             end; try discriminate H; injection H as <- end;
      cbn [map app filter fst snd]; rewrite ?N.eqb_refl; cbn; lia.
  - unfold do_subscribe_ls. cbn [snd o_res]. intros Hi. injection Hi as <-.
    unfold for_inst, items_of. cbn [o_events o_ls map app filter fst snd]. rewrite N.eqb_refl. cbn. lia.
Qed.

(* ---- quiescent points: nothing in the api channel, every serve loop idle, every owned channel drained ---- *)
Definition quiescent (w : cw) : Prop :=
  c_api w = [] /\ (forall sn, c_task w sn = TIdle) /\ (forall i sn, c_owner w i = Some sn -> c_subq w i = []).

Theorem conc_quiescent es :
  quiescent (crun es) ->
  c_served (crun es) = c_posted (crun es) /\
  c_core (crun es) = final init (map snd (c_posted (crun es))) /\
  (forall sn, ans_proj (c_wire (crun es) sn) = mine sn (sres init (c_posted (crun es)))) /\
  (forall i sn, c_owner (crun es) i = Some sn ->
     evs_of (item_proj i (c_wire (crun es) sn)) = stream i init (map snd (c_posted (crun es)))).
Proof.
  intros (Hapi & Htask & Hq). destruct (conc_serializes es) as (Hf & Hc). rewrite Hapi, app_nil_r in Hf.
  rewrite <- Hf. split; [reflexivity|]. split; [exact Hc|]. split.
  - intros sn. pose proof (conc_answers es sn) as H. rewrite Htask in H. cbn [done_of] in H. now rewrite app_nil_r in H.
  - intros i sn Ho. exact (conc_drained es i sn Ho (Hq i sn Ho)).
Qed.
