(* Store::nmerge (import): the merged tree holds the imported entries over the old ones. *)
From WB Require Import Base.Str Base.StrFacts Base.Json Model.Key Model.Store Model.Entry Model.Core
  Proofs.StoreFacts Proofs.TreeInv Proofs.GoodNames.

Definition merge_kids (ocs kids : list (str * node entry)) : list (str * node entry) :=
  fold_left (fun kids kc => upd_child empty_node (fst kc) (fun own => merge own (snd kc)) kids) ocs kids.

Lemma merge_go_fold (ocs : list (str * node entry)) : forall kids,
  (fix go (ocs kids : list (str * node entry)) {struct ocs} : list (str * node entry) :=
     match ocs with
     | [] => kids
     | (k, c) :: ocs' => go ocs' (upd_child empty_node k (fun own => merge own c) kids)
     end) ocs kids = merge_kids ocs kids.
Proof.
  induction ocs as [|[k c] ocs IH]; intros kids; [reflexivity|].
  unfold merge_kids. cbn [fold_left fst snd]. apply IH.
Qed.

Lemma merge_unfold n ov ocs :
  merge n (Node ov ocs) =
  let v1 := match ov with Some v => Some v | None => nval n end in
  match ocs with
  | [] => Node v1 (nkids n)
  | _ => Node v1 (trim_kids (merge_kids ocs (nkids n)))
  end.
Proof.
  cbn [merge]. destruct ocs as [|[k c] ocs]; [reflexivity|]. cbn zeta. f_equal. f_equal.
  exact (merge_go_fold ((k, c) :: ocs) (nkids n)).
Qed.

Lemma Forall_merge_kids (P : node entry -> Prop) ocs : forall kids,
  Forall (fun kc => P (snd kc)) kids ->
  (forall kc own, In kc ocs -> P own -> P (merge own (snd kc))) ->
  (forall kc, In kc ocs -> P (merge empty_node (snd kc))) ->
  Forall (fun kc => P (snd kc)) (merge_kids ocs kids).
Proof.
  induction ocs as [|[k c] ocs IH]; intros kids Hk H1 H2; [exact Hk|].
  cbn [merge_kids fold_left fst snd]. apply IH.
  - apply Forall_upd_child; [assumption| |].
    + intros own Ho. exact (H1 (k, c) own (or_introl eq_refl) Ho).
    + exact (H2 (k, c) (or_introl eq_refl)).
  - intros kc own Hin. apply H1. now right.
  - intros kc Hin. apply H2. now right.
Qed.

Lemma NoDup_merge_kids ocs : forall kids, NoDup (names kids) -> NoDup (names (merge_kids ocs kids)).
Proof.
  induction ocs as [|[k c] ocs IH]; intros kids H; [exact H|].
  cbn [merge_kids fold_left fst snd]. apply IH. now apply NoDup_names_upd_child.
Qed.

Lemma find_merge_kids ocs : forall kids k2,
  NoDup (names ocs) ->
  find_child k2 (merge_kids ocs kids) =
  match find_child k2 ocs with
  | Some c => Some (merge (match find_child k2 kids with Some own => own | None => empty_node end) c)
  | None => find_child k2 kids
  end.
Proof.
  induction ocs as [|[k c] ocs IH]; intros kids k2 Hnd; [reflexivity|].
  inversion Hnd as [|? ? Hni Hnd']; subst.
  cbn [merge_kids fold_left fst snd]. fold (merge_kids ocs (upd_child empty_node k (fun own => merge own c) kids)).
  rewrite IH by assumption. cbn [find_child].
  destruct (str_eqb_spec k2 k) as [->|Hn].
  - assert (find_child k ocs = None) as -> by now apply find_child_None.
    now rewrite find_upd_child_same.
  - now rewrite find_upd_child_other.
Qed.

Theorem merge_spec (other : node entry) : forall n q,
  wfn n -> wfn other ->
  wfn (merge n other) /\
  lookup (merge n other) q = match lookup other q with Some e => Some e | None => lookup n q end.
Proof.
  induction other as [ov ocs IH] using node_ind'. intros [v cs] q Hwn Hwo.
  rewrite merge_unfold. cbn [nval nkids]. cbn zeta.
  pose proof Hwn as Hwn0. apply wfn_unfold in Hwn as [Hnd Hwc]. apply wfn_unfold in Hwo as [Hndo Hwoc].
  destruct ocs as [|kc0 ocs0] eqn:Eo.
  - split; [now apply wfn_unfold|].
    destruct q as [|k q]; [cbn; now destruct ov|].
    rewrite !lookup_cons. reflexivity.
  - rewrite <- Eo in *. clear Eo kc0 ocs0.
    assert (Hwk : Forall (fun kc => wfn (snd kc)) (merge_kids ocs cs)).
    { apply Forall_merge_kids; [assumption| |].
      - intros kc own Hin Ho. rewrite Forall_forall in IH, Hwoc.
        exact (proj1 (IH _ Hin own [] Ho (Hwoc _ Hin))).
      - intros kc Hin. rewrite Forall_forall in IH, Hwoc.
        exact (proj1 (IH _ Hin empty_node [] wfn_empty (Hwoc _ Hin))). }
    pose proof (NoDup_merge_kids ocs cs Hnd) as Hndm.
    split.
    + apply wfn_unfold. split; [now apply NoDup_names_filter|].
      apply Forall_forall. intros kc Hin. apply filter_In in Hin as [Hin _].
      rewrite Forall_forall in Hwk. now apply Hwk.
    + rewrite lookup_trim by assumption.
      destruct q as [|k q]; [cbn; now destruct ov|].
      rewrite !lookup_cons, find_merge_kids by assumption.
      destruct (find_child k ocs) as [c|] eqn:Ef.
      * pose proof (find_child_In _ _ _ Ef) as Hin. rewrite Forall_forall in IH, Hwoc.
        destruct (find_child k cs) as [own|] eqn:Ec.
        -- rewrite Forall_forall in Hwc. pose proof (Hwc _ (find_child_In _ _ _ Ec)) as Hwown.
           exact (proj2 (IH _ Hin own q Hwown (Hwoc _ Hin))).
        -- pose proof (proj2 (IH _ Hin empty_node q wfn_empty (Hwoc _ Hin))) as Hl. cbn [snd] in Hl.
           rewrite Hl. now rewrite lookup_empty.
      * reflexivity.
Qed.

Theorem cleann_merge (other : node entry) : forall n, cleann n -> cleann (merge n other).
Proof.
  induction other as [ov ocs IH] using node_ind'. intros [v cs] Hcl.
  rewrite merge_unfold. cbn [nval nkids]. cbn zeta.
  destruct ocs as [|kc0 ocs0] eqn:Eo; [exact Hcl|].
  rewrite <- Eo in *. apply cleann_trim.
  apply Forall_merge_kids.
  - apply cleann_unfold in Hcl. eapply Forall_impl; [|exact Hcl]. now intros kc [_ H].
  - intros kc own Hin Ho. rewrite Forall_forall in IH. exact (IH _ Hin own Ho).
  - intros kc Hin. rewrite Forall_forall in IH. exact (IH _ Hin empty_node I).
Qed.

Lemma goodn_merge_kids ocs : forall kids,
  Forall (fun kc => good_seg (fst kc) /\ goodn (snd kc)) kids ->
  Forall (fun kc => good_seg (fst kc)) ocs ->
  (forall kc own, In kc ocs -> goodn own -> goodn (merge own (snd kc))) ->
  Forall (fun kc => good_seg (fst kc) /\ goodn (snd kc)) (merge_kids ocs kids).
Proof.
  induction ocs as [|[k c] ocs IH]; intros kids Hk Hg H1; [exact Hk|].
  inversion Hg as [|? ? Hgk Hg']; subst. cbn [fst] in Hgk.
  cbn [merge_kids fold_left fst snd]. apply IH; [|assumption|].
  - clear IH. induction Hk as [|[k' c'] kids [Hk1 Hk2] Hks IHk]; cbn.
    + constructor; [|constructor]. split; [assumption|].
      exact (H1 (k, c) empty_node (or_introl eq_refl) I).
    + destruct (str_eqb k k'); constructor; cbn [fst snd]; try assumption.
      * split; [assumption|]. exact (H1 (k, c) c' (or_introl eq_refl) Hk2).
      * now split.
  - intros kc own Hin. apply H1. now right.
Qed.

Theorem goodn_merge (other : node entry) : forall n, goodn n -> goodn other -> goodn (merge n other).
Proof.
  induction other as [ov ocs IH] using node_ind'. intros [v cs] Hg Hgo.
  rewrite merge_unfold. cbn [nval nkids]. cbn zeta.
  destruct ocs as [|kc0 ocs0] eqn:Eo; [exact Hg|].
  rewrite <- Eo in *. apply goodn_filter.
  apply goodn_unfold in Hgo. apply goodn_merge_kids.
  - exact (proj1 (goodn_unfold v cs) Hg).
  - eapply Forall_impl; [|exact Hgo]. now intros kc [H _].
  - intros kc own Hin Ho. rewrite Forall_forall in IH, Hgo. exact (IH _ Hin own Ho (proj2 (Hgo _ Hin))).
Qed.
