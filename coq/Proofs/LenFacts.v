(* The cached entry count (Store.len, what the `len` request answers) is the number of keys that hold a
   value, in every reachable state. *)
From WB Require Import Base.Str Base.StrFacts Base.Json Model.Key Model.Consts Model.Store Model.Match Model.Subs
  Model.Entry Model.Core Proofs.StoreFacts Proofs.TreeInv Proofs.CoreFacts Proofs.C07Proof.
From Coq Require Import Lia.

Local Arguments N.add : simpl never.
Local Arguments N.sub : simpl never.

Definition sum_counts {V} (cs : list (str * node V)) : N :=
  fold_right (fun kc a => count_values (snd kc) + a) 0 cs.
Definition own {V} (v : option V) : N := match v with Some _ => 1 | None => 0 end.

Lemma count_node {V} (v : option V) cs : count_values (Node v cs) = own v + sum_counts cs.
Proof.
  cbn [count_values]. unfold own. f_equal.
  induction cs as [|[k c] cs IH]; cbn [fold_right sum_counts snd]; [reflexivity|].
  unfold sum_counts in IH. now rewrite IH.
Qed.

Lemma sum_cons {V} k (c : node V) cs : sum_counts ((k, c) :: cs) = count_values c + sum_counts cs.
Proof. reflexivity. Qed.

Lemma count_obsolete {V} (c : node V) : is_obsolete c = true -> count_values c = 0.
Proof. destruct c as [[x|] [|kc cs]]; try discriminate. reflexivity. Qed.

Lemma sum_trim {V} (cs : list (str * node V)) : sum_counts (trim_kids cs) = sum_counts cs.
Proof.
  unfold trim_kids. induction cs as [|[k c] cs IH]; [reflexivity|]. cbn [filter snd].
  destruct (is_obsolete c) eqn:E; cbn [negb]; rewrite ?sum_cons, IH; [|reflexivity].
  rewrite (count_obsolete c E). lia.
Qed.

Lemma sum_mod {V} k (f : node V -> node V) cs c :
  find_child k cs = Some c ->
  sum_counts (mod_child k f cs) + count_values c = sum_counts cs + count_values (f c).
Proof.
  induction cs as [|[k' c'] cs IH]; cbn [find_child mod_child]; [discriminate|].
  destruct (str_eqb k k').
  - intros [= ->]. rewrite !sum_cons. lia.
  - intros H. rewrite !sum_cons. specialize (IH H). lia.
Qed.

Lemma sum_upd {V} (d : node V) k f cs :
  match find_child k cs with
  | Some c => sum_counts (upd_child d k f cs) + count_values c = sum_counts cs + count_values (f c)
  | None => sum_counts (upd_child d k f cs) = sum_counts cs + count_values (f d)
  end.
Proof.
  induction cs as [|[k' c'] cs IH]; cbn [find_child upd_child].
  - rewrite sum_cons. change (@sum_counts V []) with 0. lia.
  - destruct (str_eqb k k'); [rewrite !sum_cons; lia|].
    rewrite !sum_cons. destruct (find_child k cs); lia.
Qed.

Definition there {V} (o : option V) : N := match o with Some _ => 1 | None => 0 end.

Theorem count_set_at {V} p (e : V) : forall n,
  count_values (set_at p e n) + there (lookup n p) = count_values n + 1.
Proof.
  induction p as [|k p IH]; intros [v cs].
  - cbn [set_at nkids]. rewrite !count_node, lookup_nil. cbn [nval]. destruct v; cbn; lia.
  - cbn [set_at nval nkids]. rewrite !count_node, lookup_cons.
    pose proof (sum_upd empty_node k (set_at p e) cs) as H.
    destruct (find_child k cs) as [c|].
    + specialize (IH c). lia.
    + specialize (IH empty_node). rewrite lookup_empty in IH. cbn [there] in *.
      change (count_values (@empty_node V)) with 0 in IH. lia.
Qed.

Theorem count_del_at {V} p : forall (n : node V),
  count_values (del_at p n) + there (lookup n p) = count_values n.
Proof.
  induction p as [|k p IH]; intros [v cs].
  - cbn [del_at nkids]. rewrite !count_node, lookup_nil. cbn [nval]. destruct v; cbn; lia.
  - cbn [del_at nval nkids]. rewrite lookup_cons. destruct (find_child k cs) as [c|] eqn:Ef.
    + rewrite !count_node, sum_trim. pose proof (sum_mod k (del_at p) cs c Ef). specialize (IH c). lia.
    + cbn [there]. lia.
Qed.

Lemma count_entries {V} (n : node V) : forall trav, N.of_nat (length (entries n trav)) = count_values n.
Proof.
  induction n as [v cs IH] using node_ind'. intros trav.
  rewrite count_node. cbn [entries]. rewrite app_length, map_length, Nat2N.inj_add.
  assert (E : N.of_nat (length (opt_list v)) = own v) by now destruct v. rewrite E. f_equal.
  induction IH as [|[k c] cs Hc Hcs IHcs]; [reflexivity|].
  rewrite app_length, Nat2N.inj_add, sum_cons. cbn [snd] in Hc. now rewrite Hc, IHcs.
Qed.

Theorem count_delm {V} (n : node V) : forall trav p,
  count_values (dr_node (delm n trav p)) + N.of_nat (length (dr_matches (delm n trav p))) = count_values n.
Proof.
  induction n as [v cs IH] using node_ind'. intros trav p.
  destruct p as [|[s| |] tail].
  - rewrite delm_nil. cbn [dr_node dr_matches nkids nval]. rewrite map_length, !count_node.
    destruct v; cbn; lia.
  - rewrite delm_reg. destruct (find_child s cs) as [c|] eqn:Ef.
    + cbv zeta. cbn [dr_node dr_matches]. rewrite !count_node, sum_trim.
      pose proof (sum_mod s (fun _ => dr_node (delm c (trav ++ [s]) tail)) cs c Ef) as H.
      rewrite Forall_forall in IH. specialize (IH _ (find_child_In _ _ _ Ef) (trav ++ [s]) tail).
      cbn [snd] in IH. lia.
    + cbn [dr_node dr_matches length]. rewrite !count_node, sum_trim. lia.
  - rewrite delm_wild. cbv zeta. cbn [dr_node dr_matches]. rewrite !count_node, sum_trim.
    assert (E : sum_counts (map (fun x => (fst (fst x), dr_node (snd x))) (wild_rs trav tail cs)) +
                N.of_nat (length (flat_map (fun x => dr_matches (snd x)) (wild_rs trav tail cs))) = sum_counts cs).
    { unfold wild_rs. induction IH as [|[k c] cs Hc Hcs IHcs]; [reflexivity|].
      cbn [map flat_map fst snd]. rewrite app_length, Nat2N.inj_add, !sum_cons.
      specialize (Hc (trav ++ [k]) tail). cbn [snd] in Hc. lia. }
    lia.
  - destruct tail as [|s tail].
    + rewrite delm_multi. cbn [dr_node dr_matches]. rewrite <- entries_collect, count_entries.
      rewrite count_node. cbn. lia.
    + rewrite delm_multi_bad. cbn [dr_node dr_matches length]. lia.
Qed.

(* ------------------------------------------------------------------ the invariant *)

Definition LenInv (s : core) : Prop := len s = count_values (data s).

Lemma decide_existed cur new f ex ch e' :
  decide cur new f = DOk ex ch e' -> there cur = if ex then 1 else 0.
Proof.
  unfold decide, bump. intros H.
  destruct cur as [[c|c vc]|], new as [v|v n]; cbn [there];
    repeat match type of H with
           | context [if ?x then _ else _] => destruct x
           end; try discriminate; injection H as <- _ _; reflexivity.
Qed.

Lemma insert_len s c k e f : LenInv s -> LenInv (fst (do_insert s c k e f)).
Proof.
  unfold LenInv, do_insert. intros H.
  destruct (check_read_only k c); [exact H|]. destruct (parse_segments k) as [p|]; [|exact H].
  destruct (special_value_bad k (entry_val e)); [exact H|].
  destruct (decide (lookup (data s) p) e f) as [ex ch e'| |] eqn:Ed; [|exact H|exact H].
  cbn [fst len data set_data]. pose proof (count_set_at p e' (data s)) as Hc.
  rewrite (decide_existed _ _ _ _ _ _ Ed) in Hc. destruct ex; lia.
Qed.

Lemma delete_len s c k : LenInv s -> LenInv (fst (do_delete s c k)).
Proof.
  unfold LenInv, do_delete. intros H.
  destruct (check_read_only k c); [exact H|]. destruct (parse_segments k) as [p|]; [|exact H].
  destruct (negb (root_ok (del_at p (data s)))); [exact H|].
  pose proof (count_del_at p (data s)) as Hc.
  destruct (lookup (data s) p); cbn [fst len data set_data there] in *; lia.
Qed.

Lemma pdelete_len s c sk p : LenInv s -> LenInv (fst (do_pdelete s c sk p)).
Proof.
  unfold LenInv, do_pdelete. intros H.
  destruct (if sk then None else check_read_only p c); [exact H|].
  destruct (reach_bad (data s) (kseg_parse p)); [exact H|].
  destruct (negb (root_ok (dr_node (delm (data s) [] (kseg_parse p))))); [exact H|].
  pose proof (count_delm (data s) [] (kseg_parse p)) as Hc.
  destruct (notify_deleted _ _); cbn [fst len data set_data]; lia.
Qed.

Lemma import_len s j : LenInv (fst (do_import s j)) \/ fst (do_import s j) = s.
Proof.
  unfold LenInv, do_import. destruct (dec_persisted j); [|now right]. left.
  destruct (notify_imported _ _); reflexivity.
Qed.

Lemma data_same_len s s' : data s' = data s -> len s' = len s -> LenInv s -> LenInv s'.
Proof. unfold LenInv. intros -> ->. auto. Qed.

Theorem step_len s o : LenInv s -> LenInv (fst (step s o)).
Proof.
  intros H. destruct o; cbn [step fst]; try exact H.
  - now apply insert_len.
  - now apply insert_len.
  - now apply delete_len.
  - now apply pdelete_len.
  - unfold do_publish. now destruct (parse_segments k).
  - unfold do_spub_init. crush_op; cbn [fst]; try exact H; (apply (data_same_len s); [reflexivity|reflexivity|exact H]).
  - unfold do_spub.
    match goal with |- context [match ?x with Some _ => _ | None => _ end] => destruct x as [key|] end; [|exact H].
    unfold do_publish. now destruct (parse_segments key).
  - destruct (import_len s j) as [H'|E]; [exact H'|rewrite E; exact H].
  - unfold do_subscribe. crush_op; cbn [fst]; try exact H; (apply (data_same_len s); [reflexivity|reflexivity|exact H]).
  - unfold do_psubscribe. crush_op; cbn [fst]; try exact H; (apply (data_same_len s); [reflexivity|reflexivity|exact H]).
  - unfold do_unsubscribe. crush_op; cbn [fst]; try exact H; (apply (data_same_len s); [reflexivity|reflexivity|exact H]).
  - unfold do_unsubscribe_ls. crush_op; cbn [fst]; try exact H; (apply (data_same_len s); [reflexivity|reflexivity|exact H]).
  - unfold do_lock. crush_op; cbn [fst]; try exact H; (apply (data_same_len s); [reflexivity|reflexivity|exact H]).
  - unfold do_acquire. crush_op; cbn [fst]; try exact H; (apply (data_same_len s); [reflexivity|reflexivity|exact H]).
  - unfold do_release. crush_op; cbn [fst]; try exact H; (apply (data_same_len s); [reflexivity|reflexivity|exact H]).
  - (* connected *)
    unfold do_connected. destruct (N.eqb c 0); [exact H|]. destruct (existsb (N.eqb c) (clients s)); [exact H|].
    cbn [fst]. apply seq2_preserves; [apply seq2_preserves|].
    + apply insert_len. (apply (data_same_len s); [reflexivity|reflexivity|exact H]).
    + intros s1 H1. now apply insert_len.
    + intros s1 H1. now apply insert_len.
  - (* disconnected *)
    unfold do_disconnected. destruct (N.eqb c 0); [exact H|].
    destruct (match assoc_get N.eqb c (locked_keys (set_spub s (filter (fun kv => negb (N.eqb (fst (fst kv)) c)) (spub_keys s)))) with
              | Some paths => unlock_paths (locks (set_spub s (filter (fun kv => negb (N.eqb (fst (fst kv)) c)) (spub_keys s)))) c paths
              | None => (locks (set_spub s (filter (fun kv => negb (N.eqb (fst (fst kv)) c)) (spub_keys s))), [], [], false)
              end) as [[[l' g] x] cr].
    destruct cr; [exact H|]. cbn [fst].
    assert (Hu : forall s0 id, LenInv s0 -> LenInv (fst (do_unsubscribe s0 (fst id) (snd id)))).
    { intros s0 id H0. unfold do_unsubscribe. crush_op; cbn [fst]; try exact H0; (apply (data_same_len s0); [reflexivity|reflexivity|exact H0]). }
    assert (Hul : forall s0 id, LenInv s0 -> LenInv (fst (do_unsubscribe_ls s0 (fst id) (snd id)))).
    { intros s0 id H0. unfold do_unsubscribe_ls. crush_op; cbn [fst]; try exact H0; (apply (data_same_len s0); [reflexivity|reflexivity|exact H0]). }
    apply seq2_preserves; [apply insert_len; apply (data_same_len s); [reflexivity|reflexivity|exact H]|].
    intros s1 H1. apply seq2_preserves; [apply iter_ops_preserves; [exact Hu|exact H1]|].
    intros s2 H2. apply seq2_preserves; [apply iter_ops_preserves; [exact Hul|exact H2]|].
    intros s3 H3. apply seq2_preserves; [now apply pdelete_len|].
    intros s4 H4. apply seq2_preserves.
    + apply iter_ops_preserves; [|exact H4]. intros s5 y H5. now apply pdelete_len.
    + intros s5 H5. apply iter_ops_preserves; [|exact H5]. intros s6 y H6. now apply insert_len.
Qed.

Theorem len_is_count ops : len (final init ops) = count_values (data (final init ops)).
Proof.
  change (LenInv (final init ops)).
  induction ops as [|o ops IH] using rev_ind; [reflexivity|].
  unfold final. rewrite fold_left_app. cbn [fold_left]. now apply step_len.
Qed.

(* the count is the number of keys that hold a value *)
Lemma NoDup_app_intro' {A} (a b : list A) :
  NoDup a -> NoDup b -> (forall x, In x a -> ~ In x b) -> NoDup (a ++ b).
Proof.
  induction a as [|x a IH]; cbn; intros Ha Hb Hd; [exact Hb|].
  apply NoDup_cons_iff in Ha as (Hx & Ha'). constructor.
  - rewrite in_app_iff. intros [H|H]; [contradiction|]. apply (Hd x); [now left|exact H].
  - apply IH; [exact Ha'|exact Hb|]. intros y Hy. apply Hd. now right.
Qed.

Lemma NoDup_map_inj {A B} (f : A -> B) l : (forall x y, f x = f y -> x = y) -> NoDup l -> NoDup (map f l).
Proof.
  intros Hf. induction 1 as [|x l Hx Hnd IH]; cbn; constructor; [|exact IH].
  intros Hin. apply in_map_iff in Hin as (y & E & Hy). apply Hf in E. now subst.
Qed.

Lemma entries_fix {V} (v : option V) cs trav :
  entries (Node v cs) trav =
  map (fun x => (trav, x)) (opt_list v) ++ flat_map (fun kc => entries (snd kc) (trav ++ [fst kc])) cs.
Proof.
  cbn [entries]. f_equal. induction cs as [|[k c] cs IH]; cbn [flat_map fst snd]; [reflexivity|]. now rewrite IH.
Qed.

Lemma entries_prefix {V} (c : node V) : forall tr q, In q (map fst (entries c tr)) -> exists r, q = tr ++ r.
Proof.
  induction c as [v cs IH] using node_ind'. intros tr q Hin.
  rewrite entries_fix, map_app, map_map in Hin. apply in_app_iff in Hin as [Hin|Hin].
  - apply in_map_iff in Hin as (x & <- & _). exists []. now rewrite app_nil_r.
  - apply in_map_iff in Hin as ([q' e] & <- & Hin). apply in_flat_map in Hin as ([k c] & Hkc & Hin).
    rewrite Forall_forall in IH. cbn [fst snd] in *.
    destruct (IH _ Hkc (tr ++ [k]) q') as (r & ->).
    + apply in_map_iff. now exists (q', e).
    + exists (k :: r). now rewrite <- app_assoc.
Qed.

Lemma entries_nodup {V} (n : node V) : forall trav, wfn n -> NoDup (map fst (entries n trav)).
Proof.
  induction n as [v cs IH] using node_ind'. intros trav Hw.
  apply wfn_unfold in Hw as [Hnd Hwc]. rewrite entries_fix, map_app, map_map. cbn [fst].
  apply NoDup_app_intro'.
  - destruct v; cbn; constructor; [intros []|constructor].
  - clear v. induction cs as [|[k c] cs IHcs]; [constructor|].
    apply Forall_cons_iff in IH as (Hc & Hcs). apply Forall_cons_iff in Hwc as (Hwk & Hwcs).
    cbn [names map fst] in Hnd. apply NoDup_cons_iff in Hnd as (Hk & Hnd').
    cbn [flat_map fst snd] in *. rewrite map_app. apply NoDup_app_intro'.
    + now apply Hc.
    + now apply IHcs.
    + intros q Hq1 Hq2. destruct (entries_prefix _ _ _ Hq1) as (r1 & ->).
      apply in_map_iff in Hq2 as ([q' e] & E & Hq2). cbn [fst] in E. subst q'.
      apply in_flat_map in Hq2 as ([k2 c2] & Hkc & Hq2). cbn [fst snd] in Hq2.
      destruct (entries_prefix c2 (trav ++ [k2]) (((trav ++ [k]) ++ r1))) as (r2 & E).
      { apply in_map_iff. now exists ((trav ++ [k]) ++ r1, e). }
      rewrite <- !app_assoc in E. apply app_inv_head in E. injection E as E _.
      apply Hk. subst k2. apply in_map_iff. now exists (k, c2).
  - intros q Hq1 Hq2. apply in_map_iff in Hq1 as (x & <- & _).
    apply in_map_iff in Hq2 as ([q' e] & E & Hq2). cbn [fst] in E. subst q'.
    apply in_flat_map in Hq2 as ([k c] & _ & Hq2). cbn [fst snd] in Hq2.
    destruct (entries_prefix c (trav ++ [k]) trav) as (r & E).
    { apply in_map_iff. now exists (trav, e). }
    rewrite <- app_assoc in E. rewrite <- (app_nil_r trav) in E at 1. apply app_inv_head in E. discriminate.
Qed.

Theorem count_is_keys (n : node entry) :
  wfn n ->
  exists keys, NoDup keys /\ (forall q, In q keys <-> lookup n q <> None) /\
               count_values n = N.of_nat (length keys).
Proof.
  intros Hw. exists (map fst (entries n [])). split; [|split].
  - now apply entries_nodup.
  - intros q. rewrite entries_collect. split.
    + intros Hin. apply in_map_iff in Hin as ([q' e] & <- & Hin).
      apply (collect_spec _ _ _ _ _ Hw) in Hin as (k' & -> & Hl & _). cbn [app fst]. congruence.
    + intros Hne. destruct (lookup n q) as [e|] eqn:El; [|congruence].
      apply in_map_iff. exists (q, e). split; [reflexivity|].
      apply (collect_spec _ _ _ _ _ Hw). exists q. split; [reflexivity|]. split; [exact El|]. now destruct q.
  - rewrite map_length. symmetry. apply count_entries.
Qed.
