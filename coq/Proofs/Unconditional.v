(* The history theorems without their "no request crashes" hypotheses: by NoCrash.v no request of a history of safe
   requests (everything except a cset at version u64::MAX, an import of a tree with irregular names, and the nil
   client id at session start or end) takes a crash branch. *)
From WB Require Import Base.Str Base.StrFacts Base.Json Model.Key Model.Consts Model.Store Model.Match Model.Subs
  Model.Entry Model.Core Spec.MapSpec Proofs.StoreFacts Proofs.TreeInv Proofs.GoodNames Proofs.SubsFacts Proofs.MatchFacts
  Proofs.CoreFacts Proofs.C03Proof Proofs.StreamProof Proofs.C07Proof Proofs.LenFacts Proofs.C01Proof Proofs.C17Proof
  Proofs.LockFacts Proofs.LockHistory Proofs.SessionEnd Proofs.StreamAll Proofs.FoldProof Proofs.NoCrash.
From Coq Require Import Lia.

Lemma safe_import_ok os : Forall safe_op os -> Forall import_ok os.
Proof. intros H. eapply Forall_impl; [|exact H]. now intros o (_ & Hi). Qed.

Lemma nocrash_run s os : nocrash (trace s os) -> no_crash_run s os.
Proof.
  revert s. induction os as [|o os IH]; intros s H; [exact I|]. cbn [no_crash_run]. split.
  - apply is_not_crash. apply H. now left.
  - apply IH. intros x Hx. apply H. now right.
Qed.

Lemma trace_app' a : forall s b, trace s (a ++ b) = trace s a ++ trace (final s a) b.
Proof. induction a as [|o a IH]; intros s b; [reflexivity|]. cbn [app trace]. now rewrite IH. Qed.

(* after any safe history the invariants hold, and what follows does not crash either *)
Theorem safe_prefix pre os :
  Forall safe_op (pre ++ os) ->
  K (final init pre) /\ no_crash_run (final init pre) os /\ Forall import_ok os.
Proof.
  intros H. pose proof (no_request_crashes _ H) as Hn. rewrite trace_app' in Hn.
  apply Forall_app in H as (Hp & Ho).
  assert (Hn1 : nocrash (trace init pre)) by (intros x Hx; apply Hn, in_app_iff; now left).
  assert (Hn2 : nocrash (trace (final init pre) os)) by (intros x Hx; apply Hn, in_app_iff; now right).
  split; [|split; [now apply nocrash_run|now apply safe_import_ok]].
  apply (reach_K pre init K_init (safe_import_ok pre Hp)). now apply nocrash_run.
Qed.

(* C03: a subscription registered after [pre], followed through [os] *)
Theorem stream_all_safe pre os sb :
  Forall safe_op (pre ++ os) -> Registered (final init pre) sb -> Forall (foreign sb) os ->
  stream (s_inst sb) (final init pre) os = wanted_stream sb (final init pre) os.
Proof.
  intros H HR Hf. destruct (safe_prefix pre os H) as (HK & Hnc & Hi). now apply stream_all.
Qed.

Theorem silent_all_safe pre os i :
  Forall safe_op (pre ++ os) -> Gone (final init pre) i -> stream i (final init pre) os = [].
Proof.
  intros H HG. destruct (safe_prefix pre os H) as (HK & Hnc & Hi). now apply silent_all.
Qed.

Theorem fold_is_pget_safe pre os sb F :
  Forall safe_op (pre ++ os) -> s_pstate sb = true -> Registered (final init pre) sb ->
  Forall quiet_kind os -> Forall (foreign sb) os -> AgreeM sb (val_of (final init pre)) F ->
  AgreeM sb (val_of (final (final init pre) os)) (fold_evs F (stream (s_inst sb) (final init pre) os)).
Proof.
  intros H Hps HR Hq Hf HA. destruct (safe_prefix pre os H) as (HK & Hnc & Hi). now apply fold_is_pget.
Qed.

(* C06: confirm-once along every safe history *)
Theorem confirm_once_safe ops :
  Forall safe_op ops ->
  let s := final init ops in let R := resolved (trace init ops) in
  NoDup R /\
  (forall r, In r R -> r < next_req s /\ forall q c, ~ cpend s q c r) /\
  (forall r, r < next_req s -> In r R \/ exists q c, cpend s q c r).
Proof. intros H. apply confirm_once. now apply no_request_crashes. Qed.
