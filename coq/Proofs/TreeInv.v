(* Cleanliness (no obsolete node below the root = Store's debug_assert!(is_clean)), what ls
   returns, and the cached entry count. *)
From WB Require Import Base.Str Base.StrFacts Model.Key Model.Store Model.Match Proofs.StoreFacts.

Fixpoint cleann {V} (n : node V) : Prop :=
  match n with
  | Node _ cs =>
      (fix go (cs : list (str * node V)) : Prop :=
         match cs with
         | [] => True
         | (_, c) :: cs' => (is_obsolete c = false /\ cleann c) /\ go cs'
         end) cs
  end.

Lemma cleann_unfold {V} (v : option V) cs :
  cleann (Node v cs) <-> Forall (fun kc => is_obsolete (snd kc) = false /\ cleann (snd kc)) cs.
Proof.
  cbn [cleann]. induction cs as [|[k c] cs IH].
  - split; [constructor|exact (fun _ => I)].
  - split.
    + intros [H1 H2]. constructor; [exact H1|now apply IH].
    + intros H. inversion H; subst. split; [assumption|now apply IH].
Qed.

(* the Rust predicate: is_clean c <-> c is not obsolete and everything below it is clean *)
Lemma is_clean_spec {V} (n : node V) :
  is_clean n = true <-> is_obsolete n = false /\ cleann n.
Proof.
  induction n as [v cs IH] using node_ind'.
  destruct cs as [|[k c] cs].
  - cbn. destruct v; split; try (intros [? ?]); try discriminate; auto.
  - assert (E : is_clean (Node v ((k, c) :: cs)) = forallb (fun kc => is_clean (snd kc)) ((k, c) :: cs)).
    { cbn [is_clean forallb snd]. f_equal. clear IH.
      induction cs as [|[k' c'] cs IHl]; cbn [forallb snd]; [reflexivity|]. now rewrite IHl. }
    rewrite E, forallb_forall, cleann_unfold, Forall_forall. rewrite Forall_forall in IH.
    split.
    + intros H. split; [now destruct v|]. intros kc Hin. apply IH; [assumption|]. now apply H.
    + intros [_ H] kc Hin. apply IH; [assumption|]. now apply H.
Qed.

Lemma root_ok_spec {V} (n : node V) : root_ok n = true <-> cleann n.
Proof.
  destruct n as [v cs]. unfold root_ok. cbn [nkids]. destruct cs as [|kc cs].
  - split; [intros _; exact I|reflexivity].
  - rewrite is_clean_spec. split; [now intros [_ H]|]. intros H. split; [|assumption]. now destruct v.
Qed.

(* a clean, non-obsolete node has an entry at or below it *)
Lemma clean_has_entry {V} (n : node V) :
  is_obsolete n = false -> cleann n -> exists q e, lookup n q = Some e.
Proof.
  induction n as [v cs IH] using node_ind'. intros Hno Hcl.
  destruct v as [e|].
  - exists [], e. reflexivity.
  - destruct cs as [|[k c] cs]; [discriminate|].
    apply cleann_unfold in Hcl. inversion Hcl as [|? ? [Hc1 Hc2] _]; subst. cbn [snd] in *.
    inversion IH as [|? ? IHc _]; subst. cbn [snd] in IHc.
    destruct (IHc Hc1 Hc2) as (q & e & Hl).
    exists (k :: q), e. rewrite lookup_cons. cbn. now rewrite str_eqb_refl.
Qed.

Lemma get_node_app {V} (n : node V) p : forall r,
  get_node n (p ++ r) = match get_node n p with Some m => get_node m r | None => None end.
Proof.
  revert n. induction p as [|k p IH]; intros n r; [reflexivity|].
  cbn. destruct (find_child k (nkids n)); [apply IH|reflexivity].
Qed.

Lemma lookup_app {V} (n : node V) p r :
  lookup n (p ++ r) = match get_node n p with Some m => lookup m r | None => None end.
Proof. unfold lookup. rewrite get_node_app. now destruct (get_node n p). Qed.

Lemma get_node_inv {V} (n : node V) p : forall m,
  wfn n -> cleann n -> get_node n p = Some m ->
  wfn m /\ cleann m /\ (p <> [] -> is_obsolete m = false).
Proof.
  revert n. induction p as [|k p IH]; intros [v cs] m Hwf Hcl Hg.
  - injection Hg as <-. split; [assumption|]. split; [assumption|]. intros H. now exfalso.
  - cbn in Hg. destruct (find_child k cs) as [c|] eqn:Ef; [|discriminate].
    apply find_child_In in Ef. apply wfn_unfold in Hwf as [_ Hwfc].
    apply cleann_unfold in Hcl. rewrite Forall_forall in Hwfc, Hcl.
    specialize (Hwfc _ Ef). destruct (Hcl _ Ef) as [Hno Hclc]. cbn [snd] in *.
    destruct (IH c m Hwfc Hclc Hg) as (H1 & H2 & H3). repeat split; try assumption.
    intros _. destruct p as [|k0 p0]; [|apply H3; discriminate]. cbn in Hg. now injection Hg as <-.
Qed.

(* ls: exactly the distinct next segments of the keys stored below the parent *)
Theorem ls_exact {V} (n : node V) P :
  wfn n -> cleann n ->
  match ls_at n P with
  | Some l => NoDup l /\ forall x, In x l <-> exists q e, lookup n (P ++ x :: q) = Some e
  | None => forall q, lookup n (P ++ q) = None
  end.
Proof.
  intros Hwf Hcl. unfold ls_at. destruct (get_node n P) as [m|] eqn:Eg.
  - destruct (get_node_inv _ _ _ Hwf Hcl Eg) as (Hwm & Hcm & _).
    destruct m as [v cs]. cbn [nkids]. apply wfn_unfold in Hwm as [Hnd Hwc].
    apply cleann_unfold in Hcm. rewrite Forall_forall in Hcm.
    split; [assumption|]. intros x. split.
    + intros Hin. unfold names in Hin. apply in_map_iff in Hin as ([k c] & <- & Hin). cbn [fst].
      destruct (Hcm _ Hin) as [Hno Hcc]. cbn [snd] in *.
      destruct (clean_has_entry c Hno Hcc) as (q & e & Hl).
      exists q, e. rewrite lookup_app, Eg, lookup_cons, (In_find_child _ _ _ Hnd Hin). exact Hl.
    + intros (q & e & Hl). rewrite lookup_app, Eg, lookup_cons in Hl.
      destruct (find_child x cs) as [c|] eqn:Ef; [|discriminate].
      apply find_child_In in Ef. change x with (fst (x, c)). now apply in_map.
  - intros q. now rewrite lookup_app, Eg.
Qed.

(* and ls reports "no such value" exactly when nothing is stored at or below the parent *)
Theorem ls_none_iff {V} (n : node V) P :
  wfn n -> cleann n -> P <> [] ->
  (ls_at n P = None <-> forall q, lookup n (P ++ q) = None).
Proof.
  intros Hwf Hcl Hne. split.
  - intros H. pose proof (ls_exact n P Hwf Hcl) as G. now rewrite H in G.
  - intros H. unfold ls_at. destruct (get_node n P) as [m|] eqn:Eg; [|reflexivity].
    destruct (get_node_inv _ _ _ Hwf Hcl Eg) as (Hwm & Hcm & Hno).
    destruct (clean_has_entry m (Hno Hne) Hcm) as (q & e & Hl).
    specialize (H q). rewrite lookup_app, Eg in H. congruence.
Qed.

(* ------------------------------------------------------------------ preservation of cleanliness *)

Lemma set_at_not_obsolete {V} p (e : V) n : is_obsolete (set_at p e n) = false.
Proof.
  destruct p as [|k p]; destruct n as [v cs]; [reflexivity|].
  cbn [set_at nval nkids]. destruct cs as [|[k' c] cs]; cbn; [now destruct v|].
  destruct (str_eqb k k'); now destruct v.
Qed.

Theorem cleann_set_at {V} p (e : V) : forall n, cleann n -> cleann (set_at p e n).
Proof.
  induction p as [|k p IH]; intros [v cs] Hcl.
  - exact Hcl.
  - cbn [set_at nval nkids]. apply cleann_unfold in Hcl. apply cleann_unfold.
    apply (Forall_upd_child (fun c => is_obsolete c = false /\ cleann c)); [assumption| |].
    + intros c [_ Hc]. split; [apply set_at_not_obsolete|now apply IH].
    + split; [apply set_at_not_obsolete|]. apply IH. exact I.
Qed.

Lemma cleann_trim {V} (v : option V) cs :
  Forall (fun kc => cleann (snd kc)) cs -> cleann (Node v (trim_kids cs)).
Proof.
  intros H. apply cleann_unfold. apply Forall_forall. intros kc Hin.
  apply filter_In in Hin as [Hin Hno]. apply negb_true_iff in Hno. split; [assumption|].
  rewrite Forall_forall in H. now apply H.
Qed.

Theorem cleann_del_at {V} p : forall (n : node V), cleann n -> cleann (del_at p n).
Proof.
  induction p as [|k p IH]; intros [v cs] Hcl.
  - exact Hcl.
  - cbn [del_at nkids nval]. destruct (find_child k cs); [|assumption].
    apply cleann_trim. apply cleann_unfold in Hcl.
    apply (Forall_mod_child (fun c => cleann c)); [|exact IH].
    eapply Forall_impl; [|exact Hcl]. now intros kc [_ H].
Qed.

Theorem cleann_delm {V} (n : node V) : forall trav p, cleann n -> cleann (dr_node (delm n trav p)).
Proof.
  induction n as [v cs IH] using node_ind'. intros trav p Hcl.
  assert (Hk : Forall (fun kc => cleann (snd kc)) cs).
  { apply cleann_unfold in Hcl. eapply Forall_impl; [|exact Hcl]. now intros kc [_ H]. }
  destruct p as [|s p].
  - rewrite delm_nil. exact Hcl.
  - destruct s as [s| |].
    + rewrite delm_reg. destruct (find_child s cs) as [c|] eqn:Ef; cbn [dr_node].
      * apply cleann_trim. apply (Forall_mod_child (fun c => cleann c)); [assumption|].
        intros _ _. rewrite Forall_forall in IH, Hk. pose proof (find_child_In _ _ _ Ef) as Hin.
        exact (IH _ Hin _ _ (Hk _ Hin)).
      * now apply cleann_trim.
    + rewrite delm_wild. cbn [dr_node]. apply cleann_trim. unfold wild_rs. rewrite map_map. cbn [fst snd].
      apply Forall_forall. intros kc Hin. apply in_map_iff in Hin as ([k c] & <- & Hin). cbn [fst snd].
      rewrite Forall_forall in IH, Hk. exact (IH _ Hin _ _ (Hk _ Hin)).
    + destruct p as [|s' p].
      * rewrite delm_multi. exact I.
      * now rewrite delm_multi_bad.
Qed.
