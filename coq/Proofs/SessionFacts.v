(* The answer table of the protocol handlers. *)
From WB Require Import Base.Str Base.Json Model.Key Model.Store Model.Entry Model.Core Model.Codec Model.Auth Model.Session.

Definition smsg_tid (a : smsg) : option N :=
  match a with
  | SWelcome _ _ _ _ _ => None
  | SPState t _ _ | SAck t | SState t _ | SCState t _ _ | SErr t _ _ | SAuthorized t | SLsState t _ => Some t
  end.

Definition is_request (m : cmsg) : bool :=
  match m with MProtocolSwitchRequest _ | MAuthorizationRequest _ => false | _ => true end.

(* every request is answered by exactly one terminal message carrying its transaction id -- except
   an acquire-lock request that has to wait, which is answered when the lock is granted or the wait
   is cancelled (route_events) *)
Theorem answer_unique m r :
  r <> RCrash ->
  (match m, r with MAcquireLock _ _, RReq _ => False | _, _ => True end) ->
  exists a, answer m r = [a] /\ smsg_tid a = Some (tid_of m).
Proof.
  intros Hc Hd. unfold answer.
  destruct r; try congruence; destruct m; cbn in *; try contradiction;
    try (eexists; split; reflexivity);
    try (destruct quiet as [[|]|]; eexists; split; reflexivity).
Qed.

(* an error result is answered by Err with the code of the reason *)
Theorem answer_error m code : answer m (RErr code) = [SErr (tid_of m) code []].
Proof. reflexivity. Qed.

(* the kind of message the protocol assigns to each request kind *)
Theorem answer_kind m r :
  match m, r with
  | MGet t _, RValue v => answer m r = [SState t (SValue v)]
  | MCGet t _, RCValue v ver => answer m r = [SCState t v ver]
  | MPGet t p, RKvs l => answer m r = [SPState t p (PKvs l)]
  | MDelete t _, RValue v => answer m r = [SState t (SDeleted v)]
  | MPDelete t p q, RKvs l => answer m r = [SPState t p (PDel (match q with Some true => [] | _ => l end))]
  | MLs t _, RNames l | MPLs t _, RNames l => answer m r = [SLsState t l]
  | (MSet t _ _ | MCSet t _ _ _ | MSPubInit t _ | MSPub t _ | MPublish t _ _ | MUnsubscribe t | MUnsubscribeLs t
    | MLock t _ | MReleaseLock t _), RUnit => answer m r = [SAck t]
  | (MSubscribe t _ _ _ | MPSubscribe t _ _ _ _ | MSubscribeLs t _), RSub _ => answer m r = [SAck t]
  | _, _ => True
  end.
Proof. destruct m, r; try exact I; reflexivity. Qed.

(* a request -- whatever its arguments, whatever the core answers -- never ends an established
   session: the verdict of the handler is Continue once authorization is not required or a token
   has been accepted *)
Theorem request_keeps_session w sn m s :
  lookup_n sn (w_sess w) = Some s -> is_request m = true ->
  (w_auth_required w = false \/ ss_claims s <> None) ->
  snd (handle w sn m) = Continue.
Proof.
  intros Hs Hr Ha. unfold handle. rewrite Hs.
  destruct m; try discriminate;
    repeat match goal with
           | |- context [if ?b then _ else _] => destruct b eqn:?
           | |- context [match ss_claims s with _ => _ end] => destruct (ss_claims s) eqn:?
           | |- context [match op_of ?c ?m with _ => _ end] => destruct (op_of c m) eqn:?
           | |- context [let '(_, _) := ?x in _] => destruct x eqn:?
           | |- context [match auth_requirement ?m with _ => _ end] => destruct (auth_requirement m) as [[? ?]|] eqn:?
           end; cbn; try reflexivity;
    try (destruct Ha as [Ha|Ha]; congruence).
Qed.

(* requests that this protocol version does not have are answered NotImplemented and change nothing *)
Theorem not_implemented w sn m s :
  lookup_n sn (w_sess w) = Some s -> is_request m = true ->
  ((ss_proto s = 0 /\ v1_only m = true) \/ (exists t k v, m = MTransform t k v)) ->
  handle w sn m = (w, [(sn, SErr (tid_of m) E_NotImplemented [])], Continue).
Proof.
  intros Hs Hr H. unfold handle. rewrite Hs.
  destruct H as [[Hp Hv]|(t & k & v & ->)].
  - rewrite Hp. destruct m; try discriminate; reflexivity.
  - destruct (N.eqb (ss_proto s) 0); reflexivity.
Qed.

(* with authorization on, a request outside the grant is answered Unauthorized and changes nothing *)
Theorem denied_is_noop w sn m s cl p pat :
  lookup_n sn (w_sess w) = Some s -> is_request m = true ->
  ((N.eqb (ss_proto s) 0 && v1_only m) || (match m with MTransform _ _ _ => true | _ => false end) = false)%bool ->
  w_auth_required w = true -> ss_claims s = Some cl -> auth_requirement m = Some (p, pat) ->
  authorize cl p pat = false ->
  handle w sn m = (w, [(sn, SErr (tid_of m) E_Unauthorized [])], Continue).
Proof.
  intros Hs Hr Hni Ha Hc Hq Hd. unfold handle. rewrite Hs.
  destruct m; try discriminate; rewrite ?Hni; cbn in Hni |- *; rewrite ?Hni, Ha, Hc; cbn in Hq |- *;
    try (injection Hq as <- <-); try rewrite Hq; unfold authorize in Hd; cbn in Hd |- *; rewrite ?Hd; cbn; try reflexivity.
Qed.

(* no request is served before a token: without claims, a request that needs a privilege ends the session
   without touching the core *)
Theorem no_service_before_token w sn m s p pat :
  lookup_n sn (w_sess w) = Some s -> is_request m = true ->
  ((N.eqb (ss_proto s) 0 && v1_only m) || (match m with MTransform _ _ _ => true | _ => false end) = false)%bool ->
  w_auth_required w = true -> ss_claims s = None -> auth_requirement m = Some (p, pat) ->
  handle w sn m = (w, [], Close).
Proof.
  intros Hs Hr Hni Ha Hc Hq. unfold handle. rewrite Hs.
  destruct m; try discriminate; cbn in Hni |- *; rewrite ?Hni, Ha, Hc; cbn in Hq |- *;
    try (injection Hq as <- <-); try rewrite Hq; cbn; try reflexivity.
Qed.

(* ---- C17: one session cannot take down or disturb another ---- *)

Lemma lookup_update_other {A} (sn other : N) (v : A) l :
  other <> sn -> lookup_n other (update_n sn v l) = lookup_n other l.
Proof.
  intros Hne. unfold update_n. cbn [lookup_n].
  destruct (N.eqb_spec other sn) as [E|_]; [contradiction|].
  induction l as [|[k x] l IH]; [reflexivity|]. cbn [filter fst lookup_n].
  destruct (N.eqb_spec sn k) as [<-|Hk]; cbn [negb].
  - rewrite IH. destruct (N.eqb_spec other sn); [contradiction|reflexivity].
  - cbn [lookup_n]. destruct (N.eqb other k); [reflexivity|exact IH].
Qed.

(* an undecodable line ends the sender's session and nobody else's: every other session's record,
   protocol version and claims stay as they were *)
Theorem garbage_closes_only_sender w sn other s :
  other <> sn -> lookup_n other (w_sess w) = Some s ->
  lookup_n other (w_sess (fst (sstep w (SGarbage sn)))) = Some s.
Proof.
  intros Hne Hs. cbn [sstep]. destruct (sess_open w sn) eqn:Eo; [|exact Hs].
  unfold close_session. destruct (lookup_n sn (w_sess w)) as [s0|]; [|exact Hs].
  destruct (ss_open s0); [|exact Hs].
  destruct (step _ _) as [core' out]. cbn [fst set_core w_sess].
  now rewrite lookup_update_other.
Qed.

(* ---- subscription traffic: the Ack first, then events, and events carry the id of their subscribe request ---- *)
Definition is_subscribe (m : cmsg) : bool :=
  match m with MSubscribe _ _ _ _ | MPSubscribe _ _ _ _ _ | MSubscribeLs _ _ => true | _ => false end.

Lemma subscribe_no_crash s c m o :
  is_subscribe m = true -> op_of c m = Some o -> o_res (snd (step s o)) <> RCrash.
Proof.
  destruct m; try discriminate; intros _ E; cbn in E; injection E as <-; cbn [step].
  - unfold do_subscribe. destruct (match live with Some b => b | None => false end).
    + discriminate.
    + destruct (do_get s key); try discriminate. destruct (N.eqb code E_NoSuchValue); discriminate.
  - unfold do_psubscribe. destruct (match live with Some b => b | None => false end); [discriminate|].
    destruct (do_pget s pat); discriminate.
  - unfold do_subscribe_ls. discriminate.
Qed.

(* whatever a subscribe request produces for its session starts with its one terminal answer (Ack or Err);
   the snapshot and any other traffic come after it *)
Theorem subscribe_answer_first w sn m s :
  lookup_n sn (w_sess w) = Some s -> is_subscribe m = true ->
  let out := snd (fst (handle w sn m)) in
  out = [] \/ exists code rest, out = (sn, SAck (tid_of m)) :: rest \/ out = (sn, SErr (tid_of m) code []) :: rest.
Proof.
  intros Hs Hm. cbv zeta. unfold handle. rewrite Hs.
  destruct m; try discriminate; cbv zeta; cbn [op_of];
    repeat match goal with
           | |- context [if ?b then _ else _] => destruct b eqn:?
           | |- context [match ss_claims s with _ => _ end] => destruct (ss_claims s) eqn:?
           | |- context [match auth_requirement ?m with _ => _ end] => destruct (auth_requirement m) as [[? ?]|] eqn:?
           end; cbn [fst snd];
    try (left; reflexivity);
    try (right; eexists; eexists; right; reflexivity);
    (match goal with |- context [step (w_core w) ?o0] =>
         match type of Hm with is_subscribe ?mm = true =>
           pose proof (subscribe_no_crash (w_core w) (cid_of sn) mm o0 Hm eq_refl) as Hnc end;
         destruct (step (w_core w) o0) as [core' o] eqn:Est end);
    cbn [fst snd] in *; unfold answer; cbn [tid_of];
    destruct (o_res o) eqn:Er; cbn [map app]; try congruence;
    try (right; exists 0%N; eexists; left; reflexivity);
    try (right; eexists; eexists; right; reflexivity).
Qed.

(* every message routed for an event of a subscription instance goes to the session that subscribed and carries the
   transaction id of its subscribe request; lock traffic carries the id of its acquire request *)
Definition event_with_tid (t : N) (msg : smsg) : Prop :=
  (exists ev, msg = SState t ev) \/ (exists p ev, msg = SPState t p ev) \/ (exists l, msg = SLsState t l).

Theorem routed_event_id w o sn msg :
  In (sn, msg) (route_events w o) ->
  (exists inst t k, lookup_n inst (w_chan w) = Some (sn, t, k) /\ event_with_tid t msg) \/
  (exists r t, lookup_n r (w_reqs w) = Some (sn, t) /\ (msg = SAck t \/ msg = SErr t E_LockAcquisitionCancelled [])).
Proof.
  unfold route_events, event_with_tid. intros H. apply in_app_or in H as [H|H]; [|apply in_app_or in H as [H|H]].
  - left. apply in_flat_map in H as ([inst ev] & _ & H). cbn [fst snd] in H.
    destruct (lookup_n inst (w_chan w)) as [[[s' t] k]|] eqn:E; [|contradiction].
    destruct (sess_open w s'); [|contradiction].
    exists inst, t, k.
    destruct ev, k; cbn in H; try contradiction; destruct H as [H|[]]; injection H as <- <-; (split; [exact E|]).
    all: first [ left; eexists; reflexivity | right; left; eexists; eexists; reflexivity ].
  - left. apply in_flat_map in H as ([inst l] & _ & H). cbn [fst snd] in H.
    destruct (lookup_n inst (w_chan w)) as [[[s' t] k]|] eqn:E; [|contradiction].
    destruct (sess_open w s'); [|contradiction]. destruct H as [H|[]]. injection H as <- <-.
    exists inst, t, k. split; [exact E|]. right. right. eexists. reflexivity.
  - right.
    apply in_app_or in H as [H|H]; apply in_flat_map in H as (r & _ & H);
      destruct (lookup_n r (w_reqs w)) as [[s' t]|] eqn:E; try contradiction;
      destruct (sess_open w s'); try contradiction; destruct H as [H|[]]; injection H as <- <-; exists r, t; (split; [exact E|]); auto.
Qed.
