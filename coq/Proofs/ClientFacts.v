From WB Require Import Base.Str Base.StrFacts Base.Json Model.Codec Model.Client.
From Coq Require Import Lia List.
Import ListNotations.
Local Open Scope N_scope.
Local Arguments N.add : simpl never.
Local Arguments N.eqb : simpl never.

(* ---- callback maps ---- *)
Lemma cb_find_insert_same t c m : cb_find t (cb_insert t c m) = Some c.
Proof.
  induction m as [|[t' c'] m IH]; cbn; [now rewrite N.eqb_refl|].
  destruct (N.eqb_spec t t'); cbn; [now rewrite N.eqb_refl|].
  destruct (N.eqb_spec t t'); [contradiction|exact IH].
Qed.

Lemma cb_find_insert_other t t' c m : t <> t' -> cb_find t' (cb_insert t c m) = cb_find t' m.
Proof.
  intros Hne. induction m as [|[t0 c0] m IH]; cbn.
  - destruct (N.eqb_spec t' t); [congruence|reflexivity].
  - destruct (N.eqb_spec t t0) as [->|H0]; cbn.
    + destruct (N.eqb_spec t' t0); [congruence|reflexivity].
    + destruct (N.eqb_spec t' t0); [reflexivity|exact IH].
Qed.

Lemma cb_find_remove_same t m : cb_find t (cb_remove t m) = None.
Proof.
  induction m as [|[t0 c0] m IH]; cbn; [reflexivity|].
  destruct (N.eqb_spec t t0); [exact IH|]. cbn. destruct (N.eqb_spec t t0); [contradiction|exact IH].
Qed.

Lemma cb_find_remove_other t t' m : t <> t' -> cb_find t' (cb_remove t m) = cb_find t' m.
Proof.
  intros Hne. induction m as [|[t0 c0] m IH]; cbn; [reflexivity|].
  destruct (N.eqb_spec t t0) as [->|H0]; cbn.
  - destruct (N.eqb_spec t' t0); [congruence|exact IH].
  - destruct (N.eqb_spec t' t0); [reflexivity|exact IH].
Qed.

(* ---- pairing ---- *)
Inductive slot := SlAck | SlState | SlCState | SlPState | SlLsState.
Definition get_slot (sl : slot) (c : cstate) : cbmap :=
  match sl with SlAck => ack c | SlState => state c | SlCState => cstate_ c | SlPState => pstate c | SlLsState => lsstate c end.

(* the commands that get a transaction id of their own *)
Definition slot_of (cmd : ccmd) : option slot :=
  match cmd with
  | CSet _ _ | CCSet _ _ _ | CPublish _ _ | CSPubInit _ | CSubscribe _ _ _ | CPSubscribe _ _ _ _ | CSubscribeLs _ | CLock _ | CReleaseLock _ => Some SlAck
  | CGet _ | CDelete _ => Some SlState
  | CCGet _ => Some SlCState
  | CPGet _ | CPDelete _ _ => Some SlPState
  | CLs _ | CPLs _ => Some SlLsState
  | _ => None
  end.

Definition tid_of_cmsg (m : cmsg) : option N :=
  match m with
  | MProtocolSwitchRequest _ | MAuthorizationRequest _ => None
  | MGet t _ | MCGet t _ | MPGet t _ | MSet t _ _ | MCSet t _ _ _ | MSPubInit t _ | MSPub t _ | MPublish t _ _
  | MSubscribe t _ _ _ | MPSubscribe t _ _ _ _ | MUnsubscribe t | MDelete t _ | MPDelete t _ _ | MLs t _ | MPLs t _
  | MSubscribeLs t _ | MUnsubscribeLs t | MLock t _ | MAcquireLock t _ | MReleaseLock t _ | MTransform t _ _ => Some t
  end.

Definition tid_of_smsg (m : smsg) : option N :=
  match m with
  | SWelcome _ _ _ _ _ => None
  | SPState t _ _ | SAck t | SState t _ | SCState t _ _ | SErr t _ _ | SAuthorized t | SLsState t _ => Some t
  end.

(* the id a command files its callback under (or takes callbacks away from) *)
Definition key_tid (c : cstate) (cmd : ccmd) : N :=
  match cmd with
  | CSPub t _ | CUnsubscribe t | CUnsubscribeAsync t | CUnsubscribeLs t | CUnsubscribeLsAsync t => t
  | _ => next_tid c
  end.

Theorem cmd_registers c call cmd sl :
  slot_of cmd = Some sl ->
  let '(c', m, _) := on_cmd c call cmd in
  tid_of_cmsg m = Some (next_tid c) /\ cb_find (next_tid c) (get_slot sl c') = Some call /\ next_tid c' = next_tid c + 1.
Proof.
  destruct cmd; cbn [slot_of]; intros E; try discriminate; injection E as <-; cbn;
    repeat split; try apply cb_find_insert_same.
Qed.

Theorem next_tid_grows c call cmd : next_tid (fst (fst (on_cmd c call cmd))) = next_tid c + 1.
Proof. destruct cmd; reflexivity. Qed.

Theorem other_cmd_keeps c call cmd sl t :
  key_tid c cmd <> t ->
  cb_find t (get_slot sl (fst (fst (on_cmd c call cmd)))) = cb_find t (get_slot sl c).
Proof.
  intros Hne. destruct cmd, sl; cbn in *; try reflexivity; try (apply cb_find_insert_other; exact Hne).
Qed.

Theorem other_msg_keeps c m sl t :
  tid_of_smsg m <> Some t ->
  cb_find t (get_slot sl (fst (on_msg c m))) = cb_find t (get_slot sl c).
Proof.
  intros Hne. destruct m, sl; cbn in *; try reflexivity; apply cb_find_remove_other; congruence.
Qed.

(* which server messages a slot's callback accepts *)
Definition serves (sl : slot) (m : smsg) : bool :=
  match sl, m with
  | _, SErr _ _ _ => true
  | SlAck, SAck _ => true
  | SlState, SState _ _ => true
  | SlCState, SCState _ _ _ => true
  | SlPState, SPState _ _ _ => true
  | SlLsState, SLsState _ _ => true
  | _, _ => false
  end.

Theorem answer_delivered c m sl t call :
  cb_find t (get_slot sl c) = Some call -> tid_of_smsg m = Some t -> serves sl m = true ->
  In (DAnswer call m) (snd (on_msg c m)) /\ cb_find t (get_slot sl (fst (on_msg c m))) = None.
Proof.
  intros Hf Ht Hs. destruct m, sl; cbn in *; try discriminate; injection Ht as ->;
    rewrite ?Hf; cbn; (split; [|apply cb_find_remove_same]);
    repeat (apply in_or_app; (left; now left) || right); try now left.
  all: repeat match goal with |- context [opt_list ?o _] => destruct o; cbn end; auto 10.
Qed.

Theorem answer_only_to_registered c m call :
  In (DAnswer call m) (snd (on_msg c m)) ->
  exists sl t, tid_of_smsg m = Some t /\ cb_find t (get_slot sl c) = Some call /\ serves sl m = true.
Proof.
  destruct m; cbn; intros H; try contradiction.
  all: repeat (apply in_app_or in H; destruct H as [H|H]).
  all: match goal with
       | H : In _ (opt_list (cb_find ?t ?mp) _) |- _ =>
           destruct (cb_find t mp) eqn:E; cbn in H; [destruct H as [H|[]]; first [discriminate | injection H as ->]|contradiction]
       end.
  all: first [ solve [exists SlAck, tid; repeat split; (reflexivity || exact E)]
             | solve [exists SlState, tid; repeat split; (reflexivity || exact E)]
             | solve [exists SlCState, tid; repeat split; (reflexivity || exact E)]
             | solve [exists SlPState, tid; repeat split; (reflexivity || exact E)]
             | solve [exists SlLsState, tid; repeat split; (reflexivity || exact E)] ].
Qed.

(* histories: any interleaving of further commands and server messages *)
Inductive cevent := ECmd (call : N) (cmd : ccmd) | EMsg (m : smsg).
Definition cstep (c : cstate) (e : cevent) : cstate :=
  match e with ECmd call cmd => fst (fst (on_cmd c call cmd)) | EMsg m => fst (on_msg c m) end.
Definition crun (c : cstate) (es : list cevent) : cstate := fold_left cstep es c.

Definition no_touch (t : N) (e : cevent) : Prop :=
  match e with
  | ECmd _ (CSPub t' _ | CUnsubscribe t' | CUnsubscribeAsync t' | CUnsubscribeLs t' | CUnsubscribeLsAsync t') => t' <> t
  | ECmd _ _ => True
  | EMsg m => tid_of_smsg m <> Some t
  end.

Lemma next_tid_msg c m : next_tid (fst (on_msg c m)) = next_tid c.
Proof. destruct m; reflexivity. Qed.

Theorem registration_survives es : forall c sl t call,
  t < next_tid c -> cb_find t (get_slot sl c) = Some call -> Forall (no_touch t) es ->
  cb_find t (get_slot sl (crun c es)) = Some call /\ t < next_tid (crun c es).
Proof.
  induction es as [|e es IH]; intros c sl t call Hlt Hf Hall; [split; assumption|].
  inversion Hall as [|? ? He Hes]; subst. cbn [crun fold_left]. apply IH; [| |exact Hes].
  - destruct e as [cl cmd|m]; cbn [cstep]; [rewrite next_tid_grows; lia|rewrite next_tid_msg; exact Hlt].
  - destruct e as [cl cmd|m]; cbn [cstep].
    + rewrite other_cmd_keeps; [exact Hf|]. destruct cmd; cbn in *; try lia; exact He.
    + rewrite other_msg_keeps; [exact Hf|exact He].
Qed.

(* a call with an id of its own, any interleaving of other calls and of answers to other calls, then its answer:
   the answer reaches exactly that call's callback, once *)
Theorem pairing c call cmd sl es m :
  slot_of cmd = Some sl ->
  Forall (no_touch (next_tid c)) es ->
  tid_of_smsg m = Some (next_tid c) -> serves sl m = true ->
  let c1 := fst (fst (on_cmd c call cmd)) in
  let c2 := crun c1 es in
  In (DAnswer call m) (snd (on_msg c2 m)) /\ cb_find (next_tid c) (get_slot sl (fst (on_msg c2 m))) = None.
Proof.
  intros Hsl Hes Ht Hs. cbv zeta.
  pose proof (cmd_registers c call cmd sl Hsl) as H. destruct (on_cmd c call cmd) as [[c' m'] tk]. cbn [fst].
  destruct H as (_ & Hreg & Hn).
  destruct (registration_survives es c' sl (next_tid c) call ltac:(lia) Hreg Hes) as [Hkeep _].
  now apply answer_delivered.
Qed.

(* known finding F16: a second spub on a stream whose first one is not answered yet takes its callback away *)
Theorem spub_overwrites : exists c,
  let c1 := fst (fst (on_cmd c 1 (CSPub 7 JNull))) in
  let c2 := fst (fst (on_cmd c1 2 (CSPub 7 JNull))) in
  snd (on_msg c2 (SAck 7)) = [DAnswer 2 (SAck 7)] /\ snd (on_msg (fst (on_msg c2 (SAck 7))) (SAck 7)) = [].
Proof. exists cinit. vm_compute. split; reflexivity. Qed.

(* ---- SendBuffer ---- *)
Fixpoint kb_get (key : str) (b : kbuf) : option json :=
  match b with [] => None | (k, v) :: b' => if str_eqb key k then Some v else kb_get key b' end.

Lemma kb_insert_get key v b : kb_get key (fst (kb_insert key v b)) = Some v.
Proof.
  induction b as [|[k0 v0] b IH]; cbn; [now rewrite str_eqb_refl|].
  destruct (str_eqb key k0) eqn:E; cbn; [now rewrite str_eqb_refl|].
  destruct (kb_insert key v b) as [r p]. cbn in *. now rewrite E.
Qed.

Lemma kb_insert_get_other key key' v b : key <> key' -> kb_get key' (fst (kb_insert key v b)) = kb_get key' b.
Proof.
  intros Hne. induction b as [|[k0 v0] b IH]; cbn.
  - destruct (str_eqb_spec key' key); [congruence|reflexivity].
  - destruct (str_eqb_spec key k0) as [->|H0]; cbn.
    + destruct (str_eqb_spec key' k0); [congruence|reflexivity].
    + destruct (kb_insert key v b) as [r p]. cbn in *. destruct (str_eqb key' k0); [reflexivity|exact IH].
Qed.

Lemma kb_insert_prev key v b : snd (kb_insert key v b) = true <-> kb_get key b <> None.
Proof.
  induction b as [|[k0 v0] b IH]; cbn; [split; [discriminate|congruence]|].
  destruct (str_eqb key k0); cbn; [split; [discriminate|reflexivity]|].
  destruct (kb_insert key v b) as [r p]. cbn in *. exact IH.
Qed.

Lemma kb_take_get key b : snd (kb_take key b) = kb_get key b.
Proof.
  induction b as [|[k0 v0] b IH]; cbn; [reflexivity|].
  destruct (str_eqb key k0); [reflexivity|]. destruct (kb_take key b) as [r o]. exact IH.
Qed.

Definition keys_nodup (b : kbuf) : Prop := NoDup (map fst b).

Lemma kb_get_In key b : kb_get key b <> None <-> In key (map fst b).
Proof.
  induction b as [|[k0 v0] b IH]; cbn; [split; [congruence|contradiction]|].
  destruct (str_eqb_spec key k0) as [->|Hne]; [split; [now left|discriminate]|].
  rewrite IH. split; [now right|]. intros [E|H]; [congruence|exact H].
Qed.

Lemma kb_insert_keys key v b x :
  In x (map fst (fst (kb_insert key v b))) <-> x = key \/ In x (map fst b).
Proof.
  induction b as [|[k0 v0] b IH]; cbn; [intuition|].
  destruct (str_eqb_spec key k0) as [->|Hne]; cbn; [intuition|].
  destruct (kb_insert key v b) as [r p]. cbn in *. rewrite IH. intuition.
Qed.

Lemma kb_insert_nodup key v b : keys_nodup b -> keys_nodup (fst (kb_insert key v b)).
Proof.
  unfold keys_nodup. induction b as [|[k0 v0] b IH]; cbn; intros H; [constructor; [intros []|constructor]|].
  inversion H as [|? ? Hn Hd]; subst.
  destruct (str_eqb_spec key k0) as [->|Hne]; cbn; [constructor; assumption|].
  pose proof (kb_insert_keys key v b) as HK. destruct (kb_insert key v b) as [r p]. cbn in *.
  constructor; [|now apply IH]. intros Hin. apply HK in Hin as [E|Hin]; [congruence|contradiction].
Qed.

Lemma kb_take_keys key b x : keys_nodup b ->
  (In x (map fst (fst (kb_take key b))) <-> x <> key /\ In x (map fst b)).
Proof.
  unfold keys_nodup. induction b as [|[k0 v0] b IH]; cbn; intros H; [intuition|].
  inversion H as [|? ? Hn Hd]; subst.
  destruct (str_eqb_spec key k0) as [->|Hne]; cbn.
  - split; [intros Hin; split; [intros ->; contradiction|now right]|intros [Hx [E|Hin]]; [congruence|exact Hin]].
  - specialize (IH Hd). destruct (kb_take key b) as [r o]. cbn in *. rewrite IH. intuition congruence.
Qed.

Lemma kb_take_nodup key b : keys_nodup b -> keys_nodup (fst (kb_take key b)).
Proof.
  unfold keys_nodup. induction b as [|[k0 v0] b IH]; cbn; intros H; [constructor|].
  inversion H as [|? ? Hn Hd]; subst.
  destruct (str_eqb_spec key k0) as [->|Hne]; cbn; [exact Hd|].
  pose proof (kb_take_keys key b) as HK. specialize (IH Hd). destruct (kb_take key b) as [r o]. cbn in *.
  constructor; [|exact IH]. intros Hin. apply (HK k0 Hd) in Hin. tauto.
Qed.

Lemma kb_take_get_other key key' b : key <> key' -> kb_get key' (fst (kb_take key b)) = kb_get key' b.
Proof.
  intros Hne. induction b as [|[k0 v0] b IH]; cbn; [reflexivity|].
  destruct (str_eqb_spec key k0) as [->|H0]; cbn.
  - destruct (str_eqb_spec key' k0); [congruence|reflexivity].
  - destruct (kb_take key b) as [r o]. cbn in *. destruct (str_eqb key' k0); [reflexivity|exact IH].
Qed.

(* every buffered key has exactly one sleeping task, and only buffered keys have one *)
Definition BI (s : sbuf) : Prop :=
  keys_nodup (set_b s) /\ keys_nodup (pub_b s) /\ NoDup (sb_timers s) /\
  (forall key, In (BSet, key) (sb_timers s) <-> In key (map fst (set_b s))) /\
  (forall key, In (BPub, key) (sb_timers s) <-> In key (map fst (pub_b s))).

(* a delayed task exists only for a pending timer *)
Definition wf_event (s : sbuf) (e : bevent) : Prop :=
  match e with Later _ _ _ => True | Fire k key => In (k, key) (sb_timers s) end.

Lemma bkind_eqb_spec a b : reflect (a = b) (bkind_eqb a b).
Proof. destruct a, b; constructor; congruence. Qed.

Lemma remove_timer_In k key l x : NoDup l -> (In x (remove_timer k key l) <-> x <> (k, key) /\ In x l).
Proof.
  induction l as [|[k0 key0] l IH]; cbn; intros H; [intuition|].
  inversion H as [|? ? Hn Hd]; subst.
  destruct (bkind_eqb_spec k k0) as [->|Hk]; cbn [andb].
  - destruct (str_eqb_spec key key0) as [->|Hkey].
    + split; [intros Hin; split; [intros ->; contradiction|now right]|intros [Hx [E|Hin]]; [congruence|exact Hin]].
    + cbn. rewrite (IH Hd). intuition congruence.
  - cbn. rewrite (IH Hd). intuition congruence.
Qed.

Lemma remove_timer_nodup k key l : NoDup l -> NoDup (remove_timer k key l).
Proof.
  induction l as [|[k0 key0] l IH]; cbn; intros H; [constructor|].
  inversion H as [|? ? Hn Hd]; subst.
  destruct (bkind_eqb k k0 && str_eqb key key0); [exact Hd|].
  constructor; [|now apply IH]. intros Hin. apply (remove_timer_In k key l _ Hd) in Hin. tauto.
Qed.

Lemma NoDup_snoc {A} (l : list A) x : NoDup l -> ~ In x l -> NoDup (l ++ [x]).
Proof.
  induction l as [|y l IH]; cbn; intros H Hn; [constructor; [intros []|constructor]|].
  inversion H as [|? ? Hy Hd]; subst. constructor.
  - intros Hin. apply in_app_or in Hin as [Hin|[E|[]]]; [contradiction|]. apply Hn. now left.
  - apply IH; [exact Hd|]. intros Hin. apply Hn. now right.
Qed.

Theorem BI_init : BI sb_init.
Proof. repeat split; try constructor; cbn; intros; contradiction. Qed.

Theorem BI_step s e : BI s -> wf_event s e -> BI (fst (bstep s e)).
Proof.
  intros (Hs & Hp & Ht & HS & HP) Hwf. destruct e as [[|] key v|[|] key]; cbn [bstep].
  - pose proof (kb_insert_nodup key v (set_b s) Hs) as Hn. pose proof (kb_insert_keys key v (set_b s)) as Hk.
    pose proof (kb_insert_prev key v (set_b s)) as Hprev.
    destruct (kb_insert key v (set_b s)) as [b prev]. cbn [fst snd] in *.
    assert (Hin : prev = true <-> In key (map fst (set_b s))) by (rewrite Hprev; apply kb_get_In).
    repeat split; cbn; try assumption.
    + destruct prev; [exact Ht|]. apply NoDup_snoc; [exact Ht|].
      intros Hx. apply HS in Hx. apply Hin in Hx. discriminate.
    + intros H. apply Hk. destruct prev; [right; now apply HS|].
      apply in_app_or in H as [H|[E|[]]]; [right; now apply HS|left; congruence].
    + intros H. apply Hk in H. destruct prev.
      * destruct H as [->|H]; [apply HS; now apply Hin|now apply HS].
      * apply in_or_app. destruct H as [->|H]; [right; now left|left; now apply HS].
    + intros H. apply HP. destruct prev; [exact H|]. apply in_app_or in H as [H|[E|[]]]; [exact H|discriminate].
    + intros H. apply HP in H. destruct prev; [exact H|]. apply in_or_app. now left.
  - pose proof (kb_insert_nodup key v (pub_b s) Hp) as Hn. pose proof (kb_insert_keys key v (pub_b s)) as Hk.
    pose proof (kb_insert_prev key v (pub_b s)) as Hprev.
    destruct (kb_insert key v (pub_b s)) as [b prev]. cbn [fst snd] in *.
    assert (Hin : prev = true <-> In key (map fst (pub_b s))) by (rewrite Hprev; apply kb_get_In).
    repeat split; cbn; try assumption.
    + destruct prev; [exact Ht|]. apply NoDup_snoc; [exact Ht|].
      intros Hx. apply HP in Hx. apply Hin in Hx. discriminate.
    + intros H. apply HS. destruct prev; [exact H|]. apply in_app_or in H as [H|[E|[]]]; [exact H|discriminate].
    + intros H. apply HS in H. destruct prev; [exact H|]. apply in_or_app. now left.
    + intros H. apply Hk. destruct prev; [right; now apply HP|].
      apply in_app_or in H as [H|[E|[]]]; [right; now apply HP|left; congruence].
    + intros H. apply Hk in H. destruct prev.
      * destruct H as [->|H]; [apply HP; now apply Hin|now apply HP].
      * apply in_or_app. destruct H as [->|H]; [right; now left|left; now apply HP].
  - pose proof (kb_take_nodup key (set_b s) Hs) as Hn. pose proof (fun x => kb_take_keys key (set_b s) x Hs) as Hk.
    destruct (kb_take key (set_b s)) as [b o]. cbn [fst snd] in *.
    repeat split; cbn; try assumption; try (now apply remove_timer_nodup).
    + intros H. apply (remove_timer_In _ _ _ _ Ht) in H as [Hx H]. apply Hk. split; [congruence|now apply HS].
    + intros H. apply Hk in H as [Hx H]. apply (remove_timer_In _ _ _ _ Ht). split; [congruence|now apply HS].
    + intros H. apply (remove_timer_In _ _ _ _ Ht) in H as [Hx H]. now apply HP.
    + intros H. apply (remove_timer_In _ _ _ _ Ht). split; [discriminate|now apply HP].
  - pose proof (kb_take_nodup key (pub_b s) Hp) as Hn. pose proof (fun x => kb_take_keys key (pub_b s) x Hp) as Hk.
    destruct (kb_take key (pub_b s)) as [b o]. cbn [fst snd] in *.
    repeat split; cbn; try assumption; try (now apply remove_timer_nodup).
    + intros H. apply (remove_timer_In _ _ _ _ Ht) in H as [Hx H]. now apply HS.
    + intros H. apply (remove_timer_In _ _ _ _ Ht). split; [discriminate|now apply HS].
    + intros H. apply (remove_timer_In _ _ _ _ Ht) in H as [Hx H]. apply Hk. split; [congruence|now apply HP].
    + intros H. apply Hk in H as [Hx H]. apply (remove_timer_In _ _ _ _ Ht). split; [congruence|now apply HP].
Qed.

Definition buf_of (k : bkind) (s : sbuf) : kbuf := match k with BSet => set_b s | BPub => pub_b s end.
Definition send_of (k : bkind) (key : str) (v : json) : bsend := match k with BSet => SendSet key v | BPub => SendPublish key v end.

(* the latest value handed over is what the buffer holds for the key; other keys and the other kind are untouched *)
Theorem later_latest s k key v :
  kb_get key (buf_of k (fst (bstep s (Later k key v)))) = Some v /\
  snd (bstep s (Later k key v)) = [] /\
  (forall k' key', (k', key') <> (k, key) -> kb_get key' (buf_of k' (fst (bstep s (Later k key v)))) = kb_get key' (buf_of k' s)).
Proof.
  destruct k; cbn [bstep].
  - pose proof (kb_insert_get key v (set_b s)) as H1. pose proof (fun key' => kb_insert_get_other key key' v (set_b s)) as H2.
    destruct (kb_insert key v (set_b s)) as [b p]. cbn in *. repeat split; [exact H1|].
    intros [|] key' Hne; cbn; [apply H2; congruence|reflexivity].
  - pose proof (kb_insert_get key v (pub_b s)) as H1. pose proof (fun key' => kb_insert_get_other key key' v (pub_b s)) as H2.
    destruct (kb_insert key v (pub_b s)) as [b p]. cbn in *. repeat split; [exact H1|].
    intros [|] key' Hne; cbn; [reflexivity|apply H2; congruence].
Qed.

(* a firing task sends exactly the buffered value of its key, as the kind it was buffered for, and forgets it *)
Theorem fire_sends s k key :
  snd (bstep s (Fire k key)) = match kb_get key (buf_of k s) with Some v => [send_of k key v] | None => [] end /\
  (keys_nodup (buf_of k s) -> kb_get key (buf_of k (fst (bstep s (Fire k key)))) = None) /\
  (forall k' key', (k', key') <> (k, key) -> kb_get key' (buf_of k' (fst (bstep s (Fire k key)))) = kb_get key' (buf_of k' s)).
Proof.
  destruct k; cbn [bstep buf_of].
  - pose proof (kb_take_get key (set_b s)) as H1. pose proof (fun key' => kb_take_get_other key key' (set_b s)) as H2.
    pose proof (fun x => kb_take_keys key (set_b s) x) as H3.
    destruct (kb_take key (set_b s)) as [b o]. cbn in *. subst o. repeat split.
    + intros Hn. destruct (kb_get key b) eqn:E; [|reflexivity]. exfalso.
      assert (Hin : In key (map fst b)) by (apply kb_get_In; congruence). apply (H3 key Hn) in Hin. tauto.
    + intros [|] key' Hne; cbn; [apply H2; congruence|reflexivity].
  - pose proof (kb_take_get key (pub_b s)) as H1. pose proof (fun key' => kb_take_get_other key key' (pub_b s)) as H2.
    pose proof (fun x => kb_take_keys key (pub_b s) x) as H3.
    destruct (kb_take key (pub_b s)) as [b o]. cbn in *. subst o. repeat split.
    + intros Hn. destruct (kb_get key b) eqn:E; [|reflexivity]. exfalso.
      assert (Hin : In key (map fst b)) by (apply kb_get_In; congruence). apply (H3 key Hn) in Hin. tauto.
    + intros [|] key' Hne; cbn; [reflexivity|apply H2; congruence].
Qed.

(* nothing else is sent: whatever goes out was handed to the buffer with that kind, key and value *)
Definition handed (es : list bevent) (m : bsend) : Prop :=
  match m with SendSet key v => In (Later BSet key v) es | SendPublish key v => In (Later BPub key v) es end.

Definition holds_handed (s : sbuf) (es : list bevent) : Prop :=
  (forall key v, In (key, v) (set_b s) -> In (Later BSet key v) es) /\ (forall key v, In (key, v) (pub_b s) -> In (Later BPub key v) es).

Lemma kb_insert_In key v b x w : In (x, w) (fst (kb_insert key v b)) -> (x, w) = (key, v) \/ In (x, w) b.
Proof.
  induction b as [|[k0 v0] b IH]; cbn; [intuition|].
  destruct (str_eqb key k0); cbn; [intuition|].
  destruct (kb_insert key v b) as [r p]. cbn in *. intros [E|H]; [right; now left|]. apply IH in H. intuition.
Qed.

Lemma kb_take_In key b x w : In (x, w) (fst (kb_take key b)) -> In (x, w) b.
Proof.
  induction b as [|[k0 v0] b IH]; cbn; [intuition|].
  destruct (str_eqb key k0); cbn; [intuition|].
  destruct (kb_take key b) as [r o]. cbn in *. intros [E|H]; [now left|right; now apply IH].
Qed.

Lemma kb_get_In_pair key b v : kb_get key b = Some v -> In (key, v) b.
Proof.
  induction b as [|[k0 v0] b IH]; cbn; [discriminate|].
  destruct (str_eqb_spec key k0) as [->|Hne]; [intros E; injection E as ->; now left|intros H; right; now apply IH].
Qed.

Lemma handed_step s e pre : holds_handed s pre ->
  holds_handed (fst (bstep s e)) (pre ++ [e]) /\ Forall (handed (pre ++ [e])) (snd (bstep s e)).
Proof.
  intros [HS HP].
  assert (Hmono : forall x, In x pre -> In x (pre ++ [e])) by (intros; apply in_or_app; now left).
  destruct e as [[|] key v|[|] key]; cbn [bstep].
  - pose proof (fun x w => kb_insert_In key v (set_b s) x w) as Hi. destruct (kb_insert key v (set_b s)) as [b p]. cbn in *.
    split; [split|constructor]; cbn.
    + intros x w H. apply Hi in H as [E|H]; [injection E as -> ->; apply in_or_app; right; now left|auto].
    + auto.
  - pose proof (fun x w => kb_insert_In key v (pub_b s) x w) as Hi. destruct (kb_insert key v (pub_b s)) as [b p]. cbn in *.
    split; [split|constructor]; cbn.
    + auto.
    + intros x w H. apply Hi in H as [E|H]; [injection E as -> ->; apply in_or_app; right; now left|auto].
  - pose proof (fun x w => kb_take_In key (set_b s) x w) as Hi. pose proof (kb_take_get key (set_b s)) as Hg.
    destruct (kb_take key (set_b s)) as [b o]. cbn in *. split; [split; cbn; auto|].
    destruct o as [v|]; [|constructor]. constructor; [|constructor]. cbn. apply Hmono, HS, kb_get_In_pair. now symmetry.
  - pose proof (fun x w => kb_take_In key (pub_b s) x w) as Hi. pose proof (kb_take_get key (pub_b s)) as Hg.
    destruct (kb_take key (pub_b s)) as [b o]. cbn in *. split; [split; cbn; auto|].
    destruct o as [v|]; [|constructor]. constructor; [|constructor]. cbn. apply Hmono, HP, kb_get_In_pair. now symmetry.
Qed.

Lemma handed_incl l1 l2 m : incl l1 l2 -> handed l1 m -> handed l2 m.
Proof. intros Hi. destruct m; cbn; apply Hi. Qed.

Lemma nothing_else_gen es : forall s pre, holds_handed s pre -> Forall (handed (pre ++ es)) (snd (brun s es)).
Proof.
  induction es as [|e es IH]; intros s pre H; cbn [brun]; [constructor|].
  destruct (handed_step s e pre H) as [H1 H2].
  destruct (bstep s e) as [s1 o1] eqn:E1. cbn [fst snd] in *.
  specialize (IH s1 (pre ++ [e]) H1). destruct (brun s1 es) as [s2 o2]. cbn [snd] in *.
  rewrite <- app_assoc in IH. cbn [app] in IH.
  apply Forall_app. split; [|exact IH].
  eapply Forall_impl; [|exact H2]. intros m. apply handed_incl.
  intros x Hx. apply in_app_or in Hx as [Hx|[<-|[]]]; apply in_or_app; [now left|right; now left].
Qed.

Theorem nothing_else_sent es : Forall (handed es) (snd (brun sb_init es)).
Proof. apply (nothing_else_gen es sb_init []). split; cbn; intros; contradiction. Qed.

(* every buffered value is eventually sent: a pending timer always finds a value to send, and firing it uses the timer up *)
Lemma remove_timer_length k key l : In (k, key) l -> S (length (remove_timer k key l)) = length l.
Proof.
  induction l as [|[k0 key0] l IH]; cbn; [intros []|].
  destruct (bkind_eqb_spec k k0) as [->|Hk]; cbn [andb].
  - destruct (str_eqb_spec key key0) as [->|Hkey]; [reflexivity|].
    intros [E|H]; [congruence|]. cbn. now rewrite IH.
  - intros [E|H]; [congruence|]. cbn. now rewrite IH.
Qed.

Theorem pending_timer_sends s k key :
  BI s -> In (k, key) (sb_timers s) ->
  exists v, kb_get key (buf_of k s) = Some v /\ snd (bstep s (Fire k key)) = [send_of k key v] /\
            S (length (sb_timers (fst (bstep s (Fire k key))))) = length (sb_timers s).
Proof.
  intros (Hs & Hp & Ht & HS & HP) Hin.
  assert (Hk : kb_get key (buf_of k s) <> None).
  { apply kb_get_In. destruct k; cbn; [now apply HS|now apply HP]. }
  destruct (kb_get key (buf_of k s)) as [v|] eqn:E; [|congruence]. exists v. split; [reflexivity|].
  destruct (fire_sends s k key) as (H1 & _ & _). rewrite E in H1. split; [exact H1|].
  destruct k; cbn [bstep].
  - destruct (kb_take key (set_b s)) as [b o]. cbn. now apply remove_timer_length.
  - destruct (kb_take key (pub_b s)) as [b o]. cbn. now apply remove_timer_length.
Qed.

Theorem buffered_has_timer s k key v : BI s -> kb_get key (buf_of k s) = Some v -> In (k, key) (sb_timers s).
Proof.
  intros (Hs & Hp & Ht & HS & HP) E.
  assert (Hin : In key (map fst (buf_of k s))) by (apply kb_get_In; congruence).
  destruct k; cbn in *; [now apply HS|now apply HP].
Qed.

Theorem BI_run es : forall s, BI s ->
  (fix wf (s : sbuf) (es : list bevent) : Prop :=
     match es with [] => True | e :: es' => wf_event s e /\ wf (fst (bstep s e)) es' end) s es ->
  BI (fst (brun s es)).
Proof.
  induction es as [|e es IH]; intros s HB Hwf; [exact HB|].
  destruct Hwf as [He Hrest]. cbn [brun].
  pose proof (BI_step s e HB He) as H1. destruct (bstep s e) as [s1 o1]. cbn [fst] in *.
  specialize (IH s1 H1 Hrest). destruct (brun s1 es) as [s2 o2]. exact IH.
Qed.
