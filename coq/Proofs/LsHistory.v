(* ls-subscriptions over whole histories: after every request the last list an ls-subscriber was sent is
   the list ls returns for its parent (an empty list standing for "no such value").  The notes that
   insert, delete and pattern delete record -- in the order of the Rust code, the intermediate lists of
   a pattern delete included -- are followed through the tree operations. *)
From WB Require Import Base.Str Base.StrFacts Base.Json Model.Key Model.Consts Model.Store Model.Match Model.Subs
  Model.Entry Model.Core Proofs.StoreFacts Proofs.TreeInv Proofs.C07Proof.
From Coq Require Import Lia.

Local Arguments N.add : simpl never.

(* what ls answers for a parent, [] standing for NoSuchValue *)
Definition LS {V} (n : node V) (P : list str) : list str := names_or_empty (ls_at n P).

Lemma LS_nil {V} (v : option V) cs : LS (Node v cs) [] = names cs.
Proof. reflexivity. Qed.

Lemma LS_cons {V} (v : option V) cs k P :
  LS (Node v cs) (k :: P) = match find_child k cs with Some c => LS c P | None => [] end.
Proof. unfold LS, ls_at. cbn [get_node nkids]. now destruct (find_child k cs). Qed.

Lemma LS_obsolete {V} (c : node V) P : is_obsolete c = true -> LS c P = [].
Proof. destruct c as [[x|] [|kc cs]]; try discriminate. intros _. now destruct P. Qed.

Lemma LS_empty {V} P : LS (@empty_node V) P = [].
Proof. now destruct P. Qed.

(* the last note recorded for a parent *)
Fixpoint last_for (P : list str) (notes : list (list str * list str)) : option (list str) :=
  match notes with
  | [] => None
  | (Q, l) :: rest =>
      match last_for P rest with
      | Some x => Some x
      | None => if path_eqb Q P then Some l else None
      end
  end.

Lemma last_for_app P a b :
  last_for P (a ++ b) = match last_for P b with Some x => Some x | None => last_for P a end.
Proof.
  induction a as [|[Q l] a IH]; cbn [app last_for]; [now destruct (last_for P b)|].
  rewrite IH. now destruct (last_for P b).
Qed.

Lemma last_for_none P notes : (forall Q l, In (Q, l) notes -> Q <> P) -> last_for P notes = None.
Proof.
  induction notes as [|[Q l] notes IH]; intros H; cbn [last_for]; [reflexivity|].
  rewrite IH by (intros Q' l' Hin; apply (H Q' l'); now right).
  destruct (path_eqb_spec Q P) as [E|_]; [|reflexivity]. exfalso. apply (H Q l); [now left|exact E].
Qed.

Lemma last_for_In P notes l : last_for P notes = Some l -> In (P, l) notes.
Proof.
  induction notes as [|[Q l'] notes IH]; cbn [last_for]; [discriminate|].
  destruct (last_for P notes) as [x|].
  - intros [= ->]. right. now apply IH.
  - destruct (path_eqb_spec Q P) as [->|_]; [|discriminate]. intros [= ->]. now left.
Qed.

Lemma last_for_some P notes l : In (P, l) notes -> exists l', last_for P notes = Some l'.
Proof.
  induction notes as [|[Q l0] notes IH]; [intros []|]. cbn [last_for]. intros [[= -> ->]|Hin].
  - destruct (last_for P notes); [eauto|]. rewrite path_eqb_refl. eauto.
  - destruct (IH Hin) as (l' & ->). eauto.
Qed.

Lemma app_cons_ne {A} (a : list A) x b : a <> a ++ x :: b.
Proof.
  intros E. assert (H : length a = length (a ++ x :: b)) by now rewrite <- E.
  rewrite app_length in H. cbn in H. lia.
Qed.

(* how the notes of an operation relate the lists before and after it: every note names a parent at or
   below [trav]; the last note for a parent is the list after the operation; a parent without a note has
   the list it had *)
Definition notes_ok {V} (n n' : node V) (trav : list str) (notes : list (list str * list str)) : Prop :=
  (forall Q l, In (Q, l) notes -> exists P, Q = trav ++ P) /\
  forall P, match last_for (trav ++ P) notes with
            | Some l => l = LS n' P
            | None => LS n' P = LS n P
            end.

Lemma trim_none {V} (cs : list (str * node V)) : any_obsolete cs = false -> trim_kids cs = cs.
Proof.
  unfold any_obsolete, trim_kids. induction cs as [|[k c] cs IH]; cbn; [reflexivity|].
  intros H. apply orb_false_iff in H as [H1 H2]. rewrite H1. cbn. now rewrite IH.
Qed.

Lemma clean_kids_not_obsolete {V} (v : option V) cs k c :
  cleann (Node v cs) -> find_child k cs = Some c -> is_obsolete c = false /\ cleann c.
Proof.
  intros Hc Hf. apply cleann_unfold in Hc. rewrite Forall_forall in Hc.
  exact (Hc _ (find_child_In _ _ _ Hf)).
Qed.

(* ------------------------------------------------------------------ insert *)

(* the prefixes at which insert creates a child *)
Lemma created_at_none {V} p : forall pre Q,
  In Q (created_at pre p (@None (node V))) <-> exists a k b, p = a ++ k :: b /\ Q = pre ++ a.
Proof.
  induction p as [|k p IH]; intros pre Q; cbn [created_at].
  - split; [intros []|]. intros (a & k & b & E & _). now destruct a.
  - cbn [In]. rewrite IH. split.
    + intros [<-|(a & k' & b & -> & ->)].
      * exists [], k, p. now rewrite app_nil_r.
      * exists (k :: a), k', b. now rewrite <- app_assoc.
    + intros ([|x a] & k' & b & E & ->).
      * left. now rewrite app_nil_r.
      * injection E as -> ->. right. exists a, k', b. now rewrite <- app_assoc.
Qed.

Lemma created_at_some {V} p : forall pre (n : node V) Q,
  In Q (created_at pre p (Some n)) <->
  exists a k b, p = a ++ k :: b /\ Q = pre ++ a /\
                match get_node n a with Some m => find_child k (nkids m) = None | None => True end.
Proof.
  induction p as [|k p IH]; intros pre [v cs] Q; cbn [created_at nkids].
  - split; [intros []|]. intros (a & k & b & E & _). now destruct a.
  - destruct (find_child k cs) as [c|] eqn:Ef.
    + rewrite IH. split.
      * intros (a & k' & b & -> & -> & H). exists (k :: a), k', b. rewrite <- app_assoc.
        split; [reflexivity|]. split; [reflexivity|]. cbn [get_node nkids]. now rewrite Ef.
      * intros ([|x a] & k' & b & E & -> & H).
        -- injection E as -> ->. cbn [get_node nkids] in H. congruence.
        -- injection E as -> ->. cbn [get_node nkids] in H. rewrite Ef in H.
           exists a, k', b. now rewrite <- app_assoc.
    + cbn [In]. rewrite created_at_none. split.
      * intros [<-|(a & k' & b & -> & ->)].
        -- exists [], k, p. rewrite app_nil_r. cbn [get_node nkids]. auto.
        -- exists (k :: a), k', b. rewrite <- app_assoc. cbn [get_node nkids]. rewrite Ef. auto.
      * intros ([|x a] & k' & b & E & -> & _).
        -- left. now rewrite app_nil_r.
        -- injection E as -> ->. right. exists a, k', b. now rewrite <- app_assoc.
Qed.

(* the list of a parent changes only where a child is created *)
Lemma LS_set_at {V} p (e : V) : forall (n : node V) P,
  (forall k b, p = P ++ k :: b ->
     match get_node n P with Some m => find_child k (nkids m) <> None | None => False end) ->
  LS (set_at p e n) P = LS n P.
Proof.
  induction p as [|k p IH]; intros [v cs] P H.
  - cbn [set_at nkids]. destruct P; reflexivity.
  - cbn [set_at nval nkids]. destruct P as [|k2 P].
    + rewrite !LS_nil, names_upd_child. specialize (H k p eq_refl). cbn [get_node nkids] in H.
      destruct (existsb (str_eqb k) (names cs)) eqn:Ex; [reflexivity|]. exfalso. apply H.
      apply find_child_None. intros Hin. apply existsb_str_In in Hin. congruence.
    + rewrite !LS_cons. destruct (str_eqb_spec k2 k) as [->|Hne].
      * rewrite find_upd_child_same. destruct (find_child k cs) as [c|] eqn:Ef.
        -- apply IH. intros k' b ->. specialize (H k' b eq_refl). cbn [get_node nkids] in H. now rewrite Ef in H.
        -- transitivity (LS (@empty_node V) P); [|apply LS_empty]. apply IH. intros k' b ->.
           specialize (H k' b eq_refl). cbn [get_node nkids] in H. now rewrite Ef in H.
      * now rewrite find_upd_child_other.
Qed.

Definition insert_notes {V} (p : list str) (d d' : node V) : list (list str * list str) :=
  flat_map (fun pre => match ls_at d' pre with Some l => [(pre, l)] | None => [] end)
           (created_at [] p (Some d)).

Lemma ls_at_set_prefix {V} (e : V) P k b : forall d, ls_at (set_at (P ++ k :: b) e d) P <> None.
Proof.
  unfold ls_at. induction P as [|x P IH]; intros [v cs]; cbn [app set_at get_node nkids nval].
  - discriminate.
  - rewrite find_upd_child_same. destruct (find_child x cs); apply IH.
Qed.

Theorem insert_notes_ok {V} p (e : V) (d : node V) :
  notes_ok d (set_at p e d) [] (insert_notes p d (set_at p e d)).
Proof.
  split; [intros Q l _; now exists Q|]. intros P. cbn [app].
  destruct (last_for P (insert_notes p d (set_at p e d))) as [l|] eqn:El.
  - apply last_for_In in El. unfold insert_notes in El. apply in_flat_map in El as (pre & _ & Hin).
    destruct (ls_at (set_at p e d) pre) as [l'|] eqn:E'; [|destruct Hin].
    destruct Hin as [[= -> ->]|[]]. unfold LS. now rewrite E'.
  - apply LS_set_at. intros k b Hp.
    assert (Hnote : In P (created_at [] p (Some d)) -> False).
    { intros Hc. pose proof (ls_at_set_prefix e P k b d) as Hne. rewrite <- Hp in Hne.
      destruct (ls_at (set_at p e d) P) as [l|] eqn:Els; [|congruence].
      assert (Hn : In (P, l) (insert_notes p d (set_at p e d))).
      { unfold insert_notes. apply in_flat_map. exists P. split; [exact Hc|]. rewrite Els. now left. }
      destruct (last_for_some _ _ _ Hn) as (l' & E). congruence. }
    destruct (get_node d P) as [m|] eqn:Eg.
    + intros Hf. apply Hnote. apply created_at_some. exists P, k, b. rewrite Eg. auto.
    + apply Hnote. apply created_at_some. exists P, k, b. rewrite Eg. auto.
Qed.

(* ------------------------------------------------------------------ delete *)

Lemma last_for_other_branch trav k k2 P notes :
  k2 <> k -> (forall Q l, In (Q, l) notes -> exists P', Q = (trav ++ [k]) ++ P') ->
  last_for (trav ++ k2 :: P) notes = None.
Proof.
  intros Hne H. apply last_for_none. intros Q l Hin E. destruct (H Q l Hin) as (P' & ->).
  rewrite <- app_assoc in E. apply app_inv_head in E. injection E as E _. congruence.
Qed.

Lemma last_for_below trav k notes :
  (forall Q l, In (Q, l) notes -> exists P', Q = (trav ++ [k]) ++ P') -> last_for trav notes = None.
Proof.
  intros H. apply last_for_none. intros Q l Hin E. destruct (H Q l Hin) as (P' & ->).
  rewrite <- app_assoc in E. symmetry in E. exact (app_cons_ne _ _ _ E).
Qed.

(* the list of a node one of whose children was replaced and which was then trimmed *)
Lemma LS_replaced {V} (v : option V) cs k (c c' : node V) k2 P :
  wfn (Node v cs) -> cleann (Node v cs) -> find_child k cs = Some c ->
  LS (Node v (trim_kids (mod_child k (fun _ => c') cs))) (k2 :: P) =
  if str_eqb k2 k then (if is_obsolete c' then [] else LS c' P) else LS (Node v cs) (k2 :: P).
Proof.
  intros Hw Hc Hf. apply wfn_unfold in Hw as [Hnd _]. rewrite !LS_cons.
  unfold trim_kids. rewrite find_filter by now rewrite names_mod_child. rewrite find_mod_child. cbn [snd].
  destruct (str_eqb_spec k2 k) as [->|Hne].
  - rewrite Hf. cbn [option_map]. now destruct (is_obsolete c').
  - destruct (find_child k2 cs) as [c2|] eqn:Ef2; [|reflexivity].
    destruct (clean_kids_not_obsolete v cs k2 c2 Hc Ef2) as (Hno & _). now rewrite Hno.
Qed.

Lemma mod_child_const {V} k (f : node V -> node V) cs c :
  find_child k cs = Some c -> NoDup (names cs) -> mod_child k f cs = mod_child k (fun _ => f c) cs.
Proof.
  induction cs as [|[k' c'] cs IH]; cbn [find_child mod_child]; [discriminate|].
  destruct (str_eqb k k'); [now intros [= ->]|]. intros Hf Hnd. f_equal. apply IH; [exact Hf|].
  now inversion Hnd.
Qed.

(* whether trim removes something after one child was replaced: only the new child can be obsolete *)
Lemma any_obsolete_replaced {V} (v : option V) cs k (c c' : node V) :
  cleann (Node v cs) -> find_child k cs = Some c ->
  any_obsolete (mod_child k (fun _ => c') cs) = is_obsolete c'.
Proof.
  intros Hc. apply cleann_unfold in Hc. unfold any_obsolete.
  induction cs as [|[k' c0] cs IH]; cbn [find_child mod_child]; [discriminate|].
  apply Forall_cons_iff in Hc as ((Hno & _) & Hcs). cbn [snd] in Hno.
  destruct (str_eqb k k').
  - intros _. cbn [existsb snd]. clear IH.
    assert (E : existsb (fun kc => is_obsolete (snd kc)) cs = false).
    { induction cs as [|[k2 c2] cs IH2]; [reflexivity|]. apply Forall_cons_iff in Hcs as ((H1 & _) & H2).
      cbn [existsb snd] in *. now rewrite H1, IH2. }
    rewrite E. apply orb_false_r.
  - intros Hf. cbn [existsb snd]. rewrite Hno. now apply IH.
Qed.

Theorem del_notes_ok {V} p : forall (n : node V) pre,
  wfn n -> cleann n -> notes_ok n (del_at p n) pre (del_notes pre p n).
Proof.
  induction p as [|k p IH]; intros [v cs] pre Hw Hc.
  - cbn [del_at del_notes nkids]. split; [intros Q l []|]. intros P. cbn [last_for]. now destruct P.
  - cbn [del_at del_notes nkids nval]. destruct (find_child k cs) as [c|] eqn:Ef.
    2:{ split; [intros Q l []|]. intros P. reflexivity. }
    destruct (clean_kids_not_obsolete v cs k c Hc Ef) as (Hno & Hcc).
    pose proof Hw as Hw0. apply wfn_unfold in Hw0 as [Hnd Hwc]. rewrite Forall_forall in Hwc.
    pose proof (Hwc _ (find_child_In _ _ _ Ef)) as Hwk. cbn [snd] in Hwk.
    destruct (IH c (pre ++ [k]) Hwk Hcc) as (IH1 & IH2).
    rewrite (mod_child_const k (del_at p) cs c Ef Hnd).
    set (c' := del_at p c) in *. set (kids' := mod_child k (fun _ => c') cs).
    assert (Hany : any_obsolete kids' = is_obsolete c') by exact (any_obsolete_replaced v cs k c c' Hc Ef).
    split.
    + intros Q l Hin. apply in_app_iff in Hin as [Hin|Hin].
      * destruct (IH1 Q l Hin) as (P' & ->). exists (k :: P'). now rewrite <- app_assoc.
      * destruct (any_obsolete kids'); [|destruct Hin]. destruct Hin as [[= <- <-]|[]]. exists []. now rewrite app_nil_r.
    + intros [|k2 P]; rewrite ?app_nil_r, last_for_app.
      * (* the node itself *)
        destruct (any_obsolete kids') eqn:Ea; cbn [last_for].
        -- rewrite path_eqb_refl. reflexivity.
        -- rewrite (last_for_below pre k _ IH1). rewrite LS_nil, (trim_none _ Ea). unfold kids'.
           now rewrite names_mod_child.
      * assert (Hlev : last_for (pre ++ k2 :: P)
                         (if any_obsolete kids' then [(pre, names (trim_kids kids'))] else []) = None).
        { apply last_for_none. intros Q l Hin E. destruct (any_obsolete kids'); [|destruct Hin].
          destruct Hin as [[= <- <-]|[]]. exact (app_cons_ne _ _ _ E). }
        rewrite Hlev. unfold kids'. rewrite (LS_replaced v cs k c c' k2 P Hw Hc Ef).
        destruct (str_eqb_spec k2 k) as [->|Hne].
        -- specialize (IH2 P). rewrite <- app_assoc in IH2. cbn [app] in IH2.
           destruct (last_for (pre ++ k :: P) (del_notes (pre ++ [k]) p c)) as [l|].
           ++ destruct (is_obsolete c') eqn:Eo; [|exact IH2]. now rewrite IH2, LS_obsolete.
           ++ rewrite LS_cons, Ef. destruct (is_obsolete c') eqn:Eo; [|exact IH2].
              now rewrite <- IH2, LS_obsolete.
        -- rewrite (last_for_other_branch pre k k2 P _ Hne IH1). reflexivity.
Qed.

(* ------------------------------------------------------------------ pattern delete *)

Lemma multi_notes_fix {V} (v : option V) cs trav :
  multi_notes (Node v cs) trav =
  flat_map (fun kc => (trav, []) :: multi_notes (snd kc) (trav ++ [fst kc])) cs.
Proof.
  cbn [multi_notes]. induction cs as [|[k c] cs IH]; cbn [flat_map fst snd]; [reflexivity|].
  cbn [app]. now rewrite IH.
Qed.

Lemma multi_notes_ok {V} (n : node V) : forall trav,
  (forall Q l, In (Q, l) (multi_notes n trav) -> l = [] /\ exists P, Q = trav ++ P) /\
  (forall P, LS n P <> [] -> exists l, In (trav ++ P, l) (multi_notes n trav)).
Proof.
  induction n as [v cs IH] using node_ind'. intros trav. rewrite multi_notes_fix.
  rewrite Forall_forall in IH. split.
  - intros Q l Hin. apply in_flat_map in Hin as ([k c] & Hkc & [[= <- <-]|Hin]).
    + split; [reflexivity|]. exists []. now rewrite app_nil_r.
    + cbn [fst snd] in Hin. destruct (proj1 (IH _ Hkc (trav ++ [k])) Q l Hin) as (-> & P & ->).
      split; [reflexivity|]. exists (k :: P). now rewrite <- app_assoc.
  - intros [|k P] Hne.
    + rewrite LS_nil in Hne. destruct cs as [|[k c] cs]; [now elim Hne|].
      exists []. rewrite app_nil_r. apply in_flat_map. exists (k, c). split; [now left|now left].
    + rewrite LS_cons in Hne. destruct (find_child k cs) as [c|] eqn:Ef; [|now elim Hne].
      pose proof (find_child_In _ _ _ Ef) as Hkc.
      destruct (proj2 (IH _ Hkc (trav ++ [k])) P Hne) as (l & Hin). cbn [snd] in Hin.
      exists l. apply in_flat_map. exists (k, c). split; [exact Hkc|]. right. cbn [fst snd].
      now rewrite <- app_assoc in Hin.
Qed.

Lemma LS_gone {V} P : LS (@Node V None []) P = [].
Proof. now destruct P. Qed.

Definition live {V} (cs : list (str * node V)) : Prop := Forall (fun kc => is_obsolete (snd kc) = false) cs.

Lemma live_trim {V} (cs : list (str * node V)) : live cs -> trim_kids cs = cs.
Proof.
  unfold live, trim_kids. induction 1 as [|[k c] cs H _ IH]; [reflexivity|]. cbn [filter snd] in *.
  now rewrite H, IH.
Qed.

Lemma live_any {V} (cs : list (str * node V)) : live cs -> any_obsolete cs = false.
Proof.
  unfold live, any_obsolete. induction 1 as [|[k c] cs H _ IH]; [reflexivity|]. cbn [existsb snd] in *.
  now rewrite H, IH.
Qed.

Lemma trim_app {V} (a b : list (str * node V)) : trim_kids (a ++ b) = trim_kids a ++ trim_kids b.
Proof. apply filter_app. Qed.

Lemma any_app {V} (a b : list (str * node V)) : any_obsolete (a ++ b) = any_obsolete a || any_obsolete b.
Proof. apply existsb_app. Qed.

Lemma names_app {A} (a b : list (str * A)) : names (a ++ b) = names a ++ names b.
Proof. apply map_app. Qed.

Definition news {V} (rs : list (str * node V * delm_res V)) : list (str * node V) :=
  map (fun x => (fst (fst x), dr_node (snd x))) rs.
Definition origs {V} (rs : list (str * node V * delm_res V)) : list (str * node V) :=
  map (fun x => (fst (fst x), snd (fst x))) rs.

(* one child of the `?` loop: it was there (not obsolete), and its own notes are in order *)
Definition child_ok {V} (trav : list str) (x : str * node V * delm_res V) : Prop :=
  is_obsolete (snd (fst x)) = false /\
  notes_ok (snd (fst x)) (dr_node (snd x)) (trav ++ [fst (fst x)]) (dr_notes (snd x)).

Lemma wild_notes_parents {V} trav : forall (rs : list (str * node V * delm_res V)) done,
  Forall (child_ok trav) rs ->
  forall Q l, In (Q, l) (wild_notes trav done rs) -> exists P, Q = trav ++ P.
Proof.
  induction rs as [|[[k c] r] rs IH]; intros done Hrs Q l Hin; [destruct Hin|].
  apply Forall_cons_iff in Hrs as ((_ & Hn & _) & Hrs'). cbn [fst snd] in Hn.
  cbn [wild_notes] in Hin. apply in_app_iff in Hin as [Hin|Hin]; [|apply in_app_iff in Hin as [Hin|Hin]].
  - destruct (Hn Q l Hin) as (P & ->). exists (k :: P). now rewrite <- app_assoc.
  - match type of Hin with In _ (if ?b then _ else _) => destruct b end; [|destruct Hin].
    destruct Hin as [[= <- <-]|[]]. exists []. now rewrite app_nil_r.
  - exact (IH _ Hrs' Q l Hin).
Qed.

(* the node's own list: the last note after a removal is the final list *)
Lemma wild_notes_self {V} trav : forall (rs : list (str * node V * delm_res V)) done,
  Forall (child_ok trav) rs -> live done ->
  match last_for trav (wild_notes trav done rs) with
  | Some l => l = names (done ++ trim_kids (news rs))
  | None => names (trim_kids (news rs)) = names (origs rs)
  end.
Proof.
  induction rs as [|[[k c] r] rs IH]; intros done Hrs Hdone; [reflexivity|].
  apply Forall_cons_iff in Hrs as ((Hlive & Hn & _) & Hrs'). cbn [fst snd] in Hlive, Hn.
  cbn [wild_notes news origs map fst snd]. fold (news rs) (origs rs).
  assert (Horigs : live (origs rs)).
  { clear -Hrs'. unfold live, origs. induction Hrs' as [|x rs (H & _) _ IH]; cbn [map]; constructor; assumption. }
  set (c' := dr_node r).
  set (done' := trim_kids (done ++ [(k, c')])).
  assert (Hd' : done' = done ++ (if is_obsolete c' then [] else [(k, c')])).
  { unfold done'. rewrite trim_app, (live_trim _ Hdone). unfold trim_kids at 1. cbn [filter snd].
    now destruct (is_obsolete c'). }
  assert (Hlive' : live done').
  { rewrite Hd'. apply Forall_app. split; [exact Hdone|]. destruct (is_obsolete c') eqn:E; constructor; [exact E|constructor]. }
  specialize (IH done' Hrs' Hlive').
  assert (Hany : any_obsolete (done ++ (k, c') :: origs rs) = is_obsolete c').
  { rewrite any_app, (live_any _ Hdone). cbn [orb]. unfold any_obsolete. cbn [existsb snd].
    fold (any_obsolete (origs rs)). rewrite (live_any _ Horigs). apply orb_false_r. }
  assert (Htrim : trim_kids (done ++ (k, c') :: origs rs) = done' ++ origs rs).
  { rewrite Hd', trim_app, (live_trim _ Hdone), <- app_assoc. f_equal. unfold trim_kids. cbn [filter snd].
    fold (trim_kids (origs rs)). rewrite (live_trim _ Horigs). now destruct (is_obsolete c'). }
  assert (Hk : last_for trav (dr_notes r) = None) by exact (last_for_below trav k _ Hn).
  assert (Hfin : done ++ trim_kids ((k, c') :: news rs) = done' ++ trim_kids (news rs)).
  { rewrite Hd', <- app_assoc. f_equal. unfold trim_kids. cbn [filter snd]. now destruct (is_obsolete c'). }
  rewrite !last_for_app, Hk, Hany, Htrim.
  destruct (last_for trav (wild_notes trav done' rs)) as [l|].
  - now rewrite Hfin.
  - destruct (is_obsolete c') eqn:Eo; cbn [last_for].
    + rewrite path_eqb_refl. rewrite Hfin, !names_app. now rewrite IH.
    + unfold trim_kids. cbn [filter snd]. rewrite Eo. cbn [negb names map fst].
      fold (trim_kids (news rs)). unfold names in IH. now rewrite IH.
Qed.

(* the lists below: only the notes of that child count *)
Lemma wild_notes_child {V} trav k2 P : forall (rs : list (str * node V * delm_res V)) done,
  Forall (child_ok trav) rs -> NoDup (names (origs rs)) ->
  (~ In k2 (names (origs rs)) -> last_for (trav ++ k2 :: P) (wild_notes trav done rs) = None) /\
  (forall c r, In (k2, c, r) rs ->
     last_for (trav ++ k2 :: P) (wild_notes trav done rs) = last_for (trav ++ k2 :: P) (dr_notes r)).
Proof.
  induction rs as [|[[k c] r] rs IH]; intros done Hrs Hnd; [split; [reflexivity|intros c r []]|].
  pose proof Hrs as Hrs0. apply Forall_cons_iff in Hrs as ((_ & Hn & _) & Hrs'). cbn [fst snd] in Hn.
  cbn [origs map names fst snd] in Hnd. fold (origs rs) in Hnd. fold (names (origs rs)) in Hnd.
  apply NoDup_cons_iff in Hnd as (Hk & Hnd').
  cbn [wild_notes]. rewrite !last_for_app.
  assert (Hlev : forall (b : bool) (l : list str), last_for (trav ++ k2 :: P) (if b then [(trav, l)] else []) = None).
  { intros b l. apply last_for_none. intros Q l' Hin E. destruct b; [|destruct Hin].
    destruct Hin as [[= <- <-]|[]]. exact (app_cons_ne _ _ _ E). }
  rewrite Hlev.
  destruct (IH (trim_kids (done ++ [(k, dr_node r)])) Hrs' Hnd') as (IHa & IHb).
  split.
  - intros Hnot. cbn [origs map names fst snd] in Hnot. rewrite IHa by (intros Hin; apply Hnot; now right).
    apply (last_for_other_branch trav k k2 P _); [|exact Hn]. intros ->. apply Hnot. now left.
  - intros c0 r0 [[= -> -> ->]|Hin].
    + rewrite IHa; [reflexivity|]. exact Hk.
    + rewrite (IHb c0 r0 Hin). destruct (last_for (trav ++ k2 :: P) (dr_notes r0)); [reflexivity|].
      apply (last_for_other_branch trav k k2 P _); [|exact Hn]. intros ->. apply Hk.
      unfold origs, names. rewrite map_map. apply in_map_iff. now exists (k, c0, r0).
Qed.

Theorem delm_notes_ok {V} (n : node V) : forall trav pat,
  wfn n -> cleann n -> notes_ok n (dr_node (delm n trav pat)) trav (dr_notes (delm n trav pat)).
Proof.
  induction n as [v cs IH] using node_ind'. intros trav pat Hw Hc.
  pose proof Hw as Hw0. apply wfn_unfold in Hw0 as [Hnd Hwc].
  pose proof Hc as Hc0. apply cleann_unfold in Hc0.
  rewrite Forall_forall in IH, Hwc, Hc0.
  destruct pat as [|[s| |] tail].
  - (* the pattern ends here: the value goes, the children stay *)
    rewrite delm_nil. cbn [dr_node dr_notes nkids nval]. split; [intros Q l []|]. intros P. cbn [last_for]. now destruct P.
  - (* a literal segment *)
    rewrite delm_reg. destruct (find_child s cs) as [c|] eqn:Ef.
    2:{ cbn [dr_node dr_notes]. split; [intros Q l []|]. intros P. cbn [last_for].
        rewrite (live_trim cs); [reflexivity|]. apply Forall_forall. intros kc Hin. exact (proj1 (Hc0 _ Hin)). }
    cbv zeta. cbn [dr_node dr_notes].
    pose proof (find_child_In _ _ _ Ef) as Hkc.
    destruct (Hc0 _ Hkc) as (Hno & Hcc). cbn [snd] in Hno, Hcc.
    destruct (IH _ Hkc (trav ++ [s]) tail (Hwc _ Hkc) Hcc) as (IH1 & IH2). cbn [snd] in IH1, IH2.
    set (r := delm c (trav ++ [s]) tail) in *. set (c' := dr_node r) in *.
    set (kids := mod_child s (fun _ => c') cs).
    assert (Hany : any_obsolete kids = is_obsolete c') by exact (any_obsolete_replaced v cs s c c' Hc Ef).
    split.
    + intros Q l Hin. apply in_app_iff in Hin as [Hin|Hin].
      * destruct (IH1 Q l Hin) as (P' & ->). exists (s :: P'). now rewrite <- app_assoc.
      * destruct (any_obsolete kids); [|destruct Hin]. destruct Hin as [[= <- <-]|[]]. exists []. now rewrite app_nil_r.
    + intros [|k2 P]; rewrite ?app_nil_r, last_for_app.
      * destruct (any_obsolete kids) eqn:Ea; cbn [last_for].
        -- rewrite path_eqb_refl. reflexivity.
        -- rewrite (last_for_below trav s _ IH1). rewrite LS_nil, (trim_none _ Ea). unfold kids.
           now rewrite names_mod_child.
      * assert (Hlev : last_for (trav ++ k2 :: P)
                         (if any_obsolete kids then [(trav, names (trim_kids kids))] else []) = None).
        { apply last_for_none. intros Q l Hin E. destruct (any_obsolete kids); [|destruct Hin].
          destruct Hin as [[= <- <-]|[]]. exact (app_cons_ne _ _ _ E). }
        rewrite Hlev. unfold kids. rewrite (LS_replaced v cs s c c' k2 P Hw Hc Ef).
        destruct (str_eqb_spec k2 s) as [->|Hne].
        -- specialize (IH2 P). rewrite <- app_assoc in IH2. cbn [app] in IH2.
           destruct (last_for (trav ++ s :: P) (dr_notes r)) as [l|].
           ++ destruct (is_obsolete c') eqn:Eo; [|exact IH2]. now rewrite IH2, LS_obsolete.
           ++ rewrite LS_cons, Ef. destruct (is_obsolete c') eqn:Eo; [|exact IH2].
              now rewrite <- IH2, LS_obsolete.
        -- rewrite (last_for_other_branch trav s k2 P _ Hne IH1). reflexivity.
  - (* `?`: every child in turn, trimming after each *)
    rewrite delm_wild. cbv zeta. cbn [dr_node dr_notes].
    set (rs := wild_rs trav tail cs).
    assert (Hrs : Forall (child_ok trav) rs).
    { apply Forall_forall. intros x Hin. unfold rs, wild_rs in Hin. apply in_map_iff in Hin as ([k c] & <- & Hkc).
      cbn [fst snd]. destruct (Hc0 _ Hkc) as (Hno & Hcc). cbn [snd] in Hno, Hcc. split; [exact Hno|].
      exact (IH _ Hkc (trav ++ [k]) tail (Hwc _ Hkc) Hcc). }
    assert (Horigs : origs rs = cs).
    { unfold origs, rs, wild_rs. rewrite map_map. cbn [fst snd]. rewrite <- (map_id cs) at 2. apply map_ext. now intros [k c]. }
    assert (Hnews : news rs = map (fun kc => (fst kc, dr_node (delm (snd kc) (trav ++ [fst kc]) tail))) cs).
    { unfold news, rs, wild_rs. rewrite map_map. reflexivity. }
    fold (news rs). split; [exact (wild_notes_parents trav rs [] Hrs)|].
    intros [|k2 P]; rewrite ?app_nil_r.
    + pose proof (wild_notes_self trav rs [] Hrs (Forall_nil _)) as H. cbn [app] in H.
      rewrite !LS_nil. destruct (last_for trav (wild_notes trav [] rs)); [exact H|]. now rewrite H, Horigs.
    + destruct (wild_notes_child trav k2 P rs [] Hrs) as (Ha & Hb); [now rewrite Horigs|].
      rewrite !LS_cons. unfold trim_kids. rewrite find_filter by (rewrite Hnews, names_map_kids; exact Hnd).
      rewrite Hnews, (find_map_kids (fun k c => dr_node (delm c (trav ++ [k]) tail))). cbn [snd].
      destruct (find_child k2 cs) as [c|] eqn:Ef; cbn [option_map].
      * pose proof (find_child_In _ _ _ Ef) as Hkc.
        rewrite (Hb c (delm c (trav ++ [k2]) tail)).
        2:{ unfold rs, wild_rs. apply in_map_iff. now exists (k2, c). }
        destruct (Hc0 _ Hkc) as (Hno & Hcc). cbn [snd] in Hno, Hcc.
        destruct (IH _ Hkc (trav ++ [k2]) tail (Hwc _ Hkc) Hcc) as (_ & IH2). cbn [snd] in IH2.
        specialize (IH2 P). rewrite <- app_assoc in IH2. cbn [app] in IH2.
        set (c' := dr_node (delm c (trav ++ [k2]) tail)) in *.
        destruct (last_for (trav ++ k2 :: P) (dr_notes (delm c (trav ++ [k2]) tail))) as [l|].
        -- destruct (is_obsolete c') eqn:Eo; cbn [negb]; [|exact IH2]. now rewrite IH2, LS_obsolete.
        -- destruct (is_obsolete c') eqn:Eo; cbn [negb]; [|exact IH2]. now rewrite <- IH2, LS_obsolete.
      * rewrite Ha; [reflexivity|]. rewrite Horigs. intros Hin.
        apply (find_child_None k2 cs) in Ef. contradiction.
  - destruct tail as [|s tail].
    + (* a trailing `#`: everything below goes *)
      rewrite delm_multi. cbn [dr_node dr_notes].
      destruct (multi_notes_ok (Node v cs) trav) as (H1 & H2). split.
      * intros Q l Hin. exact (proj2 (H1 Q l Hin)).
      * intros P. rewrite LS_gone. destruct (last_for (trav ++ P) (multi_notes (Node v cs) trav)) as [l|] eqn:El.
        -- apply last_for_In in El. exact (proj1 (H1 _ _ El)).
        -- destruct (LS (Node v cs) P) as [|x xs] eqn:E; [reflexivity|].
           destruct (H2 P) as (l & Hin); [rewrite E; discriminate|].
           destruct (last_for_some _ _ _ Hin) as (l' & E'). congruence.
    + rewrite delm_multi_bad. cbn [dr_node dr_notes]. split; [intros Q l []|]. intros P. reflexivity.
Qed.

(* ------------------------------------------------------------------ the server: what every ls-subscriber saw last *)
From WB Require Import Proofs.GoodNames Proofs.CoreFacts.

Definition lmap := N -> option (list str).
Definition apply_ls (m : lmap) (evs : list (N * list str)) : lmap :=
  fold_left (fun (m : lmap) il => fun i => if N.eqb i (fst il) then Some (snd il) else m i) evs m.

Lemma apply_ls_app m a b : apply_ls m (a ++ b) = apply_ls (apply_ls m a) b.
Proof. apply fold_left_app. Qed.

Lemma apply_single m (l : list str) (L : list lssub) i :
  apply_ls m (map (fun s' => (l_inst s', l)) L) i =
  if existsb (fun s' => N.eqb i (l_inst s')) L then Some l else m i.
Proof.
  revert m. induction L as [|s' L IH]; intros m; [reflexivity|]. cbn [map apply_ls fold_left existsb].
  change (fold_left _ ?x ?y) with (apply_ls y x). rewrite IH. cbn [fst snd].
  destruct (existsb (fun s'0 => N.eqb i (l_inst s'0)) L); [now rewrite orb_true_r|].
  rewrite orb_false_r. reflexivity.
Qed.

Lemma inst_inj (subs : list lssub) a b :
  NoDup (map l_inst subs) -> In a subs -> In b subs -> l_inst a = l_inst b -> a = b.
Proof.
  induction subs as [|x subs IH]; cbn [map In]; [intros _ []|]. intros Hnd Ha Hb E.
  apply NoDup_cons_iff in Hnd as (Hx & Hnd'). destruct Ha as [->|Ha], Hb as [->|Hb]; [reflexivity| | |now apply IH].
  - exfalso. apply Hx. rewrite E. now apply in_map.
  - exfalso. apply Hx. rewrite <- E. now apply in_map.
Qed.

Definition notify_on (subs : list lssub) (notes : list (list str * list str)) : list (N * list str) :=
  flat_map (fun note => map (fun l => (l_inst l, snd note))
                            (filter (fun l => path_eqb (l_parent l) (fst note)) subs)) notes.

Lemma apply_notify subs sub : NoDup (map l_inst subs) -> In sub subs -> forall notes m,
  apply_ls m (notify_on subs notes) (l_inst sub) =
  match last_for (l_parent sub) notes with Some l => Some l | None => m (l_inst sub) end.
Proof.
  intros Hnd Hin. induction notes as [|[Q l] notes IH]; intros m; [reflexivity|].
  cbn [notify_on flat_map fst snd]. fold (notify_on subs notes). rewrite apply_ls_app, IH. cbn [last_for].
  destruct (last_for (l_parent sub) notes); [reflexivity|]. rewrite apply_single.
  assert (E : existsb (fun s' => N.eqb (l_inst sub) (l_inst s')) (filter (fun l0 => path_eqb (l_parent l0) Q) subs)
              = path_eqb Q (l_parent sub)).
  { destruct (path_eqb_spec Q (l_parent sub)) as [->|Hne].
    - apply existsb_exists. exists sub. split; [|apply N.eqb_refl]. apply filter_In. split; [exact Hin|apply path_eqb_refl].
    - apply Bool.not_true_is_false. intros H. apply existsb_exists in H as (s' & Hs' & Ee).
      apply filter_In in Hs' as (Hs' & Hp). apply N.eqb_eq in Ee.
      pose proof (inst_inj subs sub s' Hnd Hin Hs' Ee) as <-.
      destruct (path_eqb_spec (l_parent sub) Q); congruence. }
  rewrite E. now destruct (path_eqb Q (l_parent sub)).
Qed.

Record G (s : core) (m : lmap) : Prop := {
  g_inv : Inv s;
  g_nodup : NoDup (map l_inst (lssubs s));
  g_fresh : forall sub, In sub (lssubs s) -> l_inst sub < next_inst s;
  g_last : forall sub, In sub (lssubs s) -> m (l_inst sub) = Some (LS (data s) (l_parent sub)) }.

Definition GStep (r : core * output) (s : core) : Prop :=
  forall m, G s m -> G (fst r) (apply_ls m (o_ls (snd r))).

Lemma G_frame s s' m :
  data s' = data s -> lssubs s' = lssubs s -> next_inst s <= next_inst s' -> G s m -> G s' m.
Proof.
  intros Ed El Hn [HI Hnd Hfr Hl]. split.
  - unfold Inv in *. now rewrite Ed.
  - now rewrite El.
  - intros sub Hin. rewrite El in Hin. specialize (Hfr sub Hin). lia.
  - intros sub Hin. rewrite El in Hin. rewrite Ed. now apply Hl.
Qed.

Lemma GStep_frame s s' out :
  data s' = data s -> lssubs s' = lssubs s -> next_inst s <= next_inst s' -> o_ls out = [] -> GStep (s', out) s.
Proof. intros Ed El Hn Ho m HG. cbn [fst snd]. rewrite Ho. now apply (G_frame s s' m). Qed.

Lemma GStep_same s r : GStep (s, out_res r) s.
Proof. apply GStep_frame; try reflexivity; lia. Qed.

Lemma G_data_change s m d' n' notes :
  G s m -> Inv (set_data s d' n') -> notes_ok (data s) d' [] notes ->
  G (set_data s d' n') (apply_ls m (notify_ls (set_data s d' n') notes)).
Proof.
  intros [HI Hnd Hfr Hl] HI' (_ & Hok). split; cbn [lssubs set_data next_inst]; try assumption.
  intros sub Hin. change (notify_ls (set_data s d' n') notes) with (notify_on (lssubs s) notes).
  rewrite (apply_notify _ sub Hnd Hin). cbn [data set_data]. specialize (Hok (l_parent sub)). cbn [app] in Hok.
  destruct (last_for (l_parent sub) notes) as [l|]; [now rewrite Hok|]. rewrite Hl by exact Hin. now rewrite Hok.
Qed.

(* ---- the requests that change the data ---- *)
Lemma insert_G s c key e force : GStep (do_insert s c key e force) s.
Proof.
  intros m HG. pose proof (g_inv _ _ HG) as HI.
  pose proof (do_insert_effect s c key e force HI) as Heff. cbv zeta in Heff. revert Heff.
  unfold do_insert.
  destruct (check_read_only key c); [intros _; exact HG|].
  destruct (parse_segments key) as [p|code]; [|intros _; exact HG].
  destruct (special_value_bad key (entry_val e)); [intros _; exact HG|].
  destruct (decide (lookup (data s) p) e force) as [existed changed e'| |]; [|intros _; exact HG|intros _; exact HG].
  cbn [fst snd o_res o_ls]. intros (p0 & ex & ch & e0 & _ & _ & HI' & _).
  apply G_data_change; [exact HG|exact HI'|]. apply insert_notes_ok.
Qed.

Lemma mod_child_same {V} k (c : node V) cs : find_child k cs = Some c -> mod_child k (fun _ => c) cs = cs.
Proof.
  induction cs as [|[k' c'] cs IH]; cbn [find_child mod_child]; [discriminate|].
  destruct (str_eqb k k'); [now intros [= ->]|]. intros H. now rewrite IH.
Qed.

Lemma del_at_absent {V} p : forall (n : node V), wfn n -> cleann n -> lookup n p = None -> del_at p n = n.
Proof.
  induction p as [|k p IH]; intros [v cs] Hw Hc Hl.
  - rewrite lookup_nil in Hl. cbn [nval] in Hl. subst v. reflexivity.
  - cbn [del_at nkids nval]. rewrite lookup_cons in Hl. destruct (find_child k cs) as [c|] eqn:Ef; [|reflexivity].
    destruct (clean_kids_not_obsolete v cs k c Hc Ef) as (_ & Hcc).
    pose proof Hw as Hw0. apply wfn_unfold in Hw0 as [Hnd Hwc]. rewrite Forall_forall in Hwc.
    pose proof (Hwc _ (find_child_In _ _ _ Ef)) as Hwk. cbn [snd] in Hwk.
    rewrite (mod_child_const k (del_at p) cs c Ef Hnd), (IH c Hwk Hcc Hl), (mod_child_same k c cs Ef).
    rewrite live_trim; [reflexivity|]. apply cleann_unfold in Hc. apply Forall_forall. intros kc Hin.
    rewrite Forall_forall in Hc. exact (proj1 (Hc _ Hin)).
Qed.

Lemma delete_G s c key : GStep (do_delete s c key) s.
Proof.
  intros m HG. pose proof (g_inv _ _ HG) as HI. pose proof HI as (Hw & Hc & _).
  pose proof (do_delete_effect s c key HI) as Heff. cbv zeta in Heff. revert Heff.
  unfold do_delete.
  destruct (check_read_only key c); [intros _; exact HG|].
  destruct (parse_segments key) as [p|code]; [|intros _; exact HG].
  destruct (negb (root_ok (del_at p (data s)))); [intros _; exact HG|].
  destruct (lookup (data s) p) as [e|] eqn:El.
  - cbn [fst snd o_res o_ls]. intros (p0 & e0 & _ & _ & _ & HI' & _).
    apply G_data_change; [exact HG|exact HI'|]. now apply del_notes_ok.
  - intros _. cbn [fst snd o_ls out_res apply_ls fold_left]. rewrite (del_at_absent p (data s) Hw Hc El).
    apply (G_frame s); try reflexivity; try lia; exact HG.
Qed.

Lemma pdelete_G s c sk pat : GStep (do_pdelete s c sk pat) s.
Proof.
  intros m HG. pose proof (g_inv _ _ HG) as HI. pose proof HI as (Hw & Hc & Hg & Hr).
  unfold do_pdelete.
  destruct (if sk then None else check_read_only pat c); [exact HG|].
  destruct (reach_bad (data s) (kseg_parse pat)); [exact HG|].
  set (p := kseg_parse pat).
  assert (Hok : root_ok (dr_node (delm (data s) [] p)) = true).
  { apply root_ok_spec. now apply cleann_delm. }
  rewrite Hok. cbn [negb]. rewrite delm_matches.
  set (s' := set_data s _ _).
  destruct (notify_deleted_ok s' (collect (data s) [] p)) as (evs & Hn).
  { apply Forall_forall. intros [q e] Hin. cbn [fst].
    apply (collect_spec (data s) [] p q e Hw) in Hin as (k & -> & Hl & _). cbn [app].
    exact (stored_key_good s k e HI Hl). }
  rewrite Hn. cbn [fst snd o_ls]. subst s'. apply G_data_change; [exact HG| |].
  - repeat split; cbn [data set_data].
    + exact (proj1 (delm_spec (data s) [] p [] Hw)).
    + now apply cleann_delm.
    + now apply goodn_delm.
    + pose proof (proj2 (delm_spec (data s) [] p [] Hw)) as Hl. rewrite !lookup_nil in Hl.
      rewrite Hl, Hr. now destruct (store_match p []).
  - now apply delm_notes_ok.
Qed.

(* ---- sequencing ---- *)
Lemma seq2_G r1 f s : GStep r1 s -> (forall s1, GStep (f s1) s1) -> GStep (seq2 r1 f) s.
Proof.
  intros H1 Hf m HG. unfold seq2. destruct (is_crash (snd r1)); [now apply H1|].
  cbn [fst snd out_app o_ls]. rewrite apply_ls_app. apply Hf. now apply H1.
Qed.

Lemma iter_ops_G {A} (f : core -> A -> core * output) l :
  (forall s x, GStep (f s x) s) -> forall s, GStep (iter_ops f l s) s.
Proof.
  intros Hf. induction l as [|x l IH]; intros s; cbn [iter_ops]; [apply GStep_same|].
  apply seq2_G; [apply Hf|exact IH].
Qed.

Lemma GStep_via s s0 r : (forall m, G s m -> G s0 m) -> GStep r s0 -> GStep r s.
Proof. intros H Hr m HG. apply Hr. now apply H. Qed.

Lemma GStep_out r s out : o_ls out = o_ls (snd r) -> GStep r s -> GStep (fst r, out) s.
Proof. intros E H m HG. cbn [fst snd]. rewrite E. now apply H. Qed.

Lemma unsubscribe_G s c t : GStep (do_unsubscribe s c t) s.
Proof.
  unfold do_unsubscribe. crush_op; try apply GStep_same; apply GStep_frame; try reflexivity; cbn; lia.
Qed.

Lemma unsubscribe_ls_G s c t : GStep (do_unsubscribe_ls s c t) s.
Proof.
  unfold do_unsubscribe_ls. destruct (assoc_get id_eqb (c, t) (ls_subscriptions s)) as [path|]; [|apply GStep_same].
  intros m [HI Hnd Hfr Hl]. cbn [fst snd o_ls out_res apply_ls fold_left].
  split; cbn [data lssubs next_inst set_ls]; try assumption.
  - clear -Hnd. induction (lssubs s) as [|x L IH]; cbn [filter map]; [constructor|].
    cbn [map] in Hnd. apply NoDup_cons_iff in Hnd as (Hx & Hnd').
    match goal with |- context [if ?b then _ else _] => destruct b end; [|now apply IH].
    cbn [map]. constructor; [|now apply IH]. intros Hin. apply Hx. apply in_map_iff in Hin as (y & E & Hy).
    apply filter_In in Hy as (Hy & _). rewrite <- E. now apply in_map.
  - intros sub Hin. apply filter_In in Hin as (Hin & _). now apply Hfr.
  - intros sub Hin. apply filter_In in Hin as (Hin & _). now apply Hl.
Qed.

Lemma subscribe_ls_G s c t parent : GStep (do_subscribe_ls s c t parent) s.
Proof.
  intros m [HI Hnd Hfr Hl]. unfold do_subscribe_ls. cbv zeta. cbn [fst snd o_ls apply_ls fold_left].
  set (path := match parent with Some p => split slash p | None => [] end).
  assert (Hch : match do_ls s parent with RNames l => l | _ => [] end = LS (data s) path).
  { unfold do_ls, path, LS. destruct parent as [p|].
    - now destruct (ls_at (data s) (split slash p)).
    - unfold ls_at. cbn [get_node]. reflexivity. }
  split; cbn [data lssubs next_inst set_ls]; try assumption.
  - rewrite map_app. cbn [map l_inst]. apply NoDup_snoc; [exact Hnd|]. intros Hin.
    apply in_map_iff in Hin as (sub & E & Hin). specialize (Hfr sub Hin). lia.
  - intros sub Hin. apply in_app_iff in Hin as [Hin|[<-|[]]]; [specialize (Hfr sub Hin); lia|cbn [l_inst]; lia].
  - intros sub Hin. cbn [fst snd]. apply in_app_iff in Hin as [Hin|[<-|[]]].
    + specialize (Hfr sub Hin). destruct (N.eqb_spec (l_inst sub) (next_inst s)) as [E|_]; [lia|]. now apply Hl.
    + cbn [l_inst l_parent]. rewrite N.eqb_refl. now rewrite Hch.
Qed.

(* every request except import (known finding F18b: import sends no ls notification) *)
Definition not_import (o : op) : Prop := match o with OImport _ => False | _ => True end.

Theorem step_G s o : not_import o -> GStep (step s o) s.
Proof.
  intros Hni. destruct o; cbn [step]; try apply GStep_same; try contradiction.
  - apply insert_G.
  - apply insert_G.
  - apply delete_G.
  - apply pdelete_G.
  - unfold do_publish. destruct (parse_segments k); [|apply GStep_same]. apply GStep_frame; try reflexivity; lia.
  - unfold do_spub_init. crush_op; try apply GStep_same; apply GStep_frame; try reflexivity; cbn; lia.
  - unfold do_spub.
    match goal with |- context [match ?x with Some _ => _ | None => _ end] => destruct x as [key|] end; [|apply GStep_same].
    unfold do_publish. destruct (parse_segments key); [|apply GStep_same]. apply GStep_frame; try reflexivity; lia.
  - unfold do_subscribe. crush_op; try apply GStep_same; apply GStep_frame; try reflexivity; cbn; lia.
  - unfold do_psubscribe. crush_op; try apply GStep_same; apply GStep_frame; try reflexivity; cbn; lia.
  - apply unsubscribe_G.
  - apply subscribe_ls_G.
  - apply unsubscribe_ls_G.
  - unfold do_lock. crush_op; try apply GStep_same; apply GStep_frame; try reflexivity; cbn; lia.
  - unfold do_acquire. crush_op; try apply GStep_same; apply GStep_frame; try reflexivity; cbn; lia.
  - unfold do_release. crush_op; try apply GStep_same; apply GStep_frame; try reflexivity; cbn; lia.
  - (* connected *)
    unfold do_connected. destruct (N.eqb c 0); [apply GStep_same|].
    destruct (existsb (N.eqb c) (clients s)); [apply GStep_same|].
    match goal with |- GStep (fst ?r, _) _ => apply (GStep_out r) end.
    { match goal with |- context [is_crash ?o] => destruct (is_crash o) end; reflexivity. }
    apply seq2_G; [apply seq2_G|].
    + apply (GStep_via s (set_clients s (clients s ++ [c]))); [|apply insert_G].
      intros m. apply G_frame; try reflexivity; cbn; lia.
    + intros s1. apply insert_G.
    + intros s1. apply insert_G.
  - (* disconnected *)
    unfold do_disconnected. destruct (N.eqb c 0); [apply GStep_same|].
    destruct (match assoc_get N.eqb c (locked_keys (set_spub s (filter (fun kv => negb (N.eqb (fst (fst kv)) c)) (spub_keys s)))) with
              | Some paths => unlock_paths (locks (set_spub s (filter (fun kv => negb (N.eqb (fst (fst kv)) c)) (spub_keys s)))) c paths
              | None => (locks (set_spub s (filter (fun kv => negb (N.eqb (fst (fst kv)) c)) (spub_keys s))), [], [], false)
              end) as [[[l' g] x] cr].
    destruct cr; [apply GStep_same|].
    match goal with |- GStep (fst ?r, _) _ => apply (GStep_out r) end.
    { match goal with |- context [is_crash ?o] => destruct (is_crash o) end; reflexivity. }
    apply seq2_G.
    + match goal with |- GStep (do_insert ?s0 _ _ _ _) _ => apply (GStep_via s s0); [|apply insert_G] end.
      intros m. apply G_frame; try reflexivity; cbn; lia.
    + intros s1. apply seq2_G; [apply iter_ops_G; intros s2 y; apply unsubscribe_G|].
      intros s2. apply seq2_G; [apply iter_ops_G; intros s3 y; apply unsubscribe_ls_G|].
      intros s3. apply seq2_G; [apply pdelete_G|].
      intros s4. apply seq2_G; [apply iter_ops_G; intros s5 y; apply pdelete_G|].
      intros s5. apply iter_ops_G. intros s6 y. apply insert_G.
Qed.

(* ---- every history without an import ---- *)
Fixpoint ls_trace (s : core) (ops : list op) : list (N * list str) :=
  match ops with
  | [] => []
  | o :: ops' => o_ls (snd (step s o)) ++ ls_trace (fst (step s o)) ops'
  end.

Lemma G_init : G init (fun _ => None).
Proof.
  split; [exact Inv_init|constructor|intros sub []|intros sub []].
Qed.

Lemma run_G ops : forall s m, Forall not_import ops -> G s m -> G (final s ops) (apply_ls m (ls_trace s ops)).
Proof.
  induction ops as [|o ops IH]; intros s m Hni HG; [exact HG|].
  apply Forall_cons_iff in Hni as (Ho & Hni'). cbn [ls_trace]. rewrite apply_ls_app.
  change (final s (o :: ops)) with (final (fst (step s o)) ops). apply IH; [exact Hni'|]. now apply step_G.
Qed.

(* after any history of requests of any kind except import, what every live ls-subscription received last is
   the list ls returns for its parent now *)
Theorem last_list_is_ls ops :
  Forall not_import ops ->
  let s := final init ops in
  forall sub, In sub (lssubs s) ->
    apply_ls (fun _ => None) (ls_trace init ops) (l_inst sub) = Some (LS (data s) (l_parent sub)).
Proof. intros Hni s sub Hin. exact (g_last _ _ (run_G ops init _ Hni G_init) sub Hin). Qed.

(* what the ls request answers for the parent of a subscription, [] for NoSuchValue *)
Theorem LS_is_do_ls s parent :
  LS (data s) (match parent with Some p => split slash p | None => [] end) =
  match do_ls s parent with RNames l => l | _ => [] end.
Proof.
  unfold do_ls, LS. destruct parent as [p|].
  - now destruct (ls_at (data s) (split slash p)).
  - reflexivity.
Qed.
