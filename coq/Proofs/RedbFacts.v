From Coq Require Import Lia List Arith PeanoNat.
Import ListNotations.
From WB Require Import Base.Str Base.Json Model.Key Model.Store Model.Entry Model.Core Model.Persist Model.Redb.
Local Open Scope nat_scope.

Lemma apply_all_app t a b : apply_all (apply_all t a) b = apply_all t (a ++ b).
Proof. unfold apply_all. now rewrite fold_left_app. Qed.

Lemma skipn_skipn' {A} b : forall a (l : list A), skipn a (skipn b l) = skipn (b + a) l.
Proof.
  induction b as [|b IH]; intros a l; cbn [Nat.add skipn]; [reflexivity|].
  destruct l as [|x l]; [now rewrite !skipn_nil|]. cbn [skipn]. apply IH.
Qed.

Lemma take_batch_split n : forall q b r, take_batch n q = (b, r) -> q = b ++ r.
Proof.
  induction n as [|n IH]; intros q b r H; cbn in H.
  - injection H as <- <-. reflexivity.
  - destruct q as [|a q]; [injection H as <- <-; reflexivity|].
    destruct (batchable a); [|injection H as <- <-; reflexivity].
    destruct (take_batch n q) as [b' r'] eqn:E. injection H as <- <-. cbn. f_equal. now apply IH.
Qed.

(* one wake-up of the writer commits a prefix of the queue, and leaves the rest queued in order *)
Lemma wake_prefix n t q :
  exists j, j <= length q /\ fst (wake n (t, q)) = apply_all t (firstn j q) /\ snd (wake n (t, q)) = skipn j q.
Proof.
  unfold wake. cbn [snd fst]. destruct q as [|a q].
  - exists 0. repeat split; lia.
  - destruct (batchable a).
    + destruct (take_batch n q) as [b r] eqn:E. pose proof (take_batch_split n q b r E) as ->.
      exists (S (length b)). cbn [fst snd length]. repeat split.
      * rewrite app_length. lia.
      * cbn [firstn]. rewrite firstn_app, firstn_all, Nat.sub_diag. cbn [firstn]. rewrite app_nil_r. reflexivity.
      * cbn [skipn]. rewrite skipn_app, skipn_all, Nat.sub_diag. reflexivity.
    + exists 1. cbn. repeat split. lia.
Qed.

(* C18: whatever the scheduler does (how many actions each wake-up finds in the channel), what is on disk after any
   number of wake-ups is the result of a prefix of the action sequence, in order: never a gap, never reordered *)
Theorem disk_is_prefix avails : forall t q,
  exists j, j <= length q /\ fst (wakes avails (t, q)) = apply_all t (firstn j q) /\ snd (wakes avails (t, q)) = skipn j q.
Proof.
  induction avails as [|n ns IH]; intros t q; cbn [wakes].
  - exists 0. repeat split; lia.
  - destruct (wake_prefix n t q) as (j1 & H1 & Hf & Hs).
    destruct (wake n (t, q)) as [t1 q1]. cbn [fst snd] in Hf, Hs. subst t1 q1.
    destruct (IH (apply_all t (firstn j1 q)) (skipn j1 q)) as (j2 & H2 & Hf2 & Hs2).
    exists (j1 + j2). rewrite skipn_length in H2. repeat split.
    + lia.
    + rewrite Hf2, apply_all_app. f_equal.
      rewrite <- (firstn_skipn j1 q) at 3. rewrite firstn_app, firstn_length, Nat.min_l by lia.
      rewrite firstn_firstn, Nat.min_r by lia. now replace (j1 + j2 - j1) with j2 by lia.
    + rewrite Hs2, skipn_skipn'. reflexivity.
Qed.

(* after a clean stop (the queue has drained) everything is on disk *)
Theorem clean_stop_is_all avails t q :
  snd (wakes avails (t, q)) = [] -> fst (wakes avails (t, q)) = apply_all t q.
Proof.
  intros He. destruct (disk_is_prefix avails t q) as (j & Hj & Hf & Hs).
  rewrite Hs in He. rewrite Hf. f_equal.
  assert (Hl : length (skipn j q) = 0) by now rewrite He. rewrite skipn_length in Hl.
  apply firstn_all2. lia.
Qed.

(* every non-empty queue makes progress: the writer cannot stall *)
Theorem wake_progress n t a q : length (snd (wake n (t, a :: q))) < length (a :: q).
Proof.
  unfold wake. cbn [snd fst]. destruct (batchable a); [|cbn; lia].
  destruct (take_batch n q) as [b r] eqn:E. pose proof (take_batch_split n q b r E) as ->.
  cbn [snd length]. rewrite app_length. lia.
Qed.

Local Close Scope nat_scope.
Local Open Scope N_scope.

(* known finding F13: the persisted CAS entry carries the version of the request, and the forced insert of the loader
   turns every CAS entry into version 1: after two accepted csets the server holds version 2, a reload gives 1 *)
Theorem cas_version_refuted :
  let os := [OCSet 1 [107] (JBool true) 0 false; OCSet 1 [107] (JBool false) 1 false] in
  let '(s, acts) := run_actions init os in
  lookup (data s) [[107]] = Some (Cas (JBool false) 2) /\
  lookup (data (recover (apply_all t_empty acts))) [[107]] = Some (Cas (JBool false) 1).
Proof. vm_compute. split; reflexivity. Qed.

(* values and kinds do come back: a non-vacuity check of the whole pipeline, with a registration applied on load *)
Example recover_example :
  let gg := topic [Consts.s_SYS; Consts.s_clients; client_str 1; Consts.s_graveGoods] in
  let os := [OSet 1 [97] (JBool true) false; OSet 1 [103;47;49] JNull false; OCSet 1 [99] JNull 0 false;
             OSet 1 gg (JArr [JStr [103;47;35]]) false; ODelete 1 [97]; OSet 1 [98] (JBool false) false] in
  let '(s, acts) := run_actions init os in
  acts = [AUpd [97] (Plain (JBool true)); AUpd [103;47;49] (Plain JNull); AUpd [99] (Cas JNull 0); AGG 1 (Some [[103;47;35]]);
          ADel [97]; AUpd [98] (Plain (JBool false))] /\
  user_all (recover (apply_all t_empty acts)) = [([[99]], Cas JNull 1); ([[98]], Plain (JBool false))] /\
  user_all (recover (apply_all t_empty (firstn 3%nat acts))) = [([[97]], Plain (JBool true)); ([[103]; [49]], Plain JNull); ([[99]], Cas JNull 1)].
Proof. vm_compute. repeat split; reflexivity. Qed.

(* the ids of the model's clients are recovered from their keys (every id below 256) *)
Example client_of_str_inverts :
  forallb (fun c => match client_of_str (client_str c) with Some c' => N.eqb c c' | None => false end)
          (map N.of_nat (seq 0 256)) = true.
Proof. vm_compute. reflexivity. Qed.
