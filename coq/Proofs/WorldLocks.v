(* C06 / C13 at the level of the sockets: over any history of events of a world, every waiting acquire is resolved at
   most once -- granted or cancelled, never both, never twice -- and the deferred answers a step puts on the wires are
   one message per request id resolved in that step, addressed to the session and transaction that asked. *)
From Coq Require Import Lia List.
Import ListNotations.
From WB Require Import Base.Str Base.Json Model.Key Model.Store Model.Subs Model.Entry Model.Core Model.Codec Model.Auth Model.Session
  Proofs.CoreFacts Proofs.LockHistory Proofs.NoCrash Proofs.Unconditional Proofs.WorldCore.
Local Open Scope N_scope.

(* the deferred lock answers among the traffic of one request: one per id granted, one per id cancelled *)
Definition deferred (w : world) (o : output) : list (N * smsg) :=
  flat_map (fun r => match lookup_n r (w_reqs w) with
                     | Some (sn, tid) => if sess_open w sn then [(sn, SAck tid)] else []
                     | None => [] end) (o_granted o) ++
  flat_map (fun r => match lookup_n r (w_reqs w) with
                     | Some (sn, tid) => if sess_open w sn then [(sn, SErr tid E_LockAcquisitionCancelled [])] else []
                     | None => [] end) (o_cancelled o).

Lemma route_events_deferred w o : exists evs, route_events w o = evs ++ deferred w o.
Proof. unfold route_events, deferred. eexists. rewrite !app_assoc. reflexivity. Qed.

Lemma deferred_length w o : (length (deferred w o) <= length (o_granted o ++ o_cancelled o))%nat.
Proof.
  unfold deferred. rewrite !app_length.
  assert (F : forall (f : N -> list (N * smsg)) l, (forall r, length (f r) <= 1)%nat -> (length (flat_map f l) <= length l)%nat).
  { intros f l H. induction l as [|x l IH]; [reflexivity|]. cbn [flat_map length]. rewrite app_length. specialize (H x). lia. }
  assert (H1 := F (fun r => match lookup_n r (w_reqs w) with Some (sn, tid) => if sess_open w sn then [(sn, SAck tid)] else [] | None => [] end) (o_granted o)).
  assert (H2 := F (fun r => match lookup_n r (w_reqs w) with Some (sn, tid) => if sess_open w sn then [(sn, SErr tid E_LockAcquisitionCancelled [])] else [] | None => [] end) (o_cancelled o)).
  assert (G : forall (mk : N -> N -> N * smsg) r, (length (match lookup_n r (w_reqs w) with Some (sn, tid) => if sess_open w sn then [mk sn tid] else [] | None => [] end) <= 1)%nat).
  { intros mk r. destruct (lookup_n r (w_reqs w)) as [[sn tid]|]; [destruct (sess_open w sn)|]; cbn; lia. }
  specialize (H1 (G (fun sn tid => (sn, SAck tid)))). specialize (H2 (G (fun sn tid => (sn, SErr tid E_LockAcquisitionCancelled [])))). lia.
Qed.

(* over any history of events: the ids resolved so far are pairwise different, none of them is still pending, every
   other id handed out is -- so no acquire is ever answered twice, or both confirmed and cancelled *)
Theorem world_confirm_once auth es :
  Forall ev_ok es ->
  let ops := ops_hist (world_init auth) es in
  let s := w_core (wfinal (world_init auth) es) in
  let R := resolved (trace init ops) in
  NoDup R /\
  (forall r, In r R -> r < next_req s /\ forall q c, ~ cpend s q c r) /\
  (forall r, r < next_req s -> In r R \/ exists q c, cpend s q c r).
Proof.
  intros Hev. cbv zeta. rewrite world_core. cbn [world_init w_core].
  exact (confirm_once_safe _ (ops_hist_safe es (world_init auth) Hev)).
Qed.

(* non-vacuity: two clients wait for a lock, the holder releases (the first waiter is confirmed), the second waiter
   leaves (its request is cancelled): two ids, each resolved once *)
Example world_confirm_once_demo :
  let es := [SOpen 0; SOpen 1; SOpen 2; SMsg 0 (MLock 1 [108]); SMsg 1 (MAcquireLock 1 [108]); SMsg 2 (MAcquireLock 1 [108]);
             SMsg 0 (MReleaseLock 2 [108]); SClose 2] in
  resolved (trace init (ops_hist (world_init false) es)) = [0; 1] /\
  snd (sstep (wfinal (world_init false) (firstn 6 es)) (SMsg 0 (MReleaseLock 2 [108]))) = [(1, SAck 1); (0, SAck 2)].
Proof. vm_compute. split; reflexivity. Qed.
