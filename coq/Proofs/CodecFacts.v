(* Every protocol message decodes back from its encoding (layer 1: message <-> JSON value). *)
From WB Require Import Base.Str Base.StrFacts Base.Json Model.Key Model.Store Model.Entry Model.Consts
  Model.CodecConsts Model.Codec Proofs.NumFacts Proofs.StoreFacts.
From Coq Require Import Lia.

Definition opt_le (o : option N) (b : N) : Prop := match o with Some n => n <= b | None => True end.

Definition wf_cmsg (m : cmsg) : Prop :=
  match m with
  | MProtocolSwitchRequest v => v <= u32_max
  | MAuthorizationRequest _ => True
  | MGet t _ | MCGet t _ | MPGet t _ | MSet t _ _ | MSPubInit t _ | MSPub t _ | MPublish t _ _
  | MSubscribe t _ _ _ | MUnsubscribe t | MDelete t _ | MPDelete t _ _ | MLs t _ | MPLs t _
  | MSubscribeLs t _ | MUnsubscribeLs t | MLock t _ | MAcquireLock t _ | MReleaseLock t _
  | MTransform t _ _ => t <= u64_max
  | MCSet t _ _ ver => t <= u64_max /\ ver <= u64_max
  | MPSubscribe t _ _ a _ => t <= u64_max /\ opt_le a u64_max
  end.

Lemma get_u64_jnum fs k n : n <= u64_max -> assoc k fs = Some (jnum n) -> get_u64 fs k = Some n.
Proof. intros H E. unfold get_u64, jnum in *. rewrite E. now apply u64_of_lit_dec. Qed.

Opaque dec_of_N u64_of_lit.

Ltac solve_num :=
  repeat match goal with
         | |- context [u64_of_lit (dec_of_N ?n)] => rewrite (u64_of_lit_dec n) by (try assumption; try lia)
         end.

Theorem cmsg_roundtrip m : wf_cmsg m -> dec_cmsg (enc_cmsg m) = Some m.
Proof.
  destruct m; cbn [wf_cmsg opt_le]; intros Hwf;
    repeat match goal with H : _ /\ _ |- _ => destruct H end;
    repeat match goal with o : option _ |- _ => destruct o end;
    try (match goal with H : ?v <= u32_max |- _ =>
           assert (v <= u64_max) by (unfold u32_max, u64_max in *; lia) end);
    cbn; unfold get_u32, get_u64, jnum; cbn; solve_num; cbn;
    repeat match goal with
           | |- context [N.leb ?a ?b] => let E := fresh in assert (E : N.leb a b = true) by (apply N.leb_le; assumption); rewrite E
           end; try reflexivity.
Qed.

(* ---- server messages ---- *)
Definition wf_smsg (m : smsg) : Prop :=
  match m with
  | SWelcome _ ps _ _ _ => Forall (fun p => fst p <= u32_max /\ snd p <= u32_max) ps
  | SPState t _ _ | SAck t | SState t _ | SAuthorized t | SLsState t _ => t <= u64_max
  | SCState t _ ver => t <= u64_max /\ ver <= u64_max
  | SErr t c _ => t <= u64_max /\ valid_code c = true
  end.

Lemma map_opt_map {A B} (enc : A -> B) (dec : B -> option A) l :
  (forall x, In x l -> dec (enc x) = Some x) -> map_opt dec (map enc l) = Some l.
Proof.
  induction l as [|x l IH]; intros H; [reflexivity|].
  cbn. rewrite H by now left. cbn. rewrite IH; [reflexivity|]. intros y Hy. apply H. now right.
Qed.

Lemma kvp_roundtrip kv : dec_kvp' (enc_kvp kv) = Some kv.
Proof. destruct kv. reflexivity. Qed.

Lemma proto_roundtrip p : fst p <= u32_max /\ snd p <= u32_max -> dec_proto (enc_proto p) = Some p.
Proof.
  destruct p as [a b]. cbn [fst snd]. intros [Ha Hb]. unfold enc_proto, dec_proto, as_u32, as_u64, jnum. cbn.
  assert (a <= u64_max) by (unfold u32_max, u64_max in *; lia).
  assert (b <= u64_max) by (unfold u32_max, u64_max in *; lia).
  solve_num. apply N.leb_le in Ha, Hb. rewrite Ha. cbn. solve_num. now rewrite Hb.
Qed.

Lemma valid_code_u64 c : valid_code c = true -> c <= u64_max.
Proof.
  unfold valid_code, u64_max. intros H. apply orb_true_iff in H as [H|H].
  - apply N.leb_le in H. lia.
  - apply N.eqb_eq in H. lia.
Qed.

Theorem smsg_roundtrip m : wf_smsg m -> dec_smsg (enc_smsg m) = Some m.
Proof.
  destruct m; cbn [wf_smsg]; intros Hwf.
  - cbn. rewrite (map_opt_map enc_proto dec_proto).
    + reflexivity.
    + intros p Hin. apply proto_roundtrip. rewrite Forall_forall in Hwf. now apply Hwf.
  - destruct ev as [l|l]; cbn; unfold get_u64, jnum; cbn; solve_num; cbn;
      rewrite (map_opt_map enc_kvp dec_kvp') by (intros; apply kvp_roundtrip); reflexivity.
  - cbn. unfold get_u64, jnum. cbn. now solve_num.
  - destruct ev; cbn; unfold get_u64, jnum; cbn; now solve_num.
  - destruct Hwf. cbn. unfold get_u64, jnum. cbn. now solve_num.
  - destruct Hwf as [Ht Hc]. pose proof (valid_code_u64 _ Hc). cbn. unfold get_u64, jnum. cbn. solve_num. cbn.
    now rewrite Hc.
  - cbn. unfold get_u64, jnum. cbn. now solve_num.
  - cbn. unfold get_u64, jnum. cbn. solve_num. cbn.
    rewrite (map_opt_map JStr as_str) by reflexivity. reflexivity.
Qed.

(* ---- stored nodes (StateSync, persistence) ---- *)

(* the values the file / wire format of ValueEntry cannot represent faithfully (known finding F8):
   a plain null, and a plain object that looks like the tag of the CAS variant *)
Definition cas_lookalike (v : json) : bool :=
  match v with
  | JObj [(k, JArr [_; JNum lit])] =>
      str_eqb k s_Cas && match u64_of_lit lit with Some _ => true | None => false end
  | _ => false
  end.
Definition entry_ok (e : entry) : Prop :=
  match e with
  | Plain v => v <> JNull /\ cas_lookalike v = false
  | Cas _ n => n <= u64_max
  end.

Lemma entry_roundtrip e : entry_ok e -> dec_entry (enc_entry e) = e.
Proof.
  destruct e as [v|v n]; cbn [entry_ok enc_entry].
  - intros [_ Hl]. unfold dec_entry.
    destruct v as [| | | | |[|[k [| | | |[|x [|[| |lit| | |] [|]]]|]] [|]]]; try reflexivity.
    cbn in Hl. destruct (str_eqb k s_Cas); [|reflexivity]. cbn in Hl.
    destruct (u64_of_lit lit); [discriminate|reflexivity].
  - intros H. unfold dec_entry. cbn. now solve_num.
Qed.

Fixpoint node_ok (n : node entry) : Prop :=
  match n with
  | Node v cs =>
      match v with Some e => entry_ok e | None => True end /\
      (fix go (cs : list (str * node entry)) : Prop :=
         match cs with [] => True | (_, c) :: cs' => node_ok c /\ go cs' end) cs
  end.

Lemma node_ok_unfold v cs :
  node_ok (Node v cs) <-> match v with Some e => entry_ok e | None => True end /\ Forall (fun kc => node_ok (snd kc)) cs.
Proof.
  cbn [node_ok]. split; intros [H1 H2]; split; try assumption.
  - induction cs as [|[k c] cs IH]; constructor; [apply H2|apply IH; apply H2].
  - induction cs as [|[k c] cs IH]; [exact I|]. inversion H2; subst. split; [assumption|now apply IH].
Qed.

Lemma enc_kids_map (l : list (str * node entry)) :
  (fix go (cs : list (str * node entry)) : list (str * json) :=
     match cs with
     | [] => []
     | (k, c) :: cs' => (k, enc_node c) :: go cs'
     end) l = map (fun kc => (fst kc, enc_node (snd kc))) l.
Proof. induction l as [|[k c] l IH]; [reflexivity|]. cbn [map fst snd]. now rewrite <- IH. Qed.

Lemma enc_node_unfold v cs :
  enc_node (Node v cs) =
  JObj ((match cs with [] => [] | _ => [(s_t, JObj (map (fun kc => (fst kc, enc_node (snd kc))) cs))] end) ++
        (match v with Some e => [(s_v, enc_entry e)] | None => [] end)).
Proof.
  destruct cs as [|[k c] cs]; [reflexivity|].
  rewrite <- (enc_kids_map ((k, c) :: cs)). reflexivity.
Qed.

Lemma enc_entry_not_null e : entry_ok e -> enc_entry e <> JNull.
Proof. destruct e; cbn; [tauto|discriminate]. Qed.

Theorem node_roundtrip (n : node entry) : node_ok n -> dec_node (enc_node n) = Some n.
Proof.
  induction n as [v cs IH] using node_ind'. intros Hok.
  apply node_ok_unfold in Hok as [Hv Hcs]. rewrite enc_node_unfold.
  assert (Hkids : (fix go (kids : list (str * json)) : option (list (str * node entry)) :=
                     match kids with
                     | [] => Some []
                     | (k', c) :: kids' =>
                         match dec_node c, go kids' with
                         | Some c', Some r => Some ((k', c') :: r)
                         | _, _ => None
                         end
                     end) (map (fun kc => (fst kc, enc_node (snd kc))) cs) = Some cs).
  { clear Hv. induction cs as [|[k c] cs IHcs]; [reflexivity|].
    inversion IH as [|? ? Hc IH']; subst. inversion Hcs as [|? ? Hoc Hcs']; subst. cbn [map fst snd].
    cbn [snd] in Hc, Hoc. rewrite (Hc Hoc). rewrite (IHcs IH' Hcs'). reflexivity. }
  destruct cs as [|kc cs'] eqn:Ecs.
  - cbn [app]. destruct v as [e|]; [|reflexivity].
    cbn. rewrite (entry_roundtrip e Hv).
    pose proof (enc_entry_not_null e Hv). now destruct (enc_entry e).
  - rewrite <- Ecs in *. clear Ecs. cbn [app dec_node].
    (* field "t" first, then "v" *)
    assert (Et : str_eqb s_t s_v = false) by reflexivity.
    assert (Ett : str_eqb s_t s_t = true) by reflexivity.
    assert (Evv : str_eqb s_v s_v = true) by reflexivity.
    cbn [dec_node]. rewrite Et, Ett. rewrite Hkids.
    destruct v as [e|]; [|reflexivity].
    cbn. rewrite (entry_roundtrip e Hv).
    pose proof (enc_entry_not_null e Hv). now destruct (enc_entry e).
Qed.

(* ---- cluster sync messages ---- *)
Definition wf_sync (m : syncmsg) : Prop :=
  match m with
  | YInit n _ _ => node_ok n
  | YMut (WCSet _ _ ver _) => ver <= u64_max
  | YMut _ => True
  end.

Theorem sync_roundtrip m : wf_sync m -> dec_sync (enc_sync m) = Some m.
Proof.
  destruct m as [n gg lw|c]; cbn [wf_sync]; intros Hwf.
  - cbn. rewrite (node_roundtrip n Hwf). cbn.
    rewrite (map_opt_map JStr as_str) by reflexivity. cbn.
    rewrite (map_opt_map enc_kvp dec_kvp') by (intros; apply kvp_roundtrip). reflexivity.
  - destruct c; cbn; unfold jnum; solve_num; reflexivity.
Qed.
