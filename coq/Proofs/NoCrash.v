(* C17: no request of any kind takes the core down.  C17Proof.v covers the data requests; here publishes, publish
   streams, subscriptions of both kinds, locks (the assertion of Store::unlock: LockHistory.v) and whole sessions
   starting and ending are added: along every history of requests the step function never takes a crash branch --
   except the version overflow of a cset at u64::MAX (known finding F17), and the nil client id, which no client has. *)
From WB Require Import Base.Str Base.StrFacts Base.Json Model.Key Model.Consts Model.Store Model.Match Model.Subs
  Model.Entry Model.Core Spec.MapSpec Proofs.StoreFacts Proofs.TreeInv Proofs.GoodNames Proofs.CoreFacts Proofs.C07Proof
  Proofs.LenFacts Proofs.C01Proof Proofs.C17Proof Proofs.LockFacts Proofs.LockHistory Proofs.SyncFacts.
From Coq Require Import Lia.

Local Arguments N.add : simpl never.

Definition safe_op (o : op) : Prop :=
  match o with
  | OCSet _ _ _ ver _ => ver <> u64_max
  | OConnected c | ODisconnected c => c <> 0
  | _ => True
  end /\ import_ok o.

Definition Good (r : core * output) : Prop := is_crash (snd r) = false /\ Inv (fst r).

Lemma not_crash_is o : o_res o <> RCrash -> is_crash o = false.
Proof. unfold is_crash. destruct (o_res o); congruence. Qed.

Lemma is_not_crash o : is_crash o = false -> o_res o <> RCrash.
Proof. unfold is_crash. destruct (o_res o); congruence. Qed.

Lemma insert_plain_good s c k v f : Inv s -> Good (do_insert s c k (Plain v) f).
Proof.
  intros HI.
  assert (Hnc : o_res (snd (do_insert s c k (Plain v) f)) <> RCrash).
  { unfold do_insert. destruct (check_read_only k c); [discriminate|]. destruct (parse_segments k); [|discriminate].
    destruct (special_value_bad _ _); [discriminate|].
    pose proof (decide_no_crash (lookup (data s) a) (Plain v) f I). destruct (decide _ _ _); cbn; congruence. }
  split; [now apply not_crash_is|]. exact (proj1 (do_insert_only_path s c k (Plain v) f HI Hnc)).
Qed.

Lemma pdelete_good s c pat : Inv s -> Good (do_pdelete s c false pat).
Proof.
  intros HI. split; [|exact (proj1 (do_pdelete_only s c pat HI))].
  pose proof (do_pdelete_effect s c pat HI) as H. cbv zeta in H. apply not_crash_is. intros E. now rewrite E in H.
Qed.

Lemma unsubscribe_good s c t : Inv s -> Good (do_unsubscribe s c t).
Proof.
  intros HI. unfold do_unsubscribe, Good. destruct (assoc_get id_eqb (c, t) (subscriptions s)); cbn [fst snd]; [|auto].
  split; [|exact HI]. unfold is_crash. cbn. now destruct (unsubscribe_removed _ _ _ _).
Qed.

Lemma unsubscribe_ls_good s c t : Inv s -> Good (do_unsubscribe_ls s c t).
Proof.
  intros HI. unfold do_unsubscribe_ls, Good. destruct (assoc_get id_eqb (c, t) (ls_subscriptions s)); cbn [fst snd]; [|auto].
  split; [|exact HI]. unfold is_crash. cbn. now destruct (existsb _ _).
Qed.

Lemma seq2_good r1 f : Good r1 -> (forall s1, Inv s1 -> Good (f s1)) -> Good (seq2 r1 f).
Proof.
  intros (H1 & HI1) Hf. unfold seq2. rewrite H1. destruct (Hf (fst r1) HI1) as (H2 & HI2). split; [exact H2|exact HI2].
Qed.

Lemma iter_ops_good {A} (f : core -> A -> core * output) l :
  (forall s x, Inv s -> Good (f s x)) -> forall s, Inv s -> Good (iter_ops f l s).
Proof.
  intros Hf. induction l as [|x l IH]; intros s HI; cbn [iter_ops]; [split; [reflexivity|exact HI]|].
  apply seq2_good; [now apply Hf|exact IH].
Qed.

Theorem step_safe s o :
  Inv s -> LH s -> safe_op o ->
  o_res (snd (step s o)) <> RCrash /\ Inv (fst (step s o)) /\ LH (fst (step s o)).
Proof.
  intros HI HLH (Hs & Himp).
  assert (HLH' : LH (fst (step s o))) by exact (proj1 (lock_step s o HLH)).
  assert (Hdone : Good (step s o) -> o_res (snd (step s o)) <> RCrash /\ Inv (fst (step s o)) /\ LH (fst (step s o))).
  { intros (H1 & H2). split; [now apply is_not_crash|]. split; assumption. }
  apply Hdone. clear Hdone.
  assert (Hc01 : c01_op o -> (match o with OCSet _ _ _ ver _ => ver <> u64_max | _ => True end) -> Good (step s o)).
  { intros Hc Hv. pose proof (data_request_no_crash s o HI Hc Himp Hv) as Hnc. split; [now apply not_crash_is|].
    exact (proj1 (step_refines0 s o HI Hc Himp Hnc)). }
  assert (Hoth : other_op o -> o_res (snd (step s o)) <> RCrash -> Good (step s o)).
  { intros Ho Hnc. split; [now apply not_crash_is|]. unfold Inv in *. now rewrite (other_data_same s o Ho). }
  destruct o; try (apply Hc01; [exact I|try exact I; exact Hs]); try (apply Hoth; [exact I|]); cbn [step].
  - unfold do_publish. destruct (parse_segments k); discriminate.
  - unfold do_spub_init. destruct (check_read_only k c); discriminate.
  - unfold do_spub. match goal with |- context [match ?x with Some _ => _ | None => _ end] => destruct x as [key|] end; [|discriminate].
    unfold do_publish. destruct (parse_segments key); discriminate.
  - unfold do_subscribe. repeat match goal with |- context [match ?x with _ => _ end] => destruct x end; discriminate.
  - unfold do_psubscribe. repeat match goal with |- context [match ?x with _ => _ end] => destruct x end; discriminate.
  - unfold do_unsubscribe. repeat match goal with |- context [match ?x with _ => _ end] => destruct x end; discriminate.
  - unfold do_subscribe_ls. discriminate.
  - unfold do_unsubscribe_ls. repeat match goal with |- context [match ?x with _ => _ end] => destruct x end; discriminate.
  - unfold do_lock. repeat match goal with |- context [match ?x with _ => _ end] => destruct x end; discriminate.
  - unfold do_acquire. repeat match goal with |- context [match ?x with _ => _ end] => destruct x end; discriminate.
  - (* release: the assertion of Store::unlock *)
    unfold do_release. destruct (parse_segments k) as [p|code]; [|discriminate].
    pose proof (unlock_hist _ _ c p (lh_lt _ HLH)) as H. destruct (unlock (locks s) c p) as [[[[l' r0] g] x] cr].
    destruct H as (-> & _). cbn. destruct r0; discriminate.
  - (* connected *)
    cbn [fst snd] in Hs. unfold do_connected. destruct (N.eqb_spec c 0) as [E|_]; [contradiction|].
    destruct (existsb (N.eqb c) (clients s)); [split; [reflexivity|exact HI]|].
    match goal with |- Good (fst ?r, _) => assert (Hr : Good r) end.
    { apply seq2_good; [apply seq2_good|]; [now apply insert_plain_good| |]; intros s1 H1; now apply insert_plain_good. }
    destruct Hr as (H1 & H2). split; [cbn [snd]; rewrite H1; reflexivity|exact H2].
  - (* disconnected *)
    cbn [fst snd] in Hs. unfold do_disconnected. destruct (N.eqb_spec c 0) as [E|_]; [contradiction|].
    set (s0 := set_spub s (filter (fun kv => negb (N.eqb (fst (fst kv)) c)) (spub_keys s))).
    assert (HU : let '(l', g, x, crash) := match assoc_get N.eqb c (locked_keys s0) with
                                           | Some paths => unlock_paths (locks s0) c paths
                                           | None => (locks s0, [], [], false)
                                           end in crash = false).
    { destruct (assoc_get N.eqb c (locked_keys s0)) as [paths|]; [|reflexivity].
      pose proof (unlock_paths_hist c paths (locks s) (next_req s) (lh_lt _ HLH)) as H.
      change (locks s0) with (locks s). destruct (unlock_paths (locks s) c paths) as [[[l' g] x] cr]. now destruct H. }
    destruct (match assoc_get N.eqb c (locked_keys s0) with
              | Some paths => unlock_paths (locks s0) c paths
              | None => (locks s0, [], [], false)
              end) as [[[l' g] x] cr]. subst cr.
    match goal with |- Good (fst ?r, _) => assert (Hr : Good r) end.
    { apply seq2_good; [apply insert_plain_good; exact HI|].
      intros s1 H1. apply seq2_good; [apply iter_ops_good; [intros; now apply unsubscribe_good|exact H1]|].
      intros s2 H2. apply seq2_good; [apply iter_ops_good; [intros; now apply unsubscribe_ls_good|exact H2]|].
      intros s3 H3. apply seq2_good; [now apply pdelete_good|].
      intros s4 H4. apply seq2_good; [apply iter_ops_good; [intros; now apply pdelete_good|exact H4]|].
      intros s5 H5. apply iter_ops_good; [intros; now apply insert_plain_good|exact H5]. }
    destruct Hr as (H1 & H2). split; [cbn [snd]; rewrite H1; reflexivity|exact H2].
  - discriminate.
Qed.

(* every history of requests of every kind *)
Theorem history_safe ops : forall s,
  Inv s -> LH s -> Forall safe_op ops -> nocrash (trace s ops) /\ Inv (final s ops).
Proof.
  induction ops as [|o ops IH]; intros s HI HLH Hs; [split; [intros x []|exact HI]|].
  apply Forall_cons_iff in Hs as (Ho & Hos). destruct (step_safe s o HI HLH Ho) as (Hnc & HI' & HLH').
  destruct (IH _ HI' HLH' Hos) as (Hn & Hf). change (final s (o :: ops)) with (final (fst (step s o)) ops).
  split; [|exact Hf]. intros x [<-|Hx]; [now apply not_crash_is|now apply Hn].
Qed.

Theorem no_request_crashes ops : Forall safe_op ops -> nocrash (trace init ops).
Proof. intros H. exact (proj1 (history_safe ops init Inv_init LH_init H)). Qed.
