(* C15 at the level of the sockets.  With authorization required a session that has not presented a valid token owns
   nothing in the server -- no subscription of either kind, no publish stream -- whatever history lies behind it; so the
   three request kinds the authorization table leaves unchecked (sPub, unsubscribe, unsubscribeLs) find nothing to act on
   and every other request ends the session: a session without a token is never served and never changes anything. *)
From Coq Require Import Lia List.
Import ListNotations.
From WB Require Import Base.Str Base.StrFacts Base.Json Model.Key Model.Consts Model.Store Model.Match Model.Subs Model.Entry Model.Core
  Model.CodecConsts Model.Codec Model.Auth Model.Session Spec.MapSpec
  Proofs.CoreFacts Proofs.C07Proof Proofs.LockHistory Proofs.SessionEnd Proofs.SessionFacts Proofs.WorldCore.
Local Open Scope N_scope.

(* the clients that own an entry of one of the three tables a client can fill *)
Definition owners (s : core) : list cid :=
  map (fun e => fst (fst e)) (subscriptions s) ++ map (fun e => fst (fst e)) (ls_subscriptions s) ++ map (fun e => fst (fst e)) (spub_keys s).
Definition owned (s : core) (c : cid) : Prop := In c (owners s).

Definition creates (o : op) (c : cid) : Prop :=
  match o with
  | OSubscribe c' _ _ _ _ | OPSubscribe c' _ _ _ _ | OSubscribeLs c' _ _ | OSPubInit c' _ _ => c' = c
  | _ => False
  end.

Lemma assoc_set_owner {V} (k : N * N) (v : V) l c :
  In c (map (fun e : (N * N) * V => fst (fst e)) (assoc_set id_eqb k v l)) -> c = fst k \/ In c (map (fun e => fst (fst e)) l).
Proof.
  induction l as [|[k' v'] l IH]; cbn [assoc_set map fst In]; [intros [<-|[]]; now left|].
  destruct (id_eqb k k') eqn:E; cbn [map fst In].
  - intros [<-|H]; [right; now left|right; now right].
  - intros [<-|H]; [right; now left|]. destruct (IH H); [now left|right; now right].
Qed.

Lemma assoc_del_owner {V} (k : N * N) (l : list ((N * N) * V)) c :
  In c (map (fun e => fst (fst e)) (assoc_del id_eqb k l)) -> In c (map (fun e => fst (fst e)) l).
Proof.
  unfold assoc_del. intros H. apply in_map_iff in H as (e & <- & Hin). apply filter_In in Hin as (Hin & _). apply in_map_iff. now exists e.
Qed.

Lemma filter_owner {V} (f : (N * N) * V -> bool) (l : list ((N * N) * V)) c :
  In c (map (fun e => fst (fst e)) (filter f l)) -> In c (map (fun e => fst (fst e)) l).
Proof. intros H. apply in_map_iff in H as (e & <- & Hin). apply filter_In in Hin as (Hin & _). apply in_map_iff. now exists e. Qed.

Lemma owners_tabs s s' : subscriptions s' = subscriptions s -> ls_subscriptions s' = ls_subscriptions s -> spub_keys s' = spub_keys s -> owners s' = owners s.
Proof. unfold owners. now intros -> -> ->. Qed.

Lemma seq2_insert_owners r c k e f :
  owners (fst (seq2 r (fun s => do_insert s c k e f))) = owners (fst r).
Proof.
  unfold seq2. destruct (is_crash (snd r)); [reflexivity|]. cbn [fst].
  destruct (insert_tables (fst r) c k e f) as (A & B & C & _). now apply owners_tabs.
Qed.

Ltac same_tabs := apply owners_tabs; reflexivity.

Lemma step_owned s o c :
  is_crash (snd (step s o)) = false -> owned (fst (step s o)) c -> owned s c \/ creates o c.
Proof.
  intros Hnc H. unfold owned in *.
  assert (Same : owners (fst (step s o)) = owners s -> In c (owners s) \/ creates o c) by (intros E; left; now rewrite <- E).
  destruct o; cbn [step fst] in *; try (apply Same; reflexivity).
  - (* set *) apply Same. destruct (insert_tables s c0 k (Plain v) force) as (A & B & C & _). now apply owners_tabs.
  - apply Same. destruct (insert_tables s c0 k (Cas v ver) force) as (A & B & C & _). now apply owners_tabs.
  - (* delete *) apply Same. unfold do_delete. crush_op; same_tabs.
  - (* pdelete *) apply Same. destruct (pdelete_tables s c0 false p) as (A & B & C & _). now apply owners_tabs.
  - (* publish *) apply Same. unfold do_publish. crush_op; same_tabs.
  - (* spub_init *)
    unfold do_spub_init in *. destruct (check_read_only k c0); [now left|]. cbn [fst] in H. unfold owners in H. cbn [set_spub subscriptions ls_subscriptions spub_keys] in H.
    rewrite !in_app_iff in H. destruct H as [H|[H|H]]; [left; unfold owners; rewrite !in_app_iff; auto|left; unfold owners; rewrite !in_app_iff; auto|].
    apply assoc_set_owner in H as [->|H]; [right; reflexivity|left; unfold owners; rewrite !in_app_iff; auto].
  - (* spub *) apply Same. unfold do_spub, do_publish. crush_op; same_tabs.
  - (* import *) apply Same. unfold do_import. crush_op; same_tabs.
  - (* subscribe *)
    unfold do_subscribe in *. match type of H with context [match ?snap with Ok _ => _ | Err _ => _ end] => destruct snap end; [|now left].
    cbn [fst] in H. unfold owners in H. cbn [set_subs subscriptions ls_subscriptions spub_keys] in H.
    rewrite !in_app_iff in H. destruct H as [H|[H|H]]; [|left; unfold owners; rewrite !in_app_iff; auto|left; unfold owners; rewrite !in_app_iff; auto].
    apply assoc_set_owner in H as [->|H]; [right; reflexivity|left; unfold owners; rewrite !in_app_iff; auto].
  - (* psubscribe *)
    unfold do_psubscribe in *. match type of H with context [match ?snap with Ok _ => _ | Err _ => _ end] => destruct snap end; [|now left].
    cbn [fst] in H. unfold owners in H. cbn [set_subs subscriptions ls_subscriptions spub_keys] in H.
    rewrite !in_app_iff in H. destruct H as [H|[H|H]]; [|left; unfold owners; rewrite !in_app_iff; auto|left; unfold owners; rewrite !in_app_iff; auto].
    apply assoc_set_owner in H as [->|H]; [right; reflexivity|left; unfold owners; rewrite !in_app_iff; auto].
  - (* unsubscribe *)
    unfold do_unsubscribe in *. destruct (assoc_get id_eqb (c0, t) (subscriptions s)); [|now left].
    cbn [fst] in H. unfold owners in H. cbn [set_subs subscriptions ls_subscriptions spub_keys] in H.
    rewrite !in_app_iff in H. left. unfold owners. rewrite !in_app_iff. destruct H as [H|[H|H]]; auto. left. now apply assoc_del_owner in H.
  - (* subscribe_ls *)
    unfold do_subscribe_ls in *. cbn [fst] in H. unfold owners in H. cbn [set_ls subscriptions ls_subscriptions spub_keys] in H.
    rewrite !in_app_iff in H. destruct H as [H|[H|H]]; [left; unfold owners; rewrite !in_app_iff; auto| |left; unfold owners; rewrite !in_app_iff; auto].
    apply assoc_set_owner in H as [->|H]; [right; reflexivity|left; unfold owners; rewrite !in_app_iff; auto].
  - (* unsubscribe_ls *)
    unfold do_unsubscribe_ls in *. destruct (assoc_get id_eqb (c0, t) (ls_subscriptions s)); [|now left].
    cbn [fst] in H. unfold owners in H. cbn [set_ls subscriptions ls_subscriptions spub_keys] in H.
    rewrite !in_app_iff in H. left. unfold owners. rewrite !in_app_iff. destruct H as [H|[H|H]]; auto. right; left. now apply assoc_del_owner in H.
  - (* lock *) apply Same. unfold do_lock. crush_op; same_tabs.
  - (* acquire *) apply Same. unfold do_acquire. crush_op; same_tabs.
  - (* release *) apply Same. unfold do_release. crush_op; same_tabs.
  - (* connected *)
    apply Same. unfold do_connected. destruct (N.eqb c0 0); [reflexivity|]. destruct (existsb _ _); [reflexivity|].
    cbn [fst]. rewrite !seq2_insert_owners.
    match goal with |- context [do_insert ?a ?b ?k ?e ?f] => destruct (insert_tables a b k e f) as (A & B & C & _) end.
    now apply owners_tabs.
  - (* disconnected: the client's entries go, everybody else's stay *)
    assert (H0 : N.eqb c0 0 = false) by (destruct (N.eqb c0 0) eqn:E; [unfold do_disconnected in Hnc; rewrite E in Hnc; discriminate|reflexivity]).
    destruct (session_end_tables s c0 H0 Hnc) as (T1 & T2 & T3 & _). left.
    unfold owners in *. rewrite !in_app_iff in *.
    destruct H as [H|[H|H]]; apply in_map_iff in H as ([id x] & <- & Hin); cbn [fst].
    + left. apply T1 in Hin as (Hin & _). apply in_map_iff. now exists (id, x).
    + right; left. apply T2 in Hin as (Hin & _). apply in_map_iff. now exists (id, x).
    + right; right. apply T3 in Hin as (Hin & _). apply in_map_iff. now exists (id, x).
Qed.


Lemma disconnected_not_owned s c : is_crash (snd (do_disconnected s c)) = false -> ~ owned (fst (do_disconnected s c)) c.
Proof.
  intros Hnc H.
  assert (H0 : N.eqb c 0 = false) by (destruct (N.eqb c 0) eqn:E; [unfold do_disconnected in Hnc; rewrite E in Hnc; discriminate|reflexivity]).
  destruct (session_end_tables s c H0 Hnc) as (T1 & T2 & T3 & _).
  unfold owned, owners in H. rewrite !in_app_iff in H.
  destruct H as [H|[H|H]]; apply in_map_iff in H as ([id x] & E & Hin); cbn [fst] in E;
    [apply T1 in Hin as (_ & Hne)|apply T2 in Hin as (_ & Hne)|apply T3 in Hin as (_ & Hne)]; now cbn [fst] in Hne.
Qed.

(* ---- the invariant of a world ---- *)
Lemma lookup_update_same {A} (sn : N) (v : A) l : lookup_n sn (update_n sn v l) = Some v.
Proof. unfold update_n. cbn [lookup_n]. now rewrite N.eqb_refl. Qed.

(* a session that is not served: closed (or never opened), or without a token *)
Definition quiet (w : world) (sn : N) : Prop :=
  sess_open w sn = false \/ exists s, lookup_n sn (w_sess w) = Some s /\ ss_claims s = None.

Definition WInv (w : world) : Prop := w_auth_required w = true -> forall sn, quiet w sn -> ~ owned (w_core w) (cid_of sn).

Lemma cid_of_inj a b : cid_of a = cid_of b -> a = b.
Proof. unfold cid_of. lia. Qed.

Lemma WInv_init auth : WInv (world_init auth).
Proof. intros _ sn _ H. exact H. Qed.

(* closing a session: its entries go *)
Lemma close_WInv w sn s :
  WInv w -> lookup_n sn (w_sess w) = Some s -> ss_open s = true ->
  is_crash (snd (step (w_core w) (ODisconnected (cid_of sn)))) = false ->
  WInv (fst (close_session w sn)).
Proof.
  intros HW Hl Hop Hnc. unfold close_session. rewrite Hl, Hop. cbn [w_core].
  destruct (step (w_core w) (ODisconnected (cid_of sn))) as [core' out] eqn:Es. cbn [fst snd] in *.
  intros Ha sn' Hq Ho. cbn [set_core w_core w_auth_required] in Ho, Ha.
  destruct (N.eqb_spec sn' sn) as [->|Hne].
  - cbn [step] in Es. apply (disconnected_not_owned (w_core w) (cid_of sn)); rewrite Es; [exact Hnc|exact Ho].
  - assert (Hq' : quiet w sn').
    { destruct Hq as [Hq|(s' & Hs' & Hc)].
      - left. unfold sess_open in *. cbn [set_core w_sess] in Hq. now rewrite lookup_update_other in Hq.
      - right. exists s'. cbn [set_core w_sess] in Hs'. rewrite lookup_update_other in Hs' by exact Hne. auto. }
    apply (HW Ha sn' Hq').
    pose proof (step_owned (w_core w) (ODisconnected (cid_of sn)) (cid_of sn')) as S. rewrite Es in S. cbn [fst snd] in S.
    destruct (S Hnc Ho) as [H|[]]. exact H.
Qed.

Lemma quiet_same_sess w w' sn : w_sess w' = w_sess w -> quiet w' sn -> quiet w sn.
Proof. unfold quiet, sess_open. now intros ->. Qed.

(* the events a world can see: a connection is opened under a session number that is not in use *)
Definition wf_ev (w : world) (e : sevent) : Prop := match e with SOpen sn => sess_open w sn = false | _ => True end.
Definition ev_safe (w : world) (e : sevent) : Prop := forall o, core_op w e = Some o -> is_crash (snd (step (w_core w) o)) = false.

Definition creating (m : cmsg) : bool :=
  match m with MSubscribe _ _ _ _ | MPSubscribe _ _ _ _ _ | MSubscribeLs _ _ | MSPubInit _ _ => true | _ => false end.

Lemma creates_of_msg c m o c' : op_of c m = Some o -> creates o c' -> c' = c /\ creating m = true /\ exists p pat, auth_requirement m = Some (p, pat).
Proof.
  destruct m; cbn [op_of]; intros [= <-]; cbn [creates]; try contradiction; intros <-; (split; [reflexivity|]); (split; [reflexivity|]); cbn [auth_requirement]; eauto.
Qed.

Theorem sstep_WInv w e : WInv w -> wf_ev w e -> ev_safe w e -> WInv (fst (sstep w e)).
Proof.
  intros HW Hwf Hsafe.
  assert (Hclose : forall sn s, lookup_n sn (w_sess w) = Some s -> ss_open s = true -> core_op w e = Some (ODisconnected (cid_of sn)) ->
                    WInv (fst (close_session w sn))).
  { intros sn s Hl Hop Hc. apply (close_WInv w sn s HW Hl Hop). exact (Hsafe _ Hc). }
  destruct e as [sn|sn m|sn cl|sn|sn]; cbn [sstep].
  - (* a connection opens *)
    cbn [wf_ev] in Hwf. unfold open_session.
    pose proof (Hsafe (OConnected (cid_of sn)) eq_refl) as Hnc.
    destruct (step (w_core w) (OConnected (cid_of sn))) as [core' out] eqn:Es. cbn [fst snd] in *.
    intros Ha sn' Hq Ho. cbn [w_core w_auth_required] in Ho, Ha.
    pose proof (step_owned (w_core w) (OConnected (cid_of sn)) (cid_of sn')) as S. rewrite Es in S. cbn [fst snd] in S.
    destruct (S Hnc Ho) as [H|[]]. apply (HW Ha sn'); [|exact H].
    destruct (N.eqb_spec sn' sn) as [->|Hne]; [now left|].
    destruct Hq as [Hq|(s' & Hs' & Hc)].
    + left. unfold sess_open in *. cbn [w_sess] in Hq. now rewrite lookup_update_other in Hq.
    + right. exists s'. cbn [w_sess] in Hs'. rewrite lookup_update_other in Hs' by exact Hne. auto.
  - (* a line *)
    destruct (sess_open w sn) eqn:Eo; [|exact HW].
    destruct (sess_open_lookup w sn Eo) as (s & Hl & Hop).
    unfold ev_safe in Hsafe. cbn [core_op] in Hsafe, Hclose. rewrite Eo, Hl in Hsafe, Hclose.
    unfold handle. rewrite Hl.
    destruct m;
      try (match goal with |- context [(N.eqb (ss_proto s) 0 && v1_only ?mm) || ?tr] => destruct ((N.eqb (ss_proto s) 0 && v1_only mm) || tr)%bool end;
           [exact HW|];
           match goal with |- context [if w_auth_required w then ?a else ?b] => destruct (if w_auth_required w then a else b) as [[|]|] eqn:Eden end;
           [exact HW| |];
           [|match goal with |- WInv (fst (let '(w2, out2) := close_session w sn in _)) =>
               assert (Hc := Hclose sn s Hl Hop eq_refl); now destruct (close_session w sn) end];
           cbn [op_of] in *;
           match goal with |- context [step (w_core w) ?o] =>
             pose proof (Hsafe o eq_refl) as Hnc; pose proof (step_owned (w_core w) o) as S;
             destruct (step (w_core w) o) as [core' out] eqn:Es end;
           cbn [fst snd] in *; intros Ha sn' Hq Ho; cbn [w_core w_auth_required] in Ho, Ha;
           destruct (S (cid_of sn') Hnc Ho) as [H|Hcr];
           [apply (HW Ha sn'); [exact (quiet_same_sess w _ sn' eq_refl Hq)|exact H]|];
           (* only the four creating kinds can add an entry, and under authorization they are served to a session with a token *)
           cbn [creates] in Hcr;
           first [contradiction
                 | apply cid_of_inj in Hcr; subst sn';
                   rewrite Ha in Eden; cbn [auth_requirement] in Eden; destruct (ss_claims s) as [cl|] eqn:Ecl; [|discriminate];
                   destruct Hq as [Hq|(s' & Hs' & Hc')]; [unfold sess_open in Hq; cbn [w_sess] in Hq; rewrite Hl, Hop in Hq; discriminate|];
                   cbn [w_sess] in Hs'; rewrite Hl in Hs'; injection Hs' as <-; congruence]).
    + (* protocol switch: the record keeps its claims *)
      destruct (N.leb version 1).
      * cbn [fst]. intros Ha sn' Hq Ho. cbn [w_core w_auth_required] in Ho, Ha. apply (HW Ha sn'); [|exact Ho].
        destruct (N.eqb_spec sn' sn) as [->|Hne].
        -- destruct Hq as [Hq|(s' & Hs' & Hc')].
           ++ unfold sess_open in Hq. cbn [w_sess] in Hq. rewrite lookup_update_same in Hq. discriminate.
           ++ cbn [w_sess] in Hs'. rewrite lookup_update_same in Hs'. injection Hs' as <-. cbn [ss_claims] in Hc'. right. eauto.
        -- destruct Hq as [Hq|(s' & Hs' & Hc')].
           ++ left. unfold sess_open in *. cbn [w_sess] in Hq. now rewrite lookup_update_other in Hq.
           ++ right. exists s'. cbn [w_sess] in Hs'. rewrite lookup_update_other in Hs' by exact Hne. auto.
      * assert (Hc := Hclose sn s Hl Hop eq_refl). now destruct (close_session w sn).
    + assert (Hc := Hclose sn s Hl Hop eq_refl). now destruct (close_session w sn).
    + rewrite Bool.orb_true_r. exact HW.
  - (* an authorization request *)
    destruct (sess_open w sn) eqn:Eo; [|exact HW].
    destruct (sess_open_lookup w sn Eo) as (s & Hl & Hop).
    unfold ev_safe in Hsafe. cbn [core_op] in Hsafe, Hclose. rewrite Eo, Hl in Hsafe, Hclose.
    unfold authorize_session. rewrite Hl.
    destruct (ss_claims s) as [c0|] eqn:Ecl.
    + assert (Hc := Hclose sn s Hl Hop eq_refl). now destruct (close_session w sn).
    + destruct cl as [c1|].
      * cbn [fst]. intros Ha sn' Hq Ho. cbn [w_core w_auth_required] in Ho, Ha. apply (HW Ha sn'); [|exact Ho].
        destruct (N.eqb_spec sn' sn) as [->|Hne].
        -- destruct Hq as [Hq|(s' & Hs' & Hc')].
           ++ unfold sess_open in Hq. cbn [w_sess] in Hq. rewrite lookup_update_same in Hq. discriminate.
           ++ cbn [w_sess] in Hs'. rewrite lookup_update_same in Hs'. injection Hs' as <-. discriminate.
        -- destruct Hq as [Hq|(s' & Hs' & Hc')].
           ++ left. unfold sess_open in *. cbn [w_sess] in Hq. now rewrite lookup_update_other in Hq.
           ++ right. exists s'. cbn [w_sess] in Hs'. rewrite lookup_update_other in Hs' by exact Hne. auto.
      * assert (Hc := Hclose sn s Hl Hop eq_refl). now destruct (close_session w sn).
  - (* garbage *)
    destruct (sess_open w sn) eqn:Eo; [|exact HW].
    destruct (sess_open_lookup w sn Eo) as (s & Hl & Hop). cbn [core_op] in Hclose. rewrite Eo in Hclose.
    exact (Hclose sn s Hl Hop eq_refl).
  - (* the connection ends *)
    destruct (lookup_n sn (w_sess w)) as [s|] eqn:Hl.
    + destruct (ss_open s) eqn:Hop.
      * cbn [core_op] in Hclose. rewrite Hl, Hop in Hclose. exact (Hclose sn s Hl Hop eq_refl).
      * unfold close_session. rewrite Hl, Hop. exact HW.
    + unfold close_session. rewrite Hl. exact HW.
Qed.

(* ---- what it buys: a session without a token is never served and never changes anything ---- *)
Lemma assoc_get_owner {V} (k : N * N) (l : list ((N * N) * V)) v :
  assoc_get id_eqb k l = Some v -> In (fst k) (map (fun e => fst (fst e)) l).
Proof.
  induction l as [|[k' v'] l IH]; [discriminate|]. cbn [assoc_get map fst In].
  destruct (id_eqb k k') eqn:E; [|intros H; right; now apply IH].
  intros _. left. unfold id_eqb in E. apply andb_prop in E as [E _]. now apply N.eqb_eq in E.
Qed.

Definition is_refusal (x : smsg) : Prop := match x with SErr _ _ _ => True | SAck 0 => True | _ => False end.

Theorem tokenless_no_effect w sn s m :
  WInv w -> w_auth_required w = true -> lookup_n sn (w_sess w) = Some s -> ss_open s = true -> ss_claims s = None ->
  let '(w1, out, v) := handle w sn m in
  w_core w1 = w_core w /\ Forall (fun x => fst x = sn /\ is_refusal (snd x)) out.
Proof.
  intros HW Ha Hl Hop Hcl.
  assert (Hq : quiet w sn) by (right; eauto).
  assert (Hno : ~ owned (w_core w) (cid_of sn)) by exact (HW Ha sn Hq).
  unfold handle. rewrite Hl, Ha, Hcl.
  destruct m; cbn [auth_requirement];
    try (destruct ((N.eqb (ss_proto s) 0 && _) || _)%bool; [split; [reflexivity|repeat constructor]|split; [reflexivity|constructor]]).
  - (* protocol switch *) destruct (N.leb version 1); (split; [reflexivity|repeat constructor]).
  - split; [reflexivity|constructor].
  - (* spub: no stream *)
    cbn [v1_only]. rewrite Bool.andb_false_r. cbn [orb op_of step]. unfold do_spub.
    destruct (assoc_get id_eqb (cid_of sn, tid) (spub_keys (w_core w))) as [key|] eqn:E.
    + exfalso. apply Hno. unfold owned, owners. rewrite !in_app_iff. right; right. exact (assoc_get_owner _ _ _ E).
    + cbn. split; [reflexivity|repeat constructor].
  - (* unsubscribe: no subscription *)
    cbn [v1_only]. rewrite Bool.andb_false_r. cbn [orb op_of step]. unfold do_unsubscribe.
    destruct (assoc_get id_eqb (cid_of sn, tid) (subscriptions (w_core w))) as [pat|] eqn:E.
    + exfalso. apply Hno. unfold owned, owners. rewrite !in_app_iff. left. exact (assoc_get_owner _ _ _ E).
    + cbn. split; [reflexivity|repeat constructor].
  - cbn [v1_only]. rewrite Bool.andb_false_r. cbn [orb op_of step]. unfold do_unsubscribe_ls.
    destruct (assoc_get id_eqb (cid_of sn, tid) (ls_subscriptions (w_core w))) as [pat|] eqn:E.
    + exfalso. apply Hno. unfold owned, owners. rewrite !in_app_iff. right; left. exact (assoc_get_owner _ _ _ E).
    + cbn. split; [reflexivity|repeat constructor].
Qed.

Lemma close_auth w sn : w_auth_required (fst (close_session w sn)) = w_auth_required w.
Proof.
  unfold close_session. destruct (lookup_n sn (w_sess w)) as [s|]; [|reflexivity]. destruct (ss_open s); [|reflexivity].
  cbn [w_core]. now destruct (step _ _).
Qed.

Lemma close_auth' w sn (pre : list (N * smsg)) :
  w_auth_required (fst (let '(w2, out2) := close_session w sn in (w2, pre ++ out2))) = w_auth_required w.
Proof. rewrite <- (close_auth w sn). now destruct (close_session w sn). Qed.

Lemma sstep_auth w e : w_auth_required (fst (sstep w e)) = w_auth_required w.
Proof.
  destruct e as [sn|sn m|sn cl|sn|sn]; cbn [sstep].
  - unfold open_session. now destruct (step _ _).
  - destruct (sess_open w sn); [|reflexivity]. unfold handle. destruct (lookup_n sn (w_sess w)) as [s|]; [|apply close_auth'].
    destruct m;
      try (match goal with |- context [(N.eqb (ss_proto s) 0 && v1_only ?mm) || ?tr] => destruct ((N.eqb (ss_proto s) 0 && v1_only mm) || tr)%bool end;
           [reflexivity|];
           match goal with |- context [if w_auth_required w then ?a else ?b] => destruct (if w_auth_required w then a else b) as [[|]|] end;
           [reflexivity| |apply close_auth'];
           cbn [op_of]; match goal with |- context [step (w_core w) ?o] => destruct (step (w_core w) o) end; reflexivity).
    + destruct (N.leb version 1); [reflexivity|apply close_auth'].
    + apply close_auth'.
    + rewrite Bool.orb_true_r. reflexivity.
  - destruct (sess_open w sn); [|reflexivity]. unfold authorize_session. destruct (lookup_n sn (w_sess w)) as [s|]; [|apply close_auth'].
    destruct (ss_claims s); [apply close_auth'|]. destruct cl; [reflexivity|apply close_auth'].
  - destruct (sess_open w sn); [apply close_auth|reflexivity].
  - apply close_auth.
Qed.

Lemma wfinal_auth es : forall w, w_auth_required (wfinal w es) = w_auth_required w.
Proof.
  induction es as [|e es IH]; intros w; [reflexivity|]. cbn [wfinal fold_left]. fold (wfinal (fst (sstep w e)) es).
  now rewrite IH, sstep_auth.
Qed.

(* ---- along every history ---- *)
From WB Require Import Proofs.LenFacts Proofs.C01Proof Proofs.NoCrash.

Fixpoint wf_hist (w : world) (es : list sevent) : Prop :=
  match es with [] => True | e :: r => wf_ev w e /\ wf_hist (fst (sstep w e)) r end.

Lemma ops_of_safe w e : ev_ok e -> Forall safe_op (ops_of w e).
Proof.
  intros He. unfold ops_of. destruct (core_op w e) as [o|] eqn:E; [|constructor]. constructor; [|constructor]. exact (core_op_safe w e o He E).
Qed.

Theorem reach_WInv es : forall w,
  Inv (w_core w) -> LH (w_core w) -> WInv w -> Forall ev_ok es -> wf_hist w es ->
  WInv (wfinal w es) /\ Inv (w_core (wfinal w es)).
Proof.
  induction es as [|e es IH]; intros w HI HLH HW Hev Hwf; [split; assumption|].
  apply Forall_cons_iff in Hev as (He & Hes). destruct Hwf as (Hw1 & Hwf).
  cbn [wfinal fold_left]. fold (wfinal (fst (sstep w e)) es).
  assert (Hsafe : ev_safe w e).
  { intros o Ho. pose proof (core_op_safe w e o He Ho) as Hs. destruct (step_safe (w_core w) o HI HLH Hs) as (Hnc & _). now apply not_crash_is. }
  pose proof (sstep_WInv w e HW Hw1 Hsafe) as HW'.
  assert (Hcore : Inv (w_core (fst (sstep w e))) /\ LH (w_core (fst (sstep w e)))).
  { rewrite sstep_core. unfold ops_of. destruct (core_op w e) as [o|] eqn:Ho; [|split; assumption].
    unfold final. cbn [fold_left]. destruct (step_safe (w_core w) o HI HLH (core_op_safe w e o He Ho)) as (_ & H1 & H2). split; assumption. }
  destruct Hcore as (HI' & HLH'). now apply IH.
Qed.

(* with authorization required, after ANY history of events: a line from a session that has presented no valid token is
   answered with a refusal or ends the session, and leaves the store, the subscriptions, the locks -- the whole core --
   exactly as they were; the three request kinds the authorization table does not check included *)
Theorem no_token_no_service es sn s m :
  Forall ev_ok es -> wf_hist (world_init true) es ->
  let w := wfinal (world_init true) es in
  lookup_n sn (w_sess w) = Some s -> ss_open s = true -> ss_claims s = None ->
  let '(w1, out, v) := handle w sn m in
  w_core w1 = w_core w /\ Forall (fun x => fst x = sn /\ is_refusal (snd x)) out.
Proof.
  intros Hev Hwf w Hl Hop Hcl.
  destruct (reach_WInv es (world_init true) Inv_init LH_init (WInv_init true) Hev Hwf) as (HW & _). fold w in HW.
  assert (Ha : w_auth_required w = true) by (subst w; now rewrite wfinal_auth).
  exact (tokenless_no_effect w sn s m HW Ha Hl Hop Hcl).
Qed.

Example no_token_demo :
  let all := Claims [[35]] [[35]] [[35]] in
  let es := [SOpen 0; SOpen 1; SAuth 1 (Some all); SMsg 1 (MSubscribe 1 [97] false None); SMsg 1 (MSet 2 [97] JNull); SMsg 0 (MUnsubscribe 1)] in
  (Forall ev_ok es /\ wf_hist (world_init true) es) /\
  let w := wfinal (world_init true) es in
  (exists s, lookup_n 0 (w_sess w) = Some s /\ ss_open s = true /\ ss_claims s = None) /\
  snd (fst (handle w 0 (MSPub 1 JNull))) = [(0, SErr 1 E_NoPubStream [])] /\
  snd (fst (handle w 0 (MUnsubscribe 1))) = [(0, SErr 1 E_NotSubscribed [])] /\
  snd (handle w 0 (MGet 3 [97])) = Close /\
  snd (fst (handle w 1 (MGet 3 [97]))) = [(1, SState 3 (SValue JNull))].
Proof.
  split; [split; [repeat constructor|vm_compute; repeat split; reflexivity]|].
  vm_compute. repeat split; try reflexivity. eexists. repeat split; reflexivity.
Qed.
