(* worterbuch-common/src/lib.rs: KeySegment, parse_segments (395-412), KeySegment::parse (483-488),
   From<&str> for KeySegment (473-481); error codes of ErrorCode (231-259). *)
From WB Require Import Base.Str.

Inductive kseg := Reg (s : str) | Wild | Multi.

Definition kseg_of_str (s : str) : kseg :=
  if str_eqb s [ch_qmark] then Wild
  else if str_eqb s [ch_hash] then Multi
  else Reg s.

Definition kseg_str (k : kseg) : str :=
  match k with Reg s => s | Wild => [ch_qmark] | Multi => [ch_hash] end.

Definition kseg_eqb (a b : kseg) : bool :=
  match a, b with
  | Reg x, Reg y => str_eqb x y
  | Wild, Wild => true
  | Multi, Multi => true
  | _, _ => false
  end.

Fixpoint kpath_eqb (a b : list kseg) : bool :=
  match a, b with
  | [], [] => true
  | x :: a', y :: b' => kseg_eqb x y && kpath_eqb a' b'
  | _, _ => false
  end.

(* KeySegment::parse *)
Definition kseg_parse (p : str) : list kseg := map kseg_of_str (split slash p).

Inductive res (A : Type) := Ok (a : A) | Err (code : N).
Arguments Ok {A}. Arguments Err {A}.

Definition E_IllegalWildcard : N := 0.
Definition E_IllegalMultiWildcard : N := 1.
Definition E_NoSuchValue : N := 5.
Definition E_NotSubscribed : N := 6.
Definition E_ReadOnlyKey : N := 9.
Definition E_NoPubStream : N := 15.
Definition E_NotLeader : N := 16.
Definition E_Cas : N := 17.
Definition E_CasVersionMismatch : N := 18.
Definition E_KeyIsLocked : N := 20.
Definition E_KeyIsNotLocked : N := 21.
Definition E_ClientIDCollision : N := 24.
Definition E_EmptyKey : N := 25.
Definition E_SerdeError : N := 4.

(* parse_segments: first wildcard segment decides the error *)
Fixpoint regular_segments (l : list str) : res (list str) :=
  match l with
  | [] => Ok []
  | s :: l' =>
      match kseg_of_str s with
      | Wild => Err E_IllegalWildcard
      | Multi => Err E_IllegalMultiWildcard
      | Reg r => match regular_segments l' with
                 | Ok rs => Ok (r :: rs)
                 | Err e => Err e
                 end
      end
  end.
Definition parse_segments (p : str) : res (list str) := regular_segments (split slash p).

(* well-formed pattern: `#` only in last position *)
Fixpoint wf_pat (p : list kseg) : bool :=
  match p with
  | [] => true
  | Multi :: (_ :: _) => false
  | _ :: p' => wf_pat p'
  end.
