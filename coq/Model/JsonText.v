(* serde_json's compact writer (CompactFormatter + format_escaped_str): one line of text per value. *)
From WB Require Import Base.Str Base.Json.

Definition hex_low (n : N) : N := if N.ltb n 10 then 48 + n else 87 + n.

(* ESCAPE table of serde_json::ser: quote, backslash, b f n r t escapes, other controls as u00XX *)
Definition esc_char (c : N) : str :=
  if N.eqb c 34 then [92; 34]
  else if N.eqb c 92 then [92; 92]
  else if N.eqb c 8 then [92; 98]
  else if N.eqb c 12 then [92; 102]
  else if N.eqb c 10 then [92; 110]
  else if N.eqb c 13 then [92; 114]
  else if N.eqb c 9 then [92; 116]
  else if N.ltb c 32 then [92; 117; 48; 48; hex_low (N.div c 16); hex_low (N.modulo c 16)]
  else [c].

Definition print_str (s : str) : str := 34 :: flat_map esc_char s ++ [34].

Fixpoint print (j : json) : str :=
  match j with
  | JNull => [110; 117; 108; 108]
  | JBool true => [116; 114; 117; 101]
  | JBool false => [102; 97; 108; 115; 101]
  | JNum l => l
  | JStr s => print_str s
  | JArr l =>
      91 :: (fix go (l : list json) : str :=
               match l with
               | [] => []
               | x :: l' => match l' with [] => print x | _ => print x ++ 44 :: go l' end
               end) l ++ [93]
  | JObj l =>
      123 :: (fix go (l : list (str * json)) : str :=
                match l with
                | [] => []
                | (k, x) :: l' =>
                    match l' with
                    | [] => print_str k ++ 58 :: print x
                    | _ => print_str k ++ 58 :: print x ++ 44 :: go l'
                    end
                end) l ++ [125]
  end.

(* number literals handed to the model contain no line break (they are serde_json's own output) *)
Fixpoint lits_ok (j : json) : Prop :=
  match j with
  | JNum l => ~ In 10 l
  | JArr l => (fix go (l : list json) : Prop := match l with [] => True | x :: l' => lits_ok x /\ go l' end) l
  | JObj l => (fix go (l : list (str * json)) : Prop := match l with [] => True | (_, x) :: l' => lits_ok x /\ go l' end) l
  | _ => True
  end.
