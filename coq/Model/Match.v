(* The wildcard relations.  [doc_match] is the documented relation (README "Wildcards"):
   `?` exactly one level, a trailing `#` the remaining (one or more) levels, any other segment
   itself, `#` elsewhere is ill-formed and matches nothing.  [store_match] / [sub_match] are
   the relations the traversals of store.rs (ncollect_matches, ndelete_matches) and
   subscribers.rs (add_matches) compute; that they do is proved in Proofs/. *)
From WB Require Import Base.Str Model.Key.

Fixpoint doc_match (p : list kseg) (k : list str) : bool :=
  match p, k with
  | [], [] => true
  | Multi :: [], _ :: _ => true
  | Wild :: p', _ :: k' => doc_match p' k'
  | Reg s :: p', x :: k' => str_eqb s x && doc_match p' k'
  | _, _ => false
  end.

Fixpoint store_match (p : list kseg) (k : list str) : bool :=
  match p with
  | [] => match k with [] => true | _ => false end
  | Multi :: [] => true
  | Multi :: _ => false
  | Wild :: p' => match k with _ :: k' => store_match p' k' | [] => false end
  | Reg s :: p' => match k with x :: k' => str_eqb s x && store_match p' k' | [] => false end
  end.

Fixpoint sub_match (p : list kseg) (k : list str) : bool :=
  match p, k with
  | [], [] => true
  | Multi :: _, _ :: _ => true
  | Wild :: p', _ :: k' => sub_match p' k'
  | Reg s :: p', x :: k' => str_eqb s x && sub_match p' k'
  | _, _ => false
  end.

(* the part of store_match that the documentation does not have: a trailing `#` standing
   for zero levels *)
Fixpoint zero_multi (p : list kseg) (k : list str) : bool :=
  match p with
  | [] => false
  | Multi :: [] => match k with [] => true | _ => false end
  | Multi :: _ => false
  | Wild :: p' => match k with _ :: k' => zero_multi p' k' | [] => false end
  | Reg s :: p' => match k with x :: k' => str_eqb s x && zero_multi p' k' | [] => false end
  end.
