(* worterbuch-client/src/lib.rs: TransactionIds (1136-1154), Callbacks (1124-1134), process_incoming_command
   (1928-2250: which transaction id, which callback map, which client message), process_incoming_server_message and
   deliver_* (2253-2366), and the result conversions of the awaited API functions (get_generic, cget_generic,
   delete_generic, ... 474-960);  worterbuch-client/src/buffer.rs SendBuffer (after the fix of F14).

   A call is identified by a number the caller chooses ([call]); HashMap::insert replaces an entry with the same key. *)
From WB Require Import Base.Str Base.Json Model.Codec.

Inductive ccmd :=
| CSet (k : str) (v : json) | CSetAsync (k : str) (v : json)
| CCSet (k : str) (v : json) (ver : N)
| CGet (k : str) | CGetAsync (k : str) | CCGet (k : str) | CPGet (p : str)
| CDelete (k : str) | CPDelete (p : str) (quiet : bool)
| CLs (parent : option str) | CPLs (parent : option str)
| CPublish (k : str) (v : json)
| CSPubInit (k : str) | CSPub (tid : N) (v : json)
| CSubscribe (k : str) (unique live : bool) | CPSubscribe (p : str) (unique live : bool) (agg : option N)
| CUnsubscribe (tid : N) | CUnsubscribeAsync (tid : N)
| CSubscribeLs (parent : option str) | CUnsubscribeLs (tid : N) | CUnsubscribeLsAsync (tid : N)
| CLock (k : str) | CReleaseLock (k : str)
(* the remaining fire-and-forget variants: the caller gets the transaction id at once, no callback is filed *)
| CCSetAsync (k : str) (v : json) (ver : N) | CSPubInitAsync (k : str) | CSPubAsync (tid : N) (v : json)
| CPublishAsync (k : str) (v : json) | CCGetAsync (k : str) | CPGetAsync (p : str)
| CDeleteAsync (k : str) | CPDeleteAsync (p : str) (quiet : bool) | CLsAsync (parent : option str) | CPLsAsync (parent : option str)
| CSubscribeAsync (k : str) (unique live : bool) | CPSubscribeAsync (p : str) (unique live : bool) (agg : option N)
| CSubscribeLsAsync (parent : option str) | CLockAsync (k : str) | CReleaseLockAsync (k : str).

Definition cbmap := list (N * N).        (* transaction id -> call *)

Fixpoint cb_insert (t c : N) (m : cbmap) : cbmap :=
  match m with
  | [] => [(t, c)]
  | (t', c') :: m' => if N.eqb t t' then (t, c) :: m' else (t', c') :: cb_insert t c m'
  end.
Fixpoint cb_find (t : N) (m : cbmap) : option N :=
  match m with [] => None | (t', c) :: m' => if N.eqb t t' then Some c else cb_find t m' end.
Fixpoint cb_remove (t : N) (m : cbmap) : cbmap :=
  match m with [] => [] | (t', c) :: m' => if N.eqb t t' then cb_remove t m' else (t', c) :: cb_remove t m' end.

Record cstate := CState {
  next_tid : N;
  ack : cbmap; state : cbmap; cstate_ : cbmap; pstate : cbmap; lsstate : cbmap;     (* one-shot answers *)
  sub : cbmap; psub : cbmap; subls : cbmap }.                                            (* event streams *)

Definition cinit : cstate := CState 1 [] [] [] [] [] [] [] [].

(* what the caller learns at once (the Async variants return the transaction id without waiting) *)
Inductive ticket := NoTicket | Ticket (tid : N).

Definition on_cmd (c : cstate) (call : N) (cmd : ccmd) : cstate * cmsg * ticket :=
  let t := next_tid c in
  let n := (t + 1)%N in                       (* transaction_ids.next() is called for every command *)
  let with_ack := CState n (cb_insert t call (ack c)) (state c) (cstate_ c) (pstate c) (lsstate c) (sub c) (psub c) (subls c) in
  let plain := CState n (ack c) (state c) (cstate_ c) (pstate c) (lsstate c) (sub c) (psub c) (subls c) in
  match cmd with
  | CSet k v => (with_ack, MSet t k v, NoTicket)
  | CSetAsync k v => (plain, MSet t k v, Ticket t)
  | CCSet k v ver => (with_ack, MCSet t k v ver, NoTicket)
  | CGet k => (CState n (ack c) (cb_insert t call (state c)) (cstate_ c) (pstate c) (lsstate c) (sub c) (psub c) (subls c), MGet t k, NoTicket)
  | CGetAsync k => (plain, MGet t k, Ticket t)
  | CCGet k => (CState n (ack c) (state c) (cb_insert t call (cstate_ c)) (pstate c) (lsstate c) (sub c) (psub c) (subls c), MCGet t k, NoTicket)
  | CPGet p => (CState n (ack c) (state c) (cstate_ c) (cb_insert t call (pstate c)) (lsstate c) (sub c) (psub c) (subls c), MPGet t p, NoTicket)
  | CDelete k => (CState n (ack c) (cb_insert t call (state c)) (cstate_ c) (pstate c) (lsstate c) (sub c) (psub c) (subls c), MDelete t k, NoTicket)
  | CPDelete p q => (CState n (ack c) (state c) (cstate_ c) (cb_insert t call (pstate c)) (lsstate c) (sub c) (psub c) (subls c), MPDelete t p (Some q), NoTicket)
  | CLs parent => (CState n (ack c) (state c) (cstate_ c) (pstate c) (cb_insert t call (lsstate c)) (sub c) (psub c) (subls c), MLs t parent, NoTicket)
  | CPLs parent => (CState n (ack c) (state c) (cstate_ c) (pstate c) (cb_insert t call (lsstate c)) (sub c) (psub c) (subls c), MPLs t parent, NoTicket)
  | CPublish k v => (with_ack, MPublish t k v, NoTicket)
  | CSPubInit k => (with_ack, MSPubInit t k, NoTicket)
  | CSPub tid v =>                             (* keyed by the stream's id, not by a fresh one *)
      (CState n (cb_insert tid call (ack c)) (state c) (cstate_ c) (pstate c) (lsstate c) (sub c) (psub c) (subls c), MSPub tid v, NoTicket)
  | CSubscribe k u l =>
      (CState n (cb_insert t call (ack c)) (state c) (cstate_ c) (pstate c) (lsstate c) (cb_insert t call (sub c)) (psub c) (subls c),
       MSubscribe t k u (Some l), NoTicket)
  | CPSubscribe p u l agg =>
      (CState n (cb_insert t call (ack c)) (state c) (cstate_ c) (pstate c) (lsstate c) (sub c) (cb_insert t call (psub c)) (subls c),
       MPSubscribe t p u agg (Some l), NoTicket)
  | CUnsubscribe tid =>
      (CState n (cb_insert tid call (ack c)) (state c) (cstate_ c) (pstate c) (lsstate c) (cb_remove tid (sub c)) (cb_remove tid (psub c)) (subls c),
       MUnsubscribe tid, NoTicket)
  | CUnsubscribeAsync tid =>
      (CState n (ack c) (state c) (cstate_ c) (pstate c) (lsstate c) (cb_remove tid (sub c)) (cb_remove tid (psub c)) (subls c),
       MUnsubscribe tid, Ticket tid)
  | CSubscribeLs parent =>
      (CState n (cb_insert t call (ack c)) (state c) (cstate_ c) (pstate c) (lsstate c) (sub c) (psub c) (cb_insert t call (subls c)),
       MSubscribeLs t parent, NoTicket)
  | CUnsubscribeLs tid =>
      (CState n (cb_insert tid call (ack c)) (state c) (cstate_ c) (pstate c) (lsstate c) (sub c) (psub c) (cb_remove tid (subls c)),
       MUnsubscribeLs tid, NoTicket)
  | CUnsubscribeLsAsync tid =>
      (CState n (ack c) (state c) (cstate_ c) (pstate c) (lsstate c) (sub c) (psub c) (cb_remove tid (subls c)),
       MUnsubscribeLs tid, Ticket tid)
  | CLock k => (with_ack, MLock t k, NoTicket)
  | CReleaseLock k => (with_ack, MReleaseLock t k, NoTicket)
  | CCSetAsync k v ver => (plain, MCSet t k v ver, Ticket t)
  | CSPubInitAsync k => (plain, MSPubInit t k, Ticket t)
  | CSPubAsync tid v => (plain, MSPub tid v, Ticket tid)
  | CPublishAsync k v => (plain, MPublish t k v, Ticket t)
  | CCGetAsync k => (plain, MCGet t k, Ticket t)
  | CPGetAsync p => (plain, MPGet t p, Ticket t)
  | CDeleteAsync k => (plain, MDelete t k, Ticket t)
  | CPDeleteAsync p q => (plain, MPDelete t p (Some q), Ticket t)
  | CLsAsync parent => (plain, MLs t parent, Ticket t)
  | CPLsAsync parent => (plain, MPLs t parent, Ticket t)
  | CSubscribeAsync k u l => (plain, MSubscribe t k u (Some l), Ticket t)
  | CPSubscribeAsync p u l agg => (plain, MPSubscribe t p u agg (Some l), Ticket t)
  | CSubscribeLsAsync parent => (plain, MSubscribeLs t parent, Ticket t)
  | CLockAsync k => (plain, MLock t k, Ticket t)
  | CReleaseLockAsync k => (plain, MReleaseLock t k, Ticket t)
  end.

(* what reaches the application *)
Inductive delivery :=
| DAnswer (call : N) (m : smsg)          (* a one-shot callback fires with this server message *)
| DEvent (call : N) (m : smsg).          (* a subscription stream of that call receives the event of this message *)

Definition opt_list {A} (o : option A) (f : A -> delivery) : list delivery :=
  match o with Some a => [f a] | None => [] end.

Definition on_msg (c : cstate) (m : smsg) : cstate * list delivery :=
  match m with
  | SState t _ =>
      (CState (next_tid c) (ack c) (cb_remove t (state c)) (cstate_ c) (pstate c) (lsstate c) (sub c) (psub c) (subls c),
       opt_list (cb_find t (state c)) (fun call => DAnswer call m) ++ opt_list (cb_find t (sub c)) (fun call => DEvent call m))
  | SCState t _ _ =>
      (CState (next_tid c) (ack c) (state c) (cb_remove t (cstate_ c)) (pstate c) (lsstate c) (sub c) (psub c) (subls c),
       opt_list (cb_find t (cstate_ c)) (fun call => DAnswer call m))
  | SPState t _ _ =>
      (CState (next_tid c) (ack c) (state c) (cstate_ c) (cb_remove t (pstate c)) (lsstate c) (sub c) (psub c) (subls c),
       opt_list (cb_find t (pstate c)) (fun call => DAnswer call m) ++ opt_list (cb_find t (psub c)) (fun call => DEvent call m))
  | SLsState t _ =>
      (CState (next_tid c) (ack c) (state c) (cstate_ c) (pstate c) (cb_remove t (lsstate c)) (sub c) (psub c) (subls c),
       opt_list (cb_find t (lsstate c)) (fun call => DAnswer call m) ++ opt_list (cb_find t (subls c)) (fun call => DEvent call m))
  | SAck t =>
      (CState (next_tid c) (cb_remove t (ack c)) (state c) (cstate_ c) (pstate c) (lsstate c) (sub c) (psub c) (subls c),
       opt_list (cb_find t (ack c)) (fun call => DAnswer call m))
  | SErr t _ _ =>
      (CState (next_tid c) (cb_remove t (ack c)) (cb_remove t (state c)) (cb_remove t (cstate_ c)) (cb_remove t (pstate c)) (cb_remove t (lsstate c))
              (sub c) (psub c) (subls c),
       opt_list (cb_find t (ack c)) (fun call => DAnswer call m) ++ opt_list (cb_find t (state c)) (fun call => DAnswer call m) ++
       opt_list (cb_find t (cstate_ c)) (fun call => DAnswer call m) ++ opt_list (cb_find t (pstate c)) (fun call => DAnswer call m) ++
       opt_list (cb_find t (lsstate c)) (fun call => DAnswer call m))
  | SWelcome _ _ _ _ _ | SAuthorized _ => (c, [])
  end.

(* ---- what the awaited API functions return ---- *)
Inductive cresult :=
| CROk | CRNone | CRVal (v : json) | CRCVal (v : json) (ver : N) | CRKvs (l : list (str * json)) | CRNames (l : list str)
| CRTid (t : N) | CRErr (code : N) | CRUnexpected.

Definition E_NoSuchValue : N := 5.

Definition result_of (cmd : ccmd) (m : smsg) : cresult :=
  match cmd, m with
  | (CGet _ | CDelete _), SState _ (SValue v) => CRVal v
  | CGet _, SState _ (SDeleted _) => CRNone
  | CDelete _, SState _ (SDeleted v) => CRVal v
  | (CGet _ | CDelete _ | CCGet _), SErr _ code _ => if N.eqb code E_NoSuchValue then CRNone else CRErr code
  | CCGet _, SCState _ v ver => CRCVal v ver
  | (CPGet _ | CPDelete _ _), SPState _ _ (PKvs l) => CRKvs l
  | (CPGet _ | CPDelete _ _), SPState _ _ (PDel l) => CRKvs l
  | (CLs _ | CPLs _), SLsState _ l => CRNames l
  | (CSPubInit _ | CSubscribe _ _ _ | CPSubscribe _ _ _ _ | CSubscribeLs _), SAck t => CRTid t
  | _, SAck _ => CROk
  | _, SErr _ code _ => CRErr code
  | _, _ => CRUnexpected
  end.

(* ---- SendBuffer ---- *)
Inductive bkind := BSet | BPub.
Inductive bevent :=
| Later (k : bkind) (key : str) (v : json)       (* set_later / publish_later, taken from the channel *)
| Fire (k : bkind) (key : str).                   (* the delayed task of that key wakes up *)

Definition kbuf := list (str * json).
Fixpoint kb_insert (key : str) (v : json) (b : kbuf) : kbuf * bool :=     (* (buffer, was there an entry before) *)
  match b with
  | [] => ([(key, v)], false)
  | (k', v') :: b' => if str_eqb key k' then ((key, v) :: b', true) else let '(r, p) := kb_insert key v b' in ((k', v') :: r, p)
  end.
Fixpoint kb_take (key : str) (b : kbuf) : kbuf * option json :=
  match b with
  | [] => ([], None)
  | (k', v') :: b' => if str_eqb key k' then (b', Some v') else let '(r, o) := kb_take key b' in ((k', v') :: r, o)
  end.

Record sbuf := SBuf { set_b : kbuf; pub_b : kbuf; sb_timers : list (bkind * str) }.
Definition sb_init : sbuf := SBuf [] [] [].

Definition bkind_eqb (a b : bkind) : bool := match a, b with BSet, BSet | BPub, BPub => true | _, _ => false end.
Fixpoint remove_timer (k : bkind) (key : str) (l : list (bkind * str)) : list (bkind * str) :=
  match l with
  | [] => []
  | (k', key') :: l' => if bkind_eqb k k' && str_eqb key key' then l' else (k', key') :: remove_timer k key l'
  end.

Inductive bsend := SendSet (key : str) (v : json) | SendPublish (key : str) (v : json).

Definition bstep (s : sbuf) (e : bevent) : sbuf * list bsend :=
  match e with
  | Later BSet key v =>
      let '(b, prev) := kb_insert key v (set_b s) in
      (SBuf b (pub_b s) (if prev then sb_timers s else sb_timers s ++ [(BSet, key)]), [])
  | Later BPub key v =>
      let '(b, prev) := kb_insert key v (pub_b s) in
      (SBuf (set_b s) b (if prev then sb_timers s else sb_timers s ++ [(BPub, key)]), [])
  | Fire BSet key =>
      let '(b, o) := kb_take key (set_b s) in
      (SBuf b (pub_b s) (remove_timer BSet key (sb_timers s)), match o with Some v => [SendSet key v] | None => [] end)
  | Fire BPub key =>
      let '(b, o) := kb_take key (pub_b s) in
      (SBuf (set_b s) b (remove_timer BPub key (sb_timers s)), match o with Some v => [SendPublish key v] | None => [] end)
  end.

Fixpoint brun (s : sbuf) (es : list bevent) : sbuf * list bsend :=
  match es with
  | [] => (s, [])
  | e :: es' => let '(s1, o1) := bstep s e in let '(s2, o2) := brun s1 es' in (s2, o1 ++ o2)
  end.
