(* worterbuch/src/worterbuch.rs (Worterbuch), the lock part of store.rs (985-1075) and the
   `force = false` wiring of lib.rs::process_api_call.  One request = one [step].
   extended_monitoring = false; persistent_storage = Noop. *)
From WB Require Import Base.Str Base.Json Model.Key Model.Consts Model.Store Model.Subs Model.Entry.

Definition cid := N.                    (* 0 = INTERNAL_CLIENT_ID (nil uuid) *)

Definition hexdig (n : N) : N := if N.ltb n 10 then 48 + n else 87 + n.
Definition client_str (c : cid) : str :=
  if N.eqb c 0 then uuid_nil else uuid_prefix ++ [hexdig (N.div c 16); hexdig (N.modulo c 16)].

(* topic!(a, b, ..) *)
Definition topic (l : list str) : str := join slash l.

(* ---------------------------------------------------------------- insert decision *)

Inductive decision :=
| DOk (existed changed : bool) (e : entry)
| DErr (code : N)
| DCrash.                                  (* `v + 1` overflow: panic in debug builds *)

Definition bump (v : json) (n : N) (existed changed : bool) : decision :=
  if N.eqb n u64_max then DCrash else DOk existed changed (Cas v (n + 1)).

(* store.rs:771-819 *)
Definition decide (cur : option entry) (new : entry) (force : bool) : decision :=
  match cur, new with
  | None, Plain v => DOk false true (Plain v)
  | None, Cas v n => if N.eqb n 0 || force then DOk false true (Cas v 1) else DErr E_CasVersionMismatch
  | Some (Plain c), Plain v => DOk true (negb (json_eqb c v)) (Plain v)
  | Some (Plain c), Cas v n =>
      if N.eqb n 0 || force then DOk true (negb (json_eqb c v)) (Cas v 1) else DErr E_CasVersionMismatch
  | Some (Cas c _), Plain v => if force then DOk true (negb (json_eqb c v)) (Plain v) else DErr E_Cas
  | Some (Cas c vc), Cas v n =>
      if force then bump v n true (negb (json_eqb c v))
      else if N.eqb vc n then bump v n true (negb (json_eqb c v))
      else DErr E_CasVersionMismatch
  end.

(* ---------------------------------------------------------------- locks *)

Record lock := Lock { holder : cid; cands : list (cid * list N) }.

Fixpoint has_client (c : cid) (l : list (cid * list N)) : bool :=
  match l with [] => false | (c', _) :: l' => N.eqb c c' || has_client c l' end.
(* Lock::queue (97-103) *)
Fixpoint queue_cand (c : cid) (r : N) (l : list (cid * list N)) : list (cid * list N) :=
  match l with
  | [] => [(c, [r])]
  | (c', rs) :: l' => if N.eqb c c' then (c', rs ++ [r]) :: l' else (c', rs) :: queue_cand c r l'
  end.

(* ---------------------------------------------------------------- state *)

Inductive event :=
| EValue (v : json) | EDeleted (v : json)                      (* StateEvent *)
| EPValue (kvs : list (str * json)) | EPDeleted (kvs : list (str * json)). (* PStateEvent *)

Record lssub := LsSub { l_client : N; l_tid : N; l_inst : N; l_parent : list str }.

Record core := Core {
  data : node entry;
  len : N;
  subs : snode;
  subscriptions : list ((N * N) * list kseg);
  lssubs : list lssub;                           (* Store.subscribers, flattened *)
  ls_subscriptions : list ((N * N) * list str);
  clients : list cid;
  spub_keys : list ((N * N) * str);
  locks : node lock;
  locked_keys : list (cid * list (list str));
  next_inst : N;
  next_req : N }.

Definition init : core :=
  Core empty_node 0 empty_snode [] [] [] [] [] empty_node [] 0 0.

Inductive result :=
| RUnit
| RValue (v : json)
| RCValue (v : json) (ver : N)
| RKvs (l : list (str * json))
| RNames (l : list str)
| RLen (n : N)
| RSub (inst : N)
| RReq (r : N)
| RImported (l : list (str * entry * bool))
| RDump (d : node entry) (n : N)      (* observation only: the whole tree and the cached length *)
| RErr (code : N)
| RCrash.

Record output := Output {
  o_res : result;
  o_events : list (N * event);          (* (instance, event) in emission order *)
  o_ls : list (N * list str);           (* (ls instance, children) in emission order *)
  o_granted : list N;                   (* oneshots fired *)
  o_cancelled : list N }.               (* oneshot senders dropped *)

Definition out_res (r : result) : output := Output r [] [] [] [].
Definition out_app (a b : output) : output :=
  Output (o_res b) (o_events a ++ o_events b) (o_ls a ++ o_ls b)
         (o_granted a ++ o_granted b) (o_cancelled a ++ o_cancelled b).
Definition out_with (r : result) (o : output) : output :=
  Output r (o_events o) (o_ls o) (o_granted o) (o_cancelled o).
Definition is_crash (o : output) : bool := match o_res o with RCrash => true | _ => false end.

(* ---------------------------------------------------------------- helpers *)

(* check_for_read_only_key (1487-1520), on the raw string *)
Definition check_read_only (key : str) (c : cid) : option N :=
  match key with
  | [] => Some E_EmptyKey
  | _ =>
      if N.eqb c 0 then None
      else
        let path := split slash key in
        match path with
        | p0 :: rest =>
            if negb (str_eqb p0 s_SYS) then None
            else match rest with
                 | p1 :: p2 :: p3 :: _ =>
                     if negb (str_eqb p1 s_clients) || negb (str_eqb p2 (client_str c))
                     then Some E_ReadOnlyKey
                     else if str_eqb p3 s_graveGoods || str_eqb p3 s_lastWill || str_eqb p3 s_clientName
                          then None else Some E_ReadOnlyKey
                 | _ => Some E_ReadOnlyKey
                 end
        | [] => None
        end
  end.

Definition key_of (p : list str) : str := join slash p.

(* serde_json::from_value::<Vec<String>> *)
Fixpoint all_strings (l : list json) : option (list str) :=
  match l with
  | [] => Some []
  | JStr s :: l' => match all_strings l' with Some r => Some (s :: r) | None => None end
  | _ => None
  end.
Definition dec_grave_goods (j : json) : option (list str) :=
  match j with JArr l => all_strings l | _ => None end.

(* serde_json::from_value::<Vec<KeyValuePair>>: a KeyValuePair is a map with a string "key" and
   any "value" (other fields ignored) or a sequence of exactly [key, value] *)
Definition dec_kvp (j : json) : option (str * json) :=
  match j with
  | JObj fields =>
      match assoc s_key fields, assoc s_value fields with
      | Some (JStr k), Some v => Some (k, v)
      | _, _ => None
      end
  | JArr [JStr k; v] => Some (k, v)
  | _ => None
  end.
Fixpoint all_kvps (l : list json) : option (list (str * json)) :=
  match l with
  | [] => Some []
  | j :: l' => match dec_kvp j, all_kvps l' with
               | Some kv, Some r => Some (kv :: r)
               | _, _ => None
               end
  end.
Definition dec_last_will (j : json) : option (list (str * json)) :=
  match j with JArr l => all_kvps l | _ => None end.

(* PersistentStorageImpl::validate_value (persistence/mod.rs): is_grave_goods_topic /
   is_last_will_topic look at segments 1 and 3 of a 4-segment key starting with "$SYS/" *)
Definition E_IoError : N := 3.
Definition special_value_bad (key : str) (v : json) : bool :=
  if starts_with s_SYS_prefix key then
    match split slash key with
    | [_; s1; _; s3] =>
        if str_eqb s1 s_clients then
          if str_eqb s3 s_graveGoods then
            match v with JNull => false | _ => match dec_grave_goods v with Some _ => false | None => true end end
          else if str_eqb s3 s_lastWill then
            match v with JNull => false | _ => match dec_last_will v with Some _ => false | None => true end end
          else false
        else false
    | _ => false
    end
  else false.

(* notify_subscribers (814-857) *)
Definition notify (s : core) (path : list str) (key : str) (v : json) (changed deleted : bool)
  : list (N * event) :=
  map (fun sb =>
         (s_inst sb,
          if s_pstate sb then (if deleted then EPDeleted [(key, v)] else EPValue [(key, v)])
          else (if deleted then EDeleted v else EValue v)))
      (filter (fun sb => changed || negb (s_unique sb)) (add_matches (subs s) path)).

(* notify_ls_subscribers (859-874): every note goes to the ls subscribers registered at its path *)
Definition notify_ls (s : core) (notes : list (list str * list str)) : list (N * list str) :=
  flat_map (fun note =>
              map (fun l => (l_inst l, snd note))
                  (filter (fun l => path_eqb (l_parent l) (fst note)) (lssubs s)))
           notes.

Definition names_or_empty (o : option (list str)) : list str :=
  match o with Some l => l | None => [] end.

Definition set_data (s : core) (d : node entry) (n : N) : core :=
  Core d n (subs s) (subscriptions s) (lssubs s) (ls_subscriptions s) (clients s) (spub_keys s)
       (locks s) (locked_keys s) (next_inst s) (next_req s).

(* Store::insert (745-843) after the `rejection` pre-check, then Worterbuch::set/cset (334-411) *)
Definition do_insert (s : core) (c : cid) (key : str) (e : entry) (force : bool) : core * output :=
  match check_read_only key c with
  | Some code => (s, out_res (RErr code))
  | None =>
      match parse_segments key with
      | Err code => (s, out_res (RErr code))
      | Ok path =>
          if special_value_bad key (entry_val e) then (s, out_res (RErr E_IoError)) else
          match decide (lookup (data s) path) e force with
          | DErr code => (s, out_res (RErr code))
          | DCrash => (s, out_res RCrash)
          | DOk existed changed e' =>
              let created := created_at [] path (Some (data s)) in
              let d' := set_at path e' (data s) in
              let s' := set_data s d' (if existed then len s else len s + 1) in
              (* filter_map: a prefix whose ls() is None is dropped (827-840) *)
              let notes := flat_map (fun pre => match ls_at d' pre with
                                                | Some l => [(pre, l)]
                                                | None => [] end) created in
              (s', Output RUnit (notify s' path key (entry_val e) changed false)
                          (notify_ls s' notes) [] [])
          end
      end
  end.

(* Worterbuch::delete (876-902) *)
Definition do_delete (s : core) (c : cid) (key : str) : core * output :=
  match check_read_only key c with
  | Some code => (s, out_res (RErr code))
  | None =>
      match parse_segments key with
      | Err code => (s, out_res (RErr code))
      | Ok path =>
          let d' := del_at path (data s) in
          if negb (root_ok d') then (s, out_res RCrash) else
          match lookup (data s) path with
          | Some e =>
              let s' := set_data s d' (len s - 1) in
              (s', Output (RValue (entry_val e))
                          (notify s' path key (entry_val e) true true)
                          (notify_ls s' (del_notes [] path (data s))) [] [])
          | None => (set_data s d' (len s), out_res (RErr E_NoSuchValue))
          end
      end
  end.

Definition kv_of (m : list str * entry) : str * json := (key_of (fst m), entry_val (snd m)).

Fixpoint notify_deleted (s : core) (ms : list (list str * entry)) : res (list (N * event)) :=
  match ms with
  | [] => Ok []
  | m :: ms' =>
      (* let path = parse_segments(&kvp.key)?  -- on the key string that was re-joined *)
      match parse_segments (key_of (fst m)) with
      | Err code => Err code
      | Ok path =>
          match notify_deleted s ms' with
          | Err code => Err code
          | Ok evs => Ok (notify s path (key_of (fst m)) (entry_val (snd m)) true true ++ evs)
          end
      end
  end.

(* internal_pdelete (912-949) *)
Definition do_pdelete (s : core) (c : cid) (skip_check : bool) (pat : str) : core * output :=
  match (if skip_check then None else check_read_only pat c) with
  | Some code => (s, out_res (RErr code))
  | None =>
      let p := kseg_parse pat in
      if reach_bad (data s) p then (s, out_res (RErr E_IllegalMultiWildcard)) else
      let r := delm (data s) [] p in
      if negb (root_ok (dr_node r)) then (s, out_res RCrash) else
      let s' := set_data s (dr_node r) (len s - N.of_nat (length (dr_matches r))) in
      match notify_deleted s' (dr_matches r) with
      | Err code => (s', out_res (RErr code))
      | Ok evs => (s', Output (RKvs (map kv_of (dr_matches r))) evs (notify_ls s' (dr_notes r)) [] [])
      end
  end.

(* Worterbuch::get / cget (315-331) *)
Definition do_get (s : core) (key : str) : result :=
  match parse_segments key with
  | Err code => RErr code
  | Ok path => match lookup (data s) path with
               | Some e => RValue (entry_val e)
               | None => RErr E_NoSuchValue
               end
  end.
Definition do_cget (s : core) (key : str) : result :=
  match parse_segments key with
  | Err code => RErr code
  | Ok path => match lookup (data s) path with
               | Some (Cas v n) => RCValue v n
               | Some (Plain v) => RCValue v 0
               | None => RErr E_NoSuchValue
               end
  end.

(* Worterbuch::pget (447-450) *)
Definition do_pget (s : core) (pat : str) : res (list (str * json)) :=
  let p := kseg_parse pat in
  if reach_bad (data s) p then Err E_IllegalMultiWildcard
  else Ok (map kv_of (collect (data s) [] p)).

(* Worterbuch::ls (1011-1029): the parent is split on '/', nothing else is checked; Store::ls
   panics on an empty path, which cannot happen (split never returns []) *)
Definition do_ls (s : core) (parent : option str) : result :=
  match parent with
  | None => RNames (names (nkids (data s)))
  | Some p => match ls_at (data s) (split slash p) with
              | Some l => RNames l
              | None => RErr E_NoSuchValue
              end
  end.

Fixpoint dedup (l : list str) : list str :=
  match l with
  | [] => []
  | x :: l' => x :: filter (fun y => negb (str_eqb x y)) (dedup l')
  end.

(* Worterbuch::pls (1031-1061) *)
Definition do_pls (s : core) (parent : option str) : result :=
  match parent with
  | None => RNames (names (nkids (data s)))
  | Some p =>
      let pat := kseg_parse p in
      if reach_multi (data s) pat then RErr E_IllegalMultiWildcard
      else RNames (dedup (collect_children (data s) pat))
  end.

(* ---------------------------------------------------------------- import *)

(* Store::nmerge (888-914) *)
Fixpoint merge (n other : node entry) {struct other} : node entry :=
  match other with
  | Node ov ocs =>
      let v1 := match ov with Some v => Some v | None => nval n end in
      match ocs with
      | [] => Node v1 (nkids n)      (* `if let Some(tree) = other.into_sub_tree()`: no children, no trim *)
      | _ =>
      Node v1 (trim_kids
               ((fix go (ocs : list (str * node entry)) (kids : list (str * node entry))
                  : list (str * node entry) :=
                  match ocs with
                  | [] => kids
                  | (k, c) :: ocs' => go ocs' (upd_child empty_node k (fun own => merge own c) kids)
                  end) ocs (nkids n)))
      end
  end.

(* concat_key (1083-1093): the root's own value gets the key "" *)
Definition import_key (p : list str) : str := key_of p.

Definition insertions (old other : node entry) : list (list str * entry * bool) :=
  map (fun pe => (fst pe, snd pe,
                  match lookup old (fst pe) with
                  | Some e => negb (entry_eqb e (snd pe))
                  | None => true
                  end))
      (entries other []).

Fixpoint notify_imported (s : core) (ins : list (list str * entry * bool)) : res (list (N * event)) :=
  match ins with
  | [] => Ok []
  | (p, e, changed) :: ins' =>
      match parse_segments (import_key p) with
      | Err code => Err code
      | Ok path =>
          match notify_imported s ins' with
          | Err code => Err code
          | Ok evs => Ok (notify s path (import_key p) (entry_val e) changed false ++ evs)
          end
      end
  end.

(* Worterbuch::import (678-708) *)
Definition do_import (s : core) (j : json) : core * output :=
  match dec_persisted j with
  | None => (s, out_res (RErr E_SerdeError))
  | Some other0 =>
      let other := strip_sys s_SYS other0 in      (* Store::merge leaves $SYS alone (repair of F29) *)
      let d' := merge (data s) other in
      let s' := set_data s d' (count_values d') in
      let ins := insertions (data s) other in
      match notify_imported s' ins with
      | Err code => (s', out_res (RErr code))
      | Ok evs => (s', Output (RImported (map (fun x => (import_key (fst (fst x)), snd (fst x), snd x)) ins))
                              evs [] [] [])
      end
  end.

(* ---------------------------------------------------------------- subscriptions *)

Fixpoint assoc_set {K V} (eqb : K -> K -> bool) (k : K) (v : V) (l : list (K * V)) : list (K * V) :=
  match l with
  | [] => [(k, v)]
  | (k', v') :: l' => if eqb k k' then (k', v) :: l' else (k', v') :: assoc_set eqb k v l'
  end.
Fixpoint assoc_get {K V} (eqb : K -> K -> bool) (k : K) (l : list (K * V)) : option V :=
  match l with
  | [] => None
  | (k', v') :: l' => if eqb k k' then Some v' else assoc_get eqb k l'
  end.
Definition assoc_del {K V} (eqb : K -> K -> bool) (k : K) (l : list (K * V)) : list (K * V) :=
  filter (fun kv => negb (eqb k (fst kv))) l.
Definition id_eqb (a b : N * N) : bool := N.eqb (fst a) (fst b) && N.eqb (snd a) (snd b).

Definition set_subs (s : core) (t : snode) (m : list ((N * N) * list kseg)) (ni : N) : core :=
  Core (data s) (len s) t m (lssubs s) (ls_subscriptions s) (clients s) (spub_keys s)
       (locks s) (locked_keys s) ni (next_req s).

(* Worterbuch::subscribe (452-531), extended_monitoring = false.  A failing `get` after
   add_subscriber leaves a subscriber whose channel is closed; it is dropped at its first
   notification and never observable, so it is not kept here. *)
Definition do_subscribe (s : core) (c t : N) (key : str) (unique live : bool) : core * output :=
  let pat := kseg_parse key in
  let inst := next_inst s in
  let sb := Subscriber c t inst pat unique false in
  let snapshot : res (list (N * event)) :=
    if live then Ok []
    else match do_get s key with
         | RValue v => Ok [(inst, EValue v)]
         | RErr code => if N.eqb code E_NoSuchValue then Ok [] else Err code
         | _ => Ok []
         end in
  match snapshot with
  | Err code => (s, out_res (RErr code))
  | Ok evs =>
      (set_subs s (add_subscriber pat sb (subs s))
                (assoc_set id_eqb (c, t) pat (subscriptions s)) (inst + 1),
       Output (RSub inst) evs [] [] [])
  end.

(* Worterbuch::psubscribe (533-605) *)
Definition do_psubscribe (s : core) (c t : N) (pattern : str) (unique live : bool) : core * output :=
  let pat := kseg_parse pattern in
  let inst := next_inst s in
  let sb := Subscriber c t inst pat unique true in
  let snapshot : res (list (N * event)) :=
    if live then Ok []
    else match do_pget s pattern with
         | Ok kvs => Ok [(inst, EPValue kvs)]
         | Err code => Err code
         end in
  match snapshot with
  | Err code => (s, out_res (RErr code))
  | Ok evs =>
      (set_subs s (add_subscriber pat sb (subs s))
                (assoc_set id_eqb (c, t) pat (subscriptions s)) (inst + 1),
       Output (RSub inst) evs [] [] [])
  end.

(* do_unsubscribe (719-787), extended_monitoring = false *)
Definition do_unsubscribe (s : core) (c t : N) : core * output :=
  match assoc_get id_eqb (c, t) (subscriptions s) with
  | None => (s, out_res (RErr E_NotSubscribed))
  | Some pat =>
      let s' := set_subs s (remove_id pat c t (subs s)) (assoc_del id_eqb (c, t) (subscriptions s))
                         (next_inst s) in
      (s', out_res (if unsubscribe_removed pat c t (subs s) then RUnit else RErr E_NotSubscribed))
  end.

Definition set_ls (s : core) (l : list lssub) (m : list ((N * N) * list str)) (ni : N) : core :=
  Core (data s) (len s) (subs s) (subscriptions s) l m (clients s) (spub_keys s)
       (locks s) (locked_keys s) ni (next_req s).

(* subscribe_ls (625-646) *)
Definition do_subscribe_ls (s : core) (c t : N) (parent : option str) : core * output :=
  let children := match do_ls s parent with RNames l => l | _ => [] end in
  let path := match parent with Some p => split slash p | None => [] end in
  let inst := next_inst s in
  (set_ls s (lssubs s ++ [LsSub c t inst path])
          (assoc_set id_eqb (c, t) path (ls_subscriptions s)) (inst + 1),
   Output (RSub inst) [] [(inst, children)] [] []).

(* do_unsubscribe_ls (798-812), Store::unsubscribe_ls (955-983) *)
Definition do_unsubscribe_ls (s : core) (c t : N) : core * output :=
  match assoc_get id_eqb (c, t) (ls_subscriptions s) with
  | None => (s, out_res (RErr E_NotSubscribed))
  | Some path =>
      let hit := fun l => path_eqb (l_parent l) path && N.eqb (l_client l) c && N.eqb (l_tid l) t in
      let s' := set_ls s (filter (fun l => negb (hit l)) (lssubs s))
                       (assoc_del id_eqb (c, t) (ls_subscriptions s)) (next_inst s) in
      (s', out_res (if existsb hit (lssubs s) then RUnit else RErr E_NotSubscribed))
  end.

(* publish (438-445), spub_init (413-423), spub (425-436) *)
Definition do_publish (s : core) (key : str) (v : json) : core * output :=
  match parse_segments key with
  | Err code => (s, out_res (RErr code))
  | Ok path => (s, Output RUnit (notify s path key v true false) [] [] [])
  end.

Definition set_spub (s : core) (m : list ((N * N) * str)) : core :=
  Core (data s) (len s) (subs s) (subscriptions s) (lssubs s) (ls_subscriptions s) (clients s) m
       (locks s) (locked_keys s) (next_inst s) (next_req s).

Definition do_spub_init (s : core) (c t : N) (key : str) : core * output :=
  match check_read_only key c with
  | Some code => (s, out_res (RErr code))
  | None => (set_spub s (assoc_set id_eqb (c, t) key (spub_keys s)), out_res RUnit)
  end.

Definition do_spub (s : core) (c t : N) (v : json) : core * output :=
  match assoc_get id_eqb (c, t) (spub_keys s) with
  | Some key => do_publish s key v
  | None => (s, out_res (RErr E_NoPubStream))
  end.

(* ---------------------------------------------------------------- locks *)

Definition set_locks (s : core) (l : node lock) (lk : list (cid * list (list str))) (nr : N) : core :=
  Core (data s) (len s) (subs s) (subscriptions s) (lssubs s) (ls_subscriptions s) (clients s)
       (spub_keys s) l lk (next_inst s) nr.

Definition push_locked (c : cid) (p : list str) (lk : list (cid * list (list str)))
  : list (cid * list (list str)) :=
  match assoc_get N.eqb c lk with
  | Some ps => assoc_set N.eqb c (ps ++ [p]) lk
  | None => lk ++ [(c, [p])]
  end.

(* get_or_create_lock_node (338-346) *)
Fixpoint touch_at {V} (p : list str) (n : node V) : node V :=
  match p with
  | [] => n
  | k :: p' => Node (nval n) (upd_child empty_node k (touch_at p') (nkids n))
  end.
Fixpoint setv_at {V} (p : list str) (v : option V) (n : node V) : node V :=
  match p with
  | [] => Node v (nkids n)
  | k :: p' => Node (nval n) (mod_child k (setv_at p' v) (nkids n))
  end.

(* Store::lock (985-1007) + Worterbuch::lock (951-959) *)
Definition do_lock (s : core) (c : cid) (key : str) : core * output :=
  match parse_segments key with
  | Err code => (s, out_res (RErr code))
  | Ok path =>
      let l1 := touch_at path (locks s) in
      match lookup l1 path with
      | Some lk => if N.eqb c (holder lk)
                   then (set_locks s l1 (locked_keys s) (next_req s), out_res RUnit)
                   else (set_locks s l1 (locked_keys s) (next_req s), out_res (RErr E_KeyIsLocked))
      | None => (set_locks s (setv_at path (Some (Lock c [])) l1) (push_locked c path (locked_keys s))
                           (next_req s), out_res RUnit)
      end
  end.

(* Store::acquire_lock (1009-1038) *)
Definition do_acquire (s : core) (c : cid) (key : str) : core * output :=
  match parse_segments key with
  | Err code => (s, out_res (RErr code))
  | Ok path =>
      let r := next_req s in
      let l1 := touch_at path (locks s) in
      let lk' := push_locked c path (locked_keys s) in
      match lookup l1 path with
      | Some lk =>
          if N.eqb c (holder lk)
          then (set_locks s l1 lk' (r + 1), Output (RReq r) [] [] [r] [])
          else (set_locks s (setv_at path (Some (Lock (holder lk) (queue_cand c r (cands lk)))) l1) lk' (r + 1),
                Output (RReq r) [] [] [] [])
      | None => (set_locks s (setv_at path (Some (Lock c [])) l1) lk' (r + 1),
                 Output (RReq r) [] [] [r] [])
      end
  end.

(* ndelete_lock_nodes (371-384) *)
Fixpoint del_lock_at {V} (p : list str) (n : node V) : node V :=
  match p with
  | [] => Node None (nkids n)
  | k :: p' => match find_child k (nkids n) with
               | Some _ => Node (nval n) (trim_kids (mod_child k (del_lock_at p') (nkids n)))
               | None => n
               end
  end.

(* Store::unlock (1056-1075, after the fix: lookup without creation); result:
   Ok new_holder / Err code / crash, plus granted and cancelled oneshots *)
Definition unlock (l : node lock) (c : cid) (path : list str)
  : node lock * res (option cid) * list N * list N * bool :=
  match lookup l path with
  | Some lk =>
      if N.eqb c (holder lk) then
        match cands lk with
        | (c', rs) :: rest =>
            (setv_at path (Some (Lock c' rest)) l, Ok (Some c'), rs, [], false)
        | [] =>
            let l' := del_lock_at path l in
            (l', Ok None, [], [], negb (root_ok l'))
        end
      else
        let dropped := flat_map (fun cr => if N.eqb (fst cr) c then snd cr else []) (cands lk) in
        (setv_at path (Some (Lock (holder lk) (filter (fun cr => negb (N.eqb (fst cr) c)) (cands lk)))) l,
         Err E_KeyIsLocked, [], dropped, false)
  | None => (l, Err E_KeyIsNotLocked, [], [], false)
  end.

(* Worterbuch::release_lock (1001-1009) *)
Definition do_release (s : core) (c : cid) (key : str) : core * output :=
  match parse_segments key with
  | Err code => (s, out_res (RErr code))
  | Ok path =>
      let '(l', r, granted, cancelled, crash) := unlock (locks s) c path in
      if crash then (s, out_res RCrash) else
      (set_locks s l' (locked_keys s) (next_req s),
       Output (match r with Ok _ => RUnit | Err code => RErr code end) [] [] granted cancelled)
  end.

(* unlock_all (1040-1054) *)
Fixpoint unlock_paths (l : node lock) (c : cid) (paths : list (list str))
  : node lock * list N * list N * bool :=
  match paths with
  | [] => (l, [], [], false)
  | p :: paths' =>
      let '(l1, _, g1, c1, crash1) := unlock l c p in
      if crash1 then (l1, g1, c1, true) else
      let '(l2, g2, c2, crash2) := unlock_paths l1 c paths' in
      (l2, g1 ++ g2, c1 ++ c2, crash2)
  end.

(* ---------------------------------------------------------------- sessions *)

Definition set_clients (s : core) (cl : list cid) : core :=
  Core (data s) (len s) (subs s) (subscriptions s) (lssubs s) (ls_subscriptions s) cl (spub_keys s)
       (locks s) (locked_keys s) (next_inst s) (next_req s).

Definition seq2 (r1 : core * output) (f : core -> core * output) : core * output :=
  if is_crash (snd r1) then r1 else
  let r2 := f (fst r1) in (fst r2, out_app (snd r1) (snd r2)).

Definition jnum (n : N) : json := JNum (dec_of_N n).

(* Worterbuch::connected (1063-1106), extended_monitoring = false, protocol TCP, no address *)
Definition do_connected (s : core) (c : cid) : core * output :=
  if N.eqb c 0 then (s, out_res RCrash) else
  if existsb (N.eqb c) (clients s) then (s, out_res (RErr E_ClientIDCollision)) else
  let s1 := set_clients s (clients s ++ [c]) in
  let r := seq2 (seq2 (do_insert s1 0 (topic [s_SYS; s_clients]) (Plain (jnum (N.of_nat (length (clients s1))))) true)
                      (fun s => do_insert s 0 (topic [s_SYS; s_clients; client_str c; s_protocol]) (Plain (JStr s_TCP)) true))
                (fun s => do_insert s 0 (topic [s_SYS; s_clients; client_str c; s_address]) (Plain JNull) true) in
  (fst r, if is_crash (snd r) then snd r else out_with RUnit (snd r)).

Fixpoint iter_ops {A} (f : core -> A -> core * output) (l : list A) (s : core) : core * output :=
  match l with
  | [] => (s, out_res RUnit)
  | x :: l' => seq2 (f s x) (iter_ops f l')
  end.

(* Worterbuch::disconnected (1220-1378, with the ls-subscription clean-up of the fix) *)
Definition do_disconnected (s : core) (c : cid) : core * output :=
  if N.eqb c 0 then (s, out_res RCrash) else
  (* spub keys *)
  let s0 := set_spub s (filter (fun kv => negb (N.eqb (fst (fst kv)) c)) (spub_keys s)) in
  (* unlock_all *)
  let '(l', granted, cancelled, crash) :=
    match assoc_get N.eqb c (locked_keys s0) with
    | Some paths => unlock_paths (locks s0) c paths
    | None => (locks s0, [], [], false)
    end in
  if crash then (s, out_res RCrash) else
  let s1 := set_locks s0 l' (assoc_del N.eqb c (locked_keys s0)) (next_req s0) in
  let gg := match do_get s1 (topic [s_SYS; s_clients; client_str c; s_graveGoods]) with
            | RValue v => dec_grave_goods v | _ => None end in
  let lw := match do_get s1 (topic [s_SYS; s_clients; client_str c; s_lastWill]) with
            | RValue v => dec_last_will v | _ => None end in
  let s2 := set_clients s1 (filter (fun x => negb (N.eqb x c)) (clients s1)) in
  let r :=
    seq2 (do_insert s2 0 (topic [s_SYS; s_clients]) (Plain (jnum (N.of_nat (length (clients s2))))) true)
    (fun s => seq2 (iter_ops (fun s id => do_unsubscribe s (fst id) (snd id))
                             (filter (fun id => N.eqb (fst id) c) (map fst (subscriptions s))) s)
    (fun s => seq2 (iter_ops (fun s id => do_unsubscribe_ls s (fst id) (snd id))
                             (filter (fun id => N.eqb (fst id) c) (map fst (ls_subscriptions s))) s)
    (fun s => seq2 (do_pdelete s 0 false (topic [s_SYS; s_clients; client_str c; s_hash]))
    (fun s => seq2 (iter_ops (fun s g => do_pdelete s c false g) (match gg with Some l => l | None => [] end) s)
    (fun s => iter_ops (fun s kv => do_insert s c (fst kv) (Plain (snd kv)) true)
                       (match lw with Some l => l | None => [] end) s))))) in
  (fst r, if is_crash (snd r) then snd r
          else Output RUnit (o_events (snd r)) (o_ls (snd r)) (granted ++ o_granted (snd r))
                      (cancelled ++ o_cancelled (snd r))).

(* ---------------------------------------------------------------- requests *)

Inductive op :=
| OGet (k : str) | OCGet (k : str) | OPGet (p : str)
| OLs (parent : option str) | OPLs (parent : option str) | OLen
| OSet (c : cid) (k : str) (v : json) (force : bool)
| OCSet (c : cid) (k : str) (v : json) (ver : N) (force : bool)
| ODelete (c : cid) (k : str) | OPDelete (c : cid) (p : str)
| OPublish (k : str) (v : json) | OSPubInit (c : cid) (t : N) (k : str) | OSPub (c : cid) (t : N) (v : json)
| OImport (j : json)
| OSubscribe (c t : N) (k : str) (unique live : bool)
| OPSubscribe (c t : N) (p : str) (unique live : bool)
| OUnsubscribe (c t : N)
| OSubscribeLs (c t : N) (parent : option str)
| OUnsubscribeLs (c t : N)
| OLock (c : cid) (k : str) | OAcquire (c : cid) (k : str) | ORelease (c : cid) (k : str)
| OConnected (c : cid) | ODisconnected (c : cid)
| ODump.

Definition step (s : core) (o : op) : core * output :=
  match o with
  | OGet k => (s, out_res (do_get s k))
  | OCGet k => (s, out_res (do_cget s k))
  | OPGet p => (s, out_res (match do_pget s p with Ok l => RKvs l | Err c => RErr c end))
  | OLs p => (s, out_res (do_ls s p))
  | OPLs p => (s, out_res (do_pls s p))
  | OLen => (s, out_res (RLen (len s)))
  | OSet c k v f => do_insert s c k (Plain v) f
  | OCSet c k v n f => do_insert s c k (Cas v n) f
  | ODelete c k => do_delete s c k
  | OPDelete c p => do_pdelete s c false p
  | OPublish k v => do_publish s k v
  | OSPubInit c t k => do_spub_init s c t k
  | OSPub c t v => do_spub s c t v
  | OImport j => do_import s j
  | OSubscribe c t k u l => do_subscribe s c t k u l
  | OPSubscribe c t p u l => do_psubscribe s c t p u l
  | OUnsubscribe c t => do_unsubscribe s c t
  | OSubscribeLs c t p => do_subscribe_ls s c t p
  | OUnsubscribeLs c t => do_unsubscribe_ls s c t
  | OLock c k => do_lock s c k
  | OAcquire c k => do_acquire s c k
  | ORelease c k => do_release s c k
  | OConnected c => do_connected s c
  | ODisconnected c => do_disconnected s c
  | ODump => (s, out_res (RDump (data s) (len s)))
  end.

(* a crashed core answers nothing any more *)
Fixpoint run (s : core) (ops : list op) : list output :=
  match ops with
  | [] => []
  | o :: ops' => let r := step s o in
                 snd r :: (if is_crash (snd r) then [] else run (fst r) ops')
  end.

Definition final (s : core) (ops : list op) : core := fold_left (fun s o => fst (step s o)) ops s.
