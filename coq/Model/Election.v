(* worterbuch-cluster-orchestrator: config.rs quorum_sanity_check (181-219), Config::update_quorum,
   Peers::{raft_addr, sync_addr}; election.rs Election::{election_round, process_peer_election_message,
   process_vote_response, process_vote_request, support_other_candidates, wait_for_heartbeat,
   request_votes}; utils.rs support_vote; follower.rs follow (the sync_addr test before the server
   process is started); lib.rs Priority (reverse order).

   One event = one thing the election task reacts to: a datagram, the expiry of the timer of the
   phase it is in, or a changed cluster configuration arriving on peers_rx.  Durations are not
   modelled (the safety statements do not depend on them).  [voters] in Requesting is ghost state:
   the code keeps only the count and the list of peers still allowed to vote. *)
From WB Require Import Base.Str.
From Coq Require Import ZArith.

Inductive pmsg :=
| VoteReq (id : str) (prio : Z)
| VoteResp (id : str)
| HbReq (id : str)
| HbResp (id : str)
| Empty                      (* a datagram of length 0: recv_peer_msg returns Ok(None) *)
| Garbage.                   (* does not parse as PeerMessage: recv_peer_msg returns Err *)

Inductive event :=
| ERecv (m : pmsg)
| ETimeout
| EPeers (peers : list str).     (* new configuration read by the config-file watcher *)

Inductive outcome := Leader | Follower (id : str) | Failed.      (* Failed: elect_leader returned Err *)

Inductive phase :=
| Waiting                                                   (* support_other_candidates, election timeout running *)
| WaitHb (from_requesting : bool) (cand : str) (cprio : Z)  (* wait_for_heartbeat after support_vote; when entered from the
                                                               waiting phase the outer select still watches the election
                                                               timeout and peers_rx *)
| Requesting (votes : N) (remaining : list str) (voters : list str)
| Done (o : outcome).

Record est := Est {
  me : str;
  prio : Z;                          (* this node's priority value (smaller value = higher priority) *)
  quorum_cfg : option N;             (* Config.quorum_configured *)
  peers : list str;                  (* Peers: node ids of the configured nodes other than this one, file order *)
  quorum : N;                        (* Config.quorum *)
  pending : option (list str);       (* a configuration waiting in peers_rx (capacity 1) *)
  ph : phase }.

(* messages this node sends *)
Inductive sent := SVoteReq (to : str) | SVoteResp (to : str).

Definition mem (x : str) (l : list str) : bool := existsb (str_eqb x) l.

(* quorum_sanity_check: Some quorum, or None where the code returns Err *)
Definition sanity (q : option N) (ps : list str) : option N :=
  let n := N.of_nat (length ps) + 1 in
  let quorum := match q with Some q => q | None => n / 2 + 1 end in
  if N.ltb n quorum then None else Some quorum.

(* Priority's Ord is the reverse of the numeric order: vote.priority >= self.prio *)
Definition prio_ge (theirs mine : Z) : bool := Z.leb theirs mine.

Definition set_ph (s : est) (p : phase) : est :=
  Est (me s) (prio s) (quorum_cfg s) (peers s) (quorum s) (pending s) p.

(* *self.peers = peers; self.config.update_quorum(self.peers)? ; restart the round *)
Definition apply_peers (s : est) (ps : list str) : est :=
  match sanity (quorum_cfg s) ps with
  | Some q => Est (me s) (prio s) (quorum_cfg s) ps q None Waiting
  | None => Est (me s) (prio s) (quorum_cfg s) ps (quorum s) None (Done Failed)
  end.

(* top of election_round: peers_rx.try_recv() *)
Definition new_round (s : est) : est :=
  match pending s with
  | Some ps => apply_peers s ps
  | None => set_ph s Waiting
  end.

(* after the waiting phase: try_recv once more, vote for myself, maybe request votes *)
Definition start_requesting (s : est) : est * list sent :=
  match pending s with
  | Some ps => (apply_peers s ps, [])
  | None =>
      if N.leb (quorum s) 1 then (set_ph s (Done Leader), [])
      else (set_ph s (Requesting 1 (peers s) []), map SVoteReq (peers s))
  end.

(* utils.rs support_vote: answer only if an address is configured for the candidate *)
Definition support (s : est) (id : str) : list sent :=
  if mem id (peers s) then [SVoteResp id] else [].

Definition is_part_of_cluster (s : est) (id : str) : bool := str_eqb (me s) id || mem id (peers s).

Definition recv (s : est) (m : pmsg) : est * list sent :=
  match ph s with
  | Done _ => (s, [])
  | Waiting =>
      match m with
      | VoteReq id p => if prio_ge p (prio s) then (set_ph s (WaitHb false id p), support s id) else (s, [])
      | HbReq id => if is_part_of_cluster s id then (set_ph s (Done (Follower id)), []) else (s, [])
      | Garbage => (set_ph s (Done Failed), [])
      | _ => (s, [])
      end
  | WaitHb _ _ _ =>
      match m with
      | HbReq id => (set_ph s (Done (Follower id)), [])
      | Garbage => (set_ph s (Done Failed), [])
      | _ => (s, [])
      end
  | Requesting v rem voters =>
      match m with
      | VoteResp id =>
          if mem id rem then
            let v' := (v + 1)%N in
            if N.leb (quorum s) v' then (set_ph s (Done Leader), [])
            else (set_ph s (Requesting v' (filter (fun x => negb (str_eqb x id)) rem) (id :: voters)), [])
          else (s, [])
      | VoteReq id p => if prio_ge p (prio s) then (set_ph s (WaitHb true id p), support s id) else (s, [])
      | Garbage => (set_ph s (Done Failed), [])
      | _ => (s, [])
      end
  end.

Definition estep (s : est) (e : event) : est * list sent :=
  match ph s, e with
  | Done _, _ => (s, [])
  | _, ERecv m => recv s m
  | Waiting, ETimeout => start_requesting s
  | WaitHb true _ _, ETimeout => (new_round s, [])
  | WaitHb false _ _, ETimeout => start_requesting s
  | Requesting _ _ _, ETimeout => (new_round s, [])
  | WaitHb true _ _, EPeers ps =>                    (* reached from the vote loop: peers_rx is not polled, the configuration
                                                        stays in the channel; a second one is dropped (try_send) *)
      (match pending s with
       | None => Est (me s) (prio s) (quorum_cfg s) (peers s) (quorum s) (Some ps) (ph s)
       | Some _ => s
       end, [])
  | _, EPeers ps => (apply_peers s ps, [])
  end.

Fixpoint erun (s : est) (es : list event) : est :=
  match es with [] => s | e :: es' => erun (fst (estep s e)) es' end.

Fixpoint erun_out (s : est) (es : list event) : list (list sent) :=
  match es with [] => [] | e :: es' => snd (estep s e) :: erun_out (fst (estep s e)) es' end.

(* load_config: None where quorum_sanity_check refuses the configuration *)
Definition einit (me_ : str) (prio_ : Z) (qcfg : option N) (ps : list str) : option est :=
  match sanity qcfg ps with
  | Some q => Some (Est me_ prio_ qcfg ps q None Waiting)
  | None => None
  end.

(* lib.rs run_main + follower.rs follow: what the orchestrator starts after the election *)
Inductive server := LeaderServer | FollowerServer (leader : str) | NoServer.
Definition started (s : est) : server :=
  match ph s with
  | Done Leader => LeaderServer
  | Done (Follower id) => if mem id (peers s) then FollowerServer id else NoServer      (* peers.sync_addr(id) *)
  | _ => NoServer
  end.
