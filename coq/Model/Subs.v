(* worterbuch/src/subscribers.rs: the subscriber tree keyed by KeySegment, add_subscriber
   (134-146), unsubscribe (148-172), remove_subscriber (174-187), add_matches (190-215),
   add_all_children (217-222). *)
From WB Require Import Base.Str Model.Key.

Record subscriber := Subscriber {
  s_client : N; s_tid : N;          (* SubscriptionId *)
  s_inst : N;                        (* which channel (instance) the events go to *)
  s_pat : list kseg;
  s_unique : bool;
  s_pstate : bool }.

Inductive snode := SNode (subs : list subscriber) (cs : list (kseg * snode)).
Definition ssubs (n : snode) := match n with SNode s _ => s end.
Definition skids (n : snode) := match n with SNode _ c => c end.
Definition empty_snode := SNode [] [].

Fixpoint find_k {A} (k : kseg) (cs : list (kseg * A)) : option A :=
  match cs with
  | [] => None
  | (k', c) :: cs' => if kseg_eqb k k' then Some c else find_k k cs'
  end.

Fixpoint upd_k {A} (d : A) (k : kseg) (f : A -> A) (cs : list (kseg * A)) : list (kseg * A) :=
  match cs with
  | [] => [(k, f d)]
  | (k', c) :: cs' => if kseg_eqb k k' then (k', f c) :: cs' else (k', c) :: upd_k d k f cs'
  end.

Fixpoint mod_k {A} (k : kseg) (f : A -> A) (cs : list (kseg * A)) : list (kseg * A) :=
  match cs with
  | [] => []
  | (k', c) :: cs' => if kseg_eqb k k' then (k', f c) :: cs' else (k', c) :: mod_k k f cs'
  end.

Fixpoint add_subscriber (p : list kseg) (s : subscriber) (n : snode) : snode :=
  match p with
  | [] => SNode (ssubs n ++ [s]) (skids n)
  | k :: p' => SNode (ssubs n) (upd_k empty_snode k (add_subscriber p' s) (skids n))
  end.

Definition same_id (c t : N) (s : subscriber) : bool := N.eqb (s_client s) c && N.eqb (s_tid s) t.

(* node at a pattern, if every segment exists *)
Fixpoint snode_at (p : list kseg) (n : snode) : option snode :=
  match p with
  | [] => Some n
  | k :: p' => match find_k k (skids n) with Some c => snode_at p' c | None => None end
  end.

(* unsubscribe: retain(id != subscription) at the pattern's node; false if the node is
   missing or nothing was removed *)
Fixpoint remove_id (p : list kseg) (c t : N) (n : snode) : snode :=
  match p with
  | [] => SNode (filter (fun s => negb (same_id c t s)) (ssubs n)) (skids n)
  | k :: p' => SNode (ssubs n) (mod_k k (remove_id p' c t) (skids n))
  end.
Definition unsubscribe_removed (p : list kseg) (c t : N) (n : snode) : bool :=
  match snode_at p n with
  | Some m => existsb (same_id c t) (ssubs m)
  | None => false
  end.

Fixpoint all_subs (n : snode) : list subscriber :=
  match n with
  | SNode s cs =>
      s ++ (fix go (cs : list (kseg * snode)) : list subscriber :=
              match cs with
              | [] => []
              | (_, c) :: cs' => all_subs c ++ go cs'
              end) cs
  end.

Definition opt_app {A B} (o : option A) (f : A -> list B) : list B :=
  match o with Some x => f x | None => [] end.

(* add_matches: for every key element, the `?` child matches the rest, the `#` child matches
   everything below, the literal child continues; at the end of the key the node's own
   subscribers match *)
Fixpoint add_matches (n : snode) (key : list str) : list subscriber :=
  match key with
  | [] => ssubs n
  | e :: rest =>
      opt_app (find_k Wild (skids n)) (fun c => add_matches c rest) ++
      opt_app (find_k Multi (skids n)) all_subs ++
      opt_app (find_k (Reg e) (skids n)) (fun c => add_matches c rest)
  end.
