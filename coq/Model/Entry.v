(* worterbuch-common/src/lib.rs:144-173 ValueEntry; store.rs:136-149 serde representation of
   Node ("v"/"t", skip_serializing_if none) and PersistedStore {"data": ..}. *)
From WB Require Import Base.Str Base.Json Model.Key Model.Consts Model.Store.

Inductive entry := Plain (v : json) | Cas (v : json) (ver : N).
Definition entry_val (e : entry) : json := match e with Plain v => v | Cas v _ => v end.
Definition entry_eqb (a b : entry) : bool :=
  match a, b with
  | Plain x, Plain y => json_eqb x y
  | Cas x n, Cas y m => json_eqb x y && N.eqb n m
  | _, _ => false
  end.

Definition u64_max : N := 18446744073709551615.

(* a canonical serde_json literal that deserializes as u64 *)
Fixpoint digits_val (l : str) (acc : N) : option N :=
  match l with
  | [] => Some acc
  | c :: l' => if (N.leb 48 c && N.leb c 57)%bool then digits_val l' (acc * 10 + (c - 48)) else None
  end.
Definition u64_of_lit (l : str) : option N :=
  match l with
  | [] => None
  | _ => match digits_val l 0 with
         | Some n => if N.leb n u64_max then Some n else None
         | None => None
         end
  end.

(* serialization *)
Definition enc_entry (e : entry) : json :=
  match e with
  | Plain v => v
  | Cas v n => JObj [(s_Cas, JArr [v; JNum (dec_of_N n)])]
  end.

(* deserialization: the externally tagged variant Cas is tried first, the untagged
   variant Plain takes everything else *)
Definition dec_entry (j : json) : entry :=
  match j with
  | JObj [(k, JArr [v; JNum lit])] =>
      if str_eqb k s_Cas then
        match u64_of_lit lit with Some n => Cas v n | None => Plain j end
      else Plain j
  | _ => Plain j
  end.

Fixpoint enc_node (n : node entry) : json :=
  match n with
  | Node v cs =>
      JObj ((match cs with
             | [] => []
             | _ => [(s_t, JObj ((fix go (cs : list (str * node entry)) : list (str * json) :=
                                    match cs with
                                    | [] => []
                                    | (k, c) :: cs' => (k, enc_node c) :: go cs'
                                    end) cs))]
             end) ++
            (match v with Some e => [(s_v, enc_entry e)] | None => [] end))
  end.

Fixpoint assoc (k : str) (l : list (str * json)) : option json :=
  match l with
  | [] => None
  | (k', v) :: l' => if str_eqb k k' then Some v else assoc k l'
  end.

(* derive(Deserialize) for Node: a map; field "v" optional (absent or null => None), field
   "t" optional map of nodes (null => None); unknown fields ignored.  A non-object fails
   (a sequence would be accepted by the derive as [v, t]; not modelled, generators avoid it). *)
Fixpoint dec_node (j : json) : option (node entry) :=
  match j with
  | JObj fields =>
      (fix scan (fs : list (str * json)) (v : option entry) (cs : list (str * node entry))
         : option (node entry) :=
         match fs with
         | [] => Some (Node v cs)
         | (k, x) :: fs' =>
             if str_eqb k s_v then
               scan fs' (match x with JNull => None | _ => Some (dec_entry x) end) cs
             else if str_eqb k s_t then
               match x with
               | JNull => scan fs' v cs
               | JObj kids =>
                   match (fix go (kids : list (str * json)) : option (list (str * node entry)) :=
                            match kids with
                            | [] => Some []
                            | (k', c) :: kids' =>
                                match dec_node c, go kids' with
                                | Some c', Some r => Some ((k', c') :: r)
                                | _, _ => None
                                end
                            end) kids with
                   | Some cs' => scan fs' v cs'
                   | None => None
                   end
               | _ => None
               end
             else scan fs' v cs
         end) fields None []
  | _ => None
  end.

Definition enc_persisted (n : node entry) : json := JObj [(s_data, enc_node n)].
Definition dec_persisted (j : json) : option (node entry) :=
  match j with
  | JObj fields => match assoc s_data fields with Some d => dec_node d | None => None end
  | _ => None
  end.
