(* worterbuch/src/server/axum/mod.rs (the REST handlers get_value, pget, set, publish, delete_value, pdelete, ls, ls_root,
   export, import), axum/auth.rs (bearer_auth: with an auth key configured a request without a valid token is refused
   before any handler runs), worterbuch-common/src/error.rs (From<WorterbuchError> for (StatusCode, String)).
   A REST write acts under a client id made up for that one request (ClientId::new_v4(), never connected): in the
   model the id [rest_cid], which no session uses.  Not modelled: the text of error bodies, the `pointer` / `raw`
   query parameters of get, gzip/base64 of export and import (the harness undoes them), the SSE subscriptions. *)
From WB Require Import Base.Str Base.Json Model.Key Model.Consts Model.Store Model.Entry Model.Core Model.Codec Model.Auth Model.Persist.

Inductive rreq :=
| RGet (k : str) | RPGet (p : str) | RSet (k : str) (v : json) | RPublish (k : str) (v : json)
| RDelete (k : str) | RPDelete (p : str) | RLs (parent : option str) | RExport | RImport (j : json).

Inductive rtoken := TNone | TInvalid | TClaims (c : claims).

Inductive rbody := BJson (j : json) | BKvs (l : list (str * json)) | BNames (l : list str) | BOk | BExport (j : json).
Inductive rresp := R200 (b : rbody) | RStatus (code : N).

Definition rest_cid : cid := 254.

(* error code -> HTTP status *)
Definition http_status (code : N) : N :=
  if N.eqb code 0 || N.eqb code 1 || N.eqb code 2 || N.eqb code 19 || N.eqb code 21 || N.eqb code 25 then 400
  else if N.eqb code 12 || N.eqb code 6 || N.eqb code 23 || N.eqb code 15 then 422
  else if N.eqb code 20 || N.eqb code 17 || N.eqb code 18 then 409
  else if N.eqb code 9 then 405
  else if N.eqb code 11 then 401
  else if N.eqb code 5 then 404
  else if N.eqb code 14 then 403
  else if N.eqb code 16 then 204
  else 500.

Definition s_hash_pat : str := [35]%N.

(* which privilege, on which pattern, the handler checks when the request carries claims *)
Definition rest_requirement (r : rreq) : privilege * str :=
  match r with
  | RGet k => (PRead, k) | RPGet p => (PRead, p)
  | RSet k _ | RPublish k _ => (PWrite, k)
  | RDelete k => (PDelete, k) | RPDelete p => (PDelete, p)
  | RLs parent => (PRead, ls_pattern parent)
  | RExport => (PRead, s_hash_pat)
  | RImport _ => (PWrite, s_hash_pat)
  end.

Definition rest_op (r : rreq) : option op :=
  match r with
  | RGet k => Some (OGet k) | RPGet p => Some (OPGet p)
  | RSet k v => Some (OSet rest_cid k v false) | RPublish k v => Some (OPublish k v)
  | RDelete k => Some (ODelete rest_cid k) | RPDelete p => Some (OPDelete rest_cid p)
  | RLs parent => Some (OLs parent)
  | RImport j => Some (OImport j)
  | RExport => None
  end.

Definition rest_answer (r : rreq) (res : result) : rresp :=
  match res with
  | RErr code => RStatus (http_status code)
  | RCrash => RStatus 500
  | _ =>
      match r, res with
      | RGet _, RValue v => R200 (BJson v)
      | RDelete _, RValue v => R200 (BJson v)
      | (RPGet _ | RPDelete _), RKvs l => R200 (BKvs l)
      | RLs _, RNames l => R200 (BNames l)
      | _, _ => R200 BOk
      end
  end.

(* one request; the output of the core step (events for subscribers and so on) is returned as well *)
Definition rest_handle (auth_required : bool) (tok : rtoken) (s : core) (r : rreq) : core * output * rresp :=
  let refused :=
    if auth_required then
      match tok with
      | TNone => Some 401                           (* MissingToken *)
      | TInvalid => Some 403                        (* any other AuthorizationError *)
      | TClaims cl => let '(p, pat) := rest_requirement r in if authorize cl p pat then None else Some 403
      end
    else None in
  match refused with
  | Some st => (s, out_res RUnit, RStatus st)
  | None =>
      match rest_op r with
      | None => (s, out_res RUnit, R200 (BExport (enc_export (data s))))
      | Some o => let '(s', out) := step s o in (s', out, rest_answer r (o_res out))
      end
  end.
