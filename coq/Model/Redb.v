(* worterbuch/src/persistence/redb/mod.rs (StoreAction, run, update_value / delete_value with batch_process,
   update_grave_goods, update_last_will, clear, load = restore_entries + apply_pending_grave_goods +
   apply_pending_last_wills), persistence/mod.rs (PersistentStorageImpl::update_value / delete_value: what a change
   queues), worterbuch.rs (set 347-355, cset 386-398, delete 883-891, pdelete 926-935, import 697-713,
   disconnected 1370-1379).  redb's commit is atomic: trusted. *)
From WB Require Import Base.Str Base.Json Model.Key Model.Consts Model.Store Model.Entry Model.Core Model.Persist.

Inductive raction :=
| AUpd (k : str) (e : entry)                       (* StoreAction::Update: the entry as the REQUEST carried it *)
| ADel (k : str)
| AGG (c : cid) (g : option (list str))            (* UpdateGraveGoods *)
| ALW (c : cid) (l : option (list (str * json)))   (* UpdateLastWill *)
| AClear.

Record tables := Tables { t_v2 : list (str * entry); t_gg : list (cid * list str); t_lw : list (cid * list (str * json)) }.
Definition t_empty : tables := Tables [] [] [].

Fixpoint kv_set {V} (k : str) (v : V) (l : list (str * V)) : list (str * V) :=
  match l with
  | [] => [(k, v)]
  | (k', v') :: l' => if str_eqb k k' then (k, v) :: l' else (k', v') :: kv_set k v l'
  end.
Definition kv_del {V} (k : str) (l : list (str * V)) : list (str * V) := filter (fun kv => negb (str_eqb k (fst kv))) l.
(* the registration tables are keyed by the client id (iteration in key order) *)
Fixpoint c_set {V} (c : cid) (v : V) (l : list (cid * V)) : list (cid * V) :=
  match l with
  | [] => [(c, v)]
  | (c', v') :: l' => if N.eqb c c' then (c, v) :: l' else if N.ltb c c' then (c, v) :: (c', v') :: l' else (c', v') :: c_set c v l'
  end.
Definition c_del {V} (c : cid) (l : list (cid * V)) : list (cid * V) := filter (fun kv => negb (N.eqb c (fst kv))) l.

Definition apply_action (t : tables) (a : raction) : tables :=
  match a with
  | AUpd k e => Tables (kv_set k e (t_v2 t)) (t_gg t) (t_lw t)
  | ADel k => Tables (kv_del k (t_v2 t)) (t_gg t) (t_lw t)
  | AGG c (Some g) => Tables (t_v2 t) (c_set c g (t_gg t)) (t_lw t)
  | AGG c None => Tables (t_v2 t) (c_del c (t_gg t)) (t_lw t)
  | ALW c (Some l) => Tables (t_v2 t) (t_gg t) (c_set c l (t_lw t))
  | ALW c None => Tables (t_v2 t) (t_gg t) (c_del c (t_lw t))
  | AClear => t_empty
  end.
Definition apply_all (t : tables) (l : list raction) : tables := fold_left apply_action l t.

(* the writer task: one wake-up takes the first queued action; an Update or Delete also takes every Update / Delete
   queued right behind it into the same transaction (batch_process); anything else is a transaction of its own *)
Definition batchable (a : raction) : bool := match a with AUpd _ _ | ADel _ => true | _ => false end.
Fixpoint take_batch (avail : nat) (q : list raction) : list raction * list raction :=
  match avail, q with
  | S n, a :: q' => if batchable a then let '(b, r) := take_batch n q' in (a :: b, r) else ([], q)
  | _, _ => ([], q)
  end.
(* [avail]: how many further actions try_recv finds in the channel at that moment -- decided by the scheduler *)
Definition wake (avail : nat) (st : tables * list raction) : tables * list raction :=
  match snd st with
  | [] => st
  | a :: q =>
      if batchable a then let '(b, r) := take_batch avail q in (apply_all (apply_action (fst st) a) b, r)
      else (apply_action (fst st) a, q)
  end.
Fixpoint wakes (avails : list nat) (st : tables * list raction) : tables * list raction :=
  match avails with [] => st | n :: ns => wakes ns (wake n st) end.

(* ---- which actions a request queues (PersistentStorageImpl::update_value / delete_value) ---- *)
Definition is_reg_topic (leaf : str) (k : str) : bool :=
  match split slash k with
  | [_; s1; _; s3] => str_eqb s1 s_clients && str_eqb s3 leaf
  | _ => false
  end.

Definition upd_action (c : option cid) (k : str) (e : entry) : list raction :=
  if starts_with s_SYS_prefix k then
    match c with
    | Some c =>
        if is_reg_topic s_graveGoods k then
          [AGG c (match entry_val e with JNull => None | v => dec_grave_goods v end)]
        else if is_reg_topic s_lastWill k then
          [ALW c (match entry_val e with JNull => None | v => dec_last_will v end)]
        else []
    | None => []
    end
  else [AUpd k e].
(* the client a key $SYS/clients/<id>/.. belongs to (the inverse of client_str on the ids the model uses) *)
Definition hexval (d : N) : option N :=
  if (N.leb 48 d && N.leb d 57)%bool then Some (d - 48)
  else if (N.leb 97 d && N.leb d 102)%bool then Some (d - 87) else None.
Definition client_of_str (sg : str) : option cid :=
  if str_eqb sg uuid_nil then Some 0
  else if starts_with uuid_prefix sg then
    match skipn (length uuid_prefix) sg with
    | [h; l] => match hexval h, hexval l with Some a, Some b => Some (16 * a + b) | _, _ => None end
    | _ => None
    end
  else None.

(* PersistentStorageImpl::delete_value (after the repair of F28): a registration that a client withdraws by deleting its
   key leaves the registration table of its owner too; other $SYS keys are not persisted, and the server's own clean-up
   of $SYS/clients/<id>/# at a session end (client id 0) leaves the tables alone: they are cleared once the burial and
   the last will are queued *)
Definition reg_del (k : str) : list raction :=
  match split slash k with
  | [_; s1; cs; s3] =>
      if str_eqb s1 s_clients then
        match client_of_str cs with
        | Some c => if str_eqb s3 s_graveGoods then [AGG c None] else if str_eqb s3 s_lastWill then [ALW c None] else []
        | None => []
        end
      else []
  | _ => []
  end.
Definition del_action (c : cid) (k : str) : list raction :=
  if starts_with s_SYS_prefix k then (if N.eqb c 0 then [] else reg_del k) else [ADel k].

Definition entry_eqb' (a b : option entry) : bool :=
  match a, b with
  | Some x, Some y => entry_eqb x y
  | None, None => true
  | _, _ => false
  end.

(* the user entries a request removed resp. wrote, read off the two states (used for session ends, where the
   burial and the last will happen inside Worterbuch::disconnected) *)
Definition user_all (s : core) : list (list str * entry) :=
  filter (fun m => match fst m with p0 :: _ => negb (str_eqb p0 s_SYS) | [] => false end) (collect (data s) [] [Multi]).
Definition removed_keys (before after : core) : list raction :=
  flat_map (fun m => match lookup (data after) (fst m) with None => [ADel (key_of (fst m))] | Some _ => [] end) (user_all before).
Definition written_keys (before after : core) : list raction :=
  flat_map (fun m => if entry_eqb' (lookup (data before) (fst m)) (Some (snd m)) then [] else [AUpd (key_of (fst m)) (snd m)]) (user_all after).

(* registration keys of OTHER clients that a burial removed (a pattern whose first segment is a wildcard reaches them:
   F4): each deletion goes through delete_value with the ending client's id, which clears the table entry of the client
   named in the key (repair of F28).  The ending client's own keys are removed by the server (client id 0) before the
   burial: no action. *)
Definition not_own (c : cid) (a : raction) : bool :=
  match a with AGG c' _ | ALW c' _ => negb (N.eqb c c') | _ => true end.
Definition removed_regs (c : cid) (before after : core) : list raction :=
  filter (not_own c)
    (flat_map (fun m => match lookup (data after) (fst m) with None => reg_del (key_of (fst m)) | Some _ => [] end)
              (collect (data before) [] (sys_clients_pat s_graveGoods) ++ collect (data before) [] (sys_clients_pat s_lastWill))).

Definition actions_of (s : core) (o : op) : list raction :=
  let r := step s o in
  match o, o_res (snd r) with
  | OSet c k v _, RUnit => upd_action (Some c) k (Plain v)
  | OCSet c k v n _, RUnit => upd_action (Some c) k (Cas v n)          (* the version of the request, not the stored one: F13 *)
  | ODelete c k, RValue _ => del_action c k
  | OPDelete c _, RKvs l => flat_map (fun kv => del_action c (fst kv)) l
  | OImport _, RImported l => flat_map (fun x : str * entry * bool => if snd x then upd_action None (fst (fst x)) (snd (fst x)) else []) l
  | ODisconnected c, RUnit => removed_keys s (fst r) ++ removed_regs c s (fst r) ++ written_keys s (fst r) ++ [AGG c None; ALW c None]
  | _, _ => []
  end.

(* ---- load ---- *)
Definition recover (t : tables) : core :=
  (* restore_entries: store.insert(path, entry, force = true) for every row *)
  let s0 := fold_left (fun s kv => fst (do_insert s 0 (fst kv) (snd kv) true)) (t_v2 t) init in
  (* apply_pending_grave_goods: delete_matches per pattern, no read-only rule *)
  let s1 := fold_left (fun s cg => fold_left (fun s g => fst (do_pdelete s 0 true g)) (snd cg) s) (t_gg t) s0 in
  (* apply_pending_last_wills: insert_plain forced *)
  fold_left (fun s cl => fold_left (fun s kv => fst (do_insert s 0 (fst kv) (Plain (snd kv)) true)) (snd cl) s) (t_lw t) s1.

(* a whole run: the server's state, the actions queued so far *)
Fixpoint run_actions (s : core) (os : list op) : core * list raction :=
  match os with
  | [] => (s, [])
  | o :: os' => let '(s', acts) := run_actions (fst (step s o)) os' in (s', actions_of s o ++ acts)
  end.

(* what load leaves on disk: buried rows removed, last-will rows written, both registration tables dropped *)
Definition recover_tables (t : tables) : tables :=
  let s0 := fold_left (fun s kv => fst (do_insert s 0 (fst kv) (snd kv) true)) (t_v2 t) init in
  let s1 := fold_left (fun s cg => fold_left (fun s g => fst (do_pdelete s 0 true g)) (snd cg) s) (t_gg t) s0 in
  let kept := filter (fun kv => match lookup (data s1) (split slash (fst kv)) with Some _ => true | None => false end) (t_v2 t) in
  Tables (fold_left (fun v2 cl => fold_left (fun v2 kv => kv_set (fst kv) (Plain (snd kv)) v2) (snd cl) v2) (t_lw t) kept) [] [].

(* shutdown with persistence: apply_all_grave_goods_and_last_wills queues the deletes and writes it performs *)
Definition shutdown_actions (s : core) : core * list raction :=
  let s1 := apply_gglw s (all_grave_goods s) (all_last_wills s) in
  (s1, removed_keys s s1 ++ written_keys s s1).
