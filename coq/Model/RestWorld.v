(* A REST request against a server that also has socket sessions: the request runs on the one core, and what it
   causes -- subscription events, ls notifications, lock hand-overs -- is routed to the sessions like the traffic of a
   socket request (server/axum/mod.rs handlers call the same CloneableWbApi as the protocol handlers). *)
From WB Require Import Base.Str Base.Json Model.Key Model.Store Model.Entry Model.Core Model.Codec Model.Auth Model.Session Model.Persist Model.Rest.

Definition wrest (w : world) (tok : rtoken) (r : rreq) : world * list (N * smsg) * rresp :=
  let '(core', out, resp) := rest_handle (w_auth_required w) tok (w_core w) r in
  let w' := set_core w core' in
  (w', route_events w' out, resp).
