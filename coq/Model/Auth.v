(* worterbuch/src/auth.rs: pattern_matches (191-215), JwtClaims::authorize (52-161);
   server/common/protocol/v0.rs:30-256 and v1.rs:22-88: which privilege and which pattern each
   request kind is checked against. *)
From WB Require Import Base.Str Base.Json Model.Key Model.Consts Model.Codec.

(* granted pattern vs requested key/pattern, segment by segment *)
Fixpoint pm (g r : list kseg) : bool :=
  match g, r with
  | [], [] => true
  | Multi :: _, _ :: _ => true
  | [], _ | _, [] => false
  | gs :: g', rs :: r' =>
      if (kseg_eqb gs Wild && negb (kseg_eqb rs Multi)) || kseg_eqb gs rs then pm g' r' else false
  end.

Definition pattern_matches (g r : str) : bool := pm (kseg_parse g) (kseg_parse r).

Inductive privilege := PRead | PWrite | PDelete.

Record claims := Claims { c_read : list str; c_write : list str; c_delete : list str }.

Definition grants (c : claims) (p : privilege) : list str :=
  match p with PRead => c_read c | PWrite => c_write c | PDelete => c_delete c end.

Definition authorize (c : claims) (p : privilege) (pattern : str) : bool :=
  existsb (fun g => pattern_matches g pattern) (grants c p).

(* format!("{parent}/?") / "?" *)
Definition ls_pattern (parent : option str) : str :=
  match parent with Some p => p ++ [slash; ch_qmark] | None => [ch_qmark] end.

(* the check_auth table: None = served without a check (spub, unsubscribe, unsubscribeLs),
   protocol switch and authorization requests are handled before it *)
Definition auth_requirement (m : cmsg) : option (privilege * str) :=
  match m with
  | MGet _ k | MCGet _ k | MSubscribe _ k _ _ => Some (PRead, k)
  | MPGet _ p | MPSubscribe _ p _ _ _ => Some (PRead, p)
  | MSet _ k _ | MCSet _ k _ _ | MSPubInit _ k | MPublish _ k _
  | MLock _ k | MAcquireLock _ k | MReleaseLock _ k => Some (PWrite, k)
  | MDelete _ k => Some (PDelete, k)
  | MPDelete _ p _ => Some (PDelete, p)
  | MLs _ p | MSubscribeLs _ p => Some (PRead, ls_pattern p)
  | MPLs _ p => Some (PRead, ls_pattern p)
  | MSPub _ _ | MUnsubscribe _ | MUnsubscribeLs _ => None
  | MProtocolSwitchRequest _ | MAuthorizationRequest _ | MTransform _ _ _ => None
  end.
