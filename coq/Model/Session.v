(* server/common/protocol/{mod,v0,v1}.rs and the session life cycle of server/unix.rs (tcp.rs is the
   same): one connection = one client; every line is decoded and handled to completion before the
   next one is read.  A world is the core plus the sessions; [handle] returns the messages put on
   the wire, each with the session it goes to.  Subscription events and deferred lock answers are
   emitted by the request that causes them (the forwarding tasks only move them to the socket). *)
From WB Require Import Base.Str Base.Json Model.Key Model.Consts Model.Store Model.Subs Model.Entry Model.Core
  Model.CodecConsts Model.Codec Model.Auth.

Definition E_NotImplemented : N := 19.
Definition E_LockAcquisitionCancelled : N := 22.
Definition E_Unauthorized : N := 14.
Definition E_AlreadyAuthorized : N := 12.
Definition E_AuthorizationRequired : N := 11.
Definition E_ProtocolNegotiationFailed : N := 7.

Record sess := Sess {
  ss_open : bool;
  ss_proto : N;                     (* 0 or 1; a new session speaks the latest (1) *)
  ss_claims : option claims }.

Inductive subkind := KState | KPState (pattern : str) | KLs.

Record world := World {
  w_core : core;
  w_auth_required : bool;
  w_sess : list (N * sess);                         (* session number -> session; client id = number + 1 *)
  w_chan : list (N * (N * N * subkind));            (* channel instance -> (session, tid, kind) *)
  w_reqs : list (N * (N * N)) }.                    (* acquire request -> (session, tid) *)

Definition world_init (auth : bool) : world := World init auth [] [] [].
Definition cid_of (sn : N) : N := sn + 1.

Fixpoint lookup_n {A} (k : N) (l : list (N * A)) : option A :=
  match l with [] => None | (k', v) :: l' => if N.eqb k k' then Some v else lookup_n k l' end.
Definition update_n {A} (k : N) (v : A) (l : list (N * A)) : list (N * A) :=
  (k, v) :: filter (fun kv => negb (N.eqb k (fst kv))) l.

Definition sess_open (w : world) (sn : N) : bool :=
  match lookup_n sn (w_sess w) with Some s => ss_open s | None => false end.

(* what the forwarding tasks put on the wire for the channel traffic of one request *)
Definition route_events (w : world) (o : output) : list (N * smsg) :=
  flat_map (fun ie =>
              match lookup_n (fst ie) (w_chan w) with
              | Some (sn, tid, k) =>
                  if sess_open w sn then
                    match snd ie, k with
                    | EValue v, _ => [(sn, SState tid (SValue v))]
                    | EDeleted v, _ => [(sn, SState tid (SDeleted v))]
                    | EPValue kvs, KPState p => [(sn, SPState tid p (PKvs kvs))]
                    | EPDeleted kvs, KPState p => [(sn, SPState tid p (PDel kvs))]
                    | _, _ => []
                    end
                  else []
              | None => []
              end) (o_events o) ++
  flat_map (fun il =>
              match lookup_n (fst il) (w_chan w) with
              | Some (sn, tid, _) => if sess_open w sn then [(sn, SLsState tid (snd il))] else []
              | None => []
              end) (o_ls o) ++
  flat_map (fun r => match lookup_n r (w_reqs w) with
                     | Some (sn, tid) => if sess_open w sn then [(sn, SAck tid)] else []
                     | None => [] end) (o_granted o) ++
  flat_map (fun r => match lookup_n r (w_reqs w) with
                     | Some (sn, tid) => if sess_open w sn then [(sn, SErr tid E_LockAcquisitionCancelled []) ] else []
                     | None => [] end) (o_cancelled o).

Definition set_core (w : world) (c : core) : world := World c (w_auth_required w) (w_sess w) (w_chan w) (w_reqs w).

(* the request of a message as a core operation (process_api_call: force = false) *)
Definition op_of (c : cid) (m : cmsg) : option op :=
  match m with
  | MGet _ k => Some (OGet k) | MCGet _ k => Some (OCGet k) | MPGet _ p => Some (OPGet p)
  | MSet _ k v => Some (OSet c k v false) | MCSet _ k v ver => Some (OCSet c k v ver false)
  | MSPubInit t k => Some (OSPubInit c t k) | MSPub t v => Some (OSPub c t v) | MPublish _ k v => Some (OPublish k v)
  | MSubscribe t k u l => Some (OSubscribe c t k u (match l with Some b => b | None => false end))
  | MPSubscribe t p u _ l => Some (OPSubscribe c t p u (match l with Some b => b | None => false end))
  | MUnsubscribe t => Some (OUnsubscribe c t)
  | MDelete _ k => Some (ODelete c k) | MPDelete _ p _ => Some (OPDelete c p)
  | MLs _ p => Some (OLs p) | MPLs _ p => Some (OPLs p)
  | MSubscribeLs t p => Some (OSubscribeLs c t p) | MUnsubscribeLs t => Some (OUnsubscribeLs c t)
  | MLock _ k => Some (OLock c k) | MAcquireLock _ k => Some (OAcquire c k) | MReleaseLock _ k => Some (ORelease c k)
  | MProtocolSwitchRequest _ | MAuthorizationRequest _ | MTransform _ _ _ => None
  end.

Definition tid_of (m : cmsg) : N :=
  match m with
  | MProtocolSwitchRequest _ | MAuthorizationRequest _ => 0
  | MGet t _ | MCGet t _ | MPGet t _ | MSet t _ _ | MCSet t _ _ _ | MSPubInit t _ | MSPub t _ | MPublish t _ _
  | MSubscribe t _ _ _ | MPSubscribe t _ _ _ _ | MUnsubscribe t | MDelete t _ | MPDelete t _ _ | MLs t _ | MPLs t _
  | MSubscribeLs t _ | MUnsubscribeLs t | MLock t _ | MAcquireLock t _ | MReleaseLock t _ | MTransform t _ _ => t
  end.

(* messages of protocol v1 only: on a v0 session they are answered NotImplemented *)
Definition v1_only (m : cmsg) : bool :=
  match m with MCGet _ _ | MCSet _ _ _ _ | MLock _ _ | MAcquireLock _ _ | MReleaseLock _ _ => true | _ => false end.

(* the terminal answer to a request, from the core's result *)
Definition answer (m : cmsg) (r : result) : list smsg :=
  let t := tid_of m in
  match r with
  | RErr code => [SErr t code []]
  | RCrash => []
  | _ =>
      match m, r with
      | MGet _ _, RValue v => [SState t (SValue v)]
      | MCGet _ _, RCValue v ver => [SCState t v ver]
      | MPGet _ p, RKvs l => [SPState t p (PKvs l)]
      | MDelete _ _, RValue v => [SState t (SDeleted v)]
      | MPDelete _ p q, RKvs l => [SPState t p (PDel (match q with Some true => [] | _ => l end))]
      | (MLs _ _ | MPLs _ _), RNames l => [SLsState t l]
      | MAcquireLock _ _, RReq _ => []            (* answered when the lock is granted or the wait cancelled *)
      | _, _ => [SAck t]
      end
  end.

Inductive verdict := Continue | Close.

(* Proto::process_incoming_message for a decoded message *)
Definition handle (w : world) (sn : N) (m : cmsg) : world * list (N * smsg) * verdict :=
  match lookup_n sn (w_sess w) with
  | None => (w, [], Close)
  | Some s =>
      let c := cid_of sn in
      match m with
      | MProtocolSwitchRequest v =>
          if N.leb v 1
          then (World (w_core w) (w_auth_required w) (update_n sn (Sess true v (ss_claims s)) (w_sess w)) (w_chan w) (w_reqs w),
                [(sn, SAck 0)], Continue)
          else (w, [], Close)                                          (* ProtocolNegotiationFailed *)
      | MAuthorizationRequest _ => (w, [], Close)                      (* handled by [authorize] below *)
      | _ =>
          if (N.eqb (ss_proto s) 0 && v1_only m) || (match m with MTransform _ _ _ => true | _ => false end)
          then (w, [(sn, SErr (tid_of m) E_NotImplemented [])], Continue)
          else
          (* check_auth *)
          let denied :=
            if w_auth_required w then
              match auth_requirement m with
              | None => Some false
              | Some (p, pat) =>
                  match ss_claims s with
                  | None => None                                       (* AuthorizationRequired: the session ends *)
                  | Some cl => Some (negb (authorize cl p pat))
                  end
              end
            else Some false in
          match denied with
          | None => (w, [], Close)
          | Some true => (w, [(sn, SErr (tid_of m) E_Unauthorized [])], Continue)
          | Some false =>
              match op_of c m with
              | None => (w, [], Continue)
              | Some o =>
                  let inst := next_inst (w_core w) in
                  let req := next_req (w_core w) in
                  let '(core', out) := step (w_core w) o in
                  (* register the channel / request before its traffic is routed *)
                  let chan' := match m, o_res out with
                               | MSubscribe t _ _ _, RSub _ => (inst, (sn, t, KState)) :: w_chan w
                               | MPSubscribe t p _ _ _, RSub _ => (inst, (sn, t, KPState p)) :: w_chan w
                               | MSubscribeLs t _, RSub _ => (inst, (sn, t, KLs)) :: w_chan w
                               | _, _ => w_chan w
                               end in
                  let reqs' := match m, o_res out with
                               | MAcquireLock t _, RReq _ => (req, (sn, t)) :: w_reqs w
                               | _, _ => w_reqs w
                               end in
                  let w' := World core' (w_auth_required w) (w_sess w) chan' reqs' in
                  (* the Ack of a subscription precedes its events; other answers follow the traffic they caused *)
                  let ans := map (fun x => (sn, x)) (answer m (o_res out)) in
                  match m with
                  | MSubscribe _ _ _ _ | MPSubscribe _ _ _ _ _ | MSubscribeLs _ _ => (w', ans ++ route_events w' out, Continue)
                  | _ => (w', route_events w' out ++ ans, Continue)
                  end
              end
          end
      end
  end.

(* AuthorizationRequest with a token that validates to [cl] (None: invalid token) *)
Definition authorize_session (w : world) (sn : N) (cl : option claims) : world * list (N * smsg) * verdict :=
  match lookup_n sn (w_sess w) with
  | None => (w, [], Close)
  | Some s =>
      match ss_claims s with
      | Some _ => (w, [], Close)                                        (* AlreadyAuthorized *)
      | None =>
          match cl with
          | Some c => (World (w_core w) (w_auth_required w) (update_n sn (Sess true (ss_proto s) (Some c)) (w_sess w)) (w_chan w) (w_reqs w),
                       [(sn, SAuthorized 0)], Continue)
          | None => (w, [(sn, SErr 0 E_Unauthorized [])], Close)
          end
      end
  end.

(* serve(): connected, Welcome *)
Definition open_session (w : world) (sn : N) : world * list (N * smsg) :=
  let '(core', out) := step (w_core w) (OConnected (cid_of sn)) in
  let w' := World core' (w_auth_required w) (update_n sn (Sess true 1 None) (w_sess w)) (w_chan w) (w_reqs w) in
  (w', (sn, SWelcome [] [] [] (w_auth_required w) (client_str (cid_of sn))) :: route_events w' out).

(* the connection ends (for whatever reason): disconnected() *)
Definition close_session (w : world) (sn : N) : world * list (N * smsg) :=
  match lookup_n sn (w_sess w) with
  | None => (w, [])
  | Some s =>
      if ss_open s then
        let w0 := World (w_core w) (w_auth_required w) (update_n sn (Sess false (ss_proto s) (ss_claims s)) (w_sess w)) (w_chan w) (w_reqs w) in
        let '(core', out) := step (w_core w0) (ODisconnected (cid_of sn)) in
        let w' := set_core w0 core' in
        (w', route_events w' out)
      else (w, [])
  end.

(* The server closes its side of the socket when the last holder of the session's writer is gone.
   Every forwarding task of a subscription holds one; a subscriber that Worterbuch::disconnected does
   not find (a second subscribe under a transaction id that is still subscribed overwrote the first
   one's entry in Worterbuch.subscriptions: finding F24) keeps its task and therefore the socket. *)
Definition socket_held (w : world) (sn : N) : bool :=
  existsb (fun sb => N.eqb (s_client sb) (cid_of sn)) (all_subs (subs (w_core w))) ||
  existsb (fun l => N.eqb (l_client l) (cid_of sn)) (lssubs (w_core w)).

Inductive sevent :=
| SOpen (sn : N)
| SMsg (sn : N) (m : cmsg)
| SAuth (sn : N) (cl : option claims)
| SGarbage (sn : N)              (* a line that does not decode: the session ends *)
| SClose (sn : N).

Definition sstep (w : world) (e : sevent) : world * list (N * smsg) :=
  match e with
  | SOpen sn => open_session w sn
  | SMsg sn m =>
      if sess_open w sn then
        let '(w1, out, v) := handle w sn m in
        match v with
        | Continue => (w1, out)
        | Close => let '(w2, out2) := close_session w1 sn in (w2, out ++ out2)
        end
      else (w, [])
  | SAuth sn cl =>
      if sess_open w sn then
        let '(w1, out, v) := authorize_session w sn cl in
        match v with
        | Continue => (w1, out)
        | Close => let '(w2, out2) := close_session w1 sn in (w2, out ++ out2)
        end
      else (w, [])
  | SGarbage sn => if sess_open w sn then close_session w sn else (w, [])
  | SClose sn => close_session w sn
  end.
