(* The tasks and channels around the core (lib.rs run_in_regular_mode / process_api_call, server/tcp.rs serve loop,
   server/common/protocol/v0.rs subscribe / psubscribe / subscribe_ls):

   - every connection is served by its own task: it reads a line, posts ONE WbFunction into the api channel
     (mpsc, any number of producers), awaits the oneshot answer, writes the answer into the channel of its socket
     writer and only then reads the next line;
   - ONE task owns the Worterbuch value: it takes the WbFunctions out of the api channel one at a time
     (`recv = api_rx.recv() => process_api_call(..).await`), applies each to the core and fires the oneshot; what the
     request makes the core send to subscribers goes into the channel of each subscription (instance);
   - a subscribe request that was answered with a receiver is answered on the wire (Ack) and THEN a forwarding
     task is spawned which takes the events out of the subscription's channel one at a time and writes them into
     the channel of the socket writer.

   Which task runs next is the scheduler's choice: an execution is a list of [cev].  Channels are FIFO (tokio mpsc);
   that, and nothing about scheduling, is what this model assumes of the runtime.  Events that are not enabled are
   no-ops, so that [cstep] is total and every list of events is an execution. *)
From Coq Require Import NArith List.
Import ListNotations.
From WB Require Import Base.Str Base.Json Model.Key Model.Store Model.Subs Model.Entry Model.Core.
Local Open Scope N_scope.

Inductive item := IEv (e : event) | ILs (l : list str).
Inductive task := TIdle | TWait (o : op) | TDone (o : op) (r : result).
(* what is handed to a socket writer: the answer to a request, or one item of a subscription's channel *)
Inductive wmsg := WAns (o : op) (r : result) | WItem (inst : N) (x : item).

Definition upd {A} (k : N) (v : A) (f : N -> A) : N -> A := fun k' => if N.eqb k k' then v else f k'.

Record cw := CW {
  c_core : core;
  c_api : list (N * op);            (* the api channel, oldest first: (session, request) *)
  c_task : N -> task;               (* the serve loop of every session *)
  c_subq : N -> list item;          (* the channel of every subscription instance, oldest first *)
  c_owner : N -> option N;          (* instance -> session whose forwarding task reads it *)
  c_wire : N -> list wmsg;          (* session -> what its socket writer was handed, oldest first *)
  (* ghost history *)
  c_posted : list (N * op);         (* requests in the order they entered the api channel *)
  c_served : list (N * op) }.       (* requests in the order the core task applied them *)

Definition cinit : cw := CW init [] (fun _ => TIdle) (fun _ => []) (fun _ => None) (fun _ => []) [] [].

Definition items_of (out : output) : list (N * item) :=
  map (fun ie => (fst ie, IEv (snd ie))) (o_events out) ++ map (fun il => (fst il, ILs (snd il))) (o_ls out).
Definition for_inst (i : N) (xs : list (N * item)) : list item :=
  map snd (filter (fun ix => N.eqb (fst ix) i) xs).
(* Sender::send on every subscription channel concerned, in emission order *)
Definition push_all (q : N -> list item) (xs : list (N * item)) : N -> list item :=
  fun i => q i ++ for_inst i xs.

Inductive cev :=
| CPost (sn : N) (o : op)      (* the serve loop of sn reads a line and posts its request *)
| CServe                       (* the core task takes the next request and applies it *)
| CAnswer (sn : N)             (* the serve loop of sn wakes up with its answer: writes it, spawns the forwarder *)
| CForward (i : N).            (* the forwarding task of instance i moves one item *)

Definition cstep (w : cw) (e : cev) : cw :=
  match e with
  | CPost sn o =>
      match c_task w sn with
      | TIdle => CW (c_core w) (c_api w ++ [(sn, o)]) (upd sn (TWait o) (c_task w)) (c_subq w) (c_owner w) (c_wire w)
                    (c_posted w ++ [(sn, o)]) (c_served w)
      | _ => w
      end
  | CServe =>
      match c_api w with
      | [] => w
      | (sn, o) :: rest =>
          let r := step (c_core w) o in
          CW (fst r) rest (upd sn (TDone o (o_res (snd r))) (c_task w)) (push_all (c_subq w) (items_of (snd r)))
             (c_owner w) (c_wire w) (c_posted w) (c_served w ++ [(sn, o)])
      end
  | CAnswer sn =>
      match c_task w sn with
      | TDone o r =>
          CW (c_core w) (c_api w) (upd sn TIdle (c_task w)) (c_subq w)
             (match r with RSub i => upd i (Some sn) (c_owner w) | _ => c_owner w end)
             (upd sn (c_wire w sn ++ [WAns o r]) (c_wire w)) (c_posted w) (c_served w)
      | _ => w
      end
  | CForward i =>
      match c_owner w i, c_subq w i with
      | Some sn, x :: rest =>
          CW (c_core w) (c_api w) (c_task w) (upd i rest (c_subq w)) (c_owner w)
             (upd sn (c_wire w sn ++ [WItem i x]) (c_wire w)) (c_posted w) (c_served w)
      | _, _ => w
      end
  end.

Definition crun (es : list cev) : cw := fold_left cstep es cinit.

(* ---- what the serial run of the served requests says ---- *)
(* the requests with their answers *)
Fixpoint sres (s : core) (l : list (N * op)) : list (N * op * result) :=
  match l with
  | [] => []
  | (sn, o) :: l' => (sn, o, o_res (snd (step s o))) :: sres (fst (step s o)) l'
  end.
(* everything the core put into the channel of instance i *)
Fixpoint emitted (i : N) (s : core) (l : list op) : list item :=
  match l with
  | [] => []
  | o :: l' => for_inst i (items_of (snd (step s o))) ++ emitted i (fst (step s o)) l'
  end.

(* projections of a wire *)
Definition ans_proj (l : list wmsg) : list (op * result) :=
  flat_map (fun m => match m with WAns o r => [(o, r)] | _ => [] end) l.
Definition item_proj (i : N) (l : list wmsg) : list item :=
  flat_map (fun m => match m with WItem j x => if N.eqb j i then [x] else [] | _ => [] end) l.
Definition mine (sn : N) (l : list (N * op * result)) : list (op * result) :=
  flat_map (fun x => if N.eqb (fst (fst x)) sn then [(snd (fst x), snd x)] else []) l.
Definition done_of (t : task) : list (op * result) := match t with TDone o r => [(o, r)] | _ => [] end.
Definition handed (l : list (N * op * result)) : list N :=
  flat_map (fun x => match snd x with RSub i => [i] | _ => [] end) l.
