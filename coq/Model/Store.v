(* worterbuch/src/store.rs -- the tree of Node<K,V> (137-273) and the Store operations.
   Children (a hashbrown HashMap) are an association list in insertion order; every
   multi-element output is compared up to permutation.  `tree: None` and `Some(empty)`
   are identified (no operation of the store distinguishes them, only serde does). *)
From WB Require Import Base.Str Model.Key.

Inductive node (V : Type) := Node (v : option V) (cs : list (str * node V)).
Arguments Node {V}.

Definition nval {V} (n : node V) : option V := match n with Node v _ => v end.
Definition nkids {V} (n : node V) : list (str * node V) := match n with Node _ cs => cs end.
Definition empty_node {V} : node V := Node None [].

Fixpoint find_child {A} (k : str) (cs : list (str * A)) : option A :=
  match cs with
  | [] => None
  | (k', c) :: cs' => if str_eqb k k' then Some c else find_child k cs'
  end.

(* get_or_create_child + modification of that child (store.rs:177-186) *)
Fixpoint upd_child {A} (d : A) (k : str) (f : A -> A) (cs : list (str * A)) : list (str * A) :=
  match cs with
  | [] => [(k, f d)]
  | (k', c) :: cs' => if str_eqb k k' then (k', f c) :: cs' else (k', c) :: upd_child d k f cs'
  end.

(* get_child_mut + modification (173-175) *)
Fixpoint mod_child {A} (k : str) (f : A -> A) (cs : list (str * A)) : list (str * A) :=
  match cs with
  | [] => []
  | (k', c) :: cs' => if str_eqb k k' then (k', f c) :: cs' else (k', c) :: mod_child k f cs'
  end.

(* is_obsolete (218-220), trim (201-214) *)
Definition is_obsolete {V} (n : node V) : bool :=
  match n with Node None [] => true | _ => false end.
Definition trim_kids {V} (cs : list (str * node V)) : list (str * node V) :=
  filter (fun kc => negb (is_obsolete (snd kc))) cs.
Definition any_obsolete {V} (cs : list (str * node V)) : bool :=
  existsb (fun kc => is_obsolete (snd kc)) cs.

Definition names {A} (cs : list (str * A)) : list str := map fst cs.

(* is_clean (227-238) *)
Fixpoint is_clean {V} (n : node V) : bool :=
  match n with
  | Node v cs =>
      match cs with
      | [] => match v with Some _ => true | None => false end
      | _ => (fix go (cs : list (str * node V)) : bool :=
                match cs with
                | [] => true
                | (_, c) :: cs' => is_clean c && go cs'
                end) cs
      end
  end.
(* Store::delete/delete_matches: debug_assert!(data.is_empty() || data.is_clean()) *)
Definition root_ok {V} (n : node V) : bool :=
  match nkids n with [] => true | _ => is_clean n end.

(* get_node (328-336) *)
Fixpoint get_node {V} (n : node V) (p : list str) : option (node V) :=
  match p with
  | [] => Some n
  | k :: p' => match find_child k (nkids n) with
               | Some c => get_node c p'
               | None => None
               end
  end.

Definition lookup {V} (n : node V) (p : list str) : option V :=
  match get_node n p with Some m => nval m | None => None end.

(* the node creation loop of insert (755-769) followed by set_value (821) *)
Fixpoint set_at {V} (p : list str) (e : V) (n : node V) : node V :=
  match p with
  | [] => Node (Some e) (nkids n)
  | k :: p' => Node (nval n) (upd_child empty_node k (set_at p' e) (nkids n))
  end.

(* the prefixes path[0..i] at which insert created a child (755-766), outermost first *)
Fixpoint created_at {V} (pre : list str) (p : list str) (n : option (node V)) : list (list str) :=
  match p with
  | [] => []
  | k :: p' =>
      match n with
      | Some m => match find_child k (nkids m) with
                  | Some c => created_at (pre ++ [k]) p' (Some c)
                  | None => pre :: created_at (pre ++ [k]) p' (@None (node V))
                  end
      | None => pre :: created_at (pre ++ [k]) p' (@None (node V))
      end
  end.

(* Store::ls / ls_root (845-860): children names of the node at p *)
Definition ls_at {V} (n : node V) (p : list str) : option (list str) :=
  match get_node n p with Some m => Some (names (nkids m)) | None => None end.

(* ndelete (414-449): new tree *)
Fixpoint del_at {V} (p : list str) (n : node V) : node V :=
  match p with
  | [] => Node None (nkids n)
  | k :: p' => match find_child k (nkids n) with
               | Some _ => Node (nval n) (trim_kids (mod_child k (del_at p') (nkids n)))
               | None => n
               end
  end.

(* ndelete: (parent prefix, new children) recorded where trim() removed something, deepest first (434-444) *)
Fixpoint del_notes {V} (pre : list str) (p : list str) (n : node V) : list (list str * list str) :=
  match p with
  | [] => []
  | k :: p' =>
      match find_child k (nkids n) with
      | Some c =>
          del_notes (pre ++ [k]) p' c ++
          (let kids' := mod_child k (del_at p') (nkids n) in
           if any_obsolete kids' then [(pre, names (trim_kids kids'))] else [])
      | None => []
      end
  end.

Definition opt_list {A} (o : option A) : list A := match o with Some x => [x] | None => [] end.

(* ncollect_matches (557-658) for patterns the traversal accepts; a `#` that is not last
   matches nothing here, the error it raises when reached is [reach_bad]. *)
Fixpoint collect {V} (n : node V) (trav : list str) (pat : list kseg) {struct n}
  : list (list str * V) :=
  match n with
  | Node v cs =>
      match pat with
      | [] => map (fun x => (trav, x)) (opt_list v)
      | Multi :: [] =>
          map (fun x => (trav, x)) (opt_list v) ++
          (fix go (cs : list (str * node V)) : list (list str * V) :=
             match cs with
             | [] => []
             | (k, c) :: cs' => collect c (trav ++ [k]) [Multi] ++ go cs'
             end) cs
      | Multi :: _ => []
      | Wild :: tail =>
          (fix go (cs : list (str * node V)) : list (list str * V) :=
             match cs with
             | [] => []
             | (k, c) :: cs' => collect c (trav ++ [k]) tail ++ go cs'
             end) cs
      | Reg s :: tail =>
          (fix go (cs : list (str * node V)) : list (list str * V) :=
             match cs with
             | [] => []
             | (k, c) :: cs' => if str_eqb s k then collect c (trav ++ [s]) tail else go cs'
             end) cs
      end
  end.

(* does the traversal of ncollect_matches / ndelete_matches reach a `#` followed by more
   segments (578-586, 471-479)?  Then the request fails with IllegalMultiWildcard. *)
Fixpoint reach_bad {V} (n : node V) (pat : list kseg) {struct n} : bool :=
  match n with
  | Node v cs =>
      match pat with
      | [] => false
      | Multi :: [] => false
      | Multi :: _ => true
      | Wild :: tail =>
          (fix go (cs : list (str * node V)) : bool :=
             match cs with
             | [] => false
             | (_, c) :: cs' => reach_bad c tail || go cs'
             end) cs
      | Reg s :: tail =>
          (fix go (cs : list (str * node V)) : bool :=
             match cs with
             | [] => false
             | (k, c) :: cs' => if str_eqb s k then reach_bad c tail else go cs'
             end) cs
      end
  end.

(* the ls notifications the `#` branch of ncollect_matches records when called from a delete
   (593-603): one (path, []) per child, for the node and every node below it *)
Fixpoint multi_notes {V} (n : node V) (trav : list str) {struct n} : list (list str * list str) :=
  match n with
  | Node _ cs =>
      (fix go (cs : list (str * node V)) : list (list str * list str) :=
         match cs with
         | [] => []
         | (k, c) :: cs' => (trav, []) :: multi_notes c (trav ++ [k]) ++ go cs'
         end) cs
  end.

Record delm_res (V : Type) := DelmRes {
  dr_node : node V;
  dr_matches : list (list str * V);
  dr_notes : list (list str * list str) }.
Arguments DelmRes {V}. Arguments dr_node {V}. Arguments dr_matches {V}. Arguments dr_notes {V}.

(* the notes of the `?` loop of ndelete_matches (490-503): after each child, node.trim() and,
   if it removed something, (path, remaining children); [done] = processed children that
   survived, the rest of [rs] are still unprocessed *)
Fixpoint wild_notes {V} (trav : list str) (done : list (str * node V))
         (rs : list (str * node V * delm_res V)) : list (list str * list str) :=
  match rs with
  | [] => []
  | (k, _, r) :: rs' =>
      let all := done ++ (k, dr_node r) :: map (fun x => (fst (fst x), snd (fst x))) rs' in
      dr_notes r ++
      (if any_obsolete all then [(trav, names (trim_kids all))] else []) ++
      wild_notes trav (trim_kids (done ++ [(k, dr_node r)])) rs'
  end.

(* ndelete_matches / ndelete_child_matches (451-555) *)
Fixpoint delm {V} (n : node V) (trav : list str) (pat : list kseg) {struct n} : delm_res V :=
  match n with
  | Node v cs =>
      match pat with
      | [] => DelmRes (Node None cs) (map (fun x => (trav, x)) (opt_list v)) []
      | Multi :: [] => DelmRes (Node None []) (collect n trav [Multi]) (multi_notes n trav)
      | Multi :: _ => DelmRes n [] []
      | Wild :: tail =>
          (* for id in node.ls_owned(): child recursion, then node.trim() *)
          let rs :=
            (fix go (cs : list (str * node V)) : list (str * node V * delm_res V) :=
               match cs with
               | [] => []
               | (k, c) :: cs' => (k, c, delm c (trav ++ [k]) tail) :: go cs'
               end) cs in
          DelmRes (Node v (trim_kids (map (fun x => (fst (fst x), dr_node (snd x))) rs)))
                  (flat_map (fun x => dr_matches (snd x)) rs)
                  (wild_notes trav [] rs)
      | Reg s :: tail =>
          let r :=
            (fix go (cs : list (str * node V)) : option (delm_res V) :=
               match cs with
               | [] => None
               | (k, c) :: cs' => if str_eqb s k then Some (delm c (trav ++ [s]) tail) else go cs'
               end) cs in
          match r with
          | Some rc =>
              let kids := mod_child s (fun _ => dr_node rc) cs in
              DelmRes (Node v (trim_kids kids)) (dr_matches rc)
                      (dr_notes rc ++ (if any_obsolete kids then [(trav, names (trim_kids kids))] else []))
          | None => DelmRes (Node v (trim_kids cs)) [] []
          end
      end
  end.

(* ncollect_matching_children (660-724): union of the children of all nodes matching the pattern *)
Fixpoint collect_children {V} (n : node V) (pat : list kseg) {struct n} : list str :=
  match n with
  | Node v cs =>
      match pat with
      | [] => names cs
      | Multi :: _ => []
      | Wild :: tail =>
          (fix go (cs : list (str * node V)) : list str :=
             match cs with
             | [] => []
             | (_, c) :: cs' => collect_children c tail ++ go cs'
             end) cs
      | Reg s :: tail =>
          (fix go (cs : list (str * node V)) : list str :=
             match cs with
             | [] => []
             | (k, c) :: cs' => if str_eqb s k then collect_children c tail else go cs'
             end) cs
      end
  end.
(* pls fails as soon as the traversal reaches any `#` (677-684) *)
Fixpoint reach_multi {V} (n : node V) (pat : list kseg) {struct n} : bool :=
  match n with
  | Node v cs =>
      match pat with
      | [] => false
      | Multi :: _ => true
      | Wild :: tail =>
          (fix go (cs : list (str * node V)) : bool :=
             match cs with
             | [] => false
             | (_, c) :: cs' => reach_multi c tail || go cs'
             end) cs
      | Reg s :: tail =>
          (fix go (cs : list (str * node V)) : bool :=
             match cs with
             | [] => false
             | (k, c) :: cs' => if str_eqb s k then reach_multi c tail else go cs'
             end) cs
      end
  end.

(* ncount_values (916-924) *)
Fixpoint count_values {V} (n : node V) : N :=
  match n with
  | Node v cs =>
      (match v with Some _ => 1 | None => 0 end) +
      (fix go (cs : list (str * node V)) : N :=
         match cs with
         | [] => 0
         | (_, c) :: cs' => count_values c + go cs'
         end) cs
  end.

(* all entries, depth first *)
Fixpoint entries {V} (n : node V) (trav : list str) {struct n} : list (list str * V) :=
  match n with
  | Node v cs =>
      map (fun x => (trav, x)) (opt_list v) ++
      (fix go (cs : list (str * node V)) : list (list str * V) :=
         match cs with
         | [] => []
         | (k, c) :: cs' => entries c (trav ++ [k]) ++ go cs'
         end) cs
  end.

(* Node::strip (163-167) *)
Definition strip_sys {V} (sys : str) (n : node V) : node V :=
  Node (nval n) (filter (fun kc => negb (str_eqb (fst kc) sys)) (nkids n)).
