(* generated: file names of the JSON persistence *)
From WB Require Import Base.Str.
Definition f_toggle : str := [46;116;111;103;103;108;101]%N.
Definition f_last : str := [108;97;115;116;45;112;101;114;115;105;115;116;101;100]%N.
Definition f_store_a : str := [115;116;111;114;101;46;97;46;106;115;111;110]%N.
Definition f_store_b : str := [115;116;111;114;101;46;98;46;106;115;111;110]%N.
Definition f_gglw_a : str := [103;103;108;119;46;97;46;106;115;111;110]%N.
Definition f_gglw_b : str := [103;103;108;119;46;98;46;106;115;111;110]%N.
Definition sfx_sum : str := [46;115;104;97;50;53;54]%N.
Definition sfx_tmp : str := [46;116;109;112]%N.
Definition n_grave_goods : str := [103;114;97;118;101;95;103;111;111;100;115]%N.
Definition n_last_will : str := [108;97;115;116;95;119;105;108;108]%N.
Definition f2_store_a : str := [46;115;116;111;114;101;46;97;46;106;115;111;110]%N.
Definition f2_store_b : str := [46;115;116;111;114;101;46;98;46;106;115;111;110]%N.
Definition f2_gglw_a : str := [46;103;103;108;119;46;97;46;106;115;111;110]%N.
Definition f2_gglw_b : str := [46;103;103;108;119;46;98;46;106;115;111;110]%N.
Definition f1_json : str := [46;115;116;111;114;101;46;106;115;111;110]%N.
Definition f1_json_t : str := [46;115;116;111;114;101;46;106;115;111;110;126]%N.
Definition f1_sha : str := [46;115;116;111;114;101;46;115;104;97]%N.
Definition f1_sha_t : str := [46;115;116;111;114;101;46;115;104;97;126]%N.
