(* lib.rs PeerMessage / Vote / Heartbeat / VoteRequest / VoteResponse / HeartbeatRequest / HeartbeatResponse /
   Priority as serde derives read them (externally tagged, camelCase; structs as maps or sequences; Priority is a
   newtype over i64) -- the decoder election.rs recv_peer_msg applies to every datagram. *)
From WB Require Import Base.Str Base.Json Model.Entry Model.Codec Model.Election.
From Coq Require Import ZArith.

Definition e_vote : str := [118;111;116;101].
Definition e_heartbeat : str := [104;101;97;114;116;98;101;97;116].
Definition e_request : str := [114;101;113;117;101;115;116].
Definition e_response : str := [114;101;115;112;111;110;115;101].
Definition e_nodeId : str := [110;111;100;101;73;100].
Definition e_priority : str := [112;114;105;111;114;105;116;121].

(* serde_json's integer reader as seen by an i64 visitor: `-0`, fractions, exponents and out-of-range values are errors *)
Definition i64_of_lit (l : str) : option Z :=
  match l with
  | [] => None
  | 45 :: ds =>
      match ds with
      | [] => None
      | _ => match digits_val ds 0 with
             | Some n => if N.eqb n 0 then None else if N.leb n 9223372036854775808 then Some (- Z.of_N n)%Z else None
             | None => None
             end
      end
  | _ => match digits_val l 0 with
         | Some n => if N.leb n 9223372036854775807 then Some (Z.of_N n) else None
         | None => None
         end
  end.

Definition as_i64 (j : json) : option Z := match j with JNum l => i64_of_lit l | _ => None end.

Definition node_of (names : list str) (body : json) : option (list (str * json) * str) :=
  match as_fields names body with
  | Some fs => match get_str fs e_nodeId with Some id => Some (fs, id) | None => None end
  | None => None
  end.

(* recv_peer_msg deserializes an Option<PeerMessage>: JSON null is None and is skipped like an empty datagram *)
Definition dec_pmsg (j : json) : pmsg :=
  match j with
  | JNull => Empty
  | JObj [(tag, JObj [(kind, body)])] =>
      if str_eqb tag e_vote then
        if str_eqb kind e_request then
          match node_of [e_nodeId; e_priority] body with
          | Some (fs, id) =>
              match assoc e_priority fs with
              | Some pj => match as_i64 pj with Some p => VoteReq id p | None => Garbage end
              | None => Garbage
              end
          | None => Garbage
          end
        else if str_eqb kind e_response then
          match node_of [e_nodeId] body with Some (_, id) => VoteResp id | None => Garbage end
        else Garbage
      else if str_eqb tag e_heartbeat then
        if str_eqb kind e_request then
          match node_of [e_nodeId] body with Some (_, id) => HbReq id | None => Garbage end
        else if str_eqb kind e_response then
          match node_of [e_nodeId] body with Some (_, id) => HbResp id | None => Garbage end
        else Garbage
      else Garbage
  | _ => Garbage
  end.
