(* worterbuch/src/worterbuch.rs:76-248 PStateAggregatorState (aggregate, send_current_state,
   schedule_send, key_already_buffered) on a virtual clock.  An action is the arrival of an event at
   the current time or the passing of time; after each action the task runs until it is idle: every
   timer that is due has fired and its tick has been processed.  [b_at] (arrival time of a buffered
   entry) is ghost state for the delay theorem; the code does not store it. *)
From WB Require Import Base.Str Base.Json.

Inductive pev := AKvs (kvs : list (str * json)) | ADel (kvs : list (str * json)).

Record bent := BEnt { b_key : str; b_val : json; b_at : N }.

Record agg := Agg {
  set_buf : list bent;            (* LinkedHashMap in insertion order *)
  del_buf : list bent;
  scheduled : bool;               (* send_is_scheduled *)
  timers : list N;                (* due times of the sleeping trigger tasks *)
  now : N;
  interval : N }.

Definition agg_init (d : N) : agg := Agg [] [] false [] 0 d.

Definition has_key (k : str) (b : list bent) : bool := existsb (fun e => str_eqb (b_key e) k) b.

(* key_already_buffered (188-194) *)
Definition already_buffered (a : agg) (kvs : list (str * json)) : bool :=
  existsb (fun kv => has_key (fst kv) (set_buf a)) kvs || existsb (fun kv => has_key (fst kv) (del_buf a)) kvs.

Definition out_of (b : list bent) : list (str * json) := map (fun e => (b_key e, b_val e)) b.

(* send_current_state (150-162): the set batch, then the deleted batch *)
Definition send_current_state (a : agg) : agg * list pev :=
  (Agg [] [] false (timers a) (now a) (interval a),
   (match set_buf a with [] => [] | b => [AKvs (out_of b)] end) ++
   (match del_buf a with [] => [] | b => [ADel (out_of b)] end)).

(* LinkedHashMap::insert of a key that is present replaces the value in place *)
Fixpoint buf_insert (k : str) (v : json) (t : N) (b : list bent) : list bent :=
  match b with
  | [] => [BEnt k v t]
  | e :: b' => if str_eqb (b_key e) k then BEnt k v (b_at e) :: b' else e :: buf_insert k v t b'
  end.

(* aggregate (116-148) *)
Definition arrive (a : agg) (ev : pev) : agg * list pev :=
  let a1 := if scheduled a then a
            else Agg (set_buf a) (del_buf a) true (timers a ++ [now a + interval a]) (now a) (interval a) in
  match ev with
  | AKvs kvs =>
      let '(a2, out) := if (match del_buf a1 with [] => false | _ => true end) || already_buffered a1 kvs
                        then send_current_state a1 else (a1, []) in
      (Agg (fold_left (fun b kv => buf_insert (fst kv) (snd kv) (now a2) b) kvs (set_buf a2)) (del_buf a2)
           (scheduled a2) (timers a2) (now a2) (interval a2), out)
  | ADel kvs =>
      let '(a2, out) := if (match set_buf a1 with [] => false | _ => true end) || already_buffered a1 kvs
                        then send_current_state a1 else (a1, []) in
      (Agg (set_buf a2) (fold_left (fun b kv => buf_insert (fst kv) (snd kv) (now a2) b) kvs (del_buf a2))
           (scheduled a2) (timers a2) (now a2) (interval a2), out)
  end.

(* time passes: every timer that is due fires; each tick is a send_current_state *)
Fixpoint fire (n : nat) (a : agg) : agg * list pev :=
  match n with
  | O => (a, [])
  | S n' => let '(a1, o1) := send_current_state a in
            let '(a2, o2) := fire n' a1 in (a2, o1 ++ o2)
  end.

Definition advance (a : agg) (dt : N) : agg * list pev :=
  let t := now a + dt in
  let due := filter (fun x => N.leb x t) (timers a) in
  let rest := filter (fun x => negb (N.leb x t)) (timers a) in
  fire (length due) (Agg (set_buf a) (del_buf a) (scheduled a) rest t (interval a)).

Inductive action := Arrive (ev : pev) | Advance (dt : N).

Definition agg_step (a : agg) (x : action) : agg * list pev :=
  match x with Arrive ev => arrive a ev | Advance dt => advance a dt end.

Fixpoint agg_run (a : agg) (xs : list action) : list (list pev) :=
  match xs with
  | [] => []
  | x :: xs' => let '(a', o) := agg_step a x in o :: agg_run a' xs'
  end.
Definition agg_final (a : agg) (xs : list action) : agg := fold_left (fun a x => fst (agg_step a x)) xs a.
